/-
C01 helper lemmas, part 10: stage 3 continued - the effect of `do_action` on what a layer position may
hold (transparent and use-defsrc items, one-shot keys, `fork`s of these, and everything that may be
nested in `multi`), and what a dequeued press does on the stage-3 fragment (`dequeue_press_K`).
-/
import KVerif.Lemmas.QuiesceUnion3
namespace KVerif.QU3
open KVerif.L KVerif.C06 KVerif.Quiesce KVerif.QU

/-! ## the `OneShotState` across a press: what is kept -/

/-- with delay `d`, pause `≤ d` and load `≤ B + 1` before: the same after; deferred releases are only
withdrawn for the pressed coordinate; "nothing deferred while no one-shot key is active" is kept -/
def OshK (B : Nat) (c : Coord) (o o' : OneShotState) : Prop :=
  ∀ d, o.pauseInputProcessingDelay = d → o.pauseInputProcessingTicks ≤ d → oshLoad o ≤ B + 1 →
    o'.pauseInputProcessingDelay = d ∧ o'.pauseInputProcessingTicks ≤ d ∧
    oshLoad o' ≤ B + 1 ∧ (∀ x ∈ o.releasedKeys, x ∈ o'.releasedKeys ∨ x = c) ∧
    ((o.keys = [] → o.releasedKeys = [] ∧ o.releaseOnNextTick = false) →
      (o'.keys = [] → o'.releasedKeys = [] ∧ o'.releaseOnNextTick = false))

theorem OshK.trans {B : Nat} {c : Coord} {a b e : OneShotState} (h1 : OshK B c a b) (h2 : OshK B c b e) : OshK B c a e := by
  intro d g2 g3 g4
  obtain ⟨b2, b3, b4, b5, b6⟩ := h1 d g2 g3 g4
  obtain ⟨e2, e3, e4, e5, e6⟩ := h2 d b2 b3 b4
  refine ⟨e2, e3, e4, fun x hx => ?_, fun hi => e6 (b6 hi)⟩
  rcases b5 x hx with g | g
  · exact e5 x g
  · exact Or.inr g

theorem OshK.ofIn {B : Nat} {c : Coord} {o o' : OneShotState} (h : OshIn o o') : OshK B c o o' := by
  intro d g2 g3 g4
  refine ⟨h.delay.trans g2, ?_, Nat.le_trans h.load g4, fun x hx => Or.inl (h.rk ▸ hx),
    fun hi hk => by rw [h.rk, h.rnt]; exact hi (h.keys ▸ hk)⟩
  rcases h.pause with g | g
  · rw [g]; exact g3
  · rw [g, g2]; exact Nat.le_refl _

theorem OshK.ofOp {B : Nat} {c : Coord} {o o' : OneShotState} {ov : Option Coord} (op : OshOpT B o c o' ov) :
    OshK B c o o' := by
  cases op with
  | other => exact OshK.ofIn (OshIn.other o c)
  | activate T v hT =>
    intro d g2 g3 g4
    obtain ⟨a1, _, _, _, a5, a6, _, _⟩ := activate_fields o c T v
    obtain ⟨l1, l2, _⟩ := activate_load o c T v
    refine ⟨a5.trans g2, by rw [l2]; exact g3, by omega, fun x hx => ?_, fun _ hk => absurd hk a1⟩
    rw [a6]
    exact (handlePress_osk_fields o c).2.2.2.1 x hx
  | skip => exact fun d g2 g3 g4 => ⟨g2, g3, g4, fun x hx => Or.inl hx, fun hi => hi⟩

/-- **the outcome of a press on the stage-3 fragment**: `extra_waiting`, eager tap-dance, action queue,
sequences and configuration are untouched; states are only added, at the pressed coordinate; the
`OneShotState` keeps its bounds (`OshK`); at most one release (of a one-shot key that fell out of the
table of 16) is queued; either nothing waits afterwards or the pressed key is the undecided tap-hold
key (countdown at most `T`); the quick-tap window is at most `max old I` -/
structure PressK (T I B : Nat) (c : Coord) (s s' : Layout) : Prop where
  extra : s'.extraWaiting = s.extraWaiting
  tde : s'.tapDanceEager = s.tapDanceEager
  aq : s'.actionQueue = s.actionQueue
  seqs : s.activeSequences = [] → s'.activeSequences = []
  cfg : s'.cfg = s.cfg
  adds : ∀ st ∈ s'.states, st ∈ s.states ∨ (st.coord = some c ∧ StOK4 st)
  osh : OshK B c s.oneshot s'.oneshot
  queue : ∃ ov, s'.queue = s.queue ++ ovq ov
  wait : s'.waiting = none ∨ ∃ w, s'.waiting = some w ∧ w.coord = c ∧ WOK T w
  lpt : s'.lptTapHoldTimeout ≤ max s.lptTapHoldTimeout I

theorem PressK.ofO {T I B : Nat} {c : Coord} {s s' : Layout} (h : EffO T I c s s') : PressK T I B c s s' :=
  ⟨h.extra, h.eff.tde, h.eff.aq, h.eff.seqs, h.eff.cfg, h.eff.adds, OshK.ofIn h.eff.osh,
   ⟨none, by rw [h.eff.queue]; simp [ovq]⟩, h.wait, h.eff.lpt⟩

theorem PressK.ofU {T I B : Nat} {c : Coord} {s s' : Layout} (h : PressU T I B c s s') : PressK T I B c s s' := by
  obtain ⟨ov, op, hq⟩ := h.osh
  refine ⟨h.frame.extra, h.frame.tde, h.frame.aq, fun g => h.frame.seqs.trans g, h.frame.cfg,
    fun st hst => (h.adds.new st hst).imp id (fun g => ⟨g.1, StOK4.of g.2⟩), OshK.ofOp op, ⟨ov, hq⟩, ?_, ?_⟩
  · rcases h.wait with ⟨g, _⟩ | ⟨w, g1, g2, g3, _⟩
    · exact Or.inl g
    · exact Or.inr ⟨w, g1, g2, g3⟩
  · rcases h.wait with ⟨_, g⟩ | ⟨_, _, _, _, g⟩
    · exact Nat.le_trans g (Nat.le_max_left _ _)
    · exact Nat.le_trans g (Nat.le_max_right _ _)

theorem EffZ.thenK {T I B : Nat} {c : Coord} {a b e : Layout} (h1 : EffZ I c a b) (h2 : PressK T I B c b e) :
    PressK T I B c a e := by
  obtain ⟨ov, hq⟩ := h2.queue
  refine ⟨h2.extra.trans h1.extra, h2.tde.trans h1.eff.tde, h2.aq.trans h1.eff.aq, fun g => h2.seqs (h1.eff.seqs g),
    h2.cfg.trans h1.eff.cfg, fun st hst => ?_, (OshK.ofIn h1.eff.osh).trans h2.osh, ⟨ov, by rw [hq, h1.eff.queue]⟩,
    h2.wait, ?_⟩
  · rcases h2.adds st hst with g | g
    · exact h1.eff.adds st g
    · exact Or.inr g
  · have := h1.eff.lpt; have := h2.lpt; omega

theorem PressK.thenZ {T I B : Nat} {c : Coord} {a b e : Layout} (h1 : PressK T I B c a b) (h2 : EffZ I c b e) :
    PressK T I B c a e := by
  obtain ⟨ov, hq⟩ := h1.queue
  refine ⟨h2.extra.trans h1.extra, h2.eff.tde.trans h1.tde, h2.eff.aq.trans h1.aq, fun g => h2.eff.seqs (h1.seqs g),
    h2.eff.cfg.trans h1.cfg, fun st hst => ?_, h1.osh.trans (OshK.ofIn h2.eff.osh), ⟨ov, by rw [h2.eff.queue, hq]⟩,
    by rw [h2.waiting]; exact h1.wait, ?_⟩
  · rcases h2.eff.adds st hst with g | g
    · exact h1.adds st g
    · exact Or.inr g
  · have := h1.lpt; have := h2.eff.lpt; omega

/-! ## `do_action` at a layer position -/

theorem ok3_noOp (T I B : Nat) : Ok3 T I B .noOp := ⟨rfl, Nat.zero_le _, Nat.zero_le _, Nat.zero_le _, Nat.zero_le _⟩
theorem ok3_trans (T I B : Nat) : Ok3 T I B .trans := ⟨rfl, Nat.zero_le _, Nat.zero_le _, Nat.zero_le _, Nat.zero_le _⟩

theorem srcKey_ok3 {T I B : Nat} {c : LCfg} (hc : Cfg3 T I B c) (y : Nat) : Ok3 T I B (c.srcKey y) := by
  unfold LCfg.srcKey
  split
  · rename_i a hf
    exact hc.2 _ (List.mem_of_find?_eq_some hf)
  · exact ok3_noOp T I B

/-- the one-shot arm needs a budget of three -/
theorem oneShot_fuel (fuel : Nat) (s : Layout) (inner : Action) (hs : Simple inner) (T0 : Nat) (v : OneShotEnd)
    (c : Coord) (dl : Nat) (ls : List Nat) (r : Layout × CustomEv)
    (h : dispatch (fuel + 1) s (.oneShot inner T0 v) c dl false ls = .ok r) : ∃ g, fuel = g + 2 := by
  match fuel, h with
  | 0, h => simp only [dispatch, doAction] at h; cases h
  | 1, h =>
    exfalso
    cases inner <;> simp only [Simple] at hs <;> simp only [dispatch, doAction] at h <;> cases h
  | g + 2, _ => exact ⟨g, rfl⟩

/-- **the effect of `do_action` at a layer position of the stage-3 fragment**, by induction over the
recursion budget: nothing waiting and room in the queue before; `PressK` after -/
theorem engineTop (T I B : Nat) (cfg : LCfg) (hC : Cfg3 T I B cfg) : ∀ fuel : Nat,
    (∀ (s : Layout) (a : Action) (c : Coord) (dl : Nat) (ls : List Nat) (s' : Layout) (cu : CustomEv),
      doAction fuel s a c dl false ls = .ok (s', cu) → s.cfg = cfg → Ok3 T I B a → s.waiting = none →
      s.queue.length < QUEUE_SIZE → PressK T I B c s s') ∧
    (∀ (s : Layout) (a : Action) (c : Coord) (dl : Nat) (ls : List Nat) (s' : Layout) (cu : CustomEv),
      dispatch fuel s a c dl false ls = .ok (s', cu) → s.cfg = cfg → Ok3 T I B a → s.waiting = none →
      s.queue.length < QUEUE_SIZE → PressK T I B c s s') := by
  intro fuel
  induction fuel with
  | zero =>
    refine ⟨?_, ?_⟩
    · intro s a c dl ls s' cu h; simp only [doAction] at h; cases h
    · intro s a c dl ls s' cu h; simp only [dispatch] at h; cases h
  | succ fuel ih =>
    obtain ⟨ih1, ih2⟩ := ih
    refine ⟨?_, ?_⟩
    · -- doAction
      intro s a c dl ls s' cu h hcfg hA hw hq
      have zp := effZ_prelude I s c
      by_cases hat : a = .trans
      · subst hat
        simp only [doAction] at h
        split at h
        · cases h
        · rename_i a' ls' hm
          have hfa : Ok3 T I B a' := resolve_pred (Ok3 T I B) (ok3_noOp T I B) (ok3_trans T I B) s c
            (by rw [hcfg]; exact hC.1) (by rw [hcfg]; exact hC.2) _ _ _ hm
          exact zp.thenK (ih2 (prelude s c) a' c dl ls' s' cu h (zp.eff.cfg.trans hcfg) hfa (zp.waiting.trans hw)
            (by rw [zp.eff.queue]; exact hq))
      · rw [doAction_ne_trans fuel s a hat] at h
        exact zp.thenK (ih2 (prelude s c) a c dl ls s' cu h (zp.eff.cfg.trans hcfg) hA (zp.waiting.trans hw)
          (by rw [zp.eff.queue]; exact hq))
    · -- dispatch
      intro s a c dl ls s' cu h hcfg hA hw hq
      obtain ⟨hTop, hc, hT, hI, hB⟩ := hA
      have viaIn : InAct a = true → PressK T I B c s s' := by
        intro hIn
        exact PressK.ofO ((engineIn T I (fuel + 1)).2.2.2.2.1 s a c dl ls s' cu h hIn hc hT hI hw)
      cases a <;> try (simp only [TopAct, Bool.false_eq_true] at hTop; done)
      case trans => simp only [dispatch] at h; cases h
      case noOp => exact viaIn rfl
      case keyCode => exact viaIn rfl
      case multipleKeyCodes => exact viaIn rfl
      case layer => exact viaIn rfl
      case defaultLayer => exact viaIn rfl
      case releaseState => exact viaIn rfl
      case custom => exact viaIn rfl
      case cancelSequences => exact viaIn rfl
      case oneShotIgnoreEventsTicks => exact viaIn rfl
      case holdTap => exact viaIn (by simpa only [TopAct, InAct] using hTop)
      case multipleActions => exact viaIn (by simpa only [TopAct, InAct] using hTop)
      case src =>
        simp only [dispatch] at h
        split at h
        · cases h
        · split at h
          · cases h
          · rename_i r hr
            obtain ⟨s1, c1⟩ := r
            injection h with h; injection h with h1 h2; subst h1
            have hs := srcKey_ok3 hC c.2
            rw [← hcfg] at hs
            exact ih1 s _ c dl [] s1 c1 hr hcfg hs hw hq
      case oneShot inner T0 v =>
        simp only [TopAct] at hTop
        simp only [nB] at hB
        have hs := simpleB_simple hTop
        obtain ⟨g, rfl⟩ := oneShot_fuel fuel s inner hs T0 v c dl ls (s', cu) h
        obtain ⟨e, u⟩ := dispatch_U g T I B s (.oneShot inner T0 v) hs ⟨Nat.zero_le _, Nat.zero_le _, hB⟩ c dl ls s' cu hw hq h
        exact PressK.ofU u
      case fork l r ks =>
        simp only [TopAct, Bool.and_eq_true] at hTop
        simp only [htCount] at hc
        simp only [nT] at hT
        simp only [nI] at hI
        simp only [nB] at hB
        simp only [dispatch] at h
        split at h
        · cases h
        · rename_i s1 c1 hr
          injection h with h; injection h with h1 h2; subst h1
          have hb : Ok3 T I B (if forkHit s ks = true then r else l) := by
            split
            · exact ⟨hTop.2, by omega, by omega, by omega, by omega⟩
            · exact ⟨hTop.1, by omega, by omega, by omega, by omega⟩
          exact (ih1 s _ c dl ls s1 c1 hr hcfg hb hw hq).thenZ (effZ_setRpt I c _ _)

/-- **a press taken from the queue, nothing waiting, on the stage-3 fragment** -/
theorem dequeue_press_K {T I B : Nat} {s : Layout} (hc : Cfg3 T I B s.cfg) (htde : s.tapDanceEager = none)
    (hw : s.waiting = none) (hq : s.queue.length < QUEUE_SIZE) (c : Coord) (since : Nat) (s' : Layout) (cu : CustomEv)
    (hd : dequeue FUEL s ⟨.press c, since⟩ = .ok (s', cu)) : PressK T I B c s s' := by
  rw [FUEL_succ] at hd
  simp only [dequeue, htde, bind, Except.bind] at hd
  split at hd
  · cases hd
  · rename_i order ho
    exact (engineTop T I B s.cfg hc 3999).1 s .trans c since order s' cu hd rfl (ok3_trans T I B) hw hq

end KVerif.QU3
