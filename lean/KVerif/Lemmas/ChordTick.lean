/-
C09 helper lemmas: a chord-v1 waiting state over ticks (`tick_wt`), ageing of the queue, and what a
decided chord does to the layout (`waiting_into_tap` for the simple action kinds, release).
-/
import KVerif.Lemmas.ChordDecomp
namespace KVerif.C09
open KVerif.L

/-- the waiting state as `tick_wt` hands it to `handle_chord` -/
def ticked (w : Waiting) : Waiting := { w with timeout := w.timeout - 1, ticks := min (w.ticks + 1) U16_MAX }

theorem tickWt_chord (w : Waiting) (g : ChordsGroup) (hc : w.config = .chord g) (q : List Queued) (aq : ActionQueue) :
    tickWt w q aq =
      match handleChord (ticked w) g q aq with
      | (w, q, aq, some (r, a, pq)) => .ok ({ w with tap := a }, q, aq, some (r, some pq))
      | (w, q, aq, none) => .ok (w, q, aq, none) := by
  obtain ⟨c, t, d, tk, h, tp, ta, cfg, ls, pql⟩ := w
  simp only at hc
  subst hc
  rfl

/-- the queue as `tick` ages it before the waiting state looks at it -/
def ageQ (q : List Queued) : List Queued := q.map fun (x : Queued) => { x with since := min (x.since + 1) U16_MAX }

/-- ageing by one tick together with the countdown leaves the window rule unchanged while time is left -/
theorem skipped_age (w : Waiting) (x : Queued) (hd : w.delay ≤ U16_MAX) (ht : 1 ≤ w.timeout) :
    skipped (ticked w) { x with since := min (x.since + 1) U16_MAX } = skipped w x := by
  simp only [skipped, ticked]
  by_cases h : w.delay - x.since > w.timeout
  · have : w.delay - min (x.since + 1) U16_MAX > w.timeout - 1 := by
      simp only [U16_MAX] at *; omega
    simp [h, this]
  · have : ¬ w.delay - min (x.since + 1) U16_MAX > w.timeout - 1 := by
      simp only [U16_MAX] at *; omega
    simp [h, this]

theorem stops_age (w : Waiting) (g : ChordsGroup) (x : Queued) (hd : w.delay ≤ U16_MAX) (ht : 1 ≤ w.timeout) :
    stops (ticked w) g { x with since := min (x.since + 1) U16_MAX } = stops w g x := by
  simp only [stops, skipped_age w x hd ht]

theorem chordPress_age (w : Waiting) (g : ChordsGroup) (x : Queued) (hd : w.delay ≤ U16_MAX) (ht : 1 ≤ w.timeout) :
    chordPress (ticked w) g { x with since := min (x.since + 1) U16_MAX } = chordPress w g x := by
  simp only [chordPress, skipped_age w x hd ht]

theorem maskOf_age (g : ChordsGroup) (x : Queued) :
    maskOf g { x with since := min (x.since + 1) U16_MAX } = maskOf g x := rfl

/-- a queue without stop events -/
def Benign (w : Waiting) (g : ChordsGroup) (q : List Queued) : Prop := ∀ s ∈ q, stops w g s = false

theorem benign_scan {w : Waiting} {g : ChordsGroup} {q : List Queued} (h : Benign w g q) :
    scanPre w g q = q ∧ scanRest w g q = [] := by
  unfold scanPre scanRest
  induction q with
  | nil => exact ⟨rfl, rfl⟩
  | cons x q ih =>
    have hx := h x (by simp)
    have := ih (fun s hs => h s (by simp [hs]))
    simp only [List.takeWhile_cons, List.dropWhile_cons, hx, Bool.not_false, if_true, this.1, this.2]
    trivial

theorem benign_participants {w : Waiting} {g : ChordsGroup} {q : List Queued} (h : Benign w g q) :
    participants w g q = q.filter (chordPress w g) ∧
    keptQueue w g q = q.filter (fun s => !chordPress w g s) := by
  unfold participants keptQueue
  rw [(benign_scan h).1, (benign_scan h).2, List.append_nil]
  exact ⟨rfl, rfl⟩

theorem benign_age {w : Waiting} {g : ChordsGroup} {q : List Queued} (h : Benign w g q)
    (hd : w.delay ≤ U16_MAX) (ht : 1 ≤ w.timeout) : Benign (ticked w) g (ageQ q) := by
  intro s hs
  simp only [ageQ, List.mem_map] at hs
  obtain ⟨x, hx, rfl⟩ := hs
  rw [stops_age w g x hd ht]
  exact h x hx

theorem chordActive_age {w : Waiting} {g : ChordsGroup} {q : List Queued} (h : Benign w g q)
    (hd : w.delay ≤ U16_MAX) (ht : 1 ≤ w.timeout) :
    chordActive (ticked w) g (ageQ q) = chordActive w g q := by
  unfold chordActive
  rw [(benign_participants (benign_age h hd ht)).1, (benign_participants h).1]
  have : (ticked w).coord = w.coord := rfl
  rw [this, accMask_eq, accMask_eq]
  congr 2
  unfold ageQ
  rw [List.filter_map, List.map_map]
  have hf : (chordPress (ticked w) g ∘ fun (x : Queued) => { x with since := min (x.since + 1) U16_MAX }) = chordPress w g := by
    funext x; exact chordPress_age w g x hd ht
  rw [hf]
  rfl

/-- the five outcomes of `tick_wt` for a pending chord -/
theorem tickWt_chord_cases (w : Waiting) (g : ChordsGroup) (hc : w.config = .chord g) (q : List Queued) (aq : ActionQueue) :
    (∃ p, tickWt w q aq = .ok ({ ticked w with prevQueueLen := p }, q, aq, none)) ∨
    (∃ a, g.getChordIfUnambiguous (chordActive (ticked w) g q) = some a ∧
      tickWt w q aq = .ok ({ ticked w with prevQueueLen := q.length % 256, tap := a }, keptQueue (ticked w) g q, aq,
        some (.tap, some (pressedQueue (ticked w) g q)))) ∨
    (∃ a, g.getChord (chordActive (ticked w) g q) = some a ∧ releasedBy g (scanRest (ticked w) g q) = none ∧
      tickWt w q aq = .ok ({ ticked w with prevQueueLen := q.length % 256, tap := a }, keptQueue (ticked w) g q, aq,
        some (.tap, some (pressedQueue (ticked w) g q)))) ∨
    (∃ a c, g.getChord (chordActive (ticked w) g q) = some a ∧ releasedBy g (scanRest (ticked w) g q) = some c ∧
      tickWt w q aq = .ok ({ ticked w with prevQueueLen := q.length % 256, coord := c, tap := a }, keptQueue (ticked w) g q, aq,
        some (.tap, some (pressedQueue (ticked w) g q)))) ∨
    (g.getChord (chordActive (ticked w) g q) = none ∧
      tickWt w q aq = .ok ({ ticked w with prevQueueLen := q.length % 256, tap := .noOp }, keptQueue (ticked w) g q,
        decomposeChord { ticked w with prevQueueLen := q.length % 256 } g q aq,
        some (.noOp, some (pressedQueue (ticked w) g q)))) := by
  rw [tickWt_chord w g hc, handleChord_closed]
  by_cases hf : fastPath (ticked w) q = true
  · left; simp only [hf, if_true]; exact ⟨w.prevQueueLen, rfl⟩
  · simp only [hf, Bool.false_eq_true, if_false]
    by_cases hcond : ((scanRest (ticked w) g q).isEmpty && !((ticked w).timeout - (ticked w).delay == 0)) = true
    · simp only [hcond, if_true]
      cases hg : g.getChordIfUnambiguous (chordActive (ticked w) g q) with
      | none => left; exact ⟨_, rfl⟩
      | some a => right; left; exact ⟨a, rfl, rfl⟩
    · simp only [hcond, Bool.false_eq_true, if_false]
      cases hg : g.getChord (chordActive (ticked w) g q) with
      | none => right; right; right; right; exact ⟨rfl, rfl⟩
      | some a =>
        cases hr : releasedBy g (scanRest (ticked w) g q) with
        | none => right; right; left; exact ⟨a, rfl, rfl, rfl⟩
        | some c => right; right; right; left; exact ⟨a, c, rfl, rfl, rfl⟩

/-- every queued event is a participating press (the other keys of the chord, nothing else) -/
def AllPress (w : Waiting) (g : ChordsGroup) (q : List Queued) : Prop := ∀ s ∈ q, chordPress w g s = true

theorem allPress_benign {w : Waiting} {g : ChordsGroup} {q : List Queued} (h : AllPress w g q) : Benign w g q :=
  fun s hs => chordPress_not_stops (h s hs)

theorem allPress_age {w : Waiting} {g : ChordsGroup} {q : List Queued} (h : AllPress w g q)
    (hd : w.delay ≤ U16_MAX) (ht : 1 ≤ w.timeout) : AllPress (ticked w) g (ageQ q) := by
  intro s hs
  simp only [ageQ, List.mem_map] at hs
  obtain ⟨x, hx, rfl⟩ := hs
  rw [chordPress_age w g x hd ht]
  exact h x hx

theorem allPress_participants {w : Waiting} {g : ChordsGroup} {q : List Queued} (h : AllPress w g q) :
    participants w g q = q ∧ keptQueue w g q = [] := by
  have hb := benign_participants (allPress_benign h)
  rw [hb.1, hb.2]
  constructor
  · rw [List.filter_eq_self]; exact h
  · rw [List.filter_eq_nil_iff]; intro s hs; simp [h s hs]

theorem ageQ_coords (q : List Queued) : (ageQ q).map (·.ev.coord) = q.map (·.ev.coord) := by
  unfold ageQ; rw [List.map_map]; rfl

/-- one tick of a pending chord that is still ambiguous and has time left: nothing happens but the
countdown -/
theorem chord_wait_step (w : Waiting) (g : ChordsGroup) (hc : w.config = .chord g) (q : List Queued) (aq : ActionQueue)
    (hb : Benign w g q) (hd : w.delay ≤ U16_MAX) (ht : w.timeout - 1 - w.delay > 0)
    (hs : hasSuperset g.chords (chordActive w g q)) :
    ∃ p, tickWt w (ageQ q) aq = .ok ({ ticked w with prevQueueLen := p }, ageQ q, aq, none) := by
  rw [tickWt_chord w g hc, handleChord_closed]
  by_cases hf : fastPath (ticked w) (ageQ q) = true
  · simp only [hf, if_true]; exact ⟨w.prevQueueLen, rfl⟩
  · have h1 : 1 ≤ w.timeout := by omega
    have hb' := benign_age hb hd h1
    have hne : ((ticked w).timeout - (ticked w).delay == 0) = false := by
      simp only [ticked, beq_eq_false_iff_ne]; omega
    simp only [hf, Bool.false_eq_true, if_false, (benign_scan hb').2, List.isEmpty_nil, hne, Bool.not_false, Bool.and_self,
      if_true, chordActive_age hb hd h1, unambiguous_none_of_superset g _ hs]
    exact ⟨_, rfl⟩

/-- the tick on which the countdown reaches the first key's queueing delay: the chord is decided,
whatever is (still) ambiguous -/
theorem chord_decide_step (w : Waiting) (g : ChordsGroup) (hc : w.config = .chord g) (q : List Queued) (aq : ActionQueue)
    (hb : AllPress w g q) (hd : w.delay ≤ U16_MAX) (h1 : 1 ≤ w.timeout) (ht : w.timeout - 1 - w.delay = 0) :
    tickWt w (ageQ q) aq =
      match g.getChord (chordActive w g q) with
      | some a => .ok ({ ticked w with prevQueueLen := q.length % 256, tap := a }, [], aq,
                       some (.tap, some ((w.coord :: q.map (·.ev.coord)).take QUEUE_SIZE)))
      | none => .ok ({ ticked w with prevQueueLen := q.length % 256, tap := .noOp }, [],
                     decomposeChord { ticked w with prevQueueLen := q.length % 256 } g (ageQ q) aq,
                     some (.noOp, some ((w.coord :: q.map (·.ev.coord)).take QUEUE_SIZE))) := by
  rw [tickWt_chord w g hc, handleChord_closed]
  have hf : fastPath (ticked w) (ageQ q) = false := by
    have : ¬ (w.timeout - 1 - w.delay > 0) := by omega
    simp only [fastPath, ticked, this, decide_false, Bool.and_false]
  have hb' := allPress_age hb hd h1
  have he : ((ticked w).timeout - (ticked w).delay == 0) = true := by
    simp only [ticked, beq_iff_eq]; omega
  have hlen : (ageQ q).length = q.length := by simp [ageQ]
  simp only [hf, Bool.false_eq_true, if_false, he, Bool.not_true, Bool.and_false,
    chordActive_age (allPress_benign hb) hd h1, (allPress_participants hb').2, pressedQueue,
    (allPress_participants hb').1, ageQ_coords, (benign_scan (allPress_benign hb')).2, releasedBy, moveTo, hlen]
  cases g.getChord (chordActive w g q) <;> rfl

end KVerif.C09
