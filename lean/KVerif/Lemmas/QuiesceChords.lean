/-
C01 helper lemmas, part 5: quiescence on the chords-v1 fragment (C09): plain keys, output chords,
layer-while-held, transparent / unmapped positions, and `defchords` keys — any number of groups, any
timeout — whose chord actions are a key, an output chord or layer-while-held.

While a chord is undecided nothing is taken from the queue, so `extra_waiting` stays empty.  A decided
chord performs its action at the chord's coordinate and again at every participating coordinate; the
participating presses leave the queue without being dequeued.  An undefined key set is decomposed into
the action queue, which the following ticks drain one action per tick (and do nothing else).  Every
coordinate an action is performed at is that of the first key, of a queued event of the group, or of a
participating press: the key is down or its release is still queued — releases are never removed — so
every state is released again (`CInv.owned`).
-/
import KVerif.Lemmas.QuiesceTapDance
import KVerif.Lemmas.ChordLayout
namespace KVerif.Quiesce
open KVerif.L KVerif.C06

/-! ## the fragment -/

def FragC : Action → Prop
  | .noOp | .trans | .keyCode _ | .multipleKeyCodes _ | .layer _ => True
  | .chords _ chs _ => ∀ e ∈ chs, Simple e.2
  | _ => False

def CfgC (c : LCfg) : Prop :=
  (∀ tbl ∈ c.layers, ∀ e ∈ tbl, FragC e.2) ∧ (∀ e ∈ c.srcKeys, FragC e.2)

/-- the timeout of a chords action -/
def chT : Action → Nat
  | .chords _ _ T => T
  | _ => 0

def maxChordTimeout (c : LCfg) : Nat :=
  max (listMax (c.layers.map fun tbl => listMax (tbl.map fun e => chT e.2)))
      (listMax (c.srcKeys.map fun e => chT e.2))

/-- every chord timeout of the configuration is at most `T` -/
def CBound (c : LCfg) (T : Nat) : Prop :=
  (∀ tbl ∈ c.layers, ∀ e ∈ tbl, chT e.2 ≤ T) ∧ (∀ e ∈ c.srcKeys, chT e.2 ≤ T)

theorem cBound_max (c : LCfg) : CBound c (maxChordTimeout c) := by
  refine ⟨fun tbl ht e he => ?_, fun e he => ?_⟩
  · have h1 : chT e.2 ≤ listMax (tbl.map fun e => chT e.2) := le_listMax (List.mem_map.mpr ⟨e, he, rfl⟩)
    have h2 : listMax (tbl.map fun e => chT e.2) ≤ listMax (c.layers.map fun tbl => listMax (tbl.map fun e => chT e.2)) :=
      le_listMax (List.mem_map.mpr ⟨tbl, ht, rfl⟩)
    exact Nat.le_trans h1 (Nat.le_trans h2 (Nat.le_max_left _ _))
  · have h1 : chT e.2 ≤ listMax (c.srcKeys.map fun e => chT e.2) := le_listMax (List.mem_map.mpr ⟨e, he, rfl⟩)
    exact Nat.le_trans h1 (Nat.le_max_right _ _)

def ActSafeC (L : Nat) : Action → Prop
  | .layer v => v < L
  | .chords _ chs _ => ∀ e ∈ chs, SimpleSafe L e.2
  | _ => True

structure CfgSafeC (c : LCfg) : Prop where
  pinned : c.pinnedLayerStack = false
  layers : 0 < c.layers.length
  refsL : ∀ tbl ∈ c.layers, ∀ e ∈ tbl, ActSafeC c.layers.length e.2
  refsS : ∀ e ∈ c.srcKeys, ActSafeC c.layers.length e.2 ∧ e.2 ≠ .trans

structure SafeC (s : Layout) : Prop where
  cfg : CfgSafeC s.cfg
  dl : s.defaultLayer < s.cfg.layers.length
  held : ∀ st ∈ s.states, ∀ v, st.getLayer = some v → v < s.cfg.layers.length
  queue : ∀ q ∈ s.queue, ∀ c, q.ev = .press c → CoordOK s.cfg c

/-- a pending chord of the fragment -/
structure CWOK (T L : Nat) (w : Waiting) : Prop where
  cfg : ∃ g, w.config = .chord g ∧ ∀ e ∈ g.chords, SimpleOK L e.2
  timeout : w.timeout ≤ T

/-! ## what a press does on the fragment -/

/-- the outcome of a press on the fragment -/
structure PressC (T : Nat) (c : Coord) (s s' : Layout) : Prop where
  frame : FrameH s s'
  adds : Adds c s s'
  lpt : s'.lptTapHoldTimeout ≤ s.lptTapHoldTimeout
  grows : GrowsL s.cfg.layers.length s.states s'.states
  waiting : s'.waiting = none ∨ ∃ w, s'.waiting = some w ∧ w.coord = c ∧ CWOK T s.cfg.layers.length w

/-- a simple action performed at `c` on a state `base` that activity at `c` has led to -/
theorem pressC_arm (T : Nat) (s base : Layout) (a : Action) (hs : Simple a)
    (hsafe : SimpleSafe s.cfg.layers.length a) (c : Coord) (hf : FrameH s base) (hadds : Adds c s base)
    (hl : base.lptTapHoldTimeout ≤ s.lptTapHoldTimeout) (hg : GrowsL s.cfg.layers.length s.states base.states)
    (hw : base.waiting = none) (hk : s.oneshot.keys = []) :
    PressC T c s (simpleArm base a c false) := by
  have sp := simpleArm_spec base a hs c false
  have ho : (simpleArm base a c false).oneshot = base.oneshot := by
    rw [sp.osh]
    simp only [Bool.false_eq_true, if_false]
    rw [handlePress_inactive _ _ (by rw [hf.osh]; exact hk)]
  refine ⟨hf.trans (FrameH.of_frame sp.frame sp.queue ho), hadds.trans sp.adds, ?_, ?_, Or.inl (sp.frame.waiting.trans hw)⟩
  · rw [simpleArm_lpt]; exact hl
  · exact hg.trans (simpleArm_growsL _ base a hsafe c false)

theorem PressC.after_prelude {T : Nat} {c : Coord} {s s' : Layout} (h : PressC T c (prelude s c) s') :
    PressC T c s s' := by
  obtain ⟨p1, p2, p3, p4⟩ := prelude_spec s c
  have hcfg := p1.cfg
  obtain ⟨f, a, l, g, w⟩ := h
  rw [hcfg] at g w
  refine ⟨(FrameH.of_frame p1 p3 p2).trans f, (prelude_adds s c).trans a, Nat.le_trans l (prelude_lpt s c), ?_, w⟩
  rw [p4] at g
  exact (GrowsL.filter _ _ _).trans g

theorem dispatch_C (fuel T : Nat) (s : Layout) (a : Action) (hf : FragC a) (hb : chT a ≤ T) (hnt : a ≠ .trans)
    (hs : ActSafeC s.cfg.layers.length a) (c : Coord) (dl : Nat) (ls : List Nat)
    (hls : ls.length ≤ MAX_ACTIVE_LAYERS) (hw : s.waiting = none) (hk : s.oneshot.keys = []) :
    ∃ s', dispatch (fuel + 3) s a c dl false ls = .ok (s', .noEvent) ∧ PressC T c s s' := by
  have simple : ∀ a', Simple a' → SimpleSafe s.cfg.layers.length a' → PressC T c s (simpleArm s a' c false) :=
    fun a' h1 h2 => pressC_arm T s s a' h1 h2 c (FrameH.refl s) (Adds.refl c s) (Nat.le_refl _) (GrowsL.refl _ _) hw hk
  cases a <;> simp only [FragC] at hf
  case noOp =>
    obtain ⟨n1, n2, n3, n4⟩ := armNoOp_spec s .noOp c
    have ho : (armNoOp s .noOp c false).oneshot = s.oneshot := by
      rw [n4]; split
      · rw [handlePress_inactive _ _ hk]
      · rfl
    exact ⟨armNoOp s .noOp c false, by simp only [dispatch], FrameH.of_frame n1 n2 ho, Adds.of_states n3,
      Nat.le_of_eq (armNoOp_lpt s .noOp c false), by rw [n3]; exact GrowsL.refl _ _, Or.inl (n1.waiting.trans hw)⟩
  case trans => exact absurd rfl hnt
  case keyCode kc =>
    exact ⟨armKeyCode s (.keyCode kc) kc c false, by simp only [dispatch],
      simple (.keyCode kc) trivial (fun v hv => by cases hv)⟩
  case multipleKeyCodes kcs =>
    exact ⟨armMultipleKeyCodes s (.multipleKeyCodes kcs) kcs c false, by simp only [dispatch],
      simple (.multipleKeyCodes kcs) trivial (fun v hv => by cases hv)⟩
  case layer v =>
    exact ⟨armLayer s v c false, by simp only [dispatch],
      simple (.layer v) trivial (fun v' hv => by injection hv with hv; subst hv; exact hs)⟩
  case chords coords chs T' =>
    simp only [chT] at hb
    simp only [ActSafeC] at hs
    obtain ⟨e1, e2, e3, e4, e5⟩ := armWait_spec s c dl T' (.chord ⟨coords, chs, T'⟩) ls
    refine ⟨armWait s c dl T' (.chord ⟨coords, chs, T'⟩) ls, ?_,
      ⟨e2.extra, e5, e2.aq, e2.seqs, e2.cfg, e2.dl, e2.queue, e2.osh⟩, Adds.of_states e3, Nat.le_of_eq e4,
      by rw [e3]; exact GrowsL.refl _ _,
      Or.inr ⟨_, e1, rfl, ⟨⟨coords, chs, T'⟩, rfl, fun e he => ⟨hf e he, hs e he⟩⟩, hb⟩⟩
    simp only [dispatch]
    rw [if_neg (by omega)]

/-- **a press taken from the queue, nothing waiting, no eager tap-dance state** -/
theorem dequeue_press_C {T : Nat} {s : Layout} (hc : CfgC s.cfg) (hb : CBound s.cfg T) (hS : SafeC s)
    (hw : s.waiting = none) (hk : s.oneshot.keys = []) (htde : s.tapDanceEager = none) (c : Coord)
    (hco : CoordOK s.cfg c) (since : Nat) :
    ∃ s', dequeue FUEL s ⟨.press c, since⟩ = .ok (s', .noEvent) ∧ PressC T c s s' := by
  obtain ⟨order, ho, hol⟩ := transOrder_total s s.cfg.layers.length hS.cfg.pinned hS.dl hS.cfg.layers hS.held
  obtain ⟨order', ho', hlen⟩ := C02.layer_stack_never_overflows s hS.cfg.pinned
  rw [ho] at ho'; injection ho' with ho'; subst ho'
  obtain ⟨a, ls, hr⟩ := resolve_total s c hco order hol
  have hP := resolve_pred (fun a => FragC a ∧ chT a ≤ T ∧ ActSafeC s.cfg.layers.length a)
    ⟨trivial, Nat.zero_le _, trivial⟩ ⟨trivial, Nat.zero_le _, trivial⟩ s c
    (fun tbl ht e he => ⟨hc.1 tbl ht e he, hb.1 tbl ht e he, hS.cfg.refsL tbl ht e he⟩)
    (fun e he => ⟨hc.2 e he, hb.2 e he, (hS.cfg.refsS e he).1⟩) _ _ _ hr
  have hnt := resolve_ne_trans s c (fun e he => (hS.cfg.refsS e he).2) _ _ _ hr
  have hls : ls.length ≤ MAX_ACTIVE_LAYERS := Nat.le_trans (resolve_rest_le s c _ _ _ hr) hlen
  obtain ⟨p1, p2, p3, p4⟩ := prelude_spec s c
  have hcfg := p1.cfg
  obtain ⟨s', e1, r⟩ := dispatch_C 3995 T (prelude s c) a hP.1 hP.2.1 hnt (by rw [hcfg]; exact hP.2.2) c since ls hls
    (p1.waiting.trans hw) (by rw [p2]; exact hk)
  refine ⟨s', ?_, r.after_prelude⟩
  rw [FUEL_5]
  simp only [dequeue, htde, bind, Except.bind, ho, doAction, hr]
  exact e1

/-! ## the queue: releases are never removed -/

/-- the key at `c` is down or its release is queued -/
def OwnedQ (down : List Coord) (q : List Queued) (c : Coord) : Prop := c ∈ down ∨ ∃ x ∈ q, x.ev = .release c

theorem OwnedQ.mono {down : List Coord} {q q' : List Queued} {c : Coord}
    (h : ∀ x ∈ q, x.ev.isPress = false → x ∈ q') (ho : OwnedQ down q c) : OwnedQ down q' c := by
  rcases ho with g | ⟨x, hx, hxe⟩
  · exact Or.inl g
  · exact Or.inr ⟨x, h x hx (by rw [hxe]; rfl), hxe⟩

/-- the coordinate of every queued event is that of a key that is down or whose release is queued -/
theorem QWF_event_owned {down : List Coord} : ∀ (q : List Queued), QWF down q → ∀ s ∈ q, OwnedQ down q s.ev.coord := by
  intro q
  induction q with
  | nil => intro _ s hs; cases hs
  | cons x rest ih =>
    intro hq s hs
    rcases List.mem_cons.mp hs with rfl | hs
    · have h1 := hq.1
      cases hx : s.ev with
      | press c =>
        simp only [hx] at h1
        rcases h1 with h1 | ⟨y, hy, hye⟩
        · exact Or.inl h1
        · exact Or.inr ⟨y, List.mem_cons_of_mem _ hy, hye⟩
      | release c => exact Or.inr ⟨s, List.mem_cons_self, hx⟩
    · rcases ih hq.2 s hs with g | ⟨y, hy, hye⟩
      · exact Or.inl g
      · exact Or.inr ⟨y, List.mem_cons_of_mem _ hy, hye⟩

/-- removing presses from the front part of the queue keeps it well-formed -/
theorem QWF_filter_append {down : List Coord} (p : Queued → Bool) (hp : ∀ x, x.ev.isPress = false → p x = true) :
    ∀ (a b : List Queued), QWF down (a ++ b) → QWF down (a.filter p ++ b) := by
  intro a
  induction a with
  | nil => intro b h; exact h
  | cons x rest ih =>
    intro b h
    simp only [List.cons_append] at h
    have hr := ih b h.2
    simp only [List.filter_cons]
    split
    · simp only [List.cons_append]
      refine ⟨?_, hr⟩
      have h1 := h.1
      cases hx : x.ev with
      | press c =>
        simp only [hx] at h1 ⊢
        rcases h1 with h1 | ⟨y, hy, hye⟩
        · exact Or.inl h1
        · refine Or.inr ⟨y, ?_, hye⟩
          rcases List.mem_append.mp hy with hy | hy
          · exact List.mem_append_left _ (List.mem_filter.mpr ⟨hy, hp y (by rw [hye]; rfl)⟩)
          · exact List.mem_append_right _ hy
      | release c => trivial
    · exact hr

theorem chordPress_isPress {w : Waiting} {g : ChordsGroup} {x : Queued} (h : x.ev.isPress = false) :
    (!C09.chordPress w g x) = true := by
  simp [C09.chordPress, h]

/-- what a decided chord leaves in the queue: still well-formed, every release still there -/
theorem keptQueue_spec {down : List Coord} (w : Waiting) (g : ChordsGroup) (q : List Queued) (h : QWF down q) :
    QWF down (C09.keptQueue w g q) ∧ (C09.keptQueue w g q).Sublist q ∧
    (∀ x ∈ q, x.ev.isPress = false → x ∈ C09.keptQueue w g q) := by
  refine ⟨?_, ?_, ?_⟩
  · unfold C09.keptQueue
    apply QWF_filter_append _ (fun x hx => chordPress_isPress hx)
    rw [C09.scan_append]; exact h
  · conv => rhs; rw [← C09.scan_append w g q]
    exact List.Sublist.append List.filter_sublist (List.Sublist.refl _)
  · intro x hx hpr
    have hx' : x ∈ C09.scanPre w g q ++ C09.scanRest w g q := by rw [C09.scan_append]; exact hx
    unfold C09.keptQueue
    rcases List.mem_append.mp hx' with h1 | h1
    · exact List.mem_append_left _ (List.mem_filter.mpr ⟨h1, chordPress_isPress hpr⟩)
    · exact List.mem_append_right _ h1

/-! ## the decomposition into the action queue -/

theorem mem_pushBackWrap {α} {cap : Nat} {l : List α} {x y : α} (h : y ∈ (pushBackWrap cap l x).1) : y ∈ l ∨ y = x := by
  unfold pushBackWrap at h
  split at h
  · rcases List.mem_append.mp h with h | h
    · exact Or.inl h
    · exact Or.inr (by simpa using h)
  · cases l with
    | nil => cases h
    | cons a t =>
      simp only at h
      rcases List.mem_append.mp h with h | h
      · exact Or.inl (List.mem_cons_of_mem _ h)
      · exact Or.inr (by simpa using h)

theorem length_pushBackWrap_le {α} {cap : Nat} {l : List α} (x : α) (h : l.length ≤ cap) :
    (pushBackWrap cap l x).1.length ≤ cap := by
  unfold pushBackWrap
  split
  · simp only [List.length_append, List.length_cons, List.length_nil]; omega
  · cases l with
    | nil => exact Nat.zero_le _
    | cons a t =>
      simp only [List.length_append, List.length_cons, List.length_nil] at h ⊢
      exact h

theorem pushAll_spec : ∀ (es : List (Coord × Nat × Action)) (aq : ActionQueue), aq.length ≤ ACTION_QUEUE_LEN →
    (C09.pushAll aq es).length ≤ ACTION_QUEUE_LEN ∧ ∀ y ∈ C09.pushAll aq es, y ∈ aq ∨ y ∈ es := by
  intro es
  induction es with
  | nil => intro aq h; exact ⟨h, fun y hy => Or.inl hy⟩
  | cons e rest ih =>
    intro aq h
    obtain ⟨i1, i2⟩ := ih (pushBackWrap ACTION_QUEUE_LEN aq e).1 (length_pushBackWrap_le e h)
    refine ⟨i1, fun y hy => ?_⟩
    rcases i2 y hy with g | g
    · rcases mem_pushBackWrap g with g | g
      · exact Or.inl g
      · exact Or.inr (g ▸ List.mem_cons_self)
    · exact Or.inr (List.mem_cons_of_mem _ g)

/-- every run the greedy loop pushes is a defined chord -/
theorem segs_defined (g : ChordsGroup) (keys : List Nat) : ∀ (fuel start : Nat),
    ∀ seg ∈ C09.segs g keys fuel start, ∃ m, g.getChord m = some seg.2.2 := by
  intro fuel
  induction fuel with
  | zero => intro start seg h; cases h
  | succ fuel ih =>
    intro start seg h
    simp only [C09.segs] at h
    split at h
    · split at h
      · rename_i a hc
        rcases List.mem_cons.mp h with rfl | h
        · exact ⟨_, hc⟩
        · exact ih _ seg h
      · have hsp := C09.shrinkEnd_spec g keys start (keys.length - 1)
        split at h
        · rename_i e a hs
          rw [hs] at hsp
          rcases List.mem_cons.mp h with rfl | h
          · exact ⟨_, hsp.2.2.1⟩
          · exact ih _ seg h
        · exact ih _ seg h
    · cases h

theorem coordForChord_mem (w : Waiting) (g : ChordsGroup) (dflt : Coord) (q : List Queued) (mask : Nat) :
    coordForChord w g dflt q mask = dflt ∨ coordForChord w g dflt q mask = w.coord ∨
      ∃ x ∈ q, coordForChord w g dflt q mask = x.ev.coord := by
  unfold coordForChord
  split
  · exact Or.inl rfl
  · split
    · exact Or.inr (Or.inl rfl)
    · split
      · rename_i x hf
        exact Or.inr (Or.inr ⟨x, List.mem_of_find?_eq_some hf, rfl⟩)
      · exact Or.inl rfl

theorem releasedBy_mem (g : ChordsGroup) (l : List Queued) (c : Coord) (h : C09.releasedBy g l = some c) :
    ∃ x ∈ l, c = x.ev.coord := by
  cases l with
  | nil => cases h
  | cons s rest =>
    simp only [C09.releasedBy] at h
    split at h
    · injection h with h; exact ⟨s, List.mem_cons_self, h.symm⟩
    · cases h

theorem scanRest_subset (w : Waiting) (g : ChordsGroup) (q : List Queued) : ∀ x ∈ C09.scanRest w g q, x ∈ q := by
  intro x hx
  rw [← C09.scan_append w g q]
  exact List.mem_append_right _ hx

/-- **what the decomposition queues**: at most 8 entries in all; every new entry carries a defined
chord's action and the coordinate of the first key or of a queued event -/
theorem decomposeChord_spec (w : Waiting) (g : ChordsGroup) (q : List Queued) (aq : ActionQueue)
    (h : aq.length ≤ ACTION_QUEUE_LEN) :
    (decomposeChord w g q aq).length ≤ ACTION_QUEUE_LEN ∧
    ∀ y ∈ decomposeChord w g q aq, y ∈ aq ∨
      ((∃ m, g.getChord m = some y.2.2) ∧ (y.1 = w.coord ∨ ∃ x ∈ q, y.1 = x.ev.coord)) := by
  have hd : decomposeChord w g q aq =
      C09.pushAll aq ((C09.segs g (((g.getKeys w.coord).getD 0) :: C09.newMasks g ((g.getKeys w.coord).getD 0) (C09.participants w g q))
        (((g.getKeys w.coord).getD 0) :: C09.newMasks g ((g.getKeys w.coord).getD 0) (C09.participants w g q)).length 0).map
        (C09.entryOf w g ((C09.releasedBy g (C09.scanRest w g q)).getD w.coord) q
          (((g.getKeys w.coord).getD 0) :: C09.newMasks g ((g.getKeys w.coord).getD 0) (C09.participants w g q))
          (min (w.delay + w.ticks) U16_MAX))) := by
    unfold decomposeChord
    simp only [C09.decomposeFold_closed]
    rw [C09.decomposeLoop_eq]
    rfl
  rw [hd]
  obtain ⟨p1, p2⟩ := pushAll_spec _ aq h
  refine ⟨p1, fun y hy => ?_⟩
  rcases p2 y hy with g1 | g1
  · exact Or.inl g1
  · right
    obtain ⟨seg, hseg, rfl⟩ := List.mem_map.mp g1
    refine ⟨segs_defined g _ _ _ seg hseg, ?_⟩
    have hdf : (C09.releasedBy g (C09.scanRest w g q)).getD w.coord = w.coord ∨
        ∃ x ∈ q, (C09.releasedBy g (C09.scanRest w g q)).getD w.coord = x.ev.coord := by
      cases hr : C09.releasedBy g (C09.scanRest w g q) with
      | none => exact Or.inl rfl
      | some c =>
        obtain ⟨x, hx, hxe⟩ := releasedBy_mem g _ c hr
        exact Or.inr ⟨x, scanRest_subset w g q x hx, hxe⟩
    show coordForChord w g _ q _ = w.coord ∨ ∃ x ∈ q, coordForChord w g _ q _ = x.ev.coord
    rcases coordForChord_mem w g ((C09.releasedBy g (C09.scanRest w g q)).getD w.coord) q
      (C09.orSeg _ seg.1 seg.2.1) with g2 | g2 | g2
    · rw [g2]; exact hdf
    · exact Or.inl g2
    · exact Or.inr g2

/-! ## a chord's action, performed at several coordinates -/

/-- how performing simple actions at the coordinates `cs` changes a state -/
structure ActsC (L : Nat) (cs : List Coord) (s s' : Layout) : Prop where
  frame : FrameH s s'
  new : ∀ st ∈ s'.states, st ∈ s.states ∨ ((∃ c ∈ cs, st.coord = some c) ∧ StOK st)
  lpt : s'.lptTapHoldTimeout ≤ s.lptTapHoldTimeout
  grows : GrowsL L s.states s'.states
  waiting : s'.waiting = s.waiting

theorem ActsC.refl (L : Nat) (cs : List Coord) (s : Layout) : ActsC L cs s s :=
  ⟨FrameH.refl s, fun _ h => Or.inl h, Nat.le_refl _, GrowsL.refl _ _, rfl⟩

theorem ActsC.trans {L : Nat} {cs1 cs2 cs : List Coord} {s1 s2 s3 : Layout} (h1 : ActsC L cs1 s1 s2)
    (h2 : ActsC L cs2 s2 s3) (hs1 : ∀ c ∈ cs1, c ∈ cs) (hs2 : ∀ c ∈ cs2, c ∈ cs) : ActsC L cs s1 s3 := by
  refine ⟨h1.frame.trans h2.frame, ?_, Nat.le_trans h2.lpt h1.lpt, h1.grows.trans h2.grows, h2.waiting.trans h1.waiting⟩
  intro st hst
  rcases h2.new st hst with g | ⟨⟨c, hc, hco⟩, hok⟩
  · rcases h1.new st g with g1 | ⟨⟨c, hc, hco⟩, hok⟩
    · exact Or.inl g1
    · exact Or.inr ⟨⟨c, hs1 c hc, hco⟩, hok⟩
  · exact Or.inr ⟨⟨c, hs2 c hc, hco⟩, hok⟩

/-- one simple action at `c` -/
theorem actsC_one (L : Nat) (s : Layout) (a : Action) (hs : Simple a) (hsafe : SimpleSafe L a) (c : Coord)
    (hk : s.oneshot.keys = []) : ActsC L [c] s (simpleArm (prelude s c) a c false) := by
  obtain ⟨p1, p2, p3, p4⟩ := prelude_spec s c
  have sp := simpleArm_spec (prelude s c) a hs c false
  have ho : (simpleArm (prelude s c) a c false).oneshot = s.oneshot := by
    rw [sp.osh]
    simp only [Bool.false_eq_true, if_false]
    rw [handlePress_inactive _ _ (by rw [p2]; exact hk), p2]
  refine ⟨FrameH.of_frame (p1.trans sp.frame) (sp.queue.trans p3) ho, ?_, ?_, ?_, sp.frame.waiting.trans p1.waiting⟩
  · intro st hst
    rcases sp.adds.new st hst with g | g
    · rw [p4] at g; exact Or.inl (List.mem_filter.mp g).1
    · exact Or.inr ⟨⟨c, List.mem_cons_self, g.1⟩, g.2⟩
  · rw [simpleArm_lpt]; exact prelude_lpt s c
  · refine GrowsL.trans ?_ (simpleArm_growsL L _ a hsafe c false)
    rw [p4]; exact GrowsL.filter _ _ _

theorem simple_simpleAction {a : Action} (h : Simple a) : simpleAction a = true := by
  cases a <;> simp only [Simple] at h <;> rfl

/-- `for other_coord in pq { do_action(..) }` for a simple action -/
theorem repeat_simple (L : Nat) (a : Action) (hs : Simple a) (hsafe : SimpleSafe L a) (d : Nat) (ls : List Nat) :
    ∀ (pq : List Coord) (s : Layout), s.oneshot.keys = [] →
    ∃ s', repeatForCoords a d ls pq s = .ok s' ∧ ActsC L pq s s' := by
  intro pq
  induction pq with
  | nil => intro s _; exact ⟨s, rfl, ActsC.refl _ _ _⟩
  | cons c rest ih =>
    intro s hk
    have a1 := actsC_one L s a hs hsafe c hk
    obtain ⟨s', e', a'⟩ := ih (simpleArm (prelude s c) a c false) (by rw [a1.frame.osh]; exact hk)
    refine ⟨s', ?_, a1.trans a' (fun x hx => by
      simp only [List.mem_cons, List.mem_nil_iff, or_false] at hx; subst hx; exact List.mem_cons_self)
      (fun x hx => List.mem_cons_of_mem _ hx)⟩
    simp only [repeatForCoords]
    rw [C17.FUEL_two, doAction_simple 3998 s a hs]
    exact e'

/-- **`waiting_into_tap` for a chord with a simple action**: once at the chord's coordinate, then at
every coordinate of the pressed queue, then the input pause -/
theorem tap_chord (L : Nat) (S : Layout) (w1 : Waiting) (hS : S.waiting = some w1) (ha : Simple w1.tap)
    (hsafe : SimpleSafe L w1.tap) (hk : S.oneshot.keys = []) (pq : List Coord) :
    ∃ s2, waitingIntoTap S (some pq) none = .ok (tapPost s2, .noEvent) ∧ ActsC L (w1.coord :: pq) S.clearWaiting s2 := by
  have a1 := actsC_one L S.clearWaiting w1.tap ha hsafe w1.coord hk
  obtain ⟨s2, e2, a2⟩ := repeat_simple L w1.tap ha hsafe (waitingDelay w1) w1.layerStack pq
    (simpleArm (prelude S.clearWaiting w1.coord) w1.tap w1.coord false) (by rw [a1.frame.osh]; exact hk)
  refine ⟨s2, ?_, a1.trans a2 (fun x hx => by
    simp only [List.mem_cons, List.mem_nil_iff, or_false] at hx; subst hx; exact List.mem_cons_self)
    (fun x hx => List.mem_cons_of_mem _ hx)⟩
  simp only [waitingIntoTap, takeWaiting, hS, Option.map_some]
  rw [C17.FUEL_two, doAction_simple 3998 _ w1.tap ha]
  simp only [chordRepeat, simple_simpleAction ha, if_true, e2]

/-! ## the invariant and the potential -/

structure CInv (T d : Nat) (s : Layout) (down : List Coord) : Prop where
  extra : s.extraWaiting = []
  tde : s.tapDanceEager = none
  seqs : s.activeSequences = []
  states : ∀ st ∈ s.states, StOK st
  osh : s.oneshot.keys = []
  delay : s.oneshot.pauseInputProcessingDelay = d
  pause : s.oneshot.pauseInputProcessingTicks ≤ d
  lpt : s.lptTapHoldTimeout = 0
  cfg : CfgC s.cfg
  bound : CBound s.cfg T
  qlen : s.queue.length ≤ QUEUE_SIZE
  qwf : QWF down s.queue
  /-- **no state is stranded**: every state belongs to a key that is down or whose release is queued -/
  owned : ∀ st ∈ s.states, ∀ c, st.coord = some c → OwnedQ down s.queue c
  /-- the pending chord: of the fragment, input not paused, its first key down or its release queued,
  and no decomposed action outstanding -/
  wok : ∀ w, s.waiting = some w → CWOK T s.cfg.layers.length w ∧ s.oneshot.pauseInputProcessingTicks = 0 ∧
    OwnedQ down s.queue w.coord ∧ s.actionQueue = []
  aqlen : s.actionQueue.length ≤ ACTION_QUEUE_LEN
  /-- the decomposed actions still to perform: chord actions of the fragment, at coordinates of keys
  that are down or whose release is queued -/
  aqok : ∀ e ∈ s.actionQueue, SimpleOK s.cfg.layers.length e.2.2 ∧ OwnedQ down s.queue e.1

theorem init_cinv (cfg : LCfg) (hc : CfgC cfg) (T : Nat) (hb : CBound cfg T) (tv2 dfl qth : Bool) (osd : Nat) :
    CInv T osd ({ cfg := cfg, transV2 := tv2, delegateToFirstLayer := dfl, quickTapHoldTimeout := qth,
                  oneshot := { pauseInputProcessingDelay := osd } } : Layout) [] :=
  ⟨rfl, rfl, rfl, fun _ h => (by cases h), rfl, rfl, Nat.zero_le _, rfl, hc, hb, Nat.zero_le _, trivial,
   fun _ h => (by cases h), fun _ h => (by cases h), Nat.zero_le _, fun _ h => (by cases h)⟩

theorem init_safe_C (cfg : LCfg) (hc : CfgSafeC cfg) (tv2 dfl qth : Bool) (osd : Nat) :
    SafeC ({ cfg := cfg, transV2 := tv2, delegateToFirstLayer := dfl, quickTapHoldTimeout := qth,
             oneshot := { pauseInputProcessingDelay := osd } } : Layout) :=
  ⟨hc, hc.layers, fun _ h => (by cases h), fun _ h => (by cases h)⟩

/-- what the pending chord still costs: its countdown, the decision tick, the input pause after a
chord that fires — or the up to 8 decomposed actions, one per tick -/
def cLoad (d : Nat) : Option Waiting → Nat
  | some w => w.timeout + d + 1 + ACTION_QUEUE_LEN
  | none => 0

/-- an upper bound for the ticks until the layout is at rest: a queued press weighs `T + d + 10` (it
may start a chord), a queued release 1, a queued decomposed action 1 -/
def cPot (T d : Nat) (s : Layout) : Nat :=
  queueLoad (T + d + 8) s.queue + cLoad d s.waiting + s.oneshot.pauseInputProcessingTicks + s.actionQueue.length

theorem cLoad_none (d : Nat) : cLoad d none = 0 := rfl
theorem cLoad_some (d : Nat) (w : Waiting) : cLoad d (some w) = w.timeout + d + 1 + ACTION_QUEUE_LEN := rfl

theorem tickPre_C {T d : Nat} {s : Layout} {down : List Coord} (h : CInv T d s down) :
    tickPre s = { s with queue := age s.queue, lptTapHoldTimeout := s.lptTapHoldTimeout - 1,
                         histKeys := histTick s.histKeys, histInputs := histTick s.histInputs } := by
  unfold tickPre
  simp only [h.tde]
  simp (disch := first | exact h.seqs | exact h.states) only [C04.processSequences_inert]
  rfl

theorem OwnedQ.age {down : List Coord} {q : List Queued} {c : Coord} (h : OwnedQ down q c) : OwnedQ down (age q) c := by
  rcases h with g | g
  · exact Or.inl g
  · exact Or.inr (mem_age_release g)

theorem CInv.pre {T d : Nat} {s : Layout} {down : List Coord} (h : CInv T d s down) (hS : SafeC s) :
    CInv T d (tickPre s) down ∧ SafeC (tickPre s) ∧ (tickPre s).queue = age s.queue ∧
    (tickPre s).cfg = s.cfg ∧ (tickPre s).actionQueue = s.actionQueue ∧ cPot T d (tickPre s) = cPot T d s := by
  rw [tickPre_C h]
  refine ⟨⟨h.extra, h.tde, h.seqs, h.states, h.osh, h.delay, h.pause, ?_, h.cfg, h.bound,
    by simpa [age] using h.qlen, QWF_age _ h.qwf, fun st hst c hc => (h.owned st hst c hc).age, ?_, h.aqlen,
    fun e he => ⟨(h.aqok e he).1, (h.aqok e he).2.age⟩⟩, ⟨hS.cfg, hS.dl, hS.held, ?_⟩, rfl, rfl, rfl, ?_⟩
  · show s.lptTapHoldTimeout - 1 = 0
    rw [h.lpt]
  · intro w hw
    obtain ⟨w1, w2, w3, w4⟩ := h.wok w hw
    exact ⟨w1, w2, w3.age, w4⟩
  · intro q hq' c hc
    have hq2 : q ∈ age s.queue := hq'
    obtain ⟨y, hy, hyq⟩ := List.mem_map.mp hq2
    exact hS.queue y hy c (by rw [← hc, ← hyq])
  · show queueLoad (T + d + 8) (age s.queue) + cLoad d s.waiting + s.oneshot.pauseInputProcessingTicks +
      s.actionQueue.length = cPot T d s
    rw [queueLoad_age]; rfl

/-! ## the third stage of a tick -/

/-- while a chord stays undecided its countdown has not reached the first key's queueing delay -/
theorem chord_undecided_pos (w : Waiting) (g : ChordsGroup) (hc : w.config = .chord g) (q : List Queued)
    (aq : ActionQueue) (w1 : Waiting) (q1 : List Queued) (aq1 : ActionQueue)
    (h : tickWt w q aq = .ok (w1, q1, aq1, none)) : 0 < (C09.ticked w).timeout - (C09.ticked w).delay := by
  rw [C09.tickWt_chord w g hc, C09.handleChord_closed] at h
  by_cases hf : C09.fastPath (C09.ticked w) q = true
  · simp only [C09.fastPath, Bool.and_eq_true, decide_eq_true_eq] at hf
    exact hf.2
  · simp only [hf, Bool.false_eq_true, if_false] at h
    by_cases hcond : ((C09.scanRest (C09.ticked w) g q).isEmpty &&
        !((C09.ticked w).timeout - (C09.ticked w).delay == 0)) = true
    · simp only [Bool.and_eq_true, Bool.not_eq_true', beq_eq_false_iff_ne] at hcond
      omega
    · simp only [hcond, Bool.false_eq_true, if_false] at h
      cases hg : g.getChord (C09.chordActive (C09.ticked w) g q) with
      | none => rw [hg] at h; cases h
      | some a =>
        rw [hg] at h
        cases hr : C09.releasedBy g (C09.scanRest (C09.ticked w) g q) <;> rw [hr] at h <;> cases h

theorem pressedQueue_mem (w : Waiting) (g : ChordsGroup) (q : List Queued) :
    ∀ c ∈ C09.pressedQueue w g q, c = w.coord ∨ ∃ x ∈ q, c = x.ev.coord := by
  intro c hc
  unfold C09.pressedQueue at hc
  rcases List.mem_cons.mp (List.mem_of_mem_take hc) with h | h
  · exact Or.inl h
  · obtain ⟨x, hx, hxe⟩ := List.mem_map.mp h
    unfold C09.participants at hx
    have hx1 : x ∈ C09.scanPre w g q := (List.mem_filter.mp hx).1
    have hx2 : x ∈ q := by
      rw [← C09.scan_append w g q]; exact List.mem_append_left _ hx1
    exact Or.inr ⟨x, hx2, hxe.symm⟩

/-- **the third stage of a tick** (no decomposed action outstanding): it never crashes, raises no custom
event, keeps the invariant, and the potential goes down unless nothing is left for this stage to do -/
theorem CInv.main {T d : Nat} {s : Layout} {down : List Coord} (h : CInv T d s down) (hS : SafeC s)
    (haq : s.actionQueue = []) :
    ∃ s2, tickMain s = .ok (s2, .noEvent) ∧ CInv T d s2 down ∧ SafeC s2 ∧ s2.cfg = s.cfg ∧
      s2.queue.length ≤ s.queue.length ∧
      (cPot T d s2 + 1 ≤ cPot T d s ∨
        (s.queue = [] ∧ s.waiting = none ∧ s.oneshot.pauseInputProcessingTicks = 0 ∧ s2 = s)) := by
  cases hw : s.waiting with
  | some w =>
    obtain ⟨⟨⟨g, hc, hok⟩, wto⟩, wp, wown, _⟩ := h.wok w hw
    obtain ⟨k1, k2, k3⟩ := keptQueue_spec (C09.ticked w) g s.queue h.qwf
    have own : ∀ c, (c = w.coord ∨ ∃ x ∈ s.queue, c = x.ev.coord) →
        OwnedQ down (C09.keptQueue (C09.ticked w) g s.queue) c := by
      rintro c (rfl | ⟨x, hx, rfl⟩)
      · exact wown.mono k3
      · exact (QWF_event_owned s.queue h.qwf x hx).mono k3
    have hP0 : cPot T d s = queueLoad (T + d + 8) s.queue + (w.timeout + d + 1 + ACTION_QUEUE_LEN) + 0 + 0 := by
      unfold cPot; rw [hw, cLoad_some, wp, haq]; rfl
    -- the chord fires
    have tapCase : ∀ (a : Action) (c0 : Coord), (∃ m, (m, a) ∈ g.chords) →
        (c0 = w.coord ∨ ∃ x ∈ s.queue, c0 = x.ev.coord) →
        tickWt w s.queue s.actionQueue =
          .ok ({ C09.ticked w with prevQueueLen := s.queue.length % 256, coord := c0, tap := a },
               C09.keptQueue (C09.ticked w) g s.queue, s.actionQueue,
               some (.tap, some (C09.pressedQueue (C09.ticked w) g s.queue))) →
        ∃ s2, tickMain s = .ok (s2, .noEvent) ∧ CInv T d s2 down ∧ SafeC s2 ∧ s2.cfg = s.cfg ∧
          s2.queue.length ≤ s.queue.length ∧
          (cPot T d s2 + 1 ≤ cPot T d s ∨
            (s.queue = [] ∧ some w = none ∧ s.oneshot.pauseInputProcessingTicks = 0 ∧ s2 = s)) := by
      intro a c0 ⟨m, hm⟩ hc0 e
      have hoka := hok (m, a) hm
      obtain ⟨s2, e2, r⟩ := tap_chord s.cfg.layers.length
        ({ s with waiting := some { C09.ticked w with prevQueueLen := s.queue.length % 256, coord := c0, tap := a },
                  queue := C09.keptQueue (C09.ticked w) g s.queue, actionQueue := s.actionQueue } : Layout)
        { C09.ticked w with prevQueueLen := s.queue.length % 256, coord := c0, tap := a } rfl hoka.1 hoka.2 h.osh
        (C09.pressedQueue (C09.ticked w) g s.queue)
      have hq2 : s2.queue = C09.keptQueue (C09.ticked w) g s.queue := r.frame.queue
      have ho2 : s2.oneshot = s.oneshot := r.frame.osh
      have hcf : s2.cfg = s.cfg := r.frame.cfg
      have hw2 : s2.waiting = none := r.waiting
      have ha2 : s2.actionQueue = [] := r.frame.aq.trans haq
      have hcs : ∀ c ∈ c0 :: C09.pressedQueue (C09.ticked w) g s.queue,
          OwnedQ down (C09.keptQueue (C09.ticked w) g s.queue) c := by
        intro c hc'
        rcases List.mem_cons.mp hc' with rfl | hc'
        · exact own _ hc0
        · exact own c (pressedQueue_mem (C09.ticked w) g s.queue c hc')
      refine ⟨tapPost s2, ?_, ⟨r.frame.extra.trans h.extra, r.frame.tde.trans h.tde, r.frame.seqs.trans h.seqs, ?_, ?_, ?_, ?_,
        ?_, ?_, ?_, ?_, ?_, ?_, ?_, ?_, ?_⟩, ⟨?_, ?_, ?_, ?_⟩, hcf, ?_, Or.inl ?_⟩
      · unfold tickMain
        simp only [hw, e, applyWaitingAction]
        exact e2
      · intro st hst
        rcases r.new st hst with g1 | g1
        · exact h.states st g1
        · exact g1.2
      · show s2.oneshot.keys = []; rw [ho2]; exact h.osh
      · show s2.oneshot.pauseInputProcessingDelay = d; rw [ho2]; exact h.delay
      · show s2.oneshot.pauseInputProcessingDelay ≤ d; rw [ho2, h.delay]; exact Nat.le_refl _
      · have h1 : s2.lptTapHoldTimeout ≤ s.lptTapHoldTimeout := r.lpt
        have h0 := h.lpt
        show s2.lptTapHoldTimeout = 0
        omega
      · show CfgC s2.cfg; rw [hcf]; exact h.cfg
      · show CBound s2.cfg T; rw [hcf]; exact h.bound
      · show s2.queue.length ≤ QUEUE_SIZE; rw [hq2]; exact Nat.le_trans k2.length_le h.qlen
      · show QWF down s2.queue; rw [hq2]; exact k1
      · intro st hst c hc'
        show OwnedQ down s2.queue c
        rw [hq2]
        rcases r.new st hst with g1 | ⟨⟨c', hc1, hc2⟩, _⟩
        · exact (h.owned st g1 c hc').mono k3
        · have : c = c' := by rw [hc'] at hc2; injection hc2
          rw [this]; exact hcs c' hc1
      · intro w' hw'
        have : s2.waiting = some w' := hw'
        rw [hw2] at this; cases this
      · show s2.actionQueue.length ≤ ACTION_QUEUE_LEN; rw [ha2]; exact Nat.zero_le _
      · intro e' he'
        have : e' ∈ s2.actionQueue := he'
        rw [ha2] at this; cases this
      · show CfgSafeC s2.cfg; rw [hcf]; exact hS.cfg
      · show s2.defaultLayer < s2.cfg.layers.length; rw [hcf, r.frame.dl]; exact hS.dl
      · intro st hst v hv
        show v < s2.cfg.layers.length
        rw [hcf]
        rcases r.grows st hst with g1 | g1
        · exact hS.held st g1 v hv
        · exact g1 v hv
      · intro x hx c hc'
        show CoordOK s2.cfg c
        rw [hcf]
        have : x ∈ s2.queue := hx
        rw [hq2] at this
        exact hS.queue x (k2.subset this) c hc'
      · show s2.queue.length ≤ s.queue.length; rw [hq2]; exact k2.length_le
      · rw [hP0]
        unfold cPot
        show queueLoad (T + d + 8) s2.queue + cLoad d s2.waiting + s2.oneshot.pauseInputProcessingDelay +
          s2.actionQueue.length + 1 ≤ _
        rw [hq2, hw2, ha2, ho2, cLoad_none, h.delay]
        have := queueLoad_sublist (T + d + 8) k2
        simp only [List.length_nil]
        omega
    rcases C09.tickWt_chord_cases w g hc s.queue s.actionQueue with ⟨p, e⟩ | ⟨a, hg, e⟩ | ⟨a, hg, hr, e⟩ | ⟨a, c, hg, hr, e⟩ | ⟨hg, e⟩
    · -- undecided: only the countdown
      have hpos := chord_undecided_pos w g hc s.queue s.actionQueue _ _ _ e
      have hpos' : 0 < w.timeout - 1 - w.delay := hpos
      refine ⟨{ s with waiting := some { C09.ticked w with prevQueueLen := p } }, ?_,
        ⟨h.extra, h.tde, h.seqs, h.states, h.osh, h.delay, h.pause, h.lpt, h.cfg, h.bound, h.qlen, h.qwf, h.owned, ?_,
          h.aqlen, h.aqok⟩, ⟨hS.cfg, hS.dl, hS.held, hS.queue⟩, rfl, Nat.le_refl _, Or.inl ?_⟩
      · unfold tickMain
        simp only [hw, e, applyWaitingAction]
      · intro w' hw'
        have : some { C09.ticked w with prevQueueLen := p } = some w' := hw'
        injection this with this; subst this
        exact ⟨⟨⟨g, hc, hok⟩, Nat.le_trans (Nat.sub_le _ _) wto⟩, wp, wown, haq⟩
      · rw [hP0]
        unfold cPot
        show queueLoad (T + d + 8) s.queue + cLoad d (some { C09.ticked w with prevQueueLen := p }) +
          s.oneshot.pauseInputProcessingTicks + s.actionQueue.length + 1 ≤ _
        rw [cLoad_some, wp, haq]
        show queueLoad (T + d + 8) s.queue + (w.timeout - 1 + d + 1 + ACTION_QUEUE_LEN) + 0 + 0 + 1 ≤ _
        omega
    · exact tapCase a w.coord ⟨_, C09.unambiguous_mem g _ a hg⟩ (Or.inl rfl) e
    · exact tapCase a w.coord ⟨_, C09.getChord_mem g _ a hg⟩ (Or.inl rfl) e
    · obtain ⟨x, hx, hxe⟩ := releasedBy_mem g _ c hr
      exact tapCase a c ⟨_, C09.getChord_mem g _ a hg⟩
        (Or.inr ⟨x, scanRest_subset (C09.ticked w) g s.queue x hx, hxe⟩) e
    · -- no chord defined for the key set: decomposition into the action queue
      obtain ⟨d1, d2⟩ := decomposeChord_spec { C09.ticked w with prevQueueLen := s.queue.length % 256 } g s.queue
        s.actionQueue h.aqlen
      refine ⟨{ s with waiting := none, queue := C09.keptQueue (C09.ticked w) g s.queue,
                       actionQueue := decomposeChord { C09.ticked w with prevQueueLen := s.queue.length % 256 } g
                         s.queue s.actionQueue }, ?_,
        ⟨h.extra, h.tde, h.seqs, h.states, h.osh, h.delay, h.pause, h.lpt, h.cfg, h.bound,
          Nat.le_trans k2.length_le h.qlen, k1, fun st hst c hc' => (h.owned st hst c hc').mono k3, ?_, d1, ?_⟩,
        ⟨hS.cfg, hS.dl, hS.held, fun x hx => hS.queue x (k2.subset hx)⟩, rfl, k2.length_le, Or.inl ?_⟩
      · unfold tickMain
        simp only [hw, e, applyWaitingAction]
      · intro w' hw'; cases hw'
      · intro y hy
        rcases d2 y hy with g1 | ⟨⟨m, hm⟩, g2⟩
        · rw [haq] at g1; cases g1
        · exact ⟨hok (m, y.2.2) (C09.getChord_mem g m _ hm), own y.1 g2⟩
      · rw [hP0]
        unfold cPot
        show queueLoad (T + d + 8) (C09.keptQueue (C09.ticked w) g s.queue) + cLoad d none +
          s.oneshot.pauseInputProcessingTicks +
          (decomposeChord { C09.ticked w with prevQueueLen := s.queue.length % 256 } g s.queue s.actionQueue).length + 1 ≤ _
        rw [cLoad_none, wp]
        have := queueLoad_sublist (T + d + 8) k2
        omega
  | none =>
    have hwn : ∀ (t : Layout) (q : List Queued), t.waiting = none → ∀ w, t.waiting = some w →
        CWOK T t.cfg.layers.length w ∧ t.oneshot.pauseInputProcessingTicks = 0 ∧ OwnedQ down q w.coord ∧
        t.actionQueue = [] := by
      intro t q ht w hw'; rw [ht] at hw'; cases hw'
    have hP0 : cPot T d s = queueLoad (T + d + 8) s.queue + 0 + s.oneshot.pauseInputProcessingTicks + 0 := by
      unfold cPot; rw [hw, cLoad_none, haq]; rfl
    by_cases hp : 0 < s.oneshot.pauseInputProcessingTicks
    · rw [tickMain_paused hw h.extra hp]
      refine ⟨_, rfl, ⟨h.extra, h.tde, h.seqs, h.states, h.osh, h.delay, ?_, h.lpt, h.cfg, h.bound, h.qlen, h.qwf, h.owned,
        hwn _ _ hw, h.aqlen, h.aqok⟩, ⟨hS.cfg, hS.dl, hS.held, hS.queue⟩, rfl, Nat.le_refl _, Or.inl ?_⟩
      · show s.oneshot.pauseInputProcessingTicks - 1 ≤ d
        have := h.pause; omega
      · rw [hP0]
        show queueLoad (T + d + 8) s.queue + cLoad d s.waiting + (s.oneshot.pauseInputProcessingTicks - 1) +
          s.actionQueue.length + 1 ≤ _
        rw [hw, cLoad_none, haq]
        simp only [List.length_nil]
        omega
    · have hp0 : s.oneshot.pauseInputProcessingTicks = 0 := by omega
      cases hq : s.queue with
      | nil =>
        rw [tickMain_empty hw h.extra hp0 hq]
        exact ⟨s, rfl, h, hS, rfl, by rw [hq]; exact Nat.le_refl _, Or.inr ⟨rfl, rfl, hp0, rfl⟩⟩
      | cons q rest =>
        rw [tickMain_pops hw h.extra hp0 q rest hq]
        have hwf := h.qwf
        rw [hq] at hwf
        have hlen : rest.length ≤ QUEUE_SIZE := by
          have := h.qlen; rw [hq] at this; simp only [List.length_cons] at this; omega
        have hrestq : ∀ x ∈ rest, ∀ c, x.ev = .press c → CoordOK s.cfg c :=
          fun x hx => hS.queue x (by rw [hq]; exact List.mem_cons_of_mem _ hx)
        obtain ⟨ev, n⟩ := q
        cases ev with
        | release c =>
          rw [dequeue_release_calm (s := s.setQueue rest) h.states c n,
            handleRelease_inactive (s.setQueue rest).oneshot c h.osh]
          simp only [afterRelease, if_true]
          refine ⟨_, rfl, ⟨h.extra, h.tde, h.seqs, C04.stok_filter _ h.states, h.osh, h.delay, h.pause, h.lpt, h.cfg,
            h.bound, hlen, hwf.2, ?_, hwn _ _ hw, h.aqlen, ?_⟩,
            ⟨hS.cfg, hS.dl, fun st hst => hS.held st (List.mem_filter.mp hst).1, hrestq⟩, rfl, by simp [Layout.setQueue],
            Or.inl ?_⟩
          · intro st hst c' hc'
            obtain ⟨m1, m2⟩ := List.mem_filter.mp hst
            have hne : c' ≠ c := by
              intro hcc; subst hcc; simp [hc'] at m2
            rcases h.owned st m1 c' hc' with g1 | ⟨x, hx, hxe⟩
            · exact Or.inl g1
            · rw [hq] at hx
              rcases List.mem_cons.mp hx with hx | hx
              · subst hx; injection hxe with hxe; exact absurd hxe.symm hne
              · exact Or.inr ⟨x, hx, hxe⟩
          · intro e' he'
            have : e' ∈ s.actionQueue := he'
            rw [haq] at this; cases this
          · rw [hP0, hq, queueLoad_cons]
            show queueLoad (T + d + 8) rest + cLoad d s.waiting + s.oneshot.pauseInputProcessingTicks +
              s.actionQueue.length + 1 ≤ _
            rw [hw, cLoad_none, haq]
            have : evW (T + d + 8) ⟨.release c, n⟩ = 1 := rfl
            simp only [List.length_nil]
            omega
        | press c =>
          have hco : CoordOK s.cfg c := hS.queue ⟨.press c, n⟩ (by rw [hq]; exact List.mem_cons_self) c rfl
          obtain ⟨s2, e2, r⟩ := dequeue_press_C (T := T) (s := s.setQueue rest) h.cfg h.bound
            ⟨hS.cfg, hS.dl, hS.held, hrestq⟩ hw h.osh h.tde c hco n
          have hhead : OwnedQ down rest c := hwf.1
          have hq2 : s2.queue = rest := r.frame.queue
          have ho2 : s2.oneshot = s.oneshot := r.frame.osh
          have hcf : s2.cfg = s.cfg := r.frame.cfg
          have ha2 : s2.actionQueue = [] := r.frame.aq.trans haq
          refine ⟨s2, e2, ⟨r.frame.extra.trans h.extra, r.frame.tde.trans h.tde, r.frame.seqs.trans h.seqs, ?_,
            by rw [ho2]; exact h.osh, by rw [ho2]; exact h.delay, by rw [ho2]; exact h.pause, ?_, hcf ▸ h.cfg,
            hcf ▸ h.bound, hq2 ▸ hlen, hq2 ▸ hwf.2, ?_, ?_, by rw [ha2]; exact Nat.zero_le _, ?_⟩,
            ⟨hcf ▸ hS.cfg, ?_, ?_, ?_⟩, hcf, by rw [hq2]; simp, Or.inl ?_⟩
          · intro st hst
            rcases r.adds.new st hst with g1 | g1
            · exact h.states st g1
            · exact g1.2
          · have := r.lpt
            have h0 : (s.setQueue rest).lptTapHoldTimeout = 0 := h.lpt
            omega
          · intro st hst c' hc'
            rw [hq2]
            rcases r.adds.new st hst with g1 | g1
            · rcases h.owned st g1 c' hc' with g2 | ⟨x, hx, hxe⟩
              · exact Or.inl g2
              · rw [hq] at hx
                rcases List.mem_cons.mp hx with hx | hx
                · subst hx; cases hxe
                · exact Or.inr ⟨x, hx, hxe⟩
            · have : c' = c := by
                have := g1.1; rw [hc'] at this; injection this
              rw [this]; exact hhead
          · intro w' hw'
            rcases r.waiting with g1 | ⟨w0, g1, g2, g3⟩
            · rw [g1] at hw'; cases hw'
            · rw [g1] at hw'
              injection hw' with hw'; subst hw'
              rw [hcf, hq2, g2]
              exact ⟨g3, by rw [ho2]; exact hp0, hhead, ha2⟩
          · intro e' he'
            rw [ha2] at he'; cases he'
          · rw [hcf, r.frame.dl]; exact hS.dl
          · intro st hst v hv
            rw [hcf]
            rcases r.grows st hst with g1 | g1
            · exact hS.held st g1 v hv
            · exact g1 v hv
          · intro x hx c' hc'
            rw [hcf]
            rw [hq2] at hx
            exact hrestq x hx c' hc'
          · rw [hP0, hq, queueLoad_cons]
            unfold cPot
            rw [hq2, ho2, hp0, ha2]
            have hw1 : evW (T + d + 8) ⟨.press c, n⟩ = T + d + 8 + 2 := rfl
            rcases r.waiting with g1 | ⟨w0, g1, g2, g3⟩
            · rw [g1, cLoad_none]
              simp only [List.length_nil]
              omega
            · rw [g1, cLoad_some]
              have := g3.timeout
              have h8 : ACTION_QUEUE_LEN = 8 := rfl
              simp only [List.length_nil]
              omega

/-! ## a whole tick, an event, runs -/

/-- **a tick on the chords fragment** never crashes, raises no custom event, keeps the invariant and the
no-crash conditions, and lowers the potential by one (it stays at zero once it is there): with a
decomposed action outstanding it performs that action and nothing else; otherwise its three stages -/
theorem CInv.tick {T d : Nat} {s : Layout} {down : List Coord} (h : CInv T d s down) (hS : SafeC s) :
    ∃ s', tick s = .ok (s', .noEvent) ∧ CInv T d s' down ∧ SafeC s' ∧ s'.cfg = s.cfg ∧
      s'.queue.length ≤ s.queue.length ∧ cPot T d s' ≤ cPot T d s - 1 := by
  cases haq : s.actionQueue with
  | nil =>
    obtain ⟨i0, S0, q0, c0, a0, p0⟩ := h.pre hS
    have e1 : tickOneshot (tickPre s) = .ok (tickPre s, .noEvent) := tickOneshot_inactive i0.osh
    obtain ⟨s2, hm, i2, S2, c2, l2, pot⟩ := i0.main S0 (a0.trans haq)
    refine ⟨s2, ?_, i2, S2, c2.trans c0, by rw [q0, age_length] at l2; exact l2, ?_⟩
    · unfold KVerif.L.tick
      simp only [haq, e1, hm, C04.processExtraWaitings_inert i2.extra, C04.processSequenceCustom_inert i2.states]
      rfl
    · rcases pot with g | ⟨g1, g2, g3, g4⟩
      · omega
      · subst g4
        have hz : cPot T d (tickPre s) = 0 := by
          unfold cPot
          rw [g1, g2, g3, a0, haq]
          rfl
        omega
  | cons e rest =>
    obtain ⟨coord, delay, action⟩ := e
    have hwn : s.waiting = none := by
      cases hw : s.waiting with
      | none => rfl
      | some w => have := (h.wok w hw).2.2.2; rw [haq] at this; cases this
    obtain ⟨hok, hown⟩ := h.aqok (coord, delay, action) (by rw [haq]; exact List.mem_cons_self)
    obtain ⟨order, ho, _⟩ := transOrder_total ({ s with actionQueue := rest } : Layout) s.cfg.layers.length
      hS.cfg.pinned hS.dl hS.cfg.layers hS.held
    have a1 := actsC_one s.cfg.layers.length ({ s with actionQueue := rest } : Layout) action hok.1 hok.2 coord h.osh
    generalize hs2 : simpleArm (prelude ({ s with actionQueue := rest } : Layout) coord) action coord false = s2 at a1
    have hq2 : s2.queue = s.queue := a1.frame.queue
    have ho2 : s2.oneshot = s.oneshot := a1.frame.osh
    have hcf : s2.cfg = s.cfg := a1.frame.cfg
    have hw2 : s2.waiting = none := a1.waiting.trans hwn
    have ha2 : s2.actionQueue = rest := a1.frame.aq
    have hsub : ∀ x ∈ rest, x ∈ s.actionQueue := fun x hx => by rw [haq]; exact List.mem_cons_of_mem _ hx
    refine ⟨s2, ?_, ⟨a1.frame.extra.trans h.extra, a1.frame.tde.trans h.tde, a1.frame.seqs.trans h.seqs, ?_,
      by rw [ho2]; exact h.osh, by rw [ho2]; exact h.delay, by rw [ho2]; exact h.pause, ?_, hcf ▸ h.cfg, hcf ▸ h.bound,
      hq2 ▸ h.qlen, hq2 ▸ h.qwf, ?_, ?_, ?_, ?_⟩, ⟨hcf ▸ hS.cfg, ?_, ?_, ?_⟩, hcf, by rw [hq2]; exact Nat.le_refl _, ?_⟩
    · unfold KVerif.L.tick
      simp only [haq, ho]
      rw [C17.FUEL_two, doAction_simple 3998 _ action hok.1, hs2]
    · intro st hst
      rcases a1.new st hst with g | g
      · exact h.states st g
      · exact g.2
    · have h1 : s2.lptTapHoldTimeout ≤ s.lptTapHoldTimeout := a1.lpt
      have h0 := h.lpt
      omega
    · intro st hst c hc
      rw [hq2]
      rcases a1.new st hst with g | ⟨⟨c', hc1, hc2⟩, _⟩
      · exact h.owned st g c hc
      · simp only [List.mem_cons, List.mem_nil_iff, or_false] at hc1
        have : c = c' := by rw [hc] at hc2; injection hc2
        rw [this, hc1]; exact hown
    · intro w' hw'
      rw [hw2] at hw'; cases hw'
    · rw [ha2]
      have := h.aqlen; rw [haq] at this
      simp only [List.length_cons] at this; omega
    · intro e' he'
      rw [ha2] at he'
      rw [hcf, hq2]
      exact h.aqok e' (hsub e' he')
    · rw [hcf, a1.frame.dl]; exact hS.dl
    · intro st hst v hv
      rw [hcf]
      rcases a1.grows st hst with g | g
      · exact hS.held st g v hv
      · exact g v hv
    · intro x hx c hc
      rw [hcf]
      rw [hq2] at hx
      exact hS.queue x hx c hc
    · unfold cPot
      rw [hq2, hw2, ho2, ha2, hwn, haq]
      simp only [List.length_cons]
      omega

theorem CInv.input {T d : Nat} {s : Layout} {down : List Coord} (h : CInv T d s down) (hS : SafeC s) (e : Ev)
    (hq : s.queue.length < QUEUE_SIZE) (hco : ∀ c, e = .press c → CoordOK s.cfg c) :
    ∃ s', s.event e = .ok s' ∧ CInv T d s' (downAfter down (.ev e)) ∧ SafeC s' ∧
      s'.queue.length = s.queue.length + 1 ∧ s'.cfg = s.cfg := by
  unfold Layout.event
  rw [FUEL_succ]
  obtain ⟨s', e1, e2, e3, e4, e5⟩ := event_room 3999 s e hq
  have e6 := event_room_lpt 3999 s e hq s' e1
  have hrel : ∀ c, OwnedQ down s.queue c → OwnedQ (downAfter down (.ev e)) (s.queue ++ [⟨e, 0⟩]) c := by
    intro c hc
    rcases hc with h1 | ⟨x, hx, hxe⟩
    · cases e with
      | press c' => exact Or.inl (List.mem_cons_of_mem _ h1)
      | release c' =>
        by_cases hcc : c = c'
        · subst hcc; exact Or.inr ⟨⟨.release c, 0⟩, by simp, rfl⟩
        · exact Or.inl (List.mem_filter.mpr ⟨h1, by simpa using hcc⟩)
    · exact Or.inr ⟨x, List.mem_append_left _ hx, hxe⟩
  refine ⟨s', e1, ⟨e5.extra.trans h.extra, e5.tde.trans h.tde, e5.seqs.trans h.seqs, e3 ▸ h.states, e4 ▸ h.osh,
    e4 ▸ h.delay, e4 ▸ h.pause, e6.trans h.lpt, e5.cfg ▸ h.cfg, e5.cfg ▸ h.bound,
    by rw [e2]; simp only [List.length_append, List.length_cons, List.length_nil]; omega, ?_, ?_, ?_,
    by rw [e5.aq]; exact h.aqlen, ?_⟩,
    ⟨e5.cfg ▸ hS.cfg, by rw [e5.cfg, e5.dl]; exact hS.dl, by rw [e3, e5.cfg]; exact hS.held, ?_⟩,
    by rw [e2]; simp, e5.cfg⟩
  · rw [e2]
    cases e with
    | press c =>
      exact QWF_append _ _ (QWF_mono (fun x hx => List.mem_cons_of_mem _ hx) _ h.qwf) (by simp [downAfter])
    | release c => exact QWF_release c 0 _ h.qwf
  · intro st hst c hc
    rw [e3] at hst
    rw [e2]
    exact hrel c (h.owned st hst c hc)
  · intro w hw
    rw [e5.waiting] at hw
    obtain ⟨w1, w2, w3, w4⟩ := h.wok w hw
    rw [e5.cfg, e4, e2, e5.aq]
    exact ⟨w1, w2, hrel _ w3, w4⟩
  · intro e' he'
    rw [e5.aq] at he'
    rw [e5.cfg, e2]
    exact ⟨(h.aqok e' he').1, hrel _ (h.aqok e' he').2⟩
  · intro q hq' c hc
    rw [e5.cfg]
    rw [e2] at hq'
    rcases List.mem_append.mp hq' with hq' | hq'
    · exact hS.queue q hq' c hc
    · simp only [List.mem_cons, List.mem_nil_iff, or_false] at hq'
      subst hq'
      exact hco c hc

/-- **every history** whose presses lie inside the layer tables keeps the invariant and never ends in a
crash: either an event arrives while 32 are pending (`none`) or the run returns a state, and the set of
keys physically down is `downs` -/
theorem run_C {T d : Nat} : ∀ (ins : List In) (s : Layout) (down : List Coord), CInv T d s down → SafeC s →
    PressesOK s.cfg ins →
    run s down ins = none ∨
      ∃ s', run s down ins = some (.ok (s', downs down ins)) ∧ CInv T d s' (downs down ins) ∧ SafeC s' := by
  intro ins
  induction ins with
  | nil => intro s down h hS _; exact Or.inr ⟨s, rfl, h, hS⟩
  | cons i rest ih =>
    intro s down h hS hP
    simp only [run, downs]
    split
    · exact Or.inl rfl
    · rename_i hov
      cases i with
      | ev e =>
        have hq : s.queue.length < QUEUE_SIZE := by
          simp only [overflows, decide_eq_true_eq] at hov; omega
        obtain ⟨s1, e1, i1, S1, _, c1⟩ := h.input hS e hq (fun c hc => hP c (by rw [hc]; exact List.mem_cons_self))
        simp only [stepIn, e1]
        exact ih s1 _ i1 S1 (fun c hc => c1 ▸ hP c (List.mem_cons_of_mem _ hc))
      | tick =>
        obtain ⟨s1, e1, i1, S1, c1, _⟩ := h.tick hS
        simp only [stepIn, e1]
        exact ih s1 _ i1 S1 (fun c hc => c1 ▸ hP c (List.mem_cons_of_mem _ hc))

/-- a history of at most 32 events in all never meets a full queue -/
theorem run_defined_C {T d : Nat} : ∀ (ins : List In) (s : Layout) (down : List Coord), CInv T d s down → SafeC s →
    PressesOK s.cfg ins → evCount ins + s.queue.length ≤ QUEUE_SIZE → run s down ins ≠ none := by
  intro ins
  induction ins with
  | nil => intro s down _ _ _ _ hr; cases hr
  | cons i rest ih =>
    intro s down h hS hP hn
    cases i with
    | ev e =>
      simp only [evCount] at hn
      have hq : s.queue.length < QUEUE_SIZE := by omega
      obtain ⟨s1, e1, i1, S1, q1, c1⟩ := h.input hS e hq (fun c hc => hP c (by rw [hc]; exact List.mem_cons_self))
      have hov : overflows s (.ev e) = false := by
        simp only [overflows, decide_eq_false_iff_not]; omega
      simp only [run, hov, Bool.false_eq_true, if_false, stepIn, e1]
      exact ih s1 _ i1 S1 (fun c hc => c1 ▸ hP c (List.mem_cons_of_mem _ hc)) (by omega)
    | tick =>
      simp only [evCount] at hn
      obtain ⟨s1, e1, i1, S1, c1, l1, _⟩ := h.tick hS
      simp only [run, overflows, Bool.false_eq_true, if_false, stepIn, e1]
      exact ih s1 _ i1 S1 (fun c hc => c1 ▸ hP c (List.mem_cons_of_mem _ hc)) (by omega)

/-- `N` ticks without input run without a crash, keep the invariant, and lower the potential by `N`
(or to zero) -/
theorem quiet_C {T d : Nat} : ∀ (N : Nat) (s : Layout) (down : List Coord), CInv T d s down → SafeC s →
    ∃ s', run s down (List.replicate N .tick) = some (.ok (s', down)) ∧ CInv T d s' down ∧ SafeC s' ∧
      cPot T d s' ≤ cPot T d s - N := by
  intro N
  induction N with
  | zero => intro s down h hS; exact ⟨s, rfl, h, hS, Nat.le_refl _⟩
  | succ N ih =>
    intro s down h hS
    obtain ⟨s1, e1, i1, S1, _, _, p1⟩ := h.tick hS
    obtain ⟨s', e', i', S', p'⟩ := ih s1 down i1 S1
    refine ⟨s', ?_, i', S', by omega⟩
    simp only [List.replicate, run, overflows, Bool.false_eq_true, if_false, stepIn, e1, downAfter]
    exact e'

theorem cPot_le {T d : Nat} {s : Layout} {down : List Coord} (h : CInv T d s down) :
    cPot T d s ≤ (T + d + 10) * s.queue.length + T + d + 9 := by
  unfold cPot
  have h1 := queueLoad_le (T + d + 8) s.queue
  have h4 : (T + d + 8 + 2) * s.queue.length = (T + d + 10) * s.queue.length := by rfl
  have h8 : ACTION_QUEUE_LEN = 8 := rfl
  cases hw : s.waiting with
  | none =>
    rw [cLoad_none]
    have := h.pause
    have := h.aqlen
    omega
  | some w =>
    obtain ⟨w1, w2, _, w4⟩ := h.wok w hw
    rw [cLoad_some, w2, w4]
    have := w1.timeout
    simp only [List.length_nil]
    omega

/-- at potential zero with no key down the layout is at rest -/
theorem CInv.atRest {T d : Nat} {s : Layout} (h : CInv T d s []) (hz : cPot T d s = 0) : LayoutAtRest s := by
  unfold cPot at hz
  have z1 : s.queue = [] := queueLoad_zero (T + d + 8) _ (by omega)
  have z2 : s.waiting = none := by
    cases hw : s.waiting with
    | none => rfl
    | some w => rw [hw, cLoad_some] at hz; omega
  have z3 : s.oneshot.pauseInputProcessingTicks = 0 := by omega
  have z4 : s.actionQueue = [] := List.eq_nil_of_length_eq_zero (by omega)
  refine ⟨?_, z1, z2, h.extra, h.lpt, h.osh, z3, h.seqs, h.tde, z4⟩
  apply List.eq_nil_iff_forall_not_mem.mpr
  intro st hst
  have hok := h.states st hst
  have hco : ∃ c, st.coord = some c := by
    cases st <;> simp only [C04.StOK] at hok <;> first | exact ⟨_, rfl⟩ | exact absurd hok id
  obtain ⟨c, hc⟩ := hco
  rcases h.owned st hst c hc with g | ⟨x, hx, _⟩
  · cases g
  · rw [z1] at hx; cases hx

end KVerif.Quiesce
