/-
C02 helper lemmas: the no-crash invariant of Lemmas/NoCrashFrag.lean (union fragment) extended to
tap-dance (lazy and eager), chords v1 (with the decomposition into the action queue) and `switch`.
The state invariant `NC2` allows what these add to the state: a waiting state of tap-dance / chord
kind, an eager tap-dance state, a non-empty action queue.  `Keep` (NoCrashFrag) is reused for every
arm that does not touch them.
-/
import KVerif.Lemmas.NoCrashFrag
import KVerif.Lemmas.QuiesceChords
import KVerif.Lemmas.TapDance
namespace KVerif.NCG
open KVerif.L KVerif.NCF
open KVerif.C04 (coordOK evOK allActions mem_allActions_layer mem_allActions_src)
open KVerif.Quiesce (GrowsL listMax le_listMax)

mutual
  def flat : Action → List Action
    | .multipleActions acs => .multipleActions acs :: flatL acs
    | .fork l r t => .fork l r t :: (flat l ++ flat r)
    | .holdTap T h t to c iv => .holdTap T h t to c iv :: (flat t ++ flat to)
    | .tapDance acs T e => .tapDance acs T e :: flatL acs
    | .chords co chs T => .chords co chs T :: flatC chs
    | .switch cs => .switch cs :: flatS cs
    | a => [a]
  def flatL : List Action → List Action
    | [] => []
    | a :: r => flat a ++ flatL r
  def flatC : List (Nat × Action) → List Action
    | [] => []
    | (_, a) :: r => flat a ++ flatC r
  def flatS : List (List Nat × Action × Bool) → List Action
    | [] => []
    | (_, a, _) :: r => flat a ++ flatS r
end

mutual
  def gcost : Action → Nat
    | .multipleActions acs => 2 + gcostL acs
    | .fork l r _ => 2 + max (gcost l) (gcost r)
    | .oneShot _ _ _ => 4
    | .holdTap _ _ tap to _ _ => 2 + max (gcost tap) (gcost to)
    | .tapDance acs _ _ => 2 + gmaxL acs
    | .chords _ chs _ => 2 + gmaxC chs
    | .switch cs => 2 + gmaxS cs
    | _ => 2
  def gcostL : List Action → Nat
    | [] => 1
    | a :: rest => 1 + max (gcost a) (gcostL rest)
  def gmaxL : List Action → Nat
    | [] => 0
    | a :: rest => max (gcost a) (gmaxL rest)
  def gmaxC : List (Nat × Action) → Nat
    | [] => 0
    | (_, a) :: rest => max (gcost a) (gmaxC rest)
  def gmaxS : List (List Nat × Action × Bool) → Nat
    | [] => 0
    | (_, a, _) :: rest => max (gcost a) (gmaxS rest)
end


/-! ## sub-actions -/

/-- the immediate sub-actions that are run or stored: members of a `multi`, branches of a `fork`,
tap-dance members, chord actions, switch case actions, the tap and timeout actions of a tap-hold key -/
def kids : Action → List Action
  | .multipleActions acs => acs
  | .fork l r _ => [l, r]
  | .holdTap _ _ tap to _ _ => [tap, to]
  | .tapDance acs _ _ => acs
  | .chords _ chs _ => chs.map (·.2)
  | .switch cs => cs.map (·.2.1)
  | _ => []

theorem self_mem_flat (a : Action) : a ∈ flat a := by
  cases a <;> simp [flat]

theorem mem_flatL {k x : Action} : ∀ {acs : List Action}, k ∈ acs → x ∈ flat k → x ∈ flatL acs := by
  intro acs
  induction acs with
  | nil => intro h; cases h
  | cons a r ih =>
    intro h hx
    simp only [flatL]
    rcases List.mem_cons.mp h with rfl | h
    · exact List.mem_append_left _ hx
    · exact List.mem_append_right _ (ih h hx)

theorem mem_flatC {k x : Action} : ∀ {chs : List (Nat × Action)}, k ∈ chs.map (·.2) → x ∈ flat k → x ∈ flatC chs := by
  intro chs
  induction chs with
  | nil => intro h; cases h
  | cons a r ih =>
    intro h hx
    obtain ⟨m, a⟩ := a
    simp only [flatC]
    simp only [List.map_cons, List.mem_cons] at h
    rcases h with rfl | h
    · exact List.mem_append_left _ hx
    · exact List.mem_append_right _ (ih h hx)

theorem mem_flatS {k x : Action} : ∀ {cs : List (List Nat × Action × Bool)}, k ∈ cs.map (·.2.1) → x ∈ flat k →
    x ∈ flatS cs := by
  intro cs
  induction cs with
  | nil => intro h; cases h
  | cons a r ih =>
    intro h hx
    obtain ⟨m, a, b⟩ := a
    simp only [flatS]
    simp only [List.map_cons, List.mem_cons] at h
    rcases h with rfl | h
    · exact List.mem_append_left _ hx
    · exact List.mem_append_right _ (ih h hx)

/-- everything inside a sub-action is inside the action -/
theorem flat_kid {a k x : Action} (hk : k ∈ kids a) (hx : x ∈ flat k) : x ∈ flat a := by
  cases a <;> simp only [kids] at hk <;> try (cases hk; done)
  case multipleActions acs => simp only [flat]; exact List.mem_cons_of_mem _ (mem_flatL hk hx)
  case tapDance acs T e => simp only [flat]; exact List.mem_cons_of_mem _ (mem_flatL hk hx)
  case chords co chs T => simp only [flat]; exact List.mem_cons_of_mem _ (mem_flatC hk hx)
  case switch cs => simp only [flat]; exact List.mem_cons_of_mem _ (mem_flatS hk hx)
  case fork l r t =>
    simp only [flat]
    simp only [List.mem_cons, List.mem_nil_iff, or_false] at hk
    rcases hk with rfl | rfl
    · exact List.mem_cons_of_mem _ (List.mem_append_left _ hx)
    · exact List.mem_cons_of_mem _ (List.mem_append_right _ hx)
  case holdTap T h t to c iv =>
    simp only [flat]
    simp only [List.mem_cons, List.mem_nil_iff, or_false] at hk
    rcases hk with rfl | rfl
    · exact List.mem_cons_of_mem _ (List.mem_append_left _ hx)
    · exact List.mem_cons_of_mem _ (List.mem_append_right _ hx)

theorem gcost_ge (a : Action) : 2 ≤ gcost a := by
  cases a <;> simp only [gcost] <;> omega

theorem gcostL_ge (acs : List Action) : 1 ≤ gcostL acs := by
  cases acs <;> simp only [gcostL] <;> omega

theorem gmaxL_le {k : Action} : ∀ {acs : List Action}, k ∈ acs → gcost k ≤ gmaxL acs := by
  intro acs
  induction acs with
  | nil => intro h; cases h
  | cons a r ih =>
    intro h
    simp only [gmaxL]
    rcases List.mem_cons.mp h with rfl | h
    · exact Nat.le_max_left _ _
    · exact Nat.le_trans (ih h) (Nat.le_max_right _ _)

theorem gcostL_le {k : Action} : ∀ {acs : List Action}, k ∈ acs → gcost k ≤ gcostL acs := by
  intro acs
  induction acs with
  | nil => intro h; cases h
  | cons a r ih =>
    intro h
    simp only [gcostL]
    rcases List.mem_cons.mp h with rfl | h
    · have := Nat.le_max_left (gcost k) (gcostL r); omega
    · have := ih h; have := Nat.le_max_right (gcost a) (gcostL r); omega

theorem gmaxC_le {k : Action} : ∀ {chs : List (Nat × Action)}, k ∈ chs.map (·.2) → gcost k ≤ gmaxC chs := by
  intro chs
  induction chs with
  | nil => intro h; cases h
  | cons a r ih =>
    intro h
    obtain ⟨m, a⟩ := a
    simp only [gmaxC]
    simp only [List.map_cons, List.mem_cons] at h
    rcases h with rfl | h
    · exact Nat.le_max_left _ _
    · exact Nat.le_trans (ih h) (Nat.le_max_right _ _)

theorem gmaxS_le {k : Action} : ∀ {cs : List (List Nat × Action × Bool)}, k ∈ cs.map (·.2.1) → gcost k ≤ gmaxS cs := by
  intro cs
  induction cs with
  | nil => intro h; cases h
  | cons a r ih =>
    intro h
    obtain ⟨m, a, b⟩ := a
    simp only [gmaxS]
    simp only [List.map_cons, List.mem_cons] at h
    rcases h with rfl | h
    · exact Nat.le_max_left _ _
    · exact Nat.le_trans (ih h) (Nat.le_max_right _ _)

/-- a sub-action costs at least 2 units less than the action -/
theorem gcost_kid {a k : Action} (hk : k ∈ kids a) : gcost k + 2 ≤ gcost a := by
  cases a <;> simp only [kids] at hk <;> try (cases hk; done)
  case multipleActions acs => simp only [gcost]; have := gcostL_le hk; omega
  case tapDance acs T e => simp only [gcost]; have := gmaxL_le hk; omega
  case chords co chs T => simp only [gcost]; have := gmaxC_le hk; omega
  case switch cs => simp only [gcost]; have := gmaxS_le hk; omega
  case fork l r t =>
    simp only [gcost]
    simp only [List.mem_cons, List.mem_nil_iff, or_false] at hk
    rcases hk with rfl | rfl
    · have := Nat.le_max_left (gcost k) (gcost r); omega
    · have := Nat.le_max_right (gcost l) (gcost k); omega
  case holdTap T h t to c iv =>
    simp only [gcost]
    simp only [List.mem_cons, List.mem_nil_iff, or_false] at hk
    rcases hk with rfl | rfl
    · have := Nat.le_max_left (gcost k) (gcost to); omega
    · have := Nat.le_max_right (gcost t) (gcost k); omega

/-! ## the fragment -/

/-- what is asked of a single node of an action tree (`sw` = the check of a switch case's opcodes) -/
def nodeOK (cfg : LCfg) (sw : List Nat → Bool) : Action → Bool
  | .layer l => decide (l < cfg.layers.length)
  | .oneShot inner _ _ => simpleIn cfg.layers.length inner
  | .holdTap _ hold _ _ _ _ => simpleIn cfg.layers.length hold
  | .tapDance acs _ _ => !acs.isEmpty
  | .chords coords _ _ => coords.all fun p => coordOK cfg p.1
  | .switch cs => cs.all fun c => sw c.1
  | .repeat | .bufKeyCodes _ => false
  | _ => true

def isRef : Action → Bool
  | .trans | .src => true
  | _ => false

def isOsh : Action → Bool
  | .oneShot _ _ _ => true
  | _ => false

/-- **the fragment**: every node of the action tree is well-formed -/
def GAct (cfg : LCfg) (sw : List Nat → Bool) (a : Action) : Bool := (flat a).all (nodeOK cfg sw)
/-- no transparent / use-defsrc item anywhere inside -/
def grfree (a : Action) : Bool := (flat a).all fun x => !isRef x
/-- a one-shot key somewhere inside -/
def gosh (a : Action) : Bool := (flat a).any isOsh

theorem GAct.node {cfg : LCfg} {sw : List Nat → Bool} {a : Action} (h : GAct cfg sw a = true) : nodeOK cfg sw a = true :=
  List.all_eq_true.mp h a (self_mem_flat a)

theorem GAct.kid {cfg : LCfg} {sw : List Nat → Bool} {a k : Action} (h : GAct cfg sw a = true) (hk : k ∈ kids a) :
    GAct cfg sw k = true :=
  List.all_eq_true.mpr fun x hx => List.all_eq_true.mp h x (flat_kid hk hx)

theorem grfree_kid {a k : Action} (h : grfree a = true) (hk : k ∈ kids a) : grfree k = true :=
  List.all_eq_true.mpr fun x hx => List.all_eq_true.mp h x (flat_kid hk hx)

theorem gosh_kid {a k : Action} (h : gosh k = true) (hk : k ∈ kids a) : gosh a = true := by
  obtain ⟨x, hx, hxo⟩ := List.any_eq_true.mp h
  exact List.any_eq_true.mpr ⟨x, flat_kid hk hx, hxo⟩

/-- what the proofs use of an action that is configured, or stored in the state -/
structure ActOK2 (cfg : LCfg) (sw : List Nat → Bool) (C P : Nat) (osh : Bool) (a : Action) : Prop where
  act : GAct cfg sw a = true
  cost : gcost a ≤ C
  press : a ≠ .trans → gcost a + (if grfree a then 0 else C * 13) ≤ P
  osh : gosh a = true → osh = true

theorem ActOK2.kid {cfg : LCfg} {sw : List Nat → Bool} {C P : Nat} {osh : Bool} {a k : Action}
    (h : ActOK2 cfg sw C P osh a) (hk : k ∈ kids a) : ActOK2 cfg sw C P osh k := by
  have hc := gcost_kid hk
  have hat : a ≠ .trans := by intro e; subst e; cases hk
  have hp := h.press hat
  refine ⟨GAct.kid h.act hk, by have := h.cost; omega, fun _ => ?_, fun ho => h.osh (gosh_kid ho hk)⟩
  by_cases hr : grfree a = true
  · rw [if_pos hr] at hp
    rw [if_pos (grfree_kid hr hk)]
    omega
  · rw [if_neg hr] at hp
    split <;> omega

structure CfgOK2 (cfg : LCfg) (sw : List Nat → Bool) (C P : Nat) (osh : Bool) : Prop where
  pinned : cfg.pinnedLayerStack = false
  pos : 0 < cfg.layers.length
  ok : ∀ a ∈ allActions cfg, ActOK2 cfg sw C P osh a
  src : ∀ e ∈ cfg.srcKeys, grfree e.2 = true
  cmin : 2 ≤ C
  pmin : 2 ≤ P
  sw : ∀ ops, sw ops = true → ∀ env, ∃ b, Switch.evalOps ops env = .ok b

section
variable {cfg : LCfg} {sw : List Nat → Bool} {C P : Nat} {osh : Bool}

theorem actOK2_noOp (h : CfgOK2 cfg sw C P osh) : ActOK2 cfg sw C P osh .noOp :=
  ⟨rfl, h.cmin, fun _ => h.pmin, fun h => by cases h⟩

theorem actOK2_trans (h : CfgOK2 cfg sw C P osh) : ActOK2 cfg sw C P osh .trans :=
  ⟨rfl, h.cmin, fun h => absurd rfl h, fun h => by cases h⟩

/-! ## the state invariant -/

/-- a waiting state of tap-dance or chord kind -/
structure W2 (cfg : LCfg) (sw : List Nat → Bool) (C P : Nat) (osh : Bool) (w : Waiting) : Prop where
  hold : w.hold = .noOp
  tap : ActOK2 cfg sw C P osh w.tap
  coord : coordOK cfg w.coord = true
  ls : ∀ l ∈ w.layerStack, l < cfg.layers.length
  lslen : w.layerStack.length ≤ MAX_ACTIVE_LAYERS
  kind : (∃ acs T k, w.config = .tapDance acs T k ∧ acs ≠ [] ∧ ∀ a ∈ acs, ActOK2 cfg sw C P osh a) ∨
    (∃ g, w.config = .chord g ∧ (∀ p ∈ g.coords, coordOK cfg p.1 = true) ∧ ∀ e ∈ g.chords, ActOK2 cfg sw C P osh e.2)

/-- an undecided tap-hold key whose tap and timeout actions are any actions of the fragment (its hold
action a key, an output chord or layer-while-held) -/
structure WOK3 (cfg : LCfg) (sw : List Nat → Bool) (C P : Nat) (osh : Bool) (w : Waiting) : Prop where
  cfgk : ∃ c, w.config = .holdTap c
  hold : simpleIn cfg.layers.length w.hold = true
  tap : ActOK2 cfg sw C P osh w.tap
  to : ActOK2 cfg sw C P osh w.timeoutAction
  coord : coordOK cfg w.coord = true
  ls : ∀ l ∈ w.layerStack, l < cfg.layers.length
  lslen : w.layerStack.length ≤ MAX_ACTIVE_LAYERS

/-- a tap-hold waiting state: all three actions simple (`WOK`), or the general kind -/
def WQ (cfg : LCfg) (sw : List Nat → Bool) (C P : Nat) (osh : Bool) (w : Waiting) : Prop :=
  WOK cfg.layers.length w ∨ WOK3 cfg sw C P osh w

theorem WQ.hold {cfg : LCfg} {sw : List Nat → Bool} {C P : Nat} {osh : Bool} {w : Waiting} (h : WQ cfg sw C P osh w) :
    simpleIn cfg.layers.length w.hold = true := by
  rcases h with h | h
  · exact h.hold
  · exact h.hold

/-- **the state invariant**: `NC` of NoCrashFrag, except that `waiting` may hold a tap-dance or chord
waiting state, an eager tap-dance state may exist, and the action queue may hold entries — all of them
carrying actions of the configuration (or their sub-actions) and coordinates inside the table -/
structure NC2 (cfg : LCfg) (sw : List Nat → Bool) (C P : Nat) (osh : Bool) (s : Layout) : Prop where
  cfgEq : s.cfg = cfg
  wok : ∀ w, s.waiting = some w → WQ cfg sw C P osh w ∨ W2 cfg sw C P osh w
  eok : ∀ w ∈ s.extraWaiting, WQ cfg sw C P osh w
  tde : ∀ t, s.tapDanceEager = some t → ∀ a ∈ t.actions, ActOK2 cfg sw C P osh a
  aq : ∀ e ∈ s.actionQueue, coordOK cfg e.1 = true ∧ ActOK2 cfg sw C P osh e.2.2
  dl : s.defaultLayer < cfg.layers.length
  held : ∀ st ∈ s.states, ∀ v, st.getLayer = some v → v < cfg.layers.length
  qlen : s.queue.length ≤ QUEUE_SIZE
  queue : ∀ q ∈ s.queue, evOK cfg q.ev = true

theorem NC2.keep {s s' : Layout} (h : NC2 cfg sw C P osh s) (k : Keep cfg.layers.length s s') : NC2 cfg sw C P osh s' := by
  refine ⟨k.cfg.trans h.cfgEq, ?_, ?_, ?_, ?_, ?_, ?_, k.queue ▸ h.qlen, ?_⟩
  · intro w hw
    rcases k.wait w hw with g | g
    · exact h.wok w g
    · exact Or.inl (Or.inl g)
  · intro w hw
    rcases k.extra w hw with g | g
    · exact h.eok w g
    · exact Or.inl g
  · intro t ht; rw [k.tde] at ht; exact h.tde t ht
  · intro e he; rw [k.aq] at he; exact h.aq e he
  · rcases k.dl with g | g
    · rw [g]; exact h.dl
    · exact g
  · intro st hst v hv
    rcases k.states st hst with g | g
    · exact h.held st g v hv
    · exact g v hv
  · intro q hq
    rw [k.queue] at hq
    exact h.queue q hq

structure Post2 (cfg : LCfg) (sw : List Nat → Bool) (C P : Nat) (osh : Bool) (s s' : Layout) : Prop where
  nc : NC2 cfg sw C P osh s'
  pr : presses s'.queue ≤ presses s.queue

theorem Post2.of_keep {s s' : Layout} (h : NC2 cfg sw C P osh s) (k : Keep cfg.layers.length s s') :
    Post2 cfg sw C P osh s s' :=
  ⟨h.keep k, by rw [k.queue]; exact Nat.le_refl _⟩

theorem Post2.after_keep {a b c : Layout} (k : Keep cfg.layers.length a b) (h : Post2 cfg sw C P osh b c) :
    Post2 cfg sw C P osh a c :=
  ⟨h.nc, by have := h.pr; rw [k.queue] at this; exact this⟩

theorem Post2.then_keep {a b c : Layout} (h : Post2 cfg sw C P osh a b) (k : Keep cfg.layers.length b c) :
    Post2 cfg sw C P osh a c :=
  ⟨h.nc.keep k, by rw [k.queue]; exact h.pr⟩

theorem Post2.trans {a b c : Layout} (h1 : Post2 cfg sw C P osh a b) (h2 : Post2 cfg sw C P osh b c) :
    Post2 cfg sw C P osh a c :=
  ⟨h2.nc, Nat.le_trans h2.pr h1.pr⟩

theorem Post2.refl {s : Layout} (h : NC2 cfg sw C P osh s) : Post2 cfg sw C P osh s s := ⟨h, Nat.le_refl _⟩

/-- a change of fields the invariant does not mention, or that it mentions and that stay within it -/
theorem NC2.same {s s' : Layout} (h : NC2 cfg sw C P osh s) (h1 : s'.cfg = s.cfg) (h2 : s'.waiting = s.waiting)
    (h3 : s'.extraWaiting = s.extraWaiting) (h4 : s'.tapDanceEager = s.tapDanceEager)
    (h5 : s'.actionQueue = s.actionQueue) (h6 : s'.queue = s.queue) (h7 : s'.defaultLayer = s.defaultLayer)
    (h8 : s'.states = s.states) : NC2 cfg sw C P osh s' :=
  ⟨h1.trans h.cfgEq, h2 ▸ h.wok, h3 ▸ h.eok, h4 ▸ h.tde, h5 ▸ h.aq, h7 ▸ h.dl, h8 ▸ h.held, h6 ▸ h.qlen, h6 ▸ h.queue⟩

end

section
variable {cfg : LCfg} {sw : List Nat → Bool} {C P : Nat} {osh : Bool}

/-! ## resolution -/

theorem srcKey_ok2 (h : CfgOK2 cfg sw C P osh) (y : Nat) :
    ActOK2 cfg sw C P osh (cfg.srcKey y) ∧ grfree (cfg.srcKey y) = true := by
  unfold LCfg.srcKey
  split
  · rename_i a hf
    have hm := List.mem_of_find?_eq_some hf
    exact ⟨h.ok _ (mem_allActions_src hm), h.src _ hm⟩
  · exact ⟨actOK2_noOp h, rfl⟩

theorem resolve_shape2 (s : Layout) (c : Coord) (hsrc : ∀ y, grfree (s.cfg.srcKey y) = true) :
    ∀ (ls : List Nat) (a : Action) (rest : List Nat), s.resolveCoord c ls = .ok (a, rest) →
      (grfree a = true ∨ rest.length < ls.length) ∧ (∀ l ∈ rest, l ∈ ls) := by
  intro ls
  induction ls with
  | nil =>
    intro a rest h
    simp only [Layout.resolveCoord] at h
    split at h; · cases h
    split at h; · cases h
    split at h
    · split at h; · cases h
      injection h with h; injection h with h1 h2; subst h1; subst h2
      exact ⟨Or.inl (hsrc _), fun _ h => h⟩
    · injection h with h; injection h with h1 h2; subst h1; subst h2
      exact ⟨Or.inl rfl, fun _ h => h⟩
  | cons l rest' ih =>
    intro a rest h
    simp only [Layout.resolveCoord] at h
    split at h; · cases h
    split at h; · cases h
    split at h
    · cases h
    · obtain ⟨i1, i2⟩ := ih a rest h
      refine ⟨?_, fun x hx => List.mem_cons_of_mem _ (i2 x hx)⟩
      rcases i1 with i1 | i1
      · exact Or.inl i1
      · exact Or.inr (by simp only [List.length_cons]; omega)
    · injection h with h; injection h with h1 h2; subst h2
      exact ⟨Or.inr (by simp), fun x hx => List.mem_cons_of_mem _ hx⟩

theorem resolve_ok2 {s : Layout} (hcfg : s.cfg = cfg) (hC : CfgOK2 cfg sw C P osh) {co : Coord}
    (hco : coordOK cfg co = true) (ls : List Nat) (hls : ∀ l ∈ ls, l < cfg.layers.length) :
    ∃ a ls', s.resolveCoord co ls = .ok (a, ls') ∧ a ≠ .trans ∧ ActOK2 cfg sw C P osh a ∧
      (grfree a = true ∨ ls'.length < ls.length) ∧ (∀ l ∈ ls', l ∈ ls) := by
  subst hcfg
  obtain ⟨a, ls', hr⟩ := Quiesce.resolve_total s co (coordOK_iff hco) ls hls
  have h1 := Quiesce.resolve_ne_trans s co (fun e he => by
    intro h; have := hC.src e he; rw [h] at this; exact absurd this (by decide)) ls a ls' hr
  have h2 := Quiesce.resolve_pred (ActOK2 s.cfg sw C P osh) (actOK2_noOp hC) (actOK2_trans hC) s co
    (fun tbl ht e he => hC.ok _ (mem_allActions_layer ht he))
    (fun e he => hC.ok _ (mem_allActions_src he)) ls a ls' hr
  obtain ⟨h3, h4⟩ := resolve_shape2 s co (fun y => (srcKey_ok2 hC y).2) ls a ls' hr
  exact ⟨a, ls', hr, h1, h2, h3, h4⟩

theorem transOrder_ok2 {s : Layout} (hC : CfgOK2 cfg sw C P osh) (hN : NC2 cfg sw C P osh s) :
    ∃ order, s.transOrder = .ok order ∧ (∀ l ∈ order, l < cfg.layers.length) ∧ order.length ≤ MAX_ACTIVE_LAYERS := by
  have hp : s.cfg.pinnedLayerStack = false := by rw [hN.cfgEq]; exact hC.pinned
  obtain ⟨order, ho, hol⟩ := Quiesce.transOrder_total s cfg.layers.length hp hN.dl hC.pos hN.held
  obtain ⟨v, hv, hl⟩ := C02.layer_stack_never_overflows s hp
  rw [ho] at hv; injection hv with hv; subst hv
  exact ⟨order, ho, hol, hl⟩

/-! ## the new arms -/

theorem post2_armWait {s : Layout} (hN : NC2 cfg sw C P osh s) (coord : Coord) (d T : Nat) (wc : WCfg) (ls : List Nat)
    (hw : ∀ w : Waiting, w.hold = .noOp → w.tap = .noOp → w.coord = coord → w.layerStack = ls → w.config = wc →
      W2 cfg sw C P osh w) : Post2 cfg sw C P osh s (armWait s coord d T wc ls) := by
  have k := keep_updateCoord cfg.layers.length s coord
  have h1 := hN.keep k
  refine ⟨⟨h1.cfgEq, ?_, h1.eok, h1.tde, h1.aq, h1.dl, h1.held, h1.qlen, h1.queue⟩, ?_⟩
  · intro w h
    simp only [armWait] at h
    injection h with h
    exact Or.inr (hw w (h ▸ rfl) (h ▸ rfl) (h ▸ rfl) (h ▸ rfl) (h ▸ rfl))
  · show presses (updateCoord s coord).queue ≤ _
    rw [k.queue]; exact Nat.le_refl _

theorem post2_armEager {s : Layout} (hN : NC2 cfg sw C P osh s) (coord : Coord) (acs : List Action) (T : Nat)
    (ha : ∀ a ∈ acs, ActOK2 cfg sw C P osh a) : Post2 cfg sw C P osh s (armEager s coord acs T) := by
  have k := keep_updateCoord cfg.layers.length s coord
  have h1 := hN.keep k
  have fresh : NC2 cfg sw C P osh ({ updateCoord s coord with
      tapDanceEager := some { coord := coord, actions := acs, timeout := T, origTimeout := T, numTaps := 1 } } : Layout) :=
    ⟨h1.cfgEq, h1.wok, h1.eok, (fun t ht => by injection ht with ht; subst ht; exact ha), h1.aq, h1.dl, h1.held,
      h1.qlen, h1.queue⟩
  have hq : (armEager s coord acs T).queue = s.queue := by
    rw [← k.queue]
    unfold armEager
    simp only []
    split
    · rfl
    · split <;> rfl
  refine ⟨?_, by rw [hq]; exact Nat.le_refl _⟩
  unfold armEager
  simp only []
  split
  · exact fresh
  · split
    · exact fresh
    · exact h1

theorem post2_armHoldTapWait {s : Layout} (hN : NC2 cfg sw C P osh s) (c : Coord) (d T : Nat) (hold tap to : Action)
    (hcfg : HTConfig) (iv : Nat) (ls : List Nat) (h1 : simpleIn cfg.layers.length hold = true)
    (h2 : ActOK2 cfg sw C P osh tap) (h3 : ActOK2 cfg sw C P osh to) (hco : coordOK cfg c = true)
    (hls : ∀ l ∈ ls, l < cfg.layers.length) (hlen : ls.length ≤ MAX_ACTIVE_LAYERS) :
    Post2 cfg sw C P osh s (armHoldTapWait s c d T hold tap to hcfg iv ls) := by
  have hok : ∀ w : Waiting, w.hold = hold → w.tap = tap → w.timeoutAction = to → w.config = .holdTap hcfg →
      w.coord = c → w.layerStack = ls → WOK3 cfg sw C P osh w :=
    fun w e1 e2 e3 e4 e5 e6 => ⟨⟨hcfg, e4⟩, e1 ▸ h1, e2 ▸ h2, e3 ▸ h3, e5 ▸ hco, e6 ▸ hls, e6 ▸ hlen⟩
  cases hw : s.waiting with
  | none =>
    simp only [armHoldTapWait, hw]
    refine Post2.then_keep ?_ (keep_updateCoord _ _ c)
    refine ⟨⟨hN.cfgEq, ?_, hN.eok, hN.tde, hN.aq, hN.dl, hN.held, hN.qlen, hN.queue⟩, Nat.le_refl _⟩
    intro w h
    injection h with h
    exact Or.inl (Or.inr (hok w (h ▸ rfl) (h ▸ rfl) (h ▸ rfl) (h ▸ rfl) (h ▸ rfl) (h ▸ rfl)))
  | some w1 =>
    simp only [armHoldTapWait, hw]
    refine Post2.then_keep ?_ (keep_updateCoord _ _ c)
    refine ⟨⟨hN.cfgEq, fun w h => hN.wok w (by rw [hw]; exact h), ?_, hN.tde, hN.aq, hN.dl, hN.held, hN.qlen, hN.queue⟩,
      Nat.le_refl _⟩
    intro w h
    rcases Quiesce.mem_pushBackWrap_fst _ _ _ _ h with g | g
    · exact hN.eok w g
    · exact Or.inr (hok w (g ▸ rfl) (g ▸ rfl) (g ▸ rfl) (g ▸ rfl) (g ▸ rfl) (g ▸ rfl))

theorem aq_push (coord : Coord) (hco : coordOK cfg coord = true) : ∀ (acs : List Action) (aq : ActionQueue),
    (∀ a ∈ acs, ActOK2 cfg sw C P osh a) → (∀ e ∈ aq, coordOK cfg e.1 = true ∧ ActOK2 cfg sw C P osh e.2.2) →
    ∀ e ∈ acs.foldl (fun aq a => (pushBackWrap ACTION_QUEUE_LEN aq (coord, 0, a)).1) aq,
      coordOK cfg e.1 = true ∧ ActOK2 cfg sw C P osh e.2.2 := by
  intro acs
  induction acs with
  | nil => intro aq _ h; exact h
  | cons a r ih =>
    intro aq ha h
    simp only [List.foldl_cons]
    refine ih _ (fun b hb => ha b (List.mem_cons_of_mem _ hb)) ?_
    intro e he
    rcases Quiesce.mem_pushBackWrap_fst _ _ _ _ he with g | g
    · exact h e g
    · subst g; exact ⟨hco, ha a List.mem_cons_self⟩

theorem switchActions_ok (eval : List Nat → Except Switch.Crash Bool) :
    ∀ (cs : List (List Nat × Action × Bool)), (∀ c ∈ cs, ∃ b, eval c.1 = .ok b) →
    ∃ acs, switchActions eval cs = .ok acs ∧ ∀ a ∈ acs, a ∈ cs.map (·.2.1) := by
  intro cs
  induction cs with
  | nil => intro _; exact ⟨[], rfl, fun _ h => h⟩
  | cons c r ih =>
    intro h
    obtain ⟨ops, a, brk⟩ := c
    obtain ⟨b, hb⟩ := h (ops, a, brk) List.mem_cons_self
    obtain ⟨acs, e1, e2⟩ := ih (fun c hc => h c (List.mem_cons_of_mem _ hc))
    have hb' : eval ops = .ok b := hb
    simp only [switchActions, hb']
    cases b with
    | false => exact ⟨acs, e1, fun x hx => List.mem_cons_of_mem _ (e2 x hx)⟩
    | true =>
      simp only []
      cases brk with
      | true => exact ⟨[a], rfl, fun x hx => by simp at hx; subst hx; simp⟩
      | false =>
        simp only [Bool.false_eq_true, if_false, e1]
        refine ⟨a :: acs, rfl, fun x hx => ?_⟩
        rcases List.mem_cons.mp hx with rfl | hx
        · simp
        · exact List.mem_cons_of_mem _ (e2 x hx)

/-! ## waiting states: the flush -/

theorem takeWaiting_keep2 (L : Nat) {s : Layout} (idx : Option Nat) (w : Waiting) (s1 : Layout)
    (h : takeWaiting s idx = some (w, s1)) :
    Keep L s s1 ∧ ((idx = none ∧ s.waiting = some w) ∨ w ∈ s.extraWaiting) := by
  cases idx with
  | none =>
    simp only [takeWaiting, Option.map_eq_some_iff] at h
    obtain ⟨w', hw', he⟩ := h
    injection he with h1 h2
    subst h1; subst h2
    exact ⟨⟨rfl, (fun _ h => by cases h), fun _ h => Or.inl h, rfl, rfl, rfl, Or.inl rfl, GrowsL.refl _ _⟩,
      Or.inl ⟨rfl, hw'⟩⟩
  | some i =>
    simp only [takeWaiting, Option.map_eq_some_iff] at h
    obtain ⟨w', hw', he⟩ := h
    injection he with h1 h2
    subst h1; subst h2
    exact ⟨⟨rfl, fun _ h => Or.inl h, fun _ h => Or.inl (List.mem_of_mem_eraseIdx h), rfl, rfl, rfl, Or.inl rfl,
      GrowsL.refl _ _⟩, Or.inr (List.mem_of_getElem? hw')⟩

theorem NC2.taken {s : Layout} (hN : NC2 cfg sw C P osh s) {idx : Option Nat} {w : Waiting} {s1 : Layout}
    (h : takeWaiting s idx = some (w, s1)) : WQ cfg sw C P osh w ∨ W2 cfg sw C P osh w := by
  rcases (takeWaiting_keep2 cfg.layers.length idx w s1 h).2 with ⟨_, g⟩ | g
  · exact hN.wok w g
  · exact Or.inl (hN.eok w g)

theorem doAction_noOp (f : Nat) (s : Layout) (c : Coord) (d : Nat) (os : Bool) (ls : List Nat) :
    doAction (f + 2) s .noOp c d os ls = .ok (armNoOp (prelude s c) .noOp c os, .noEvent) := by
  simp only [doAction, dispatch]

/-- `waiting_into_hold` never crashes: a tap-hold key takes its hold action, a tap-dance or chord
waiting state has none -/
theorem waitingIntoHold_ok2 (f : Nat) {s : Layout} (hN : NC2 cfg sw C P osh s) (idx : Option Nat) :
    ∃ s' cu, waitingIntoHold (f + 3) s idx = .ok (s', cu) ∧ Keep cfg.layers.length s s' := by
  simp only [waitingIntoHold]
  cases ht : takeWaiting s idx with
  | none => exact ⟨s, _, rfl, Keep.refl _ s⟩
  | some r =>
    obtain ⟨w, s1⟩ := r
    have k1 := (takeWaiting_keep2 cfg.layers.length idx w s1 ht).1
    rcases hN.taken ht with hw | hw
    · have hh := hw.hold
      simp only [C06.doAction_simple f _ w.hold (simpleIn_simple hh)]
      exact ⟨_, _, rfl, (k1.trans (keep_holdPrep _ s1 w)).trans (keep_simple _ _ _ hh _ _)⟩
    · simp only [hw.hold, doAction_noOp]
      exact ⟨_, _, rfl, ((k1.trans (keep_holdPrep _ s1 w)).trans (keep_prelude _ _ _)).trans (keep_armNoOp _ _ _ _ _)⟩

theorem flushWaitings_ok2 : ∀ (l : List (Option Nat)) (fuel : Nat) (s : Layout), l.length + 4 ≤ fuel →
    NC2 cfg sw C P osh s → ∃ s', flushWaitings fuel s l = .ok s' ∧ Keep cfg.layers.length s s' := by
  intro l
  induction l with
  | nil =>
    intro fuel s hf _
    obtain ⟨f, rfl⟩ : ∃ f, fuel = f + 1 := ⟨fuel - 1, by omega⟩
    exact ⟨s, by simp only [flushWaitings], Keep.refl _ s⟩
  | cons i rest ih =>
    intro fuel s hf hN
    simp only [List.length_cons] at hf
    obtain ⟨f, rfl⟩ : ∃ f, fuel = f + 4 := ⟨fuel - 4, by omega⟩
    obtain ⟨s1, cu, e1, k1⟩ := waitingIntoHold_ok2 f hN i
    obtain ⟨s2, e2, k2⟩ := ih (f + 3) s1 (by omega) (hN.keep k1)
    exact ⟨s2, by simp only [flushWaitings, bind, Except.bind, e1, e2], k1.trans k2⟩

/-- `Layout::event`, given that the oldest queued press can be processed (cf. `event_via`) -/
theorem event_via2 (f : Nat) (hf : 13 ≤ f) (s : Layout) (e : Ev) (hN : NC2 cfg sw C P osh s)
    (he : evOK cfg e = true)
    (hd : ∀ (s1 : Layout) (c : Coord) (since : Nat), NC2 cfg sw C P osh s1 → coordOK cfg c = true →
      presses s1.queue + 1 ≤ presses s.queue + (if e.isPress then 1 else 0) →
      ∃ s' cu, dequeue f s1 ⟨.press c, since⟩ = .ok (s', cu) ∧ Post2 cfg sw C P osh s1 s') :
    ∃ s', event (f + 1) s e = .ok s' ∧ NC2 cfg sw C P osh s' ∧
      presses s'.queue ≤ presses s.queue + (if e.isPress then 1 else 0) := by
  have core : ∀ s0 : Layout, Keep cfg.layers.length s s0 →
      ∃ s', (match pushBackWrap QUEUE_SIZE s0.queue ⟨e, 0⟩ with
        | (q, ov) =>
          match ov with
          | none => (pure ({ s0 with queue := q } : Layout) : Except Crash Layout)
          | some overflow => do
            let s ← flushWaitings f ({ s0 with queue := q } : Layout) (none :: (List.range EXTRA_WAITING_LEN).map some)
            let (s, _) ← dequeue f s overflow
            pure s) = .ok s' ∧ NC2 cfg sw C P osh s' ∧
        presses s'.queue ≤ presses s.queue + (if e.isPress then 1 else 0) := by
    intro s0 k0
    have hN0 := hN.keep k0
    have hq0 : s0.queue = s.queue := k0.queue
    have mk : ∀ q : List Queued, q.length ≤ QUEUE_SIZE → (∀ x ∈ q, evOK cfg x.ev = true) →
        NC2 cfg sw C P osh ({ s0 with queue := q } : Layout) := fun q h1 h2 =>
      ⟨hN0.cfgEq, hN0.wok, hN0.eok, hN0.tde, hN0.aq, hN0.dl, hN0.held, h1, h2⟩
    rcases pbw_cases QUEUE_SIZE (by decide) s0.queue ⟨e, 0⟩ hN0.qlen with ⟨hl, hp⟩ | ⟨h0, t, hl, hp⟩
    · rw [hp]
      refine ⟨_, rfl, mk _ ?_ ?_, ?_⟩
      · simp only [List.length_append, List.length_cons, List.length_nil]; omega
      · intro x hx
        rcases List.mem_append.mp hx with hx | hx
        · exact hN0.queue x hx
        · simp only [List.mem_cons, List.mem_nil_iff, or_false] at hx; subst hx; exact he
      · show presses (s0.queue ++ [⟨e, 0⟩]) ≤ _
        rw [presses_append, hq0, presses_cons]; simp [presses]
    · rw [hp]
      have hlen : (t ++ [(⟨e, 0⟩ : Queued)]).length ≤ QUEUE_SIZE := by
        have := hN0.qlen; rw [hl] at this
        simp only [List.length_append, List.length_cons, List.length_nil] at this ⊢; omega
      have hall : ∀ x ∈ t ++ [(⟨e, 0⟩ : Queued)], evOK cfg x.ev = true := by
        intro x hx
        rcases List.mem_append.mp hx with hx | hx
        · exact hN0.queue x (by rw [hl]; exact List.mem_cons_of_mem _ hx)
        · simp only [List.mem_cons, List.mem_nil_iff, or_false] at hx; subst hx; exact he
      have hN1' := mk _ hlen hall
      obtain ⟨sf, hfl, kf⟩ := flushWaitings_ok2
        (none :: (List.range EXTRA_WAITING_LEN).map some) f ({ s0 with queue := t ++ [⟨e, 0⟩] } : Layout)
        (by simp [EXTRA_WAITING_LEN]; omega) hN1'
      have hN1 := hN1'.keep kf
      have hqf : sf.queue = t ++ [⟨e, 0⟩] := kf.queue
      simp only [bind, Except.bind, hfl, pure, Except.pure]
      have hpr : presses (t ++ [(⟨e, 0⟩ : Queued)]) + (if h0.ev.isPress then 1 else 0) =
          presses s.queue + (if e.isPress then 1 else 0) := by
        rw [← hq0, hl, presses_append, presses_cons, presses_cons]; simp [presses]; omega
      obtain ⟨ev0, n0⟩ := h0
      cases ev0 with
      | release c =>
        obtain ⟨f', rfl⟩ : ∃ f', f = f' + 1 := ⟨f - 1, by omega⟩
        obtain ⟨s', cu, e1, k1⟩ := dequeue_release_ok cfg.layers.length f' sf c n0
        rw [e1]
        refine ⟨s', rfl, hN1.keep k1, ?_⟩
        rw [k1.queue, hqf]
        have hpr' : presses (t ++ [(⟨e, 0⟩ : Queued)]) + 0 = presses s.queue + (if e.isPress then 1 else 0) := hpr
        omega
      | press c =>
        have hco : coordOK cfg c = true := hN0.queue ⟨.press c, n0⟩ (by rw [hl]; exact List.mem_cons_self)
        have hpr' : presses (t ++ [(⟨e, 0⟩ : Queued)]) + 1 = presses s.queue + (if e.isPress then 1 else 0) := hpr
        obtain ⟨s', cu, e1, p1⟩ := hd sf c n0 hN1 hco (by rw [hqf]; omega)
        rw [e1]
        refine ⟨s', rfl, p1.nc, ?_⟩
        have := p1.pr
        rw [hqf] at this
        omega
  cases e with
  | press c =>
    simp only [event]
    exact core { s with histInputs := histPush s.histInputs c }
      (Keep.of_states rfl rfl rfl rfl rfl rfl rfl (GrowsL.refl _ _))
  | release c =>
    simp only [event]
    exact core s (Keep.refl _ s)

end

/-! ## the recursion -/

theorem gosh_oneShot (i : Action) (T : Nat) (v : OneShotEnd) : gosh (.oneShot i T v) = true := by
  simp [gosh, flat, isOsh]

/-- **no crash branch and no fuel exhaustion in `do_action` / `dequeue` / the re-entered `event`** on
the fragment with tap-dance, chords v1 and `switch`; the invariant `NC2` is kept (cf. `NCF.engine`) -/
theorem engine2 (cfg : LCfg) (sw : List Nat → Bool) (C P : Nat) (osh : Bool) (hC : CfgOK2 cfg sw C P osh) : ∀ fuel : Nat,
    (∀ (s : Layout) (a : Action) (coord : Coord) (delay : Nat) (os : Bool) (ls : List Nat) (x n : Nat),
      NC2 cfg sw C P osh s → ActOK2 cfg sw C P osh a →
      coordOK cfg coord = true → (∀ l ∈ ls, l < cfg.layers.length) → ls.length ≤ MAX_ACTIVE_LAYERS →
      (grfree a = true ∨ C * (ls.length + 1) ≤ x) → presses s.queue ≤ n →
      gcost a + x + Eres osh P n ≤ fuel →
      ∃ s' cu, doAction fuel s a coord delay os ls = .ok (s', cu) ∧ Post2 cfg sw C P osh s s') ∧
    (∀ (s : Layout) (a : Action) (coord : Coord) (delay : Nat) (os : Bool) (ls : List Nat) (x n : Nat),
      NC2 cfg sw C P osh s → ActOK2 cfg sw C P osh a →
      coordOK cfg coord = true → (∀ l ∈ ls, l < cfg.layers.length) → ls.length ≤ MAX_ACTIVE_LAYERS → a ≠ .trans →
      (grfree a = true ∨ C * (ls.length + 1) ≤ x) → presses s.queue ≤ n →
      gcost a + x + Eres osh P n ≤ fuel + 1 →
      ∃ s' cu, dispatch fuel s a coord delay os ls = .ok (s', cu) ∧ Post2 cfg sw C P osh s s') ∧
    (∀ (s : Layout) (acs : List Action) (coord : Coord) (delay : Nat) (os : Bool) (ls : List Nat)
      (cu0 : CustomEv) (x n : Nat),
      NC2 cfg sw C P osh s → (∀ a ∈ acs, ActOK2 cfg sw C P osh a) →
      coordOK cfg coord = true → (∀ l ∈ ls, l < cfg.layers.length) → ls.length ≤ MAX_ACTIVE_LAYERS →
      ((∀ a ∈ acs, grfree a = true) ∨ C * (ls.length + 1) ≤ x) → presses s.queue ≤ n →
      gcostL acs + x + Eres osh P n ≤ fuel →
      ∃ s' cu, doActions fuel s acs coord delay os ls cu0 = .ok (s', cu) ∧ Post2 cfg sw C P osh s s') ∧
    (∀ (s : Layout) (coord : Coord) (delay : Nat) (os : Bool) (order : List Nat) (n : Nat),
      NC2 cfg sw C P osh s → coordOK cfg coord = true → (∀ l ∈ order, l < cfg.layers.length) →
      order.length ≤ MAX_ACTIVE_LAYERS → presses s.queue ≤ n → P + 1 + Eres osh P n ≤ fuel →
      ∃ s' cu, doAction fuel s .trans coord delay os order = .ok (s', cu) ∧ Post2 cfg sw C P osh s s') ∧
    (∀ (s : Layout) (c : Coord) (since n : Nat),
      NC2 cfg sw C P osh s → coordOK cfg c = true → presses s.queue ≤ n → P + 2 + Eres osh P n ≤ fuel →
      ∃ s' cu, dequeue fuel s ⟨.press c, since⟩ = .ok (s', cu) ∧ Post2 cfg sw C P osh s s') ∧
    (∀ (s : Layout) (c : Coord) (n : Nat),
      NC2 cfg sw C P osh s → osh = true → presses s.queue ≤ n → 14 + n * (P + 3) ≤ fuel →
      ∃ s', event fuel s (.release c) = .ok s' ∧ Post2 cfg sw C P osh s s') := by
  intro fuel
  induction fuel with
  | zero =>
    refine ⟨?_, ?_, ?_, ?_, ?_, ?_⟩
    · intro s a _ _ _ _ _ _ _ _ _ _ _ _ _ h; have := gcost_ge a; omega
    · intro s a _ _ _ _ _ _ _ _ _ _ _ _ _ _ h; have := gcost_ge a; omega
    · intro s acs _ _ _ _ _ _ _ _ _ _ _ _ _ _ h; have := gcostL_ge acs; omega
    · intro s _ _ _ _ _ _ _ _ _ _ h; omega
    · intro s _ _ _ _ _ _ h; omega
    · intro s _ _ _ _ _ h; omega
  | succ fuel ih =>
    obtain ⟨ih1, ih2, ih3, ih4, ih5, ih6⟩ := ih
    refine ⟨?_, ?_, ?_, ?_, ?_, ?_⟩
    · -- doAction
      intro s a coord delay os ls x n hN hA hco hls hlen hx hn hfuel
      have kp := keep_prelude cfg.layers.length s coord
      have hNp := hN.keep kp
      have hnp : presses (prelude s coord).queue ≤ n := by rw [kp.queue]; exact hn
      by_cases hat : a = .trans
      · subst hat
        obtain ⟨a', ls', e1, e2, e3, e4, e5⟩ := resolve_ok2 hN.cfgEq hC hco ls hls
        have hx' : C * (ls.length + 1) ≤ x := by
          rcases hx with hx | hx
          · exact absurd hx (by decide)
          · exact hx
        simp only [gcost] at hfuel
        simp only [doAction, e1]
        have hC1 : C ≤ C * (ls.length + 1) := Nat.le_mul_of_pos_right _ (by omega)
        have hca := e3.cost
        have hlen' : ls'.length ≤ MAX_ACTIVE_LAYERS :=
          Nat.le_trans (Quiesce.resolve_rest_le s coord ls a' ls' e1) hlen
        rcases e4 with e4 | e4
        · obtain ⟨s', cu, r1, r2⟩ := ih2 (prelude s coord) a' coord delay os ls' 0 n hNp e3 hco
            (fun l hl => hls l (e5 l hl)) hlen' e2 (Or.inl e4) hnp (by omega)
          exact ⟨s', cu, r1, Post2.after_keep kp r2⟩
        · have hm : C * (ls'.length + 1) + C ≤ C * (ls.length + 1) := by
            have := Nat.mul_le_mul_left C (show ls'.length + 1 + 1 ≤ ls.length + 1 by omega)
            rw [Nat.mul_succ] at this
            exact this
          obtain ⟨s', cu, r1, r2⟩ := ih2 (prelude s coord) a' coord delay os ls' (x - C) n hNp e3 hco
            (fun l hl => hls l (e5 l hl)) hlen' e2 (Or.inr (by omega)) hnp (by omega)
          exact ⟨s', cu, r1, Post2.after_keep kp r2⟩
      · have hd : doAction (fuel + 1) s a coord delay os ls = dispatch fuel (prelude s coord) a coord delay os ls := by
          cases a <;> first | exact absurd rfl hat | simp only [doAction]
        rw [hd]
        obtain ⟨s', cu, r1, r2⟩ := ih2 (prelude s coord) a coord delay os ls x n hNp hA hco hls hlen hat hx hnp (by omega)
        exact ⟨s', cu, r1, Post2.after_keep kp r2⟩
    · -- dispatch
      intro s a coord delay os ls x n hN hA hco hls hlen hnt hx hn hfuel
      have hL : s.cfg.layers.length = cfg.layers.length := by rw [hN.cfgEq]
      have hnode := GAct.node hA.act
      cases a
      case noOp =>
        simp only [dispatch]
        exact ⟨_, _, rfl, Post2.of_keep hN (keep_armNoOp _ s _ coord os)⟩
      case trans => exact absurd rfl hnt
      case keyCode kc =>
        simp only [dispatch]
        exact ⟨_, _, rfl, Post2.of_keep hN (keep_armKeyCode _ s _ kc coord os)⟩
      case multipleKeyCodes kcs =>
        simp only [dispatch]
        exact ⟨_, _, rfl, Post2.of_keep hN (keep_armMultipleKeyCodes _ s _ kcs coord os)⟩
      case bufKeyCodes kcs => simp [nodeOK] at hnode
      case «repeat» => simp [nodeOK] at hnode
      case layer l =>
        have hl : l < cfg.layers.length := by simpa [nodeOK] using hnode
        simp only [dispatch]
        exact ⟨_, _, rfl, Post2.of_keep hN (keep_armLayer _ s l hl coord os)⟩
      case defaultLayer l =>
        simp only [dispatch]
        exact ⟨_, _, rfl, Post2.of_keep hN (keep_armDefaultLayer _ s hL l coord os)⟩
      case releaseState rs =>
        simp only [dispatch]
        exact ⟨_, _, rfl, Post2.of_keep hN (keep_armReleaseState _ s _ rs coord os)⟩
      case custom id =>
        simp only [dispatch]
        exact ⟨_, _, rfl, Post2.of_keep hN (keep_armCustom _ s _ id coord os)⟩
      case sequence evs =>
        simp only [dispatch]
        exact ⟨_, _, rfl, Post2.of_keep hN (keep_armSequence _ s _ evs coord os false)⟩
      case repeatableSequence evs =>
        simp only [dispatch]
        exact ⟨_, _, rfl, Post2.of_keep hN (keep_armSequence _ s _ evs coord os true)⟩
      case cancelSequences =>
        simp only [dispatch]
        exact ⟨_, _, rfl, Post2.of_keep hN (keep_armCancelSequences _ s _ coord os)⟩
      case oneShotIgnoreEventsTicks t =>
        simp only [dispatch]
        refine ⟨_, _, rfl, Post2.of_keep hN ((keep_updateCoord _ s coord).trans ?_)⟩
        exact Keep.of_states rfl rfl rfl rfl rfl rfl rfl (GrowsL.refl _ _)
      case src =>
        have hco' := coordOK_iff hco
        have hx' : C * (ls.length + 1) ≤ x := by
          rcases hx with hx | hx
          · exact absurd hx (by decide)
          · exact hx
        have hC1 : C ≤ C * (ls.length + 1) := Nat.le_mul_of_pos_right _ (by omega)
        simp only [gcost] at hfuel
        obtain ⟨k1, k2⟩ := srcKey_ok2 hC coord.2
        have hk := k1.cost
        obtain ⟨s', cu, r1, r2⟩ := ih1 s (cfg.srcKey coord.2) coord delay os [] 0 n hN k1 hco
          (by intro l hl; cases hl) (by simp) (Or.inl k2) hn (by omega)
        simp only [dispatch]
        rw [if_neg (by rw [hN.cfgEq]; have := hco'.2; omega), hN.cfgEq, r1]
        exact ⟨s', .noEvent, rfl, r2⟩
      case multipleActions acs =>
        simp only [gcost] at hfuel
        have ku := keep_updateCoord cfg.layers.length s coord
        obtain ⟨s1, c1, r1, r2⟩ := ih3 (updateCoord s coord) acs coord delay os ls .noEvent x n (hN.keep ku)
          (fun a ha => hA.kid ha) hco hls hlen
          (hx.imp (fun h a ha => grfree_kid (a := .multipleActions acs) h ha) id) (by rw [ku.queue]; exact hn) (by omega)
        simp only [dispatch, r1]
        exact ⟨_, _, rfl, (Post2.after_keep ku r2).then_keep (keep_setRpt _ _ _)⟩
      case fork l r ks =>
        simp only [dispatch]
        generalize hb : (if forkHit s ks = true then r else l) = b
        have hkb : b ∈ kids (.fork l r ks) := by
          subst hb; simp only [kids]; split <;> simp
        have hcb := gcost_kid hkb
        obtain ⟨s1, c1, r1, r2⟩ := ih1 s b coord delay false ls x n hN (hA.kid hkb) hco hls hlen
          (hx.imp (fun h => grfree_kid h hkb) id) hn (by omega)
        rw [r1]
        exact ⟨_, _, rfl, r2.then_keep (keep_setRpt _ _ _)⟩
      case holdTap T hold tap to hcfg iv =>
        simp only [nodeOK] at hnode
        have hkt : tap ∈ kids (.holdTap T hold tap to hcfg iv) := by simp [kids]
        have hkto : to ∈ kids (.holdTap T hold tap to hcfg iv) := by simp [kids]
        have hct := gcost_kid hkt
        simp only [dispatch]
        split
        · rw [if_neg (by omega)]
          exact ⟨_, _, rfl, post2_armHoldTapWait hN coord delay T hold tap to hcfg iv ls hnode (hA.kid hkt) (hA.kid hkto)
            hco hls hlen⟩
        · have k0 : Keep cfg.layers.length s { s with lptTapHoldTimeout := 0 } :=
            Keep.of_states rfl rfl rfl rfl rfl rfl rfl (GrowsL.refl _ _)
          obtain ⟨s1, c1, r1, r2⟩ := ih1 { s with lptTapHoldTimeout := 0 } tap coord delay os ls x n (hN.keep k0)
            (hA.kid hkt) hco hls hlen (hx.imp (fun h => grfree_kid h hkt) id) (by rw [k0.queue]; exact hn) (by omega)
          simp only [r1]
          exact ⟨_, _, rfl, (Post2.after_keep k0 r2).then_keep (keep_updateCoord _ _ coord)⟩
      case oneShot inner T v =>
        simp only [nodeOK] at hnode
        have hs := simpleIn_simple hnode
        simp only [gcost] at hfuel
        obtain ⟨g, rfl⟩ : ∃ g, fuel = g + 2 := ⟨fuel - 2, by omega⟩
        rw [dispatch_oneShot' g s inner hs]
        have ko : Keep cfg.layers.length s (C06.oneShotArm s inner T v coord).1 := by
          unfold C06.oneShotArm
          exact (((keep_updateCoord _ s coord).trans (keep_prelude _ _ coord)).trans
            (keep_simpleArm _ _ inner (simpleIn_layer hnode) coord true)).trans (keep_armOneShotPost _ _ _ coord T v)
        generalize C06.oneShotArm s inner T v coord = r at ko
        obtain ⟨s2, ov⟩ := r
        cases ov with
        | none => exact ⟨s2, .noEvent, rfl, Post2.of_keep hN ko⟩
        | some k =>
          simp only []
          have hosh : osh = true := hA.osh (gosh_oneShot _ _ _)
          simp only [Eres, hosh, if_true] at hfuel
          obtain ⟨s3, r1, r2⟩ := ih6 s2 k n (hN.keep ko) hosh (by rw [ko.queue]; exact hn) (by omega)
          rw [r1]
          exact ⟨s3, .noEvent, rfl, Post2.after_keep ko r2⟩
      case tapDance acs T eager =>
        have hne : acs ≠ [] := by
          intro h; subst h; simp [nodeOK] at hnode
        have hkids : ∀ a ∈ acs, ActOK2 cfg sw C P osh a := fun a ha => hA.kid ha
        cases eager with
        | false =>
          simp only [dispatch, Bool.not_false, if_true]
          rw [if_neg (by omega)]
          refine ⟨_, _, rfl, post2_armWait hN coord delay T _ ls ?_⟩
          intro w h1 h2 h3 h4 h5
          exact ⟨h1, h2 ▸ actOK2_noOp hC, h3 ▸ hco, h4 ▸ hls, h4 ▸ hlen, Or.inl ⟨acs, T, 1, h5, hne, hkids⟩⟩
        | true =>
          simp only [dispatch, Bool.not_true, Bool.false_eq_true, if_false]
          cases acs with
          | nil => exact absurd rfl hne
          | cons a0 rest =>
            simp only [List.getElem?_cons_zero]
            have hk0 : a0 ∈ kids (.tapDance (a0 :: rest) T true) := List.mem_cons_self
            have hc0 := gcost_kid hk0
            have p0 := post2_armEager hN coord (a0 :: rest) T hkids
            obtain ⟨s1, c1, r1, r2⟩ := ih1 (armEager s coord (a0 :: rest) T) a0 coord delay false ls x n p0.nc
              (hA.kid hk0) hco hls hlen (hx.imp (fun h => grfree_kid h hk0) id) (Nat.le_trans p0.pr hn) (by omega)
            rw [r1]
            exact ⟨_, _, rfl, p0.trans r2⟩
      case chords coords chs T =>
        simp only [nodeOK, List.all_eq_true] at hnode
        simp only [dispatch]
        rw [if_neg (by omega)]
        refine ⟨_, _, rfl, post2_armWait hN coord delay T _ ls ?_⟩
        intro w h1 h2 h3 h4 h5
        refine ⟨h1, h2 ▸ actOK2_noOp hC, h3 ▸ hco, h4 ▸ hls, h4 ▸ hlen, Or.inr ⟨_, h5, hnode, ?_⟩⟩
        intro e he
        exact hA.kid (List.mem_map.mpr ⟨e, he, rfl⟩)
      case switch cs =>
        simp only [nodeOK, List.all_eq_true] at hnode
        obtain ⟨order, ho, _, _⟩ := transOrder_ok2 hC hN
        obtain ⟨acs, e1, e2⟩ := switchActions_ok (fun ops => Switch.evalOps ops (switchEnv s order)) cs
          (fun c hc => hC.sw c.1 (hnode c hc) _)
        simp only [dispatch, ho, e1]
        refine ⟨_, _, rfl, ⟨hN.cfgEq, hN.wok, hN.eok, hN.tde, ?_, hN.dl, hN.held, hN.qlen, hN.queue⟩, Nat.le_refl _⟩
        exact aq_push coord hco acs s.actionQueue (fun a ha => hA.kid (e2 a ha)) hN.aq
    · -- doActions
      intro s acs coord delay os ls cu0 x n hN hA hco hls hlen hx hn hfuel
      cases acs with
      | nil => exact ⟨s, cu0, by simp only [doActions], Post2.refl hN⟩
      | cons a rest =>
        simp only [gcostL] at hfuel
        obtain ⟨s1, c1, r1, p1⟩ := ih1 s a coord delay os ls x n hN (hA a List.mem_cons_self) hco hls hlen
          (hx.imp (fun h => h a List.mem_cons_self) id) hn (by omega)
        obtain ⟨s2, c2, r2, p2⟩ := ih3 s1 rest coord delay os ls (cu0.update c1) x n p1.nc
          (fun b hb => hA b (List.mem_cons_of_mem _ hb))
          hco hls hlen (hx.imp (fun h b hb => h b (List.mem_cons_of_mem _ hb)) id) (Nat.le_trans p1.pr hn) (by omega)
        exact ⟨s2, c2, by simp only [doActions, r1, r2], p1.trans p2⟩
    · -- a press taken from the queue: resolution from the top of the layer order
      intro s coord delay os order n hN hco hol hlen hn hfuel
      have kp := keep_prelude cfg.layers.length s coord
      obtain ⟨a', ls', e1, e2, e3, e4, e5⟩ := resolve_ok2 hN.cfgEq hC hco order hol
      simp only [doAction, e1]
      have hp := e3.press e2
      have hlen' : ls'.length ≤ MAX_ACTIVE_LAYERS :=
        Nat.le_trans (Quiesce.resolve_rest_le s coord order a' ls' e1) hlen
      by_cases hr : grfree a' = true
      · rw [if_pos hr] at hp
        obtain ⟨s', cu, r1, r2⟩ := ih2 (prelude s coord) a' coord delay os ls' 0 n (hN.keep kp) e3 hco
          (fun l hl => hol l (e5 l hl)) hlen' e2 (Or.inl hr) (by rw [kp.queue]; exact hn) (by omega)
        exact ⟨s', cu, r1, Post2.after_keep kp r2⟩
      · rw [if_neg hr] at hp
        have hl : ls'.length < order.length := by
          rcases e4 with e4 | e4
          · exact absurd e4 hr
          · exact e4
        have hm : C * (ls'.length + 1) ≤ C * 13 :=
          Nat.mul_le_mul_left C (by simp only [MAX_ACTIVE_LAYERS] at hlen; omega)
        obtain ⟨s', cu, r1, r2⟩ := ih2 (prelude s coord) a' coord delay os ls' (C * 13) n (hN.keep kp) e3 hco
          (fun l hl => hol l (e5 l hl)) hlen' e2 (Or.inr hm) (by rw [kp.queue]; exact hn) (by omega)
        exact ⟨s', cu, r1, Post2.after_keep kp r2⟩
    · -- dequeue of a press
      intro s c since n hN hco hn hfuel
      obtain ⟨order, ho, hol, hlen⟩ := transOrder_ok2 hC hN
      simp only [dequeue, bind, Except.bind, ho]
      cases htde : s.tapDanceEager with
      | none =>
        simp only []
        exact ih4 s c since false order n hN hco hol hlen hn (by omega)
      | some tde =>
        simp only []
        split
        · -- the next action of the eager tap-dance
          rename_i hcond
          simp only [Bool.and_eq_true, Bool.not_eq_true', TDE.isExpired, Bool.or_eq_false_iff, decide_eq_false_iff_not] at hcond
          have hlt : tde.numTaps < tde.actions.length := by omega
          have hget : tde.actions[tde.numTaps]? = some (tde.actions[tde.numTaps]) := List.getElem?_eq_getElem hlt
          rw [hget]
          simp only []
          have hAk : ActOK2 cfg sw C P osh (tde.actions[tde.numTaps]) := hN.tde tde htde _ (List.getElem_mem hlt)
          have hol' : ∀ l ∈ order.drop 1, l < cfg.layers.length := fun l hl => hol l (List.mem_of_mem_drop hl)
          have hlen'' : (order.drop 1).length ≤ MAX_ACTIVE_LAYERS := by
            simp only [List.length_drop]; omega
          have fin : ∀ (s' : Layout) (cu : CustomEv), Post2 cfg sw C P osh s s' →
              Post2 cfg sw C P osh s ({ s' with tapDanceEager := s'.tapDanceEager.map TDE.incrTaps } : Layout) := by
            intro s' cu p
            refine ⟨⟨p.nc.cfgEq, p.nc.wok, p.nc.eok, ?_, p.nc.aq, p.nc.dl, p.nc.held, p.nc.qlen, p.nc.queue⟩, p.pr⟩
            intro t ht
            simp only [Option.map_eq_some_iff] at ht
            obtain ⟨t0, ht0, rfl⟩ := ht
            exact p.nc.tde t0 ht0
          by_cases hat : tde.actions[tde.numTaps] = .trans
          · rw [hat]
            obtain ⟨s', cu, r1, r2⟩ := ih4 s c since false (order.drop 1) n hN hco hol' hlen'' hn (by omega)
            rw [r1]
            exact ⟨_, _, rfl, fin s' cu r2⟩
          · have hp := hAk.press hat
            have hm : C * ((order.drop 1).length + 1) ≤ C * 13 :=
              Nat.mul_le_mul_left C (by simp only [MAX_ACTIVE_LAYERS] at hlen''; omega)
            by_cases hr : grfree (tde.actions[tde.numTaps]) = true
            · rw [if_pos hr] at hp
              obtain ⟨s', cu, r1, r2⟩ := ih1 s _ c since false (order.drop 1) 0 n hN hAk hco hol' hlen'' (Or.inl hr) hn (by omega)
              rw [r1]
              exact ⟨_, _, rfl, fin s' cu r2⟩
            · rw [if_neg hr] at hp
              obtain ⟨s', cu, r1, r2⟩ := ih1 s _ c since false (order.drop 1) (C * 13) n hN hAk hco hol' hlen'' (Or.inr hm) hn (by omega)
              rw [r1]
              exact ⟨_, _, rfl, fin s' cu r2⟩
        · -- another key: the eager tap-dance expires
          have hN' : NC2 cfg sw C P osh (if c.1 == 0 then { s with tapDanceEager := some tde.setExpired } else s) := by
            split
            · refine ⟨hN.cfgEq, hN.wok, hN.eok, ?_, hN.aq, hN.dl, hN.held, hN.qlen, hN.queue⟩
              intro t ht
              injection ht with ht
              subst ht
              exact hN.tde tde htde
            · exact hN
          have hq' : (if c.1 == 0 then { s with tapDanceEager := some tde.setExpired } else s).queue = s.queue := by
            split <;> rfl
          obtain ⟨s', cu, r1, r2⟩ := ih4 _ c since false order n hN' hco hol hlen (by rw [hq']; exact hn) (by omega)
          exact ⟨s', cu, r1, ⟨r2.nc, by have := r2.pr; rw [hq'] at this; exact this⟩⟩
    · -- the re-entered event
      intro s c n hN hosh hn hfuel
      obtain ⟨s', r1, r2, r3⟩ := event_via2 fuel (by omega) s (.release c) hN rfl (fun s1 c1 since hN1 hco1 hp => by
        have hp' : presses s1.queue + 1 ≤ presses s.queue + 0 := hp
        obtain ⟨m, rfl⟩ : ∃ m, n = m + 1 := ⟨n - 1, by omega⟩
        rw [Nat.succ_mul] at hfuel
        refine ih5 s1 c1 since m hN1 hco1 (by omega) ?_
        simp only [Eres, hosh, if_true]
        omega)
      have r3' : presses s'.queue ≤ presses s.queue + 0 := r3
      exact ⟨s', r1, r2, by omega⟩

/-! ## one tick -/

section
variable {cfg : LCfg} {sw : List Nat → Bool} {C P : Nat} {osh : Bool}

/-- a stored action run from the top level (by `tick`): within the budget of the configuration -/
theorem run_top (hC : CfgOK2 cfg sw C P osh) (hB : Budget P osh) {s : Layout} (hN : NC2 cfg sw C P osh s)
    {a : Action} (hA : ActOK2 cfg sw C P osh a) {c : Coord} (hco : coordOK cfg c = true) (d : Nat) {ls : List Nat}
    (hls : ∀ l ∈ ls, l < cfg.layers.length) (hlen : ls.length ≤ MAX_ACTIVE_LAYERS) :
    ∃ s' cu, doAction FUEL s a c d false ls = .ok (s', cu) ∧ Post2 cfg sw C P osh s s' := by
  have hpr : presses s.queue ≤ 32 := by
    have := presses_le_length s.queue
    have := hN.qlen
    simp only [QUEUE_SIZE] at this; omega
  unfold Budget at hB
  by_cases hat : a = .trans
  · subst hat
    exact (engine2 cfg sw C P osh hC FUEL).2.2.2.1 s c d false ls 32 hN hco hls hlen hpr (by simp only [FUEL]; omega)
  · have hp := hA.press hat
    by_cases hr : grfree a = true
    · rw [if_pos hr] at hp
      exact (engine2 cfg sw C P osh hC FUEL).1 s a c d false ls 0 32 hN hA hco hls hlen (Or.inl hr) hpr
        (by simp only [FUEL]; omega)
    · rw [if_neg hr] at hp
      have hm : C * (ls.length + 1) ≤ C * 13 :=
        Nat.mul_le_mul_left C (by simp only [MAX_ACTIVE_LAYERS] at hlen; omega)
      exact (engine2 cfg sw C P osh hC FUEL).1 s a c d false ls (C * 13) 32 hN hA hco hls hlen (Or.inr hm) hpr
        (by simp only [FUEL]; omega)

/-! ### tap-hold keys among the waiting states (as in NoCrashFrag, for a single taken state) -/

theorem wIH_wok {L : Nat} (f : Nat) {s : Layout} (idx : Option Nat)
    (hT : ∀ w s1, takeWaiting s idx = some (w, s1) → WOK L w) :
    ∃ s' cu, waitingIntoHold (f + 3) s idx = .ok (s', cu) ∧ Keep L s s' := by
  simp only [waitingIntoHold]
  cases ht : takeWaiting s idx with
  | none => exact ⟨s, _, rfl, Keep.refl L s⟩
  | some r =>
    obtain ⟨w, s1⟩ := r
    have hw := hT w s1 ht
    have k1 := (takeWaiting_keep2 L idx w s1 ht).1
    simp only [C06.doAction_simple f _ w.hold (simpleIn_simple hw.hold)]
    exact ⟨_, _, rfl, (k1.trans (keep_holdPrep L s1 w)).trans (keep_simple L _ _ hw.hold _ _)⟩

theorem wIH_simple {L : Nat} (f : Nat) {s : Layout} (idx : Option Nat)
    (hT : ∀ w s1, takeWaiting s idx = some (w, s1) → simpleIn L w.hold = true) :
    ∃ s' cu, waitingIntoHold (f + 3) s idx = .ok (s', cu) ∧ Keep L s s' := by
  simp only [waitingIntoHold]
  cases ht : takeWaiting s idx with
  | none => exact ⟨s, _, rfl, Keep.refl L s⟩
  | some r =>
    obtain ⟨w, s1⟩ := r
    have hw := hT w s1 ht
    have k1 := (takeWaiting_keep2 L idx w s1 ht).1
    simp only [C06.doAction_simple f _ w.hold (simpleIn_simple hw)]
    exact ⟨_, _, rfl, (k1.trans (keep_holdPrep L s1 w)).trans (keep_simple L _ _ hw _ _)⟩

theorem wIT_wok {L : Nat} {s : Layout} (idx : Option Nat)
    (hT : ∀ w s1, takeWaiting s idx = some (w, s1) → WOK L w) :
    ∃ s' cu, waitingIntoTap s none idx = .ok (s', cu) ∧ Keep L s s' := by
  simp only [waitingIntoTap]
  cases ht : takeWaiting s idx with
  | none => exact ⟨s, _, rfl, Keep.refl L s⟩
  | some r =>
    obtain ⟨w, s1⟩ := r
    have hw := hT w s1 ht
    have k1 := (takeWaiting_keep2 L idx w s1 ht).1
    simp only [Quiesce.FUEL_2, C06.doAction_simple 3998 _ w.tap (simpleIn_simple hw.tap)]
    exact ⟨_, _, rfl, (k1.trans (keep_simple L _ _ hw.tap _ _)).trans (keep_tapPost L _)⟩

theorem wITo_wok {L : Nat} {s : Layout} (idx : Option Nat)
    (hT : ∀ w s1, takeWaiting s idx = some (w, s1) → WOK L w) :
    ∃ s' cu, waitingIntoTimeout s idx = .ok (s', cu) ∧ Keep L s s' := by
  simp only [waitingIntoTimeout]
  cases ht : takeWaiting s idx with
  | none => exact ⟨s, _, rfl, Keep.refl L s⟩
  | some r =>
    obtain ⟨w, s1⟩ := r
    have hw := hT w s1 ht
    have k1 := (takeWaiting_keep2 L idx w s1 ht).1
    simp only [Quiesce.FUEL_2, C06.doAction_simple 3998 _ w.timeoutAction (simpleIn_simple hw.to)]
    exact ⟨_, _, rfl, (k1.trans (keep_timeoutPrep L s1 w)).trans (keep_simple L _ _ hw.to _ _)⟩

theorem applyWA_wok {L : Nat} {s : Layout} (idx : Option Nat)
    (hT : ∀ w s1, takeWaiting s idx = some (w, s1) → WOK L w) (ra : Option WAct) (dflt : CustomEv) :
    ∃ s' cu, applyWaitingAction s (ra.map (·, none)) idx dflt = .ok (s', cu) ∧ Keep L s s' := by
  cases ra with
  | none => exact ⟨s, dflt, rfl, Keep.refl L s⟩
  | some a =>
    cases a with
    | hold =>
      obtain ⟨s', cu, e1, k1⟩ := wIH_wok (L := L) 3997 idx hT
      exact ⟨s', cu, e1, k1⟩
    | tap => exact wIT_wok idx hT
    | timeout => exact wITo_wok idx hT
    | noOp =>
      exact ⟨_, _, rfl, rfl, (fun _ h => by cases h), fun _ h => Or.inl h, rfl, rfl, rfl, Or.inl rfl, GrowsL.refl _ _⟩

/-! ### a chord's action repeated on the participating keys -/

theorem repeatForCoords_ok (hC : CfgOK2 cfg sw C P osh) (hB : Budget P osh) {ac : Action}
    (hA : ActOK2 cfg sw C P osh ac) (d : Nat) {ls : List Nat} (hls : ∀ l ∈ ls, l < cfg.layers.length)
    (hlen : ls.length ≤ MAX_ACTIVE_LAYERS) : ∀ (pq : List Coord) (s : Layout), (∀ c ∈ pq, coordOK cfg c = true) →
    NC2 cfg sw C P osh s → ∃ s', repeatForCoords ac d ls pq s = .ok s' ∧ NC2 cfg sw C P osh s' := by
  intro pq
  induction pq with
  | nil => intro s _ hN; exact ⟨s, rfl, hN⟩
  | cons c rest ih =>
    intro s hpq hN
    obtain ⟨s1, cu, r1, p1⟩ := run_top hC hB hN hA (hpq c List.mem_cons_self) d hls hlen
    obtain ⟨s2, r2, h2⟩ := ih s1 (fun x hx => hpq x (List.mem_cons_of_mem _ hx)) p1.nc
    exact ⟨s2, by simp only [repeatForCoords, r1, r2], h2⟩

theorem repeatSimpleActions_ok (hC : CfgOK2 cfg sw C P osh) (hB : Budget P osh) (acs0 : List Action) (d : Nat)
    {ls : List Nat} (hls : ∀ l ∈ ls, l < cfg.layers.length) (hlen : ls.length ≤ MAX_ACTIVE_LAYERS)
    {pq : List Coord} (hpq : ∀ c ∈ pq, coordOK cfg c = true) :
    ∀ (l : List Action) (s : Layout), (∀ a ∈ l, ActOK2 cfg sw C P osh a) → NC2 cfg sw C P osh s →
    ∃ s', repeatSimpleActions acs0 pq d ls l s = .ok s' ∧ NC2 cfg sw C P osh s' := by
  intro l
  induction l with
  | nil => intro s _ hN; exact ⟨s, rfl, hN⟩
  | cons a rest ih =>
    intro s hl hN
    simp only [repeatSimpleActions]
    split
    · obtain ⟨s1, r1, h1⟩ := repeatForCoords_ok hC hB (hl a List.mem_cons_self) d hls hlen pq s hpq hN
      rw [r1]
      exact ih s1 (fun x hx => hl x (List.mem_cons_of_mem _ hx)) h1
    · exact ih s (fun x hx => hl x (List.mem_cons_of_mem _ hx)) hN

theorem chordRepeat_ok (hC : CfgOK2 cfg sw C P osh) (hB : Budget P osh) {tap : Action}
    (hA : ActOK2 cfg sw C P osh tap) (d : Nat) {ls : List Nat} (hls : ∀ l ∈ ls, l < cfg.layers.length)
    (hlen : ls.length ≤ MAX_ACTIVE_LAYERS) {pq : List Coord} (hpq : ∀ c ∈ pq, coordOK cfg c = true)
    {s : Layout} (hN : NC2 cfg sw C P osh s) :
    ∃ s', chordRepeat tap pq d ls s = .ok s' ∧ NC2 cfg sw C P osh s' := by
  unfold chordRepeat
  split
  · exact repeatForCoords_ok hC hB hA d hls hlen pq s hpq hN
  · split
    · rename_i acs _
      exact repeatSimpleActions_ok hC hB acs d hls hlen hpq acs s (fun a ha => hA.kid ha) hN
    · exact ⟨s, rfl, hN⟩

/-- `waiting_into_tap` for a decided tap-dance or chord -/
theorem waitingIntoTap_ok2 (hC : CfgOK2 cfg sw C P osh) (hB : Budget P osh) {s : Layout} (hN : NC2 cfg sw C P osh s)
    {w : Waiting} (hw : s.waiting = some w) (hW : W2 cfg sw C P osh w) (pq : Option (List Coord))
    (hpq : ∀ l, pq = some l → ∀ c ∈ l, coordOK cfg c = true) :
    ∃ s' cu, waitingIntoTap s pq none = .ok (s', cu) ∧ NC2 cfg sw C P osh s' := by
  have hN1 : NC2 cfg sw C P osh s.clearWaiting :=
    ⟨hN.cfgEq, (fun _ h => by cases h), hN.eok, hN.tde, hN.aq, hN.dl, hN.held, hN.qlen, hN.queue⟩
  obtain ⟨s1, cu, r1, p1⟩ := run_top hC hB hN1 hW.tap hW.coord (waitingDelay w) hW.ls hW.lslen
  simp only [waitingIntoTap, takeWaiting, hw, Option.map_some, r1]
  cases pq with
  | none => exact ⟨_, _, rfl, p1.nc.keep (keep_tapPost _ _)⟩
  | some l =>
    obtain ⟨s2, r2, h2⟩ := chordRepeat_ok hC hB hW.tap (waitingDelay w) hW.ls hW.lslen (hpq l rfl) p1.nc
    simp only [r2]
    exact ⟨_, _, rfl, h2.keep (keep_tapPost _ _)⟩

/-! ### one tick of a tap-dance / chord waiting state -/

theorem tickWt_td2 {w : Waiting} (hW : W2 cfg sw C P osh w) {acs : List Action} {T k : Nat}
    (hc : w.config = .tapDance acs T k) (hne : acs ≠ []) (hk : ∀ a ∈ acs, ActOK2 cfg sw C P osh a)
    (q : List Queued) (aq : ActionQueue) :
    ∃ w' q' r, tickWt w q aq = .ok (w', q', aq, Option.map (·, none) r) ∧ W2 cfg sw C P osh w' ∧
      (∀ x ∈ q', x ∈ q) ∧ q'.length ≤ q.length ∧ (r = none ∨ r = some .tap) := by
  rw [C17.tickWt_td w acs T k hc]
  have hs := (C17.tickWtTd_cases (C17.cd w) acs T k q).1
  generalize tickWtTd (C17.cd w) acs T k q = res at hs
  cases hs with
  | idle _ _ =>
    exact ⟨_, _, none, rfl, ⟨hW.hold, hW.tap, hW.coord, hW.ls, hW.lslen, Or.inl ⟨acs, T, _, rfl, hne, hk⟩⟩,
      fun x h => h, Nat.le_refl _, Or.inl rfl⟩
  | counting n _ _ _ _ =>
    exact ⟨_, _, none, rfl, ⟨hW.hold, hW.tap, hW.coord, hW.ls, hW.lslen, Or.inl ⟨acs, T, _, rfl, hne, hk⟩⟩,
      fun x h => h, Nat.le_refl _, Or.inl rfl⟩
  | decided n a hp =>
    obtain ⟨a', h1, h2⟩ := C17.tdPick_some hne n
    rw [hp] at h1; injection h1 with h1; subst h1
    exact ⟨_, _, some .tap, rfl, ⟨hW.hold, hk a h2, hW.coord, hW.ls, hW.lslen, Or.inl ⟨acs, T, _, rfl, hne, hk⟩⟩,
      fun x h => (C17.evictTaps_sublist _ n q).subset h, (C17.evictTaps_sublist _ n q).length_le, Or.inr rfl⟩
  | crash h => exact absurd h hne

theorem getKeys_ok {g : ChordsGroup} (hg : ∀ p ∈ g.coords, coordOK cfg p.1 = true) {c : Coord}
    (h : (g.getKeys c).isSome = true) : coordOK cfg c = true := by
  unfold ChordsGroup.getKeys at h
  cases hf : g.coords.find? (·.1 == c) with
  | none => rw [hf] at h; cases h
  | some p =>
    have h1 := List.mem_of_find?_eq_some hf
    have h2 := List.find?_some hf
    have h3 : p.1 = c := by simpa using h2
    rw [← h3]; exact hg p h1

theorem getChord_mem {g : ChordsGroup} {m : Nat} {a : Action} (h : g.getChord m = some a) : ∃ e ∈ g.chords, e.2 = a := by
  unfold ChordsGroup.getChord at h
  simp only [Option.map_eq_some_iff] at h
  obtain ⟨e, he, rfl⟩ := h
  exact ⟨e, List.mem_of_find?_eq_some he, rfl⟩

theorem unamb_go_mem (keys : Nat) : ∀ (l : List (Nat × Action)) (acc : Option Action) (a : Action),
    ChordsGroup.getChordIfUnambiguous.go keys l acc = some a → acc = some a ∨ ∃ e ∈ l, e.2 = a := by
  intro l
  induction l with
  | nil => intro acc a h; exact Or.inl h
  | cons e r ih =>
    intro acc a h
    obtain ⟨ck, b⟩ := e
    simp only [ChordsGroup.getChordIfUnambiguous.go] at h
    split at h
    · rcases ih _ a h with g | ⟨e, he, g⟩
      · injection g with g; exact Or.inr ⟨(ck, b), List.mem_cons_self, g⟩
      · exact Or.inr ⟨e, List.mem_cons_of_mem _ he, g⟩
    · split at h
      · cases h
      · rcases ih _ a h with g | ⟨e, he, g⟩
        · exact Or.inl g
        · exact Or.inr ⟨e, List.mem_cons_of_mem _ he, g⟩

theorem unamb_mem {g : ChordsGroup} {m : Nat} {a : Action} (h : g.getChordIfUnambiguous m = some a) :
    ∃ e ∈ g.chords, e.2 = a := by
  unfold ChordsGroup.getChordIfUnambiguous at h
  rcases unamb_go_mem m g.chords none a h with g | g
  · cases g
  · exact g

theorem coordForChord_ok {w : Waiting} {g : ChordsGroup} (hg : ∀ p ∈ g.coords, coordOK cfg p.1 = true) {dflt : Coord}
    (h1 : coordOK cfg dflt = true) (h2 : coordOK cfg w.coord = true) (q : List Queued) (mask : Nat) :
    coordOK cfg (coordForChord w g dflt q mask) = true := by
  unfold coordForChord
  split
  · exact h1
  · split
    · exact h2
    · split
      · rename_i x hf
        have h3 := List.find?_some hf
        apply getKeys_ok hg
        cases hk : g.getKeys x.ev.coord with
        | some _ => rfl
        | none => rw [hk] at h3; simp at h3
      · exact h1

theorem releasedBy_ok {g : ChordsGroup} (hg : ∀ p ∈ g.coords, coordOK cfg p.1 = true) {l : List Queued} {c : Coord}
    (h : C09.releasedBy g l = some c) : coordOK cfg c = true := by
  cases l with
  | nil => cases h
  | cons s rest =>
    simp only [C09.releasedBy] at h
    split at h
    · rename_i hs
      injection h with h; subst h; exact getKeys_ok hg hs
    · cases h

/-- what the decomposition queues: chord actions of the group, at coordinates inside the table -/
theorem decomposeChord_ok {w : Waiting} {g : ChordsGroup} (hg : ∀ p ∈ g.coords, coordOK cfg p.1 = true)
    (hg2 : ∀ e ∈ g.chords, ActOK2 cfg sw C P osh e.2) (hwc : coordOK cfg w.coord = true) (q : List Queued)
    (aq : ActionQueue) (haq : ∀ e ∈ aq, coordOK cfg e.1 = true ∧ ActOK2 cfg sw C P osh e.2.2) :
    ∀ y ∈ decomposeChord w g q aq, coordOK cfg y.1 = true ∧ ActOK2 cfg sw C P osh y.2.2 := by
  have hd : decomposeChord w g q aq =
      C09.pushAll aq ((C09.segs g (((g.getKeys w.coord).getD 0) :: C09.newMasks g ((g.getKeys w.coord).getD 0) (C09.participants w g q))
        (((g.getKeys w.coord).getD 0) :: C09.newMasks g ((g.getKeys w.coord).getD 0) (C09.participants w g q)).length 0).map
        (C09.entryOf w g ((C09.releasedBy g (C09.scanRest w g q)).getD w.coord) q
          (((g.getKeys w.coord).getD 0) :: C09.newMasks g ((g.getKeys w.coord).getD 0) (C09.participants w g q))
          (min (w.delay + w.ticks) U16_MAX))) := by
    unfold decomposeChord
    simp only [C09.decomposeFold_closed]
    rw [C09.decomposeLoop_eq]
    rfl
  rw [hd]
  have hall : ∀ (es : List (Coord × Nat × Action)) (aq : ActionQueue),
      (∀ e ∈ aq, coordOK cfg e.1 = true ∧ ActOK2 cfg sw C P osh e.2.2) →
      (∀ e ∈ es, coordOK cfg e.1 = true ∧ ActOK2 cfg sw C P osh e.2.2) →
      ∀ y ∈ C09.pushAll aq es, coordOK cfg y.1 = true ∧ ActOK2 cfg sw C P osh y.2.2 := by
    intro es
    induction es with
    | nil => intro aq h _; exact h
    | cons e rest ih =>
      intro aq h1 h2
      refine ih _ ?_ (fun x hx => h2 x (List.mem_cons_of_mem _ hx))
      intro x hx
      rcases Quiesce.mem_pushBackWrap hx with g1 | g1
      · exact h1 x g1
      · subst g1; exact h2 _ List.mem_cons_self
  refine hall _ aq haq ?_
  intro y hy
  obtain ⟨seg, hseg, rfl⟩ := List.mem_map.mp hy
  obtain ⟨m, hm⟩ := Quiesce.segs_defined g _ _ _ seg hseg
  obtain ⟨e, he, hea⟩ := getChord_mem hm
  have hdf : coordOK cfg ((C09.releasedBy g (C09.scanRest w g q)).getD w.coord) = true := by
    cases hr : C09.releasedBy g (C09.scanRest w g q) with
    | none => exact hwc
    | some c => exact releasedBy_ok hg hr
  refine ⟨?_, ?_⟩
  · show coordOK cfg (coordForChord w g _ q _) = true
    exact coordForChord_ok hg hdf hwc q _
  · show ActOK2 cfg sw C P osh seg.2.2
    rw [← hea]; exact hg2 e he

theorem keptQueue_sub (w : Waiting) (g : ChordsGroup) (q : List Queued) :
    (∀ x ∈ C09.keptQueue w g q, x ∈ q) ∧ (C09.keptQueue w g q).length ≤ q.length := by
  have ha := C09.scan_append w g q
  refine ⟨fun x hx => ?_, ?_⟩
  · rw [← ha]
    unfold C09.keptQueue at hx
    rcases List.mem_append.mp hx with h | h
    · exact List.mem_append_left _ (List.mem_filter.mp h).1
    · exact List.mem_append_right _ h
  · have : q.length = (C09.scanPre w g q).length + (C09.scanRest w g q).length := by
      rw [← List.length_append, ha]
    unfold C09.keptQueue
    rw [List.length_append, this]
    have := List.length_filter_le (fun s => !C09.chordPress w g s) (C09.scanPre w g q)
    omega

theorem pressedQueue_ok {w : Waiting} {g : ChordsGroup} {q : List Queued} (hwc : coordOK cfg w.coord = true)
    (hq : ∀ x ∈ q, evOK cfg x.ev = true) : ∀ c ∈ C09.pressedQueue w g q, coordOK cfg c = true := by
  intro c hc
  unfold C09.pressedQueue at hc
  rcases List.mem_cons.mp (List.mem_of_mem_take hc) with h | h
  · rw [h]; exact hwc
  · obtain ⟨x, hx, hxe⟩ := List.mem_map.mp h
    unfold C09.participants at hx
    obtain ⟨hx1, hx2⟩ := List.mem_filter.mp hx
    have hxq : x ∈ q := by
      rw [← C09.scan_append w g q]; exact List.mem_append_left _ hx1
    have hpress : x.ev.isPress = true := by
      unfold C09.chordPress at hx2
      simp only [Bool.and_eq_true] at hx2
      exact hx2.1.2
    have := hq x hxq
    rw [← hxe]
    cases hev : x.ev with
    | press c' => rw [hev] at this; exact this
    | release c' => rw [hev] at hpress; cases hpress

theorem tickWt_chord2 {w : Waiting} (hW : W2 cfg sw C P osh w) {g : ChordsGroup} (hc : w.config = .chord g)
    (hg : ∀ p ∈ g.coords, coordOK cfg p.1 = true) (hg2 : ∀ e ∈ g.chords, ActOK2 cfg sw C P osh e.2)
    (hC : CfgOK2 cfg sw C P osh)
    (q : List Queued) (aq : ActionQueue) (hq : ∀ x ∈ q, evOK cfg x.ev = true)
    (haq : ∀ e ∈ aq, coordOK cfg e.1 = true ∧ ActOK2 cfg sw C P osh e.2.2) :
    ∃ w' q' aq' r, tickWt w q aq = .ok (w', q', aq', r) ∧ W2 cfg sw C P osh w' ∧
      (∀ x ∈ q', x ∈ q) ∧ q'.length ≤ q.length ∧
      (∀ e ∈ aq', coordOK cfg e.1 = true ∧ ActOK2 cfg sw C P osh e.2.2) ∧
      (r = none ∨ (∃ pq, r = some (.tap, some pq) ∧ ∀ c ∈ pq, coordOK cfg c = true) ∨
        (∃ pq, r = some (.noOp, some pq))) := by
  have hk := keptQueue_sub (C09.ticked w) g q
  have hpq := pressedQueue_ok (w := C09.ticked w) (g := g) (q := q) hW.coord hq
  have kind : (∃ acs T k, (C09.ticked w).config = .tapDance acs T k ∧ acs ≠ [] ∧ ∀ a ∈ acs, ActOK2 cfg sw C P osh a) ∨
      (∃ g, (C09.ticked w).config = .chord g ∧ (∀ p ∈ g.coords, coordOK cfg p.1 = true) ∧
        ∀ e ∈ g.chords, ActOK2 cfg sw C P osh e.2) := Or.inr ⟨g, hc, hg, hg2⟩
  rcases C09.tickWt_chord_cases w g hc q aq with ⟨p, h⟩ | ⟨a, ha, h⟩ | ⟨a, ha, _, h⟩ | ⟨a, c, ha, hr, h⟩ | ⟨_, h⟩
  · exact ⟨_, _, _, _, h, ⟨hW.hold, hW.tap, hW.coord, hW.ls, hW.lslen, kind⟩, fun x h => h, Nat.le_refl _, haq, Or.inl rfl⟩
  · obtain ⟨e, he, hea⟩ := unamb_mem ha
    exact ⟨_, _, _, _, h, ⟨hW.hold, hea ▸ hg2 e he, hW.coord, hW.ls, hW.lslen, kind⟩, hk.1, hk.2, haq,
      Or.inr (Or.inl ⟨_, rfl, hpq⟩)⟩
  · obtain ⟨e, he, hea⟩ := getChord_mem ha
    exact ⟨_, _, _, _, h, ⟨hW.hold, hea ▸ hg2 e he, hW.coord, hW.ls, hW.lslen, kind⟩, hk.1, hk.2, haq,
      Or.inr (Or.inl ⟨_, rfl, hpq⟩)⟩
  · obtain ⟨e, he, hea⟩ := getChord_mem ha
    exact ⟨_, _, _, _, h, ⟨hW.hold, hea ▸ hg2 e he, releasedBy_ok hg hr, hW.ls, hW.lslen, kind⟩, hk.1, hk.2, haq,
      Or.inr (Or.inl ⟨_, rfl, hpq⟩)⟩
  · refine ⟨_, _, _, _, h, ⟨hW.hold, actOK2_noOp hC, hW.coord, hW.ls, hW.lslen, kind⟩, hk.1, hk.2, ?_,
      Or.inr (Or.inr ⟨_, rfl⟩)⟩
    exact decomposeChord_ok (w := { C09.ticked w with prevQueueLen := q.length % 256 }) hg hg2 hW.coord q aq haq

end

section
variable {cfg : LCfg} {sw : List Nat → Bool} {C P : Nat} {osh : Bool}

/-- the part of `tickPre` before the sequences advance -/
def preMid (s : Layout) : Layout :=
  let s := { s with queue := s.queue.map fun (q : Queued) => { q with since := min (q.since + 1) U16_MAX } }
  let s := { s with lptTapHoldTimeout := s.lptTapHoldTimeout - 1 }
  match s.tapDanceEager with
  | some tde => { s with tapDanceEager := tdeTick tde }
  | none => s

def histAged (s : Layout) : Layout := { s with histKeys := histTick s.histKeys, histInputs := histTick s.histInputs }

theorem tickPre_eq (s : Layout) : tickPre s = histAged (processSequences (preMid s)) := rfl

theorem nc2_preMid {s : Layout} (hN : NC2 cfg sw C P osh s) : NC2 cfg sw C P osh (preMid s) := by
  have hq1 : (s.queue.map fun (q : Queued) => { q with since := min (q.since + 1) U16_MAX }).length ≤ QUEUE_SIZE := by
    simpa using hN.qlen
  have hq2 : ∀ q ∈ (s.queue.map fun (q : Queued) => { q with since := min (q.since + 1) U16_MAX }), evOK cfg q.ev = true := by
    intro q hq
    obtain ⟨y, hy, hyq⟩ := List.mem_map.mp hq
    rw [← hyq]
    exact hN.queue y hy
  cases htde : s.tapDanceEager with
  | none =>
    unfold preMid
    simp only [htde]
    exact ⟨hN.cfgEq, hN.wok, hN.eok, fun t ht => by simp at ht, hN.aq, hN.dl, hN.held, hq1, hq2⟩
  | some tde =>
    unfold preMid
    simp only [htde]
    refine ⟨hN.cfgEq, hN.wok, hN.eok, ?_, hN.aq, hN.dl, hN.held, hq1, hq2⟩
    intro t ht
    have ht' : tdeTick tde = some t := ht
    unfold tdeTick at ht'
    split at ht'
    · cases ht'
    · injection ht' with ht'
      subst ht'
      exact hN.tde tde htde

theorem nc2_tickPre {s : Layout} (hN : NC2 cfg sw C P osh s) : NC2 cfg sw C P osh (tickPre s) := by
  rw [tickPre_eq]
  have k2 := keep_processSequences cfg.layers.length (preMid s)
  have k3 : Keep cfg.layers.length (processSequences (preMid s)) (histAged (processSequences (preMid s))) :=
    Keep.of_states rfl rfl rfl rfl rfl rfl rfl (GrowsL.refl _ _)
  exact (nc2_preMid hN).keep (k2.trans k3)

/-! ### tap-hold keys of the general kind -/

/-- one tick of an undecided tap-hold key (cf. `tickWt_wok`) -/
theorem tickWt_wq {w : Waiting} (hw : WQ cfg sw C P osh w) (q : List Queued) (aq : ActionQueue) :
    ∃ w' ra, tickWt w q aq = .ok (w', q, aq, Option.map (·, none) ra) ∧ WQ cfg sw C P osh w' := by
  rcases hw with hw | hw
  · obtain ⟨w', ra, e, h⟩ := tickWt_wok hw q aq
    exact ⟨w', ra, e, Or.inl h⟩
  · obtain ⟨c, hc⟩ := hw.cfgk
    obtain ⟨_, f2, f3, _, f5, f6, f7, f8, _⟩ :=
      C05.handleHoldTap_fields { w with timeout := w.timeout - 1, ticks := min (w.ticks + 1) U16_MAX } c q
    refine ⟨_, _, C05.tickWt_holdTap w c hc q aq, Or.inr ⟨⟨c, f2.trans hc⟩, ?_, ?_, ?_, ?_, ?_, ?_⟩⟩
    · rw [f5]; exact hw.hold
    · rw [f6]; exact hw.tap
    · rw [f7]; exact hw.to
    · rw [f3]; exact hw.coord
    · rw [f8]; exact hw.ls
    · rw [f8]; exact hw.lslen

theorem tickExtraWaitings_ok3 (q : List Queued) (aq : ActionQueue) :
    ∀ (ws done : List Waiting), (∀ w ∈ ws, WQ cfg sw C P osh w) → (∀ w ∈ done, WQ cfg sw C P osh w) →
      ∃ ews r, tickExtraWaitings ws q aq done =
          .ok (ews, q, aq, Option.map (fun (p : Nat × WAct) => (p.1, (p.2, none))) r) ∧
        (∀ w ∈ ews, WQ cfg sw C P osh w) := by
  intro ws
  induction ws with
  | nil =>
    intro done _ hd
    exact ⟨done.reverse, none, rfl, fun w hw => hd w (List.mem_reverse.mp hw)⟩
  | cons w rest ih =>
    intro done hws hd
    obtain ⟨w', ra, e1, hw'⟩ := tickWt_wq (hws w (by simp)) q aq
    cases ra with
    | none =>
      obtain ⟨ews, r, e2, h2⟩ := ih (w' :: done) (fun x hx => hws x (by simp [hx])) (by
        intro x hx
        rcases List.mem_cons.mp hx with rfl | hx
        · exact hw'
        · exact hd x hx)
      refine ⟨ews, r, ?_, h2⟩
      simp only [tickExtraWaitings, e1, Option.map_none]
      exact e2
    | some a =>
      refine ⟨done.reverse ++ w' :: rest, some (done.length, a), ?_, ?_⟩
      · simp only [tickExtraWaitings, e1, Option.map_some]
      · intro x hx
        rcases List.mem_append.mp hx with hx | hx
        · exact hd x (List.mem_reverse.mp hx)
        · rcases List.mem_cons.mp hx with rfl | hx
          · exact hw'
          · exact hws x (by simp [hx])

theorem wIT3 (hC : CfgOK2 cfg sw C P osh) (hB : Budget P osh) {s : Layout} (hN : NC2 cfg sw C P osh s) (idx : Option Nat)
    (hT : ∀ w s1, takeWaiting s idx = some (w, s1) → WQ cfg sw C P osh w) :
    ∃ s' cu, waitingIntoTap s none idx = .ok (s', cu) ∧ NC2 cfg sw C P osh s' := by
  simp only [waitingIntoTap]
  cases ht : takeWaiting s idx with
  | none => exact ⟨s, _, rfl, hN⟩
  | some r =>
    obtain ⟨w, s1⟩ := r
    have k1 := (takeWaiting_keep2 cfg.layers.length idx w s1 ht).1
    have hN1 := hN.keep k1
    rcases hT w s1 ht with hw | hw
    · simp only [Quiesce.FUEL_2, C06.doAction_simple 3998 _ w.tap (simpleIn_simple hw.tap)]
      exact ⟨_, _, rfl, hN1.keep ((keep_simple _ _ _ hw.tap _ _).trans (keep_tapPost _ _))⟩
    · obtain ⟨s2, cu, r1, p1⟩ := run_top hC hB hN1 hw.tap hw.coord (waitingDelay w) hw.ls hw.lslen
      simp only [r1]
      exact ⟨_, _, rfl, p1.nc.keep (keep_tapPost _ _)⟩

theorem wITo3 (hC : CfgOK2 cfg sw C P osh) (hB : Budget P osh) {s : Layout} (hN : NC2 cfg sw C P osh s) (idx : Option Nat)
    (hT : ∀ w s1, takeWaiting s idx = some (w, s1) → WQ cfg sw C P osh w) :
    ∃ s' cu, waitingIntoTimeout s idx = .ok (s', cu) ∧ NC2 cfg sw C P osh s' := by
  simp only [waitingIntoTimeout]
  cases ht : takeWaiting s idx with
  | none => exact ⟨s, _, rfl, hN⟩
  | some r =>
    obtain ⟨w, s1⟩ := r
    have k1 := (takeWaiting_keep2 cfg.layers.length idx w s1 ht).1
    have hN1 := hN.keep k1
    rcases hT w s1 ht with hw | hw
    · simp only [Quiesce.FUEL_2, C06.doAction_simple 3998 _ w.timeoutAction (simpleIn_simple hw.to)]
      exact ⟨_, _, rfl, hN1.keep ((keep_timeoutPrep _ s1 w).trans (keep_simple _ _ _ hw.to _ _))⟩
    · obtain ⟨s2, cu, r1, p1⟩ := run_top hC hB (hN1.keep (keep_timeoutPrep _ s1 w)) hw.to hw.coord (waitingDelay w)
        hw.ls hw.lslen
      exact ⟨s2, cu, r1, p1.nc⟩

/-- **the decision of a tap-hold key is carried out without a crash** (cf. `applyWaitingAction_ok`):
the hold action is simple; the tap and timeout actions run with the whole budget -/
theorem applyWA3 (hC : CfgOK2 cfg sw C P osh) (hB : Budget P osh) {s : Layout} (hN : NC2 cfg sw C P osh s)
    (idx : Option Nat) (hT : ∀ w s1, takeWaiting s idx = some (w, s1) → WQ cfg sw C P osh w) (ra : Option WAct)
    (dflt : CustomEv) :
    ∃ s' cu, applyWaitingAction s (ra.map (·, none)) idx dflt = .ok (s', cu) ∧ NC2 cfg sw C P osh s' := by
  cases ra with
  | none => exact ⟨s, dflt, rfl, hN⟩
  | some a =>
    cases a with
    | hold =>
      obtain ⟨s', cu, e1, k1⟩ := wIH_simple (L := cfg.layers.length) 3997 idx (fun w s1 h => (hT w s1 h).hold)
      exact ⟨s', cu, e1, hN.keep k1⟩
    | tap => exact wIT3 hC hB hN idx hT
    | timeout => exact wITo3 hC hB hN idx hT
    | noOp =>
      exact ⟨_, _, rfl, hN.cfgEq, (fun _ h => by cases h), hN.eok, hN.tde, hN.aq, hN.dl, hN.held, hN.qlen, hN.queue⟩

/-- third stage of a tick -/
theorem tickMain_ok2 (hC : CfgOK2 cfg sw C P osh) (hB : Budget P osh) {s : Layout} (hN : NC2 cfg sw C P osh s) :
    ∃ s' cu, tickMain s = .ok (s', cu) ∧ NC2 cfg sw C P osh s' := by
  cases hw : s.waiting with
  | some w =>
    rcases hN.wok w hw with hwok | hW
    · -- an undecided tap-hold key
      obtain ⟨w', ra, e1, hw'⟩ := tickWt_wq hwok s.queue s.actionQueue
      have hN' : NC2 cfg sw C P osh ({ s with waiting := some w', queue := s.queue, actionQueue := s.actionQueue } : Layout) :=
        ⟨hN.cfgEq, (fun x hx => by injection hx with hx; exact Or.inl (hx ▸ hw')), hN.eok, hN.tde, hN.aq, hN.dl, hN.held,
          hN.qlen, hN.queue⟩
      obtain ⟨s', cu, e2, h2⟩ := applyWA3 hC hB hN' none
        (fun w1 s1 h => by
          simp only [takeWaiting, Option.map_some] at h
          injection h with h; injection h with h1 h2
          exact h1 ▸ hw') ra .noEvent
      refine ⟨s', cu, ?_, h2⟩
      unfold tickMain
      simp only [hw, e1]
      exact e2
    · -- tap-dance or chord
      have fin : ∀ (w' : Waiting) (q' : List Queued) (aq' : ActionQueue) (r : Option (WAct × Option (List Coord))),
          W2 cfg sw C P osh w' → (∀ x ∈ q', x ∈ s.queue) → q'.length ≤ s.queue.length →
          (∀ e ∈ aq', coordOK cfg e.1 = true ∧ ActOK2 cfg sw C P osh e.2.2) →
          (r = none ∨ (∃ pq, r = some (.tap, pq) ∧ ∀ l, pq = some l → ∀ c ∈ l, coordOK cfg c = true) ∨
            (∃ pq, r = some (.noOp, pq))) →
          ∃ s' cu, applyWaitingAction ({ s with waiting := some w', queue := q', actionQueue := aq' } : Layout) r none .noEvent
            = .ok (s', cu) ∧ NC2 cfg sw C P osh s' := by
        intro w' q' aq' r hW' hq1 hq2 haq hr
        have hN' : NC2 cfg sw C P osh ({ s with waiting := some w', queue := q', actionQueue := aq' } : Layout) :=
          ⟨hN.cfgEq, (fun x hx => by injection hx with hx; exact Or.inr (hx ▸ hW')), hN.eok, hN.tde, haq, hN.dl, hN.held,
            Nat.le_trans hq2 hN.qlen, fun x hx => hN.queue x (hq1 x hx)⟩
        rcases hr with rfl | ⟨pq, rfl, hpq⟩ | ⟨pq, rfl⟩
        · exact ⟨_, _, rfl, hN'⟩
        · exact waitingIntoTap_ok2 hC hB hN' rfl hW' pq hpq
        · exact ⟨_, _, rfl, hN'.cfgEq, (fun _ h => by cases h), hN'.eok, hN'.tde, hN'.aq, hN'.dl, hN'.held, hN'.qlen, hN'.queue⟩
      rcases hW.kind with ⟨acs, T, k, hc, hne, hk⟩ | ⟨g, hc, hg, hg2⟩
      · obtain ⟨w', q', r, e1, hW', hq1, hq2, hr⟩ := tickWt_td2 hW hc hne hk s.queue s.actionQueue
        obtain ⟨s', cu, e2, h2⟩ := fin w' q' s.actionQueue (Option.map (·, none) r) hW' hq1 hq2 hN.aq (by
          rcases hr with rfl | rfl
          · exact Or.inl rfl
          · exact Or.inr (Or.inl ⟨none, rfl, fun l h => by cases h⟩))
        refine ⟨s', cu, ?_, h2⟩
        unfold tickMain
        simp only [hw, e1]
        exact e2
      · obtain ⟨w', q', aq', r, e1, hW', hq1, hq2, haq, hr⟩ := tickWt_chord2 hW hc hg hg2 hC s.queue s.actionQueue hN.queue hN.aq
        obtain ⟨s', cu, e2, h2⟩ := fin w' q' aq' r hW' hq1 hq2 haq (by
          rcases hr with rfl | ⟨pq, rfl, hpq⟩ | ⟨pq, rfl⟩
          · exact Or.inl rfl
          · exact Or.inr (Or.inl ⟨some pq, rfl, fun l h => by injection h with h; subst h; exact hpq⟩)
          · exact Or.inr (Or.inr ⟨_, rfl⟩))
        refine ⟨s', cu, ?_, h2⟩
        unfold tickMain
        simp only [hw, e1]
        exact e2
  | none =>
  by_cases hex : s.extraWaiting = []
  · by_cases hp : 0 < s.oneshot.pauseInputProcessingTicks
    · rw [C06.tickMain_paused hw hex hp]
      exact ⟨_, _, rfl, hN.keep (Keep.of_states rfl rfl rfl rfl rfl rfl rfl (GrowsL.refl _ _))⟩
    · have hp0 : s.oneshot.pauseInputProcessingTicks = 0 := by omega
      cases hq : s.queue with
      | nil =>
        rw [C06.tickMain_empty hw hex hp0 hq]
        exact ⟨_, _, rfl, hN⟩
      | cons q rest =>
        rw [C06.tickMain_pops hw hex hp0 q rest hq]
        have hlen : rest.length + 1 ≤ QUEUE_SIZE := by have := hN.qlen; rw [hq] at this; simpa using this
        have hN1 : NC2 cfg sw C P osh (s.setQueue rest) :=
          ⟨hN.cfgEq, hN.wok, hN.eok, hN.tde, hN.aq, hN.dl, hN.held, by show rest.length ≤ _; omega,
            fun x hx => hN.queue x (by rw [hq]; exact List.mem_cons_of_mem _ hx)⟩
        obtain ⟨ev, since⟩ := q
        cases ev with
        | release c =>
          obtain ⟨s', cu, e1, k1⟩ := dequeue_release_ok cfg.layers.length 3999 (s.setQueue rest) c since
          rw [FUEL_succ, e1]
          exact ⟨s', cu, rfl, hN1.keep k1⟩
        | press c =>
          have hco : coordOK cfg c = true := hN.queue ⟨.press c, since⟩ (by rw [hq]; exact List.mem_cons_self)
          have hpr : presses (s.setQueue rest).queue ≤ 32 := by
            have := presses_le_length rest
            show presses rest ≤ 32
            simp only [QUEUE_SIZE] at hlen; omega
          obtain ⟨s', cu, e1, p1⟩ := (engine2 cfg sw C P osh hC FUEL).2.2.2.2.1 (s.setQueue rest) c since 32 hN1 hco hpr
            (by unfold Budget at hB; simp only [FUEL]; omega)
          exact ⟨s', cu, e1, p1.nc⟩
  · refine ⟨s, .noEvent, ?_, hN⟩
    unfold tickMain
    have : s.extraWaiting.isEmpty = false := by
      cases h : s.extraWaiting with
      | nil => exact absurd h hex
      | cons _ _ => rfl
    simp only [hw, this, Bool.false_eq_true, if_false]

theorem processExtraWaitings_ok2 (hC : CfgOK2 cfg sw C P osh) (hB : Budget P osh) {s : Layout}
    (hN : NC2 cfg sw C P osh s) (cur : CustomEv) :
    ∃ s' cu, processExtraWaitings s cur = .ok (s', cu) ∧ NC2 cfg sw C P osh s' := by
  unfold processExtraWaitings
  split
  · exact ⟨s, cur, rfl, hN⟩
  · obtain ⟨ews, r, e1, h1⟩ := tickExtraWaitings_ok3 (cfg := cfg) (sw := sw) (C := C) (P := P) (osh := osh)
      s.queue s.actionQueue s.extraWaiting [] hN.eok (by intro w hw; cases hw)
    have hN' : NC2 cfg sw C P osh ({ s with extraWaiting := ews, queue := s.queue, actionQueue := s.actionQueue } : Layout) :=
      ⟨hN.cfgEq, hN.wok, h1, hN.tde, hN.aq, hN.dl, hN.held, hN.qlen, hN.queue⟩
    simp only [e1]
    cases r with
    | none => exact ⟨_, _, rfl, hN'⟩
    | some p =>
      exact applyWA3 hC hB hN' (some p.1)
        (fun w1 s1 h => by
          rcases (takeWaiting_keep2 cfg.layers.length (some p.1) w1 s1 h).2 with ⟨g, _⟩ | g
          · cases g
          · exact h1 w1 g) (some p.2) cur

theorem nc2_psc {s : Layout} (hN : NC2 cfg sw C P osh s) (cu : CustomEv) : NC2 cfg sw C P osh (processSequenceCustom s cu).1 := by
  obtain ⟨_, p2, _, p4, p5, _⟩ := Quiesce.psc_spec s cu
  have f := (Macro.processSequenceCustom_frame s cu).st
  refine ⟨f.cfg.trans hN.cfgEq, fun w hw => hN.wok w (by rw [f.waiting] at hw; exact hw),
    fun w hw => hN.eok w (by rw [f.extra] at hw; exact hw), fun t ht => hN.tde t (by rw [f.tde] at ht; exact ht),
    fun e he => hN.aq e (by rw [f.aq] at he; exact he), p4 ▸ hN.dl, ?_, p2 ▸ hN.qlen, ?_⟩
  · intro st hst v hv
    rcases p5 st hst with g | ⟨id, g⟩ | g
    · exact hN.held st g v hv
    · subst g; cases hv
    · subst g; cases hv
  · intro q hq
    rw [p2] at hq
    exact hN.queue q hq

/-- **one tick never crashes and keeps the invariant** — with a decomposed chord or switch actions
outstanding in the action queue as well -/
theorem tick_ok2 (hC : CfgOK2 cfg sw C P osh) (hB : Budget P osh) {s : Layout} (hN : NC2 cfg sw C P osh s) :
    ∃ s' cu, tick s = .ok (s', cu) ∧ NC2 cfg sw C P osh s' := by
  cases haq : s.actionQueue with
  | cons e rest =>
    obtain ⟨coord, delay, action⟩ := e
    have hN1 : NC2 cfg sw C P osh ({ s with actionQueue := rest } : Layout) :=
      ⟨hN.cfgEq, hN.wok, hN.eok, hN.tde, fun e he => hN.aq e (by rw [haq]; exact List.mem_cons_of_mem _ he), hN.dl,
        hN.held, hN.qlen, hN.queue⟩
    obtain ⟨order, ho, hol, hlen⟩ := transOrder_ok2 hC hN1
    have he := hN.aq (coord, delay, action) (by rw [haq]; exact List.mem_cons_self)
    obtain ⟨s', cu, r1, r2⟩ := run_top hC hB hN1 he.2 he.1 delay (ls := order.drop 1)
      (fun l hl => hol l (List.mem_of_mem_drop hl)) (by simp only [List.length_drop]; omega)
    refine ⟨s', cu, ?_, r2.nc⟩
    unfold tick
    simp only [haq, ho]
    exact r1
  | nil =>
    have hN0 := nc2_tickPre hN
    obtain ⟨s1, c1, e1, k1⟩ := tickOneshot_ok cfg.layers.length (tickPre s)
    have hN1 := hN0.keep k1
    obtain ⟨s2, c2, e2, hN2⟩ := tickMain_ok2 hC hB hN1
    obtain ⟨s3, c3, e3, hN3⟩ := processExtraWaitings_ok2 hC hB hN2 (c1.update c2)
    refine ⟨(processSequenceCustom s3 c3).1, (processSequenceCustom s3 c3).2, ?_, nc2_psc hN3 _⟩
    unfold tick
    simp only [haq, e1, e2, e3]

/-- **an event never crashes and keeps the invariant** — also when 32 events are pending -/
theorem event_ok2 (hC : CfgOK2 cfg sw C P osh) (hB : Budget P osh) {s : Layout} (hN : NC2 cfg sw C P osh s)
    (e : Ev) (he : evOK cfg e = true) : ∃ s', s.event e = .ok s' ∧ NC2 cfg sw C P osh s' := by
  unfold Layout.event
  rw [FUEL_succ]
  obtain ⟨s', r1, r2, _⟩ := event_via2 3999 (by decide) s e hN he (fun s1 c since hN1 hco hp => by
    have hlen := presses_le_length s.queue
    have := hN.qlen
    have hpe : (if e.isPress = true then 1 else 0) ≤ 1 := by split <;> omega
    exact (engine2 cfg sw C P osh hC 3999).2.2.2.2.1 s1 c since 32 hN1 hco (by simp only [QUEUE_SIZE] at this; omega)
      (by unfold Budget at hB; omega))
  exact ⟨s', r1, r2⟩

/-- **every history is processed**, and the invariant holds of the state reached -/
theorem runL_ok2 (hC : CfgOK2 cfg sw C P osh) (hB : Budget P osh) :
    ∀ (ins : List C04.In) (s : Layout), NC2 cfg sw C P osh s → C02.InTable cfg ins →
      ∃ s', runL s ins = .ok s' ∧ NC2 cfg sw C P osh s' := by
  intro ins
  induction ins with
  | nil => intro s hN _; exact ⟨s, rfl, hN⟩
  | cons i rest ih =>
    intro s hN ht
    unfold C02.InTable at ht
    simp only [List.all_cons, Bool.and_eq_true] at ht
    cases i with
    | ev e =>
      obtain ⟨s1, e1, hN1⟩ := event_ok2 hC hB hN e ht.1
      obtain ⟨s', h, hN'⟩ := ih s1 hN1 ht.2
      exact ⟨s', by simp only [runL, e1, h], hN'⟩
    | tick =>
      obtain ⟨s1, cu, e1, hN1⟩ := tick_ok2 hC hB hN
      obtain ⟨s', h, hN'⟩ := ih s1 hN1 ht.2
      exact ⟨s', by simp only [runL, e1, h], hN'⟩

theorem run_ok2 (hC : CfgOK2 cfg sw C P osh) (hB : Budget P osh) :
    ∀ (ins : List C04.In) (s : Layout), NC2 cfg sw C P osh s → C02.InTable cfg ins → ∃ t, C04.runM s ins = .ok t := by
  intro ins
  induction ins with
  | nil => intro s _ _; exact ⟨[], rfl⟩
  | cons i rest ih =>
    intro s hN ht
    unfold C02.InTable at ht
    simp only [List.all_cons, Bool.and_eq_true] at ht
    cases i with
    | ev e =>
      obtain ⟨s1, e1, hN1⟩ := event_ok2 hC hB hN e ht.1
      obtain ⟨t, h⟩ := ih s1 hN1 ht.2
      exact ⟨t, by simp only [C04.runM, e1, h]⟩
    | tick =>
      obtain ⟨s1, cu, e1, hN1⟩ := tick_ok2 hC hB hN
      obtain ⟨t, h⟩ := ih s1 hN1 ht.2
      exact ⟨s1.keycodes :: t, by simp only [C04.runM, e1, h]⟩

end

/-! ## decidable conditions -/

/-- **indices in range and fragment membership** (decidable, given the opcode check `sw`): the repaired
layer stack; there is a layer; every node of every configured action is well-formed (`nodeOK`); the
defsrc row holds no transparent / use-defsrc item -/
def RangeG (sw : List Nat → Bool) (c : LCfg) : Prop :=
  (!c.pinnedLayerStack && decide (0 < c.layers.length) && (allActions c).all (GAct c sw) &&
    c.srcKeys.all (fun e => grfree e.2)) = true

instance (sw : List Nat → Bool) (c : LCfg) : Decidable (RangeG sw c) := by unfold RangeG; exact inferInstance

def maxCostG (c : LCfg) : Nat := max 2 (listMax ((allActions c).map gcost))

def pressOfG (C : Nat) (a : Action) : Nat :=
  match a with
  | .trans => 0
  | a => gcost a + (if grfree a then 0 else C * 13)

def pressCostG (c : LCfg) : Nat := max 2 (listMax ((allActions c).map (pressOfG (maxCostG c))))

def cfgOshG (c : LCfg) : Bool := (allActions c).any gosh

/-- **the recursion budget** (decidable, a closed formula in the configuration), cf. `NCF.FuelU` -/
def FuelG (c : LCfg) : Prop := pressCostG c + 2 + Eres (cfgOshG c) (pressCostG c) 32 ≤ 3999

instance (c : LCfg) : Decidable (FuelG c) := by unfold FuelG; exact inferInstance

theorem pressOfG_eq (C : Nat) {a : Action} (h : a ≠ .trans) :
    pressOfG C a = gcost a + (if grfree a then 0 else C * 13) := by
  cases a <;> first | exact absurd rfl h | rfl

/-- the opcode check is sound: an accepted opcode array is evaluated without a crash in every environment -/
def SwSound (sw : List Nat → Bool) : Prop := ∀ ops, sw ops = true → ∀ env, ∃ b, Switch.evalOps ops env = .ok b

theorem cfgOK2_of_range {sw : List Nat → Bool} {c : LCfg} (h : RangeG sw c) (hsw : SwSound sw) :
    CfgOK2 c sw (maxCostG c) (pressCostG c) (cfgOshG c) := by
  unfold RangeG at h
  simp only [Bool.and_eq_true, Bool.not_eq_true', decide_eq_true_eq, List.all_eq_true] at h
  obtain ⟨⟨⟨h1, h2⟩, h3⟩, h4⟩ := h
  refine ⟨h1, h2, fun a ha => ⟨h3 a ha, ?_, ?_, ?_⟩, h4, Nat.le_max_left _ _, Nat.le_max_left _ _, hsw⟩
  · exact Nat.le_trans (le_listMax (List.mem_map.mpr ⟨a, ha, rfl⟩)) (Nat.le_max_right _ _)
  · intro hnt
    rw [← pressOfG_eq _ hnt]
    exact Nat.le_trans (le_listMax (List.mem_map.mpr ⟨a, ha, rfl⟩)) (Nat.le_max_right _ _)
  · intro ho
    exact List.any_eq_true.mpr ⟨a, ha, ho⟩

/-- the invariant of the union fragment is an instance of the larger one -/
theorem NC.toNC2 {cfg : LCfg} {sw : List Nat → Bool} {C P : Nat} {osh : Bool} {s : Layout} (h : NC cfg s) :
    NC2 cfg sw C P osh s :=
  ⟨h.cfgEq, fun w hw => Or.inl (Or.inl (h.wok w hw)), fun w hw => Or.inl (h.eok w hw), (fun t ht => by rw [h.tde] at ht; cases ht),
    (fun e he => by rw [h.aq] at he; cases he), h.dl, h.held, h.qlen, h.queue⟩

theorem simple_G (cfg : LCfg) (sw : List Nat → Bool) {a : Action} (h : simpleIn cfg.layers.length a = true) :
    GAct cfg sw a = true := by
  cases a <;> simp only [simpleIn, Bool.false_eq_true] at h
  case keyCode => rfl
  case multipleKeyCodes => rfl
  case layer l => simpa [GAct, flat, nodeOK] using h

/-- every action of the union fragment of NoCrashFrag is an action of the fragment `GAct` -/
theorem union_in_G (cfg : LCfg) (sw : List Nat → Bool) : ∀ (n : Nat) (a : Action), ucost a ≤ n →
    UAct cfg.layers.length a = true → GAct cfg sw a = true := by
  intro n
  induction n with
  | zero => intro a h; have := ucost_ge a; omega
  | succ n ih =>
    intro a hn hu
    cases a <;> try (simp only [UAct, Bool.false_eq_true] at hu; done)
    case noOp => rfl
    case trans => rfl
    case src => rfl
    case keyCode => rfl
    case multipleKeyCodes => rfl
    case defaultLayer => rfl
    case releaseState => rfl
    case custom => rfl
    case sequence => rfl
    case repeatableSequence => rfl
    case cancelSequences => rfl
    case oneShotIgnoreEventsTicks => rfl
    case layer l => simpa [GAct, flat, nodeOK, UAct] using hu
    case oneShot inner T v => simpa [GAct, flat, nodeOK, UAct] using hu
    case holdTap T hold tap to c iv =>
      simp only [UAct, Bool.and_eq_true] at hu
      have h2 := simple_G cfg sw hu.1.2
      have h3 := simple_G cfg sw hu.2
      unfold GAct at h2 h3 ⊢
      simp only [flat, List.all_cons, List.all_append, nodeOK, hu.1.1, h2, h3, Bool.and_self]
    case fork l r t =>
      simp only [UAct, Bool.and_eq_true] at hu
      simp only [ucost] at hn
      have h1 := ih l (by have := Nat.le_max_left (ucost l) (ucost r); omega) hu.1
      have h2 := ih r (by have := Nat.le_max_right (ucost l) (ucost r); omega) hu.2
      unfold GAct at h1 h2 ⊢
      simp only [flat, List.all_cons, List.all_append, nodeOK, h1, h2, Bool.and_self]
    case multipleActions acs =>
      simp only [UAct] at hu
      simp only [ucost] at hn
      have hL : ∀ l : List Action, ucostL l ≤ n → UActL cfg.layers.length l = true →
          (flatL l).all (nodeOK cfg sw) = true := by
        intro l
        induction l with
        | nil => intro _ _; rfl
        | cons b r ihr =>
          intro h1 h2
          simp only [ucostL] at h1
          simp only [UActL, Bool.and_eq_true] at h2
          have b1 := ih b (by have := Nat.le_max_left (ucost b) (ucostL r); omega) h2.1
          have r1 := ihr (by have := Nat.le_max_right (ucost b) (ucostL r); omega) h2.2
          unfold GAct at b1
          simp only [flatL, List.all_append, b1, r1, Bool.and_self]
      have := hL acs (by omega) hu
      unfold GAct
      simp only [flat, List.all_cons, nodeOK, this, Bool.and_self]

end KVerif.NCG
