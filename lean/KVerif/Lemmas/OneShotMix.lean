/-
C06 on the mixed fragment, helper lemmas part 1: the fragment C06 ∪ tap-hold keys (`FragM`), what a
dequeued press does on it, and what the resolution of a pending tap-hold key does — in particular
which `OneShotState` operation it performs (`handle_press(Other coord)`, by the resolved action's
arm, at resolution time and not before).
-/
import KVerif.Lemmas.OneShotStep
import KVerif.Lemmas.QuiesceTapHold
import KVerif.Lemmas.TapHoldMulti
namespace KVerif.C06
open KVerif.L

/-- the mixed fragment: plain keys, output chords, layer-while-held, transparent / unmapped
positions, one-shot of the first three (all four end variants), and tap-hold keys of every variant
whose hold, tap and timeout actions are one of the first three -/
def FragM : Action → Prop
  | .noOp | .trans | .keyCode _ | .multipleKeyCodes _ | .layer _ => True
  | .oneShot inner _ _ => Simple inner
  | .holdTap _ hold tap to _ _ => Simple hold ∧ Simple tap ∧ Simple to
  | _ => False

def CfgM (c : LCfg) : Prop :=
  (∀ tbl ∈ c.layers, ∀ e ∈ tbl, FragM e.2) ∧ (∀ e ∈ c.srcKeys, FragM e.2)

/-- a pending tap-hold key of the fragment -/
structure WOKm (w : Waiting) : Prop where
  cfg : ∃ c, w.config = .holdTap c
  hold : Simple w.hold
  tap : Simple w.tap
  to : Simple w.timeoutAction

theorem WOKm.isHT {w : Waiting} (h : WOKm w) : C05.isHT w = true := by
  obtain ⟨c, hc⟩ := h.cfg
  unfold C05.isHT; rw [hc]

theorem WOKm.counted {w w' : Waiting} (h : WOKm w) (hc : C05.Counted w w') : WOKm w' :=
  ⟨by obtain ⟨c, hcc⟩ := h.cfg; exact ⟨c, hc.config.trans hcc⟩, hc.hold ▸ h.hold, hc.tap ▸ h.tap,
   hc.timeoutAction ▸ h.to⟩

theorem PressOut.clearW {c : Coord} {s s' : Layout} (h : PressOut c s s') (hw : s.waiting = none) :
    PressOut c s { s' with waiting := none } :=
  ⟨⟨hw.symm, h.frame.extra, h.frame.tde, h.frame.aq, h.frame.seqs, h.frame.cfg, h.frame.dl, h.frame.tv2,
    h.frame.dfl⟩, ⟨h.adds.old, h.adds.new⟩, h.osh⟩

theorem fragM_frag {a : Action} (hf : FragM a) (hnt : ∀ T h t to cf iv, a ≠ .holdTap T h t to cf iv) : Frag a := by
  cases a <;> simp only [FragM] at hf <;> simp only [Frag]
  · exact absurd rfl (hnt _ _ _ _ _ _)
  · exact hf

/-- what a press on the mixed fragment does, nothing pending: as on the C06 fragment (`PressOut`),
except that a tap-hold key creates a waiting state and does *nothing else* — no state, no
`OneShotState` operation -/
theorem dispatch_M (fuel : Nat) (s : Layout) (a : Action) (hf : FragM a) (c : Coord) (d : Nat)
    (ls : List Nat) (s' : Layout) (cu : CustomEv) (hq : s.queue.length < QUEUE_SIZE) (hw : s.waiting = none)
    (h : dispatch (fuel + 3) s a c d false ls = .ok (s', cu)) :
    cu = .noEvent ∧ PressOut c s { s' with waiting := none } ∧
    (s'.waiting = none ∨ ∃ w, s'.waiting = some w ∧ w.coord = c ∧ WOKm w) := by
  by_cases hht : ∃ T h t to cf iv, a = .holdTap T h t to cf iv
  · obtain ⟨T, hold, tap, to, cf, iv, rfl⟩ := hht
    simp only [FragM] at hf
    rw [Quiesce.dispatch_holdTap fuel s T hold tap to cf iv c d ls hf.2.1] at h
    split at h
    · split at h
      · cases h
      · injection h with h; injection h with h1 h2; subst h1
        obtain ⟨w, e1, e2, e3, e4, e5, e6, e7, e8, e9, e10, e11, e12, e13⟩ :=
          Quiesce.armHoldTapWait_spec s c d T hold tap to cf iv ls hw
        refine ⟨h2.symm, ⟨e8, Adds.of_states e10, none, ?_, ?_⟩,
          Or.inr ⟨w, e1, e2, ⟨cf, e7⟩, e4 ▸ hf.1, e5 ▸ hf.2.1, e6 ▸ hf.2.2⟩⟩
        · show OshOp s.oneshot c (armHoldTapWait s c d T hold tap to cf iv ls).oneshot none
          rw [e11]; exact .skip
        · show (armHoldTapWait s c d T hold tap to cf iv ls).queue = _
          rw [e9]; simp [ovq]
    · injection h with h; injection h with h1 h2; subst h1
      obtain ⟨p1, p2, p3, p4⟩ := prelude_spec { s with lptTapHoldTimeout := 0 } c
      have sp := simpleArm_spec (prelude { s with lptTapHoldTimeout := 0 } c) tap hf.2.1 c false
      obtain ⟨u1, u2, u3, u4⟩ := updateCoord_spec (simpleArm (prelude { s with lptTapHoldTimeout := 0 } c) tap c false) c
      have f0 : Frame s { s with lptTapHoldTimeout := 0 } := ⟨rfl, rfl, rfl, rfl, rfl, rfl, rfl, rfl, rfl⟩
      have po : PressOut c s (updateCoord (simpleArm (prelude { s with lptTapHoldTimeout := 0 } c) tap c false) c) := by
        refine ⟨((f0.trans p1).trans sp.frame).trans u1, ?_, none, ?_, ?_⟩
        · exact (((Adds.of_states (c := c) (s := s) (s' := { s with lptTapHoldTimeout := 0 }) rfl).trans
            (prelude_adds _ c)).trans sp.adds).trans (Adds.of_states u4)
        · rw [u2, sp.osh, p2]
          simp only [Bool.false_eq_true, if_false]
          exact .other
        · rw [u3, sp.queue, p3]; simp [ovq]
      exact ⟨h2.symm, po.clearW hw, Or.inl (po.frame.waiting.trans hw)⟩
  · have hfa : Frag a := fragM_frag hf (fun T h t to cf iv he => hht ⟨T, h, t, to, cf, iv, he⟩)
    obtain ⟨r1, r2⟩ := dispatch_frag fuel s a hfa c d ls s' cu hq h
    exact ⟨r1, r2.clearW hw, Or.inl (r2.frame.waiting.trans hw)⟩

/-- **a press taken from the queue on the mixed fragment**, nothing pending -/
theorem dequeue_press_M {s : Layout} (hc : CfgM s.cfg) (htde : s.tapDanceEager = none) (hw : s.waiting = none)
    (hq : s.queue.length < QUEUE_SIZE) (c : Coord) (since : Nat) (s' : Layout) (cu : CustomEv)
    (hd : dequeue FUEL s ⟨.press c, since⟩ = .ok (s', cu)) :
    cu = .noEvent ∧ PressOut c s { s' with waiting := none } ∧
    (s'.waiting = none ∨ ∃ w, s'.waiting = some w ∧ w.coord = c ∧ WOKm w) := by
  rw [FUEL_5] at hd
  simp only [dequeue, htde, bind, Except.bind] at hd
  split at hd
  · cases hd
  · rename_i order ho
    simp only [doAction] at hd
    split at hd
    · cases hd
    · rename_i a ls hm
      have hfa : FragM a := Quiesce.resolve_pred FragM trivial trivial s c hc.1 hc.2 _ _ _ hm
      obtain ⟨p1, p2, p3, p4⟩ := prelude_spec s c
      obtain ⟨r1, r2, r3⟩ := dispatch_M 3995 (prelude s c) a hfa c since ls s' cu (by rw [p3]; exact hq)
        (p1.waiting.trans hw) hd
      refine ⟨r1, ⟨p1.trans r2.frame, (prelude_adds s c).trans r2.adds, ?_⟩, r3⟩
      obtain ⟨ov, q1, q2⟩ := r2.osh
      exact ⟨ov, by rw [p2] at q1; exact q1, by rw [q2, p3]⟩

/-! ### the resolution of a pending tap-hold key -/

/-- the layout after the decision `a` for the entry `w`, already taken out of `S` -/
def resolved (S : Layout) (w : Waiting) : WAct → Layout
  | .hold => simpleArm (prelude (holdPrep S w) w.coord) w.hold w.coord false
  | .tap => tapPost (simpleArm (prelude S w.coord) w.tap w.coord false)
  | .timeout => simpleArm (prelude (timeoutPrep S w) w.coord) w.timeoutAction w.coord false
  | .noOp => S

theorem resolveAct_simple (S : Layout) (w : Waiting) (hw : WOKm w) (a : WAct) (ha : a ≠ .noOp) :
    C05.resolveAct S w a = .ok (resolved S w a, .noEvent) := by
  cases a with
  | hold =>
    simp only [C05.resolveAct, resolved]
    rw [show (3999 : Nat) = 3997 + 2 from rfl, doAction_simple 3997 _ w.hold hw.hold]
  | tap =>
    simp only [C05.resolveAct, resolved]
    rw [show FUEL = 3998 + 2 from rfl, doAction_simple 3998 _ w.tap hw.tap]
  | timeout =>
    simp only [C05.resolveAct, resolved]
    rw [show FUEL = 3998 + 2 from rfl, doAction_simple 3998 _ w.timeoutAction hw.to]
  | noOp => exact absurd rfl ha

/-- the `OneShotState` after the resolution: the resolved action's arm calls
`handle_press(Other coord)`; `waiting_into_hold` starts the input pause before it, `waiting_into_tap`
after it -/
def resolvedOsh (o : OneShotState) (c : Coord) : WAct → OneShotState
  | .hold => ({ o with pauseInputProcessingTicks := o.pauseInputProcessingDelay }.handlePress (.other c)).1
  | .tap => { (o.handlePress (.other c)).1 with
      pauseInputProcessingTicks := (o.handlePress (.other c)).1.pauseInputProcessingDelay }
  | .timeout => (o.handlePress (.other c)).1
  | .noOp => o

theorem holdPrep_frame (S : Layout) (w : Waiting) :
    Frame S (holdPrep S w) ∧ (holdPrep S w).queue = S.queue ∧ (holdPrep S w).states = S.states ∧
    (holdPrep S w).oneshot = { S.oneshot with pauseInputProcessingTicks := S.oneshot.pauseInputProcessingDelay } := by
  unfold holdPrep
  split <;> exact ⟨⟨rfl, rfl, rfl, rfl, rfl, rfl, rfl, rfl, rfl⟩, rfl, rfl, rfl⟩

theorem timeoutPrep_frame (S : Layout) (w : Waiting) :
    Frame S (timeoutPrep S w) ∧ (timeoutPrep S w).queue = S.queue ∧ (timeoutPrep S w).states = S.states ∧
    (timeoutPrep S w).oneshot = S.oneshot := by
  unfold timeoutPrep
  split <;> exact ⟨⟨rfl, rfl, rfl, rfl, rfl, rfl, rfl, rfl, rfl⟩, rfl, rfl, rfl⟩

/-- **what a resolution does**: everything pending / static is untouched, the queue is untouched,
states are only added (at the key's coordinate), and the `OneShotState` changes by exactly
`resolvedOsh` -/
theorem resolved_spec (S : Layout) (w : Waiting) (hw : WOKm w) (a : WAct) (ha : a ≠ .noOp) :
    Frame S (resolved S w a) ∧ (resolved S w a).queue = S.queue ∧ Adds w.coord S (resolved S w a) ∧
    (resolved S w a).oneshot = resolvedOsh S.oneshot w.coord a := by
  cases a with
  | hold =>
    obtain ⟨h1, h2, h3, h4⟩ := holdPrep_frame S w
    obtain ⟨p1, p2, p3, p4⟩ := prelude_spec (holdPrep S w) w.coord
    have sp := simpleArm_spec (prelude (holdPrep S w) w.coord) w.hold hw.hold w.coord false
    refine ⟨(h1.trans p1).trans sp.frame, by rw [show (resolved S w .hold).queue = _ from sp.queue, p3, h2], ?_, ?_⟩
    · exact ((Adds.of_states (c := w.coord) h3).trans (prelude_adds _ _)).trans sp.adds
    · show (simpleArm (prelude (holdPrep S w) w.coord) w.hold w.coord false).oneshot = _
      rw [sp.osh, p2, h4]
      simp only [Bool.false_eq_true, if_false, resolvedOsh]
  | tap =>
    obtain ⟨p1, p2, p3, p4⟩ := prelude_spec S w.coord
    have sp := simpleArm_spec (prelude S w.coord) w.tap hw.tap w.coord false
    have f := p1.trans sp.frame
    refine ⟨⟨f.waiting, f.extra, f.tde, f.aq, f.seqs, f.cfg, f.dl, f.tv2, f.dfl⟩,
      by show (simpleArm (prelude S w.coord) w.tap w.coord false).queue = _; rw [sp.queue, p3], ?_, ?_⟩
    · have ad := (prelude_adds S w.coord).trans sp.adds
      exact ⟨ad.old, ad.new⟩
    · show ({ (simpleArm (prelude S w.coord) w.tap w.coord false).oneshot with
          pauseInputProcessingTicks := (simpleArm (prelude S w.coord) w.tap w.coord false).oneshot.pauseInputProcessingDelay } : OneShotState) = _
      rw [sp.osh, p2]
      simp only [Bool.false_eq_true, if_false, resolvedOsh]
  | timeout =>
    obtain ⟨h1, h2, h3, h4⟩ := timeoutPrep_frame S w
    obtain ⟨p1, p2, p3, p4⟩ := prelude_spec (timeoutPrep S w) w.coord
    have sp := simpleArm_spec (prelude (timeoutPrep S w) w.coord) w.timeoutAction hw.to w.coord false
    refine ⟨(h1.trans p1).trans sp.frame, by rw [show (resolved S w .timeout).queue = _ from sp.queue, p3, h2], ?_, ?_⟩
    · exact ((Adds.of_states (c := w.coord) h3).trans (prelude_adds _ _)).trans sp.adds
    · show (simpleArm (prelude (timeoutPrep S w) w.coord) w.timeoutAction w.coord false).oneshot = _
      rw [sp.osh, p2, h4]
      simp only [Bool.false_eq_true, if_false, resolvedOsh]
  | noOp => exact absurd rfl ha

/-- what `resolvedOsh` keeps, whatever the variant -/
theorem resolvedOsh_fields (o : OneShotState) (c : Coord) (a : WAct) :
    (resolvedOsh o c a).keys = o.keys ∧ (resolvedOsh o c a).releasedKeys = o.releasedKeys ∧
    (resolvedOsh o c a).releaseOnNextTick = o.releaseOnNextTick ∧
    (resolvedOsh o c a).ticksToIgnoreEvents = o.ticksToIgnoreEvents ∧
    (resolvedOsh o c a).endConfig = o.endConfig ∧
    (resolvedOsh o c a).pauseInputProcessingDelay = o.pauseInputProcessingDelay := by
  cases a with
  | hold =>
    obtain ⟨f1, f2, f3, f4, f5, f6⟩ :=
      handlePress_other_fields { o with pauseInputProcessingTicks := o.pauseInputProcessingDelay } c
    exact ⟨f1, f2, f3, f4, f5, f6⟩
  | tap =>
    obtain ⟨f1, f2, f3, f4, f5, f6⟩ := handlePress_other_fields o c
    exact ⟨f1, f2, f3, f4, f5, f6⟩
  | timeout => exact handlePress_other_fields o c
  | noOp => exact ⟨rfl, rfl, rfl, rfl, rfl, rfl⟩

/-- press variants, one-shot keys active: the countdown is capped at the rapid-event delay and
input processing pauses for the same number of ticks — for each of the three decisions -/
theorem resolvedOsh_pressEnd (o : OneShotState) (c : Coord) (a : WAct) (ha : a ≠ .noOp) (hk : o.keys ≠ [])
    (hi : o.ticksToIgnoreEvents = 0) (he : isPressEnd o.endConfig = true) :
    resolvedOsh o c a = { o with timeout := min o.pauseInputProcessingDelay o.timeout,
                                 pauseInputProcessingTicks := o.pauseInputProcessingDelay } := by
  cases a with
  | hold =>
    simp only [resolvedOsh]
    rw [handlePress_other_pressEnd ({ o with pauseInputProcessingTicks := o.pauseInputProcessingDelay }) c hk hi he]
  | tap =>
    simp only [resolvedOsh]
    rw [handlePress_other_pressEnd _ c hk hi he]
  | timeout =>
    simp only [resolvedOsh]
    rw [handlePress_other_pressEnd _ c hk hi he]
  | noOp => exact absurd rfl ha

/-- release variants, one-shot keys active: the key is remembered in `other_pressed_keys`; the
countdown goes on; (the input pause is the tap-hold's own: after hold and tap, not after timeout) -/
theorem resolvedOsh_releaseEnd (o : OneShotState) (c : Coord) (a : WAct) (ha : a ≠ .noOp) (hk : o.keys ≠ [])
    (hi : o.ticksToIgnoreEvents = 0) (he : isPressEnd o.endConfig = false) :
    resolvedOsh o c a = { o with
      otherPressedKeys := (pushBackWrap ONE_SHOT_MAX_ACTIVE o.otherPressedKeys c).1,
      pauseInputProcessingTicks := if a = .timeout then o.pauseInputProcessingTicks else o.pauseInputProcessingDelay } := by
  cases a with
  | hold =>
    simp only [resolvedOsh]
    rw [handlePress_other_releaseEnd ({ o with pauseInputProcessingTicks := o.pauseInputProcessingDelay }) c hk hi he]
    simp
  | tap =>
    simp only [resolvedOsh]
    rw [handlePress_other_releaseEnd _ c hk hi he]
    simp
  | timeout =>
    simp only [resolvedOsh]
    rw [handlePress_other_releaseEnd _ c hk hi he]
    simp
  | noOp => exact absurd rfl ha

/-- no one-shot key active: the resolution does not touch the `OneShotState` beyond the tap-hold's
own input pause -/
theorem resolvedOsh_inactive (o : OneShotState) (c : Coord) (a : WAct) (hk : o.keys = []) :
    resolvedOsh o c a = { o with
      pauseInputProcessingTicks := if a = .hold ∨ a = .tap then o.pauseInputProcessingDelay else o.pauseInputProcessingTicks } := by
  cases a with
  | hold =>
    simp only [resolvedOsh]
    rw [handlePress_inactive ({ o with pauseInputProcessingTicks := o.pauseInputProcessingDelay }) _ hk]; simp
  | tap => simp only [resolvedOsh]; rw [handlePress_inactive _ _ hk]; simp
  | timeout => simp only [resolvedOsh]; rw [handlePress_inactive _ _ hk]; simp
  | noOp => simp [resolvedOsh]

end KVerif.C06
