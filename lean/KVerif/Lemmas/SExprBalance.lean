/-
The parenthesis structure of a text as the lexer tokenises it (`tokKinds`), the usual balance check
on it (`balance`: the specification), and the proof that `parse_with` answers exactly what the
balance check says.
-/
import KVerif.Lemmas.SExprParse
namespace KVerif.SExpr

/-- the token kinds `Lexer` yields from `it` on, up to and including the first lexical error -/
def tokKinds (fx : Fixes) (ignore : Bool) : Nat → It → Except Crash (List (Except LexErr Tok))
  | 0, _ => .error .fuelOut
  | fuel + 1, it => do
    match ← nextToken fx ignore (it.rem + 1) it with
    | none => pure []
    | some (_, .error e, _) => pure [.error e]
    | some (_, .ok t, it') => do
      let r ← tokKinds fx ignore fuel it'
      pure (.ok t :: r)

inductive Verdict | balanced | unexpectedClose | unclosed | lexError
  deriving DecidableEq, Repr

/-- the specification: count parentheses -/
def balance : List (Except LexErr Tok) → Nat → Verdict
  | [], d => if d = 0 then .balanced else .unclosed
  | .error _ :: _, _ => .lexError
  | .ok .openP :: r, d => balance r (d + 1)
  | .ok .closeP :: r, d => if d = 0 then .unexpectedClose else balance r (d - 1)
  | .ok _ :: r, d => balance r d

/-- what the token loop must answer for each verdict of the balance check -/
def LoopAnswers (v : Verdict) (r : Except PErr (List Frame × List Meta)) : Prop :=
  match v with
  | .lexError => ∃ e l, r = .error e ∧ e.msg = .lex l
  | .unexpectedClose => ∃ e, r = .error e ∧ e.msg = .unexpectedClose
  | .unclosed => ∃ st md, r = .ok (st, md) ∧ 1 < st.length
  | .balanced => ∃ st md, r = .ok (st, md) ∧ st.length = 1

theorem parseLoop_balance (fx : Fixes) (ignore : Bool) :
    ∀ (fuel : Nat) (it : It) (stack : List Frame) (md : List Meta) (r) (ks),
      parseLoop fx ignore fuel it stack md = .ok r → tokKinds fx ignore fuel it = .ok ks → stack ≠ [] →
      LoopAnswers (balance ks (stack.length - 1)) r := by
  intro fuel
  induction fuel with
  | zero => intro it stack md r ks h; simp [parseLoop] at h
  | succ f ih =>
    intro it stack md r ks hp hk hne
    unfold parseLoop at hp
    unfold tokKinds at hk
    cases hn : nextToken fx ignore (it.rem + 1) it with
    | error c => simp [hn, bind, Except.bind] at hp
    | ok res =>
      simp only [hn, bind, Except.bind] at hp hk
      match res with
      | none =>
        simp [pure, Except.pure] at hp hk
        subst hp hk
        unfold balance LoopAnswers
        cases stack with
        | nil => exact absurd rfl hne
        | cons a b =>
          by_cases hb : b = []
          · subst hb; simp
          · have : 0 < b.length := List.length_pos_iff.mpr hb
            have hd : ¬((a :: b).length - 1 = 0) := by simp; omega
            simp only [hd, if_false]
            exact ⟨_, _, rfl, by simp; omega⟩
      | some ((start, its), t, it') =>
        simp only at hp hk
        cases hpos : it'.pos with
        | error c => simp [hpos] at hp
        | ok stop =>
          simp only [hpos] at hp
          cases hsp : Span.new start stop 1 with
          | error c => simp [hsp] at hp
          | ok span =>
            simp only [hsp] at hp
            match t with
            | .error e =>
              simp [pure, Except.pure] at hp hk
              subst hp hk
              exact ⟨_, e, rfl, rfl⟩
            | .ok tk =>
              cases hrest : tokKinds fx ignore f it' with
              | error c => simp [hrest] at hk
              | ok ks' =>
                simp [hrest, pure, Except.pure] at hk
                subst hk
                cases stack with
                | nil => exact absurd rfl hne
                | cons top rest =>
                  cases tk with
                  | openP =>
                    have := ih it' _ md r ks' hp hrest (by simp)
                    simpa [balance] using this
                  | closeP =>
                    cases rest with
                    | nil =>
                      simp [pure, Except.pure] at hp
                      subst hp
                      simp [balance, LoopAnswers]
                    | cons parent rest' =>
                      simp only at hp
                      cases hc : top.span.cover span with
                      | error c => simp [hc] at hp
                      | ok sp =>
                        simp only [hc] at hp
                        have := ih it' _ md r ks' hp hrest (by simp)
                        simpa [balance] using this
                  | str =>
                    simp only at hp
                    cases hs : sliceIt its it' with
                    | error c => simp [hs] at hp
                    | ok text =>
                      simp only [hs] at hp
                      have := ih it' _ md r ks' hp hrest (by simp)
                      simpa [balance] using this
                  | blockComment =>
                    simp only at hp
                    cases hs : sliceIt its it' with
                    | error c => simp [hs] at hp
                    | ok text =>
                      simp only [hs] at hp
                      have := ih it' _ _ r ks' hp hrest (by simp)
                      simpa [balance] using this
                  | lineComment =>
                    simp only at hp
                    cases hs : sliceIt its it' with
                    | error c => simp [hs] at hp
                    | ok text =>
                      simp only [hs] at hp
                      have := ih it' _ _ r ks' hp hrest (by simp)
                      simpa [balance] using this
                  | whitespace =>
                    simp only at hp
                    cases hs : sliceIt its it' with
                    | error c => simp [hs] at hp
                    | ok text =>
                      simp only [hs] at hp
                      have := ih it' _ _ r ks' hp hrest (by simp)
                      simpa [balance] using this

/-- the token stream exists for every text (no crash, enough fuel) -/
theorem tokKinds_total (fx : Fixes) (ignore : Bool) (s : List Nat) :
    ∀ (fuel : Nat) (it : It) (pre : List Nat), Good s pre it → it.rem + 1 ≤ fuel →
      ∃ ks, tokKinds fx ignore fuel it = .ok ks := by
  intro fuel
  induction fuel with
  | zero => intro it pre g h; omega
  | succ f ih =>
    intro it pre g hf
    obtain ⟨res, hres, hpost⟩ := nextToken_spec fx ignore s (it.rem + 1) it pre g (Nat.le_refl _)
    unfold tokKinds
    simp only [hres, bind, Except.bind]
    match res, hpost with
    | none, _ => exact ⟨_, rfl⟩
    | some (_, .error e, _), _ => exact ⟨_, rfl⟩
    | some ((start, its), .ok t, it'), hpost =>
      obtain ⟨sk, tok, g1, g2, htok, _⟩ := hpost
      have g2' : Good s (pre ++ (sk ++ tok)) it' := by simpa using g2
      have hrem := g.rem_lt g2' (by simp [htok])
      obtain ⟨ks, hks⟩ := ih it' _ g2' (by omega)
      exact ⟨.ok t :: ks, by simp [hks, pure, Except.pure]⟩

end KVerif.SExpr
