/-
Helper lemmas for C19 at the level of whole histories (`run`): invariant, totality of the fixed
code, conservation of the replay plan and completion of a replay when the layout fires no
`dynamic-macro-play`.
-/
import KVerif.Lemmas.DynMacroInv
namespace KVerif.DynMacro

variable {L : Type}

/-- every `tick_ms` call of the history has `ms_elapsed < 65536`, or the code is the fixed one -/
def MsOK (c : Cfg) : List Input → Prop
  | [] => True
  | .tick ms :: r => (c.fix = true ∨ ms < 65536) ∧ MsOK c r
  | _ :: r => MsOK c r

theorem msOK_of_fix (c : Cfg) (hf : c.fix = true) (inputs : List Input) : MsOK c inputs := by
  induction inputs with
  | nil => trivial
  | cons i r ih => cases i <;> simp only [MsOK] <;> first | exact ih | exact ⟨.inl hf, ih⟩

def totalMs : List Input → Nat
  | [] => 0
  | .tick ms :: r => ms + totalMs r
  | _ :: r => totalMs r

/-- induction principle for histories -/
theorem run_inv (I : LayoutI L) (c : Cfg) (P : K L → Prop)
    (hkey : ∀ k e, P k → P (handleInput I c k e))
    (htick : ∀ k ms k', (c.fix = true ∨ ms < 65536) → P k → tickMs I c ms k = .ok k' → P k')
    (hhint : ∀ k h, P k → P { k with hint := h }) :
    ∀ inputs k k', MsOK c inputs → P k → run I c k inputs = .ok k' → P k' := by
  intro inputs
  induction inputs with
  | nil => intro k k' _ hp h; simp [run] at h; subst h; exact hp
  | cons i r ih =>
    intro k k' hm hp h
    simp only [run] at h
    split at h
    · cases h
    · rename_i k1 h1
      cases i with
      | key e =>
        simp only [step, Except.ok.injEq] at h1; subst h1
        exact ih _ k' hm (hkey k e hp) h
      | tick ms =>
        simp only [step] at h1
        exact ih k1 k' hm.2 (htick k ms k1 hm.1 hp h1) h
      | hint hh =>
        simp only [step, Except.ok.injEq] at h1; subst h1
        exact ih _ k' hm (hhint k hh hp) h

theorem run_good (I : LayoutI L) (c : Cfg) (inputs : List Input) (k k' : K L) (hm : MsOK c inputs)
    (hg : Good k) (h : run I c k inputs = .ok k') : Good k' :=
  run_inv I c Good (fun x e hx => handleInput_good I c x e hx)
    (fun x ms x' hms hx hxx => tickMs_good I c ms x x' hms hx hxx)
    (fun x hh hx => good_respects x _ ⟨rfl, rfl, rfl, rfl, rfl, rfl⟩ |> fun _ => by
      obtain ⟨g1, g2, g3, g4⟩ := hx; exact ⟨g1, g2, g3, g4⟩)
    inputs k k' hm hg h

theorem run_lost (I : LayoutI L) (c : Cfg) (inputs : List Input) (k k' : K L) (hm : MsOK c inputs)
    (h : run I c k inputs = .ok k') : k'.lost = k.lost :=
  run_inv I c (fun x => x.lost = k.lost) (fun x e hx => by simp only [handleInput]; split <;> exact hx)
    (fun x ms x' hms hx hxx => (tickMs_lost I c ms x x' hms hxx).trans hx)
    (fun x hh hx => hx) inputs k k' hm rfl h

/-! ### the fixed code is total -/

theorem doAct_total (c : Cfg) (hf : c.fix = true) (k : K L) (a : Act) : ∃ k', doAct c k a = .ok k' := by
  cases a with
  | record id =>
    simp only [doAct]
    cases hr : k.rcd with
    | none => simp [beginRecord]
    | some st => simp [beginRecord, removeLast, hf]
  | stop n =>
    simp only [doAct]
    cases hr : k.rcd with
    | none => simp [stopMacro]
    | some st => simp [stopMacro, removeLast, hf]
  | play id => exact ⟨_, rfl⟩

theorem doActs_total (c : Cfg) (hf : c.fix = true) (acts : List Act) (k : K L) :
    ∃ k', doActs c k acts = .ok k' := by
  induction acts generalizing k with
  | nil => exact ⟨k, rfl⟩
  | cons a r ih =>
    obtain ⟨k1, h1⟩ := doAct_total c hf k a
    obtain ⟨k2, h2⟩ := ih k1
    exact ⟨k2, by simp [doActs, h1, h2]⟩

theorem tickStates_total (I : LayoutI L) (c : Cfg) (hf : c.fix = true) (k : K L) :
    ∃ k', tickStates I c k = .ok k' := by
  simp only [tickStates]
  obtain ⟨k2, h2⟩ := doActs_total c hf (I.tick k.lay).2.1
    { k with lay := (I.tick k.lay).1, os := k.os ++ (I.tick k.lay).2.2.map (fun e => (k.nticks, e)) }
  rw [h2]; exact ⟨_, rfl⟩

theorem iterStep_total (I : LayoutI L) (c : Cfg) (hf : c.fix = true) (k : K L) (e : Nat) :
    ∃ p, iterStep I c k e = .ok p := by
  obtain ⟨k1, h1⟩ := tickStates_total I c hf k
  simp only [iterStep, h1]
  cases tickReplay c.beh k1.rep with
  | mk rep' ev =>
    cases ev with
    | none => exact ⟨_, rfl⟩
    | some p => cases p; exact ⟨_, rfl⟩

theorem mainLoop_total (I : LayoutI L) (c : Cfg) (hf : c.fix = true) (n : Nat) (k : K L) (e : Nat) :
    ∃ p, mainLoop I c n k e = .ok p := by
  induction n generalizing k e with
  | zero => exact ⟨_, rfl⟩
  | succ n ih =>
    obtain ⟨⟨k1, e1⟩, h1⟩ := iterStep_total I c hf k e
    rw [mainLoop_succ, h1]
    exact ih k1 e1

theorem extraLoop_total (I : LayoutI L) (c : Cfg) (hf : c.fix = true) (n : Nat) (k : K L) :
    ∃ k', extraLoop I c n k = .ok k' := by
  induction n generalizing k with
  | zero => exact ⟨_, rfl⟩
  | succ n ih =>
    obtain ⟨k1, h1⟩ := tickStates_total I c hf k
    rw [extraLoop_succ]
    simp only [extraStep, h1]
    cases tickReplay c.beh k1.rep with
    | mk rep' ev =>
      cases ev with
      | none => exact ih _
      | some p => cases p; exact ⟨_, rfl⟩

theorem tickMs_total (I : LayoutI L) (c : Cfg) (hf : c.fix = true) (ms : Nat) (k : K L) :
    ∃ k', tickMs I c ms k = .ok k' := by
  obtain ⟨⟨k1, e1⟩, h1⟩ := mainLoop_total I c hf ms k 0
  simp only [tickMs, h1]
  exact extraLoop_total I c hf _ k1

theorem run_total (I : LayoutI L) (c : Cfg) (hf : c.fix = true) (inputs : List Input) (k : K L) :
    ∃ k', run I c k inputs = .ok k' := by
  induction inputs generalizing k with
  | nil => exact ⟨k, rfl⟩
  | cons i r ih =>
    have : ∃ k1, step I c k i = .ok k1 := by
      cases i with
      | key e => exact ⟨_, rfl⟩
      | tick ms => exact tickMs_total I c hf ms k
      | hint h => exact ⟨_, rfl⟩
    obtain ⟨k1, h1⟩ := this
    obtain ⟨k2, h2⟩ := ih k1
    exact ⟨k2, by simp [run, h1, h2]⟩

/-! ### layouts that fire no `dynamic-macro-play` -/

/-- no tick of the layout yields a `DynamicMacroPlay` action (e.g. the keys being replayed are not
play keys) -/
def NoPlay (I : LayoutI L) : Prop := ∀ l a, a ∈ (I.tick l).2.1 → ∀ id, a ≠ .play id

theorem doActs_rep_noPlay (c : Cfg) (acts : List Act) (k k' : K L)
    (hn : ∀ a ∈ acts, ∀ id, a ≠ .play id) (h : doActs c k acts = .ok k') : k'.rep = k.rep := by
  induction acts generalizing k with
  | nil => simp [doActs] at h; subst h; rfl
  | cons a r ih =>
    simp only [doActs] at h
    split at h
    · cases h
    · rename_i k1 h1
      have := ih k1 (fun b hb => hn b (List.mem_cons_of_mem _ hb)) h
      rw [this]
      cases a with
      | record id =>
        simp only [doAct] at h1
        split at h1
        · cases h1
        · simp only [Except.ok.injEq] at h1; subst h1; rfl
      | stop n =>
        simp only [doAct] at h1
        split at h1
        · cases h1
        · simp only [Except.ok.injEq] at h1; subst h1; rfl
      | play id => exact absurd rfl (hn (.play id) (by simp) id)

theorem tickStates_rep_noPlay (I : LayoutI L) (c : Cfg) (hn : NoPlay I) (k k' : K L)
    (h : tickStates I c k = .ok k') : k'.rep = k.rep := by
  simp only [tickStates] at h
  split at h
  · cases h
  · rename_i k2 h2
    simp only [Except.ok.injEq] at h; subst h
    have := doActs_rep_noPlay c _ _ k2 (hn k.lay) h2
    exact this

/-- an upper bound on the number of `tick_replay_state` calls until the replay is over -/
def wItem (beh : Beh) : Item → Nat
  | .press _ d => match beh with | .constant => 5 | .recorded => max d 1
  | .release _ d => match beh with | .constant => 5 | .recorded => max d 1
  | .endMacro _ => 5

def mu (beh : Beh) : Option Replay → Nat
  | none => 0
  | some st => max st.delay 1 + (st.queue.map (wItem beh)).sum

theorem tickReplay_mu (beh : Beh) (rep : Option Replay) :
    mu beh (tickReplay beh rep).1 ≤ mu beh rep - 1 := by
  cases rep with
  | none => simp [tickReplay, mu]
  | some st =>
    by_cases h0 : st.delay - 1 = 0
    · cases hq : st.queue with
      | nil => simp [tickReplay, h0, hq, mu]
      | cons it q =>
        cases it <;> cases beh <;> simp [tickReplay, h0, hq, mu, wItem] <;> omega
    · simp [tickReplay, h0, mu]
      omega

theorem mu_eq_zero (beh : Beh) (rep : Option Replay) (h : mu beh rep = 0) : rep = none := by
  cases rep with
  | none => rfl
  | some st => simp [mu] at h

/-- what one `tick_ms` does to the replay when the layout fires no play action: the events fed plus
the events still queued stay the same, and at least `ms` steps of the countdown are made -/
theorem tickMs_noPlay (I : LayoutI L) (c : Cfg) (hn : NoPlay I) (ms : Nat) (k k' : K L)
    (hms : c.fix = true ∨ ms < 65536) (h : tickMs I c ms k = .ok k') :
    k'.fed ++ planOf k'.rep = k.fed ++ planOf k.rep ∧ mu c.beh k'.rep ≤ mu c.beh k.rep - ms := by
  simp only [tickMs] at h
  split at h
  · cases h
  · rename_i k1 extra h1
    have hm := mainLoop_inv I c
      (fun x i e => ((e ≤ i + slack x.rep ∧ e ≤ U16_MAX) ∧ x.lost = k.lost) ∧
        x.fed ++ planOf x.rep = k.fed ++ planOf k.rep ∧ mu c.beh x.rep ≤ mu c.beh k.rep - i)
      (fun x i e x' e' hp hx => by
        refine ⟨iterStep_slack I c x i e x' e' hp.1 hx, ?_⟩
        obtain ⟨_, hc, hmu⟩ := hp
        simp only [iterStep] at hx
        split at hx
        · cases hx
        · rename_i x1 hx1
          have hrep := tickStates_rep_noPlay I c hn x x1 hx1
          obtain ⟨_, hfed, _⟩ := tickStates_slack I c x x1 hx1
          have hpl := tickReplay_plan c.beh x1.rep
          have hm1 := tickReplay_mu c.beh x1.rep
          split at hx
          · rename_i rep' heq
            simp only [Except.ok.injEq, Prod.mk.injEq] at hx
            obtain ⟨rfl, rfl⟩ := hx
            rw [heq] at hpl hm1
            rw [hrep] at hpl hm1
            simp only [outEv, List.nil_append] at hpl hm1
            refine ⟨?_, by simp only; omega⟩
            simp only; rw [hfed, ← hpl]; exact hc
          · rename_i rep' ev d heq
            simp only [Except.ok.injEq, Prod.mk.injEq] at hx
            obtain ⟨rfl, rfl⟩ := hx
            rw [heq] at hpl hm1
            rw [hrep] at hpl hm1
            simp only [outEv] at hpl hm1
            refine ⟨?_, by simp only; omega⟩
            simp only; rw [hfed, List.append_assoc, ← hpl]; exact hc)
      ms k 0 0 k1 extra ⟨⟨⟨by omega, by simp [U16_MAX]⟩, rfl⟩, rfl, by omega⟩ h1
    simp only [Nat.zero_add] at hm
    obtain ⟨m, hm2⟩ := extraLoop_inv I c
      (fun x n => n ≤ slack x.rep ∧
        x.fed ++ planOf x.rep = k.fed ++ planOf k.rep ∧ mu c.beh x.rep ≤ mu c.beh k.rep - ms)
      (fun x n x' b hp hx => by
        obtain ⟨hs, hc, hmu⟩ := hp
        simp only [extraStep] at hx
        split at hx
        · cases hx
        · rename_i x1 hx1
          have hrep := tickStates_rep_noPlay I c hn x x1 hx1
          obtain ⟨s1, hfed, _⟩ := tickStates_slack I c x x1 hx1
          obtain ⟨t1, t2, t3⟩ := tickReplay_no_pop c.beh x1.rep n (by rw [s1]; exact hs)
          have hm1 := tickReplay_mu c.beh x1.rep
          split at hx
          · rename_i rep' heq
            simp only [Except.ok.injEq, Prod.mk.injEq] at hx
            obtain ⟨rfl, rfl⟩ := hx
            rw [heq] at t2 t3 hm1
            rw [hrep] at t3 hm1
            simp only at t3 hm1
            refine ⟨rfl, t2, ?_, by simp only; omega⟩
            simp only; rw [hfed, t3]; exact hc
          · rename_i rep' ev d heq
            rw [heq] at t1; simp at t1)
      _ k1 k' ⟨extra_count_le c.fix ms extra _ hms hm.1.1.1 hm.1.1.2, hm.2.1, hm.2.2⟩ h
    exact ⟨hm2.2.1, hm2.2.2⟩

theorem run_noPlay (I : LayoutI L) (c : Cfg) (hn : NoPlay I) (inputs : List Input) (k k' : K L)
    (hm : MsOK c inputs) (h : run I c k inputs = .ok k') :
    k'.fed ++ planOf k'.rep = k.fed ++ planOf k.rep ∧
      mu c.beh k'.rep ≤ mu c.beh k.rep - totalMs inputs := by
  induction inputs generalizing k with
  | nil => simp [run] at h; subst h; exact ⟨rfl, by simp [totalMs]⟩
  | cons i r ih =>
    simp only [run] at h
    split at h
    · cases h
    · rename_i k1 h1
      cases i with
      | key e =>
        simp only [step, Except.ok.injEq] at h1; subst h1
        have := ih _ hm h
        have e1 : (handleInput I c k e).rep = k.rep := by simp only [handleInput]; split <;> rfl
        have e2 : (handleInput I c k e).fed = k.fed := by simp only [handleInput]; split <;> rfl
        rw [e1, e2] at this
        exact this
      | tick ms =>
        simp only [step] at h1
        obtain ⟨a1, a2⟩ := tickMs_noPlay I c hn ms k k1 hm.1 h1
        obtain ⟨b1, b2⟩ := ih k1 hm.2 h
        refine ⟨b1.trans a1, ?_⟩
        simp only [totalMs]; omega
      | hint hh =>
        simp only [step, Except.ok.injEq] at h1; subst h1
        have := ih _ hm h
        exact this

/-- the state `Kanata::new` starts with -/
def K.init {L} (lay : L) : K L := { lay := lay }

theorem good_init {L} (lay : L) : Good (K.init lay) := by
  refine ⟨trivial, ?_, trivial, ?_⟩
  · intro id items h; simp [K.init, Store.get] at h
  · simp [Bal, K.init, planOf, scanEv]

theorem mem_markers (id : Nat) (q : List Item) : id ∈ markers q ↔ Item.endMacro id ∈ q := by
  induction q with
  | nil => simp [markers]
  | cons i r ih =>
    cases i <;> simp [markers] at ih ⊢ <;> simp [ih]


end KVerif.DynMacro
