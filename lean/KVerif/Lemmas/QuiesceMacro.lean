/-
C01 helper lemmas, part 2: quiescence on the macro fragment of C08 (`CfgM`: plain keys, no-op and
transparent keys, custom actions, `CancelSequences`, macros alone or inside a `multi`).

Beyond `SeqInv` / `Quiet` of C08 the invariant `MInv` says: every state that carries a coordinate (a
held key, a custom action, a held `macro-repeat`) belongs to a key that is physically down or whose
release is still queued; every active sequence and every remembered repeating macro plays for at
most `M` ticks (the longest macro of the configuration); the one-shot state is untouched.
-/
import KVerif.Lemmas.MacroTick
import KVerif.Lemmas.Quiesce
namespace KVerif.Quiesce
open KVerif.L KVerif.Macro

/-! ## how long a macro plays -/

/-- ticks an event list occupies (`ticksOf`: a delay of `d` lasts `d` ticks, anything else one) -/
def evLen (evs : List SeqEv) : Nat := (evs.map ticksOf).sum

/-- ticks until a sequence has used up its events -/
def playLen (q : SeqState) : Nat := q.delay + (if q.tapped.isSome then 1 else 0) + evLen q.remaining

mutual
  /-- the longest macro an action can start -/
  def actLen : Action → Nat
    | .sequence evs | .repeatableSequence evs => evLen evs
    | .multipleActions acs => actLenL acs
    | _ => 0
  def actLenL : List Action → Nat
    | [] => 0
    | a :: rest => max (actLen a) (actLenL rest)
end

/-- playback length of the longest macro of the configuration -/
def maxMacro (c : LCfg) : Nat :=
  max (listMax (c.layers.map fun tbl => listMax (tbl.map fun e => actLen e.2)))
      (listMax (c.srcKeys.map fun e => actLen e.2))

def MacroBound (c : LCfg) (M : Nat) : Prop :=
  (∀ tbl ∈ c.layers, ∀ e ∈ tbl, actLen e.2 ≤ M) ∧ (∀ e ∈ c.srcKeys, actLen e.2 ≤ M)

theorem macroBound_max (c : LCfg) : MacroBound c (maxMacro c) := by
  refine ⟨fun tbl ht e he => ?_, fun e he => ?_⟩
  · have h1 : actLen e.2 ≤ listMax (tbl.map fun e => actLen e.2) :=
      le_listMax (List.mem_map.mpr ⟨e, he, rfl⟩)
    have h2 : listMax (tbl.map fun e => actLen e.2) ≤ listMax (c.layers.map fun tbl => listMax (tbl.map fun e => actLen e.2)) :=
      le_listMax (List.mem_map.mpr ⟨tbl, ht, rfl⟩)
    exact Nat.le_trans h1 (Nat.le_trans h2 (Nat.le_max_left _ _))
  · have h1 : actLen e.2 ≤ listMax (c.srcKeys.map fun e => actLen e.2) :=
      le_listMax (List.mem_map.mpr ⟨e, he, rfl⟩)
    exact Nat.le_trans h1 (Nat.le_max_right _ _)

theorem evLen_cons (e : SeqEv) (r : List SeqEv) : evLen (e :: r) = ticksOf e + evLen r := by
  simp [evLen]

theorem ticksOf_pos (e : SeqEv) : 1 ≤ ticksOf e := by
  cases e <;> simp [ticksOf]
  omega

/-- **one tick of a well-formed sequence**: it ends, or its remaining playback time goes down -/
theorem playLen_step (q : SeqState) (h : SeqOK q) : ∀ x ∈ keep (seqStep q), playLen x + 1 ≤ playLen q := by
  obtain ⟨cur, delay, tapped, remaining⟩ := q
  obtain ⟨ht, hev⟩ := h
  simp only at ht hev
  subst ht
  by_cases hd : delay > 0
  · have e2 : seqStep ⟨cur, delay, none, remaining⟩ = ⟨cur, delay - 1, none, remaining⟩ := by simp [seqStep, hd]
    rw [e2]
    intro x hx
    unfold keep at hx
    split at hx
    · cases hx
    · simp only [List.mem_singleton] at hx
      subst hx
      simp only [playLen, Option.isSome_none, Bool.false_eq_true, if_false]
      omega
  · have hd0 : delay = 0 := by omega
    subst hd0
    rcases EvsOK_cases hev with rfl | ⟨e, tail, rfl, hstep, htail, _⟩
    · obtain ⟨_, c2⟩ := complete_tick cur
      intro x hx
      simp [keep, c2] at hx
    · obtain ⟨_, f2⟩ := first_tick cur e hstep tail
      rw [f2]
      intro x hx
      unfold keep at hx
      split at hx
      · cases hx
      · simp only [List.mem_singleton] at hx
        subst hx
        simp only [playLen, Option.isSome_none, Bool.false_eq_true, if_false, evLen_cons]
        have := ticksOf_pos e
        omega

/-! ## what an action of the fragment does, beyond `SeqInv` -/

/-- a state pushed by a key press at `c`: it carries that coordinate; a remembered repeating macro
plays for at most `M` ticks -/
def NewAt (M : Nat) (c : Coord) (st : St) : Prop :=
  st.coord = some c ∧ st.getLayer = none ∧ ∀ evs c', st = .repeatingSequence evs c' → evLen evs ≤ M

/-- a sequence just started -/
def Fresh (M : Nat) (q : SeqState) : Prop := q.delay = 0 ∧ q.tapped = none ∧ evLen q.remaining ≤ M

structure Out (M : Nat) (c : Coord) (s s' : Layout) : Prop where
  osh : s'.oneshot = s.oneshot
  queue : s'.queue = s.queue
  dl : s'.defaultLayer = s.defaultLayer
  lpt : s'.lptTapHoldTimeout ≤ s.lptTapHoldTimeout
  new : ∀ st ∈ s'.states, st ∈ s.states ∨ NewAt M c st
  cap : s.states.length ≤ STATES_CAP → s'.states.length ≤ STATES_CAP
  seqs : ∀ q ∈ s'.activeSequences, q ∈ s.activeSequences ∨ Fresh M q

theorem Out.refl (M : Nat) (c : Coord) (s : Layout) : Out M c s s :=
  ⟨rfl, rfl, rfl, Nat.le_refl _, fun _ h => Or.inl h, fun h => h, fun _ h => Or.inl h⟩

theorem Out.trans {M : Nat} {c : Coord} {s1 s2 s3 : Layout} (h1 : Out M c s1 s2) (h2 : Out M c s2 s3) :
    Out M c s1 s3 :=
  ⟨h2.osh.trans h1.osh, h2.queue.trans h1.queue, h2.dl.trans h1.dl, Nat.le_trans h2.lpt h1.lpt,
   fun st h => by
     rcases h2.new st h with h | h
     · exact h1.new st h
     · exact Or.inr h,
   fun h => h2.cap (h1.cap h),
   fun q h => by
     rcases h2.seqs q h with h | h
     · exact h1.seqs q h
     · exact Or.inr h⟩

/-- a step that changes none of the fields `Out` looks at (or only lowers the quick-tap tracker) -/
theorem Out.of_eq {M : Nat} {c : Coord} {s s' : Layout} (h1 : s'.oneshot = s.oneshot) (h2 : s'.queue = s.queue)
    (h3 : s'.lptTapHoldTimeout ≤ s.lptTapHoldTimeout) (h4 : s'.states = s.states)
    (h5 : s'.activeSequences = s.activeSequences) (h0 : s'.defaultLayer = s.defaultLayer := by rfl) : Out M c s s' :=
  ⟨h1, h2, h0, h3, fun _ h => Or.inl (h4 ▸ h), fun h => h4 ▸ h, fun _ h => Or.inl (h5 ▸ h)⟩

theorem pushCap_length_le {α} (cap : Nat) (l : List α) (x : α) (h : l.length ≤ cap) :
    (pushCap cap l x).length ≤ cap := by
  unfold pushCap
  split
  · simp only [List.length_append, List.length_cons, List.length_nil]; omega
  · exact h

theorem out_pushState (M : Nat) (c : Coord) (s : Layout) (st : St) (h : NewAt M c st) :
    Out M c s (s.pushState st) :=
  ⟨rfl, rfl, rfl, Nat.le_refl _,
   fun x hx => by
     rcases C06.mem_pushCap hx with h1 | h1
     · exact Or.inl h1
     · exact Or.inr (h1 ▸ h),
   fun hl => pushCap_length_le _ _ _ hl, fun _ h => Or.inl h⟩

theorem oshPress_inactive (s : Layout) (k : OshKey) (hk : s.oneshot.keys = []) : (s.oshPress k).1 = s := by
  unfold Layout.oshPress
  rw [C06.handlePress_inactive _ _ hk]

theorem out_oshOther (M : Nat) (c : Coord) (s : Layout) (b : Bool) (c' : Coord) (hk : s.oneshot.keys = []) :
    Out M c s (oshOther s b c').1 := by
  unfold oshOther
  split
  · rw [oshPress_inactive s _ hk]; exact Out.refl M c s
  · exact Out.refl M c s

theorem out_updateCoord (M : Nat) (c : Coord) (s : Layout) (c' : Coord) : Out M c s (updateCoord s c') := by
  unfold updateCoord
  split
  · exact Out.of_eq rfl rfl (Nat.le_refl _) rfl rfl
  · exact Out.refl M c s

theorem out_prelude (M : Nat) (c : Coord) (s : Layout) (c' : Coord) : Out M c s (prelude s c') := by
  obtain ⟨p1, p2, p3, p4⟩ := C06.prelude_spec s c'
  refine ⟨p2, p3, p1.dl, prelude_lpt s c', ?_, ?_, fun q h => Or.inl (p1.seqs ▸ h)⟩
  · intro st hst
    rw [p4] at hst
    exact Or.inl (List.mem_filter.mp hst).1
  · intro hl
    rw [p4]
    exact Nat.le_trans (List.length_filter_le _ _) hl

theorem out_armNoOp (M : Nat) (c : Coord) (s : Layout) (a : Action) (c' : Coord) (o : Bool)
    (hk : s.oneshot.keys = []) : Out M c s (armNoOp s a c' o) := by
  unfold armNoOp
  split
  · rw [oshPress_inactive s _ hk]; exact Out.of_eq rfl rfl (Nat.le_refl _) rfl rfl
  · exact Out.of_eq rfl rfl (Nat.le_refl _) rfl rfl

theorem out_armKeyCode (M : Nat) (s : Layout) (a : Action) (kc : KeyCode) (c : Coord) (o : Bool)
    (hk : s.oneshot.keys = []) : Out M c s (armKeyCode s a kc c o) := by
  unfold armKeyCode
  have f1 := out_updateCoord M c s c
  have f2 : Out M c (updateCoord s c) { updateCoord s c with histKeys := histPush (updateCoord s c).histKeys kc } :=
    Out.of_eq rfl rfl (Nat.le_refl _) rfl rfl
  have f3 := out_pushState M c { updateCoord s c with histKeys := histPush (updateCoord s c).histKeys kc }
    (.normalKey kc c 0) ⟨rfl, rfl, fun _ _ h => by cases h⟩
  have hk3 : (({ updateCoord s c with histKeys := histPush (updateCoord s c).histKeys kc } : Layout).pushState
      (.normalKey kc c 0)).oneshot.keys = [] := by
    rw [((f1.trans f2).trans f3).osh]; exact hk
  have f4 := out_oshOther M c _ o c hk3
  have f := ((f1.trans f2).trans f3).trans f4
  simp only []
  split
  · exact f.trans (Out.of_eq rfl rfl (Nat.le_refl _) rfl rfl)
  · exact f.trans (Out.of_eq rfl rfl (Nat.le_refl _) rfl rfl)

theorem out_armCustom (M : Nat) (s : Layout) (a : Action) (id : Nat) (c : Coord) (o : Bool)
    (hk : s.oneshot.keys = []) : Out M c s (armCustom s a id c o).1 := by
  unfold armCustom
  have f1 := out_updateCoord M c s c
  have hk1 : (updateCoord s c).oneshot.keys = [] := by rw [f1.osh]; exact hk
  have f2 := out_oshOther M c (updateCoord s c) o c hk1
  have f3 : Out M c (oshOther (updateCoord s c) o c).1 { (oshOther (updateCoord s c) o c).1 with rptAction := some a } :=
    Out.of_eq rfl rfl (Nat.le_refl _) rfl rfl
  have f := (f1.trans f2).trans f3
  simp only []
  split
  · exact f.trans (out_pushState M c _ (.custom id c) ⟨rfl, rfl, fun _ _ h => by cases h⟩)
  · exact f

theorem mem_pushBackWrap_fst {α} (cap : Nat) (l : List α) (x y : α) (h : y ∈ (pushBackWrap cap l x).1) :
    y ∈ l ∨ y = x := by
  unfold pushBackWrap at h
  split at h
  · rcases List.mem_append.mp h with h | h
    · exact Or.inl h
    · exact Or.inr (by simpa using h)
  · cases l with
    | nil => cases h
    | cons a t =>
      simp only at h
      rcases List.mem_append.mp h with h | h
      · exact Or.inl (List.mem_cons_of_mem _ h)
      · exact Or.inr (by simpa using h)

theorem releaseEvicted_length (q : SeqState) (states : List St) :
    (releaseEvicted states q).length ≤ states.length := by
  unfold releaseEvicted
  generalize seqOwedKeys q = ks
  induction ks generalizing states with
  | nil => exact Nat.le_refl _
  | cons k ks ih =>
    simp only [List.foldl_cons]
    exact Nat.le_trans (ih _) (List.length_filter_le _ _)

theorem out_startSequence (M : Nat) (c : Coord) (s : Layout) (evs : List SeqEv) (h : evLen evs ≤ M) :
    Out M c s (startSequence s evs) := by
  unfold startSequence
  refine ⟨rfl, rfl, rfl, Nat.le_refl _, ?_, ?_, ?_⟩
  · intro st hst
    simp only at hst
    split at hst
    · exact Or.inl (releaseEvicted_sub _ _ _ hst)
    · exact Or.inl hst
  · intro hl
    simp only
    split
    · exact Nat.le_trans (releaseEvicted_length _ _) hl
    · exact hl
  · intro q hq
    simp only at hq
    rcases mem_pushBackWrap_fst _ _ _ _ hq with h1 | h1
    · exact Or.inl h1
    · exact Or.inr (h1 ▸ ⟨rfl, rfl, h⟩)

theorem out_armSequence (M : Nat) (s : Layout) (a : Action) (evs : List SeqEv) (c : Coord) (o rep : Bool)
    (hk : s.oneshot.keys = []) (h : evLen evs ≤ M) : Out M c s (armSequence s a evs c o rep) := by
  unfold armSequence
  have f1 := out_startSequence M c s evs h
  have f2 : Out M c (startSequence s evs)
      (if rep then (startSequence s evs).pushState (.repeatingSequence evs c) else startSequence s evs) := by
    cases rep
    · exact Out.refl M c _
    · exact out_pushState M c _ _ ⟨rfl, rfl, fun e c' he => by injection he with h1 _; exact h1 ▸ h⟩
  have hk2 : (if rep then (startSequence s evs).pushState (.repeatingSequence evs c) else startSequence s evs).oneshot.keys = [] := by
    rw [(f1.trans f2).osh]; exact hk
  have f3 := out_oshOther M c _ o c hk2
  exact ((f1.trans f2).trans f3).trans (Out.of_eq rfl rfl (Nat.le_refl _) rfl rfl)

theorem out_armCancelSequences (M : Nat) (s : Layout) (a : Action) (c : Coord) (o : Bool)
    (hk : s.oneshot.keys = []) : Out M c s (armCancelSequences s a c o) := by
  unfold armCancelSequences
  have f1 : Out M c s { s with activeSequences := [], states := s.states.filter (fun st => !(match st with | .fakeKey _ => true | _ => false)) } :=
    ⟨rfl, rfl, rfl, Nat.le_refl _, fun st hst => Or.inl (List.mem_filter.mp hst).1,
     fun hl => Nat.le_trans (List.length_filter_le _ _) hl, fun q hq => by cases hq⟩
  have f2 := out_oshOther M c _ o c (show ({ s with activeSequences := [], states := s.states.filter (fun st => !(match st with | .fakeKey _ => true | _ => false)) } : Layout).oneshot.keys = [] from hk)
  exact (f1.trans f2).trans (Out.of_eq rfl rfl (Nat.le_refl _) rfl rfl)

/-- **every action of the fragment**, performed for a key at `coord` while no one-shot key is active -/
theorem out_all (M : Nat) : ∀ fuel : Nat,
    (∀ s a coord delay o ls s' cu, s.oneshot.keys = [] → MFrag a → a ≠ .trans → actLen a ≤ M →
      doAction fuel s a coord delay o ls = .ok (s', cu) → Out M coord s s') ∧
    (∀ s a coord delay o ls s' cu, s.oneshot.keys = [] → MFrag a → actLen a ≤ M →
      dispatch fuel s a coord delay o ls = .ok (s', cu) → Out M coord s s') ∧
    (∀ s acs coord delay o ls cu0 s' cu, s.oneshot.keys = [] → MFragL acs → actLenL acs ≤ M →
      doActions fuel s acs coord delay o ls cu0 = .ok (s', cu) → Out M coord s s') := by
  intro fuel
  induction fuel with
  | zero =>
    refine ⟨?_, ?_, ?_⟩
    · intro s a coord delay o ls s' cu _ _ _ _ h; simp [doAction] at h
    · intro s a coord delay o ls s' cu _ _ _ h; simp [dispatch] at h
    · intro s acs coord delay o ls cu0 s' cu _ _ _ h; simp [doActions] at h
  | succ fuel ih =>
    obtain ⟨ih1, ih2, ih3⟩ := ih
    refine ⟨?_, ?_, ?_⟩
    · intro s a coord delay o ls s' cu hk hf hnt hl h
      have hp := out_prelude M coord s coord
      have hd : dispatch fuel (prelude s coord) a coord delay o ls = .ok (s', cu) := by
        cases a <;> first | exact absurd rfl hnt | (simp only [doAction] at h; exact h)
      exact hp.trans (ih2 (prelude s coord) a coord delay o ls s' cu (by rw [hp.osh]; exact hk) hf hl hd)
    · intro s a coord delay o ls s' cu hk hf hl h
      cases a <;> simp only [MFrag] at hf <;> simp only [dispatch] at h
      case noOp =>
        injection h with h; injection h with h1 h2; subst h1
        exact out_armNoOp M coord s _ coord o hk
      case trans => cases h
      case keyCode kc =>
        injection h with h; injection h with h1 h2; subst h1
        exact out_armKeyCode M s _ kc coord o hk
      case cancelSequences =>
        injection h with h; injection h with h1 h2; subst h1
        exact out_armCancelSequences M s _ coord o hk
      case custom id =>
        have hfr := out_armCustom M s (.custom id) id coord o hk
        cases hc : armCustom s (.custom id) id coord o with
        | mk s1 c1 =>
          rw [hc] at h hfr
          injection h with h; injection h with h1 h2; subst h1
          exact hfr
      case sequence evs =>
        injection h with h; injection h with h1 h2; subst h1
        exact out_armSequence M s _ evs coord o false hk (by simpa [actLen] using hl)
      case repeatableSequence evs =>
        injection h with h; injection h with h1 h2; subst h1
        exact out_armSequence M s _ evs coord o true hk (by simpa [actLen] using hl)
      case multipleActions acs =>
        split at h
        · cases h
        · rename_i s1 c1 hr
          injection h with h; injection h with h1 h2; subst h1
          have hu := out_updateCoord M coord s coord
          have := ih3 (updateCoord s coord) acs coord delay o ls .noEvent s1 c1 (by rw [hu.osh]; exact hk) hf
            (by simpa [actLen] using hl) hr
          exact (hu.trans this).trans (Out.of_eq rfl rfl (Nat.le_refl _) rfl rfl)
    · intro s acs coord delay o ls cu0 s' cu hk hf hl h
      cases acs with
      | nil =>
        simp only [doActions] at h
        injection h with h; injection h with h1 h2; subst h1
        exact Out.refl M coord s
      | cons a rest =>
        simp only [MFragL] at hf
        simp only [actLenL] at hl
        simp only [doActions] at h
        split at h
        · cases h
        · rename_i s1 c1 hr
          have r1 := ih1 s a coord delay o ls s1 c1 hk hf.1 hf.2.1 (Nat.le_trans (Nat.le_max_left _ _) hl) hr
          have r2 := ih3 s1 rest coord delay o ls (cu0.update c1) s' cu (by rw [r1.osh]; exact hk) hf.2.2
            (Nat.le_trans (Nat.le_max_right _ _) hl) h
          exact r1.trans r2

/-! ## `process_sequences` beyond `SeqInv` -/

theorem effStates_mem {states : List St} {e : Eff} {st : St} (h : st ∈ effStates states e) :
    st ∈ states ∨ (∃ k, st = .fakeKey k) ∨ (∃ id, st = .seqCustomPending id) := by
  cases e with
  | idle => exact Or.inl h
  | untap k => exact Or.inl (List.mem_filter.mp h).1
  | perform ev =>
    cases ev with
    | press kc | tap kc =>
      rcases C06.mem_pushCap h with h | h
      · exact Or.inl h
      · exact Or.inr (Or.inl ⟨_, h⟩)
    | release kc => exact Or.inl (List.mem_filter.mp h).1
    | custom id =>
      rcases C06.mem_pushCap h with h | h
      · exact Or.inl h
      · exact Or.inr (Or.inr ⟨_, h⟩)
    | noOp | delay _ | complete => exact Or.inl h

theorem effStates_length {states : List St} (e : Eff) (h : states.length ≤ STATES_CAP) :
    (effStates states e).length ≤ STATES_CAP := by
  cases e with
  | idle => exact h
  | untap k => exact Nat.le_trans (List.length_filter_le _ _) h
  | perform ev =>
    cases ev with
    | press kc | tap kc | custom id => exact pushCap_length_le _ _ _ h
    | release kc => exact Nat.le_trans (List.length_filter_le _ _) h
    | noOp | delay _ | complete => exact h

theorem effStates_fold_mem {st : St} : ∀ (effs : List Eff) (states : List St),
    st ∈ effs.foldl effStates states →
    st ∈ states ∨ (∃ k, st = .fakeKey k) ∨ (∃ id, st = .seqCustomPending id) := by
  intro effs
  induction effs with
  | nil => intro states h; exact Or.inl h
  | cons e rest ih =>
    intro states h
    rcases ih _ h with h | h
    · exact effStates_mem h
    · exact Or.inr h

theorem effStates_fold_length : ∀ (effs : List Eff) (states : List St), states.length ≤ STATES_CAP →
    (effs.foldl effStates states).length ≤ STATES_CAP := by
  intro effs
  induction effs with
  | nil => intro states h; exact h
  | cons e rest ih => intro states h; exact ih _ (effStates_length e h)

/-- with no one-shot key active an effect leaves the one-shot state, the queue and the quick-tap
tracker alone -/
theorem applyEff_same (s : Layout) (e : Eff) (hk : s.oneshot.keys = []) :
    (applyEff s e).oneshot = s.oneshot ∧ (applyEff s e).queue = s.queue ∧
    (applyEff s e).lptTapHoldTimeout = s.lptTapHoldTimeout ∧ (applyEff s e).defaultLayer = s.defaultLayer := by
  have hfp : ∀ kc, (fakePress s kc).oneshot = s.oneshot ∧ (fakePress s kc).queue = s.queue ∧
      (fakePress s kc).lptTapHoldTimeout = s.lptTapHoldTimeout ∧ (fakePress s kc).defaultLayer = s.defaultLayer := by
    intro kc
    unfold fakePress
    simp only []
    rw [oshPress_inactive _ _ (show ({ s.pushState (.fakeKey kc) with histKeys := histPush (s.pushState (.fakeKey kc)).histKeys kc } : Layout).oneshot.keys = [] from hk)]
    exact ⟨rfl, rfl, rfl, rfl⟩
  cases e with
  | idle => exact ⟨rfl, rfl, rfl, rfl⟩
  | untap k => exact ⟨rfl, rfl, rfl, rfl⟩
  | perform ev =>
    cases ev with
    | press kc | tap kc => exact hfp kc
    | release kc =>
      refine ⟨?_, rfl, rfl, rfl⟩
      show (s.oneshot.handleRelease (0, 0)).1 = s.oneshot
      rw [C06.handleRelease_inactive _ _ hk]
    | custom id => exact ⟨rfl, rfl, rfl, rfl⟩
    | noOp | delay _ | complete => exact ⟨rfl, rfl, rfl, rfl⟩

theorem seqLoop_same : ∀ (n : Nat) (s : Layout), s.oneshot.keys = [] →
    (seqLoop n s).oneshot = s.oneshot ∧ (seqLoop n s).queue = s.queue ∧
    (seqLoop n s).lptTapHoldTimeout = s.lptTapHoldTimeout ∧ (seqLoop n s).defaultLayer = s.defaultLayer := by
  intro n
  induction n with
  | zero => intro s _; exact ⟨rfl, rfl, rfl, rfl⟩
  | succ n ih =>
    intro s hk
    unfold seqLoop
    split
    · exact ⟨rfl, rfl, rfl, rfl⟩
    · rename_i q rest _
      obtain ⟨a1, a2, a3, a4⟩ := applyEff_same { s with activeSequences := rest } (seqEffect q) hk
      have hpb : ∀ (t : Layout) (x : SeqState), (putBack t x).oneshot = t.oneshot ∧ (putBack t x).queue = t.queue ∧
          (putBack t x).lptTapHoldTimeout = t.lptTapHoldTimeout ∧ (putBack t x).defaultLayer = t.defaultLayer := by
        intro t x; unfold putBack; split <;> exact ⟨rfl, rfl, rfl, rfl⟩
      obtain ⟨b1, b2, b3, b4⟩ := hpb (applyEff { s with activeSequences := rest } (seqEffect q)) (seqStep q)
      obtain ⟨i1, i2, i3, i4⟩ := ih (putBack (applyEff { s with activeSequences := rest } (seqEffect q)) (seqStep q))
        (by rw [b1, a1]; exact hk)
      exact ⟨i1.trans (b1.trans a1), i2.trans (b2.trans a2), i3.trans (b3.trans a3), i4.trans (b4.trans a4)⟩

theorem restartRepeating_same (s : Layout) :
    (restartRepeating s).oneshot = s.oneshot ∧ (restartRepeating s).queue = s.queue ∧
    (restartRepeating s).lptTapHoldTimeout = s.lptTapHoldTimeout ∧
    (restartRepeating s).defaultLayer = s.defaultLayer := by
  unfold restartRepeating
  split
  · split <;> exact ⟨rfl, rfl, rfl, rfl⟩
  · exact ⟨rfl, rfl, rfl, rfl⟩

/-- **`process_sequences`**, with the ring within its capacity, every sequence well-formed and no
one-shot key active: nothing but `states` and the ring changes; `states` gains only `FakeKey`s and
pending custom items; every sequence that is still active has less playback time left than before,
except a fresh copy of a held repeating macro -/
theorem processSequences_spec (s : Layout) (hi : SeqInv s) (hk : s.oneshot.keys = []) :
    (processSequences s).oneshot = s.oneshot ∧ (processSequences s).queue = s.queue ∧
    (processSequences s).lptTapHoldTimeout = s.lptTapHoldTimeout ∧
    (processSequences s).defaultLayer = s.defaultLayer ∧
    (∀ st ∈ (processSequences s).states,
      st ∈ s.states ∨ (∃ k, st = .fakeKey k) ∨ (∃ id, st = .seqCustomPending id)) ∧
    (s.states.length ≤ STATES_CAP → (processSequences s).states.length ≤ STATES_CAP) ∧
    (∀ q' ∈ (processSequences s).activeSequences,
      (∃ q ∈ s.activeSequences, playLen q' + 1 ≤ playLen q) ∨
      (∃ evs c, St.repeatingSequence evs c ∈ s.states ∧ q' = { remaining := evs })) := by
  rw [processSequences_eq]
  obtain ⟨l1, l2⟩ := seqLoop_spec s.activeSequences.length s s.activeSequences [] (by simp) (Nat.le_refl _)
    (by simpa using hi.cap)
  simp only [List.drop_length, List.take_length, List.nil_append] at l1 l2
  obtain ⟨a1, a2, a3, a4⟩ := seqLoop_same s.activeSequences.length s hk
  obtain ⟨r1, r2, r3, r4⟩ := restartRepeating_same (seqLoop s.activeSequences.length s)
  refine ⟨r1.trans a1, r2.trans a2, r3.trans a3, r4.trans a4, ?_, ?_, ?_⟩
  · intro st hst
    rw [restartRepeating_states, l2] at hst
    exact effStates_fold_mem _ _ hst
  · intro hl
    rw [restartRepeating_states, l2]
    exact effStates_fold_length _ _ hl
  · intro q' hq'
    rw [restartRepeating_seqs] at hq'
    split at hq'
    · right
      unfold restartOf at hq'
      split at hq'
      · rename_i evs hl
        simp only [List.mem_singleton] at hq'
        obtain ⟨c, hc⟩ := lastRepeating_mem hl
        rw [l2] at hc
        exact ⟨evs, c, effStates_fold_rep _ _ hc, hq'⟩
      · cases hq'
    · left
      rw [l1] at hq'
      obtain ⟨q, hq, hx⟩ := List.mem_flatMap.mp hq'
      exact ⟨q, hq, playLen_step q (hi.ok q hq) q' hx⟩

/-! ## the invariant -/

structure MInv (M : Nat) (s : Layout) (down : List Coord) : Prop where
  quiet : Quiet s
  seq : SeqInv s
  cfg : CfgM s.cfg
  bound : MacroBound s.cfg M
  qlen : s.queue.length ≤ QUEUE_SIZE
  qwf : C06.QWF down s.queue
  /-- every state with a coordinate belongs to a key that is down or whose release is queued -/
  owned : ∀ st ∈ s.states, ∀ c, st.coord = some c → c ∈ down ∨ ∃ x ∈ s.queue, x.ev = .release c
  play : ∀ q ∈ s.activeSequences, playLen q ≤ M
  rep : ∀ evs c, St.repeatingSequence evs c ∈ s.states → evLen evs ≤ M
  cap : s.states.length ≤ STATES_CAP
  lpt : s.lptTapHoldTimeout = 0
  /-- no layer is ever held on this fragment -/
  nolayer : ∀ st ∈ s.states, st.getLayer = none

/-- a freshly created layout satisfies the invariant -/
theorem init_minv (cfg : LCfg) (hc : CfgM cfg) (M : Nat) (hb : MacroBound cfg M) (tv2 dfl qth : Bool) (osd : Nat) :
    MInv M ({ cfg := cfg, transV2 := tv2, delegateToFirstLayer := dfl, quickTapHoldTimeout := qth,
              oneshot := { pauseInputProcessingDelay := osd } } : Layout) [] :=
  ⟨⟨rfl, rfl, rfl, rfl, rfl⟩,
   ⟨fun _ h => (by cases h), fun _ h => (by cases h), fun _ _ h => (by cases h), Nat.zero_le _⟩,
   hc, hb, Nat.zero_le _, trivial, fun _ h => (by cases h), fun _ h => (by cases h), fun _ _ h => (by cases h),
   Nat.zero_le _, rfl, fun _ h => (by cases h)⟩

/-! ### events -/

theorem MInv.input {M : Nat} {s : Layout} {down : List Coord} (h : MInv M s down) (e : Ev)
    (hq : s.queue.length < QUEUE_SIZE) :
    ∃ s', s.event e = .ok s' ∧ MInv M s' (C06.downAfter down (.ev e)) ∧ s'.queue = s.queue ++ [⟨e, 0⟩] ∧
      s'.oneshot = s.oneshot ∧ s'.defaultLayer = s.defaultLayer ∧ s'.cfg = s.cfg := by
  unfold Layout.event
  rw [FUEL_succ]
  obtain ⟨s', e1, e2, e3, e4, e5⟩ := C06.event_room 3999 s e hq
  have e6 := event_room_lpt 3999 s e hq s' e1
  refine ⟨s', e1, ?_, e2, e4, e5.dl, e5.cfg⟩
  have hst : Static s s' := ⟨e5.cfg, e5.waiting, e5.extra, e5.tde, e5.aq, by rw [e4], e5.tv2, e5.dfl⟩
  refine ⟨h.quiet.of_static hst, h.seq.frame e5.seqs (fun k hk => e3 ▸ hk) (fun _ _ hm => e3 ▸ hm),
    e5.cfg ▸ h.cfg, e5.cfg ▸ h.bound,
    by rw [e2]; simp only [List.length_append, List.length_cons, List.length_nil]; omega, ?_, ?_,
    by rw [e5.seqs]; exact h.play, by rw [e3]; exact h.rep, by rw [e3]; exact h.cap, e6.trans h.lpt,
    by rw [e3]; exact h.nolayer⟩
  · rw [e2]
    cases e with
    | press c =>
      exact C06.QWF_append _ _ (C06.QWF_mono (fun x hx => List.mem_cons_of_mem _ hx) _ h.qwf) (by simp [C06.downAfter])
    | release c => exact C06.QWF_release c 0 _ h.qwf
  · intro st hst' c hc
    rw [e3] at hst'
    rw [e2]
    rcases h.owned st hst' c hc with h1 | ⟨x, hx, hxe⟩
    · cases e with
      | press c' => exact Or.inl (List.mem_cons_of_mem _ h1)
      | release c' =>
        by_cases hcc : c = c'
        · subst hcc; exact Or.inr ⟨⟨.release c, 0⟩, by simp, rfl⟩
        · exact Or.inl (List.mem_filter.mpr ⟨h1, by simpa using hcc⟩)
    · exact Or.inr ⟨x, List.mem_append_left _ hx, hxe⟩

/-! ### first stage of a tick -/

theorem tickPre_quiet_eq {s : Layout} (h : s.tapDanceEager = none) :
    tickPre s =
      { processSequences { s with queue := C06.age s.queue, lptTapHoldTimeout := s.lptTapHoldTimeout - 1 } with
        histKeys := histTick (processSequences { s with queue := C06.age s.queue, lptTapHoldTimeout := s.lptTapHoldTimeout - 1 }).histKeys,
        histInputs := histTick (processSequences { s with queue := C06.age s.queue, lptTapHoldTimeout := s.lptTapHoldTimeout - 1 }).histInputs } := by
  unfold tickPre
  simp only [h]
  rfl

theorem playLen_fresh (evs : List SeqEv) : playLen { remaining := evs } = evLen evs := by
  simp [playLen]

theorem MInv.pre {M : Nat} {s : Layout} {down : List Coord} (h : MInv M s down) :
    MInv M (tickPre s) down ∧ (tickPre s).oneshot = s.oneshot ∧ (tickPre s).queue = C06.age s.queue ∧
    (tickPre s).defaultLayer = s.defaultLayer ∧
    (∀ st ∈ (tickPre s).states, st ∈ s.states ∨ (∃ k, st = .fakeKey k) ∨ (∃ id, st = .seqCustomPending id)) ∧
    (∀ q' ∈ (tickPre s).activeSequences, (∃ q ∈ s.activeSequences, playLen q' + 1 ≤ playLen q) ∨
       (∃ evs c, St.repeatingSequence evs c ∈ s.states ∧ q' = { remaining := evs })) := by
  obtain ⟨p1, p2, p3⟩ := tickPre_spec h.quiet h.seq
  have hs1 : SeqInv ({ s with queue := C06.age s.queue, lptTapHoldTimeout := s.lptTapHoldTimeout - 1 } : Layout) :=
    h.seq.frame rfl (fun _ h => h) (fun _ _ h => h)
  obtain ⟨a1, a2, a3, a7, a4, a5, a6⟩ := processSequences_spec
    ({ s with queue := C06.age s.queue, lptTapHoldTimeout := s.lptTapHoldTimeout - 1 } : Layout) hs1 h.quiet.osh
  have e := tickPre_quiet_eq h.quiet.tde
  have hosh : (tickPre s).oneshot = s.oneshot := by rw [e]; exact a1
  have hqu : (tickPre s).queue = C06.age s.queue := by rw [e]; exact a2
  have hdl : (tickPre s).defaultLayer = s.defaultLayer := by rw [e]; exact a7
  have hlpt : (tickPre s).lptTapHoldTimeout = 0 := by
    rw [e]; show (processSequences _).lptTapHoldTimeout = 0
    rw [a3]; show s.lptTapHoldTimeout - 1 = 0
    rw [h.lpt]
  have hst : ∀ st ∈ (tickPre s).states,
      st ∈ s.states ∨ (∃ k, st = .fakeKey k) ∨ (∃ id, st = .seqCustomPending id) := by
    rw [e]; exact a4
  have hcap : (tickPre s).states.length ≤ STATES_CAP := by
    rw [e]; exact a5 h.cap
  have hsq : ∀ q' ∈ (tickPre s).activeSequences, (∃ q ∈ s.activeSequences, playLen q' + 1 ≤ playLen q) ∨
       (∃ evs c, St.repeatingSequence evs c ∈ s.states ∧ q' = { remaining := evs }) := by
    rw [e]; exact a6
  refine ⟨⟨h.quiet.of_static p1, p2, p1.cfg ▸ h.cfg, p1.cfg ▸ h.bound, by rw [hqu]; simpa [C06.age] using h.qlen,
    hqu ▸ C06.QWF_age _ h.qwf, ?_, ?_, ?_, hcap, hlpt, ?_⟩, hosh, hqu, hdl, hst, hsq⟩
  · intro st hst' c hc
    rw [hqu]
    rcases hst st hst' with h1 | ⟨k, h1⟩ | ⟨id, h1⟩
    · rcases h.owned st h1 c hc with g | g
      · exact Or.inl g
      · exact Or.inr (C06.mem_age_release g)
    · subst h1; cases hc
    · subst h1; cases hc
  · intro q' hq'
    rcases hsq q' hq' with ⟨q, hq, hl⟩ | ⟨evs, c, hm, rfl⟩
    · have := h.play q hq; omega
    · rw [playLen_fresh]; exact h.rep evs c hm
  · intro evs c hm
    rcases hst _ hm with h1 | ⟨k, h1⟩ | ⟨id, h1⟩
    · exact h.rep evs c h1
    · cases h1
    · cases h1
  · intro st hst'
    rcases hst st hst' with h1 | ⟨k, h1⟩ | ⟨id, h1⟩
    · exact h.nolayer st h1
    · subst h1; rfl
    · subst h1; rfl

/-! ### third stage of a tick -/

/-- a state that survives the release of `c` is unchanged and does not carry `c` -/
theorem release_some (st : St) (c : Coord) (cu : CustomEv) (st' : St) (cu' : CustomEv)
    (h : st.release c cu = (some st', cu')) : st' = st ∧ st.coord ≠ some c := by
  cases st <;> simp only [St.release] at h
  case normalKey kc c' f =>
    split at h
    · cases h
    · rename_i hne
      injection h with h1 _; injection h1 with h1
      exact ⟨h1.symm, by simpa [St.coord] using hne⟩
  case layerModifier v c' =>
    split at h
    · cases h
    · rename_i hne
      injection h with h1 _; injection h1 with h1
      exact ⟨h1.symm, by simpa [St.coord] using hne⟩
  case custom id c' =>
    split at h
    · cases h
    · rename_i hne
      injection h with h1 _; injection h1 with h1
      exact ⟨h1.symm, by simpa [St.coord] using hne⟩
  case repeatingSequence evs c' =>
    split at h
    · cases h
    · rename_i hne
      injection h with h1 _; injection h1 with h1
      exact ⟨h1.symm, by simpa [St.coord] using hne⟩
  all_goals
    injection h with h1 _; injection h1 with h1
    exact ⟨h1.symm, by simp [St.coord]⟩

theorem releaseStates_coord (f : Bool) (c : Coord) : ∀ (l : List St) (cu : CustomEv) (x : St),
    x ∈ (releaseStates f c l cu).1 → x.coord ≠ some c := by
  intro l
  induction l with
  | nil => intro cu x h; simp [releaseStates] at h
  | cons st rest ih =>
    intro cu x h
    unfold releaseStates at h
    split at h
    · exact ih _ _ h
    · simp only [] at h
      cases hr : st.release c cu with
      | mk r cu1 =>
        rw [hr] at h
        simp only [] at h
        cases hrest : releaseStates f c rest cu1 with
        | mk rest' cu2 =>
          rw [hrest] at h
          have ihh := ih cu1
          rw [hrest] at ihh
          cases r with
          | none => exact ihh x h
          | some st' =>
            simp only [List.mem_cons] at h
            rcases h with h | h
            · obtain ⟨r1, r2⟩ := release_some st c cu st' cu1 hr
              rw [h, r1]; exact r2
            · exact ihh x h

theorem releaseStates_length (f : Bool) (c : Coord) : ∀ (l : List St) (cu : CustomEv),
    (releaseStates f c l cu).1.length ≤ l.length := by
  intro l
  induction l with
  | nil => intro cu; simp [releaseStates]
  | cons st rest ih =>
    intro cu
    unfold releaseStates
    split
    · exact Nat.le_trans (ih _) (Nat.le_succ _)
    · simp only []
      cases hr : st.release c cu with
      | mk r cu1 =>
        simp only []
        have ihh := ih cu1
        cases hrest : releaseStates f c rest cu1 with
        | mk rest' cu2 =>
          rw [hrest] at ihh
          cases r with
          | none => simp only [List.length_cons]; simp only at ihh; omega
          | some st' => simp only [List.length_cons]; simp only at ihh; omega

/-- a release taken from the queue while no one-shot key is active -/
theorem dequeue_release_quiet {s : Layout} (hk : s.oneshot.keys = []) (c : Coord) (n : Nat) :
    dequeue FUEL s ⟨.release c, n⟩ =
      .ok ({ s with states := (releaseStates true c s.states .noEvent).1 },
           (releaseStates true c s.states .noEvent).2) := by
  rw [FUEL_succ]
  simp only [dequeue, C06.handleRelease_inactive _ c hk, if_true]

/-- a press taken from the queue on the fragment -/
theorem dequeue_press_out {M : Nat} (fuel : Nat) {s : Layout} (hc : CfgM s.cfg) (hb : MacroBound s.cfg M)
    (hq : Quiet s) (c : Coord) (n : Nat) (s' : Layout) (cu : CustomEv)
    (h : dequeue fuel s ⟨.press c, n⟩ = .ok (s', cu)) : Out M c s s' := by
  cases fuel with
  | zero => simp [dequeue] at h
  | succ fuel =>
  simp only [dequeue, bind, Except.bind] at h
  cases hto : s.transOrder with
  | error e => rw [hto] at h; cases h
  | ok order =>
    rw [hto] at h
    simp only [hq.tde] at h
    cases fuel with
    | zero => simp [doAction] at h
    | succ fuel =>
    simp only [doAction] at h
    split at h
    · cases h
    · rename_i a ls hres
      have hp := out_prelude M c s c
      have hf := resolve_mfrag s c hc order a ls hres
      have hl : actLen a ≤ M := resolve_pred (fun a => actLen a ≤ M) (Nat.zero_le _) (Nat.zero_le _) s c
        hb.1 hb.2 order a ls hres
      exact hp.trans ((out_all M fuel).2.1 (prelude s c) a c n false ls s' cu (by rw [hp.osh]; exact hq.osh) hf hl h)

theorem MInv.main {M : Nat} {s : Layout} {down : List Coord} (h : MInv M s down) (s2 : Layout) (c2 : CustomEv)
    (hm : tickMain s = .ok (s2, c2)) :
    MInv M s2 down ∧
    (s2.oneshot.pauseInputProcessingTicks + s2.queue.length ≤
      s.oneshot.pauseInputProcessingTicks + s.queue.length - 1 ∧
     s2.oneshot.pauseInputProcessingTicks ≤ s.oneshot.pauseInputProcessingTicks) ∧
    (s2.defaultLayer = s.defaultLayer ∧ s2.cfg = s.cfg ∧ (∀ x ∈ s2.queue, x ∈ s.queue) ∧
      s2.queue.length ≤ s.queue.length) ∧
    (s.queue = [] → s2.activeSequences = s.activeSequences ∧ s2.states = s.states ∧ s2.queue = [] ∧
      (s.oneshot.pauseInputProcessingTicks = 0 → c2 = .noEvent ∧ s2.oneshot.pauseInputProcessingTicks = 0)) := by
  by_cases hp : 0 < s.oneshot.pauseInputProcessingTicks
  · rw [C06.tickMain_paused h.quiet.waiting h.quiet.extra hp] at hm
    injection hm with hm; injection hm with h1 h2; subst h1
    refine ⟨⟨⟨h.quiet.waiting, h.quiet.extra, h.quiet.tde, h.quiet.aq, h.quiet.osh⟩, h.seq.frame rfl (fun _ h => h) (fun _ _ h => h),
      h.cfg, h.bound, h.qlen, h.qwf, h.owned, h.play, h.rep, h.cap, h.lpt, h.nolayer⟩, ?_, ⟨rfl, rfl, fun _ hx => hx, Nat.le_refl _⟩, fun hq => ⟨rfl, rfl, hq, fun h0 => by omega⟩⟩
    refine ⟨?_, Nat.sub_le _ _⟩
    show s.oneshot.pauseInputProcessingTicks - 1 + s.queue.length ≤ _
    omega
  · have hp0 : s.oneshot.pauseInputProcessingTicks = 0 := by omega
    cases hq : s.queue with
    | nil =>
      rw [C06.tickMain_empty h.quiet.waiting h.quiet.extra hp0 hq] at hm
      injection hm with hm; injection hm with h1 h2; subst h1
      exact ⟨h, ⟨by rw [hq]; simp only [List.length_nil]; omega, Nat.le_refl _⟩, ⟨rfl, rfl, fun _ hx => hq ▸ hx, by rw [hq]; exact Nat.le_refl _⟩, fun _ => ⟨rfl, rfl, hq, fun h0 => ⟨h2.symm, h0⟩⟩⟩
    | cons q rest =>
      rw [C06.tickMain_pops h.quiet.waiting h.quiet.extra hp0 q rest hq] at hm
      have hwf := h.qwf
      rw [hq] at hwf
      have hlen : rest.length ≤ QUEUE_SIZE := by
        have := h.qlen; rw [hq] at this; simp only [List.length_cons] at this; omega
      have hquiet : Quiet (s.setQueue rest) := ⟨h.quiet.waiting, h.quiet.extra, h.quiet.tde, h.quiet.aq, h.quiet.osh⟩
      have hseq : SeqInv (s.setQueue rest) := h.seq.frame rfl (fun _ h => h) (fun _ _ h => h)
      obtain ⟨ev, n⟩ := q
      refine ⟨?_, ?_, ?_, fun hq0 => by cases hq0⟩
      case refine_3 =>
        cases ev with
        | release c =>
          rw [dequeue_release_quiet (s := s.setQueue rest) h.quiet.osh c n] at hm
          injection hm with hm; injection hm with h1 h2; subst h1
          exact ⟨rfl, rfl, fun x hx => List.mem_cons_of_mem _ hx, by simp [Layout.setQueue]⟩
        | press c =>
          have o := dequeue_press_out (M := M) FUEL (s := s.setQueue rest) h.cfg h.bound hquiet c n s2 c2 hm
          exact ⟨o.dl, (dequeue_spec FUEL (s := s.setQueue rest) h.cfg hquiet hseq ⟨.press c, n⟩ s2 c2 hm).1.cfg,
            fun x hx => by rw [o.queue] at hx; exact List.mem_cons_of_mem _ hx,
            by rw [o.queue]; simp [Layout.setQueue]⟩
      case refine_2 =>
        -- the queue gets shorter (no action of the fragment queues anything)
        cases ev with
        | release c =>
          rw [dequeue_release_quiet (s := s.setQueue rest) h.quiet.osh c n] at hm
          injection hm with hm; injection hm with h1 h2; subst h1
          refine ⟨?_, Nat.le_refl _⟩
          show s.oneshot.pauseInputProcessingTicks + rest.length ≤ _
          simp only [List.length_cons]; omega
        | press c =>
          have o := dequeue_press_out (M := M) FUEL (s := s.setQueue rest) h.cfg h.bound hquiet c n s2 c2 hm
          rw [o.osh, o.queue]
          refine ⟨?_, Nat.le_refl _⟩
          show s.oneshot.pauseInputProcessingTicks + rest.length ≤ _
          simp only [List.length_cons]; omega
      cases ev with
      | release c =>
        rw [dequeue_release_quiet (s := s.setQueue rest) h.quiet.osh c n] at hm
        injection hm with hm; injection hm with h1 h2; subst h1
        have hsub : ∀ x, x ∈ (releaseStates true c s.states .noEvent).1 → x ∈ s.states :=
          fun x hx => releaseStates_sub _ _ _ _ _ hx
        refine ⟨⟨hquiet.waiting, hquiet.extra, hquiet.tde, hquiet.aq, hquiet.osh⟩,
          hseq.frame rfl (fun k hk => hsub _ hk) (fun _ _ hm' => hsub _ hm'), h.cfg, h.bound, hlen,
          hwf.2, ?_, h.play, fun evs c' hm' => h.rep evs c' (hsub _ hm'),
          Nat.le_trans (releaseStates_length _ _ _ _) h.cap, h.lpt, fun st hst => h.nolayer st (hsub _ hst)⟩
        intro st hst c' hc'
        have hne : c' ≠ c := by
          intro hcc; subst hcc
          exact releaseStates_coord _ _ _ _ _ hst hc'
        rcases h.owned st (hsub _ hst) c' hc' with g | ⟨x, hx, hxe⟩
        · exact Or.inl g
        · rw [hq] at hx
          rcases List.mem_cons.mp hx with hx | hx
          · subst hx; injection hxe with hxe; exact absurd hxe.symm hne
          · exact Or.inr ⟨x, hx, hxe⟩
      | press c =>
        have o := dequeue_press_out (M := M) FUEL (s := s.setQueue rest) h.cfg h.bound hquiet c n s2 c2 hm
        obtain ⟨d1, d2⟩ := dequeue_spec FUEL (s := s.setQueue rest) h.cfg hquiet hseq ⟨.press c, n⟩ s2 c2 hm
        have hhead : c ∈ down ∨ ∃ x ∈ rest, x.ev = .release c := hwf.1
        have hq2 : s2.queue = rest := o.queue
        refine ⟨hquiet.of_static d1, d2, d1.cfg ▸ h.cfg, d1.cfg ▸ h.bound, by rw [hq2]; exact hlen,
          by rw [hq2]; exact hwf.2, ?_, ?_, ?_, o.cap h.cap, ?_, ?_⟩
        · intro st hst c' hc'
          rw [hq2]
          rcases o.new st hst with g | g
          · rcases h.owned st g c' hc' with g1 | ⟨x, hx, hxe⟩
            · exact Or.inl g1
            · rw [hq] at hx
              rcases List.mem_cons.mp hx with hx | hx
              · subst hx; cases hxe
              · exact Or.inr ⟨x, hx, hxe⟩
          · have : c' = c := by
              have := g.1; rw [hc'] at this; injection this
            subst this
            exact hhead
        · intro q' hq'
          rcases o.seqs q' hq' with g | ⟨g1, g2, g3⟩
          · exact h.play q' g
          · unfold playLen; rw [g1, g2]; simpa using g3
        · intro evs c' hm'
          rcases o.new _ hm' with g | g
          · exact h.rep evs c' g
          · exact g.2.2 evs c' rfl
        · have := o.lpt
          have h0 : (s.setQueue rest).lptTapHoldTimeout = 0 := h.lpt
          omega
        · intro st hst
          rcases o.new st hst with g | g
          · exact h.nolayer st g
          · exact g.2.1

/-! ### last stage of a tick: custom items of sequences -/

theorem psc_go_mem (cu : CustomEv) : ∀ (l : List St) (x : St), x ∈ (processSequenceCustom.go cu l).1 →
    x ∈ l ∨ (∃ id, x = .seqCustomActive id) ∨ x = .tombstone := by
  intro l
  induction l with
  | nil => intro x h; simp [processSequenceCustom.go] at h
  | cons st rest ih =>
    intro x h
    cases st <;> simp only [processSequenceCustom.go, List.mem_cons] at h ⊢ <;>
      first
      | (rcases h with h | h
         · exact Or.inl (Or.inl h)
         · rcases ih x h with h | h
           · exact Or.inl (Or.inr h)
           · exact Or.inr h)
      | (rcases h with h | h
         · first | exact Or.inr (Or.inl ⟨_, h⟩) | exact Or.inr (Or.inr h)
         · exact Or.inl (Or.inr h))

theorem psc_go_length (cu : CustomEv) : ∀ (l : List St), (processSequenceCustom.go cu l).1.length = l.length := by
  intro l
  induction l with
  | nil => rfl
  | cons st rest ih =>
    cases st <;> simp only [processSequenceCustom.go, List.length_cons, ih]

/-- `process_sequence_custom` touches `states` only: old states, or a custom item advanced -/
theorem psc_spec (s : Layout) (cu : CustomEv) :
    (processSequenceCustom s cu).1.oneshot = s.oneshot ∧ (processSequenceCustom s cu).1.queue = s.queue ∧
    (processSequenceCustom s cu).1.lptTapHoldTimeout = s.lptTapHoldTimeout ∧
    (processSequenceCustom s cu).1.defaultLayer = s.defaultLayer ∧
    (∀ st ∈ (processSequenceCustom s cu).1.states,
      st ∈ s.states ∨ (∃ id, st = .seqCustomActive id) ∨ st = .tombstone) ∧
    (processSequenceCustom s cu).1.states.length ≤ s.states.length := by
  unfold processSequenceCustom
  split
  · exact ⟨rfl, rfl, rfl, rfl, fun _ h => Or.inl h, Nat.le_refl _⟩
  · simp only []
    refine ⟨trivial, trivial, trivial, trivial, ?_, ?_⟩
    · intro st hst
      rcases psc_go_mem cu _ _ hst with h | h
      · exact Or.inl (List.mem_filter.mp h).1
      · exact Or.inr h
    · show (processSequenceCustom.go cu _).1.length ≤ _
      rw [psc_go_length]
      exact List.length_filter_le _ _

theorem MInv.psc {M : Nat} {s : Layout} {down : List Coord} (h : MInv M s down) (cu : CustomEv) :
    MInv M (processSequenceCustom s cu).1 down := by
  obtain ⟨p1, p2, p3, _, p4, p5⟩ := psc_spec s cu
  have f := processSequenceCustom_frame s cu
  refine ⟨h.quiet.of_static f.st, f.inv h.seq, f.st.cfg ▸ h.cfg, f.st.cfg ▸ h.bound, p2 ▸ h.qlen, p2 ▸ h.qwf, ?_,
    by rw [f.seqs]; exact h.play, fun evs c hm => h.rep evs c (f.rep evs c hm), Nat.le_trans p5 h.cap, p3.trans h.lpt, ?_⟩
  · intro st hst c hc
    rw [p2]
    rcases p4 st hst with g | ⟨id, g⟩ | g
    · exact h.owned st g c hc
    · subst g; cases hc
    · subst g; cases hc
  · intro st hst
    rcases p4 st hst with g | ⟨id, g⟩ | g
    · exact h.nolayer st g
    · subst g; rfl
    · subst g; rfl

/-- weight of what `process_sequence_custom` still has to do -/
def cw : St → Nat
  | .seqCustomPending _ => 2
  | .seqCustomActive _ => 1
  | _ => 0

def cmeasure (l : List St) : Nat := (l.map cw).sum + (if l = [] then 0 else 1)

/-- only custom items of finished macros are left -/
def CustomOnly (l : List St) : Prop :=
  ∀ st ∈ l, (∃ id, st = .seqCustomPending id) ∨ (∃ id, st = .seqCustomActive id) ∨ st = .tombstone

theorem cw_filter_tombstone : ∀ l : List St, ((l.filter (· != .tombstone)).map cw).sum = (l.map cw).sum := by
  intro l
  induction l with
  | nil => rfl
  | cons st rest ih =>
    cases st <;> simp [ih, cw]

/-- **with nothing else going on, one custom item advances per tick** -/
theorem psc_measure (s : Layout) (h : CustomOnly s.states) :
    CustomOnly (processSequenceCustom s .noEvent).1.states ∧
    cmeasure (processSequenceCustom s .noEvent).1.states ≤ cmeasure s.states - 1 := by
  unfold processSequenceCustom
  by_cases he : s.states.isEmpty = true
  · simp only [he, Bool.true_or, if_true]
    have : s.states = [] := List.isEmpty_iff.mp he
    exact ⟨h, by rw [this]; simp [cmeasure]⟩
  · have hne : s.states ≠ [] := fun h0 => he (by rw [h0]; rfl)
    have hcond : (s.states.isEmpty || (CustomEv.noEvent != CustomEv.noEvent)) = false := by
      simp only [bne_self_eq_false, Bool.or_false]
      simpa using he
    simp only [hcond, Bool.false_eq_true, if_false]
    have hsum := cw_filter_tombstone s.states
    have hf : ∀ st ∈ s.states.filter (· != .tombstone),
        (∃ id, st = .seqCustomPending id) ∨ (∃ id, st = .seqCustomActive id) := by
      intro st hst
      obtain ⟨m1, m2⟩ := List.mem_filter.mp hst
      rcases h st m1 with g | g | g
      · exact Or.inl g
      · exact Or.inr g
      · subst g; simp at m2
    have hm0 : cmeasure s.states = (s.states.map cw).sum + 1 := by
      unfold cmeasure; rw [if_neg hne]
    generalize s.states.filter (· != .tombstone) = f at hsum hf
    show CustomOnly (processSequenceCustom.go .noEvent f).1 ∧ cmeasure (processSequenceCustom.go .noEvent f).1 ≤ _
    cases f with
    | nil => exact ⟨fun _ hx => (by cases hx), (by simp [processSequenceCustom.go, cmeasure])⟩
    | cons x rest =>
      have hrest : ∀ st ∈ rest, (∃ id, st = .seqCustomPending id) ∨ (∃ id, st = .seqCustomActive id) :=
        fun st hst => hf st (List.mem_cons_of_mem _ hst)
      rcases hf x List.mem_cons_self with ⟨id, rfl⟩ | ⟨id, rfl⟩
      · simp only [processSequenceCustom.go]
        refine ⟨?_, ?_⟩
        · intro st hst
          rcases List.mem_cons.mp hst with g | g
          · exact Or.inr (Or.inl ⟨id, g⟩)
          · rcases hrest st g with g | g
            · exact Or.inl g
            · exact Or.inr (Or.inl g)
        · rw [hm0, ← hsum]
          simp [cmeasure, cw]
          omega
      · simp only [processSequenceCustom.go]
        refine ⟨?_, ?_⟩
        · intro st hst
          rcases List.mem_cons.mp hst with g | g
          · exact Or.inr (Or.inr g)
          · rcases hrest st g with g | g
            · exact Or.inl g
            · exact Or.inr (Or.inl g)
        · rw [hm0, ← hsum]
          simp [cmeasure, cw]
          omega

theorem cmeasure_le (l : List St) : cmeasure l ≤ 2 * l.length + 1 := by
  unfold cmeasure
  have : (l.map cw).sum ≤ 2 * l.length := by
    induction l with
    | nil => simp
    | cons st rest ih =>
      have : cw st ≤ 2 := by cases st <;> simp [cw]
      simp only [List.map_cons, List.sum_cons, List.length_cons]; omega
  split <;> omega

theorem cmeasure_zero {l : List St} (h : cmeasure l = 0) : l = [] := by
  unfold cmeasure at h
  by_cases hl : l = []
  · exact hl
  · rw [if_neg hl] at h; omega

theorem processSequences_idle (s : Layout) (h1 : s.activeSequences = [])
    (h2 : ∀ evs c, St.repeatingSequence evs c ∉ s.states) : processSequences s = s := by
  rw [processSequences_eq, h1]
  simp only [List.length_nil, seqLoop]
  unfold restartRepeating
  simp only [h1, List.isEmpty_nil, if_true]
  split
  · rename_i evs hl
    obtain ⟨c, hc⟩ := lastRepeating_mem hl
    exact absurd hc (h2 evs c)
  · rfl

/-! ## a whole tick -/

theorem MInv.tick {M : Nat} {s : Layout} {down : List Coord} (h : MInv M s down) (s' : Layout) (cu : CustomEv)
    (ht : tick s = .ok (s', cu)) :
    MInv M s' down ∧
    (s'.oneshot.pauseInputProcessingTicks + s'.queue.length ≤
      s.oneshot.pauseInputProcessingTicks + s.queue.length - 1 ∧
     s'.oneshot.pauseInputProcessingTicks ≤ s.oneshot.pauseInputProcessingTicks) ∧
    (s'.defaultLayer = s.defaultLayer ∧ s'.cfg = s.cfg ∧ s'.queue.length ≤ s.queue.length) ∧
    (s.queue = [] →
      s'.queue = [] ∧ (s.oneshot.pauseInputProcessingTicks = 0 → s'.oneshot.pauseInputProcessingTicks = 0) ∧
      (∀ q' ∈ s'.activeSequences, (∃ q ∈ s.activeSequences, playLen q' + 1 ≤ playLen q) ∨
         (∃ evs c, St.repeatingSequence evs c ∈ s.states ∧ q' = { remaining := evs })) ∧
      (∀ st ∈ s'.states, st.coord ≠ none → st ∈ s.states)) ∧
    (s.queue = [] → s.oneshot.pauseInputProcessingTicks = 0 → s.activeSequences = [] → CustomOnly s.states →
      s'.activeSequences = [] ∧ CustomOnly s'.states ∧ cmeasure s'.states ≤ cmeasure s.states - 1) := by
  obtain ⟨i0, o0, q0, d0, st0, sq0⟩ := h.pre
  have cf0 := (tickPre_spec h.quiet h.seq).1.cfg
  unfold KVerif.L.tick at ht
  simp only [h.quiet.aq, tickOneshot_quiet i0.quiet] at ht
  split at ht
  · cases ht
  · rename_i s2 c2 hm
    obtain ⟨i2, m2, ⟨d2, cf2, _, ql2⟩, e2⟩ := i0.main s2 c2 hm
    rw [C04.processExtraWaitings_inert i2.quiet.extra] at ht
    simp only at ht
    injection ht with ht
    have hs' : s' = (processSequenceCustom s2 (CustomEv.noEvent.update c2)).1 := by rw [ht]
    obtain ⟨p1, p2, p3, p6, p4, p5⟩ := psc_spec s2 (CustomEv.noEvent.update c2)
    have fr := processSequenceCustom_frame s2 (CustomEv.noEvent.update c2)
    rw [← hs'] at p1 p2 p3 p4 p5 p6 fr
    refine ⟨hs' ▸ i2.psc _, ?_, ⟨by rw [p6, d2, d0], by rw [fr.st.cfg, cf2, cf0],
      by rw [p2]; rw [q0] at ql2; simpa [C06.age] using ql2⟩, ?_, ?_⟩
    · rw [p1, p2]
      rw [o0, q0] at m2
      exact ⟨by simpa [C06.age] using m2.1, m2.2⟩
    · intro hq
      have hq0 : (tickPre s).queue = [] := by rw [q0, hq]; rfl
      obtain ⟨e21, e22, e23, e24⟩ := e2 hq0
      refine ⟨by rw [p2]; exact e23, fun h0 => by rw [p1]; exact (e24 (by rw [o0]; exact h0)).2, ?_, ?_⟩
      · intro q' hq'
        rw [fr.seqs, e21] at hq'
        exact sq0 q' hq'
      · intro st hst hco
        rcases p4 st hst with g | ⟨id, g⟩ | g
        · rw [e22] at g
          rcases st0 st g with g1 | ⟨k, g1⟩ | ⟨id, g1⟩
          · exact g1
          · subst g1; exact absurd rfl hco
          · subst g1; exact absurd rfl hco
        · subst g; exact absurd rfl hco
        · subst g; exact absurd rfl hco
    · intro hq hp ha hc
      have hnr : ∀ evs c, St.repeatingSequence evs c ∉ s.states := by
        intro evs c hm'
        rcases hc _ hm' with ⟨id, g⟩ | ⟨id, g⟩ | g <;> cases g
      have e := tickPre_quiet_eq h.quiet.tde
      rw [processSequences_idle _ (show ({ s with queue := C06.age s.queue, lptTapHoldTimeout := s.lptTapHoldTimeout - 1 } : Layout).activeSequences = [] from ha)
        (show ∀ evs c, St.repeatingSequence evs c ∉ ({ s with queue := C06.age s.queue, lptTapHoldTimeout := s.lptTapHoldTimeout - 1 } : Layout).states from hnr)] at e
      have es : (tickPre s).states = s.states := by rw [e]
      have ea : (tickPre s).activeSequences = [] := by rw [e]; exact ha
      have hq0 : (tickPre s).queue = [] := by rw [q0, hq]; rfl
      obtain ⟨e21, e22, _, e24⟩ := e2 hq0
      have hc2 : c2 = .noEvent := (e24 (by rw [o0]; exact hp)).1
      subst hc2
      have hcu : CustomEv.noEvent.update .noEvent = .noEvent := rfl
      rw [hcu] at hs'
      obtain ⟨k1, k2⟩ := psc_measure s2 (by rw [e22, es]; exact hc)
      rw [← hs', e22, es] at k2
      rw [← hs'] at k1
      exact ⟨by rw [fr.seqs, e21, ea], k1, k2⟩

/-! ## runs -/

theorem run_append : ∀ (a b : List C06.In) (s : Layout) (down : List Coord) (r : Layout × List Coord),
    C06.run s down (a ++ b) = some (.ok r) →
    ∃ s1 d1, C06.run s down a = some (.ok (s1, d1)) ∧ C06.run s1 d1 b = some (.ok r) := by
  intro a
  induction a with
  | nil => intro b s down r h; exact ⟨s, down, rfl, h⟩
  | cons i rest ih =>
    intro b s down r h
    simp only [List.cons_append, C06.run] at h ⊢
    split at h
    · cases h
    · rename_i hov
      simp only [hov]
      split at h
      · cases h
      · rename_i s' hs
        exact ih b s' _ r h

theorem replicate_split {α} (x : α) (a N : Nat) (h : a ≤ N) :
    List.replicate N x = List.replicate a x ++ List.replicate (N - a) x := by
  rw [List.replicate_append_replicate]; congr 1; omega

/-- every history keeps the invariant; the input pause never grows -/
theorem run_minv {M : Nat} : ∀ (ins : List C06.In) (s : Layout) (down : List Coord), MInv M s down →
    ∀ s' down', C06.run s down ins = some (.ok (s', down')) →
    MInv M s' down' ∧ s'.oneshot.pauseInputProcessingTicks ≤ s.oneshot.pauseInputProcessingTicks := by
  intro ins
  induction ins with
  | nil =>
    intro s down h s' down' hr
    simp only [C06.run] at hr
    injection hr with hr; injection hr with hr; injection hr with h1 h2
    subst h1; subst h2; exact ⟨h, Nat.le_refl _⟩
  | cons i rest ih =>
    intro s down h s' down' hr
    simp only [C06.run] at hr
    split at hr
    · cases hr
    · rename_i hov
      cases i with
      | ev e =>
        have hq : s.queue.length < QUEUE_SIZE := by
          simp only [C06.overflows, decide_eq_true_eq] at hov; omega
        obtain ⟨s1, e1, i1, _, o1, _⟩ := h.input e hq
        simp only [C06.stepIn, e1] at hr
        obtain ⟨r1, r2⟩ := ih s1 _ i1 s' down' hr
        exact ⟨r1, by rw [o1] at r2; exact r2⟩
      | tick =>
        simp only [C06.stepIn] at hr
        cases ht : tick s with
        | error c => simp only [ht] at hr; cases hr
        | ok r =>
          obtain ⟨s1, cu⟩ := r
          simp only [ht] at hr
          obtain ⟨i1, m1, _⟩ := h.tick s1 cu ht
          obtain ⟨r1, r2⟩ := ih s1 _ i1 s' down' hr
          exact ⟨r1, Nat.le_trans r2 m1.2⟩

/-- one quiet tick of a run, unpacked -/
theorem run_tick_succ {s : Layout} {down : List Coord} {N : Nat} {r : Layout × List Coord}
    (h : C06.run s down (List.replicate (N + 1) .tick) = some (.ok r)) :
    ∃ s1 cu, tick s = .ok (s1, cu) ∧ C06.run s1 down (List.replicate N .tick) = some (.ok r) := by
  simp only [List.replicate, C06.run, C06.overflows, Bool.false_eq_true, if_false, C06.stepIn] at h
  cases ht : tick s with
  | error c => simp only [ht] at h; cases h
  | ok x =>
    obtain ⟨s1, cu⟩ := x
    simp only [ht, C06.downAfter] at h
    exact ⟨s1, cu, rfl, h⟩

/-- with no key down and nothing queued, no state carries a coordinate -/
theorem MInv.noCoord {M : Nat} {s : Layout} (h : MInv M s []) (hq : s.queue = []) :
    ∀ st ∈ s.states, st.coord = none := by
  intro st hst
  cases hc : st.coord with
  | none => rfl
  | some c =>
    rcases h.owned st hst c hc with g | ⟨x, hx, _⟩
    · cases g
    · rw [hq] at hx; cases hx

/-- **phase A**: the queue drains, one event per tick once the input pause is over -/
theorem phaseA {M : Nat} : ∀ (N : Nat) (s : Layout) (down : List Coord), MInv M s down →
    ∀ s' down', C06.run s down (List.replicate N .tick) = some (.ok (s', down')) →
    down' = down ∧ MInv M s' down ∧
    s'.oneshot.pauseInputProcessingTicks + s'.queue.length ≤
      s.oneshot.pauseInputProcessingTicks + s.queue.length - N := by
  intro N
  induction N with
  | zero =>
    intro s down h s' down' hr
    simp only [List.replicate, C06.run] at hr
    injection hr with hr; injection hr with hr; injection hr with h1 h2
    subst h1; subst h2; exact ⟨rfl, h, Nat.le_refl _⟩
  | succ N ih =>
    intro s down h s' down' hr
    obtain ⟨s1, cu, ht, hr1⟩ := run_tick_succ hr
    obtain ⟨i1, m1, _⟩ := h.tick s1 cu ht
    obtain ⟨r1, r2, r3⟩ := ih s1 down i1 s' down' hr1
    exact ⟨r1, r2, by have := m1.1; omega⟩

/-- **phase B**: with nothing queued and no key down, every tick brings every active macro one tick
closer to its end, and none is started -/
theorem phaseB {M : Nat} : ∀ (N : Nat) (s : Layout) (K : Nat), MInv M s [] → s.queue = [] →
    s.oneshot.pauseInputProcessingTicks = 0 → (∀ q ∈ s.activeSequences, playLen q ≤ K) →
    ∀ s' down', C06.run s [] (List.replicate N .tick) = some (.ok (s', down')) →
    down' = [] ∧ MInv M s' [] ∧ s'.queue = [] ∧ s'.oneshot.pauseInputProcessingTicks = 0 ∧
    (∀ q ∈ s'.activeSequences, playLen q + N ≤ K) := by
  intro N
  induction N with
  | zero =>
    intro s K h hq hp hk s' down' hr
    simp only [List.replicate, C06.run] at hr
    injection hr with hr; injection hr with hr; injection hr with h1 h2
    subst h1; subst h2; exact ⟨rfl, h, hq, hp, hk⟩
  | succ N ih =>
    intro s K h hq hp hk s' down' hr
    obtain ⟨s1, cu, ht, hr1⟩ := run_tick_succ hr
    obtain ⟨i1, _, _, m2, _⟩ := h.tick s1 cu ht
    obtain ⟨q1, p1, sq1, _⟩ := m2 hq
    have hnc := h.noCoord hq
    have hk1 : ∀ q ∈ s1.activeSequences, playLen q ≤ K - 1 := by
      intro q' hq'
      rcases sq1 q' hq' with ⟨q, hqm, hl⟩ | ⟨evs, c, hm, _⟩
      · have := hk q hqm; omega
      · have := hnc _ hm; cases this
    obtain ⟨r1, r2, r3, r4, r5⟩ := ih s1 (K - 1) i1 q1 (p1 hp) hk1 s' down' hr1
    refine ⟨r1, r2, r3, r4, ?_⟩
    intro q hq'
    have := r5 q hq'
    -- an active sequence has at least its `Complete` left
    have hpos : 1 ≤ playLen q := by
      obtain ⟨_, hev⟩ := r2.seq.ok q hq'
      obtain ⟨steps, hrem, _, _⟩ := hev
      unfold playLen
      rw [hrem]
      have : evLen (steps ++ [SeqEv.complete]) = evLen steps + 1 := by
        simp [evLen, ticksOf]
      omega
    omega

/-- an active well-formed sequence has at least one tick to go -/
theorem playLen_pos {q : SeqState} (h : SeqOK q) : 1 ≤ playLen q := by
  obtain ⟨_, steps, hrem, _, _⟩ := h
  unfold playLen
  rw [hrem]
  have : evLen (steps ++ [SeqEv.complete]) = evLen steps + 1 := by
    simp [evLen, ticksOf]
  omega

/-- **phase C**: with no macro active any more, the custom items they left are worked off, one step
per tick -/
theorem phaseC {M : Nat} : ∀ (N : Nat) (s : Layout), MInv M s [] → s.queue = [] →
    s.oneshot.pauseInputProcessingTicks = 0 → s.activeSequences = [] → CustomOnly s.states →
    ∀ s' down', C06.run s [] (List.replicate N .tick) = some (.ok (s', down')) →
    down' = [] ∧ MInv M s' [] ∧ s'.queue = [] ∧ s'.oneshot.pauseInputProcessingTicks = 0 ∧
    s'.activeSequences = [] ∧ CustomOnly s'.states ∧ cmeasure s'.states ≤ cmeasure s.states - N := by
  intro N
  induction N with
  | zero =>
    intro s h hq hp ha hc s' down' hr
    simp only [List.replicate, C06.run] at hr
    injection hr with hr; injection hr with hr; injection hr with h1 h2
    subst h1; subst h2; exact ⟨rfl, h, hq, hp, ha, hc, Nat.le_refl _⟩
  | succ N ih =>
    intro s h hq hp ha hc s' down' hr
    obtain ⟨s1, cu, ht, hr1⟩ := run_tick_succ hr
    obtain ⟨i1, _, _, m2, m3⟩ := h.tick s1 cu ht
    obtain ⟨q1, p1, _, _⟩ := m2 hq
    obtain ⟨a1, c1, k1⟩ := m3 hq hp ha hc
    obtain ⟨r1, r2, r3, r4, r5, r6, r7⟩ := ih s1 i1 q1 (p1 hp) a1 c1 s' down' hr1
    exact ⟨r1, r2, r3, r4, r5, r6, by omega⟩

/-- **the three phases together** -/
theorem macro_settles {M : Nat} (s1 : Layout) (h : MInv M s1 []) (N : Nat)
    (hN : s1.oneshot.pauseInputProcessingTicks + s1.queue.length + M + (2 * STATES_CAP + 1) ≤ N)
    (s2 : Layout) (dn : List Coord)
    (hq : C06.run s1 [] (List.replicate N .tick) = some (.ok (s2, dn))) :
    dn = [] ∧ LayoutAtRest s2 := by
  -- split the run
  let NA := s1.oneshot.pauseInputProcessingTicks + s1.queue.length
  have e1 : List.replicate N C06.In.tick = List.replicate NA .tick ++ List.replicate (N - NA) .tick :=
    replicate_split _ NA N (by omega)
  have e2 : List.replicate (N - NA) C06.In.tick = List.replicate M .tick ++ List.replicate (N - NA - M) .tick :=
    replicate_split _ M (N - NA) (by omega)
  rw [e1] at hq
  obtain ⟨sa, da, ra, hq⟩ := run_append _ _ _ _ _ hq
  rw [e2] at hq
  obtain ⟨sb, db, rb, hq⟩ := run_append _ _ _ _ _ hq
  -- phase A
  obtain ⟨a1, a2, a3⟩ := phaseA NA s1 [] h sa da ra
  subst a1
  have aq : sa.queue = [] := List.length_eq_zero_iff.mp (by omega)
  have ap : sa.oneshot.pauseInputProcessingTicks = 0 := by omega
  -- phase B
  obtain ⟨b1, b2, b3, b4, b5⟩ := phaseB M sa M a2 aq ap a2.play sb db rb
  subst b1
  have ba : sb.activeSequences = [] := by
    cases hs : sb.activeSequences with
    | nil => rfl
    | cons q rest =>
      have hm : q ∈ sb.activeSequences := by rw [hs]; exact List.mem_cons_self
      have := b5 q hm
      have := playLen_pos (b2.seq.ok q hm)
      omega
  have bc : CustomOnly sb.states := by
    intro st hst
    have hnc := b2.noCoord b3 st hst
    have hnf := b2.seq.released ba
    cases st with
    | fakeKey k => exact absurd hst (hnf k)
    | seqCustomPending id => exact Or.inl ⟨id, rfl⟩
    | seqCustomActive id => exact Or.inr (Or.inl ⟨id, rfl⟩)
    | tombstone => exact Or.inr (Or.inr rfl)
    | normalKey _ _ _ => cases hnc
    | layerModifier _ _ => cases hnc
    | custom _ _ => cases hnc
    | repeatingSequence _ _ => cases hnc
  -- phase C
  obtain ⟨c1, c2, c3, c4, c5, _, c7⟩ := phaseC (N - NA - M) sb b2 b3 b4 ba bc s2 dn hq
  have hm := cmeasure_le sb.states
  have hcap := b2.cap
  have hz : s2.states = [] := cmeasure_zero (by omega)
  exact ⟨c1, hz, c3, c2.quiet.waiting, c2.quiet.extra, c2.lpt, c2.quiet.osh, c4, c5, c2.quiet.tde, c2.quiet.aq⟩

/-! ## the fragment never crashes -/

mutual
  /-- how deep `do_action` recurses for an action of the fragment -/
  def depthA : Action → Nat
    | .multipleActions acs => 2 + depthL acs
    | _ => 2
  def depthL : List Action → Nat
    | [] => 1
    | a :: rest => 1 + max (depthA a) (depthL rest)
end

theorem depthA_ge (a : Action) : 2 ≤ depthA a := by
  cases a <;> simp [depthA]

theorem depthL_ge (acs : List Action) : 1 ≤ depthL acs := by
  cases acs <;> simp [depthL] <;> omega

/-- **enough fuel, no `fuelOut`**: an action of the fragment returns a state -/
theorem frag_total : ∀ fuel : Nat,
    (∀ s a coord delay o ls, MFrag a → a ≠ .trans → depthA a ≤ fuel →
      ∃ r, doAction fuel s a coord delay o ls = .ok r) ∧
    (∀ s a coord delay o ls, MFrag a → a ≠ .trans → depthA a ≤ fuel + 1 →
      ∃ r, dispatch fuel s a coord delay o ls = .ok r) ∧
    (∀ s acs coord delay o ls cu0, MFragL acs → depthL acs ≤ fuel →
      ∃ r, doActions fuel s acs coord delay o ls cu0 = .ok r) := by
  intro fuel
  induction fuel with
  | zero =>
    refine ⟨?_, ?_, ?_⟩
    · intro s a _ _ _ _ _ _ h; have := depthA_ge a; omega
    · intro s a _ _ _ _ _ _ h; have := depthA_ge a; omega
    · intro s acs _ _ _ _ _ _ h; have := depthL_ge acs; omega
  | succ fuel ih =>
    obtain ⟨ih1, ih2, ih3⟩ := ih
    refine ⟨?_, ?_, ?_⟩
    · intro s a coord delay o ls hf hnt hd
      obtain ⟨r, hr⟩ := ih2 (prelude s coord) a coord delay o ls hf hnt hd
      refine ⟨r, ?_⟩
      cases a <;> first | exact absurd rfl hnt | (simp only [doAction]; exact hr)
    · intro s a coord delay o ls hf hnt hd
      cases a <;> simp only [MFrag] at hf <;> simp only [dispatch]
      case noOp => exact ⟨_, rfl⟩
      case trans => exact absurd rfl hnt
      case keyCode kc => exact ⟨_, rfl⟩
      case cancelSequences => exact ⟨_, rfl⟩
      case custom id => exact ⟨_, rfl⟩
      case sequence evs => exact ⟨_, rfl⟩
      case repeatableSequence evs => exact ⟨_, rfl⟩
      case multipleActions acs =>
        simp only [depthA] at hd
        obtain ⟨r, hr⟩ := ih3 (updateCoord s coord) acs coord delay o ls .noEvent hf (by omega)
        rw [hr]
        exact ⟨_, rfl⟩
    · intro s acs coord delay o ls cu0 hf hd
      cases acs with
      | nil => exact ⟨(s, cu0), by simp only [doActions]⟩
      | cons a rest =>
        simp only [MFragL] at hf
        simp only [depthL] at hd
        obtain ⟨r1, hr1⟩ := ih1 s a coord delay o ls hf.1 hf.2.1 (by omega)
        obtain ⟨s1, c1⟩ := r1
        obtain ⟨r2, hr2⟩ := ih3 s1 rest coord delay o ls (cu0.update c1) hf.2.2 (by omega)
        exact ⟨r2, by simp only [doActions, hr1, hr2]⟩

structure CfgSafeM (c : LCfg) : Prop where
  pinned : c.pinnedLayerStack = false
  layers : 0 < c.layers.length
  depthL : ∀ tbl ∈ c.layers, ∀ e ∈ tbl, depthA e.2 ≤ 3998
  depthS : ∀ e ∈ c.srcKeys, depthA e.2 ≤ 3998 ∧ e.2 ≠ .trans

structure SafeM (s : Layout) : Prop where
  cfg : CfgSafeM s.cfg
  dl : s.defaultLayer < s.cfg.layers.length
  queue : ∀ q ∈ s.queue, ∀ c, q.ev = .press c → CoordOK s.cfg c

theorem FUEL_2 : FUEL = 3998 + 2 := rfl

theorem dequeue_press_total_M {s : Layout} (hc : CfgM s.cfg) (hq : Quiet s) (hS : SafeM s)
    (hnl : ∀ st ∈ s.states, st.getLayer = none) (c : Coord) (hco : CoordOK s.cfg c) (n : Nat) :
    ∃ r, dequeue FUEL s ⟨.press c, n⟩ = .ok r := by
  obtain ⟨order, ho, hol⟩ := transOrder_total s s.cfg.layers.length hS.cfg.pinned hS.dl hS.cfg.layers
    (fun st hst v hv => by rw [hnl st hst] at hv; cases hv)
  obtain ⟨a, ls, hr⟩ := resolve_total s c hco order hol
  have hf := resolve_mfrag s c hc order a ls hr
  have hnt := resolve_ne_trans s c (fun e he => (hS.cfg.depthS e he).2) _ _ _ hr
  have hd : depthA a ≤ 3998 := resolve_pred (fun a => depthA a ≤ 3998) (by decide) (by decide) s c
    hS.cfg.depthL (fun e he => (hS.cfg.depthS e he).1) order a ls hr
  obtain ⟨r, hr'⟩ := (frag_total 3998).2.1 (prelude s c) a c n false ls hf hnt (by omega)
  refine ⟨r, ?_⟩
  rw [FUEL_2]
  simp only [dequeue, hq.tde, bind, Except.bind, ho, doAction, hr]
  exact hr'

theorem main_total_M {M : Nat} {s : Layout} {down : List Coord} (h : MInv M s down) (hS : SafeM s) :
    ∃ r, tickMain s = .ok r := by
  by_cases hp : 0 < s.oneshot.pauseInputProcessingTicks
  · rw [C06.tickMain_paused h.quiet.waiting h.quiet.extra hp]; exact ⟨_, rfl⟩
  · have hp0 : s.oneshot.pauseInputProcessingTicks = 0 := by omega
    cases hq : s.queue with
    | nil => rw [C06.tickMain_empty h.quiet.waiting h.quiet.extra hp0 hq]; exact ⟨_, rfl⟩
    | cons q rest =>
      rw [C06.tickMain_pops h.quiet.waiting h.quiet.extra hp0 q rest hq]
      obtain ⟨ev, n⟩ := q
      cases ev with
      | release c => rw [dequeue_release_quiet (s := s.setQueue rest) h.quiet.osh c n]; exact ⟨_, rfl⟩
      | press c =>
        have hco : CoordOK s.cfg c := hS.queue ⟨.press c, n⟩ (by rw [hq]; exact List.mem_cons_self) c rfl
        exact dequeue_press_total_M (s := s.setQueue rest) h.cfg
          ⟨h.quiet.waiting, h.quiet.extra, h.quiet.tde, h.quiet.aq, h.quiet.osh⟩
          ⟨hS.cfg, hS.dl, fun x hx => hS.queue x (by rw [hq]; exact List.mem_cons_of_mem _ hx)⟩ h.nolayer c hco n

/-- **a tick on the macro fragment never crashes** -/
theorem tick_total_M {M : Nat} {s : Layout} {down : List Coord} (h : MInv M s down) (hS : SafeM s) :
    ∃ s' cu, tick s = .ok (s', cu) ∧ SafeM s' := by
  obtain ⟨i0, o0, q0, d0, _, _⟩ := h.pre
  have cf0 := (tickPre_spec h.quiet h.seq).1.cfg
  have S0 : SafeM (tickPre s) := by
    refine ⟨cf0 ▸ hS.cfg, by rw [cf0, d0]; exact hS.dl, ?_⟩
    intro q hq c hc
    rw [q0] at hq
    obtain ⟨y, hy, hyq⟩ := List.mem_map.mp hq
    rw [cf0]
    exact hS.queue y hy c (by rw [← hc, ← hyq])
  obtain ⟨r, hm⟩ := main_total_M i0 S0
  obtain ⟨s2, c2⟩ := r
  obtain ⟨i2, _, ⟨d2, cf2, qs2, _⟩, _⟩ := i0.main s2 c2 hm
  obtain ⟨_, p2, _, p6, _, _⟩ := psc_spec s2 (CustomEv.noEvent.update c2)
  have fr := processSequenceCustom_frame s2 (CustomEv.noEvent.update c2)
  refine ⟨(processSequenceCustom s2 (CustomEv.noEvent.update c2)).1, (processSequenceCustom s2 (CustomEv.noEvent.update c2)).2, ?_, ?_⟩
  · unfold KVerif.L.tick
    simp only [h.quiet.aq, tickOneshot_quiet i0.quiet, hm, C04.processExtraWaitings_inert i2.quiet.extra]
  · refine ⟨by rw [fr.st.cfg, cf2]; exact S0.cfg, by rw [p6, d2, fr.st.cfg, cf2]; exact S0.dl, ?_⟩
    intro q hq c hc
    rw [p2] at hq
    rw [fr.st.cfg, cf2]
    exact S0.queue q (qs2 q hq) c hc

theorem input_safe_M {M : Nat} {s : Layout} {down : List Coord} (h : MInv M s down) (hS : SafeM s) (e : Ev)
    (hq : s.queue.length < QUEUE_SIZE) (hco : ∀ c, e = .press c → CoordOK s.cfg c) :
    ∃ s', s.event e = .ok s' ∧ MInv M s' (C06.downAfter down (.ev e)) ∧ SafeM s' ∧
      s'.queue.length = s.queue.length + 1 ∧ s'.cfg = s.cfg := by
  obtain ⟨s', e1, i1, q1, _, d1, c1⟩ := h.input e hq
  refine ⟨s', e1, i1, ⟨c1 ▸ hS.cfg, by rw [c1, d1]; exact hS.dl, ?_⟩, by rw [q1]; simp, c1⟩
  intro q hq' c hc
  rw [c1]
  rw [q1] at hq'
  rcases List.mem_append.mp hq' with hq' | hq'
  · exact hS.queue q hq' c hc
  · simp only [List.mem_cons, List.mem_nil_iff, or_false] at hq'
    subst hq'
    exact hco c hc

/-- ticks without input always return a state -/
theorem quiet_total_M {M : Nat} : ∀ (N : Nat) (s : Layout) (down : List Coord), MInv M s down → SafeM s →
    ∃ s', C06.run s down (List.replicate N .tick) = some (.ok (s', down)) := by
  intro N
  induction N with
  | zero => intro s down _ _; exact ⟨s, rfl⟩
  | succ N ih =>
    intro s down h hS
    obtain ⟨s1, cu, e1, S1⟩ := tick_total_M h hS
    obtain ⟨i1, _⟩ := h.tick s1 cu e1
    obtain ⟨s', e'⟩ := ih s1 down i1 S1
    refine ⟨s', ?_⟩
    simp only [List.replicate, C06.run, C06.overflows, Bool.false_eq_true, if_false, C06.stepIn, e1, C06.downAfter]
    exact e'

/-- **a history of at most 32 events in all** (counting those already queued) on the macro fragment,
presses inside the layer tables: the run returns a state -/
theorem run_defined_M {M : Nat} : ∀ (ins : List C06.In) (s : Layout) (down : List Coord), MInv M s down → SafeM s →
    PressesOK s.cfg ins → evCount ins + s.queue.length ≤ QUEUE_SIZE →
    ∃ s', C06.run s down ins = some (.ok (s', downs down ins)) ∧ SafeM s' := by
  intro ins
  induction ins with
  | nil => intro s down _ hS _ _; exact ⟨s, rfl, hS⟩
  | cons i rest ih =>
    intro s down h hS hP hn
    cases i with
    | ev e =>
      simp only [evCount] at hn
      have hq : s.queue.length < QUEUE_SIZE := by omega
      obtain ⟨s1, e1, i1, S1, q1, c1⟩ := input_safe_M h hS e hq
        (fun c hc => hP c (by rw [hc]; exact List.mem_cons_self))
      obtain ⟨s', r1, r2⟩ := ih s1 _ i1 S1 (fun c hc => c1 ▸ hP c (List.mem_cons_of_mem _ hc)) (by omega)
      refine ⟨s', ?_, r2⟩
      have hov : C06.overflows s (.ev e) = false := by
        simp only [C06.overflows, decide_eq_false_iff_not]; omega
      simp only [C06.run, hov, Bool.false_eq_true, if_false, C06.stepIn, e1, downs]
      exact r1
    | tick =>
      simp only [evCount] at hn
      obtain ⟨s1, cu, e1, S1⟩ := tick_total_M h hS
      obtain ⟨i1, m1, ⟨_, c1, hl⟩, _⟩ := h.tick s1 cu e1
      obtain ⟨s', r1, r2⟩ := ih s1 _ i1 S1 (fun c hc => c1 ▸ hP c (List.mem_cons_of_mem _ hc)) (by omega)
      refine ⟨s', ?_, r2⟩
      simp only [C06.run, C06.overflows, Bool.false_eq_true, if_false, C06.stepIn, e1, downs]
      exact r1

/-- the run of a history on the macro fragment never ends in a crash -/
theorem run_never_crashes_M {M : Nat} : ∀ (ins : List C06.In) (s : Layout) (down : List Coord), MInv M s down →
    SafeM s → PressesOK s.cfg ins →
    C06.run s down ins = none ∨ ∃ s', C06.run s down ins = some (.ok (s', downs down ins)) ∧ SafeM s' := by
  intro ins
  induction ins with
  | nil => intro s down _ hS _; exact Or.inr ⟨s, rfl, hS⟩
  | cons i rest ih =>
    intro s down h hS hP
    simp only [C06.run, downs]
    split
    · exact Or.inl rfl
    · rename_i hov
      cases i with
      | ev e =>
        have hq : s.queue.length < QUEUE_SIZE := by
          simp only [C06.overflows, decide_eq_true_eq] at hov; omega
        obtain ⟨s1, e1, i1, S1, _, c1⟩ := input_safe_M h hS e hq
          (fun c hc => hP c (by rw [hc]; exact List.mem_cons_self))
        simp only [C06.stepIn, e1]
        exact ih s1 _ i1 S1 (fun c hc => c1 ▸ hP c (List.mem_cons_of_mem _ hc))
      | tick =>
        obtain ⟨s1, cu, e1, S1⟩ := tick_total_M h hS
        obtain ⟨i1, _, ⟨_, c1, _⟩, _⟩ := h.tick s1 cu e1
        simp only [C06.stepIn, e1]
        exact ih s1 _ i1 S1 (fun c hc => c1 ▸ hP c (List.mem_cons_of_mem _ hc))

theorem init_safe_M (cfg : LCfg) (hc : CfgSafeM cfg) (tv2 dfl qth : Bool) (osd : Nat) :
    SafeM ({ cfg := cfg, transV2 := tv2, delegateToFirstLayer := dfl, quickTapHoldTimeout := qth,
             oneshot := { pauseInputProcessingDelay := osd } } : Layout) :=
  ⟨hc, hc.layers, fun _ h => (by cases h)⟩

end KVerif.Quiesce
