/-
C08 helper lemmas about playback: `stepSequence` / `processSequences` of Model/Layout.lean.

`stepSequence` is split into what happens to the sequence (`seqStep`, independent of the layout) and
what happens to the layout (`applyEff` of the effect `seqEffect` chosen by the sequence alone); the
loop of `processSequences` and its restart clause are named (`seqLoop`, `restartRepeating`).
-/
import KVerif.Model.Layout
import KVerif.Spec.Macro
namespace KVerif.Macro
open KVerif.L

/-! ### one sequence, one tick -/

/-- the sequence's own part of `stepSequence` -/
def seqStep (q : SeqState) : SeqState :=
  if q.delay > 0 then { q with delay := q.delay - 1 }
  else match q.tapped with
    | some _ => { q with tapped := none }
    | none =>
      let q := match q.remaining with
        | e :: tail => { q with curEvent := some e, remaining := tail }
        | [] => q
      match q.curEvent with
      | some .complete => { q with remaining := [] }
      | some (.tap kc) => { q with tapped := some kc }
      | some (.delay d) => if d > 0 then { q with delay := d - 1 } else q
      | _ => q

/-- what a sequence does to the layout in one tick -/
inductive Eff
  | idle
  | untap (k : KeyCode)
  | perform (e : SeqEv)
  deriving Repr, DecidableEq

/-- the event that is processed when nothing is being counted down: the next remaining one, or
(`remaining` empty: only right after an empty sequence was started) the current one again -/
def nextEvent (q : SeqState) : Option SeqEv :=
  match q.remaining with
  | e :: _ => some e
  | [] => q.curEvent

def seqEffect (q : SeqState) : Eff :=
  if q.delay > 0 then .idle
  else match q.tapped with
    | some k => .untap k
    | none => match nextEvent q with
      | some e => .perform e
      | none => .idle

/-- a key press by a sequence: `states.push(FakeKey)`, `historical_keys.push_front`, `oneshot.handle_press(Other((0,0)))` -/
def fakePress (s : Layout) (kc : KeyCode) : Layout :=
  let s := s.pushState (.fakeKey kc)
  let s := { s with histKeys := histPush s.histKeys kc }
  (s.oshPress (.other (0, 0))).1

def applyEff (s : Layout) : Eff → Layout
  | .idle => s
  | .untap kc => { s with states := s.states.filter (·.seqRelease kc) }
  | .perform (.press kc) => fakePress s kc
  | .perform (.tap kc) => fakePress s kc
  | .perform (.release kc) =>
    let s := { s with oneshot := (s.oneshot.handleRelease (0, 0)).1 }
    { s with states := s.states.filter (·.seqRelease kc) }
  | .perform (.custom id) => s.pushState (.seqCustomPending id)
  | .perform _ => s

theorem stepSequence_eq (s : Layout) (q : SeqState) :
    stepSequence s q = (applyEff s (seqEffect q), seqStep q) := by
  unfold stepSequence seqStep seqEffect nextEvent
  by_cases hd : q.delay > 0
  · simp only [hd, if_true, applyEff]
  · simp only [hd, if_false]
    cases ht : q.tapped with
    | some kc => simp only [applyEff]
    | none =>
      cases hr : q.remaining with
      | nil =>
        simp only []
        cases hc : q.curEvent with
        | none => simp only [applyEff]
        | some e => cases e <;> simp only [applyEff, fakePress]
      | cons e tail =>
        simp only []
        cases e <;> simp only [applyEff, fakePress]

/-- effect of one event on `states` -/
def stApply (states : List St) : SeqEv → List St
  | .press k | .tap k => pushCap STATES_CAP states (.fakeKey k)
  | .release k => states.filter (·.seqRelease k)
  | .custom id => pushCap STATES_CAP states (.seqCustomPending id)
  | _ => states

def effStates (states : List St) : Eff → List St
  | .idle => states
  | .untap k => states.filter (·.seqRelease k)
  | .perform e => stApply states e

theorem oshPress_states (s : Layout) (k : OshKey) : (s.oshPress k).1.states = s.states := rfl
theorem oshPress_seqs (s : Layout) (k : OshKey) : (s.oshPress k).1.activeSequences = s.activeSequences := rfl

theorem applyEff_states (s : Layout) (e : Eff) : (applyEff s e).states = effStates s.states e := by
  cases e with
  | idle => rfl
  | untap k => rfl
  | perform ev => cases ev <;> rfl

theorem applyEff_seqs (s : Layout) (e : Eff) : (applyEff s e).activeSequences = s.activeSequences := by
  cases e with
  | idle => rfl
  | untap k => rfl
  | perform ev => cases ev <;> rfl

/-! ### the loop and the restart clause of `process_sequences` -/

/-- `if !seq.remaining_events.is_empty() { self.active_sequences.push_back(seq) }` -/
def putBack (s : Layout) (q : SeqState) : Layout :=
  if !q.remaining.isEmpty then
    { s with activeSequences := (pushBackWrap ACTIVE_SEQ_CAP s.activeSequences q).1 }
  else s

/-- the `for _ in 0..len` loop -/
def seqLoop : Nat → Layout → Layout
  | 0, s => s
  | n + 1, s =>
    match s.activeSequences with
    | [] => s
    | q :: rest => seqLoop n (putBack (applyEff { s with activeSequences := rest } (seqEffect q)) (seqStep q))

/-- the latest pressed repeating macro -/
def lastRepeating (states : List St) : Option (List SeqEv) :=
  states.reverse.findSome? (fun st => match st with | .repeatingSequence evs _ => some evs | _ => none)

/-- the restart clause -/
def restartRepeating (s : Layout) : Layout :=
  if s.activeSequences.isEmpty then
    match lastRepeating s.states with
    | some evs => { s with activeSequences := [{ remaining := evs }] }
    | none => s
  else s

theorem go_eq_seqLoop : ∀ (n : Nat) (s : Layout), processSequences.go n s = seqLoop n s := by
  intro n
  induction n with
  | zero => intro s; rfl
  | succ n ih =>
    intro s
    unfold processSequences.go seqLoop
    cases h : s.activeSequences with
    | nil => rfl
    | cons q rest =>
      simp only [stepSequence_eq]
      rw [ih]
      rfl

theorem processSequences_eq (s : Layout) :
    processSequences s = restartRepeating (seqLoop s.activeSequences.length s) := by
  unfold processSequences restartRepeating lastRepeating
  rw [go_eq_seqLoop]
  rfl

end KVerif.Macro

namespace KVerif.Macro
open KVerif.L

/-! ### one sequence over many ticks: the schedule -/

def seqRun : Nat → SeqState → SeqState
  | 0, q => q
  | n + 1, q => seqRun n (seqStep q)

/-- the effects of the next `n` ticks -/
def effs : Nat → SeqState → List Eff
  | 0, _ => []
  | n + 1, q => seqEffect q :: effs n (seqStep q)

def slotEff : Option SeqEv → Eff
  | some e => .perform e
  | none => .idle

theorem seqRun_add (a b : Nat) : ∀ q, seqRun (a + b) q = seqRun b (seqRun a q) := by
  induction a with
  | zero => intro q; simp [seqRun]
  | succ a ih => intro q; rw [Nat.succ_add]; simp only [seqRun]; exact ih _

theorem effs_add (a b : Nat) : ∀ q, effs (a + b) q = effs a q ++ effs b (seqRun a q) := by
  induction a with
  | zero => intro q; simp [effs, seqRun]
  | succ a ih => intro q; rw [Nat.succ_add]; simp only [effs, seqRun, List.cons_append]; rw [ih]

theorem effs_length (n : Nat) : ∀ q, (effs n q).length = n := by
  induction n with
  | zero => intro q; rfl
  | succ n ih => intro q; simp [effs, ih]

/-- counting a delay down: `j` idle ticks -/
theorem countdown (c : Option SeqEv) (r : List SeqEv) : ∀ j : Nat,
    effs j ⟨c, j, none, r⟩ = List.replicate j Eff.idle ∧
    seqRun j ⟨c, j, none, r⟩ = ⟨c, 0, none, r⟩ ∧
    ∀ m, m ≤ j → (seqRun m ⟨c, j, none, r⟩).remaining = r := by
  intro j
  induction j with
  | zero =>
    refine ⟨rfl, rfl, ?_⟩
    intro m hm
    have : m = 0 := by omega
    subst this; rfl
  | succ j ih =>
    have hs : seqStep ⟨c, j + 1, none, r⟩ = ⟨c, j, none, r⟩ := by
      simp [seqStep]
    have he : seqEffect ⟨c, j + 1, none, r⟩ = .idle := by
      simp [seqEffect]
    refine ⟨?_, ?_, ?_⟩
    · simp only [effs, hs, he, ih.1, List.replicate_succ]
    · simp only [seqRun, hs, ih.2.1]
    · intro m hm
      cases m with
      | zero => rfl
      | succ m => simp only [seqRun, hs]; exact ih.2.2 m (by omega)

/-- the first tick of a step event: it is performed, and the sequence is left counting down the
rest of its ticks -/
theorem first_tick (cur : Option SeqEv) (e : SeqEv) (he : isStep e = true) (r : List SeqEv) :
    seqEffect ⟨cur, 0, none, e :: r⟩ = .perform e ∧
    seqStep ⟨cur, 0, none, e :: r⟩ = ⟨some e, ticksOf e - 1, none, r⟩ := by
  cases e <;> simp only [isStep, Bool.false_eq_true] at he <;>
    simp [seqEffect, seqStep, nextEvent, ticksOf]
  rename_i d
  by_cases hd : 0 < d
  · simp [hd]; omega
  · have : d = 0 := by omega
    subst this; simp

theorem slots_length_cons (e : SeqEv) (rest : List SeqEv) :
    (slots (e :: rest)).length = 1 + (ticksOf e - 1) + (slots rest).length := by
  simp [slots]; omega

/-- **the schedule of a sequence**: started on a list of step events followed by a non-empty rest,
the sequence performs, tick by tick, exactly `slots evs` (each event on its own tick, a delay of
`d` followed by `d − 1` idle ticks), and then stands at the rest with nothing pending; it never
runs empty on the way -/
theorem effs_steps : ∀ (evs : List SeqEv), evs.all isStep = true → ∀ (cur : Option SeqEv) (rest : List SeqEv),
    rest ≠ [] →
    effs (slots evs).length ⟨cur, 0, none, evs ++ rest⟩ = (slots evs).map slotEff ∧
    (∃ cur', seqRun (slots evs).length ⟨cur, 0, none, evs ++ rest⟩ = ⟨cur', 0, none, rest⟩) ∧
    (∀ m, m ≤ (slots evs).length → (seqRun m ⟨cur, 0, none, evs ++ rest⟩).remaining ≠ []) := by
  intro evs
  induction evs with
  | nil =>
    intro _ cur rest hr
    refine ⟨rfl, ⟨cur, rfl⟩, ?_⟩
    intro m hm
    have : m = 0 := by simpa [slots] using hm
    subst this; simpa [seqRun] using hr
  | cons e evs ih =>
    intro hall cur rest hr
    simp only [List.all_cons, Bool.and_eq_true] at hall
    obtain ⟨he, hall⟩ := hall
    obtain ⟨f1, f2⟩ := first_tick cur e he (evs ++ rest)
    obtain ⟨c1, c2, c3⟩ := countdown (some e) (evs ++ rest) (ticksOf e - 1)
    obtain ⟨i1, ⟨cur', i2⟩, i3⟩ := ih hall (some e) rest hr
    have hne : evs ++ rest ≠ [] := by simp [hr]
    rw [slots_length_cons]
    refine ⟨?_, ⟨cur', ?_⟩, ?_⟩
    · rw [effs_add, effs_add]
      simp only [List.cons_append, effs, seqRun, f1, f2, c1, c2, i1, slots, List.map_cons, List.map_append,
        List.map_replicate, slotEff, List.nil_append, seqRun_add]
    · rw [seqRun_add, seqRun_add]
      simp only [List.cons_append, seqRun, f2, c2, i2]
    · intro m hm
      by_cases h0 : m = 0
      · subst h0; simp [seqRun]
      · by_cases h1 : m ≤ 1 + (ticksOf e - 1)
        · obtain ⟨m', rfl⟩ : ∃ m', m = 1 + m' := ⟨m - 1, by omega⟩
          rw [seqRun_add]
          simp only [List.cons_append, seqRun, f2]
          rw [c3 m' (by omega)]; exact hne
        · obtain ⟨m', rfl⟩ : ∃ m', m = 1 + (ticksOf e - 1) + m' := ⟨m - (1 + (ticksOf e - 1)), by omega⟩
          rw [seqRun_add, seqRun_add]
          simp only [List.cons_append, seqRun, f2, c2]
          exact i3 m' (by omega)

/-- the last tick: `Complete` empties the sequence -/
theorem complete_tick (cur : Option SeqEv) :
    seqEffect ⟨cur, 0, none, [.complete]⟩ = .perform .complete ∧
    (seqStep ⟨cur, 0, none, [.complete]⟩).remaining = [] := by
  simp [seqEffect, seqStep, nextEvent]

end KVerif.Macro

namespace KVerif.Macro
open KVerif.L

/-! ### a single active sequence in the layout -/

/-- `n` ticks of `process_sequences` -/
def runSeq : Nat → Layout → Layout
  | 0, s => s
  | n + 1, s => runSeq n (processSequences s)

/-- what `process_sequences` leaves in `active_sequences` when the loop has emptied it -/
def restartOf (states : List St) : List SeqState :=
  match lastRepeating states with
  | some evs => [{ remaining := evs }]
  | none => []

theorem restartRepeating_states (s : Layout) : (restartRepeating s).states = s.states := by
  unfold restartRepeating; split <;> (try split) <;> rfl

theorem restartRepeating_seqs (s : Layout) :
    (restartRepeating s).activeSequences =
      if s.activeSequences.isEmpty then restartOf s.states else s.activeSequences := by
  unfold restartRepeating restartOf
  split
  · split <;> simp_all
  · rfl

/-- one tick with exactly one active sequence -/
theorem single_step (s : Layout) (q : SeqState) (h : s.activeSequences = [q]) :
    (processSequences s).states = effStates s.states (seqEffect q) ∧
    (processSequences s).activeSequences =
      if (seqStep q).remaining.isEmpty then restartOf (effStates s.states (seqEffect q)) else [seqStep q] := by
  rw [processSequences_eq, h]
  simp only [List.length_cons, List.length_nil, Nat.zero_add, seqLoop, h]
  have hs := applyEff_states { s with activeSequences := [] } (seqEffect q)
  have ha := applyEff_seqs { s with activeSequences := [] } (seqEffect q)
  simp only at hs ha
  rw [restartRepeating_states, restartRepeating_seqs]
  unfold putBack
  by_cases hr : (seqStep q).remaining.isEmpty
  · simp only [hr, Bool.not_true, Bool.false_eq_true, if_false, if_true, ha, hs, List.isEmpty_nil, and_self]
  · simp only [hr, Bool.not_false, if_true, ha, hs, pushBackWrap, List.length_nil, Nat.zero_lt_succ,
      List.nil_append, List.isEmpty_cons, Bool.false_eq_true, if_false, and_self]

theorem effs_take (N : Nat) (q : SeqState) (n : Nat) (hn : n ≤ N) : (effs N q).take n = effs n q := by
  obtain ⟨k, rfl⟩ : ∃ k, N = n + k := ⟨N - n, by omega⟩
  rw [effs_add, List.take_left' (effs_length n q)]

theorem effs_succ_last (n : Nat) : ∀ q, effs (n + 1) q = effs n q ++ [seqEffect (seqRun n q)] := by
  intro q
  rw [effs_add n 1 q]
  rfl

theorem seqRun_succ_last (n : Nat) (q : SeqState) : seqRun (n + 1) q = seqStep (seqRun n q) := by
  rw [seqRun_add n 1 q]; rfl

/-- **single-sequence playback** in terms of the sequence's own effects: while the sequence does
not run empty, after `n` ticks the layout's `states` are the initial ones with the first `n` effects
applied in order, and the sequence is the only active one -/
theorem single_run (s : Layout) (q0 : SeqState) (h : s.activeSequences = [q0]) : ∀ n : Nat,
    (∀ m, 1 ≤ m → m ≤ n → (seqRun m q0).remaining ≠ []) →
    (runSeq n s).states = (effs n q0).foldl effStates s.states ∧
    (runSeq n s).activeSequences = [seqRun n q0] := by
  intro n
  induction n generalizing s q0 with
  | zero => intro _; exact ⟨rfl, h⟩
  | succ n ih =>
    intro hne
    obtain ⟨s1, s2⟩ := single_step s q0 h
    have hk : (seqStep q0).remaining.isEmpty = false := by
      have := hne 1 (by omega) (by omega)
      simp only [seqRun] at this
      cases hrem : (seqStep q0).remaining with
      | nil => exact absurd hrem this
      | cons _ _ => rfl
    rw [hk] at s2
    simp only [Bool.false_eq_true, if_false] at s2
    have := ih (processSequences s) (seqStep q0) s2 (fun m h1 h2 => by
      have := hne (m + 1) (by omega) (by omega)
      simpa [seqRun] using this)
    simp only [runSeq, effs, List.foldl_cons, seqRun]
    rw [this.1, this.2, s1]
    exact ⟨rfl, rfl⟩

end KVerif.Macro

namespace KVerif.Macro
open KVerif.L

theorem runSeq_succ_last (n : Nat) : ∀ s, runSeq (n + 1) s = processSequences (runSeq n s) := by
  induction n with
  | zero => intro s; rfl
  | succ n ih => intro s; simp only [runSeq] at ih ⊢; rw [ih]

/-- the schedule applied to `states`: each slot's event performed once, idle slots change nothing -/
def playStates (states : List St) (sl : List (Option SeqEv)) : List St :=
  sl.foldl (fun st o => effStates st (slotEff o)) states

theorem playStates_eq (states : List St) (sl : List (Option SeqEv)) :
    playStates states sl = (sl.map slotEff).foldl effStates states := by
  unfold playStates; rw [List.foldl_map]

theorem playStates_append (states : List St) (a b : List (Option SeqEv)) :
    playStates states (a ++ b) = playStates (playStates states a) b := by
  unfold playStates; rw [List.foldl_append]

theorem playStates_idle (states : List St) (n : Nat) : playStates states (List.replicate n none) = states := by
  induction n with
  | zero => rfl
  | succ n ih => simp only [List.replicate_succ, playStates, List.foldl_cons, slotEff, effStates] at ih ⊢; exact ih

/-- idle slots do nothing: playing the schedule is performing the events in order -/
theorem playStates_slots : ∀ (evs : List SeqEv) (states : List St),
    playStates states (slots evs) = evs.foldl stApply states := by
  intro evs
  induction evs with
  | nil => intro states; rfl
  | cons e rest ih =>
    intro states
    simp only [slots, List.foldl_cons]
    rw [show (some e :: List.replicate (ticksOf e - 1) none ++ slots rest) =
          [some e] ++ (List.replicate (ticksOf e - 1) none ++ slots rest) from rfl,
        playStates_append, playStates_append, playStates_idle, ih]
    rfl

end KVerif.Macro
