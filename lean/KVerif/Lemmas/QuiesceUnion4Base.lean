/-
C01 helper lemmas, part 8b: key states that may be custom actions.  The lemmas of C04 / C06 about
releases, the one-shot expiry, `process_sequences` and `process_sequence_custom` assume that every
state is a plain key or a held layer (`StOK`); here they are proved again with `Custom` states
allowed (`StOK4`): a released `Custom` state reports its release as the tick's custom event, so the
custom event of the step is existentially quantified.
-/
import KVerif.Lemmas.QuiesceUnionTick
namespace KVerif.QU3
open KVerif.L KVerif.C06 KVerif.Quiesce KVerif.QU

/-- a plain key, a held layer, or a custom action -/
def StOK4 : St → Prop
  | .normalKey _ _ f => f = 0 ∨ f = 1
  | .layerModifier _ _ => True
  | .custom _ _ => True
  | _ => False

theorem StOK4.of {st : St} (h : StOK st) : StOK4 st := by
  cases st <;> simp only [C04.StOK] at h <;> simp only [StOK4] <;> first | exact h | trivial

theorem stok4_filter {states : List St} (p : St → Bool) (h : ∀ st ∈ states, StOK4 st) :
    ∀ st ∈ states.filter p, StOK4 st := fun st hst => h st (List.mem_filter.mp hst).1

theorem stok4_coord {st : St} (h : StOK4 st) : ∃ c, st.coord = some c := by
  cases st <;> simp only [StOK4] at h <;> first | exact ⟨_, rfl⟩ | exact absurd h id

/-- releasing by coordinate removes exactly the states of that coordinate (whatever custom event results) -/
theorem releaseStates_ok4 (b : Bool) (c : Coord) : ∀ (states : List St) (cu : CustomEv), (∀ st ∈ states, StOK4 st) →
    ∃ cu', releaseStates b c states cu = (states.filter (fun st => st.coord != some c), cu') := by
  intro states
  induction states with
  | nil => intro cu _; exact ⟨cu, rfl⟩
  | cons st rest ih =>
    intro cu h
    have hst := h st (by simp)
    have hr : ∀ x ∈ rest, StOK4 x := fun x hx => h x (by simp [hx])
    cases st <;> simp only [StOK4] at hst <;> try exact absurd hst id
    · rename_i kc co f
      have hcl : (St.normalKey kc co f).clearOnNextRelease = false := by
        rcases hst with h0 | h0 <;> subst h0 <;> rfl
      obtain ⟨cu', e⟩ := ih cu hr
      refine ⟨cu', ?_⟩
      simp only [releaseStates, hcl, Bool.and_false, Bool.false_eq_true, if_false, St.release]
      by_cases hco : co = c
      · simp [hco, St.coord, e]
      · have : (co == c) = false := by simpa using hco
        simp [this, St.coord, hco, e]
    · rename_i v co
      obtain ⟨cu', e⟩ := ih cu hr
      refine ⟨cu', ?_⟩
      simp only [releaseStates, St.clearOnNextRelease, Bool.and_false, Bool.false_eq_true, if_false, St.release]
      by_cases hco : co = c
      · simp [hco, St.coord, e]
      · have : (co == c) = false := by simpa using hco
        simp [this, St.coord, hco, e]
    · rename_i id co
      by_cases hco : co = c
      · obtain ⟨cu', e⟩ := ih (cu.update (.release id)) hr
        refine ⟨cu', ?_⟩
        simp only [releaseStates, St.clearOnNextRelease, Bool.and_false, Bool.false_eq_true, if_false, St.release]
        simp [hco, St.coord, e]
      · obtain ⟨cu', e⟩ := ih cu hr
        refine ⟨cu', ?_⟩
        have : (co == c) = false := by simpa using hco
        simp only [releaseStates, St.clearOnNextRelease, Bool.and_false, Bool.false_eq_true, if_false, St.release]
        simp [this, St.coord, hco, e]

/-- **a release taken from the queue** -/
theorem dequeue_release4 {s : Layout} (hs : ∀ st ∈ s.states, StOK4 st) (c : Coord) (since : Nat) :
    ∃ cu, dequeue FUEL s ⟨.release c, since⟩ =
      .ok ({ s with oneshot := (s.oneshot.handleRelease c).1,
                    states := afterRelease s.states c (s.oneshot.handleRelease c).2.1 (s.oneshot.handleRelease c).2.2 },
           cu) := by
  rw [FUEL_succ]
  simp only [dequeue]
  generalize s.oneshot.handleRelease c = r
  obtain ⟨o, dr, ov⟩ := r
  simp only [afterRelease]
  cases dr <;> cases ov
  · exact ⟨.noEvent, rfl⟩
  · rename_i c2
    obtain ⟨cu', e⟩ := releaseStates_ok4 false c2 s.states .noEvent hs
    simp only [Bool.false_eq_true, if_false, e]
    exact ⟨cu', rfl⟩
  · obtain ⟨cu', e⟩ := releaseStates_ok4 true c s.states .noEvent hs
    simp only [if_true, e]
    exact ⟨cu', rfl⟩
  · rename_i c2
    obtain ⟨cu', e⟩ := releaseStates_ok4 true c s.states .noEvent hs
    obtain ⟨cu'', e2⟩ := releaseStates_ok4 false c2 (s.states.filter (fun st => st.coord != some c)) cu' (stok4_filter _ hs)
    simp only [if_true, e, e2]
    exact ⟨cu'', rfl⟩

/-- the loop of `tick` over the deferred releases, once `tick_osh` has cleared the active keys -/
theorem releaseOneshotKeys4 : ∀ (ks : List Coord) (s : Layout) (cu : CustomEv), (∀ st ∈ s.states, StOK4 st) →
    s.oneshot.keys = [] →
    ∃ cu', releaseOneshotKeys ks s cu = .ok ({ s with states := dropCoords ks s.states }, cu') := by
  intro ks
  induction ks with
  | nil => intro s cu _ _; exact ⟨cu, by simp only [releaseOneshotKeys, dropCoords_nil]⟩
  | cons k rest ih =>
    intro s cu hs hk
    obtain ⟨c1, e1⟩ := dequeue_release4 hs k 0
    rw [handleRelease_inactive _ k hk] at e1
    simp only [afterRelease, if_true] at e1
    obtain ⟨cu', e⟩ := ih ({ s with states := s.states.filter (fun st => st.coord != some k) } : Layout) (cu.update c1)
      (stok4_filter _ hs) hk
    refine ⟨cu', ?_⟩
    simp only [releaseOneshotKeys, e1]
    rw [e]
    simp only [dropCoords_cons]

/-- when `tick_osh` fires, every deferred release is applied in the same stage -/
theorem tickOneshot_fires4 {s : Layout} (hs : ∀ st ∈ s.states, StOK4 st) (hk : s.oneshot.keys ≠ [])
    (h : s.oneshot.releaseOnNextTick = true ∨ s.oneshot.timeout ≤ 1) :
    ∃ cu, tickOneshot s =
      .ok ({ s with oneshot := OneShotState.cleared s.oneshot, states := dropCoords s.oneshot.releasedKeys s.states }, cu) := by
  unfold tickOneshot
  rw [tick_fires _ hk h]
  simp only []
  obtain ⟨cu', e⟩ := releaseOneshotKeys4 s.oneshot.releasedKeys
    ({ s with oneshot := OneShotState.cleared s.oneshot } : Layout) .noEvent hs rfl
  exact ⟨cu', e⟩

theorem processSequences_inert4 (s : Layout) (h1 : s.activeSequences = [])
    (h2 : ∀ st ∈ s.states, StOK4 st) : processSequences s = s := by
  unfold processSequences
  simp only [h1, List.length_nil, processSequences.go, List.isEmpty_nil, if_true]
  split
  · rename_i evs heq
    exfalso
    obtain ⟨st, hst, hf⟩ := List.exists_of_findSome?_eq_some heq
    have := h2 st (List.mem_reverse.mp hst)
    cases st <;> simp only [StOK4] at this <;> first | cases hf | exact this
  · rfl

theorem processSequenceCustom_inert4 {s : Layout} (h : ∀ st ∈ s.states, StOK4 st) (cu : CustomEv) :
    processSequenceCustom s cu = (s, cu) := by
  unfold processSequenceCustom
  split
  · rfl
  · have hf : s.states.filter (· != .tombstone) = s.states := by
      apply List.filter_eq_self.mpr
      intro st hst
      have := h st hst
      cases st <;> simp only [StOK4] at this <;> first | exact absurd this id | simp
    have hgo : ∀ (l : List St), (∀ st ∈ l, StOK4 st) → processSequenceCustom.go cu l = (l, cu) := by
      intro l
      induction l with
      | nil => intro _; rfl
      | cons st rest ih =>
        intro hl
        have hst := hl st (by simp)
        have ihr := ih (fun x hx => hl x (by simp [hx]))
        cases st <;> simp only [StOK4] at hst <;> first | exact absurd hst id | simp [processSequenceCustom.go, ihr]
    simp only [hf, hgo s.states h]

end KVerif.QU3
