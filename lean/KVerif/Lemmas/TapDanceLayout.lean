/-
C17 helper lemmas, part 3: tap-dance inside the layout (`tick`, `dequeue`, `do_action`):
the lazy waiting state resolved by `tickMain`, the plain actions a dance can choose, and the eager
form (`TapDanceEagerState`, its path in `dequeue`, its countdown in `tick`).
-/
import KVerif.Lemmas.TapDanceRun
namespace KVerif.C17
open KVerif.L

theorem FUEL_two : FUEL = 3998 + 2 := rfl

/-! ## Plain actions -/

theorem doAction_keyCode (f : Nat) (s : Layout) (kc : KeyCode) (c : Coord) (d : Nat) (os : Bool) (ls : List Nat) :
    doAction (f + 2) s (.keyCode kc) c d os ls = .ok (armKeyCode (prelude s c) (.keyCode kc) kc c os, .noEvent) := by
  simp only [doAction, dispatch]

theorem doAction_layer (f : Nat) (s : Layout) (l : Nat) (c : Coord) (d : Nat) (os : Bool) (ls : List Nat) :
    doAction (f + 2) s (.layer l) c d os ls = .ok (armLayer (prelude s c) l c os, .noEvent) := by
  simp only [doAction, dispatch]

theorem prelude_fields (s : Layout) (c : Coord) :
    (prelude s c).queue = s.queue ∧ (prelude s c).waiting = s.waiting ∧
    (prelude s c).extraWaiting = s.extraWaiting ∧ (prelude s c).tapDanceEager = s.tapDanceEager ∧
    (prelude s c).states = s.states.filter (fun st => !st.clearOnNextAction) ∧
    (prelude s c).oneshot = s.oneshot := by
  unfold prelude
  split <;> exact ⟨rfl, rfl, rfl, rfl, rfl, rfl⟩

theorem updateCoord_fields (s : Layout) (c : Coord) :
    (updateCoord s c).queue = s.queue ∧ (updateCoord s c).waiting = s.waiting ∧
    (updateCoord s c).extraWaiting = s.extraWaiting ∧ (updateCoord s c).tapDanceEager = s.tapDanceEager ∧
    (updateCoord s c).states = s.states ∧ (updateCoord s c).oneshot = s.oneshot ∧
    (updateCoord s c).histKeys = s.histKeys := by
  unfold updateCoord
  split <;> exact ⟨rfl, rfl, rfl, rfl, rfl, rfl, rfl⟩

theorem oshOther_fields (s : Layout) (os : Bool) (c : Coord) :
    (oshOther s os c).1.queue = s.queue ∧ (oshOther s os c).1.waiting = s.waiting ∧
    (oshOther s os c).1.extraWaiting = s.extraWaiting ∧ (oshOther s os c).1.tapDanceEager = s.tapDanceEager ∧
    (oshOther s os c).1.states = s.states := by
  unfold oshOther
  split
  · exact ⟨rfl, rfl, rfl, rfl, rfl⟩
  · exact ⟨rfl, rfl, rfl, rfl, rfl⟩

/-- a plain key as the chosen action: the key is pressed at the coordinate (if the state table has
room), nothing is queued or dequeued, no waiting state appears -/
theorem armKeyCode_fields (s : Layout) (a : Action) (kc : KeyCode) (c : Coord) (os : Bool) :
    (armKeyCode s a kc c os).queue = s.queue ∧ (armKeyCode s a kc c os).waiting = s.waiting ∧
    (armKeyCode s a kc c os).extraWaiting = s.extraWaiting ∧
    (armKeyCode s a kc c os).tapDanceEager = s.tapDanceEager ∧
    (armKeyCode s a kc c os).states = pushCap STATES_CAP s.states (.normalKey kc c 0) := by
  obtain ⟨u1, u2, u3, u4, u5, _, _⟩ := updateCoord_fields s c
  unfold armKeyCode
  simp only []
  split <;>
  · simp only [(oshOther_fields _ os c).1, (oshOther_fields _ os c).2.1, (oshOther_fields _ os c).2.2.1,
      (oshOther_fields _ os c).2.2.2.1, (oshOther_fields _ os c).2.2.2.2, Layout.pushState, u1, u2, u3, u4, u5]
    exact ⟨trivial, trivial, trivial, trivial, trivial⟩

theorem armLayer_fields (s : Layout) (l : Nat) (c : Coord) (os : Bool) :
    (armLayer s l c os).queue = s.queue ∧ (armLayer s l c os).waiting = s.waiting ∧
    (armLayer s l c os).extraWaiting = s.extraWaiting ∧
    (armLayer s l c os).tapDanceEager = s.tapDanceEager ∧
    (armLayer s l c os).states = pushCap STATES_CAP s.states (.layerModifier l c) := by
  unfold armLayer
  obtain ⟨u1, u2, u3, u4, u5, _, _⟩ := updateCoord_fields s c
  obtain ⟨o1, o2, o3, o4, o5⟩ := oshOther_fields ((updateCoord s c).pushState (.layerModifier l c)) os c
  exact ⟨o1.trans u1, o2.trans u2, o3.trans u3, o4.trans u4,
    o5.trans (by show pushCap _ (updateCoord s c).states _ = _; rw [u5])⟩

theorem tapPost_fields (s : Layout) :
    (tapPost s).queue = s.queue ∧ (tapPost s).waiting = s.waiting ∧ (tapPost s).extraWaiting = s.extraWaiting ∧
    (tapPost s).tapDanceEager = s.tapDanceEager ∧ (tapPost s).states = s.states := ⟨rfl, rfl, rfl, rfl, rfl⟩

/-! ## The lazy form in `tick` -/

/-- **one tick of the layout with a lazy tap-dance pending**: either nothing but the waiting state's
countdown / count / memo changes (no output, queue untouched), or the waiting state is consumed,
the first `n − 1` releases and all presses of the key leave the queue, and EXACTLY ONE `do_action`
runs: on the action listed for the decided count `n`, at the key's coordinate, with the layers
active when it was pressed; a panic only for an empty list. -/
theorem lazy_tick_cases (s : Layout) (w : Waiting) (acts : List Action) (T k : Nat)
    (hw : s.waiting = some w) (hc : w.config = .tapDance acts T k) :
    (decidesOn (cd w) acts.length k s.queue = none ∧
      ∃ w', tickMain s = .ok ({ s with waiting := some w' }, .noEvent) ∧ w'.coord = w.coord ∧
        w'.tap = w.tap ∧ w'.layerStack = w.layerStack ∧ ∃ n, w'.config = .tapDance acts T n) ∨
    (∃ n, decidesOn (cd w) acts.length k s.queue = some n ∧
      ((∃ a, tdPick acts n = some a ∧
          tickMain s =
            match doAction FUEL { s with waiting := none, queue := evictTaps w n s.queue }
                a w.coord 0 false w.layerStack with
            | .error e => .error e
            | .ok (s1, cu) => .ok (tapPost s1, cu)) ∨
       (acts = [] ∧ tickMain s = .error (.indexOOB "tap-dance actions")))) := by
  have hcases := tickWtTd_cases (cd w) acts T k s.queue
  unfold tickMain
  simp only [hw, tickWt_td w acts T k hc]
  cases hd : decidesOn (cd w) acts.length k s.queue with
  | none =>
    left
    obtain ⟨w', hw'⟩ := hcases.2.2 hd
    obtain ⟨f1, _, _, _, _, f6, _, f8, _, f10⟩ := tickWtTd_fields hw'
    refine ⟨rfl, w', ?_, f1, (f8 rfl).1, f6, f10⟩
    rw [hw']
    simp only [Option.map_none, applyWaitingAction]
  | some n =>
    right
    refine ⟨n, rfl, ?_⟩
    rcases hcases.2.1 n hd with ⟨a, ha, w', hw', hta⟩ | ⟨he, hcr⟩
    · left
      refine ⟨a, ha, ?_⟩
      obtain ⟨f1, _, _, _, _, f6, _, _, _, ⟨m, f10⟩⟩ := tickWtTd_fields hw'
      rw [hw']
      simp only [Option.map_some, applyWaitingAction, waitingIntoTap, takeWaiting, Option.map_some,
        waitingDelay, f10, hta, f1, f6]
      rw [evictTaps_coord_congr (show (cd w).coord = w.coord from rfl)]
      rfl
    · right
      exact ⟨he, by rw [hcr]⟩

/-! ## The eager form -/

/-- a live eager state always has a next action: the index in `dequeue` cannot go out of bounds -/
theorem eager_live_index_ok {t : TDE} (h : t.isExpired = false) : ∃ a, t.actions[t.numTaps]? = some a := by
  unfold TDE.isExpired at h
  simp only [Bool.or_eq_false_iff, decide_eq_false_iff_not, Nat.not_le] at h
  exact ⟨t.actions[t.numTaps], List.getElem?_eq_getElem h.2⟩

/-- **each tap of a live eager dance performs its own action**: the press of the dance key while
the eager state is live runs `actions[num_taps]` (one `do_action`, at the key's coordinate), then
the count goes up by one and the countdown restarts -/
theorem eager_tap (f : Nat) (s : Layout) (t : TDE) (c : Coord) (since : Nat) (order : List Nat)
    (ht : s.tapDanceEager = some t) (hc : c = s.lptCoord) (hlive : t.isExpired = false)
    (ho : s.transOrder = .ok order) :
    ∃ a, t.actions[t.numTaps]? = some a ∧
      dequeue (f + 1) s ⟨.press c, since⟩ =
        match doAction f s a c since false (order.drop 1) with
        | .error e => .error e
        | .ok (s1, cu) => .ok ({ s1 with tapDanceEager := s1.tapDanceEager.map TDE.incrTaps }, cu) := by
  obtain ⟨a, ha⟩ := eager_live_index_ok hlive
  refine ⟨a, ha, ?_⟩
  have hcb : (c == s.lptCoord) = true := by rw [hc]; exact beq_self_eq_true _
  simp only [dequeue, bind, Except.bind, ho, ht, hcb, hlive, Bool.not_false, Bool.and_self, if_true, ha,
    pure, Except.pure]
  cases doAction f s a c since false (order.drop 1) with
  | error e => rfl
  | ok r => rfl

theorem incrTaps_fields (t : TDE) :
    t.incrTaps.numTaps = t.numTaps + 1 ∧ t.incrTaps.timeout = t.origTimeout ∧
    t.incrTaps.origTimeout = t.origTimeout ∧ t.incrTaps.actions = t.actions ∧ t.incrTaps.coord = t.coord :=
  ⟨rfl, rfl, rfl, rfl, rfl⟩

/-- **another real key ends the eager dance**: a press of any other real key (or of the dance key
once the state has expired) marks the state expired before its own action runs -/
theorem eager_other_key (f : Nat) (s : Layout) (t : TDE) (c : Coord) (since : Nat) (order : List Nat)
    (ht : s.tapDanceEager = some t) (hc : c ≠ s.lptCoord ∨ t.isExpired = true) (hreal : c.1 = 0)
    (ho : s.transOrder = .ok order) :
    dequeue (f + 1) s ⟨.press c, since⟩ =
      doAction f { s with tapDanceEager := some t.setExpired } .trans c since false order ∧
    t.setExpired.isExpired = true ∧ tdeTick t.setExpired = none := by
  have hcond : (c == s.lptCoord && !t.isExpired) = false := by
    rcases hc with h | h
    · have : (c == s.lptCoord) = false := by simpa using h
      simp [this]
    · simp [h]
  refine ⟨?_, ?_, ?_⟩
  · have hr : (c.1 == 0) = true := by simp [hreal]
    simp only [dequeue, bind, Except.bind, ho, ht, hcond, Bool.false_eq_true, if_false, hr, if_true]
  · simp [TDE.isExpired, TDE.setExpired]
  · simp [tdeTick, TDE.tick, TDE.isExpired, TDE.setExpired]

/-- `armEager`: a fresh state (count 1, countdown `T`) unless one for the same coordinate exists -/
theorem armEager_fresh (s : Layout) (c : Coord) (acts : List Action) (T : Nat)
    (h : s.tapDanceEager = none ∨ ∃ t, s.tapDanceEager = some t ∧ t.coord ≠ c) :
    (armEager s c acts T).tapDanceEager =
      some { coord := c, actions := acts, timeout := T, origTimeout := T, numTaps := 1 } := by
  unfold armEager
  have hu := (updateCoord_fields s c).2.2.2.1
  rcases h with h | ⟨t, h, hne⟩
  · simp only [hu, h]
  · simp only [hu, h]
    have : (t.coord != c) = true := by simpa using hne
    simp only [this, if_true]

/-- **the first press of an eager dance** performs the first listed action (one `do_action`); it
panics exactly when the list is empty -/
theorem eager_first_press (f : Nat) (s : Layout) (acts : List Action) (T : Nat) (c : Coord) (d : Nat)
    (os : Bool) (ls : List Nat) :
    dispatch (f + 1) s (.tapDance acts T true) c d os ls =
      match acts[0]? with
      | none => .error (.indexOOB "td.actions[0]")
      | some a0 =>
        match doAction f (armEager s c acts T) a0 c d false ls with
        | .error e => .error e
        | .ok r => .ok (r.1, .noEvent) := by
  simp only [dispatch, Bool.not_true, Bool.false_eq_true, if_false]
  rfl

theorem eager_empty_list_crashes (f : Nat) (s : Layout) (T : Nat) (c : Coord) (d : Nat) (os : Bool) (ls : List Nat) :
    dispatch (f + 1) s (.tapDance [] T true) c d os ls = .error (.indexOOB "td.actions[0]") := by
  rw [eager_first_press]; rfl

/-- `n` ticks of the eager countdown -/
def tdeTicks : Nat → Option TDE → Option TDE
  | 0, o => o
  | n + 1, o => tdeTicks n (o.bind tdeTick)

theorem tdeTicks_none (n : Nat) : tdeTicks n none = none := by
  induction n with
  | zero => rfl
  | succ n ih => simpa [tdeTicks] using ih

/-- **the eager dance expires exactly `T` ticks after the last tap** (if the list is not exhausted):
still live, with `T − n` to go, after `n < T` ticks; forgotten on the `T`-th -/
theorem eager_expiry_exact : ∀ (T : Nat) (t : TDE), t.timeout = T → 1 ≤ T → t.numTaps < t.actions.length →
    (∀ n, n < T → tdeTicks n (some t) = some { t with timeout := T - n }) ∧
    (∀ n, T ≤ n → tdeTicks n (some t) = none) := by
  intro T
  induction T with
  | zero => intro t _ h; omega
  | succ T ih =>
    intro t ht _ hn
    by_cases hT : T = 0
    · subst hT
      have h1 : tdeTick t = none := by
        simp [tdeTick, TDE.tick, TDE.isExpired, ht]
      refine ⟨fun n hn' => ?_, fun n hn' => ?_⟩
      · have : n = 0 := by omega
        subst this
        simp only [tdeTicks, Nat.sub_zero]
        cases t; simp_all
      · obtain ⟨m, rfl⟩ : ∃ m, n = m + 1 := ⟨n - 1, by omega⟩
        simp only [tdeTicks, Option.bind_some, h1, tdeTicks_none]
    · have h1 : tdeTick t = some { t with timeout := T } := by
        have hne : ¬ (T = 0) := hT
        have hlt : ¬ (t.actions.length ≤ t.numTaps) := by omega
        simp [tdeTick, TDE.tick, TDE.isExpired, ht, hne, hlt]
      obtain ⟨i1, i2⟩ := ih { t with timeout := T } rfl (by omega) hn
      refine ⟨fun n hn' => ?_, fun n hn' => ?_⟩
      · cases n with
        | zero => simp only [tdeTicks, Nat.sub_zero]; cases t; simp_all
        | succ m =>
          simp only [tdeTicks, Option.bind_some, h1]
          rw [i1 m (by omega)]
          congr 2
          omega
      · obtain ⟨m, rfl⟩ : ∃ m, n = m + 1 := ⟨n - 1, by omega⟩
        simp only [tdeTicks, Option.bind_some, h1]
        exact i2 m (by omega)

/-- **list exhausted**: once every listed action has been performed the state is forgotten on the
next tick, so the next press starts over with the first action -/
theorem eager_exhausted (t : TDE) (h : t.actions.length ≤ t.numTaps) : tdeTick t = none := by
  simp [tdeTick, TDE.tick, TDE.isExpired, h]

/-! ### The eager countdown inside `tick` -/

theorem oshPress_tde (s : Layout) (k : OshKey) : (s.oshPress k).1.tapDanceEager = s.tapDanceEager := rfl

theorem stepSequence_tde (s : Layout) (seq : SeqState) :
    (stepSequence s seq).1.tapDanceEager = s.tapDanceEager := by
  unfold stepSequence
  split
  · rfl
  · split
    · rfl
    · simp only []
      split <;> rfl

theorem processSequences_go_tde : ∀ (n : Nat) (s : Layout),
    (processSequences.go n s).tapDanceEager = s.tapDanceEager
  | 0, _ => rfl
  | n + 1, s => by
    unfold processSequences.go
    split
    · rfl
    · rename_i seq rest _
      simp only []
      rw [processSequences_go_tde n]
      split
      · exact stepSequence_tde _ seq
      · exact stepSequence_tde _ seq

theorem processSequences_tde (s : Layout) : (processSequences s).tapDanceEager = s.tapDanceEager := by
  unfold processSequences
  simp only []
  split
  · split
    · exact processSequences_go_tde _ s
    · exact processSequences_go_tde _ s
  · exact processSequences_go_tde _ s

/-- **in `tick` the eager state is counted down exactly once per tick**, before any event is
dequeued, whatever else the tick does (sequences, histories) -/
theorem tickPre_tde (s : Layout) : (tickPre s).tapDanceEager = s.tapDanceEager.bind tdeTick := by
  unfold tickPre
  simp only []
  rw [processSequences_tde]
  cases h : s.tapDanceEager <;> simp [h]

end KVerif.C17
