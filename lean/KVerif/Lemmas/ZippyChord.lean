/-
Lemmas for `zippy_net_text_basic`: what a lookup returns for subsets of a chord that has no shorter
competitor, what one press does while the chord is forming, what the completing press does, and
what a tick does while forming.
-/
import KVerif.Lemmas.ZippySsm
import KVerif.Lemmas.ZippySend
namespace KVerif.Zippy
open KVerif.TextBuf

/-! ### Lookups through the faithful SubsetMap, read off the entry list -/

theorem lookupLevel_eq (d : Dict) (p : Path) (k : Key) :
    lookupLevel d p k = lookupSpec (level d p) k := by
  unfold lookupLevel levelSsm
  have h := (rep_of (level d p)).get k
  unfold ssmOf at h
  rw [h, absGet_absOf]

theorem lastInsert_some_mem {V : Type} {ins : List (Key × V)} {k : Key} {v : V}
    (h : lastInsert ins k = some v) : (k, v) ∈ ins ∧ k ≠ [] := by
  unfold lastInsert at h
  cases hf : List.find? (fun kv => decide (kv.1 = k) && !kv.1.isEmpty) ins.reverse with
  | none => simp [hf] at h
  | some kv =>
    simp only [hf, Option.map_some, Option.some.injEq] at h
    have h1 := List.find?_some hf
    have h2 := List.mem_of_find?_eq_some hf
    simp only [Bool.and_eq_true, decide_eq_true_eq, Bool.not_eq_true', List.isEmpty_eq_false_iff] at h1
    obtain ⟨hk, hne⟩ := h1
    subst h
    constructor
    · rw [← hk]; simpa using h2
    · rw [← hk]; exact hne

theorem lastInsert_none_of_not_mem {V : Type} {ins : List (Key × V)} {k : Key}
    (h : ∀ kv ∈ ins, kv.1 ≠ k) : lastInsert ins k = none := by
  unfold lastInsert
  have : List.find? (fun kv => decide (kv.1 = k) && !kv.1.isEmpty) ins.reverse = none := by
    simp only [List.find?_eq_none, List.mem_reverse]
    intro x hx
    simp [h x hx]
  rw [this]; rfl

/-- The value stored under a key that occurs exactly once (with a non-empty key). -/
theorem lastInsert_unique {V : Type} {ins : List (Key × V)} {k : Key} {v : V}
    (hmem : (k, v) ∈ ins) (hne : k ≠ []) (huniq : ∀ v', (k, v') ∈ ins → v' = v) :
    lastInsert ins k = some v := by
  cases h : lastInsert ins k with
  | some v' =>
    have := (lastInsert_some_mem h).1
    rw [huniq v' this]
  | none =>
    exfalso
    unfold lastInsert at h
    simp only [Option.map_eq_none_iff, List.find?_eq_none, List.mem_reverse] at h
    have := h (k, v) hmem
    simp [hne] at this

theorem lookupLevel_hasValue_mem {d : Dict} {p : Path} {k : Key} {a : List ZchOut}
    (h : lookupLevel d p k = .hasValue a) : ∃ n ∈ d, n.out = a := by
  rw [lookupLevel_eq] at h
  unfold lookupSpec at h
  cases hl : lastInsert (level d p) k with
  | none =>
    rw [hl] at h
    simp only at h
    split at h <;> cases h
  | some v =>
    rw [hl] at h
    simp only [Lookup.hasValue.injEq] at h
    subst h
    have := (lastInsert_some_mem hl).1
    simp only [level, List.mem_map, List.mem_filter] at this
    obtain ⟨n, ⟨hn, _⟩, heq⟩ := this
    exact ⟨n, hn, by simpa using (Prod.mk.inj heq).2⟩

theorem isSubsetOf_iff (a b : Key) : isSubsetOf a b = true ↔ ∀ x ∈ a, x ∈ b := by
  simp [isSubsetOf, List.all_eq_true]

/-- A top-level chord `K` with expansion `out`, stored once, and no other top-level chord whose
keys all lie in `K`. -/
structure BasicEntry (d : Dict) (K : Key) (out : List ZchOut) : Prop where
  mem : (K, out) ∈ level d []
  ne : K ≠ []
  sorted : StrictSorted K
  uniq : ∀ out', (K, out') ∈ level d [] → out' = out
  noShorter : ∀ kv ∈ level d [], isSubsetOf kv.1 K = true → kv.1 = K

theorem BasicEntry.lookup_full {d : Dict} {K : Key} {out : List ZchOut} (h : BasicEntry d K out) :
    lookupLevel d [] K = .hasValue out := by
  rw [lookupLevel_eq]
  unfold lookupSpec
  rw [lastInsert_unique h.mem h.ne h.uniq]

theorem BasicEntry.lookup_part {d : Dict} {K : Key} {out : List ZchOut} (h : BasicEntry d K out)
    (S : Key) (hsub : ∀ x ∈ S, x ∈ K) (hneq : S ≠ K) :
    lookupLevel d [] S = .isSubset := by
  rw [lookupLevel_eq]
  unfold lookupSpec
  have hnone : lastInsert (level d []) S = none := by
    apply lastInsert_none_of_not_mem
    intro kv hkv heq
    have := h.noShorter kv hkv (by rw [heq]; exact (isSubsetOf_iff S K).mpr hsub)
    exact hneq (heq ▸ this)
  rw [hnone]
  have hany : (level d []).any (fun kv => !kv.1.isEmpty && isSubsetOf S kv.1) = true := by
    simp only [List.any_eq_true]
    refine ⟨(K, out), h.mem, ?_⟩
    simp only [Bool.and_eq_true, Bool.not_eq_true', List.isEmpty_eq_false_iff]
    exact ⟨h.ne, (isSubsetOf_iff S K).mpr hsub⟩
  simp [hany]

theorem BasicEntry.root_nonempty {d : Dict} {K : Key} {out : List ZchOut} (h : BasicEntry d K out) :
    ssmIsEmpty (levelSsm d []) = false := by
  have hfull := h.lookup_full
  unfold lookupLevel at hfull
  unfold ssmIsEmpty
  cases hm : levelSsm d [] with
  | nil =>
    rw [hm] at hfull
    obtain _ | ⟨k0, r⟩ := K
    · exact absurd rfl h.ne
    · simp [ssmGet, mapGet] at hfull
  | cons a r => rfl

/-! ### One press while the chord is forming, and the completing press -/

theorem not_ignored_ne {k : Nat} (h : isZippyIgnored k = false) :
    k ≠ KEY_LEFTSHIFT ∧ k ≠ KEY_RIGHTSHIFT ∧ k ≠ KEY_RIGHTALT ∧ k ≠ KEY_BACKSPACE ∧ CharKey k := by
  simp only [isZippyIgnored, zippyIgnored, List.contains_eq_mem, List.mem_cons, List.not_mem_nil,
    or_false, decide_eq_false_iff_not, not_or] at h
  refine ⟨?_, ?_, ?_, ?_, ?_, ?_, ?_, ?_⟩ <;>
    simp [KEY_LEFTSHIFT, KEY_RIGHTSHIFT, KEY_RIGHTALT, KEY_BACKSPACE, otherMods] <;> omega

/-- The part of `zch_press_key` before the lookup, for a key that is not ignored while enabled. -/
def preLookup (cfg : Cfg) (s : Zchd) (k : Nat) : Zchd :=
  { s with smartSpaceState := .inactive,
           ticksUntilDisable := if s.ticksUntilDisable = 0 then cfg.ticksChordDeadline else s.ticksUntilDisable,
           ticksSinceStateChange := 0,
           ticksUntilEnabled := cfg.ticksWaitEnable,
           inputKeys := sortedInsert k s.inputKeys }

/-- whether the punctuation erasure of the smart space applies to this press -/
def punctFires (cfg : Cfg) (s : Zchd) (k : Nat) : Bool :=
  s.smartSpaceState = .sent && cfg.punctuation.contains (puncOf s k)

theorem punctStage_none (cfg : Cfg) (s : Zchd) (k : Nat)
    (hss : s.smartSpaceState = .inactive ∨ cfg.punctuation.contains (puncOf s k) = false) :
    punctStage cfg s k = (s, []) := by
  unfold punctStage
  have : (s.smartSpaceState = .sent && cfg.punctuation.contains (puncOf s k)) = false := by
    rcases hss with h | h
    · simp [h]
    · simp only [h, Bool.and_false]
  rw [this]; rfl

theorem punctFires_false_iff (cfg : Cfg) (s : Zchd) (k : Nat) :
    punctFires cfg s k = false ↔
      (s.smartSpaceState = .inactive ∨ cfg.punctuation.contains (puncOf s k) = false) := by
  unfold punctFires
  cases hs : s.smartSpaceState <;> cases hc : cfg.punctuation.contains (puncOf s k) <;> simp [hs, hc]

/-- the state the punctuation erasure leaves -/
def punctState (s : Zchd) : Zchd :=
  { s with charsToDelete := if s.inputKeys.isEmpty then s.charsToDelete else s.charsToDelete - 1,
           priorActivationOutputCount :=
             if s.prioritized.isSome then s.priorActivationOutputCount - 1 else s.priorActivationOutputCount }

theorem punctStage_fires (cfg : Cfg) (s : Zchd) (k : Nat) (h : punctFires cfg s k = true) :
    punctStage cfg s k = (punctState s, bspc) := by
  unfold punctStage punctState
  unfold punctFires at h
  rw [if_pos h]
  cases hi : s.inputKeys.isEmpty <;> cases hp : s.prioritized.isSome <;> simp [hi, hp]

theorem enterKey_eq (cfg : Cfg) (s : Zchd) (k : Nat) :
    enterKey cfg { s with smartSpaceState := .inactive } k = preLookup cfg s k := by
  unfold enterKey preLookup Zchd.activateChordDeadline Zchd.stateChange
  by_cases h : s.ticksUntilDisable = 0 <;> simp [h]

theorem findChordK_none (cfg : Cfg) (keys : Key) :
    findChordK cfg none keys =
      match lookupLevel cfg.dict [] keys with
      | .hasValue a => .top a
      | .isSubset => .subset
      | .neither => .neither := by
  unfold findChordK
  simp only
  cases lookupLevel cfg.dict [] keys <;> simp

theorem findChord_top (cfg : Cfg) (s : Zchd) (hpr : s.prioritized = none) :
    findChord cfg s =
      match lookupLevel cfg.dict [] s.inputKeys with
      | .hasValue a => .top a
      | .isSubset => .subset
      | .neither => .neither := by
  unfold findChord
  rw [hpr, findChordK_none]

/-- the activation a lookup result stands for: (map it was found in, output, prioritised?) -/
def Found.act : Found → Option (Path × List ZchOut × Bool)
  | .prio p a => some (p, a, true)
  | .top a => some ([], a, false)
  | _ => none

/-- The press of a key that is not ignored, while enabled, without the punctuation erasure. -/
theorem press_enabled (cfg : Cfg) (s : Zchd) (k : Nat)
    (hne : ssmIsEmpty (levelSsm cfg.dict []) = false)
    (hk : isZippyIgnored k = false)
    (hen : s.enabledState = .enabled)
    (hss : s.smartSpaceState = .inactive ∨ cfg.punctuation.contains (puncOf s k) = false) :
    zchPressKey cfg s k =
      match findChord cfg (preLookup cfg s k) with
      | .prio p a => ((activate cfg (preLookup cfg s k) k a p true).1, (activate cfg (preLookup cfg s k) k a p true).2)
      | .top a => ((activate cfg (preLookup cfg s k) k a [] false).1, (activate cfg (preLookup cfg s k) k a [] false).2)
      | .subset =>
        ({ preLookup cfg s k with lastPress := .notChord, charsToDelete := (preLookup cfg s k).charsToDelete + 1 },
         [.down k])
      | .neither => ((preLookup cfg s k).softReset, [.down k]) := by
  obtain ⟨h1, h2, h3, _, _⟩ := not_ignored_ne hk
  unfold zchPressKey
  simp only [hne, h1, h2, h3, hk, if_false, Bool.false_eq_true, punctStage_none cfg s k hss, List.nil_append]
  have hen' : ¬ ({ s with smartSpaceState := SmartSpaceState.inactive } : Zchd).enabledState ≠ .enabled := by
    simp [hen]
  rw [if_neg hen', enterKey_eq]
  cases findChord cfg (preLookup cfg s k) <;> rfl

/-- With the punctuation erasure: the same press from the state the erasure leaves, after the
backspace. -/
theorem press_punct (cfg : Cfg) (s : Zchd) (k : Nat)
    (hne : ssmIsEmpty (levelSsm cfg.dict []) = false) (hk : isZippyIgnored k = false)
    (h : punctFires cfg s k = true) :
    zchPressKey cfg s k =
      ((zchPressKey cfg { punctState s with smartSpaceState := .inactive } k).1,
       bspc ++ (zchPressKey cfg { punctState s with smartSpaceState := .inactive } k).2) := by
  obtain ⟨h1, h2, h3, _, _⟩ := not_ignored_ne hk
  have hnone : punctStage cfg { punctState s with smartSpaceState := .inactive } k =
      ({ punctState s with smartSpaceState := .inactive }, []) := punctStage_none _ _ _ (Or.inl rfl)
  unfold zchPressKey
  simp only [hne, h1, h2, h3, hk, if_false, Bool.false_eq_true, punctStage_fires cfg s k h, hnone,
    List.nil_append]
  split
  · simp
  · cases findChord cfg (enterKey cfg { punctState s with smartSpaceState := SmartSpaceState.inactive } k) <;> simp

theorem press_subset (cfg : Cfg) (s : Zchd) (k : Nat)
    (hne : ssmIsEmpty (levelSsm cfg.dict []) = false)
    (hk : isZippyIgnored k = false)
    (hen : s.enabledState = .enabled)
    (hss : s.smartSpaceState = .inactive ∨ cfg.punctuation.contains (puncOf s k) = false)
    (hfc : findChordK cfg s.prioritized (sortedInsert k s.inputKeys) = .subset) :
    zchPressKey cfg s k =
      ({ preLookup cfg s k with lastPress := .notChord, charsToDelete := s.charsToDelete + 1 },
       [.down k]) := by
  rw [press_enabled cfg s k hne hk hen hss]
  have : findChord cfg (preLookup cfg s k) = .subset := by simpa [findChord, preLookup] using hfc
  rw [this]
  rfl

theorem press_found (cfg : Cfg) (s : Zchd) (k : Nat) (out : List ZchOut) (ctx : Path) (isPrio : Bool)
    (hne : ssmIsEmpty (levelSsm cfg.dict []) = false)
    (hk : isZippyIgnored k = false)
    (hen : s.enabledState = .enabled)
    (hss : s.smartSpaceState = .inactive ∨ cfg.punctuation.contains (puncOf s k) = false)
    (hfc : (findChordK cfg s.prioritized (sortedInsert k s.inputKeys)).act = some (ctx, out, isPrio)) :
    zchPressKey cfg s k = activate cfg (preLookup cfg s k) k out ctx isPrio := by
  rw [press_enabled cfg s k hne hk hen hss]
  have : findChord cfg (preLookup cfg s k) = findChordK cfg s.prioritized (sortedInsert k s.inputKeys) := by
    simp [findChord, preLookup]
  rw [this]
  cases hf : findChordK cfg s.prioritized (sortedInsert k s.inputKeys) with
  | prio p a =>
    rw [hf] at hfc; simp only [Found.act, Option.some.injEq, Prod.mk.injEq] at hfc
    obtain ⟨rfl, rfl, rfl⟩ := hfc; rfl
  | top a =>
    rw [hf] at hfc; simp only [Found.act, Option.some.injEq, Prod.mk.injEq] at hfc
    obtain ⟨rfl, rfl, rfl⟩ := hfc; rfl
  | subset => rw [hf] at hfc; simp [Found.act] at hfc
  | neither => rw [hf] at hfc; simp [Found.act] at hfc

end KVerif.Zippy
