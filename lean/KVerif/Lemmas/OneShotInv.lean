/-
C06 helper lemmas, part 5: the invariant `Inv` (no stranded state) is preserved by every event and
every tick of the layout model on the C06 fragment.
-/
import KVerif.Lemmas.OneShotRun
namespace KVerif.C06
open KVerif.L

/-! ### what the `OneShotState` operations keep -/

theorem handlePress_other_fields (o : OneShotState) (c : Coord) :
    (o.handlePress (.other c)).1.keys = o.keys ∧
    (o.handlePress (.other c)).1.releasedKeys = o.releasedKeys ∧
    (o.handlePress (.other c)).1.releaseOnNextTick = o.releaseOnNextTick ∧
    (o.handlePress (.other c)).1.ticksToIgnoreEvents = o.ticksToIgnoreEvents ∧
    (o.handlePress (.other c)).1.endConfig = o.endConfig ∧
    (o.handlePress (.other c)).1.pauseInputProcessingDelay = o.pauseInputProcessingDelay := by
  unfold OneShotState.handlePress
  split
  · exact ⟨rfl, rfl, rfl, rfl, rfl, rfl⟩
  · simp only []
    split <;> exact ⟨rfl, rfl, rfl, rfl, rfl, rfl⟩

theorem handlePress_osk_fields (o : OneShotState) (c : Coord) :
    (o.handlePress (.oneShotKey c)).1.keys = o.keys ∧
    (o.handlePress (.oneShotKey c)).1.ticksToIgnoreEvents = o.ticksToIgnoreEvents ∧
    (o.handlePress (.oneShotKey c)).1.pauseInputProcessingDelay = o.pauseInputProcessingDelay ∧
    (∀ x ∈ o.releasedKeys, x ∈ (o.handlePress (.oneShotKey c)).1.releasedKeys ∨ x = c) ∧
    (∀ x ∈ (o.handlePress (.oneShotKey c)).1.releasedKeys, x ∈ o.releasedKeys) ∧
    (o.ticksToIgnoreEvents = 0 → c ∈ (o.handlePress (.oneShotKey c)).1.releasedKeys → o.keys = []) := by
  unfold OneShotState.handlePress
  split
  · rename_i h
    refine ⟨rfl, rfl, rfl, fun x hx => Or.inl hx, fun x hx => hx, ?_⟩
    intro h0 _
    simpa [h0] using h
  · simp only []
    refine ⟨?_, ?_, ?_, ?_, ?_, ?_⟩
    · split <;> rfl
    · split <;> rfl
    · split <;> rfl
    · intro x hx
      by_cases hxc : x = c
      · exact Or.inr hxc
      · left
        split <;> exact List.mem_filter.mpr ⟨hx, by simpa using hxc⟩
    · intro x hx
      split at hx <;> exact (List.mem_filter.mp hx).1
    · intro _ hx
      split at hx <;> simp at hx

theorem activate_fields (o : OneShotState) (c : Coord) (T : Nat) (v : OneShotEnd) :
    (activate o c T v).keys ≠ [] ∧ (activate o c T v).timeout = T ∧ (activate o c T v).endConfig = v ∧
    (activate o c T v).ticksToIgnoreEvents = o.ticksToIgnoreEvents ∧
    (activate o c T v).pauseInputProcessingDelay = o.pauseInputProcessingDelay ∧
    (activate o c T v).releasedKeys = (o.handlePress (.oneShotKey c)).1.releasedKeys ∧
    (activate o c T v).releaseOnNextTick = (o.handlePress (.oneShotKey c)).1.releaseOnNextTick ∧
    (activate o c T v).keys = (pushBackWrap ONE_SHOT_MAX_ACTIVE o.keys c).1 := by
  obtain ⟨f1, f2, f3, _⟩ := handlePress_osk_fields o c
  unfold activate
  refine ⟨?_, ?_, ?_, f2, f3, ?_, ?_, by rw [← f1]⟩
  · exact pushBackWrap_ne_nil _ (by decide) _ _
  all_goals rfl

theorem OshOp.keeps {o o' : OneShotState} {c : Coord} {ov : Option Coord} (h : OshOp o c o' ov) :
    o'.ticksToIgnoreEvents = o.ticksToIgnoreEvents ∧
    o'.pauseInputProcessingDelay = o.pauseInputProcessingDelay ∧
    (∀ x ∈ o.releasedKeys, x ∈ o'.releasedKeys ∨ x = c) ∧
    ((o.keys = [] → o.releasedKeys = [] ∧ o.releaseOnNextTick = false) →
      (o'.keys = [] → o'.releasedKeys = [] ∧ o'.releaseOnNextTick = false)) := by
  cases h with
  | other =>
    obtain ⟨f1, f2, f3, f4, _, f6⟩ := handlePress_other_fields o c
    exact ⟨f4, f6, fun x hx => Or.inl (f2 ▸ hx), fun hi hk => by rw [f2, f3]; exact hi (f1 ▸ hk)⟩
  | activate T v =>
    obtain ⟨a1, _, _, a4, a5, a6, _, _⟩ := activate_fields o c T v
    refine ⟨a4, a5, fun x hx => ?_, fun _ hk => absurd hk a1⟩
    rw [a6]
    exact (handlePress_osk_fields o c).2.2.2.1 x hx
  | skip => exact ⟨rfl, rfl, fun x hx => Or.inl hx, fun hi => hi⟩

theorem Calm.setQueue {s : Layout} (h : Calm s) (q : List Queued) : Calm (s.setQueue q) :=
  h.of_eq rfl rfl rfl rfl rfl h.states h.ignore

/-! ### events -/

theorem Inv.input {s : Layout} {down : List Coord} (h : Inv s down) (e : Ev)
    (hq : s.queue.length < QUEUE_SIZE) :
    ∃ s', s.event e = .ok s' ∧ Inv s' (downAfter down (.ev e)) ∧ s'.queue = s.queue ++ [⟨e, 0⟩] ∧
      s'.states = s.states ∧ s'.oneshot = s.oneshot := by
  unfold Layout.event
  rw [FUEL_succ]
  obtain ⟨s', e1, e2, e3, e4, e5⟩ := event_room 3999 s e hq
  refine ⟨s', e1, ?_, e2, e3, e4⟩
  have hcalm : Calm s' := h.calm.frame e5 (e3 ▸ h.calm.states) (e4 ▸ h.calm.ignore)
  refine ⟨hcalm, e5.cfg ▸ h.cfg, by rw [e2]; simp only [List.length_append, List.length_cons, List.length_nil]; omega,
    e4 ▸ h.idle, ?_, ?_⟩
  · rw [e2]
    cases e with
    | press c =>
      exact QWF_append _ _ (QWF_mono (fun x hx => List.mem_cons_of_mem _ hx) _ h.qwf) (by simp [downAfter])
    | release c => exact QWF_release c 0 _ h.qwf
  · intro st hst c hc
    rw [e3] at hst
    rw [e4, e2]
    rcases h.owned st hst c hc with h1 | h1 | ⟨x, hx, hxe⟩
    · cases e with
      | press c' => exact Or.inl (List.mem_cons_of_mem _ h1)
      | release c' =>
        by_cases hcc : c = c'
        · subst hcc; exact Or.inr (Or.inr ⟨⟨.release c, 0⟩, by simp, rfl⟩)
        · exact Or.inl (List.mem_filter.mpr ⟨h1, by simpa using hcc⟩)
    · exact Or.inr (Or.inl h1)
    · exact Or.inr (Or.inr ⟨x, List.mem_append_left _ hx, hxe⟩)

/-! ### the stages of a tick -/

theorem Inv.pre {s : Layout} {down : List Coord} (h : Inv s down) : Inv (tickPre s) down := by
  obtain ⟨t1, t2, t3, t4, t5, _⟩ := tickPre_fields h.calm
  refine ⟨t1, t5 ▸ h.cfg, by rw [t4]; simpa [age] using h.qlen, t2 ▸ h.idle, t4 ▸ QWF_age _ h.qwf, ?_⟩
  intro st hst c hc
  rw [t3] at hst
  rw [t2, t4]
  rcases h.owned st hst c hc with h1 | h1 | h1
  · exact Or.inl h1
  · exact Or.inr (Or.inl h1)
  · exact Or.inr (Or.inr (mem_age_release h1))

theorem Inv.osh {s : Layout} {down : List Coord} (h : Inv s down) :
    ∃ s1, tickOneshot s = .ok (s1, .noEvent) ∧ Inv s1 down ∧ s1.queue = s.queue ∧ Frame s s1 := by
  by_cases hk : s.oneshot.keys = []
  · exact ⟨s, tickOneshot_inactive hk, h, rfl, Frame.refl s⟩
  · by_cases hf : s.oneshot.releaseOnNextTick = true ∨ s.oneshot.timeout ≤ 1
    · refine ⟨_, tickOneshot_fires h.calm.states hk hf, ?_, rfl, ⟨rfl, rfl, rfl, rfl, rfl, rfl, rfl, rfl, rfl⟩⟩
      refine ⟨h.calm.of_eq rfl rfl rfl rfl rfl (fun st hst => h.calm.states st (mem_dropCoords.mp hst).1) rfl,
        h.cfg, h.qlen, fun _ => ⟨rfl, rfl⟩, h.qwf, ?_⟩
      intro st hst c hc
      obtain ⟨m1, m2⟩ := mem_dropCoords.mp hst
      rcases h.owned st m1 c hc with h1 | h1 | h1
      · exact Or.inl h1
      · exact absurd hc (m2 c h1)
      · exact Or.inr (Or.inr h1)
    · have h1 : s.oneshot.releaseOnNextTick = false := by
        cases hr : s.oneshot.releaseOnNextTick
        · rfl
        · exact absurd (Or.inl hr) hf
      have h2 : 2 ≤ s.oneshot.timeout := by omega
      refine ⟨_, tickOneshot_waits hk h1 h2, ?_, rfl, ⟨rfl, rfl, rfl, rfl, rfl, rfl, rfl, rfl, rfl⟩⟩
      exact ⟨h.calm.of_eq rfl rfl rfl rfl rfl h.calm.states (by simp [h.calm.ignore]),
        h.cfg, h.qlen, fun hk' => absurd hk' hk, h.qwf, h.owned⟩

theorem Inv.pop_press {s : Layout} {down : List Coord} (h : Inv s down) (c : Coord) (n : Nat)
    (rest : List Queued) (hq : s.queue = ⟨.press c, n⟩ :: rest) (s' : Layout) (cu : CustomEv)
    (hd : dequeue FUEL (s.setQueue rest) ⟨.press c, n⟩ = .ok (s', cu)) : Inv s' down ∧ cu = .noEvent := by
  have hlen : rest.length < QUEUE_SIZE := by
    have := h.qlen; rw [hq] at this; simp only [List.length_cons] at this; omega
  obtain ⟨r1, r2⟩ := dequeue_press_frag (s := s.setQueue rest) h.cfg (h.calm.setQueue rest) hlen c n s' cu hd
  obtain ⟨ov, op, hqq⟩ := r2.osh
  obtain ⟨k1, _, k3, k4⟩ := op.keeps
  have hwf := h.qwf
  rw [hq] at hwf
  have hhead : c ∈ down ∨ ∃ x ∈ rest, x.ev = .release c := hwf.1
  have hq' : s'.queue = rest ++ ovq ov := hqq
  refine ⟨⟨?_, r2.frame.cfg ▸ h.cfg, ?_, k4 h.idle, ?_, ?_⟩, r1⟩
  · refine (h.calm.setQueue rest).frame r2.frame ?_ (k1.trans h.calm.ignore)
    intro st hst
    rcases r2.adds.new st hst with h1 | h1
    · exact h.calm.states st h1
    · exact h1.2
  · rw [hq']
    cases ov <;> simp only [ovq, List.length_append, List.length_cons, List.length_nil] <;> omega
  · rw [hq']
    cases ov with
    | none => simpa [ovq] using hwf.2
    | some k => exact QWF_append _ _ hwf.2 trivial
  · intro st hst c' hc'
    rw [hq']
    have inRest : (∃ x ∈ rest, x.ev = .release c') → ∃ x ∈ rest ++ ovq ov, x.ev = .release c' :=
      fun ⟨x, hx, hxe⟩ => ⟨x, List.mem_append_left _ hx, hxe⟩
    have viaHead : c' = c → c' ∈ down ∨ c' ∈ s'.oneshot.releasedKeys ∨ ∃ x ∈ rest ++ ovq ov, x.ev = .release c' := by
      intro hcc; subst hcc
      rcases hhead with h1 | h1
      · exact Or.inl h1
      · exact Or.inr (Or.inr (inRest h1))
    rcases r2.adds.new st hst with h1 | h1
    · rcases h.owned st h1 c' hc' with g | g | ⟨x, hx, hxe⟩
      · exact Or.inl g
      · rcases k3 c' g with g2 | g2
        · exact Or.inr (Or.inl g2)
        · exact viaHead g2
      · rw [hq] at hx
        rcases List.mem_cons.mp hx with hx | hx
        · subst hx; cases hxe
        · exact Or.inr (Or.inr (inRest ⟨x, hx, hxe⟩))
    · have : c' = c := by
        have := h1.1; rw [hc'] at this; injection this
      exact viaHead this

theorem Inv.pop_release {s : Layout} {down : List Coord} (h : Inv s down) (c : Coord) (n : Nat)
    (rest : List Queued) (hq : s.queue = ⟨.release c, n⟩ :: rest) :
    ∃ s', dequeue FUEL (s.setQueue rest) ⟨.release c, n⟩ = .ok (s', .noEvent) ∧ Inv s' down := by
  have hlen : rest.length ≤ QUEUE_SIZE := by
    have := h.qlen; rw [hq] at this; simp only [List.length_cons] at this; omega
  have hwf := h.qwf
  rw [hq] at hwf
  refine ⟨_, dequeue_release_calm (s := s.setQueue rest) h.calm.states c n, ?_⟩
  have inRest : ∀ c', c' ≠ c → (∃ x ∈ s.queue, x.ev = .release c') → ∃ x ∈ rest, x.ev = .release c' := by
    intro c' hne ⟨x, hx, hxe⟩
    rw [hq] at hx
    rcases List.mem_cons.mp hx with hx | hx
    · subst hx; injection hxe with hxe; exact absurd hxe.symm hne
    · exact ⟨x, hx, hxe⟩
  have hS : s.setQueue rest = { s with queue := rest } := rfl
  rw [hS]
  simp only []
  by_cases hk : s.oneshot.keys = []
  · -- nothing active: a plain release
    rw [handleRelease_inactive _ c hk]
    simp only [afterRelease, if_true]
    refine ⟨h.calm.of_eq rfl rfl rfl rfl rfl (C04.stok_filter _ h.calm.states) h.calm.ignore, h.cfg, hlen, h.idle, hwf.2, ?_⟩
    intro st hst c' hc'
    obtain ⟨m1, m2⟩ := List.mem_filter.mp hst
    have hne : c' ≠ c := by
      intro hcc; subst hcc; simp [hc'] at m2
    rcases h.owned st m1 c' hc' with g | g | g
    · exact Or.inl g
    · exact Or.inr (Or.inl g)
    · exact Or.inr (Or.inr (inRest c' hne g))
  · by_cases hcc : s.oneshot.keys.contains c = true
    · -- an active one-shot key: deferred
      rw [handleRelease_active _ c hcc]
      simp only [afterRelease, Bool.false_eq_true, if_false]
      have hnew : c ∈ (pushBackWrap ONE_SHOT_MAX_ACTIVE s.oneshot.releasedKeys c).1 :=
        mem_pushBackWrap_new _ (by decide) _ _
      have hold := mem_pushBackWrap_old ONE_SHOT_MAX_ACTIVE s.oneshot.releasedKeys c
      generalize pushBackWrap ONE_SHOT_MAX_ACTIVE s.oneshot.releasedKeys c = pr at hnew hold
      obtain ⟨rk, ov⟩ := pr
      simp only at hnew hold ⊢
      have owned' : ∀ st ∈ s.states, ∀ c', st.coord = some c' → ov ≠ some c' →
          c' ∈ down ∨ c' ∈ rk ∨ ∃ x ∈ rest, x.ev = .release c' := by
        intro st hst c' hc' hov
        rcases h.owned st hst c' hc' with g | g | g
        · exact Or.inl g
        · rcases hold c' g with g2 | g2
          · exact Or.inr (Or.inl g2)
          · exact absurd g2 hov
        · by_cases hne : c' = c
          · subst hne; exact Or.inr (Or.inl hnew)
          · exact Or.inr (Or.inr (inRest c' hne g))
      cases ov with
      | none =>
        simp only
        exact ⟨h.calm.of_eq rfl rfl rfl rfl rfl h.calm.states h.calm.ignore, h.cfg, hlen,
          fun hk' => absurd hk' hk, hwf.2, fun st hst c' hc' => owned' st hst c' hc' (by simp)⟩
      | some c2 =>
        simp only
        refine ⟨h.calm.of_eq rfl rfl rfl rfl rfl (C04.stok_filter _ h.calm.states) h.calm.ignore, h.cfg, hlen,
          fun hk' => absurd hk' hk, hwf.2, ?_⟩
        intro st hst c' hc'
        obtain ⟨m1, m2⟩ := List.mem_filter.mp hst
        refine owned' st m1 c' hc' ?_
        intro hov; injection hov with hov; subst hov; simp [hc'] at m2
    · -- any other key: a plain release (which may request the release of the one-shot keys)
      have hcc' : s.oneshot.keys.contains c = false := by simpa using hcc
      rw [handleRelease_other _ c hk hcc']
      simp only [afterRelease, if_true]
      refine ⟨h.calm.of_eq rfl rfl rfl rfl rfl (C04.stok_filter _ h.calm.states) h.calm.ignore, h.cfg, hlen,
        fun hk' => absurd hk' hk, hwf.2, ?_⟩
      intro st hst c' hc'
      obtain ⟨m1, m2⟩ := List.mem_filter.mp hst
      have hne : c' ≠ c := by
        intro hcc; subst hcc; simp [hc'] at m2
      rcases h.owned st m1 c' hc' with g | g | g
      · exact Or.inl g
      · exact Or.inr (Or.inl g)
      · exact Or.inr (Or.inr (inRest c' hne g))

theorem Inv.main {s : Layout} {down : List Coord} (h : Inv s down) (s2 : Layout) (c2 : CustomEv)
    (hm : tickMain s = .ok (s2, c2)) : Inv s2 down ∧ c2 = .noEvent := by
  by_cases hp : 0 < s.oneshot.pauseInputProcessingTicks
  · rw [tickMain_paused h.calm.waiting h.calm.extra hp] at hm
    injection hm with hm; injection hm with h1 h2; subst h1; subst h2
    exact ⟨⟨h.calm.of_eq rfl rfl rfl rfl rfl h.calm.states h.calm.ignore, h.cfg, h.qlen, h.idle, h.qwf, h.owned⟩, rfl⟩
  · have hp0 : s.oneshot.pauseInputProcessingTicks = 0 := by omega
    cases hq : s.queue with
    | nil =>
      rw [tickMain_empty h.calm.waiting h.calm.extra hp0 hq] at hm
      injection hm with hm; injection hm with h1 h2; subst h1; subst h2
      exact ⟨h, rfl⟩
    | cons q rest =>
      rw [tickMain_pops h.calm.waiting h.calm.extra hp0 q rest hq] at hm
      obtain ⟨ev, n⟩ := q
      cases ev with
      | press c => exact h.pop_press c n rest hq s2 c2 hm
      | release c =>
        obtain ⟨s', e1, e2⟩ := h.pop_release c n rest hq
        rw [e1] at hm
        injection hm with hm; injection hm with h1 h2; subst h1; subst h2
        exact ⟨e2, rfl⟩

/-- **one tick keeps the invariant** -/
theorem Inv.step {s : Layout} {down : List Coord} (h : Inv s down) (s' : Layout) (cu : CustomEv)
    (ht : tick s = .ok (s', cu)) : Inv s' down ∧ cu = .noEvent := by
  obtain ⟨s1, e1, i1, _, _⟩ := h.pre.osh
  cases hm : tickMain s1 with
  | error c =>
    unfold KVerif.L.tick at ht
    simp only [h.calm.aq, e1, hm] at ht
    cases ht
  | ok r =>
    obtain ⟨s2, c2⟩ := r
    obtain ⟨i2, hc2⟩ := i1.main s2 c2 hm
    subst hc2
    rw [tick_calm h.calm e1 hm i2.calm] at ht
    injection ht with ht; injection ht with h1 h2; subst h1; subst h2
    exact ⟨i2, rfl⟩

end KVerif.C06
