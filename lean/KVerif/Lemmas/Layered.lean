/-
C04 helper lemmas: on configurations of the layered fragment every reachable layout state is
*inert* (no waiting state, one-shot, sequence, eager tap-dance or queued action), and one `tick` of
the layout model is one `step` of the simple layered machine under the abstraction `abs`.
-/
import KVerif.Spec.Layered
namespace KVerif.C04
open KVerif.L KVerif.Spec.Layered

mutual
  /-- the action fragment of C04 -/
  def Frag : Action → Prop
    | .noOp | .trans | .keyCode _ | .multipleKeyCodes _ | .layer _ | .defaultLayer _
    | .releaseState _ | .src => True
    | .multipleActions acs => FragL acs
    | _ => False
  def FragL : List Action → Prop
    | [] => True
    | a :: rest => Frag a ∧ FragL rest
end

def CfgFrag (c : LCfg) : Prop :=
  (∀ tbl ∈ c.layers, ∀ e ∈ tbl, Frag e.2) ∧ (∀ e ∈ c.srcKeys, Frag e.2)

def StOK : St → Prop
  | .normalKey _ _ f => f = 0 ∨ f = 1
  | .layerModifier _ _ => True
  | _ => False

structure Inert (s : Layout) : Prop where
  waiting : s.waiting = none
  extra : s.extraWaiting = []
  tde : s.tapDanceEager = none
  aq : s.actionQueue = []
  seqs : s.activeSequences = []
  osh : s.oneshot.keys = []
  pause : s.oneshot.pauseInputProcessingTicks = 0
  states : ∀ st ∈ s.states, StOK st

def absSt : St → Contrib
  | .normalKey kc c f => .key kc c (f % 2 == 1)
  | .layerModifier v c => .layer v c
  | _ => .layer 0 (0, 0)

def abs (s : Layout) : State :=
  { pending := s.queue.map (·.ev), contribs := s.states.map absSt, base := s.defaultLayer }

def km (s : Layout) : Keymap :=
  { cfg := s.cfg, layerStack := s.transV2, delegateToFirst := s.delegateToFirstLayer }

/-- what no action of the fragment changes -/
structure Same (s s' : Layout) : Prop where
  cfg : s'.cfg = s.cfg
  tv2 : s'.transV2 = s.transV2
  dfl : s'.delegateToFirstLayer = s.delegateToFirstLayer
  queue : s'.queue = s.queue

theorem Same.refl (s : Layout) : Same s s := ⟨rfl, rfl, rfl, rfl⟩
theorem Same.trans {a b c : Layout} (h1 : Same a b) (h2 : Same b c) : Same a c :=
  ⟨h2.cfg.trans h1.cfg, h2.tv2.trans h1.tv2, h2.dfl.trans h1.dfl, h2.queue.trans h1.queue⟩
theorem Same.km {s s' : Layout} (h : Same s s') : km s' = km s := by
  simp [C04.km, h.cfg, h.tv2, h.dfl]

/-! ### one-shot is a no-op when no one-shot key is active -/

theorem oshPress_inert (s : Layout) (k : OshKey) (h : s.oneshot.keys = []) : s.oshPress k = (s, []) := by
  simp [Layout.oshPress, OneShotState.handlePress, h]

theorem oshOther_inert (s : Layout) (b : Bool) (c : Coord) (h : s.oneshot.keys = []) :
    oshOther s b c = (s, []) := by
  unfold oshOther; split
  · exact oshPress_inert s _ h
  · rfl

/-! ### filters commute with the abstraction on well-formed states -/

theorem map_filter_abs (states : List St) (p : St → Bool) (q : Contrib → Bool)
    (hpq : ∀ st ∈ states, StOK st → p st = q (absSt st)) (hok : ∀ st ∈ states, StOK st) :
    (states.filter p).map absSt = (states.map absSt).filter q := by
  induction states with
  | nil => rfl
  | cons st rest ih =>
    have h1 := hpq st (by simp) (hok st (by simp))
    have ih' := ih (fun x hx => hpq x (by simp [hx])) (fun x hx => hok x (by simp [hx]))
    simp only [List.filter_cons, List.map_cons, ← h1]
    split <;> simp [ih']

theorem stok_filter {states : List St} (p : St → Bool) (h : ∀ st ∈ states, StOK st) :
    ∀ st ∈ states.filter p, StOK st := fun st hst => h st (List.mem_filter.mp hst).1

theorem stok_pushCap {states : List St} (st : St) (h : ∀ x ∈ states, StOK x) (hst : StOK st) :
    ∀ x ∈ pushCap STATES_CAP states st, StOK x := by
  intro x hx
  unfold pushCap at hx
  split at hx
  · rcases List.mem_append.mp hx with h1 | h1
    · exact h x h1
    · simp at h1; subst h1; exact hst
  · exact h x hx

theorem abs_pushCap (states : List St) (st : St) :
    (pushCap STATES_CAP states st).map absSt = add (states.map absSt) (absSt st) := by
  unfold pushCap add
  simp only [List.length_map, STATES_CAP]
  split <;> simp

/-! ### prelude -/

theorem prelude_inert {s : Layout} (coord : Coord) (h : Inert s) : Inert (prelude s coord) := by
  unfold prelude
  split <;> exact ⟨h.waiting, h.extra, h.tde, h.aq, h.seqs, h.osh, h.pause, stok_filter _ h.states⟩

theorem prelude_same (s : Layout) (coord : Coord) : Same s (prelude s coord) := by
  unfold prelude; split <;> exact ⟨rfl, rfl, rfl, rfl⟩

theorem prelude_abs {s : Layout} (coord : Coord) (h : Inert s) :
    abs (prelude s coord) = { abs s with contribs := dropUntilNextAction (abs s).contribs } := by
  have hm := map_filter_abs s.states (fun st => !st.clearOnNextAction)
    (fun c => match c with | .key _ _ true => false | _ => true)
    (by
      intro st _ hok
      cases st <;> simp only [StOK] at hok <;> try exact absurd hok id
      · rcases hok with h0 | h0 <;> subst h0 <;> simp [St.clearOnNextAction, absSt]
      · simp [St.clearOnNextAction, absSt])
    h.states
  unfold prelude
  split <;> simp only [abs, dropUntilNextAction, hm] <;> rfl

/-! ### the arms of the fragment -/

theorem updateCoord_inert {s : Layout} (c : Coord) (h : Inert s) : Inert (updateCoord s c) := by
  unfold updateCoord; split
  · exact ⟨h.waiting, h.extra, h.tde, h.aq, h.seqs, h.osh, h.pause, h.states⟩
  · exact h
theorem updateCoord_same (s : Layout) (c : Coord) : Same s (updateCoord s c) := by
  unfold updateCoord; split <;> exact ⟨rfl, rfl, rfl, rfl⟩
theorem updateCoord_abs (s : Layout) (c : Coord) : abs (updateCoord s c) = abs s := by
  unfold updateCoord; split <;> rfl
theorem updateCoord_states (s : Layout) (c : Coord) : (updateCoord s c).states = s.states := by
  unfold updateCoord; split <;> rfl
theorem updateCoord_osh (s : Layout) (c : Coord) : (updateCoord s c).oneshot = s.oneshot := by
  unfold updateCoord; split <;> rfl

theorem armNoOp_spec {s : Layout} (a : Action) (c : Coord) (h : Inert s) :
    Inert (armNoOp s a c false) ∧ Same s (armNoOp s a c false) ∧ abs (armNoOp s a c false) = abs s := by
  unfold armNoOp
  split
  · rw [oshPress_inert s _ h.osh]
    exact ⟨⟨h.waiting, h.extra, h.tde, h.aq, h.seqs, h.osh, h.pause, h.states⟩, ⟨rfl, rfl, rfl, rfl⟩, rfl⟩
  · exact ⟨⟨h.waiting, h.extra, h.tde, h.aq, h.seqs, h.osh, h.pause, h.states⟩, ⟨rfl, rfl, rfl, rfl⟩, rfl⟩

theorem pushState_inert {s : Layout} (st : St) (h : Inert s) (hst : StOK st) : Inert (s.pushState st) :=
  ⟨h.waiting, h.extra, h.tde, h.aq, h.seqs, h.osh, h.pause, stok_pushCap st h.states hst⟩

theorem pushState_abs (s : Layout) (st : St) :
    abs (s.pushState st) = { abs s with contribs := add (abs s).contribs (absSt st) } := by
  simp only [abs, Layout.pushState, abs_pushCap]

theorem armKeyCode_spec {s : Layout} (a : Action) (kc : KeyCode) (c : Coord) (h : Inert s) :
    Inert (armKeyCode s a kc c false) ∧ Same s (armKeyCode s a kc c false) ∧
      abs (armKeyCode s a kc c false) = { abs s with contribs := add (abs s).contribs (.key kc c false) } := by
  have h1 := updateCoord_inert c h
  have h2 : Inert ({ updateCoord s c with histKeys := histPush (updateCoord s c).histKeys kc } : Layout) :=
    ⟨h1.waiting, h1.extra, h1.tde, h1.aq, h1.seqs, h1.osh, h1.pause, h1.states⟩
  have h3 := pushState_inert (.normalKey kc c 0) h2 (Or.inl rfl)
  unfold armKeyCode
  simp only [oshOther_inert _ false c h3.osh, List.isEmpty_nil, if_true]
  refine ⟨⟨h3.waiting, h3.extra, h3.tde, h3.aq, h3.seqs, h3.osh, h3.pause, h3.states⟩, ?_, ?_⟩
  · have := updateCoord_same s c
    exact ⟨this.cfg, this.tv2, this.dfl, this.queue⟩
  · have ha := updateCoord_abs s c
    simp only [abs] at ha ⊢
    simp only [Layout.pushState, abs_pushCap, absSt]
    injection ha with ha1 ha2 ha3
    simp [ha1, ha2, ha3]

theorem pushKeyCodes_spec {s : Layout} (kcs : List KeyCode) (c : Coord) (h : Inert s) :
    Inert (pushKeyCodes s kcs c 1) ∧ Same s (pushKeyCodes s kcs c 1) ∧
      abs (pushKeyCodes s kcs c 1) =
        { abs s with contribs := kcs.foldl (fun cs kc => add cs (.key kc c true)) (abs s).contribs } := by
  induction kcs generalizing s with
  | nil => exact ⟨h, Same.refl s, rfl⟩
  | cons kc rest ih =>
    have h2 : Inert ({ s with histKeys := histPush s.histKeys kc } : Layout) :=
      ⟨h.waiting, h.extra, h.tde, h.aq, h.seqs, h.osh, h.pause, h.states⟩
    have h3 := pushState_inert (.normalKey kc c 1) h2 (Or.inr rfl)
    obtain ⟨i1, i2, i3⟩ := ih h3
    simp only [pushKeyCodes, List.foldl_cons] at i1 i2 i3 ⊢
    refine ⟨i1, ⟨i2.cfg, i2.tv2, i2.dfl, i2.queue⟩, ?_⟩
    rw [i3, pushState_abs]
    rfl

theorem armMultipleKeyCodes_spec {s : Layout} (a : Action) (kcs : List KeyCode) (c : Coord) (h : Inert s) :
    Inert (armMultipleKeyCodes s a kcs c false) ∧ Same s (armMultipleKeyCodes s a kcs c false) ∧
      abs (armMultipleKeyCodes s a kcs c false) =
        { abs s with contribs := kcs.foldl (fun cs kc => add cs (.key kc c true)) (abs s).contribs } := by
  have h1 := updateCoord_inert c h
  obtain ⟨i1, i2, i3⟩ := pushKeyCodes_spec kcs c h1
  unfold armMultipleKeyCodes
  simp only [Bool.false_eq_true, if_false, oshOther_inert _ false c i1.osh, List.isEmpty_nil, if_true]
  refine ⟨⟨i1.waiting, i1.extra, i1.tde, i1.aq, i1.seqs, i1.osh, i1.pause, i1.states⟩, ?_, ?_⟩
  · have := (updateCoord_same s c).trans i2
    exact ⟨this.cfg, this.tv2, this.dfl, this.queue⟩
  · have : abs ({ pushKeyCodes (updateCoord s c) kcs c 1 with rptAction := some a } : Layout) =
        abs (pushKeyCodes (updateCoord s c) kcs c 1) := rfl
    rw [this, i3, updateCoord_abs]

theorem armLayer_spec {s : Layout} (v : Nat) (c : Coord) (h : Inert s) :
    Inert (armLayer s v c false) ∧ Same s (armLayer s v c false) ∧
      abs (armLayer s v c false) = { abs s with contribs := add (abs s).contribs (.layer v c) } := by
  have h1 := updateCoord_inert c h
  have h3 := pushState_inert (.layerModifier v c) h1 trivial
  unfold armLayer
  simp only [oshOther_inert _ false c h3.osh]
  refine ⟨h3, ?_, ?_⟩
  · have := updateCoord_same s c
    exact ⟨this.cfg, this.tv2, this.dfl, this.queue⟩
  · rw [pushState_abs, updateCoord_abs]; rfl

theorem armDefaultLayer_spec {s : Layout} (v : Nat) (c : Coord) (h : Inert s) :
    Inert (armDefaultLayer s v c false) ∧ Same s (armDefaultLayer s v c false) ∧
      abs (armDefaultLayer s v c false) =
        (if v < s.cfg.layers.length then { abs s with base := v } else abs s) := by
  have h1 := updateCoord_inert c h
  have hs := updateCoord_same s c
  have ha := updateCoord_abs s c
  unfold armDefaultLayer
  generalize updateCoord s c = u at h1 hs ha ⊢
  rw [← hs.cfg]
  by_cases hv : v < u.cfg.layers.length
  · have hi : Inert ({ u with defaultLayer := v } : Layout) :=
      ⟨h1.waiting, h1.extra, h1.tde, h1.aq, h1.seqs, h1.osh, h1.pause, h1.states⟩
    simp only [hv, if_true, oshOther_inert _ false c hi.osh]
    refine ⟨hi, ⟨hs.cfg, hs.tv2, hs.dfl, hs.queue⟩, ?_⟩
    simp only [abs] at ha ⊢
    injection ha with ha1 ha2 ha3
    simp [ha1, ha2]
  · simp only [hv, if_false, oshOther_inert _ false c h1.osh]
    exact ⟨h1, hs, ha⟩

theorem armReleaseState_spec {s : Layout} (a : Action) (rs : RelState) (c : Coord) (h : Inert s) :
    Inert (armReleaseState s a rs c false) ∧ Same s (armReleaseState s a rs c false) ∧
      abs (armReleaseState s a rs c false) =
        (match rs with
          | .keyCode kc => { abs s with contribs := (abs s).contribs.filter fun x => match x with | .key k _ _ => k != kc | _ => true }
          | .layer l => { abs s with contribs := (abs s).contribs.filter fun x => match x with | .layer y _ => y != l | _ => true }) := by
  have hi : Inert ({ s with states := s.states.filter (fun st => st.releaseState rs) } : Layout) :=
    ⟨h.waiting, h.extra, h.tde, h.aq, h.seqs, h.osh, h.pause, stok_filter _ h.states⟩
  unfold armReleaseState
  simp only [oshOther_inert _ false c hi.osh]
  refine ⟨⟨hi.waiting, hi.extra, hi.tde, hi.aq, hi.seqs, hi.osh, hi.pause, hi.states⟩, ⟨rfl, rfl, rfl, rfl⟩, ?_⟩
  cases rs with
  | keyCode kc =>
    have hm := map_filter_abs s.states (fun st => st.releaseState (.keyCode kc))
      (fun x => match x with | .key k _ _ => k != kc | _ => true)
      (by intro st _ hok; cases st <;> simp only [StOK] at hok <;> first | exact absurd hok id | simp [St.releaseState, absSt])
      h.states
    simp only [abs, hm]
  | layer l =>
    have hm := map_filter_abs s.states (fun st => st.releaseState (.layer l))
      (fun x => match x with | .layer y _ => y != l | _ => true)
      (by intro st _ hok; cases st <;> simp only [StOK] at hok <;> first | exact absurd hok id | simp [St.releaseState, absSt])
      h.states
    simp only [abs, hm]

/-! ### resolution of a press -/

theorem srcKey_frag {c : LCfg} (hc : CfgFrag c) (y : Nat) : Frag (c.srcKey y) := by
  unfold LCfg.srcKey
  split
  · rename_i a hf
    exact hc.2 _ (List.mem_of_find?_eq_some hf)
  · trivial

theorem resolve_lookup (s : Layout) (coord : Coord) (hc : CfgFrag s.cfg) :
    ∀ (ls : List Nat) (a : Action) (rest : List Nat), s.resolveCoord coord ls = .ok (a, rest) →
      lookup (km s) coord ls = (a, rest) ∧ Frag a := by
  intro ls
  induction ls with
  | nil =>
    intro a rest h
    simp only [Layout.resolveCoord] at h
    split at h; · cases h
    split at h; · cases h
    split at h
    · split at h; · cases h
      injection h with h; injection h with h1 h2; subst h1; subst h2
      rename_i _ _ hz _
      exact ⟨by simp [lookup, km, hz], srcKey_frag hc _⟩
    · injection h with h; injection h with h1 h2; subst h1; subst h2
      rename_i _ _ hz
      exact ⟨by simp [lookup, hz], trivial⟩
  | cons l rest' ih =>
    intro a rest h
    simp only [Layout.resolveCoord] at h
    split at h; · cases h
    split at h; · cases h
    -- what the table holds
    have key : ∀ x, s.cfg.layerAction l coord = .ok x → tableAction (km s) l coord = x ∧ Frag x := by
      intro x hx
      unfold LCfg.layerAction at hx
      split at hx; · cases hx
      rename_i tbl htbl
      split at hx; · cases hx
      split at hx; · cases hx
      have hmem : tbl ∈ s.cfg.layers := List.mem_of_getElem? htbl
      split at hx
      · rename_i e a' hf
        injection hx with hx; subst hx
        exact ⟨by simp [tableAction, km, htbl, hf], hc.1 tbl hmem _ (List.mem_of_find?_eq_some hf)⟩
      · rename_i hf
        injection hx with hx; subst hx
        exact ⟨by simp [tableAction, km, htbl, hf], trivial⟩
    split at h
    · cases h
    · rename_i hx
      obtain ⟨ht, _⟩ := key _ hx
      obtain ⟨i1, i2⟩ := ih a rest h
      exact ⟨by simp only [lookup, ht]; exact i1, i2⟩
    · rename_i x hnt hx
      obtain ⟨ht, hf⟩ := key _ hx
      injection h with h; injection h with h1 h2; subst h1; subst h2
      refine ⟨?_, hf⟩
      simp only [lookup, ht]

/-! ### `do_action` on the fragment is `perform` -/

/-- outcome of an action of the fragment: still inert, static parts untouched, no custom event, and
the abstraction is what the specification computes -/
def R (s s' : Layout) (cu : CustomEv) (t : State) : Prop :=
  Inert s' ∧ Same s s' ∧ cu = .noEvent ∧ abs s' = t

theorem refines_all : ∀ fuel : Nat,
    (∀ s a coord delay ls s' cu, CfgFrag s.cfg → Inert s → Frag a →
      doAction fuel s a coord delay false ls = .ok (s', cu) →
      R s s' cu (perform (km s) coord fuel (abs s) a ls)) ∧
    (∀ s a coord delay ls s' cu, CfgFrag s.cfg → Inert s → Frag a →
      dispatch fuel s a coord delay false ls = .ok (s', cu) →
      R s s' cu (performFound (km s) coord fuel (abs s) a ls)) ∧
    (∀ s acs coord delay ls s' cu, CfgFrag s.cfg → Inert s → FragL acs →
      doActions fuel s acs coord delay false ls .noEvent = .ok (s', cu) →
      R s s' cu (performAll (km s) coord fuel (abs s) acs ls)) := by
  intro fuel
  induction fuel with
  | zero =>
    refine ⟨?_, ?_, ?_⟩ <;> intro s a coord delay ls s' cu _ _ _ h <;> simp [doAction, dispatch, doActions] at h
  | succ fuel ih =>
    obtain ⟨ih1, ih2, ih3⟩ := ih
    refine ⟨?_, ?_, ?_⟩
    · -- doAction
      intro s a coord delay ls s' cu hc hi hf h
      have hpi := prelude_inert coord hi
      have hps := prelude_same s coord
      have hpa := prelude_abs coord hi
      -- resolution
      have hres : ∃ a' ls', Frag a' ∧
          perform (km s) coord (fuel + 1) (abs s) a ls =
            performFound (km s) coord fuel { abs s with contribs := dropUntilNextAction (abs s).contribs } a' ls' ∧
          dispatch fuel (prelude s coord) a' coord delay false ls' = .ok (s', cu) := by
        simp only [doAction] at h
        split at h
        · cases h
        · rename_i a' ls' hm
          refine ⟨a', ls', ?_, ?_, h⟩
          · cases a
            case trans => exact (resolve_lookup s coord hc ls a' ls' hm).2
            all_goals
              simp only [Except.ok.injEq, Prod.mk.injEq] at hm
              obtain ⟨h1, h2⟩ := hm
              subst h1; subst h2; exact hf
          · cases a
            case trans =>
              have := (resolve_lookup s coord hc ls a' ls' hm).1
              simp only [perform, this]
            all_goals
              simp only [Except.ok.injEq, Prod.mk.injEq] at hm
              obtain ⟨h1, h2⟩ := hm
              subst h1; subst h2
              simp only [perform]
      obtain ⟨a', ls', hfa, hl, hd⟩ := hres
      obtain ⟨r1, r2, r3, r4⟩ := ih2 (prelude s coord) a' coord delay ls' s' cu (hps.cfg ▸ hc) hpi hfa hd
      refine ⟨r1, hps.trans r2, r3, ?_⟩
      rw [r4, hps.km, hpa, hl]
    · -- dispatch
      intro s a coord delay ls s' cu hc hi hf h
      cases a <;> simp only [Frag] at hf <;> simp only [dispatch] at h
      case noOp =>
        injection h with h; injection h with h1 h2; subst h1; subst h2
        obtain ⟨a1, a2, a3⟩ := armNoOp_spec .noOp coord hi
        exact ⟨a1, a2, rfl, by rw [a3]; simp [performFound]⟩
      case trans => cases h
      case keyCode kc =>
        injection h with h; injection h with h1 h2; subst h1; subst h2
        obtain ⟨a1, a2, a3⟩ := armKeyCode_spec (.keyCode kc) kc coord hi
        exact ⟨a1, a2, rfl, by rw [a3]; simp [performFound]⟩
      case multipleKeyCodes kcs =>
        injection h with h; injection h with h1 h2; subst h1; subst h2
        obtain ⟨a1, a2, a3⟩ := armMultipleKeyCodes_spec (.multipleKeyCodes kcs) kcs coord hi
        exact ⟨a1, a2, rfl, by rw [a3]; simp [performFound]⟩
      case layer v =>
        injection h with h; injection h with h1 h2; subst h1; subst h2
        obtain ⟨a1, a2, a3⟩ := armLayer_spec v coord hi
        exact ⟨a1, a2, rfl, by rw [a3]; simp [performFound]⟩
      case defaultLayer v =>
        injection h with h; injection h with h1 h2; subst h1; subst h2
        obtain ⟨a1, a2, a3⟩ := armDefaultLayer_spec v coord hi
        exact ⟨a1, a2, rfl, by rw [a3]; simp [performFound, km] <;> rfl⟩
      case releaseState rs =>
        injection h with h; injection h with h1 h2; subst h1; subst h2
        obtain ⟨a1, a2, a3⟩ := armReleaseState_spec (.releaseState rs) rs coord hi
        refine ⟨a1, a2, rfl, ?_⟩
        rw [a3]; cases rs <;> simp [performFound] <;> rfl
      case src =>
        split at h
        · cases h
        · split at h
          · cases h
          · rename_i r hr
            injection h with h; injection h with h1 h2; subst h1; subst h2
            obtain ⟨s1, c1⟩ := r
            obtain ⟨r1, r2, _, r4⟩ := ih1 s (s.cfg.srcKey coord.2) coord delay [] s1 c1 hc hi (srcKey_frag hc _) hr
            exact ⟨r1, r2, rfl, by rw [r4]; simp [performFound, km]⟩
      case multipleActions acs =>
        split at h
        · cases h
        · rename_i s1 c1 hr
          injection h with h; injection h with h1 h2; subst h1; subst h2
          have hu := updateCoord_inert coord hi
          have hus := updateCoord_same s coord
          obtain ⟨r1, r2, r3, r4⟩ := ih3 (updateCoord s coord) acs coord delay ls s1 c1 (hus.cfg ▸ hc) hu hf hr
          refine ⟨⟨r1.waiting, r1.extra, r1.tde, r1.aq, r1.seqs, r1.osh, r1.pause, r1.states⟩, ?_, r3, ?_⟩
          · have := hus.trans r2
            exact ⟨this.cfg, this.tv2, this.dfl, this.queue⟩
          · have : abs ({ s1 with rptAction := some (Action.multipleActions acs) } : Layout) = abs s1 := rfl
            rw [this, r4, hus.km, updateCoord_abs]
            simp [performFound]
    · -- doActions
      intro s acs coord delay ls s' cu hc hi hf h
      cases acs with
      | nil =>
        simp only [doActions] at h
        injection h with h; injection h with h1 h2; subst h1; subst h2
        exact ⟨hi, Same.refl s, rfl, by simp [performAll]⟩
      | cons a rest =>
        simp only [FragL] at hf
        simp only [doActions] at h
        split at h
        · cases h
        · rename_i s1 c1 hr
          obtain ⟨r1, r2, r3, r4⟩ := ih1 s a coord delay ls s1 c1 hc hi hf.1 hr
          subst r3
          have hupd : CustomEv.noEvent.update .noEvent = .noEvent := rfl
          rw [hupd] at h
          obtain ⟨q1, q2, q3, q4⟩ := ih3 s1 rest coord delay ls s' cu (r2.cfg ▸ hc) r1 hf.2 h
          refine ⟨q1, r2.trans q2, q3, ?_⟩
          rw [q4, r2.km, r4]
          simp [performAll]

end KVerif.C04
