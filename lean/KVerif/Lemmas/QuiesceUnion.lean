/-
C01 helper lemmas, part 6: quiescence with the features COMBINED in one configuration, stage 1:
plain keys, output chords, layer-while-held, transparent / unmapped positions, one-shot keys (all four
end variants, inner action one of the first three) AND tap-hold keys (every variant, any timeout and
tap-hold interval, hold / tap / timeout action one of the first three) side by side - home-row mods
next to a one-shot shift.

This file: the fragment, what a dequeued press does on it, the invariant `UInv` (every state belongs to
a key that is down, or whose release is deferred by an active one-shot key, or whose release is
queued; the same of the undecided tap-hold key), the potential `uPot`, and the first two stages of a
tick.  Part 7 (`QuiesceUnionTick.lean`): the third stage, whole ticks, events, runs.
-/
import KVerif.Lemmas.NoCrashFrag
namespace KVerif.QU
open KVerif.L KVerif.C06 KVerif.Quiesce

/-! ## the fragment -/

/-- **stage 1 of the union**: the one-shot fragment of C06 and the tap-hold fragment of C05 together -/
def Frag1 : Action → Prop
  | .noOp | .trans | .keyCode _ | .multipleKeyCodes _ | .layer _ => True
  | .oneShot inner _ _ => Simple inner
  | .holdTap _ hold tap to _ _ => Simple hold ∧ Simple tap ∧ Simple to
  | _ => False

def Cfg1 (c : LCfg) : Prop :=
  (∀ tbl ∈ c.layers, ∀ e ∈ tbl, Frag1 e.2) ∧ (∀ e ∈ c.srcKeys, Frag1 e.2)

/-- what a press on the fragment leaves alone (the waiting state, the queue, the one-shot state and
the key states are described separately) -/
structure FrameU (s s' : Layout) : Prop where
  extra : s'.extraWaiting = s.extraWaiting
  tde : s'.tapDanceEager = s.tapDanceEager
  aq : s'.actionQueue = s.actionQueue
  seqs : s'.activeSequences = s.activeSequences
  cfg : s'.cfg = s.cfg
  dl : s'.defaultLayer = s.defaultLayer

theorem FrameU.of_frame {s s' : Layout} (f : Frame s s') : FrameU s s' :=
  ⟨f.extra, f.tde, f.aq, f.seqs, f.cfg, f.dl⟩

theorem FrameU.trans {a b c : Layout} (h1 : FrameU a b) (h2 : FrameU b c) : FrameU a c :=
  ⟨h2.extra.trans h1.extra, h2.tde.trans h1.tde, h2.aq.trans h1.aq, h2.seqs.trans h1.seqs,
   h2.cfg.trans h1.cfg, h2.dl.trans h1.dl⟩

/-- the outcome of a press on the fragment: states are only added, at the pressed coordinate; the
one-shot state changes by `handle_press(Other)`, an activation (timeout at most `B`) or not at all,
and a one-shot key that falls out of the table of 16 has its release queued; either nothing waits
afterwards, or the pressed key is an undecided tap-hold key (countdown at most `T`, quick-tap window
at most `I`) -/
structure PressU (T I B : Nat) (c : Coord) (s s' : Layout) : Prop where
  frame : FrameU s s'
  adds : Adds c s s'
  osh : ∃ ov, OshOpT B s.oneshot c s'.oneshot ov ∧ s'.queue = s.queue ++ ovq ov
  wait : (s'.waiting = none ∧ s'.lptTapHoldTimeout ≤ s.lptTapHoldTimeout) ∨
    (∃ w, s'.waiting = some w ∧ w.coord = c ∧ WOK T w ∧ s'.lptTapHoldTimeout ≤ I)

theorem dispatch_U (fuel T I B : Nat) (s : Layout) (a : Action) (hf : Frag1 a)
    (hb : htT a ≤ T ∧ htI a ≤ I ∧ oshT a ≤ B) (c : Coord) (dl : Nat) (ls : List Nat) (s' : Layout) (cu : CustomEv)
    (hw : s.waiting = none) (hq : s.queue.length < QUEUE_SIZE)
    (h : dispatch (fuel + 3) s a c dl false ls = .ok (s', cu)) : cu = .noEvent ∧ PressU T I B c s s' := by
  have viaFrag : Frag a → cu = .noEvent ∧ PressU T I B c s s' := by
    intro hfa
    obtain ⟨r1, r2⟩ := dispatch_frag fuel s a hfa c dl ls s' cu hq h
    obtain ⟨r3, r4⟩ := dispatch_fragT fuel B s a hfa hb.2.2 c dl ls s' cu hq h
    exact ⟨r1, FrameU.of_frame r2.frame, r2.adds, r4, Or.inl ⟨r2.frame.waiting.trans hw, r3⟩⟩
  cases a <;> simp only [Frag1] at hf
  case noOp => exact viaFrag trivial
  case trans => exact viaFrag trivial
  case keyCode kc => exact viaFrag trivial
  case multipleKeyCodes kcs => exact viaFrag trivial
  case layer v => exact viaFrag trivial
  case oneShot inner T0 v => exact viaFrag hf
  case holdTap T0 hold tap to cfg iv =>
    simp only [htT, htI] at hb
    rw [dispatch_holdTap fuel s T0 hold tap to cfg iv c dl ls hf.2.1] at h
    split at h
    · split at h
      · cases h
      · injection h with h; injection h with h1 h2; subst h1
        obtain ⟨w, e1, e2, e3, e4, e5, e6, e7, e8, e9, e10, e11, e12, e13⟩ :=
          armHoldTapWait_spec s c dl T0 hold tap to cfg iv ls hw
        refine ⟨h2.symm, ⟨e13, e8.tde, e8.aq, e8.seqs, e8.cfg, e8.dl⟩, Adds.of_states e10,
          ⟨none, by rw [e11]; exact .skip, by rw [e9]; simp [ovq]⟩,
          Or.inr ⟨w, e1, e2, ⟨⟨cfg, e7⟩, e4 ▸ hf.1, e5 ▸ hf.2.1, e6 ▸ hf.2.2, Nat.le_trans e3 hb.1⟩, ?_⟩⟩
        rw [e12]; exact hb.2.1
    · injection h with h; injection h with h1 h2; subst h1
      obtain ⟨p1, p2, p3, p4⟩ := prelude_spec { s with lptTapHoldTimeout := 0 } c
      have sp := simpleArm_spec (prelude { s with lptTapHoldTimeout := 0 } c) tap hf.2.1 c false
      obtain ⟨u1, u2, u3, u4⟩ := updateCoord_spec (simpleArm (prelude { s with lptTapHoldTimeout := 0 } c) tap c false) c
      have fr : Frame { s with lptTapHoldTimeout := 0 }
          (updateCoord (simpleArm (prelude { s with lptTapHoldTimeout := 0 } c) tap c false) c) :=
        (p1.trans sp.frame).trans u1
      refine ⟨h2.symm, ⟨fr.extra, fr.tde, fr.aq, fr.seqs, fr.cfg, fr.dl⟩, ?_, ⟨none, ?_, ?_⟩, Or.inl ⟨?_, ?_⟩⟩
      · exact (((Adds.of_states (c := c) (s := s) (s' := { s with lptTapHoldTimeout := 0 }) rfl).trans
          (prelude_adds _ c)).trans sp.adds).trans (Adds.of_states u4)
      · rw [u2, sp.osh, p2]
        simp only [Bool.false_eq_true, if_false]
        exact .other
      · rw [u3, sp.queue, p3]; simp [ovq]
      · rw [fr.waiting]; exact hw
      · rw [updateCoord_lpt, simpleArm_lpt]
        exact Nat.le_trans (prelude_lpt _ c) (Nat.zero_le _)

/-- every action of the configuration is in the fragment and within the bounds -/
def BoundU (c : LCfg) (T I B : Nat) : Prop := HBound c T I ∧ OshBound c B

/-- **a press taken from the queue, nothing waiting** -/
theorem dequeue_press_U {T I B : Nat} {s : Layout} (hc : Cfg1 s.cfg) (hb : BoundU s.cfg T I B)
    (htde : s.tapDanceEager = none) (hw : s.waiting = none) (hq : s.queue.length < QUEUE_SIZE)
    (c : Coord) (since : Nat) (s' : Layout) (cu : CustomEv)
    (hd : dequeue FUEL s ⟨.press c, since⟩ = .ok (s', cu)) : cu = .noEvent ∧ PressU T I B c s s' := by
  rw [FUEL_5] at hd
  simp only [dequeue, htde, bind, Except.bind] at hd
  split at hd
  · cases hd
  · rename_i order ho
    simp only [doAction] at hd
    split at hd
    · cases hd
    · rename_i a ls hm
      have hfa := resolve_pred (fun a => Frag1 a ∧ htT a ≤ T ∧ htI a ≤ I ∧ oshT a ≤ B)
        ⟨trivial, Nat.zero_le _, Nat.zero_le _, Nat.zero_le _⟩ ⟨trivial, Nat.zero_le _, Nat.zero_le _, Nat.zero_le _⟩ s c
        (fun tbl ht e he => ⟨hc.1 tbl ht e he, (hb.1.1 tbl ht e he).1, (hb.1.1 tbl ht e he).2, hb.2.1 tbl ht e he⟩)
        (fun e he => ⟨hc.2 e he, (hb.1.2 e he).1, (hb.1.2 e he).2, hb.2.2 e he⟩) _ _ _ hm
      obtain ⟨p1, p2, p3, p4⟩ := prelude_spec s c
      obtain ⟨r1, r2⟩ := dispatch_U 3995 T I B (prelude s c) a hfa.1 hfa.2 c since ls s' cu
        (p1.waiting.trans hw) (by rw [p3]; exact hq) hd
      refine ⟨r1, (FrameU.of_frame p1).trans r2.frame, (prelude_adds s c).trans r2.adds, ?_, ?_⟩
      · obtain ⟨ov, q1, q2⟩ := r2.osh
        exact ⟨ov, by rw [p2] at q1; exact q1, by rw [q2, p3]⟩
      · rcases r2.wait with ⟨g1, g2⟩ | g
        · exact Or.inl ⟨g1, Nat.le_trans g2 (prelude_lpt s c)⟩
        · exact Or.inr g

/-! ## the invariant and the potential -/

/-- **the invariant of the combined fragment** (relative to the keys that are physically `down`) -/
structure UInv (T I B d : Nat) (s : Layout) (down : List Coord) : Prop where
  extra : s.extraWaiting = []
  tde : s.tapDanceEager = none
  aq : s.actionQueue = []
  seqs : s.activeSequences = []
  states : ∀ st ∈ s.states, StOK st
  ignore : s.oneshot.ticksToIgnoreEvents = 0
  delay : s.oneshot.pauseInputProcessingDelay = d
  pause : s.oneshot.pauseInputProcessingTicks ≤ d
  load : oshLoad s.oneshot ≤ B + 1
  /-- the undecided tap-hold key: well-formed, and the key is down or its release is queued -/
  wok : ∀ w, s.waiting = some w → WOK T w ∧ (w.coord ∈ down ∨ ∃ x ∈ s.queue, x.ev = .release w.coord)
  cfg : Cfg1 s.cfg
  bound : BoundU s.cfg T I B
  qlen : s.queue.length ≤ QUEUE_SIZE
  qwf : QWF down s.queue
  /-- with no one-shot key active nothing is deferred and no release is requested -/
  idle : s.oneshot.keys = [] → s.oneshot.releasedKeys = [] ∧ s.oneshot.releaseOnNextTick = false
  /-- **no state is stranded**: the key is down, or its release is deferred by an active one-shot key,
  or its release is queued -/
  owned : ∀ st ∈ s.states, ∀ c, st.coord = some c →
    c ∈ down ∨ c ∈ s.oneshot.releasedKeys ∨ ∃ x ∈ s.queue, x.ev = .release c
  lpt : s.lptTapHoldTimeout ≤ I

/-- a freshly created layout satisfies the invariant -/
theorem init_uinv (cfg : LCfg) (hc : Cfg1 cfg) (T I B : Nat) (hb : BoundU cfg T I B) (tv2 dfl qth : Bool) (osd : Nat) :
    UInv T I B osd ({ cfg := cfg, transV2 := tv2, delegateToFirstLayer := dfl, quickTapHoldTimeout := qth,
                      oneshot := { pauseInputProcessingDelay := osd } } : Layout) [] :=
  ⟨rfl, rfl, rfl, rfl, fun _ h => (by cases h), rfl, rfl, Nat.zero_le _, Nat.zero_le _, fun _ h => (by cases h), hc, hb,
   Nat.zero_le _, trivial, fun _ => ⟨rfl, rfl⟩, fun _ h => (by cases h), Nat.zero_le _⟩

/-- weight of a queued press: it may start a tap-hold countdown (`T`, the decision tick and the pause
`d` after the decision), or an input pause `d`, a quick-tap window `I`, a one-shot countdown
(`B + 1`), and queue the release of a one-shot key that falls out of the table -/
def pressW (T I B d : Nat) : Nat := T + 2 * d + I + B + 2

/-- an upper bound for the ticks until the layout is at rest -/
def uPot (T I B d : Nat) (s : Layout) : Nat :=
  queueLoad (pressW T I B d) s.queue + wLoad d s.waiting + s.oneshot.pauseInputProcessingTicks +
    s.lptTapHoldTimeout + oshLoad s.oneshot

/-! ## first stage of a tick -/

theorem tickPre_U {T I B d : Nat} {s : Layout} {down : List Coord} (h : UInv T I B d s down) :
    tickPre s = { s with queue := age s.queue, lptTapHoldTimeout := s.lptTapHoldTimeout - 1,
                         histKeys := histTick s.histKeys, histInputs := histTick s.histInputs } := by
  unfold tickPre
  simp only [h.tde]
  simp (disch := first | exact h.seqs | exact h.states) only [C04.processSequences_inert]
  rfl

theorem UInv.pre {T I B d : Nat} {s : Layout} {down : List Coord} (h : UInv T I B d s down) :
    UInv T I B d (tickPre s) down ∧ (tickPre s).queue = age s.queue ∧ (tickPre s).waiting = s.waiting ∧
    (tickPre s).oneshot = s.oneshot ∧ (tickPre s).lptTapHoldTimeout = s.lptTapHoldTimeout - 1 ∧
    (tickPre s).cfg = s.cfg := by
  rw [tickPre_U h]
  refine ⟨⟨h.extra, h.tde, h.aq, h.seqs, h.states, h.ignore, h.delay, h.pause, h.load, ?_, h.cfg, h.bound,
    by simpa [age] using h.qlen, QWF_age _ h.qwf, h.idle, ?_, ?_⟩, rfl, rfl, rfl, rfl, rfl⟩
  · intro w hw
    obtain ⟨w1, w3⟩ := h.wok w hw
    refine ⟨w1, ?_⟩
    rcases w3 with g | g
    · exact Or.inl g
    · exact Or.inr (mem_age_release g)
  · intro st hst c hc
    rcases h.owned st hst c hc with g | g | g
    · exact Or.inl g
    · exact Or.inr (Or.inl g)
    · exact Or.inr (Or.inr (mem_age_release g))
  · show s.lptTapHoldTimeout - 1 ≤ I
    have := h.lpt; omega

/-! ## second stage: the one-shot countdown -/

/-- the one-shot stage keeps the invariant, leaves queue / waiting state / quick-tap tracker alone,
never raises the input pause, and takes one off the one-shot load -/
theorem UInv.osh {T I B d : Nat} {s : Layout} {down : List Coord} (h : UInv T I B d s down) :
    ∃ s1, tickOneshot s = .ok (s1, .noEvent) ∧ UInv T I B d s1 down ∧ s1.queue = s.queue ∧
      s1.waiting = s.waiting ∧ s1.lptTapHoldTimeout = s.lptTapHoldTimeout ∧ s1.cfg = s.cfg ∧
      oshLoad s1.oneshot ≤ oshLoad s.oneshot - 1 ∧
      s1.oneshot.pauseInputProcessingTicks ≤ s.oneshot.pauseInputProcessingTicks := by
  by_cases hk : s.oneshot.keys = []
  · exact ⟨s, tickOneshot_inactive hk, h, rfl, rfl, rfl, rfl,
      by rw [oshLoad_inactive hk]; exact Nat.zero_le _, Nat.le_refl _⟩
  · by_cases hf : s.oneshot.releaseOnNextTick = true ∨ s.oneshot.timeout ≤ 1
    · refine ⟨_, tickOneshot_fires h.states hk hf, ?_, rfl, rfl, rfl, rfl, Nat.zero_le _, Nat.zero_le _⟩
      refine ⟨h.extra, h.tde, h.aq, h.seqs, fun st hst => h.states st (mem_dropCoords.mp hst).1, rfl, h.delay,
        Nat.zero_le _, Nat.zero_le _, h.wok, h.cfg, h.bound, h.qlen, h.qwf, fun _ => ⟨rfl, rfl⟩, ?_, h.lpt⟩
      intro st hst c hc
      obtain ⟨m1, m2⟩ := mem_dropCoords.mp hst
      rcases h.owned st m1 c hc with h1 | h1 | h1
      · exact Or.inl h1
      · exact absurd hc (m2 c h1)
      · exact Or.inr (Or.inr h1)
    · have h1 : s.oneshot.releaseOnNextTick = false := by
        cases hr : s.oneshot.releaseOnNextTick
        · rfl
        · exact absurd (Or.inl hr) hf
      have h2 : 2 ≤ s.oneshot.timeout := by omega
      have hl := oshLoad_waits s.oneshot hk h1 h2
      refine ⟨_, tickOneshot_waits hk h1 h2, ?_, rfl, rfl, rfl, rfl, Nat.le_of_eq hl, Nat.le_refl _⟩
      exact ⟨h.extra, h.tde, h.aq, h.seqs, h.states, by simp [h.ignore], h.delay, h.pause,
        by rw [hl]; have := h.load; omega, h.wok, h.cfg, h.bound, h.qlen, h.qwf, fun hk' => absurd hk' hk, h.owned, h.lpt⟩

end KVerif.QU
