import KVerif.Spec.KeyId
set_option linter.unusedSimpArgs false
/-! Helper lemmas for C11.

Part A lifts kernel-checked facts about the *complete* generated tables to `∀` statements.  The
checks are arranged to be linear (or `n log n` through the generated search trees) in the table
size, so each `decide +kernel` takes a fraction of a second.  Part B are the inductive lemmas about
the list programs that build the set of intercepted keys. -/
namespace KVerif.KeyId
open KVerif.Gen.KeyTables KVerif

/-! ## generic list facts -/

instance instDecidableEqExcept {ε α : Type} [DecidableEq ε] [DecidableEq α] : DecidableEq (Except ε α)
  | .ok a, .ok b => if h : a = b then isTrue (h ▸ rfl) else isFalse (fun h' => h (Except.ok.inj h'))
  | .error a, .error b => if h : a = b then isTrue (h ▸ rfl) else isFalse (fun h' => h (Except.error.inj h'))
  | .ok _, .error _ => isFalse (fun h => nomatch h)
  | .error _, .ok _ => isFalse (fun h => nomatch h)

theorem lookup_mem {β : Type} : ∀ {l : List (Nat × β)} {k : Nat} {v : β},
    l.lookup k = some v → (k, v) ∈ l
  | [], _, _, h => by simp [List.lookup] at h
  | (a, b) :: l, k, v, h => by
    by_cases hk : k = a
    · subst hk
      simp [List.lookup] at h
      subst h
      exact List.mem_cons_self
    · have : (k == a) = false := by simpa using hk
      simp only [List.lookup, this] at h
      exact List.mem_cons_of_mem _ (lookup_mem h)

theorem lookup_isSome_of_mem {β : Type} : ∀ {l : List (Nat × β)} {k : Nat} {v : β},
    (k, v) ∈ l → ∃ v', l.lookup k = some v'
  | [], _, _, h => by simp at h
  | (a, b) :: l, k, v, h => by
    by_cases hk : k = a
    · subst hk
      exact ⟨b, by simp [List.lookup]⟩
    · have hne : (k == a) = false := by simpa using hk
      have hm : (k, v) ∈ l := by
        rcases List.mem_cons.1 h with h | h
        · exact absurd (congrArg Prod.fst h) hk
        · exact h
      obtain ⟨v', hv'⟩ := lookup_isSome_of_mem hm
      exact ⟨v', by simp only [List.lookup, hne]; exact hv'⟩

theorem lookup_none_of_not_mem {β : Type} {l : List (Nat × β)} {k : Nat}
    (h : ∀ v, (k, v) ∉ l) : l.lookup k = none := by
  cases hl : l.lookup k with
  | none => rfl
  | some v => exact absurd (lookup_mem hl) (h v)

/-- if `f` agrees with every entry of an association list, then it agrees with first-match lookup -/
theorem lookup_eq_of_all {l : List (Nat × Nat)} {f : Nat → Option Nat}
    (h : ∀ p ∈ l, f p.1 = some p.2) {k v : Nat} (hk : l.lookup k = some v) : f k = some v :=
  h (k, v) (lookup_mem hk)

theorem all_range_iff {n : Nat} {p : Nat → Bool} :
    (List.range n).all p = true ↔ ∀ v, v < n → p v = true := by
  simp [List.all_eq_true, List.mem_range]

/-- linear inclusion test for lists that are sorted the same way: sound for any lists -/
def subsetMerge : List Nat → List Nat → Bool
  | as, [] => as.isEmpty
  | as, b :: bs => subsetMerge (as.dropWhile (· == b)) bs

theorem mem_dropWhile_or {p : Nat → Bool} : ∀ {as : List Nat} {x : Nat}, x ∈ as →
    p x = true ∨ x ∈ as.dropWhile p
  | [], _, h => by simp at h
  | a :: as, x, h => by
    by_cases hp : p a = true
    · rcases List.mem_cons.1 h with h | h
      · subst h; exact Or.inl hp
      · rcases mem_dropWhile_or (p := p) h with h' | h'
        · exact Or.inl h'
        · right; simp only [List.dropWhile, hp]; exact h'
    · right
      have : p a = false := by simpa using hp
      simp only [List.dropWhile, this]; exact h

theorem subsetMerge_sound : ∀ {bs as : List Nat}, subsetMerge as bs = true → ∀ x ∈ as, x ∈ bs
  | [], as, h, x, hx => by
    simp [subsetMerge] at h
    subst h
    simp at hx
  | b :: bs, as, h, x, hx => by
    simp only [subsetMerge] at h
    rcases mem_dropWhile_or (p := (· == b)) hx with hx | hx
    · have : x = b := by simpa using hx
      subst this
      exact List.mem_cons_self
    · exact List.mem_cons_of_mem _ (subsetMerge_sound h x hx)

/-! ## search trees -/

theorem NatTree.find_mem : ∀ {t : NatTree} {k v : Nat}, t.find k = some v → (k, v) ∈ t.toList
  | .leaf, _, _, h => by simp [NatTree.find] at h
  | .node l a b r, k, v, h => by
    simp only [NatTree.find] at h
    simp only [NatTree.toList, List.mem_append, List.mem_cons]
    split at h
    · exact Or.inl (NatTree.find_mem h)
    · split at h
      · exact Or.inr (Or.inr (NatTree.find_mem h))
      · have : k = a := by omega
        simp at h
        subst h; subst this
        exact Or.inr (Or.inl rfl)

/-! ## name encoding -/

/-- the encoding of key names is injective on lists of code points (all < 10^7 - 1) -/
theorem encName_injective : ∀ {a b : List Nat}, (∀ c ∈ a, c + 1 < nameBase) → (∀ c ∈ b, c + 1 < nameBase) →
    encName a = encName b → a = b
  | [], [], _, _, _ => rfl
  | [], c :: cs, _, _, h => by
    simp only [encName, nameBase] at h
    omega
  | c :: cs, [], _, _, h => by
    simp only [encName, nameBase] at h
    omega
  | c :: cs, d :: ds, ha, hb, h => by
    simp only [encName] at h
    have hc := ha c List.mem_cons_self
    have hd := hb d List.mem_cons_self
    simp only [nameBase] at h hc hd
    have hcd : c = d := by omega
    have : cs = ds := encName_injective (fun x hx => ha x (List.mem_cons_of_mem _ hx))
      (fun x hx => hb x (List.mem_cons_of_mem _ hx)) (by omega)
    rw [hcd, this]

/-! ## Part A: the tables -/

/-- the two discriminant lists are the same list -/
theorem discs_eq : osCodeDiscs = keyCodeDiscs := by decide +kernel

theorem isOsCode_eq_isKeyCode (v : Nat) : isOsCode v = isKeyCode v := by
  simp only [isOsCode, isKeyCode, discs_eq]

theorem arms_id : fromU16Arms.all (fun p => p.1 == p.2) = true := by decide +kernel

theorem fromU16_id {v c : Nat} (h : fromU16 v = some c) : c = v := by
  have := (List.all_eq_true.1 arms_id) (v, c) (lookup_mem h)
  have : v = c := by simpa using this
  exact this.symm

theorem arms_in_discs : subsetMerge (fromU16Arms.map (·.2)) osCodeDiscs = true := by decide +kernel

theorem fromU16_isOsCode {v c : Nat} (h : fromU16 v = some c) : isOsCode c = true := by
  have hm : c ∈ fromU16Arms.map (·.2) := List.mem_map.2 ⟨(v, c), lookup_mem h, rfl⟩
  have := subsetMerge_sound arms_in_discs c hm
  simpa [isOsCode] using this

theorem accepted_iff {v : Nat} : accepted v = true ↔ fromU16 v = some v := by
  constructor
  · intro h
    cases hf : fromU16 v with
    | none => simp [accepted, hf] at h
    | some c => rw [fromU16_id hf]
  · intro h
    simp [accepted, h]

theorem accepted_isOsCode {v : Nat} (h : accepted v = true) : isOsCode v = true :=
  fromU16_isOsCode (accepted_iff.1 h)

theorem accepted_isKeyCode {v : Nat} (h : accepted v = true) : isKeyCode v = true := by
  rw [← isOsCode_eq_isKeyCode]; exact accepted_isOsCode h

theorem arms_not_unassigned : fromU16Arms.all (fun p => !Spec.unassigned p.1) = true := by decide +kernel

theorem known_sub_arms :
    subsetMerge (osCodeDiscs.filter (fun v => !Spec.unassigned v)) (fromU16Arms.map (·.1)) = true := by
  decide +kernel

theorem accepted_eq_known (v : Nat) : accepted v = Spec.known v := by
  apply Bool.eq_iff_iff.2
  constructor
  · intro h
    have h1 := accepted_isOsCode h
    have h2 := (List.all_eq_true.1 arms_not_unassigned) (v, v) (lookup_mem (accepted_iff.1 h))
    simp only [Spec.known, h1, Bool.true_and]
    exact h2
  · intro h
    simp only [Spec.known, Bool.and_eq_true] at h
    have hm : v ∈ osCodeDiscs.filter (fun v => !Spec.unassigned v) := by
      apply List.mem_filter.2
      exact ⟨by simpa [isOsCode] using h.1, h.2⟩
    have := subsetMerge_sound known_sub_arms v hm
    obtain ⟨p, hp, hpv⟩ := List.mem_map.1 this
    obtain ⟨c, hc⟩ := lookup_isSome_of_mem (l := fromU16Arms) (k := v) (v := p.2) (by rw [← hpv]; exact hp)
    simp [accepted, fromU16, hc]

/-- the generated tree over `fromU16Arms` lists exactly the arms -/
theorem fromU16Tree_toList : fromU16Tree.toList = fromU16Arms := by decide +kernel

theorem accepted_of_tree {c : Nat} (h : (fromU16Tree.find c).isSome = true) : accepted c = true := by
  cases hf : fromU16Tree.find c with
  | none => simp [hf] at h
  | some v =>
    have hm := NatTree.find_mem hf
    rw [fromU16Tree_toList] at hm
    obtain ⟨v', hv'⟩ := lookup_isSome_of_mem hm
    simp [accepted, fromU16, hv']

/-! ### key names -/

theorem defaultCustom_eq : defaultCustom = defaultMappings := by decide +kernel

theorem nameTree_arms : nameArms.all (fun p => nameTree.find p.1 == some p.2) = true := by decide +kernel

theorem defaults_functional :
    defaultMappings.all (fun p => defaultMappings.lookup p.1 == some p.2) = true := by decide +kernel

/-- a default mapping and a `match` arm never give the same name different codes -/
theorem defaults_agree_arms :
    defaultMappings.all (fun p => (nameTree.find p.1).all (· == p.2)) = true := by decide +kernel

/-- logarithmic stand-in for `strToOscode defaultCustom` -/
def fastLookup (n : Name) : Option Nat :=
  match defaultMappings.lookup n with
  | some c => some c
  | none => nameTree.find n

theorem nameArms_lookup_tree {n c : Nat} (h : nameArms.lookup n = some c) : nameTree.find n = some c := by
  have := (List.all_eq_true.1 nameTree_arms) (n, c) (lookup_mem h)
  simpa using this

theorem fastLookup_of_strToOscode {n c : Nat} (h : strToOscode defaultCustom n = some c) :
    fastLookup n = some c := by
  simp only [strToOscode, defaultCustom_eq] at h
  simp only [fastLookup]
  cases hd : defaultMappings.lookup n with
  | some c' => simp only [hd] at h ⊢; exact h
  | none => simp only [hd] at h ⊢; exact nameArms_lookup_tree h

/-- every entry of both tables is what `str_to_oscode` returns for that name -/
theorem strToOscode_of_mem {n c : Nat} (h : (n, c) ∈ defaultMappings ++ nameArms) :
    strToOscode defaultCustom n = some c := by
  simp only [strToOscode, defaultCustom_eq]
  rcases List.mem_append.1 h with h | h
  · have := (List.all_eq_true.1 defaults_functional) (n, c) h
    have : defaultMappings.lookup n = some c := by simpa using this
    simp [this]
  · have ht : nameTree.find n = some c := by
      have := (List.all_eq_true.1 nameTree_arms) (n, c) h
      simpa using this
    cases hd : defaultMappings.lookup n with
    | some c' =>
      have := (List.all_eq_true.1 defaults_agree_arms) (n, c') (lookup_mem hd)
      simp only [ht, Option.all_some] at this
      have : c = c' := by simpa using this
      simp [this]
    | none =>
      obtain ⟨c', hc'⟩ := lookup_isSome_of_mem h
      have := nameArms_lookup_tree hc'
      rw [ht] at this
      simp only [hc']
      exact this.symm ▸ rfl

theorem name_codes_ok :
    (defaultMappings ++ nameArms).all
      (fun p => (fromU16Tree.find p.2).isSome && p.2 != 0 && decide (p.2 < keysInRow) && p.2 != keyCodeNo) = true := by
  decide +kernel

theorem strToOscode_default_mem {n c : Nat} (h : strToOscode defaultCustom n = some c) :
    (n, c) ∈ defaultMappings ++ nameArms := by
  simp only [strToOscode, defaultCustom_eq] at h
  cases hd : defaultMappings.lookup n with
  | some c' =>
    simp only [hd] at h
    cases h
    exact List.mem_append_left _ (lookup_mem hd)
  | none =>
    simp only [hd] at h
    exact List.mem_append_right _ (lookup_mem h)

/-- every built-in key name denotes a code kanata knows, other than 0 and the no-op key code, and
    small enough to index a layer row -/
theorem name_code_known {n c : Nat} (h : strToOscode defaultCustom n = some c) :
    accepted c = true ∧ c ≠ 0 ∧ c < keysInRow ∧ c ≠ keyCodeNo := by
  have := (List.all_eq_true.1 name_codes_ok) (n, c) (strToOscode_default_mem h)
  simp only [Bool.and_eq_true, bne_iff_ne, ne_eq, decide_eq_true_eq] at this
  exact ⟨accepted_of_tree this.1.1.1, this.1.1.2, this.1.2, this.2⟩

/-! ### action atoms -/

theorem listActions_not_keys : listActionNames.all (fun a => fastLookup a == none) = true := by decide +kernel
theorem transAtoms_not_keys : transAtoms.all (fun a => fastLookup a == none) = true := by decide +kernel
theorem noopAtoms_not_keys : noopAtoms.all (fun a => fastLookup a == none) = true := by decide +kernel
theorem errAtoms_not_keys : topLevelErrorAtoms.all (fun a => fastLookup a == none) = true := by decide +kernel
theorem mouseAtoms_keys : mouseActionAtoms.all (fun p => fastLookup p.1 == some p.2
    && (mouseBtnCodes.contains p.2 || mouseWheelCodes.contains p.2)) = true := by decide +kernel
theorem specialAtoms_keys : specialActionAtoms.all (fun a =>
    match mouseActionAtoms.lookup a with
    | some _ => true
    | none => fastLookup a == none) = true := by decide +kernel

/-! ### canonical names -/

theorem canon_agree : (osCodeCanonNames ++ keyCodeDisplay).all (fun p =>
    Spec.canonExceptions.contains p.1 || fastLookup p.1 == none || fastLookup p.1 == some p.2) = true := by
  decide +kernel

/-! ### output filter -/

theorem nop_only : (defaultMappings ++ nameArms).all (fun p => !ignored p.2 || Spec.nopNames.contains p.1) = true := by
  decide +kernel

/-- no accepted code lies beyond `KEYS_IN_ROW` (`KEY_MAX` itself is the only one not below it) -/
theorem arms_le_keysInRow : fromU16Arms.all (fun p => decide (p.1 ≤ keysInRow)) = true := by decide +kernel

theorem mouse_not_ignored : (mouseBtnCodes ++ mouseWheelCodes).all (fun c => !ignored c) = true := by decide
theorem wheel_not_btn : mouseWheelCodes.all (fun c => !mouseBtnCodes.contains c) = true := by decide


/-! ## Part B: the set of intercepted keys (induction over the list programs) -/

theorem mem_setInsert {x c : Nat} {s : List Nat} : x ∈ setInsert c s ↔ x = c ∨ x ∈ s := by
  unfold setInsert
  split
  · rename_i h
    have hc : c ∈ s := by simpa using h
    constructor
    · exact Or.inr
    · rintro (rfl | h') <;> assumption
  · simp only [List.mem_append, List.mem_singleton]
    constructor
    · rintro (h | h); exact Or.inr h; exact Or.inl h
    · rintro (h | h); exact Or.inr h; exact Or.inl h

theorem keyCodeOfOsCode_ok {c k : Nat} (h : keyCodeOfOsCode c = .ok k) : k = c := by
  unfold keyCodeOfOsCode at h
  split at h
  · cases h; rfl
  · cases h

theorem keyCodeOfOsCode_accepted {c : Nat} (h : accepted c = true) : keyCodeOfOsCode c = .ok c := by
  simp [keyCodeOfOsCode, accepted_isKeyCode h]

theorem osCodeOfKeyCode_accepted {c : Nat} (h : accepted c = true) : osCodeOfKeyCode c = .ok c := by
  simp [osCodeOfKeyCode, accepted_isOsCode h]

/-- `parse_deflocalkeys` keeps the pairs as written (the number *is* the code) -/
theorem parseLocalKeys_eq : ∀ (l acc r : List (Name × Nat)), parseLocalKeys acc l = .ok r → r = acc ++ l
  | [], acc, r, h => by simp [parseLocalKeys] at h; simp [h]
  | (n, v) :: l, acc, r, h => by
    simp only [parseLocalKeys] at h
    split at h
    · cases h
    · split at h
      · cases h
      · rename_i c hc
        have := parseLocalKeys_eq l _ _ h
        have hc' : fromU16 v = some c := by
          cases hf : fromU16 v with
          | none => simp [hf] at hc
          | some c' => simp only [hf, Option.filter_some] at hc; split at hc <;> simp_all
        rw [this, fromU16_id hc']
        simp

/-- every number given in an accepted deflocalkeys is a code `from_u16` accepts -/
theorem parseLocalKeys_accepted : ∀ (l acc r : List (Name × Nat)), parseLocalKeys acc l = .ok r →
    ∀ p ∈ l, accepted p.2 = true
  | [], _, _, _, p, hp => by simp at hp
  | (n, v) :: l, acc, r, h, p, hp => by
    simp only [parseLocalKeys] at h
    split at h
    · cases h
    · split at h
      · cases h
      · rename_i c hc
        rcases List.mem_cons.1 hp with hp | hp
        · subst hp
          cases hf : fromU16 v with
          | none => simp [hf] at hc
          | some c' => simp [accepted, hf]
        · exact parseLocalKeys_accepted l _ _ h p hp

theorem defsrcKeys_mem (custom : List (Name × Nat)) : ∀ (ns : List Name) (acc m : List Nat),
    defsrcKeys custom acc ns = .ok m →
    ∀ x, x ∈ m ↔ x ∈ acc ∨ x ∈ ns.filterMap (strToOscode custom)
  | [], acc, m, h, x => by
    simp [defsrcKeys] at h; subst h; simp
  | n :: ns, acc, m, h, x => by
    simp only [defsrcKeys] at h
    split at h
    · cases h
    · rename_i c hc
      split at h
      · cases h
      · rw [defsrcKeys_mem custom ns _ _ h x]
        simp only [List.mem_append, List.filterMap_cons, hc, List.mem_cons, List.not_mem_nil, or_false]
        constructor
        · rintro ((h | h) | h)
          · exact Or.inl h
          · exact Or.inr (Or.inl h)
          · exact Or.inr (Or.inr h)
        · rintro (h | h | h)
          · exact Or.inl (Or.inl h)
          · exact Or.inl (Or.inr h)
          · exact Or.inr h

theorem parseExceptions_mem (custom : List (Name × Nat)) : ∀ (ns : List Name) (acc m : List Nat),
    parseExceptions custom acc ns = .ok m →
    ∀ x, x ∈ m ↔ x ∈ acc ∨ x ∈ ns.filterMap (strToOscode custom)
  | [], acc, m, h, x => by
    simp [parseExceptions] at h; subst h; simp
  | n :: ns, acc, m, h, x => by
    simp only [parseExceptions] at h
    split at h
    · cases h
    · rename_i c hc
      split at h
      · cases h
      · rw [parseExceptions_mem custom ns _ _ h x]
        simp only [List.mem_append, List.filterMap_cons, hc, List.mem_cons, List.not_mem_nil, or_false]
        constructor
        · rintro ((h | h) | h)
          · exact Or.inl h
          · exact Or.inr (Or.inl h)
          · exact Or.inr (Or.inr h)
        · rintro (h | h | h)
          · exact Or.inl (Or.inl h)
          · exact Or.inl (Or.inr h)
          · exact Or.inr h

theorem pukExceptions_mem (custom : List (Name × Nat)) (puk : Puk) (exc : List Nat)
    (h : pukExceptions custom puk = .ok exc) :
    ∀ x, x ∈ exc ↔ x ∈ (Spec.pukNames puk).filterMap (strToOscode custom) := by
  intro x
  cases puk with
  | no => simp [pukExceptions] at h; subst h; simp [Spec.pukNames]
  | yes => simp [pukExceptions] at h; subst h; simp [Spec.pukNames]
  | allExcept ns =>
    cases ns with
    | nil => simp [pukExceptions] at h
    | cons n ns =>
      simp only [pukExceptions] at h
      have := parseExceptions_mem custom (n :: ns) [] exc h x
      simpa [Spec.pukNames] using this

/-- one step of the process-unmapped-keys loop never crashes (every discriminant `from_u16`
    returns exists in `KeyCode`) and adds exactly the code it looks at, if any -/
theorem pukStep_ok (exc mk : List Nat) (i : Nat) :
    ∃ mk', pukStep exc (.ok mk) i = .ok mk' ∧
      ∀ x, x ∈ mk' ↔ x ∈ mk ∨ (x = i ∧ accepted i = true ∧ i ≠ keyCodeNo ∧ i ∉ exc) := by
  unfold pukStep
  cases hf : fromU16 i with
  | none =>
    refine ⟨mk, rfl, fun x => ?_⟩
    have : accepted i = false := by simp [accepted, hf]
    simp [this]
  | some c =>
    have hci : c = i := fromU16_id hf
    subst hci
    have hacc : accepted c = true := by simp [accepted, hf]
    simp only [keyCodeOfOsCode_accepted hacc]
    by_cases hno : c = keyCodeNo
    · refine ⟨mk, by simp [hno], fun x => ?_⟩
      simp [hno]
    · by_cases hex : c ∈ exc
      · refine ⟨mk, by simp [hno, hex], fun x => ?_⟩
        simp [hex]
      · refine ⟨setInsert c mk, by simp [hno, hex], fun x => ?_⟩
        rw [mem_setInsert]
        simp only [hacc, hno, hex, ne_eq, not_false_eq_true, and_self, and_true]
        constructor
        · rintro (h | h); exact Or.inr h; exact Or.inl h
        · rintro (h | h); exact Or.inr h; exact Or.inl h

theorem foldl_pukStep (exc : List Nat) : ∀ (is mk : List Nat),
    ∃ m, is.foldl (pukStep exc) (.ok mk) = .ok m ∧
      ∀ x, x ∈ m ↔ x ∈ mk ∨ (x ∈ is ∧ accepted x = true ∧ x ≠ keyCodeNo ∧ x ∉ exc)
  | [], mk => ⟨mk, rfl, fun x => by simp⟩
  | i :: is, mk => by
    obtain ⟨mk', h1, h2⟩ := pukStep_ok exc mk i
    obtain ⟨m, h3, h4⟩ := foldl_pukStep exc is mk'
    refine ⟨m, by simp only [List.foldl, h1]; exact h3, fun x => ?_⟩
    rw [h4 x, h2 x]
    simp only [List.mem_cons]
    constructor
    · rintro ((h | ⟨rfl, ha, hb, hc⟩) | ⟨ha, hb⟩)
      · exact Or.inl h
      · exact Or.inr ⟨Or.inl rfl, ha, hb, hc⟩
      · exact Or.inr ⟨Or.inr ha, hb⟩
    · rintro (h | ⟨(rfl | ha), hb⟩)
      · exact Or.inl (Or.inl h)
      · exact Or.inl (Or.inr ⟨rfl, hb⟩)
      · exact Or.inr ⟨ha, hb⟩

/-- the process-unmapped-keys loop: total, and it adds every known key below `KEYS_IN_ROW` other
    than the no-op key code and the exceptions -/
theorem pukLoop_spec (exc mk : List Nat) :
    ∃ m, pukLoop exc mk = .ok m ∧
      ∀ x, x ∈ m ↔ x ∈ mk ∨ (x < keysInRow ∧ accepted x = true ∧ x ≠ keyCodeNo ∧ x ∉ exc) := by
  obtain ⟨m, h1, h2⟩ := foldl_pukStep exc (List.range keysInRow) mk
  exact ⟨m, h1, fun x => by rw [h2 x, List.mem_range]⟩

def lmKeyName (p : LmIn × Name) : Option Name :=
  match p.1 with
  | .key n => some n
  | _ => none

theorem lmPairs_mem (custom : List (Name × Nat)) (puk : Bool) (order : List Nat) :
    ∀ (pairs : List (LmIn × Name)) (st st' : LmState), lmPairs custom puk order st pairs = .ok st' →
    ∀ x, x ∈ st'.mapped ↔ x ∈ st.mapped ∨ x ∈ (pairs.filterMap lmKeyName).filterMap (strToOscode custom)
  | [], st, st', h, x => by
    simp [lmPairs] at h; subst h; simp
  | (i, a) :: rest, st, st', h, x => by
    simp only [lmPairs] at h
    split at h
    · cases h
    · cases h
    · cases i with
      | any1 =>
        simp only at h
        split at h
        · cases h
        · split at h
          · cases h
          · split at h
            · cases h
            · rw [lmPairs_mem custom puk order rest _ _ h x]
              simp [lmKeyName]
      | any2 =>
        simp only at h
        split at h
        · cases h
        · split at h
          · cases h
          · split at h
            · cases h
            · rw [lmPairs_mem custom puk order rest _ _ h x]
              simp [lmKeyName]
      | any3 =>
        simp only at h
        split at h
        · cases h
        · split at h
          · cases h
          · split at h
            · cases h
            · split at h
              · cases h
              · rw [lmPairs_mem custom puk order rest _ _ h x]
                simp [lmKeyName]
      | key n =>
        simp only at h
        split at h
        · cases h
        · rename_i c hc
          split at h
          · cases h
          · split at h
            · cases h
            · rw [lmPairs_mem custom puk order rest _ _ h x]
              simp only [mem_setInsert, List.filterMap_cons, lmKeyName, hc, List.mem_cons]
              constructor
              · rintro ((h | h) | h)
                · exact Or.inr (Or.inl h)
                · exact Or.inl h
                · exact Or.inr (Or.inr h)
              · rintro (h | h | h)
                · exact Or.inl (Or.inr h)
                · exact Or.inl (Or.inl h)
                · exact Or.inr h

theorem layerInputs_eq (l : Layer) : Spec.layerInputs l =
    match l with
    | .plain _ => []
    | .map pairs => pairs.filterMap lmKeyName := by
  cases l <;> simp only [Spec.layerInputs] <;> rfl

theorem parseLayers_mem (custom : List (Name × Nat)) (puk : Bool) (order : List Nat) :
    ∀ (layers : List Layer) (mapped : List Nat) (rows : List Row) (m : List Nat) (rows' : List Row),
    parseLayers custom puk order mapped rows layers = .ok (m, rows') →
    ∀ x, x ∈ m ↔ x ∈ mapped ∨ x ∈ (layers.flatMap Spec.layerInputs).filterMap (strToOscode custom)
  | [], mapped, rows, m, rows', h, x => by
    simp [parseLayers] at h; simp [h.1]
  | .plain acts :: rest, mapped, rows, m, rows', h, x => by
    simp only [parseLayers] at h
    split at h
    · rw [parseLayers_mem custom puk order rest _ _ _ _ h x]
      simp [Spec.layerInputs]
    · cases h
    · cases h
  | .map pairs :: rest, mapped, rows, m, rows', h, x => by
    simp only [parseLayers] at h
    split at h
    · rename_i st hst
      rw [parseLayers_mem custom puk order rest _ _ _ _ h x, lmPairs_mem custom puk order pairs _ _ hst x]
      simp only [List.flatMap_cons, List.filterMap_append, List.mem_append, layerInputs_eq]
      constructor
      · rintro ((h | h) | h)
        · exact Or.inl h
        · exact Or.inr (Or.inl h)
        · exact Or.inr (Or.inr h)
      · rintro (h | h | h)
        · exact Or.inl (Or.inl h)
        · exact Or.inl (Or.inr h)
        · exact Or.inr h
    · cases h
    · cases h


theorem accepted_le_keysInRow {v : Nat} (h : accepted v = true) : v ≤ keysInRow := by
  have := (List.all_eq_true.1 arms_le_keysInRow) (v, v) (lookup_mem (accepted_iff.1 h))
  simpa using this

/-! ### the defsrc layer -/

def defsrcFn (v : Nat) : Act := if v = 0 then .noOp else if accepted v then .keyCode v else .noOp

theorem defsrcEntry_eq (i : Nat) : defsrcEntry i = .ok (defsrcFn i) := by
  unfold defsrcEntry defsrcFn
  cases hf : fromU16 i with
  | none => simp [accepted, hf]
  | some c =>
    have hci : c = i := fromU16_id hf
    subst hci
    have hacc : accepted c = true := by simp [accepted, hf]
    simp [keyCodeOfOsCode_accepted hacc, hacc]

theorem mapE_ok {α β : Type} {f : α → Except Crash β} {g : α → β} :
    ∀ (l : List α), (∀ x ∈ l, f x = .ok (g x)) → mapE f l = .ok (l.map g)
  | [], _ => rfl
  | x :: xs, h => by
    simp only [mapE, h x List.mem_cons_self, mapE_ok xs (fun y hy => h y (List.mem_cons_of_mem _ hy)),
      List.map_cons]

theorem createDefsrcLayer_eq : createDefsrcLayer = .ok ((List.range keysInRow).map defsrcFn) :=
  mapE_ok _ (fun x _ => defsrcEntry_eq x)

/-! ### a tap -/

theorem getElem?_range_map {β : Type} {n v : Nat} (f : Nat → β) (h : v < n) : ((List.range n).map f)[v]? = some (f v) := by
  simp [h]

theorem reservedCodes_eq :
    Spec.reservedCodes = List.range' keyIgnoreMin (keyIgnoreMax + 1 - keyIgnoreMin) := by decide +kernel

/-- the ignored output range is exactly the set of codes the names `nop0 … nop9` denote -/
theorem ignored_eq_reserved (v : Nat) : ignored v = Spec.reserved v := by
  unfold Spec.reserved ignored
  rw [reservedCodes_eq]
  apply Bool.eq_iff_iff.2
  simp only [Bool.and_eq_true, decide_eq_true_eq, List.contains_iff_mem, List.mem_range'_1]
  omega

theorem pressRelease_eq (v : Nat) : pressKey v ++ releaseKey v = Spec.tapSpec true v := by
  unfold pressKey releaseKey Spec.tapSpec
  rw [← ignored_eq_reserved]
  by_cases hi : ignored v = true
  · simp [hi]
  · by_cases hb : v ∈ mouseBtnCodes
    · simp [hi, hb]
    · by_cases hw : v ∈ mouseWheelCodes
      · simp [hi, hb, hw]
      · simp [hi, hb, hw]

theorem resolveTrans_trans (v : Nat) (hv : accepted v = true) (h0 : v ≠ 0) (hlt : v < keysInRow) :
    resolveTrans .trans v = .ok (.keyCode v) := by
  unfold resolveTrans
  rw [createDefsrcLayer_eq]
  simp only [resolveTransWith]
  rw [getElem?_range_map _ hlt]
  simp only [defsrcFn, h0, hv, ↓reduceIte]

theorem resolveTrans_other (a : Act) (v : Nat) (h : a ≠ .trans) : resolveTrans a v = .ok a := by
  unfold resolveTrans resolveTransWith
  cases a <;> first | exact absurd rfl h | rfl

theorem layerAt_eq (row : Row) (v : Nat) (h0 : v ≠ 0) (hlt : v < keysInRow) :
    layerAt row v = .ok ((row.lookup v).getD .trans) := by
  unfold layerAt
  have hnl : ¬ v ≥ keysInRow := by omega
  rw [if_neg hnl, if_neg h0]

theorem emit_keyCode (v : Nat) (hv : accepted v = true) : emit (.keyCode v) = .ok (Spec.tapSpec true v) := by
  simp only [emit, osCodeOfKeyCode_accepted hv, pressRelease_eq]

theorem tap_identity (mapped : List Nat) (row : Row) (v : Nat)
    (hv : accepted v = true) (h0 : v ≠ 0) (hlt : v < keysInRow)
    (hrow : row.lookup v = none ∨ row.lookup v = some .trans ∨
      (row.lookup v = some (.keyCode v) ∨
       (row.lookup v = some (.mouseBtn v) ∧ mouseBtnCodes.contains v = true) ∨
       (row.lookup v = some (.mouseWheel v) ∧ mouseWheelCodes.contains v = true))) :
    tap mapped row v = .ok (Spec.tapSpec (mapped.contains v) v) := by
  unfold tap
  cases hm : mapped.contains v with
  | false => simp [Spec.tapSpec]
  | true =>
    have hsrc := resolveTrans_trans v hv h0 hlt
    have hemit := emit_keyCode v hv
    rw [layerAt_eq row v h0 hlt]
    simp only [Bool.not_true, Bool.false_eq_true, ↓reduceIte]
    rcases hrow with h | h | h | ⟨h, hb⟩ | ⟨h, hw⟩
    · rw [h, Option.getD_none, hsrc]; exact hemit
    · rw [h, Option.getD_some, hsrc]; exact hemit
    · rw [h, Option.getD_some, resolveTrans_other _ _ (by simp)]; exact hemit
    · have hb' : v ∈ mouseBtnCodes := by simpa using hb
      have hi : ignored v = false := by
        have := (List.all_eq_true.1 mouse_not_ignored) v (List.mem_append_left _ hb')
        simpa using this
      rw [h, Option.getD_some, resolveTrans_other _ _ (by simp)]
      show emit (.mouseBtn v) = _
      simp [emit, Spec.tapSpec, ← ignored_eq_reserved, hi, hb']
    · have hw' : v ∈ mouseWheelCodes := by simpa using hw
      have hi : ignored v = false := by
        have := (List.all_eq_true.1 mouse_not_ignored) v (List.mem_append_right _ hw')
        simpa using this
      have hb : v ∉ mouseBtnCodes := by
        have := (List.all_eq_true.1 wheel_not_btn) v hw'
        simpa using this
      rw [h, Option.getD_some, resolveTrans_other _ _ (by simp)]
      show emit (.mouseWheel v) = _
      simp [emit, Spec.tapSpec, ← ignored_eq_reserved, hi, hb, hw']

/-! ### the whole slice -/

theorem parseCfg_mapped (cfg : Config) (p : Parsed) (h : parseCfg cfg = .ok p) :
    ∀ x, x ∈ p.mapped ↔ x ∈ Spec.mappedSpec cfg := by
  intro x
  unfold parseCfg at h
  split at h
  · cases h
  · rename_i lk hlk
    have hlk' : lk = cfg.localKeys := by simpa using parseLocalKeys_eq _ _ _ hlk
    subst hlk'
    simp only at h
    split at h
    · cases h
    · rename_i exc hexc
      split at h
      · cases h
      · rename_i mk hmk
        split at h
        · cases h
        · split at h
          · cases h
          · rename_i mk2 hmk2
            split at h
            · cases h
            · cases h
            · rename_i m rows hl
              have h := Outcome.ok.inj h
              subst h
              simp only
              rw [parseLayers_mem _ _ _ _ _ _ _ _ hl x]
              have hexc' := pukExceptions_mem _ _ _ hexc
              have hmk' := defsrcKeys_mem _ _ _ _ hmk
              unfold Spec.mappedSpec
              simp only [List.mem_append, List.mem_filter, List.mem_range]
              cases hpuk : pukOn cfg.puk with
              | false =>
                simp only [hpuk, Bool.false_eq_true, ↓reduceIte, Except.ok.injEq] at hmk2
                subst hmk2
                simp [hmk' x]
              | true =>
                simp only [hpuk, ↓reduceIte] at hmk2
                obtain ⟨m', hm', hmem⟩ := pukLoop_spec exc mk
                rw [hm'] at hmk2
                cases hmk2
                rw [hmem x, hmk' x]
                simp only [List.not_mem_nil, false_or, ↓reduceIte, List.mem_filter, List.mem_range,
                  Bool.and_eq_true, bne_iff_ne, ne_eq, Bool.not_eq_true', List.contains_eq_mem,
                  decide_eq_false_iff_not, ← hexc' x]
                constructor
                · rintro ((h | ⟨h1, h2, h3, h4⟩) | h)
                  · exact Or.inl (Or.inl h)
                  · exact Or.inr ⟨h1, ⟨h2, h3⟩, h4⟩
                  · exact Or.inl (Or.inr h)
                · rintro ((h | h) | ⟨h1, ⟨h2, h3⟩, h4⟩)
                  · exact Or.inl (Or.inl h)
                  · exact Or.inr h
                  · exact Or.inl (Or.inr ⟨h1, h2, h3, h4⟩)


/-! ### crashes of the slice -/

theorem foldl_orInsert_mem (p : Name × Nat) : ∀ (ds m : List (Name × Nat)),
    p ∈ ds.foldl (fun m d => if (m.lookup d.1).isSome then m else m ++ [d]) m → p ∈ m ∨ p ∈ ds
  | [], m, h => Or.inl h
  | d :: ds, m, h => by
    simp only [List.foldl] at h
    rcases foldl_orInsert_mem p ds _ h with h | h
    · split at h
      · exact Or.inl h
      · rcases List.mem_append.1 h with h | h
        · exact Or.inl h
        · simp only [List.mem_singleton] at h
          exact Or.inr (h ▸ List.mem_cons_self)
    · exact Or.inr (List.mem_cons_of_mem _ h)

def CodesAccepted (custom : List (Name × Nat)) : Prop := ∀ p ∈ custom, accepted p.2 = true

theorem builtin_codes_accepted : CodesAccepted (defaultMappings ++ nameArms) := by
  intro p hp
  have := (List.all_eq_true.1 name_codes_ok) p hp
  simp only [Bool.and_eq_true] at this
  exact accepted_of_tree this.1.1.1

theorem replaceCustom_accepted {lk : List (Name × Nat)} (h : CodesAccepted lk) :
    CodesAccepted (replaceCustom lk) := by
  intro p hp
  rcases foldl_orInsert_mem p _ _ hp with hp | hp
  · exact h p hp
  · exact builtin_codes_accepted p (List.mem_append_left _ hp)

theorem strToOscode_accepted {custom : List (Name × Nat)} (hc : CodesAccepted custom) {n c : Nat}
    (h : strToOscode custom n = some c) : accepted c = true := by
  unfold strToOscode at h
  cases hl : custom.lookup n with
  | some c' =>
    simp only [hl] at h
    cases h
    exact hc _ (lookup_mem hl)
  | none =>
    simp only [hl] at h
    exact builtin_codes_accepted (n, c) (List.mem_append_right _ (lookup_mem h))

theorem parseActionAtom_no_error {custom : List (Name × Nat)} (hc : CodesAccepted custom) (a : Name) (e : Crash) :
    parseActionAtom custom a ≠ some (.error e) := by
  intro he
  unfold parseActionAtom at he
  repeat' split at he
  all_goals first
    | (cases he; done)
    | skip
  rename_i hs _ _ hk
  rw [keyCodeOfOsCode_accepted (strToOscode_accepted hc hs)] at hk
  cases hk

theorem parseAct_no_crash {custom : List (Name × Nat)} (hc : CodesAccepted custom) (a : Name) (c : Crash) :
    parseAct custom a ≠ .crash c := by
  intro h
  unfold parseAct at h
  split at h
  · cases h
  · rename_i e he
    exact parseActionAtom_no_error hc a e he
  · cases h

theorem oob_is_key_max {i : Nat} (ha : accepted i = true) (hge : i ≥ keysInRow) : i = keysInRow := by
  have := accepted_le_keysInRow ha
  omega

theorem plainLayer_crash {custom : List (Name × Nat)} (hc : CodesAccepted custom) :
    ∀ (order : List Nat) (acts : List Name) (row : Row) (c : Crash),
    (∀ x ∈ order, accepted x = true) → plainLayer custom row order acts = .crash c → c = .indexOOB keysInRow
  | [], _, row, c, _, h => by simp [plainLayer] at h
  | _ :: _, [], row, c, _, h => by simp [plainLayer] at h
  | o :: order, a :: acts, row, c, ho, h => by
    simp only [plainLayer] at h
    split at h
    · split at h
      · rename_i hge
        cases h
        rw [oob_is_key_max (ho o List.mem_cons_self) hge]
      · exact plainLayer_crash hc order acts _ c (fun x hx => ho x (List.mem_cons_of_mem _ hx)) h
    · cases h
    · rename_i e he
      exact absurd he (parseAct_no_crash hc a e)

theorem lmPairs_crash {custom : List (Name × Nat)} (hc : CodesAccepted custom) (puk : Bool) (order : List Nat)
    (ho : ∀ x ∈ order, accepted x = true) :
    ∀ (pairs : List (LmIn × Name)) (st : LmState) (c : Crash),
    lmPairs custom puk order st pairs = .crash c → c = .indexOOB keysInRow
  | [], st, c, h => by simp [lmPairs] at h
  | (i, a) :: rest, st, c, h => by
    simp only [lmPairs] at h
    split at h
    · cases h
    · rename_i e he
      exact absurd he (parseAct_no_crash hc a e)
    · cases i with
      | any1 =>
        simp only at h
        split at h
        · cases h
        · split at h
          · cases h
          · split at h
            · rename_i c' hf
              cases h
              have hm := List.mem_of_find?_eq_some hf
              have hp := List.find?_some hf
              rw [oob_is_key_max (ho c' hm) (by simpa using hp)]
            · exact lmPairs_crash hc puk order ho rest _ c h
      | any2 =>
        simp only at h
        split at h
        · cases h
        · split at h
          · cases h
          · split at h
            · cases h
            · exact lmPairs_crash hc puk order ho rest _ c h
      | any3 =>
        simp only at h
        split at h
        · cases h
        · split at h
          · cases h
          · split at h
            · cases h
            · split at h
              · cases h
              · exact lmPairs_crash hc puk order ho rest _ c h
      | key n =>
        simp only at h
        split at h
        · cases h
        · rename_i c' hs
          split at h
          · cases h
          · split at h
            · rename_i hge
              cases h
              rw [oob_is_key_max (strToOscode_accepted hc hs) hge]
            · exact lmPairs_crash hc puk order ho rest _ c h

theorem parseLayers_crash {custom : List (Name × Nat)} (hc : CodesAccepted custom) (puk : Bool) (order : List Nat)
    (ho : ∀ x ∈ order, accepted x = true) :
    ∀ (layers : List Layer) (mapped : List Nat) (rows : List Row) (c : Crash),
    parseLayers custom puk order mapped rows layers = .crash c → c = .indexOOB keysInRow
  | [], _, _, c, h => by simp [parseLayers] at h
  | .plain acts :: rest, mapped, rows, c, h => by
    simp only [parseLayers] at h
    split at h
    · exact parseLayers_crash hc puk order ho rest _ _ c h
    · cases h
    · rename_i e he
      cases h
      exact plainLayer_crash hc order acts [] _ ho he
  | .map pairs :: rest, mapped, rows, c, h => by
    simp only [parseLayers] at h
    split at h
    · exact parseLayers_crash hc puk order ho rest _ _ c h
    · cases h
    · rename_i e he
      cases h
      exact lmPairs_crash hc puk order ho pairs _ _ he

/-- the only way this slice of the parser crashes: an index equal to `KEYS_IN_ROW` -/
theorem parseCfg_crash (cfg : Config) (c : Crash) (h : parseCfg cfg = .crash c) : c = .indexOOB keysInRow := by
  unfold parseCfg at h
  split at h
  · cases h
  · rename_i lk hlk
    have hacc : CodesAccepted (replaceCustom lk) := by
      apply replaceCustom_accepted
      have := parseLocalKeys_eq _ _ _ hlk
      simp only [List.nil_append] at this
      subst this
      exact parseLocalKeys_accepted _ _ _ hlk
    simp only at h
    split at h
    · cases h
    · rename_i exc hexc
      split at h
      · cases h
      · rename_i mk hmk
        have hmk' : ∀ x ∈ mk, accepted x = true := by
          intro x hx
          have := (defsrcKeys_mem _ _ _ _ hmk x).1 hx
          simp only [List.not_mem_nil, false_or, List.mem_filterMap] at this
          obtain ⟨n, _, hn⟩ := this
          exact strToOscode_accepted hacc hn
        split at h
        · cases h
        · split at h
          · rename_i e he
            split at he
            · obtain ⟨m', hm', _⟩ := pukLoop_spec exc mk
              rw [hm'] at he
              cases he
            · cases he
          · split at h
            · cases h
            · rename_i e he
              cases h
              exact parseLayers_crash hacc _ _ hmk' _ _ _ _ he
            · cases h

theorem tapCfg_of_parse {cfg : Config} {p : Parsed} (h : parseCfg cfg = .ok p) (v : Nat) :
    tapCfg cfg v = (match tap p.mapped (p.rows.headD []) v with
      | .error c => .crash c
      | .ok outs => .ok (p.mapped.contains v, outs)) := by
  unfold tapCfg
  rw [h]
  rfl

/-! ### concrete configuration shapes -/

theorem lookup_append_of_some {β : Type} : ∀ {l l' : List (Nat × β)} {k : Nat} {v : β},
    l.lookup k = some v → (l ++ l').lookup k = some v
  | [], _, _, _, h => by simp [List.lookup] at h
  | (a, b) :: l, l', k, v, h => by
    by_cases hk : k = a
    · subst hk
      simp [List.lookup] at h ⊢
      exact h
    · have hne : (k == a) = false := by simpa using hk
      simp only [List.cons_append, List.lookup, hne] at h ⊢
      exact lookup_append_of_some h

theorem foldl_orInsert_lookup {k v : Nat} : ∀ (ds m : List (Name × Nat)), m.lookup k = some v →
    (ds.foldl (fun m d => if (m.lookup d.1).isSome then m else m ++ [d]) m).lookup k = some v
  | [], _, h => h
  | d :: ds, m, h => by
    simp only [List.foldl]
    apply foldl_orInsert_lookup ds
    split
    · exact h
    · exact lookup_append_of_some h

/-- a deflocalkeys name wins over the defaults and the built-in names -/
theorem strToOscode_local {lk : List (Name × Nat)} {k v : Nat} (h : lk.lookup k = some v) :
    strToOscode (replaceCustom lk) k = some v := by
  have : (replaceCustom lk).lookup k = some v := foldl_orInsert_lookup _ _ h
  simp [strToOscode, this]

/-- the name the local-key theorems use: `kx` (neither a special atom, a list action nor a built-in name) -/
def localName : Name := encName [107, 120]

theorem localName_plain : listActionNames.contains localName = false ∧ transAtoms.contains localName = false ∧
    noopAtoms.contains localName = false ∧ mouseActionAtoms.lookup localName = none ∧
    topLevelErrorAtoms.contains localName = false ∧ specialActionAtoms.contains localName = false := by
  decide +kernel

theorem parseActionAtom_local (v : Nat) (hv : accepted v = true) :
    parseActionAtom (replaceCustom [(localName, v)]) localName = some (.ok (.keyCode v)) := by
  have hs : strToOscode (replaceCustom [(localName, v)]) localName = some v :=
    strToOscode_local (by simp [List.lookup])
  obtain ⟨h1, h2, h3, h4, h5, h6⟩ := localName_plain
  unfold parseActionAtom
  rw [h1, h2, h3, h4, h5, h6]
  simp only [Bool.false_eq_true, ↓reduceIte, hs, keyCodeOfOsCode_accepted hv]

theorem parseActionAtom_trans (custom : List (Name × Nat)) :
    parseActionAtom custom (encName [95]) = some (.ok .trans) := by
  have h : listActionNames.contains (encName [95]) = false ∧ transAtoms.contains (encName [95]) = true := by
    decide +kernel
  unfold parseActionAtom
  rw [h.1, h.2]
  simp only [Bool.false_eq_true, ↓reduceIte]

/-- `(deflocalkeys-linux kx v) (defsrc kx) (deflayer l <act>)` -/
theorem parseCfg_local (v : Nat) (hv : accepted v = true) (hlt : v < keysInRow) (act : Name) (a : Act)
    (ha : parseActionAtom (replaceCustom [(localName, v)]) act = some (.ok a)) :
    parseCfg { localKeys := [(localName, v)], defsrc := [localName], layers := [.plain [act]] } =
      .ok { custom := replaceCustom [(localName, v)], mapped := [v], rows := [[(v, a)]] } := by
  have hs : strToOscode (replaceCustom [(localName, v)]) localName = some v :=
    strToOscode_local (by simp [List.lookup])
  have hge : ¬ v ≥ keysInRow := by omega
  unfold parseCfg
  simp only [parseLocalKeys, List.lookup, Option.isSome_none, Bool.false_eq_true, ↓reduceIte,
    accepted_iff.1 hv, Option.filter_some, hlt, decide_true, List.nil_append, pukExceptions, defsrcKeys, hs, List.contains_nil,
    List.any_nil, pukOn, parseLayers, plainLayer, parseAct, ha, hge]

/-- `(defcfg process-unmapped-keys yes) (defsrc) (deflayer l)` -/
theorem parseCfg_puk_yes : ∃ m, parseCfg { puk := .yes, layers := [.plain []] } =
      .ok { custom := defaultCustom, mapped := m, rows := [[]] } ∧
      ∀ x, x ∈ m ↔ (x < keysInRow ∧ accepted x = true ∧ x ≠ keyCodeNo) := by
  obtain ⟨m, hm, hmem⟩ := pukLoop_spec [] []
  refine ⟨m, ?_, fun x => by simp [hmem x]⟩
  have hdc : addDefaults [] = defaultCustom := rfl
  unfold parseCfg
  simp only [parseLocalKeys, pukExceptions, defsrcKeys, replaceCustom, hdc, pukOn, List.any_nil]
  simp only [Bool.false_eq_true, ↓reduceIte, hm, parseLayers, plainLayer, List.nil_append]

theorem mappedKeys_of_parse {cfg : Config} {p : Parsed} (h : parseCfg cfg = .ok p) :
    mappedKeys cfg = .ok p.mapped := by
  unfold mappedKeys
  rw [h]

end KVerif.KeyId
