/-
The induction behind `zippy_net_text_basic`: an invariant that holds while the keys of a chord are
going down one by one (zippychord state and text buffer together), preserved by every non-final
press and by every tick inside the deadline; then the completing press.
-/
import KVerif.Lemmas.ZippyChord
namespace KVerif.Zippy
open KVerif.TextBuf

/-! ### Histories -/

theorem zRun_append (cfg : Cfg) (s : Zchd) (h1 h2 : List ZEv) :
    zRun cfg s (h1 ++ h2) =
      ((zRun cfg (zRun cfg s h1).1 h2).1, (zRun cfg s h1).2 ++ (zRun cfg (zRun cfg s h1).1 h2).2) := by
  induction h1 generalizing s with
  | nil => simp [zRun]
  | cons e es ih =>
    simp only [List.cons_append, zRun, ih]
    simp [List.append_assoc]

/-- `n` ticks (caps-word off) -/
def ticksN (s : Zchd) : Nat → Zchd
  | 0 => s
  | n + 1 => ticksN (s.tick false) n

theorem zRun_ticks (cfg : Cfg) (s : Zchd) (n : Nat) :
    zRun cfg s (List.replicate n .tick) = (ticksN s n, []) := by
  induction n generalizing s with
  | zero => rfl
  | succ n ih => simp [List.replicate_succ, zRun, zStep, zchTick, ih, ticksN]

/-- press a key, then let `g` ticks pass -/
def pressTicks (k g : Nat) : List ZEv := .press k :: List.replicate g .tick

/-- the keys of a chord going down one after the other: (key, ticks until the next press) -/
def chordHist (kgs : List (Nat × Nat)) : List ZEv := kgs.flatMap (fun kg => pressTicks kg.1 kg.2)

theorem chordHist_cons (kg : Nat × Nat) (r : List (Nat × Nat)) :
    chordHist (kg :: r) = pressTicks kg.1 kg.2 ++ chordHist r := by
  simp [chordHist]

/-! ### The starting state and the invariant -/

/-- Zippychord enabled, no key held, nothing remembered from earlier activations. -/
structure Fresh (s : Zchd) : Prop where
  en : s.enabledState = .enabled
  keys : s.inputKeys = []
  prio : s.prioritized = none
  prior : s.priorActivation = none
  ctd : s.charsToDelete = 0
  tud : s.ticksUntilDisable = 0
  caps : s.capsWord = false

/-- What a forming phase starts from: keys already down, erase count and activation history
accumulated before (all trivial for a chord pressed from a fresh state), and the follow-up map in
force with the prior output count kept for it. -/
structure Phase where
  pre : List Nat
  ctd0 : Int
  prior0 : Option (List ZchOut)
  sh0 : Nat
  prio0 : Option Path
  pc0 : Int

/-- While a chord is forming: `pressed` keys have gone down in this phase (all typed as they
were), `e` ticks have passed since the deadline (re)started and `c` since the last press. -/
structure Forming (cfg : Cfg) (ph : Phase) (s0 s : Zchd) (pressed : List Nat) (e c : Nat) : Prop where
  en : s.enabledState = .enabled
  prio : s.prioritized = ph.prio0
  pc : s.priorActivationOutputCount = ph.pc0
  prior : s.priorActivation = ph.prior0
  sh : s.sameHoldActivationCount = ph.sh0
  keys : s.inputKeys = chordKey (ph.pre ++ pressed)
  ctd : s.charsToDelete = ph.ctd0 + pressed.length
  lsft : s.lsft = s0.lsft
  rsft : s.rsft = s0.rsft
  altgr : s.altgr = s0.altgr
  caps : s.capsWord = false
  ss : pressed ≠ [] → s.smartSpaceState = .inactive
  tssc : s.ticksSinceStateChange = c
  tud : (cfg.ticksChordDeadline = 0 ∧ s.ticksUntilDisable = 0) ∨
        (e < cfg.ticksChordDeadline ∧ s.ticksUntilDisable = cfg.ticksChordDeadline - e)

/-- The buffer while forming: one character per pressed key on top of the text before. -/
structure BufForming (b0 b : Buf) (n : Nat) : Prop where
  text : ∃ L : List Ch, L.length = n ∧ b.rtext = L ++ b0.rtext
  lsft : b.lsft = b0.lsft
  rsft : b.rsft = b0.rsft
  ralt : b.ralt = b0.ralt

theorem Forming.tick {cfg : Cfg} {ph : Phase} {s0 s : Zchd} {pressed : List Nat} {e c : Nat}
    (h : Forming cfg ph s0 s pressed e c) (hc : c < TICKS_UNTIL_FORCE_STATE_RESET)
    (hd : cfg.ticksChordDeadline = 0 ∨ e + 1 < cfg.ticksChordDeadline) :
    Forming cfg ph s0 (s.tick false) pressed (e + 1) (c + 1) := by
  obtain ⟨en, prio, pc, prior, sh, keys, ctd, lsft, rsft, altgr, caps, ss, tssc, tud⟩ := h
  have hnr : ¬ (s.ticksSinceStateChange + 1 > TICKS_UNTIL_FORCE_STATE_RESET) := by omega
  rcases tud with ⟨hd0, ht0⟩ | ⟨hlt, ht⟩
  · -- no deadline configured
    have : s.tick false = { s with ticksSinceStateChange := s.ticksSinceStateChange + 1, capsWord := false } := by
      unfold Zchd.tick Zchd.tickCore
      simp [en, ht0, hnr]
    rw [this]
    exact ⟨en, prio, pc, prior, sh, keys, ctd, lsft, rsft, altgr, rfl, ss, by simp [tssc], Or.inl ⟨hd0, ht0⟩⟩
  · have hd' : e + 1 < cfg.ticksChordDeadline := by
      rcases hd with h0 | h1
      · omega
      · exact h1
    have hpos : s.ticksUntilDisable > 0 := by omega
    have hne : ¬ (s.ticksUntilDisable - 1 = 0) := by omega
    have : s.tick false = { s with ticksSinceStateChange := s.ticksSinceStateChange + 1, capsWord := false,
                                   ticksUntilDisable := s.ticksUntilDisable - 1 } := by
      unfold Zchd.tick Zchd.tickCore
      simp [en, hpos, hne, hnr]
    rw [this]
    exact ⟨en, prio, pc, prior, sh, keys, ctd, lsft, rsft, altgr, rfl, ss, by simp [tssc],
      Or.inr ⟨hd', by simp only [ht]; omega⟩⟩

theorem Forming.ticks {cfg : Cfg} {ph : Phase} {s0 s : Zchd} {pressed : List Nat} {e c : Nat} (g : Nat)
    (h : Forming cfg ph s0 s pressed e c) (hc : c + g ≤ TICKS_UNTIL_FORCE_STATE_RESET)
    (hd : cfg.ticksChordDeadline = 0 ∨ e + g < cfg.ticksChordDeadline) :
    Forming cfg ph s0 (ticksN s g) pressed (e + g) (c + g) := by
  induction g generalizing s e c with
  | zero => simpa [ticksN] using h
  | succ g ih =>
    have h1 := h.tick (by omega) (by rcases hd with h0 | h1; exact Or.inl h0; exact Or.inr (by omega))
    have := ih h1 (by omega) (by rcases hd with h0 | h1; exact Or.inl h0; exact Or.inr (by omega))
    simp only [ticksN]
    have e1 : e + 1 + g = e + (g + 1) := by omega
    have e2 : c + 1 + g = c + (g + 1) := by omega
    rw [e1, e2] at this
    exact this

/-- The keys of the chord as far as the presses are concerned. -/
structure ChordKeys (K : Key) : Prop where
  notIgnored : ∀ x ∈ K, isZippyIgnored x = false

/-- A press that leaves the chord incomplete (the lookups answer "subset"). -/
theorem Forming.press {cfg : Cfg} {ph : Phase} {s0 s : Zchd} {pressed : List Nat} {e c : Nat} {b0 b : Buf}
    (h : Forming cfg ph s0 s pressed e c) (hb : BufForming b0 b pressed.length)
    (hne : ssmIsEmpty (levelSsm cfg.dict []) = false) (k : Nat) (hign : isZippyIgnored k = false)
    (hss : s.smartSpaceState = .inactive ∨ cfg.punctuation.contains (puncOf s k) = false)
    (hfc : findChordK cfg ph.prio0 (chordKey (ph.pre ++ (pressed ++ [k]))) = .subset) :
    Forming cfg ph s0 (zchPressKey cfg s k).1 (pressed ++ [k]) e 0 ∧
    BufForming b0 (b.run (zchPressKey cfg s k).2) (pressed ++ [k]).length := by
  obtain ⟨_, _, _, hnb, hck⟩ := not_ignored_ne hign
  have hkey : sortedInsert k s.inputKeys = chordKey (ph.pre ++ (pressed ++ [k])) := by
    rw [h.keys, ← List.append_assoc, chordKey_append_single]
  rw [press_subset cfg s k hne hign h.en hss (by rw [hkey, h.prio]; exact hfc)]
  constructor
  · refine ⟨h.en, h.prio, h.pc, h.prior, h.sh, by simp [preLookup, hkey], ?_, h.lsft, h.rsft, h.altgr, h.caps,
      fun _ => rfl, rfl, ?_⟩
    · simp only [preLookup, h.ctd, List.length_append, List.length_cons, List.length_nil]
      omega
    · simp only [preLookup]
      rcases h.tud with ⟨hd0, ht0⟩ | ⟨hlt, ht⟩
      · exact Or.inl ⟨hd0, by simp [ht0, hd0]⟩
      · refine Or.inr ⟨hlt, ?_⟩
        have : ¬ s.ticksUntilDisable = 0 := by omega
        rw [if_neg this]; exact ht
  · obtain ⟨⟨L, hL, hrt⟩, h1, h2, h3⟩ := hb
    simp only [run_cons, run_nil, step_down_char b k hck]
    refine ⟨⟨mkCh k (b.lsft || b.rsft) b.ralt :: L, by simp [hL], ?_⟩, h1, h2, h3⟩
    simp [stroke, hnb, hrt]

/-- Nothing held, no deadline running: a chord can start (from the initial state, after a chord
without follow-ups was released, or — with a follow-up map in force — after a chord of a chain was
released). -/
structure Idle (s : Zchd) : Prop where
  en : s.enabledState = .enabled
  keys : s.inputKeys = []
  ctd : s.charsToDelete = 0
  tud : s.ticksUntilDisable = 0
  caps : s.capsWord = false

/-- the phase of a chord pressed from an idle state -/
def idlePhase (s : Zchd) : Phase :=
  ⟨[], 0, s.priorActivation, s.sameHoldActivationCount, s.prioritized, s.priorActivationOutputCount⟩

/-- The first press, from an idle state. -/
theorem Idle.press {cfg : Cfg} {s : Zchd} {b : Buf}
    (h : Idle s) (hne : ssmIsEmpty (levelSsm cfg.dict []) = false) (k : Nat)
    (hign : isZippyIgnored k = false)
    (hss : s.smartSpaceState = .inactive ∨ cfg.punctuation.contains (puncOf s k) = false)
    (hfc : findChordK cfg s.prioritized (chordKey [k]) = .subset) :
    Forming cfg (idlePhase s) s (zchPressKey cfg s k).1 [k] 0 0 ∧
    BufForming b (b.run (zchPressKey cfg s k).2) 1 := by
  obtain ⟨_, _, _, hnb, hck⟩ := not_ignored_ne hign
  have hkey : sortedInsert k s.inputKeys = chordKey [k] := by
    rw [h.keys]; rfl
  rw [press_subset cfg s k hne hign h.en hss (by rw [hkey]; exact hfc)]
  constructor
  · refine ⟨h.en, rfl, rfl, rfl, rfl, by simp [preLookup, hkey, idlePhase], by simp [preLookup, h.ctd, idlePhase],
      rfl, rfl, rfl, h.caps, fun _ => rfl, rfl, ?_⟩
    simp only [preLookup, h.tud, if_true]
    by_cases hd : cfg.ticksChordDeadline = 0
    · exact Or.inl ⟨hd, hd⟩
    · exact Or.inr ⟨by omega, by simp⟩
  · simp only [run_cons, run_nil, step_down_char b k hck]
    refine ⟨⟨[mkCh k (b.lsft || b.rsft) b.ralt], rfl, ?_⟩, rfl, rfl, rfl⟩
    simp [stroke, hnb]

theorem zRun_pressTicks (cfg : Cfg) (s : Zchd) (k g : Nat) :
    zRun cfg s (pressTicks k g) = (ticksN (zchPressKey cfg s k).1 g, (zchPressKey cfg s k).2) := by
  simp [pressTicks, zRun, zStep, zRun_ticks]

/-- All presses but the last one, each followed by its ticks: as long as every key set reached on
the way is a proper part of some chord (the lookups answer "subset"), each press types its key and
the invariant is kept. -/
theorem forming_rest {cfg : Cfg} {ph : Phase} {s0 : Zchd} {b0 : Buf}
    (hne : ssmIsEmpty (levelSsm cfg.dict []) = false) (rest : List (Nat × Nat)) :
    ∀ (s : Zchd) (b : Buf) (pressed : List Nat) (e c : Nat),
      Forming cfg ph s0 s pressed e c → BufForming b0 b pressed.length →
      (∀ kg ∈ rest, isZippyIgnored kg.1 = false) →
      (pressed = [] → (s.smartSpaceState = .inactive ∨
        ∀ kg ∈ rest, cfg.punctuation.contains (puncOf s0 kg.1) = false)) →
      (∀ ks, ks ≠ [] → ks <+: rest.map (·.1) →
        findChordK cfg ph.prio0 (chordKey (ph.pre ++ (pressed ++ ks))) = .subset) →
      (∀ kg ∈ rest, kg.2 ≤ TICKS_UNTIL_FORCE_STATE_RESET) →
      (cfg.ticksChordDeadline = 0 ∨ e + (rest.map (·.2)).sum < cfg.ticksChordDeadline) →
      ∃ e' c', Forming cfg ph s0 (zRun cfg s (chordHist rest)).1 (pressed ++ rest.map (·.1)) e' c' ∧
        BufForming b0 (b.run (zRun cfg s (chordHist rest)).2) (pressed ++ rest.map (·.1)).length := by
  induction rest with
  | nil =>
    intro s b pressed e c h hb _ _ _ _ _
    exact ⟨e, c, by simpa [chordHist, zRun] using h, by simpa [chordHist, zRun, run_nil] using hb⟩
  | cons kg r ih =>
    intro s b pressed e c h hb hign hpunc hlk hg hd
    obtain ⟨k, g⟩ := kg
    simp only [List.map_cons, List.sum_cons] at hlk hd
    have hpo : puncOf s k = puncOf s0 k := by simp [puncOf, h.lsft, h.rsft, h.altgr]
    have hss : s.smartSpaceState = .inactive ∨ cfg.punctuation.contains (puncOf s k) = false := by
      by_cases hp : pressed = []
      · rcases hpunc hp with h1 | h1
        · exact Or.inl h1
        · exact Or.inr (by rw [hpo]; exact h1 (k, g) (List.mem_cons_self ..))
      · exact Or.inl (h.ss hp)
    obtain ⟨hf1, hb1⟩ := h.press hb hne k (hign (k, g) (List.mem_cons_self ..)) hss
      (hlk [k] (by simp) (by simp))
    have hgk : g ≤ TICKS_UNTIL_FORCE_STATE_RESET := hg (k, g) (List.mem_cons_self ..)
    have hf2 := hf1.ticks g (by omega)
      (by rcases hd with h0 | h1; exact Or.inl h0; exact Or.inr (by omega))
    rw [chordHist_cons, zRun_append, zRun_pressTicks]
    simp only [run_append]
    have := ih (ticksN (zchPressKey cfg s k).1 g) (b.run (zchPressKey cfg s k).2) (pressed ++ [k]) (e + g) (0 + g)
      hf2 hb1
      (fun kg hkg => hign kg (List.mem_cons_of_mem _ hkg))
      (by intro hp; simp at hp)
      (by
        intro ks hks hpre
        have := hlk (k :: ks) (by simp) (by simpa using hpre)
        simpa [List.append_assoc] using this)
      (fun kg hkg => hg kg (List.mem_cons_of_mem _ hkg))
      (by rcases hd with h0 | h1; exact Or.inl h0; exact Or.inr (by omega))
    simpa [List.append_assoc] using this

/-- What the completing press needs of the state. -/
structure Ready (ph : Phase) (s0 s : Zchd) (pressed : List Nat) : Prop where
  en : s.enabledState = .enabled
  prio : s.prioritized = ph.prio0
  pc : s.priorActivationOutputCount = ph.pc0
  prior : s.priorActivation = ph.prior0
  sh : s.sameHoldActivationCount = ph.sh0
  keys : s.inputKeys = chordKey (ph.pre ++ pressed)
  ctd : s.charsToDelete = ph.ctd0 + pressed.length
  lsft : s.lsft = s0.lsft
  rsft : s.rsft = s0.rsft
  altgr : s.altgr = s0.altgr
  caps : s.capsWord = false

theorem Idle.ready {s : Zchd} (h : Idle s) : Ready (idlePhase s) s s [] :=
  ⟨h.en, rfl, rfl, rfl, rfl, h.keys, by simp [h.ctd, idlePhase], rfl, rfl, rfl, h.caps⟩

theorem Forming.ready {cfg : Cfg} {ph : Phase} {s0 s : Zchd} {pressed : List Nat} {e c : Nat}
    (h : Forming cfg ph s0 s pressed e c) : Ready ph s0 s pressed :=
  ⟨h.en, h.prio, h.pc, h.prior, h.sh, h.keys, h.ctd, h.lsft, h.rsft, h.altgr, h.caps⟩

/-- The smart space an activation appends. -/
def withSmartSpace (cfg : Cfg) (out : List ZchOut) (rt : List Ch) : List Ch :=
  if wantsSmartSpace cfg out then stroke rt KEY_SPACE false false else rt

/-- the common-prefix length the completing press of a phase uses -/
def phaseCpl (ph : Phase) (out : List ZchOut) (isPrio : Bool) : Nat :=
  if isPrio = false ∧ ph.sh0 = 0 then 0 else match ph.prior0 with
    | some prior => commonPrefixLen prior out
    | none => 0

/-- the number of backspaces the completing press of a phase sends -/
def phaseBs (ph : Phase) (n : Nat) (out : List ZchOut) (isPrio : Bool) : Nat :=
  (ph.ctd0 + n + (if isPrio then ph.pc0 else 0) - (phaseCpl ph out isPrio : Int)).toNat

theorem actCpl_phase {cfg : Cfg} {ph : Phase} {s0 s : Zchd} {pressed : List Nat} (hr : Ready ph s0 s pressed)
    (k : Nat) (out : List ZchOut) (isPrio : Bool) :
    actCpl (preLookup cfg s k) out isPrio = phaseCpl ph out isPrio := by
  unfold actCpl phaseCpl
  cases isPrio
  · by_cases h0 : ph.sh0 = 0
    · simp [preLookup, hr.sh, h0]
    · simp only [preLookup, hr.prior, hr.sh, h0, Bool.not_false, Bool.true_and, decide_false,
        Bool.false_eq_true, if_false, and_false]
      cases ph.prior0 <;> rfl
  · simp only [preLookup, hr.prior, Bool.not_true, Bool.false_and, Bool.false_eq_true, if_false,
      false_and]
    cases ph.prior0 <;> rfl

/-- The completing press: the erase count (plus, for a follow-up, the prior output count) minus the
shared prefix is sent as backspaces, the rest of the expansion is typed — its first keystroke under
the user's shift when it is the first character of the expansion — the smart space is added, and
the modifiers are as they were. -/
theorem final_press {cfg : Cfg} {ph : Phase} {s0 s : Zchd} {b0 b : Buf} {out : List ZchOut}
    {pressed : List Nat} (hr : Ready ph s0 s pressed) (hb : BufForming b0 b pressed.length)
    (hm0 : ModsAgree s0 b0) (hne' : ssmIsEmpty (levelSsm cfg.dict []) = false) (last : Nat)
    (hign : isZippyIgnored last = false) (ctx : Path) (isPrio : Bool)
    (hfc : (findChordK cfg ph.prio0 (chordKey (ph.pre ++ (pressed ++ [last])))).act = some (ctx, out, isPrio))
    (hss : s.smartSpaceState = .inactive ∨ cfg.punctuation.contains (puncOf s last) = false)
    (hne : out.isEmpty = false) (hko : ∀ o ∈ out, CharKey o.osc) :
    (b.run (zchPressKey cfg s last).2).rtext =
        withSmartSpace cfg out (typeOuts (b.rtext.drop (phaseBs ph pressed.length out isPrio))
          ((s0.lsft || s0.rsft) && decide (phaseCpl ph out isPrio = 0)) (out.drop (phaseCpl ph out isPrio))) ∧
    ModsAgree s0 (b.run (zchPressKey cfg s last).2) ∧
    (zchPressKey cfg s last).1.lastPress = .isChord ∧
    (zchPressKey cfg s last).1.inputKeys = chordKey (ph.pre ++ (pressed ++ [last])) := by
  have hkey : sortedInsert last s.inputKeys = chordKey (ph.pre ++ (pressed ++ [last])) := by
    rw [hr.keys, ← List.append_assoc, chordKey_append_single]
  rw [press_found cfg s last out ctx isPrio hne' hign hr.en hss (by rw [hkey, hr.prio]; exact hfc)]
  have hm : ModsAgree (preLookup cfg s last) b := by
    obtain ⟨h1, h2, h3⟩ := hm0
    exact ⟨by simp [preLookup, hb.lsft, h1, hr.lsft], by simp [preLookup, hb.rsft, h2, hr.rsft],
      by simp [preLookup, hb.ralt, h3, hr.altgr]⟩
  obtain ⟨hmods, htext⟩ := run_activate cfg (preLookup cfg s last) last out ctx isPrio b hne hko hm
  have hcpl := actCpl_phase (cfg := cfg) hr last out isPrio
  have hbs : actBs (preLookup cfg s last) out isPrio = phaseBs ph pressed.length out isPrio := by
    unfold actBs phaseBs
    rw [hcpl]
    simp [preLookup, hr.ctd, hr.pc]
  have hflags := activate_flags cfg (preLookup cfg s last) last out ctx isPrio
  refine ⟨?_, ?_, hflags.2.2.2.2.2.2, ?_⟩
  · rw [htext (by simp [preLookup, hr.caps])]
    simp only [hcpl, hbs, withSmartSpace]
    simp [preLookup, hr.lsft, hr.rsft]
  · obtain ⟨h1, h2, h3⟩ := hmods
    exact ⟨by simpa [preLookup, hr.lsft] using h1, by simpa [preLookup, hr.rsft] using h2,
      by simpa [preLookup, hr.altgr] using h3⟩
  · rw [hflags.2.2.2.2.1]; simp [preLookup, hkey]

/-- the phase that starts after a chord has been activated and is still held -/
def postPhase (ph : Phase) (cfg : Cfg) (keys : List Nat) (out : List ZchOut) (ctx : Path) : Phase :=
  ⟨keys, displayLen out + (if wantsSmartSpace cfg out then 1 else 0), some out, ph.sh0 + 1,
   if hasFollowups cfg.dict (ctx ++ [chordKey keys]) then some (ctx ++ [chordKey keys]) else none,
   displayLen out + (if wantsSmartSpace cfg out then 1 else 0)⟩

/-- The state after the completing press: ready for further keys of a longer chord (the deadline
has restarted), or for the release. -/
theorem final_press_post {cfg : Cfg} {ph : Phase} {s0 s : Zchd} {out : List ZchOut}
    {pressed : List Nat} (hr : Ready ph s0 s pressed)
    (hne' : ssmIsEmpty (levelSsm cfg.dict []) = false) (last : Nat)
    (hign : isZippyIgnored last = false) (ctx : Path) (isPrio : Bool)
    (hfc : (findChordK cfg ph.prio0 (chordKey (ph.pre ++ (pressed ++ [last])))).act = some (ctx, out, isPrio))
    (hss : s.smartSpaceState = .inactive ∨ cfg.punctuation.contains (puncOf s last) = false)
    (hne : out.isEmpty = false) :
    Forming cfg (postPhase ph cfg (ph.pre ++ (pressed ++ [last])) out ctx) s0 (zchPressKey cfg s last).1 [] 0 0 ∧
    (zchPressKey cfg s last).1.smartSpaceState =
      (if wantsSmartSpace cfg out = true ∧ cfg.smartSpace = .full then .sent else .inactive) := by
  have hkey : sortedInsert last s.inputKeys = chordKey (ph.pre ++ (pressed ++ [last])) := by
    rw [hr.keys, ← List.append_assoc, chordKey_append_single]
  rw [press_found cfg s last out ctx isPrio hne' hign hr.en hss (by rw [hkey, hr.prio]; exact hfc)]
  have hfl := activate_flags cfg (preLookup cfg s last) last out ctx isPrio
  have hst := activate_state cfg (preLookup cfg s last) last out ctx isPrio hne
  have hik : (preLookup cfg s last).inputKeys = chordKey (ph.pre ++ (pressed ++ [last])) := by
    simp [preLookup, hkey]
  refine ⟨⟨?_, ?_, ?_, hst.2.1, ?_, ?_, ?_, ?_, ?_, ?_, ?_, fun h => absurd rfl h, ?_, ?_⟩, ?_⟩
  rotate_right
  · rw [hst.2.2.2.2.2.2.2]; rfl
  · rw [hfl.2.2.2.2.2.1]; simp [preLookup, hr.en]
  · rw [hst.1, hik]; rfl
  · rw [hst.2.2.2.2.1]; rfl
  · rw [hst.2.2.1]; simp [preLookup, hr.sh, postPhase]
  · rw [hfl.2.2.2.2.1, hik]; simp [postPhase]
  · rw [hst.2.2.2.1]; simp [postPhase]
  · rw [hfl.1]; simp [preLookup, hr.lsft]
  · rw [hfl.2.1]; simp [preLookup, hr.rsft]
  · rw [hfl.2.2.1]; simp [preLookup, hr.altgr]
  · rw [hfl.2.2.2.1]; simp [preLookup, hr.caps]
  · rw [hst.2.2.2.2.2.1]; simp [preLookup]
  · rw [hst.2.2.2.2.2.2.1]
    by_cases hd : cfg.ticksChordDeadline = 0
    · exact Or.inl ⟨hd, hd⟩
    · exact Or.inr ⟨by omega, by simp⟩

end KVerif.Zippy
