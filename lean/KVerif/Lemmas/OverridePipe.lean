/-
C13 helper lemmas, part 4: from consecutive key lists to OS events (`handle_keystate_changes`),
and the invariant "the OS holds exactly `prev_keys`" along any history.
-/
import KVerif.Lemmas.OverridePass
namespace KVerif.Override

/-- what the OS holds after a run of events -/
def osRun (held : List Nat) (evs : List OsEv) : List Nat := evs.foldl osApply held

theorem osRun_append (held : List Nat) (a b : List OsEv) :
    osRun held (a ++ b) = osRun (osRun held a) b := by
  simp [osRun, List.foldl_append]

theorem mem_osRun_ups (l held : List Nat) (x : Nat) :
    x ∈ osRun held (l.map OsEv.up) ↔ x ∈ held ∧ x ∉ l := by
  induction l generalizing held with
  | nil => simp [osRun]
  | cons k rest ih =>
    have : osRun held ((k :: rest).map OsEv.up) = osRun (held.filter (· ≠ k)) (rest.map OsEv.up) := rfl
    rw [this, ih]
    simp only [List.mem_filter, List.mem_cons, not_or, decide_eq_true_eq]
    constructor
    · rintro ⟨⟨h1, h2⟩, h3⟩; exact ⟨h1, h2, h3⟩
    · rintro ⟨h1, h2, h3⟩; exact ⟨⟨h1, h2⟩, h3⟩

theorem mem_osRun_presses (cur prev held : List Nat) (x : Nat) :
    x ∈ osRun held (emitPresses cur prev) ↔ x ∈ held ∨ (x ∈ cur ∧ x ∉ prev) := by
  induction cur generalizing prev held with
  | nil => simp [emitPresses, osRun]
  | cons k rest ih =>
    simp only [emitPresses]
    by_cases hk : prev.contains k = true
    · simp only [hk, if_true, ih]
      have hk' : k ∈ prev := by simpa using hk
      constructor
      · rintro (h | ⟨h1, h2⟩)
        · exact Or.inl h
        · exact Or.inr ⟨by simp [h1], h2⟩
      · rintro (h | ⟨h1, h2⟩)
        · exact Or.inl h
        · rcases List.mem_cons.mp h1 with rfl | h1
          · exact absurd hk' h2
          · exact Or.inr ⟨h1, h2⟩
    · have hkf : prev.contains k = false := by simpa using hk
      simp only [hkf, Bool.false_eq_true, if_false]
      have hk' : k ∉ prev := by simpa using hk
      have : osRun held (OsEv.down k :: emitPresses rest (prev ++ [k])) =
          osRun (if k ∈ held then held else held ++ [k]) (emitPresses rest (prev ++ [k])) := rfl
      rw [this, ih]
      have hmem : ∀ y, y ∈ (if k ∈ held then held else held ++ [k]) ↔ y ∈ held ∨ y = k := by
        intro y; split
        · constructor
          · exact Or.inl
          · rintro (h | rfl) <;> assumption
        · simp
      rw [hmem]
      simp only [List.mem_append, List.mem_cons, List.not_mem_nil, or_false, not_or]
      constructor
      · rintro ((h | rfl) | ⟨h1, h2, _⟩)
        · exact Or.inl h
        · exact Or.inr ⟨Or.inl rfl, hk'⟩
        · exact Or.inr ⟨Or.inr h1, h2⟩
      · rintro (h | ⟨h1 | h1, h2⟩)
        · exact Or.inl (Or.inl h)
        · exact Or.inl (Or.inr h1)
        · by_cases hxk : x = k
          · exact Or.inl (Or.inr hxk)
          · exact Or.inr ⟨h1, h2, hxk⟩

/-- **emission**: if the OS holds exactly the previous key list, then after the release loop and
the press loop it holds exactly the current one. -/
theorem emit_tracks (prev cur held : List Nat) (h : ∀ x, x ∈ held ↔ x ∈ prev) (x : Nat) :
    x ∈ osRun held (emitReleases prev cur ++ emitPresses cur prev) ↔ x ∈ cur := by
  rw [osRun_append, mem_osRun_presses, emitReleases, mem_osRun_ups, h]
  simp only [List.mem_filter, Bool.not_eq_true', List.contains_eq_mem, decide_eq_false_iff_not]
  by_cases h1 : x ∈ prev <;> by_cases h2 : x ∈ cur <;> simp [h1, h2]

/-- every key that left the list is released, every key that entered it is pressed -/
theorem release_emitted (prev cur : List Nat) (k : Nat) (h1 : k ∈ prev) (h2 : k ∉ cur) :
    OsEv.up k ∈ emitReleases prev cur := by
  simp only [emitReleases, List.mem_map]
  exact ⟨k, by simp [List.mem_filter, h1, h2], rfl⟩

/-- the key list `override_keys` is applied to in the next tick -/
def Pipe.preKeys (p : Pipe) : List Nat :=
  (match p.queue with
   | [] => p.states
   | e :: _ => dequeue p.states e).map NKey.kc

theorem tick_prev {t : Overrides} {roa : Bool} {p p' : Pipe} {evs : List OsEv}
    (h : p.tick t roa = .ok (p', evs)) :
    ∃ st, t.overrideKeys p.preKeys p.ost = .ok (p'.prev, st) ∧
      evs = emitReleases p.prev p'.prev ++ emitPresses p'.prev p.prev := by
  unfold Pipe.tick at h
  unfold Pipe.preKeys
  cases hq : p.queue with
  | nil =>
    simp only [hq] at h ⊢
    cases ho : t.overrideKeys (p.states.map (·.kc)) p.ost with
    | error c => simp [ho] at h
    | ok r =>
      obtain ⟨cur', ost⟩ := r
      simp only [ho, Except.ok.injEq, Prod.mk.injEq] at h
      obtain ⟨rfl, rfl⟩ := h
      exact ⟨ost, rfl, rfl⟩
  | cons e rest =>
    simp only [hq] at h ⊢
    cases ho : t.overrideKeys ((dequeue p.states e).map (·.kc)) p.ost with
    | error c => simp [ho] at h
    | ok r =>
      obtain ⟨cur', ost⟩ := r
      simp only [ho, Except.ok.injEq, Prod.mk.injEq] at h
      obtain ⟨rfl, rfl⟩ := h
      exact ⟨ost, rfl, rfl⟩

theorem tick_tracks {t : Overrides} {roa : Bool} {p p' : Pipe} {evs : List OsEv} {held : List Nat}
    (h : p.tick t roa = .ok (p', evs)) (hinv : ∀ x, x ∈ held ↔ x ∈ p.prev) (x : Nat) :
    x ∈ osRun held evs ↔ x ∈ p'.prev := by
  obtain ⟨_, _, rfl⟩ := tick_prev h
  exact emit_tracks p.prev p'.prev held hinv x

theorem input_prev (p : Pipe) (e : Ev) : (p.input e).prev = p.prev := by
  unfold Pipe.input
  split
  · rfl
  · split <;> rfl

/-- **the OS holds exactly `prev_keys`**, along every history. -/
theorem run_tracks (t : Overrides) (roa : Bool) (steps : List Step) (p pf : Pipe) (n : Nat)
    (evs : List (Nat × OsEv)) (held : List Nat)
    (h : Pipe.run t roa steps p n = .ok (pf, evs)) (hinv : ∀ x, x ∈ held ↔ x ∈ p.prev) (x : Nat) :
    x ∈ osRun held (evs.map (·.2)) ↔ x ∈ pf.prev := by
  induction steps generalizing p n evs held with
  | nil =>
    simp only [Pipe.run, Except.ok.injEq, Prod.mk.injEq] at h
    obtain ⟨rfl, rfl⟩ := h
    simpa [osRun] using hinv x
  | cons s rest ih =>
    cases s with
    | ev e =>
      simp only [Pipe.run] at h
      exact ih _ _ _ _ h (by simpa [input_prev] using hinv)
    | tick =>
      simp only [Pipe.run] at h
      cases ht : p.tick t roa with
      | error c => simp [ht] at h
      | ok r =>
        obtain ⟨p', e1⟩ := r
        simp only [ht] at h
        cases hr : Pipe.run t roa rest p' (n + 1) with
        | error c => simp [hr] at h
        | ok r2 =>
          obtain ⟨pf', more⟩ := r2
          simp only [hr, Except.ok.injEq, Prod.mk.injEq] at h
          obtain ⟨rfl, rfl⟩ := h
          have hmap : (e1.map (fun e => (n + 1, e)) ++ more).map (·.2) = e1 ++ more.map (·.2) := by
            simp [List.map_map, Function.comp_def]
          rw [hmap, osRun_append]
          exact ih p' (n + 1) more (osRun held e1) hr (fun y => tick_tracks ht hinv y)

/-- no crash: a table built by `try_new` never reaches the `expect` of `get_mod_mask` -/
theorem overrideKeys_ok (tbl : List Override) (hwf : ∀ o ∈ tbl, o.WF) (ks : List Nat)
    (st : OverrideStates) : ∃ r, (Overrides.new tbl).overrideKeys ks st = .ok r := by
  cases tbl with
  | nil => exact ⟨_, overrideKeys_empty ks st⟩
  | cons o rest => exact ⟨_, overrideKeys_eq (o :: rest) hwf (by simp) ks st⟩

theorem tick_ok (tbl : List Override) (hwf : ∀ o ∈ tbl, o.WF) (roa : Bool) (p : Pipe) :
    ∃ r, p.tick (Overrides.new tbl) roa = .ok r := by
  unfold Pipe.tick
  cases hq : p.queue with
  | nil =>
    obtain ⟨⟨ks, st⟩, hr⟩ := overrideKeys_ok tbl hwf (p.states.map (·.kc)) p.ost
    simp only [hr]; exact ⟨_, rfl⟩
  | cons e rest =>
    obtain ⟨⟨ks, st⟩, hr⟩ := overrideKeys_ok tbl hwf ((dequeue p.states e).map (·.kc)) p.ost
    simp only [hr]; exact ⟨_, rfl⟩

theorem run_ok (tbl : List Override) (hwf : ∀ o ∈ tbl, o.WF) (roa : Bool) (steps : List Step)
    (p : Pipe) (n : Nat) : ∃ r, Pipe.run (Overrides.new tbl) roa steps p n = .ok r := by
  induction steps generalizing p n with
  | nil => exact ⟨_, rfl⟩
  | cons s rest ih =>
    cases s with
    | ev e => simpa [Pipe.run] using ih (p.input e) n
    | tick =>
      obtain ⟨⟨p', e1⟩, ht⟩ := tick_ok tbl hwf roa p
      obtain ⟨⟨pf, more⟩, hr⟩ := ih p' (n + 1)
      simp only [Pipe.run, ht, hr]; exact ⟨_, rfl⟩

end KVerif.Override
