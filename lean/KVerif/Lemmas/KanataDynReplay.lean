/-
The replay machinery of `tick_ms` inside the composed kanata-level model (Model/KanataDynTick.lean):
what a replay hands to `layout.event`, that the `extra_ticks` loop drops nothing, and that the replay
ends.  Everything is proved over a *frame*: a set `S` of kanata states that is closed under
`tick_states`, in which `tick_states` leaves the dynamic-macro state alone, and that does not care
about the layout or the replay state.  `dynFrame_rest`: the states with the other kanata-level
components at rest (`C07.KRest`: no custom actions, overrides, caps-word, pointer movement, …; any
layout) form such a frame.
-/
import KVerif.Lemmas.BlockReach
import KVerif.Lemmas.DynMacroRun
import KVerif.Model.KanataDynTick
namespace KVerif.K
open KVerif KVerif.L KVerif.DynMacro

structure DynFrame (S : KState → Prop) : Prop where
  tick : ∀ k k', S k → tickStates k = .ok k' → S k' ∧ k'.dyn = k.dyn
  put : ∀ k l d, S k → d.rcd = k.dyn.rcd → S { k with layout := l, dyn := d }

/-- `tick_states` with the kanata-level components at rest does not touch the dynamic-macro state
(the proof of `C07.tickStates_rest`, with one more field read off at the end) -/
theorem tickStates_rest_dyn (k k' : KState) (hr : C07.KRest k) (ht : tickStates k = .ok k') :
    k'.dyn = k.dyn := by
  cases hl : tick k.layout with
  | error c =>
    unfold tickStates handleKeystateChanges at ht
    simp only [hl] at ht
    cases ht
  | ok r =>
    obtain ⟨l', ce⟩ := r
    have hce : ce = .noEvent := by
      cases ce with
      | noEvent => rfl
      | press id =>
        exfalso
        unfold tickStates handleKeystateChanges at ht
        simp only [hl, applyUnmodEvent] at ht
        rw [C07.customActs_none ({ k with layout := l' } : KState) hr.customs id] at ht
        cases ht
      | release id =>
        exfalso
        unfold tickStates handleKeystateChanges at ht
        simp only [hl, applyUnmodEvent] at ht
        rw [C07.customActs_none ({ k with layout := l' } : KState) hr.customs id] at ht
        cases ht
    subst hce
    obtain ⟨o, p, lp, hkc⟩ := C07.handleKeystateChanges_rest k hr l' hl
    have e2 := C07.handleScrolling_none ({ k with layout := l', out := o, prevKeys := p, lastPressedKey := lp, curKeys := l'.keycodes } : KState) hr.scroll hr.hscroll
    have e3 := C07.handleMoveMouse_none ({ k with layout := l', out := o, prevKeys := p, lastPressedKey := lp, curKeys := l'.keycodes } : KState) hr.moveV hr.moveH
    have e3s := KVerif.K.tickSequenceState_inactive ({ k with layout := l', out := o, prevKeys := p, lastPressedKey := lp, curKeys := l'.keycodes } : KState) (KVerif.K.off_inactive _ hr.seqOff)
    have e4 := C07.tickIdleTimeout_nil ({ k with layout := l', out := o, prevKeys := p, lastPressedKey := lp, curKeys := l'.keycodes } : KState) hr.wfi
    have e5 := C07.tickHeldVkeys_nil ({ k with layout := l', out := o, lastPressedKey := lp, macroOnPressCancelDuration := k.macroOnPressCancelDuration - 1, prevKeys := l'.keycodes, curKeys := [] } : KState) hr.vk
    unfold tickStates at ht
    simp only [hkc] at ht
    rw [e2] at ht; simp only [] at ht
    rw [e3] at ht; simp only [] at ht
    rw [e3s] at ht; simp only [] at ht
    rw [e4] at ht; simp only [] at ht
    simp only [dynTickRecord, hr.noRec] at ht
    rw [e5] at ht
    injection ht with ht
    subst ht
    rfl

/-- the rest states are a frame -/
theorem dynFrame_rest : DynFrame C07.KRest where
  tick := fun k k' hr ht =>
    ⟨(C07.tickStates_rest k k' hr ht).choose_spec.2.2.2, tickStates_rest_dyn k k' hr ht⟩
  put := fun k l d hr hd =>
    ⟨hr.customs, hr.noOvr, hr.ovrClean, hr.cur, hr.unmod, hr.unshift, hr.caps, hr.scroll, hr.hscroll,
      hr.moveV, hr.moveH, hr.wfi, hr.vk, hr.mcd, hr.seqOff, by show d.rcd = none; rw [hd]; exact hr.noRec⟩

/-! ### one replay step -/

theorem tickReplayK_eq (k : KState) :
    tickReplayK k = ({ k with dyn := { k.dyn with rep := (tickReplay k.dyn.beh k.dyn.rep).1 } },
      (tickReplay k.dyn.beh k.dyn.rep).2) ∨ (k.dyn.rep = none ∧ tickReplayK k = (k, none)) := by
  unfold tickReplayK
  cases h : k.dyn.rep with
  | none => right; exact ⟨rfl, rfl⟩
  | some r => left; rfl

/-- what the invariants below need to know about one `tick_replay_state` on the kanata state -/
theorem tickReplayK_spec (k : KState) :
    ∃ rep', (tickReplayK k).1 = { k with dyn := { k.dyn with rep := rep' } } ∧
      rep' = (tickReplay k.dyn.beh k.dyn.rep).1 ∧ (tickReplayK k).2 = (tickReplay k.dyn.beh k.dyn.rep).2 := by
  unfold tickReplayK
  cases h : k.dyn.rep with
  | none => exact ⟨none, by cases k with | mk _ _ _ _ _ _ _ _ _ _ _ _ _ _ _ _ _ _ _ _ _ _ _ _ _ _ _ _ _ _ _ dyn _ => cases dyn; simp_all, rfl, rfl⟩
  | some r => exact ⟨_, rfl, rfl, rfl⟩

/-- the part of the dynamic-macro state a replay step leaves alone -/
def SameRec (a b : Dyn) : Prop :=
  a.rcd = b.rcd ∧ a.store = b.store ∧ a.beh = b.beh ∧ a.fix = b.fix ∧ a.lost = b.lost ∧
    a.maxPresses = b.maxPresses

theorem SameRec.refl (a : Dyn) : SameRec a a := ⟨rfl, rfl, rfl, rfl, rfl, rfl⟩
theorem SameRec.trans {a b c : Dyn} (h1 : SameRec a b) (h2 : SameRec b c) : SameRec a c :=
  ⟨h1.1.trans h2.1, h1.2.1.trans h2.2.1, h1.2.2.1.trans h2.2.2.1, h1.2.2.2.1.trans h2.2.2.2.1,
    h1.2.2.2.2.1.trans h2.2.2.2.2.1, h1.2.2.2.2.2.trans h2.2.2.2.2.2⟩

/-- the body of the first loop after `tick_states`: the event popped (if any) is fed, nothing else
changes; slack and countdown as in `tickReplay_slack` / `tickReplay_mu` -/
theorem replayFeed_spec {S : KState → Prop} (hS : DynFrame S) (k k2 : KState) (d e i : Nat) (hk : S k)
    (h : replayFeed k = .ok (k2, d)) (he : e ≤ i + slack k.dyn.rep) :
    S k2 ∧ SameRec k2.dyn k.dyn ∧
      k2.dyn.fed ++ planOf k2.dyn.rep = k.dyn.fed ++ planOf k.dyn.rep ∧
      satAdd e d ≤ (i + 1) + slack k2.dyn.rep ∧
      mu k.dyn.beh k2.dyn.rep ≤ mu k.dyn.beh k.dyn.rep - 1 := by
  obtain ⟨rep', h1, h2, h3⟩ := tickReplayK_spec k
  have hplan := tickReplay_plan k.dyn.beh k.dyn.rep
  have hslack := tickReplay_slack k.dyn.beh k.dyn.rep i e he
  have hmu := tickReplay_mu k.dyn.beh k.dyn.rep
  unfold replayFeed at h
  cases hr : (tickReplay k.dyn.beh k.dyn.rep).2 with
  | none =>
    have hk1 : tickReplayK k = ({ k with dyn := { k.dyn with rep := rep' } }, none) := by
      rw [← h1, ← hr, ← h3]
    rw [hk1] at h
    simp only [] at h
    injection h with h; injection h with ha hb
    subst ha; subst hb
    rw [hr] at hplan hslack
    simp only [outEv, List.nil_append] at hplan
    refine ⟨?_, ⟨rfl, rfl, rfl, rfl, rfl, rfl⟩, ?_, ?_, ?_⟩
    · have := hS.put k k.layout { k.dyn with rep := rep' } hk rfl
      exact this
    · show k.dyn.fed ++ planOf rep' = _
      rw [h2, ← hplan]
    · show satAdd e 0 ≤ (i + 1) + slack rep'
      rw [h2]
      have : satAdd e 0 ≤ e := by unfold satAdd; exact Nat.min_le_left _ _
      simp only [] at hslack
      omega
    · show mu k.dyn.beh rep' ≤ _
      rw [h2]; exact hmu
  | some ed =>
    obtain ⟨ev, dd⟩ := ed
    have hk1 : tickReplayK k = ({ k with dyn := { k.dyn with rep := rep' } }, some (ev, dd)) := by
      rw [← h1, ← hr, ← h3]
    rw [hk1] at h
    simp only [] at h
    split at h
    · cases h
    · rename_i l hl
      injection h with h; injection h with ha hb
      subst ha; subst hb
      rw [hr] at hplan hslack
      simp only [outEv] at hplan
      refine ⟨?_, ⟨rfl, rfl, rfl, rfl, rfl, rfl⟩, ?_, ?_, ?_⟩
      · exact hS.put k l { k.dyn with rep := rep', fed := k.dyn.fed ++ [ev] } hk rfl
      · show (k.dyn.fed ++ [ev]) ++ planOf rep' = _
        rw [h2, hplan]; simp
      · show satAdd e _ ≤ (i + 1) + slack rep'
        rw [h2]; exact hslack
      · show mu k.dyn.beh rep' ≤ _
        rw [h2]; exact hmu

/-- the second loop of `tick_ms` with at most `slack` iterations: nothing is popped -/
theorem msExtraLoop_spec {S : KState → Prop} (hS : DynFrame S) : ∀ (n : Nat) (k k' : KState), S k →
    n ≤ slack k.dyn.rep → msExtraLoop n k = .ok k' →
    S k' ∧ SameRec k'.dyn k.dyn ∧ k'.dyn.fed = k.dyn.fed ∧ planOf k'.dyn.rep = planOf k.dyn.rep ∧
      mu k.dyn.beh k'.dyn.rep ≤ mu k.dyn.beh k.dyn.rep := by
  intro n
  induction n with
  | zero =>
    intro k k' hk _ h
    simp only [msExtraLoop] at h
    injection h with h; subst h
    exact ⟨hk, SameRec.refl _, rfl, rfl, Nat.le_refl _⟩
  | succ n ih =>
    intro k k' hk hn h
    simp only [msExtraLoop] at h
    split at h
    · cases h
    · rename_i k1 ht
      obtain ⟨hk1, hd1⟩ := hS.tick k k1 hk ht
      obtain ⟨rep', h1, h2, h3⟩ := tickReplayK_spec k1
      have hnp := tickReplay_no_pop k1.dyn.beh k1.dyn.rep n (by rw [hd1]; exact hn)
      have hmu := tickReplay_mu k1.dyn.beh k1.dyn.rep
      have hk2 : tickReplayK k1 = ({ k1 with dyn := { k1.dyn with rep := rep' } }, none) := by
        rw [← h1, ← hnp.1, ← h3]
      rw [hk2] at h
      simp only [] at h
      have hS2 : S { k1 with dyn := { k1.dyn with rep := rep' } } := by
        have := hS.put k1 k1.layout { k1.dyn with rep := rep' } hk1 rfl
        exact this
      obtain ⟨r1, r2, r3, r4, r5⟩ := ih _ k' hS2 (by show n ≤ slack rep'; rw [h2]; exact hnp.2.1) h
      refine ⟨r1, ?_, ?_, ?_, ?_⟩
      · refine r2.trans ?_
        show SameRec { k1.dyn with rep := rep' } k.dyn
        rw [hd1]; exact ⟨rfl, rfl, rfl, rfl, rfl, rfl⟩
      · rw [r3]; show k1.dyn.fed = _; rw [hd1]
      · rw [r4]; show planOf rep' = _; rw [h2, hnp.2.2, hd1]
      · have : mu k.dyn.beh rep' ≤ mu k.dyn.beh k.dyn.rep := by
          rw [h2, hd1]; have := hmu; rw [hd1] at this; omega
        have r5' : mu k.dyn.beh k'.dyn.rep ≤ mu k.dyn.beh rep' := by
          have := r5; simp only [hd1] at this; exact this
        omega

/-- **one `tick_ms(1)`** in a frame: the events fed so far followed by the events still queued is
unchanged, nothing is dropped by the `extra_ticks` loop, the countdown measure goes down -/
theorem tickMs_one_spec {S : KState → Prop} (hS : DynFrame S) (k k' : KState) (hk : S k)
    (h : tickMs 1 k = .ok k') :
    S k' ∧ SameRec k'.dyn k.dyn ∧
      k'.dyn.fed ++ planOf k'.dyn.rep = k.dyn.fed ++ planOf k.dyn.rep ∧
      mu k.dyn.beh k'.dyn.rep ≤ mu k.dyn.beh k.dyn.rep - 1 := by
  unfold tickMs at h
  simp only [msMainLoop] at h
  split at h
  · cases h
  · rename_i k1 extra hm
    split at hm
    · cases hm
    · rename_i ka ht
      split at hm
      · cases hm
      · rename_i kb d hf
        injection hm with hm; injection hm with ha hb
        subst ha; subst hb
        obtain ⟨hka, hda⟩ := hS.tick k ka hk ht
        obtain ⟨s1, s2, s3, s4, s5⟩ := replayFeed_spec hS ka kb d 0 0 hka hf (by omega)
        have hfix : msAsU16 kb.dyn.fix 1 = 1 := by unfold msAsU16; split <;> simp [DynMacro.U16_MAX]
        rw [hfix] at h
        obtain ⟨r1, r2, r3, r4, r5⟩ := msExtraLoop_spec hS _ kb k' s1 (by omega) h
        have hb : kb.dyn.beh = k.dyn.beh := by rw [s2.2.2.1, hda]
        refine ⟨r1, r2.trans (by rw [← hda]; exact s2), ?_, ?_⟩
        · rw [r3, r4, s3, hda]
        · rw [hb] at r5; rw [hda] at s5; omega

/-- `n` calls of `tick_ms(1)` -/
def ticksMs : Nat → KState → Except Crash KState
  | 0, k => .ok k
  | n + 1, k => match tickMs 1 k with
    | .error c => .error c
    | .ok k' => ticksMs n k'

theorem ticksMs_spec {S : KState → Prop} (hS : DynFrame S) : ∀ (n : Nat) (k k' : KState), S k →
    ticksMs n k = .ok k' →
    S k' ∧ SameRec k'.dyn k.dyn ∧
      k'.dyn.fed ++ planOf k'.dyn.rep = k.dyn.fed ++ planOf k.dyn.rep ∧
      mu k.dyn.beh k'.dyn.rep ≤ mu k.dyn.beh k.dyn.rep - n := by
  intro n
  induction n with
  | zero =>
    intro k k' hk h
    simp only [ticksMs] at h
    injection h with h; subst h
    exact ⟨hk, SameRec.refl _, rfl, by omega⟩
  | succ n ih =>
    intro k k' hk h
    simp only [ticksMs] at h
    split at h
    · cases h
    · rename_i k1 h1
      obtain ⟨a1, a2, a3, a4⟩ := tickMs_one_spec hS k k1 hk h1
      obtain ⟨b1, b2, b3, b4⟩ := ih k1 k' a1 h
      have hb : k1.dyn.beh = k.dyn.beh := a2.2.2.1
      refine ⟨b1, b2.trans a2, b3.trans a3, ?_⟩
      rw [hb] at b4; omega

end KVerif.K
