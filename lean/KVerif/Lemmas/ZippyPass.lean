/-
Lemmas for `zippy_passthrough`: as long as the keys the user holds never include all keys of a
top-level chord, no lookup can answer `HasValue`, no follow-up map and no smart space can arise, and
every press / release is written to the OS unchanged.
-/
import KVerif.Lemmas.ZippyChord
namespace KVerif.Zippy
open KVerif.TextBuf

/-- The keys the user holds never complete a top-level chord. -/
def NoChordPossible (d : Dict) : List Nat → List ZEv → Prop
  | _, [] => True
  | held, .press k :: r =>
    (∀ kv ∈ level d [], kv.1 ≠ [] → ¬ (∀ x ∈ kv.1, x ∈ k :: held)) ∧ NoChordPossible d (k :: held) r
  | held, .release k :: r => NoChordPossible d (held.filter (· ≠ k)) r
  | held, .tick :: r => NoChordPossible d held r

/-- the user's events as OS events -/
def asOs : List ZEv → List OsEv
  | [] => []
  | .press k :: r => .down k :: asOs r
  | .release k :: r => .up k :: asOs r
  | .tick :: r => asOs r

/-- What is known of the state as long as no chord ever fired. -/
structure Quiet (s : Zchd) (held : List Nat) : Prop where
  prio : s.prioritized = none
  ss : s.smartSpaceState = .inactive
  keys : ∀ x ∈ s.inputKeys, x ∈ held
  nign : ∀ x ∈ s.inputKeys, isZippyIgnored x = false

theorem Quiet.softReset {s : Zchd} {held : List Nat} : Quiet s.softReset held :=
  ⟨rfl, rfl, by simp [Zchd.softReset, Zchd.clearHistory], by simp [Zchd.softReset, Zchd.clearHistory]⟩

theorem Quiet.reset {s : Zchd} {held : List Nat} : Quiet s.reset held :=
  ⟨rfl, rfl, by simp [Zchd.reset, Zchd.softReset, Zchd.clearHistory],
    by simp [Zchd.reset, Zchd.softReset, Zchd.clearHistory]⟩

theorem quiet_press {cfg : Cfg} {s : Zchd} {held : List Nat} (k : Nat) (h : Quiet s held)
    (hno : ∀ kv ∈ level cfg.dict [], kv.1 ≠ [] → ¬ (∀ x ∈ kv.1, x ∈ k :: held)) :
    (zchPressKey cfg s k).2 = [.down k] ∧ Quiet (zchPressKey cfg s k).1 (k :: held) := by
  have hmono : ∀ x ∈ s.inputKeys, x ∈ k :: held := fun x hx => List.mem_cons_of_mem _ (h.keys x hx)
  unfold zchPressKey
  split
  · exact ⟨rfl, h.prio, h.ss, hmono, h.nign⟩
  split
  · exact ⟨rfl, h.prio, h.ss, hmono, h.nign⟩
  split
  · exact ⟨rfl, h.prio, h.ss, hmono, h.nign⟩
  split
  · exact ⟨rfl, h.prio, h.ss, hmono, h.nign⟩
  split
  · exact ⟨rfl, h.prio, h.ss, hmono, h.nign⟩
  rename_i hign
  rw [punctStage_none cfg s k (Or.inl h.ss)]
  simp only [List.nil_append]
  split
  · exact ⟨rfl, h.prio, rfl, hmono, h.nign⟩
  · -- enabled: the lookup cannot find a chord
    have hkeys2 : ∀ x ∈ (enterKey cfg { s with smartSpaceState := .inactive } k).inputKeys, x ∈ k :: held := by
      intro x hx
      rw [enterKey_eq] at hx
      simp only [preLookup, mem_sortedInsert] at hx
      rcases hx with hx | hx
      · subst hx; exact List.mem_cons_self ..
      · exact hmono x hx
    have hnign2 : ∀ x ∈ (enterKey cfg { s with smartSpaceState := .inactive } k).inputKeys,
        isZippyIgnored x = false := by
      intro x hx
      rw [enterKey_eq] at hx
      simp only [preLookup, mem_sortedInsert] at hx
      rcases hx with hx | hx
      · subst hx; simpa using hign
      · exact h.nign x hx
    have hprio2 : (enterKey cfg { s with smartSpaceState := .inactive } k).prioritized = none := by
      rw [enterKey_eq]; simp [preLookup, h.prio]
    have hne2 : (enterKey cfg { s with smartSpaceState := .inactive } k).inputKeys ≠ [] := by
      rw [enterKey_eq]
      simp only [preLookup]
      intro he
      have : k ∈ sortedInsert k s.inputKeys := (mem_sortedInsert k k _).mpr (Or.inl rfl)
      rw [he] at this
      simp at this
    have hnv : ∀ a, lookupLevel cfg.dict []
        (enterKey cfg { s with smartSpaceState := .inactive } k).inputKeys ≠ .hasValue a := by
      intro a hl
      rw [lookupLevel_eq] at hl
      unfold lookupSpec at hl
      cases hli : lastInsert (level cfg.dict [])
          (enterKey cfg { s with smartSpaceState := .inactive } k).inputKeys with
      | none => rw [hli] at hl; simp only at hl; split at hl <;> cases hl
      | some v =>
        obtain ⟨hmem, _⟩ := lastInsert_some_mem hli
        exact hno _ hmem hne2 hkeys2
    rw [findChord_top _ _ hprio2]
    cases hl : lookupLevel cfg.dict [] (enterKey cfg { s with smartSpaceState := .inactive } k).inputKeys with
    | hasValue a => exact absurd hl (hnv a)
    | isSubset =>
      refine ⟨rfl, ?_, ?_, hkeys2, hnign2⟩
      · exact hprio2
      · rw [enterKey_eq]; rfl
    | neither => exact ⟨rfl, Quiet.softReset⟩

theorem quiet_release {cfg : Cfg} {s : Zchd} {held : List Nat} (k : Nat) (h : Quiet s held)
    (hne : ssmIsEmpty (levelSsm cfg.dict []) = false) :
    (zchReleaseKey cfg s k).2 = [.up k] ∧ Quiet (zchReleaseKey cfg s k).1 (held.filter (· ≠ k)) := by
  unfold zchReleaseKey
  rw [if_neg (by simp [hne])]
  simp only
  by_cases hign : isZippyIgnored k = true
  · rw [if_pos hign]
    refine ⟨rfl, ?_⟩
    have hkeys : ∀ x ∈ s.inputKeys, x ∈ held.filter (· ≠ k) := by
      intro x hx
      have hne : x ≠ k := by
        intro he; subst he
        have := h.nign x hx
        rw [this] at hign; cases hign
      simp [h.keys x hx, hne]
    split
    · exact ⟨h.prio, h.ss, hkeys, h.nign⟩
    split
    · exact ⟨h.prio, h.ss, hkeys, h.nign⟩
    split
    · exact ⟨h.prio, h.ss, hkeys, h.nign⟩
    · exact ⟨h.prio, h.ss, hkeys, h.nign⟩
  · rw [if_neg hign]
    refine ⟨rfl, ?_⟩
    -- the three modifier keys are ignored keys, so the flag updates do not apply here
    have hk := not_ignored_ne (by simpa using hign : isZippyIgnored k = false)
    rw [if_neg hk.1, if_neg hk.2.1, if_neg hk.2.2.1]
    have hkeys : ∀ x ∈ s.inputKeys.filter (fun x => x ≠ k), x ∈ held.filter (· ≠ k) := by
      intro x hx
      simp only [List.mem_filter, decide_eq_true_eq] at hx ⊢
      exact ⟨h.keys x hx.1, hx.2⟩
    have hnign : ∀ x ∈ s.inputKeys.filter (fun x => x ≠ k), isZippyIgnored x = false := by
      intro x hx
      simp only [List.mem_filter] at hx
      exact h.nign x hx.1
    unfold Zchd.releaseKey Zchd.stateChange
    simp only [h.prio, Option.isNone_none, if_true]
    split
    · exact ⟨rfl, h.ss, hkeys, hnign⟩
    · exact Quiet.softReset
    · exact ⟨rfl, h.ss, hkeys, hnign⟩
    · exact ⟨rfl, h.ss, hkeys, hnign⟩

theorem quiet_tickCore {s : Zchd} {held : List Nat} (h : Quiet s held) : Quiet s.tickCore held := by
  unfold Zchd.tickCore
  split
  · simp only
    split
    · exact ⟨h.prio, h.ss, h.keys, h.nign⟩
    · exact ⟨h.prio, h.ss, h.keys, h.nign⟩
  · split
    · simp only
      split
      · exact Quiet.softReset
      · exact ⟨h.prio, h.ss, h.keys, h.nign⟩
    · exact h
  · exact h

theorem quiet_tick {s : Zchd} {held : List Nat} (c : Bool) (h : Quiet s held) : Quiet (s.tick c) held := by
  unfold Zchd.tick
  simp only
  have h1 : Quiet { s with ticksSinceStateChange := s.ticksSinceStateChange + 1, capsWord := c } held :=
    ⟨h.prio, h.ss, h.keys, h.nign⟩
  split
  · exact Quiet.reset
  · exact quiet_tickCore h1

/-- Without a dictionary everything is passed on. -/
theorem zRun_empty_dict (cfg : Cfg) (he : ssmIsEmpty (levelSsm cfg.dict []) = true) (s : Zchd) (h : List ZEv) :
    (zRun cfg s h).2 = asOs h := by
  induction h generalizing s with
  | nil => rfl
  | cons e r ih =>
    cases e with
    | press k => simp [zRun, zStep, zchPressKey, he, asOs, ih]
    | release k => simp [zRun, zStep, zchReleaseKey, he, asOs, ih]
    | tick => simp [zRun, zStep, asOs, ih]

theorem zRun_quiet (cfg : Cfg) (hne : ssmIsEmpty (levelSsm cfg.dict []) = false) (h : List ZEv) :
    ∀ (s : Zchd) (held : List Nat), Quiet s held → NoChordPossible cfg.dict held h →
      (zRun cfg s h).2 = asOs h := by
  induction h with
  | nil => intro s held _ _; rfl
  | cons e r ih =>
    intro s held hq hnc
    cases e with
    | press k =>
      obtain ⟨hno, hrest⟩ := hnc
      obtain ⟨hev, hq'⟩ := quiet_press (cfg := cfg) k hq hno
      simp only [zRun, zStep, asOs, hev, ih _ _ hq' hrest, List.singleton_append]
    | release k =>
      obtain ⟨hev, hq'⟩ := quiet_release (cfg := cfg) k hq hne
      simp only [zRun, zStep, asOs, hev, ih _ _ hq' hnc, List.singleton_append]
    | tick =>
      simp only [zRun, zStep, asOs, zchTick, List.nil_append]
      exact ih _ _ (quiet_tick false hq) hnc

end KVerif.Zippy
