/-
Helper lemmas for C15: what a tick, `tick_ms`, `check_handle_layer_change` and one iteration of the
processing loop preserve of the reload bookkeeping.
-/
import KVerif.Lemmas.Reload
namespace KVerif.Reload
open KVerif.Gen.Reload

variable {W : World}

/-! ### index selection -/

theorem findPath_some (paths : List Nat) (p i : Nat) (h : findPath paths p = some i) :
    i < paths.length ∧ paths[i]? = some p ∧ ∀ j, j < i → paths[j]? ≠ some p := by
  unfold findPath at h
  simp only at h
  split at h <;> simp at h
  rename_i hlt
  subst h
  refine ⟨hlt, ?_, ?_⟩
  · have := List.findIdx_getElem (w := hlt)
    simp at this
    simp [List.getElem?_eq_getElem hlt, this]
  · intro j hj
    have := List.not_of_lt_findIdx hj
    simp at this
    intro e
    have hjl : j < paths.length := Nat.lt_trans hj hlt
    rw [List.getElem?_eq_getElem hjl] at e
    simp at e
    exact this e

theorem findPath_none (paths : List Nat) (p : Nat) (h : findPath paths p = none) : p ∉ paths := by
  unfold findPath at h
  simp only at h
  split at h <;> simp at h
  rename_i hlt
  intro hm
  apply hlt
  exact List.findIdx_lt_length_of_exists ⟨p, hm, by simp⟩

/-- every arm keeps the index inside `cfg_paths` -/
theorem selectIndex_range (paths : List Nat) (idx : Nat) (r : ReloadAct) (i : Nat) (b : Bool)
    (hidx : idx < paths.length) (h : selectIndex paths idx r = .ok (i, b)) : i < paths.length := by
  cases r with
  | cur => simp [selectIndex, hidx] at h; omega
  | next =>
    simp only [selectIndex] at h
    repeat' split at h
    all_goals (try simp at h)
    all_goals omega
  | prev =>
    simp only [selectIndex] at h
    repeat' split at h
    all_goals (try simp at h)
    all_goals omega
  | num n =>
    simp only [selectIndex] at h
    repeat' split at h
    all_goals (try simp at h)
    all_goals omega
  | file p =>
    simp only [selectIndex] at h
    split at h
    · rename_i j hj
      simp at h
      have := (findPath_some paths p j hj).1
      omega
    · simp at h; omega

/-! ### what a tick preserves -/

/-- relation between the state before and after ticks (no reload attempt in between) -/
structure TickRel (s s' : KSt W) : Prop where
  paths : s' .cfg_paths = s .cfg_paths
  player : s' .prev_layer = s .prev_layer
  req : s .live_reload_requested = true → s' .live_reload_requested = true
  idx : (s .cur_cfg_idx : Nat) < (s .cfg_paths : List Nat).length →
    (s' .cur_cfg_idx : Nat) < (s .cfg_paths : List Nat).length
  tsi : (s' .ticks_since_idle : Nat) ≤ s .ticks_since_idle

theorem TickRel.refl (s : KSt W) : TickRel s s := ⟨rfl, rfl, id, id, Nat.le_refl _⟩

theorem TickRel.trans {a b c : KSt W} (h1 : TickRel a b) (h2 : TickRel b c) : TickRel a c :=
  ⟨h2.paths.trans h1.paths, h2.player.trans h1.player, fun h => h2.req (h1.req h),
   fun h => by
     have := h1.idx h
     have h3 := h2.idx (by rw [h1.paths]; exact this)
     rw [h1.paths] at h3; exact h3,
   Nat.le_trans h2.tsi h1.tsi⟩

theorem applyAct_rel (s s' : KSt W) (a : KAct W.toTypes) (h : applyAct s a = .ok s') : TickRel s s' := by
  cases a with
  | reload r =>
    simp only [applyAct] at h
    split at h
    · simp at h
    · rename_i i req hsel
      simp at h; subst h
      refine ⟨?_, ?_, ?_, ?_, ?_⟩
      · cases req <;> simp [St.set]
      · cases req <;> simp [St.set]
      · cases req <;> simp [St.set]
      · intro hlt
        have := selectIndex_range _ _ r i req hlt hsel
        cases req <;> simpa [St.set] using this
      · cases req <;> simp [St.set]
  | onIdle w =>
    simp only [applyAct] at h
    simp at h; subst h
    refine ⟨by simp [St.set], by simp [St.set], by simp [St.set], by simp [St.set], by simp [St.set]⟩

theorem applyActs_rel (s s' : KSt W) (as : List (KAct W.toTypes)) (h : applyActs s as = .ok s') :
    TickRel s s' := by
  induction as generalizing s with
  | nil => simp [applyActs] at h; subst h; exact TickRel.refl _
  | cons a rest ih =>
    simp only [applyActs] at h
    split at h
    · simp at h
    · rename_i s1 h1
      exact (applyAct_rel s s1 a h1).trans (ih s1 h)

theorem frame_rel (s n : KSt W) : TickRel s (frame s n) :=
  ⟨by simp [frame, framed], by simp [frame, framed], by simp [frame, framed],
   by simp [frame, framed], by simp [frame, framed]⟩

theorem frameK_rel (s n : KSt W) : TickRel s (frameK s n) :=
  ⟨by simp [frameK, framedK, framed], by simp [frameK, framedK, framed], by simp [frameK, framedK, framed],
   by simp [frameK, framedK, framed], by simp [frameK, framedK, framed]⟩

theorem frameK_keys (s n : KSt W) :
    (frameK s n) .cur_keys = s .cur_keys ∧ (frameK s n) .prev_keys = s .prev_keys := by
  simp [frameK, framedK, framed]

theorem tickIdleTimeout_rel (s : KSt W) : TickRel s (tickIdleTimeout s) := by
  unfold tickIdleTimeout
  split
  · exact TickRel.refl _
  · refine ⟨by simp [St.set], by simp [St.set], by simp [St.set], by simp [St.set], by simp [St.set]⟩

theorem set_macro_rel (s : KSt W) (v : Nat) : TickRel s (s.set .macro_on_press_cancel_duration v) :=
  ⟨by simp [St.set], by simp [St.set], by simp [St.set], by simp [St.set], by simp [St.set]⟩

/-- `tick_states`: paths and `prev_layer` untouched, a pending request stays pending, the index stays
in range, `ticks_since_idle` does not grow, and `cur_keys` is left empty -/
theorem tickStates_rel (nr : Bool) (s s' : KSt W) (os : List W.Os) (h : tickStatesG nr s = .ok (s', os)) :
    TickRel s s' ∧ s' .cur_keys = ([] : List Nat) := by
  unfold tickStatesG at h
  simp only at h
  split at h
  · simp at h
  · rename_i s2 h2
    simp at h
    obtain ⟨rfl, _⟩ := h
    constructor
    · have r1 := frame_rel s (W.ksc s).1
      have r2 := applyActs_rel _ _ _ h2
      have r3 := tickIdleTimeout_rel s2
      have r4 := set_macro_rel (tickIdleTimeout s2) ((tickIdleTimeout s2 .macro_on_press_cancel_duration : Nat) - 1)
      have r5 := frameK_rel ((tickIdleTimeout s2).set .macro_on_press_cancel_duration
        ((tickIdleTimeout s2 .macro_on_press_cancel_duration : Nat) - 1))
        (W.late ((tickIdleTimeout s2).set .macro_on_press_cancel_duration
          ((tickIdleTimeout s2 .macro_on_press_cancel_duration : Nat) - 1))).1
      have r := (((r1.trans r2).trans r3).trans r4).trans r5
      refine ⟨?_, ?_, ?_, ?_, ?_⟩
      · simpa [St.set] using r.paths
      · simpa [St.set] using r.player
      · intro hr; simpa [St.set] using r.req hr
      · intro hi; simpa [St.set] using r.idx hi
      · simpa [St.set] using r.tsi
    · simp [St.set]

theorem tickLoop1_rel (nr : Bool) (n : Nat) (s : KSt W) (extra : Nat) (os : List W.Os) (s' : KSt W) (e' : Nat)
    (os' : List W.Os) (h : tickLoop1G nr n s extra os = .ok (s', e', os')) :
    TickRel s s' ∧ (s .cur_keys = ([] : List Nat) → s' .cur_keys = ([] : List Nat)) := by
  induction n generalizing s extra os with
  | zero => simp [tickLoop1G] at h; obtain ⟨rfl, _, _⟩ := h; exact ⟨TickRel.refl _, id⟩
  | succ n ih =>
    simp only [tickLoop1G] at h
    split at h
    · simp at h
    · rename_i s1 o1 h1
      obtain ⟨r1, c1⟩ := tickStates_rel nr s s1 o1 h1
      have r2 := frameK_rel s1 (W.replay s1).1
      obtain ⟨r3, c3⟩ := ih _ _ _ h
      refine ⟨(r1.trans r2).trans r3, fun _ => c3 ?_⟩
      rw [(frameK_keys s1 _).1]; exact c1

theorem tickLoop2_rel (nr : Bool) (n : Nat) (s : KSt W) (os : List W.Os) (s' : KSt W)
    (os' : List W.Os) (h : tickLoop2G nr n s os = .ok (s', os')) :
    TickRel s s' ∧ (s .cur_keys = ([] : List Nat) → s' .cur_keys = ([] : List Nat)) := by
  induction n generalizing s os with
  | zero => simp [tickLoop2G] at h; obtain ⟨rfl, _⟩ := h; exact ⟨TickRel.refl _, id⟩
  | succ n ih =>
    simp only [tickLoop2G] at h
    split at h
    · simp at h
    · rename_i s1 o1 h1
      obtain ⟨r1, c1⟩ := tickStates_rel nr s s1 o1 h1
      have r2 := frameK_rel s1 (W.replay s1).1
      have ck : (frameK s1 (W.replay s1).1) .cur_keys = ([] : List Nat) := by
        rw [(frameK_keys s1 _).1]; exact c1
      split at h
      · simp at h
        obtain ⟨rfl, _⟩ := h
        exact ⟨r1.trans r2, fun _ => ck⟩
      · obtain ⟨r3, c3⟩ := ih _ _ h
        exact ⟨(r1.trans r2).trans r3, fun _ => c3 ck⟩

/-- `tick_ms` -/
theorem tickMs_rel (nr : Bool) (ms : Nat) (s s' : KSt W) (os : List W.Os) (h : tickMsG nr ms s = .ok (s', os)) :
    TickRel s s' ∧ (s .cur_keys = ([] : List Nat) → s' .cur_keys = ([] : List Nat)) := by
  unfold tickMsG at h
  split at h
  · simp at h
  · rename_i s1 extra o1 h1
    obtain ⟨r1, c1⟩ := tickLoop1_rel _ _ _ _ _ _ _ _ h1
    obtain ⟨r2, c2⟩ := tickLoop2_rel _ _ _ _ _ _ h
    exact ⟨r1.trans r2, fun hc => c2 (c1 hc)⟩

/-- at least one tick ran: `cur_keys` is empty whatever it was -/
theorem tickMs_curKeys_pos (nr : Bool) (ms : Nat) (hms : 0 < ms) (s s' : KSt W) (os : List W.Os)
    (h : tickMsG nr ms s = .ok (s', os)) : s' .cur_keys = ([] : List Nat) := by
  unfold tickMsG at h
  split at h
  · simp at h
  · rename_i s1 extra o1 h1
    obtain ⟨n, rfl⟩ : ∃ n, ms = n + 1 := ⟨ms - 1, by omega⟩
    simp only [tickLoop1G] at h1
    split at h1
    · simp at h1
    · rename_i s0 o0 h0
      obtain ⟨_, c0⟩ := tickStates_rel nr s s0 o0 h0
      obtain ⟨_, c1⟩ := tickLoop1_rel _ _ _ _ _ _ _ _ h1
      obtain ⟨_, c2⟩ := tickLoop2_rel _ _ _ _ _ _ h
      exact c2 (c1 (by rw [(frameK_keys s0 _).1]; exact c0))

/-- `check_handle_layer_change` only moves `prev_layer` -/
theorem checkLayerChange_frame (tx : Bool) (s s' : KSt W) (m : List Msg)
    (h : checkLayerChange tx s = .ok (s', m)) : ∀ g, g ≠ .prev_layer → s' g = s g := by
  unfold checkLayerChange at h
  simp only at h
  split at h
  · split at h
    · simp at h
    · simp at h
      obtain ⟨rfl, _⟩ := h
      intro g hg
      exact St.set_other _ _ _ _ hg
  · simp at h
    obtain ⟨rfl, _⟩ := h
    intro g _; rfl

/-- after `check_handle_layer_change`, `prev_layer` is the current layer; it sends at most one
`LayerChange`, and only when the layer differs from the last one notified -/
theorem checkLayerChange_spec (tx : Bool) (s s' : KSt W) (m : List Msg)
    (h : checkLayerChange tx s = .ok (s', m)) :
    s' .prev_layer = W.currentLayer (s .layout) ∧
    (W.currentLayer (s .layout) = s .prev_layer → m = []) ∧ m.length ≤ 1 := by
  unfold checkLayerChange at h
  simp only at h
  split at h
  · rename_i hne
    split at h
    · simp at h
    · simp at h
      obtain ⟨rfl, rfl⟩ := h
      refine ⟨by simp, fun e => absurd e hne, by split <;> simp⟩
  · rename_i heq
    simp at h
    obtain ⟨rfl, rfl⟩ := h
    simp at heq
    exact ⟨heq.symm, fun _ => rfl, by simp⟩

/-! ### `do_live_reload` on the generated statement list -/

/-- the interpreted `do_live_reload` never touches a field outside its assignment list -/
theorem doLiveReload_frame (env : Env W.toTypes) (s : KSt W) (r : RRes W.toTypes) (g : Field)
    (h : doLiveReload env s = .ok r) (hg : g ∉ assigned reloadSteps) : r.st g = s g := by
  unfold doLiveReload doLiveReloadWith at h
  have hs : reloadSteps = .parse :: reloadSteps.tail := by decide
  rw [hs] at h
  simp only at h
  split at h
  · simp at h
  · split at h
    · simp at h; subst h; rfl
    · rename_i c _
      refine runSteps_frame env c _ none s [] r g h ?_
      intro hm; apply hg
      rw [mem_assigned] at hm ⊢
      obtain ⟨b, hb⟩ := hm
      exact ⟨b, List.mem_of_mem_tail hb⟩

/-! ### closed form of a complete run of `do_live_reload` -/

/-- the `callee(..)?; … self.f = <cfg …>; …` part after the parse step -/
def silentPart : List RStep := reloadSteps.tail.takeWhile isSilent
/-- the rest: notifications, `let cur_layer`, the resets -/
def tailPart : List RStep := reloadSteps.tail.dropWhile isSilent
/-- `self.prev_layer = cur_layer; self.f = <constant>; …` -/
def resetPart : List RStep := (tailPart.drop 2).takeWhile isReset

theorem reload_shape :
    reloadSteps = .parse :: (silentPart ++ tailPart) ∧ silentPart.all isSilent = true ∧
    tailPart = .notify "ConfigFileReload" :: .bindCurLayer :: (resetPart ++ [.notify "LayerChange"]) ∧
    resetPart.all isReset = true := by decide

/-- the state a complete run of `do_live_reload` on configuration `c` leaves -/
def reloaded (c : W.Cfg) (s : KSt W) : KSt W :=
  applyReset (W.currentLayer (W.cfgVal .layout c)) resetPart (applyCfg c silentPart s)

theorem silent_keeps (c : W.Cfg) (s : KSt W) :
    (applyCfg c silentPart s) .cfg_paths = s .cfg_paths ∧
    (applyCfg c silentPart s) .cur_cfg_idx = s .cur_cfg_idx ∧
    (applyCfg c silentPart s) .layout = W.cfgVal .layout c ∧
    (applyCfg c silentPart s) .layer_info = W.cfgVal .layer_info c := by
  refine ⟨?_, ?_, ?_, ?_⟩ <;> rw [applyCfg_get] <;> simp (decide := true)

theorem reloaded_keeps (c : W.Cfg) (s : KSt W) :
    (reloaded c s) .cfg_paths = s .cfg_paths ∧ (reloaded c s) .cur_cfg_idx = s .cur_cfg_idx ∧
    (reloaded c s) .layout = W.cfgVal .layout c ∧ (reloaded c s) .layer_info = W.cfgVal .layer_info c ∧
    (reloaded c s) .prev_layer = W.currentLayer (W.cfgVal .layout c) := by
  obtain ⟨k1, k2, k3, k4⟩ := silent_keeps c s
  refine ⟨?_, ?_, ?_, ?_, ?_⟩ <;> simp only [reloaded] <;> rw [applyReset_get]
  · simp (decide := true) [k1]
  · simp (decide := true) [k2]
  · simp (decide := true) [k3]
  · simp (decide := true) [k4]
  · simp (decide := true) [resetVal]

/-- closed form of `do_live_reload` when the file parses and no fallible call fails -/
theorem doLiveReload_success (env : Env W.toTypes) (s : KSt W) (p : Nat) (c : W.Cfg)
    (hp : (s .cfg_paths : List Nat)[(s .cur_cfg_idx : Nat)]? = some p)
    (hc : newFromFile env p = some c)
    (hf : ∀ callee ∈ falliblesOf reloadSteps, env.callFails callee c = false) :
    doLiveReload env s =
      if env.tx then
        match W.layerName (W.cfgVal .layer_info c) (W.currentLayer (W.cfgVal .layout c)) with
        | none => .error (.indexOOB "do_live_reload layer_info[cur_layer]")
        | some name => .ok ⟨reloaded c s, [.configFileReload p, .layerChange name], true⟩
      else .ok ⟨reloaded c s, [], true⟩ := by
  unfold doLiveReload doLiveReloadWith
  rw [reload_shape.1]
  simp only [hp, hc]
  rw [runSteps_append, runPrefix_silent env c silentPart none s [] reload_shape.2.1]
  · simp only
    rw [reload_shape.2.2.1]
    obtain ⟨k1, k2, k3, k4⟩ := silent_keeps c s
    obtain ⟨_, _, _, r4, _⟩ := reloaded_keeps c s
    by_cases htx : env.tx = true
    · simp only [runSteps, stepOne, htx, k1, k2, hp, k3, if_true]
      simp only [runSteps_append, runPrefix_resets env c resetPart _ _ _ reload_shape.2.2.2]
      simp only [runSteps, stepOne, htx, if_true]
      have e : (applyReset (W.currentLayer (W.cfgVal .layout c)) resetPart (applyCfg c silentPart s)) .layer_info =
          W.cfgVal .layer_info c := r4
      rw [e]
      cases W.layerName (W.cfgVal .layer_info c) (W.currentLayer (W.cfgVal .layout c)) <;> simp [reloaded]
    · have htx' : env.tx = false := by simpa using htx
      simp only [runSteps, stepOne, htx']
      simp only [runSteps_append, runPrefix_resets env c resetPart _ _ _ reload_shape.2.2.2]
      simp [runSteps, stepOne, htx', reloaded, k3]
  · intro callee hm
    apply hf
    rw [mem_falliblesOf] at hm ⊢
    rw [reload_shape.1]
    exact List.mem_cons_of_mem _ (List.mem_append_left _ hm)

/-- the fallible calls that a statement list makes after its first assignment -/
def lateFalliblesOf (steps : List RStep) : List String :=
  falliblesOf (steps.dropWhile fun | .assign _ _ => false | _ => true)

/-- all-or-nothing for ANY statement list of the shape `parse; fallible calls; statements without
fallible calls`: a reported failure leaves the state as it was and nothing has been sent -/
theorem doLiveReloadWith_atomic (F rest : List RStep) (hF : F.all isFallible = true)
    (hrest : falliblesOf rest = []) (env : Env W.toTypes) (s : KSt W) (r : RRes W.toTypes)
    (h : doLiveReloadWith (.parse :: (F ++ rest)) env s = .ok r) (hr : r.ok = false) :
    r.st = s ∧ r.msgs = [] := by
  unfold doLiveReloadWith at h
  simp only at h
  split at h
  · simp at h
  · split at h
    · simp at h; subst h; exact ⟨rfl, rfl⟩
    · rename_i c _
      rw [runSteps_append] at h
      rcases runPrefix_fallibles env c F none s [] hF with ⟨h1, _⟩ | ⟨h1, _⟩
      · rw [h1] at h
        simp at h; subst h; exact ⟨rfl, rfl⟩
      · rw [h1] at h
        simp only at h
        have := runSteps_ok env c rest none s [] r h (by rw [hrest]; intro _ hm; cases hm)
        rw [hr] at this; cases this

/-- `do_live_reload` returned `Ok`: the file parsed and the result is the closed form -/
theorem doLiveReload_ok_inv (env : Env W.toTypes) (s : KSt W) (r : RRes W.toTypes)
    (h : doLiveReload env s = .ok r) (hok : r.ok = true) :
    ∃ p c, (s .cfg_paths : List Nat)[(s .cur_cfg_idx : Nat)]? = some p ∧ newFromFile env p = some c ∧
      runSteps env c reloadSteps.tail none s [] = .ok r := by
  unfold doLiveReload doLiveReloadWith at h
  have hs : reloadSteps = .parse :: reloadSteps.tail := by decide
  rw [hs] at h
  simp only at h
  split at h
  · simp at h
  · rename_i p hp
    split at h
    · simp at h; subst h; simp at hok
    · rename_i c hc
      exact ⟨p, c, hp, hc, h⟩

/-! ### `handle_time_ticks` -/

theorem handleTimeTicks_inv (nr : Bool) (env : Env W.toTypes) (ms : Nat) (s : KSt W) (r : HRes W.toTypes)
    (h : handleTimeTicksG nr env ms s = .ok r) :
    ∃ s2 os m1, decisionStateG nr env ms s = .ok (s2, os, m1) ∧ r.os = os ∧
      ((reloadDue s2 = false ∧ r.attempt = none ∧ r.st = s2 ∧ r.msgs = m1) ∨
       (reloadDue s2 = true ∧ ∃ rr, doLiveReload env (s2.set .live_reload_requested false) = .ok rr ∧
          r.attempt = some rr.ok ∧ r.st = rr.st ∧ r.msgs = m1 ++ rr.msgs)) := by
  unfold handleTimeTicksG handleTimeTicksWithG at h
  unfold decisionStateG
  split at h
  · simp at h
  · rename_i s1 os h1
    split at h
    · simp at h
    · rename_i s2 m1 h2
      refine ⟨s2, os, m1, by simp [h1, h2], ?_⟩
      split at h
      · rename_i hd
        split at h
        · simp at h
        · rename_i rr hrr
          simp at h; subst h
          exact ⟨rfl, Or.inr ⟨hd, rr, hrr, rfl, rfl, rfl⟩⟩
      · rename_i hd
        simp at h; subst h
        simp at hd
        exact ⟨rfl, Or.inl ⟨by simpa using hd, rfl, rfl, rfl⟩⟩

theorem decisionState_rel (nr : Bool) (env : Env W.toTypes) (ms : Nat) (s s2 : KSt W) (os : List W.Os) (m1 : List Msg)
    (h : decisionStateG nr env ms s = .ok (s2, os, m1)) :
    s2 .cfg_paths = s .cfg_paths ∧
    (s .live_reload_requested = true → s2 .live_reload_requested = true) ∧
    ((s .cur_cfg_idx : Nat) < (s .cfg_paths : List Nat).length → (s2 .cur_cfg_idx : Nat) < (s .cfg_paths : List Nat).length) ∧
    (s2 .ticks_since_idle : Nat) ≤ s .ticks_since_idle ∧
    ((s .cur_keys = ([] : List Nat) ∨ 0 < ms) → s2 .cur_keys = ([] : List Nat)) := by
  unfold decisionStateG at h
  split at h
  · simp at h
  · rename_i s1 os1 h1
    split at h
    · simp at h
    · rename_i s2' m1' h2
      simp at h
      obtain ⟨rfl, _, _⟩ := h
      obtain ⟨rel, ck⟩ := tickMs_rel nr ms s s1 os1 h1
      have fr := checkLayerChange_frame _ _ _ _ h2
      refine ⟨?_, ?_, ?_, ?_, ?_⟩
      · rw [fr _ (by decide)]; exact rel.paths
      · intro hr; rw [fr _ (by decide)]; exact rel.req hr
      · intro hi; rw [fr _ (by decide)]; exact rel.idx hi
      · rw [fr _ (by decide)]; exact rel.tsi
      · intro hor
        rw [fr _ (by decide)]
        rcases hor with e | e
        · exact ck e
        · exact tickMs_curKeys_pos nr ms e s s1 os1 h1

/-- the fields `do_live_reload` assigns from `cfg` are exactly the configuration-derived ones -/
theorem silent_assigns (f : Field) : f ∈ assignedFromCfg silentPart ↔ classify f = .cfgDerived := by
  cases f <;> decide


theorem fresh_paths (paths : List Nat) (c : W.Cfg) :
    (fresh (W := W) paths c) .cfg_paths = paths ∧ (fresh (W := W) paths c) .cur_cfg_idx = (0 : Nat) := by
  have h1 : ctorNew.lookup .cfg_paths = some false := by decide
  have h2 : ctorNew.lookup .cur_cfg_idx = some false := by decide
  constructor
  · simp only [fresh, freshAt, h1]; rfl
  · simp only [fresh, freshAt, h2]; rfl


theorem resetVal_eq (l : Nat) (f : Field) (h : f ≠ .prev_layer) :
    resetVal (W := W) l f = typedInit W f := by
  cases f <;> first | rfl | exact absurd rfl h

theorem constVal_eq (paths : List Nat) (idx : Nat) (f : Field) (h1 : f ≠ .cfg_paths) (h2 : f ≠ .cur_cfg_idx) :
    constVal W paths idx f = typedInit W f := by
  cases f <;> first | rfl | exact absurd rfl h1 | exact absurd rfl h2

end KVerif.Reload
