/-
C09 helper lemmas for chords v2 (Model/ChordsV2.lean, the code after the three fixes): which crashes
the machine can still produce, at most one activation per `process_presses`, soundness of an
activation, and what releases do to the active chords (also during the cool-down).
-/
import KVerif.Model.ChordsV2
namespace KVerif.C09
open KVerif.L

/-! ## Crashes -/

def crashDQ : Crash := .indexOOB "oops overflowed drain queue"
def crashPR : Crash := .indexOOB "drain_releases: presses overflow"
def crashTM : Crash := .indexOOB "too many presses in queue"

theorem drainPushAssert_err {q : List Queued} {x : Queued} {c : Crash} (h : drainPushAssert q x = .error c) : c = crashDQ := by
  unfold drainPushAssert at h
  split at h
  · cases h
  · cases h; rfl

theorem drainVirtualKeys_err : ∀ (q dq : List Queued) (c : Crash), drainVirtualKeys q dq = .error c → c = crashDQ := by
  intro q
  induction q with
  | nil => intro dq c h; cases h
  | cons qd rest ih =>
    intro dq c h
    simp only [drainVirtualKeys] at h
    split at h
    · split at h
      · rename_i c' he; cases h; exact ih _ _ he
      · cases h
    · split at h
      · rename_i c' he; cases h; exact drainPushAssert_err he
      · exact ih _ _ h

theorem drainReleases_err : ∀ (q : List Queued) (np : Nat) (achs : List ActiveChord) (dq : List Queued) (c : Crash),
    drainReleases q np achs dq = .error c → c = crashPR := by
  intro q
  induction q with
  | nil => intro np achs dq c h; cases h
  | cons qd rest ih =>
    intro np achs dq c h
    simp only [drainReleases] at h
    split at h
    · split at h
      · rename_i c' he; cases h; exact ih _ _ _ _ he
      · cases h
    · split at h
      · exact ih _ _ _ _ h
      · split at h
        · rename_i c' he; cases h; exact ih _ _ _ _ he
        · cases h

theorem collectPresses_err : ∀ (q : List Queued) (ps : List Nat) (c : Crash), collectPresses q ps = .error c → c = crashTM := by
  intro q
  induction q with
  | nil => intro ps c h; cases h
  | cons qd rest ih =>
    intro ps c h
    simp only [collectPresses] at h
    split at h
    · split at h
      · exact ih _ _ h
      · exact ih _ _ h
    · split at h
      · cases h
      · exact ih _ _ h

theorem clearReleased_err : ∀ (achs : List ActiveChord) (dq : List Queued) (c : Crash), clearReleased achs dq = .error c → c = crashDQ := by
  intro achs
  induction achs with
  | nil => intro dq c h; cases h
  | cons a rest ih =>
    intro dq c h
    simp only [clearReleased] at h
    split at h
    · split at h
      · rename_i c' he; cases h; exact drainPushAssert_err he
      · exact ih _ _ h
    · split at h
      · rename_i c' he; cases h; exact ih _ _ he
      · cases h

/-! ## The loop of `process_presses` -/

/-- candidate invariant: every stored candidate is an enabled chord of the first key's table entry that
contains all accumulated presses -/
def CandsOK (possible : List ChordV2) (layer : Nat) (acc : List Nat) (cands : List ChordV2) : Prop :=
  ∀ c ∈ cands, c ∈ possible ∧ enabledOn layer c = true ∧ acc.all (c.keys.contains ·) = true

theorem ppCands_ok (possible : List ChordV2) (layer : Nat) (st : PP) (press : Nat)
    (h : CandsOK possible layer st.acc st.cands) :
    CandsOK possible layer (st.acc ++ [press]) (ppCands possible layer st press).1 := by
  unfold ppCands
  split
  · intro c hc
    simp only [List.mem_filter] at hc
    obtain ⟨h1, h2, h3⟩ := h c hc.1
    refine ⟨h1, h2, ?_⟩
    simp only [List.all_append, h3, List.all_cons, hc.2, List.all_nil, Bool.and_self]
  · intro c hc
    have hc' := List.mem_of_mem_take hc
    simp only [List.mem_filter, Bool.and_eq_true] at hc'
    exact ⟨hc'.1, hc'.2.1, hc'.2.2⟩

theorem ppCands_count_one (possible : List ChordV2) (layer : Nat) (st : PP) (press : Nat)
    (h : (ppCands possible layer st press).2.1 = 1) : ∃ x, (ppCands possible layer st press).1 = [x] := by
  unfold ppCands at h ⊢
  split
  · rename_i hc
    simp only [hc, if_true] at h
    exact List.length_eq_one_iff.mp h
  · rename_i hc
    simp only [hc] at h
    obtain ⟨x, hx⟩ := List.length_eq_one_iff.mp h
    exact ⟨x, by simp only [hx]; rfl⟩

/-- what the loop has done so far, relative to the active chords `A0` it started with: nothing, or
exactly one activation of an enabled table chord that matches the accumulated presses exactly -/
structure LoopInv (possible : List ChordV2) (layer since : Nat) (relFound : Option Nat) (A0 : List ActiveChord) (st : PP) : Prop where
  notDone : st.done = false → st.active = A0
  act : st.active = A0 ∨
    ∃ cch coord, cch ∈ possible ∧ enabledOn layer cch = true ∧ exactMatch st.acc cch = true ∧
      A0.length < ACTIVE_CHORDS_CAP ∧ st.active = A0 ++ [getActiveChord cch since coord relFound]
  cands : CandsOK possible layer st.acc st.cands

theorem pushActive_ok {active a : List ActiveChord} {ach : ActiveChord} (h : pushActive active ach = .ok a) :
    active.length < ACTIVE_CHORDS_CAP ∧ a = active ++ [ach] := by
  unfold pushActive at h
  split at h
  · rename_i hl; cases h; exact ⟨hl, rfl⟩
  · cases h

theorem ppStep_inv (possible : List ChordV2) (layer since : Nat) (relFound : Option Nat) (minIdle : Nat)
    (A0 : List ActiveChord) (st st' : PP) (press : Nat)
    (hi : LoopInv possible layer since relFound A0 st)
    (h : ppStep possible layer since relFound minIdle st press = .ok st') :
    LoopInv possible layer since relFound A0 st' := by
  unfold ppStep at h
  by_cases hd : st.done = true
  · simp only [hd, if_true] at h; cases h; exact hi
  · have hd' : st.done = false := by simpa using hd
    have hA : st.active = A0 := hi.notDone hd'
    simp only [hd', Bool.false_eq_true, if_false] at h
    have hco := ppCands_ok possible layer st press hi.cands
    have hone := ppCands_count_one possible layer st press
    generalize ppCands possible layer st press = r at h hco hone
    obtain ⟨cands, count, mt⟩ := r
    simp only at h hco hone
    rcases count with _ | _ | n
    · -- 0: backtrack
      simp only at h
      split at h
      · rename_i cch hf
        have hmem := List.mem_of_find?_eq_some hf
        have hex := List.find?_some hf
        simp only [List.mem_filter] at hmem
        split at h
        · cases h
          exact ⟨(fun hh => by cases hh), Or.inl hA, (fun c hc => by cases hc)⟩
        · rename_i a hp
          cases h
          obtain ⟨hl, ha⟩ := pushActive_ok hp
          refine ⟨(fun hh => by cases hh), Or.inr ⟨cch, freeCoord st.active st.nextCoord, hmem.1, hmem.2, hex, hA ▸ hl, ?_⟩, (fun c hc => by cases hc)⟩
          simp only [ha, hA]
      · cases h
        exact ⟨(fun hh => by cases hh), Or.inl hA, (fun c hc => by cases hc)⟩
    · -- 1
      obtain ⟨x, hx⟩ := hone rfl
      subst hx
      simp only [Nat.zero_add, List.head?_cons] at h
      split at h
      · rename_i hcomp
        split at h
        · cases h
          exact ⟨(fun hh => by cases hh), Or.inl hA, hco⟩
        · rename_i a hp
          cases h
          obtain ⟨hl, ha⟩ := pushActive_ok hp
          obtain ⟨m1, m2, m3⟩ := hco x (by simp)
          refine ⟨(fun hh => by cases hh), Or.inr ⟨x, freeCoord st.active st.nextCoord, m1, m2, ?_, hA ▸ hl, ?_⟩, hco⟩
          · simp only [exactMatch, m3, hcomp, Bool.and_self]
          · simp only [ha, hA]
      · cases h
        exact ⟨(fun _ => hA), Or.inl hA, hco⟩
    · simp only at h
      cases h
      exact ⟨(fun _ => hA), Or.inl hA, hco⟩

theorem ppStep_no_err (possible : List ChordV2) (layer since : Nat) (relFound : Option Nat) (minIdle : Nat)
    (st : PP) (press : Nat) (c : Crash) : ppStep possible layer since relFound minIdle st press ≠ .error c := by
  intro h
  unfold ppStep at h
  by_cases hd : st.done = true
  · simp only [hd, if_true] at h; cases h
  · have hd' : st.done = false := by simpa using hd
    simp only [hd', Bool.false_eq_true, if_false] at h
    have hone := ppCands_count_one possible layer st press
    generalize ppCands possible layer st press = r at h hone
    obtain ⟨cands, count, mt⟩ := r
    simp only at h hone
    rcases count with _ | _ | n
    · simp only at h
      split at h
      · split at h <;> cases h
      · cases h
    · obtain ⟨x, hx⟩ := hone rfl
      subst hx
      simp only [Nat.zero_add, List.head?_cons] at h
      split at h
      · split at h <;> cases h
      · cases h
    · simp only at h
      cases h

theorem ppLoop_inv (possible : List ChordV2) (layer since : Nat) (relFound : Option Nat) (minIdle : Nat)
    (A0 : List ActiveChord) : ∀ (presses : List Nat) (st st' : PP),
    LoopInv possible layer since relFound A0 st →
    ppLoop possible layer since relFound minIdle presses st = .ok st' →
    LoopInv possible layer since relFound A0 st' := by
  intro presses
  induction presses with
  | nil => intro st st' hi h; cases h; exact hi
  | cons p rest ih =>
    intro st st' hi h
    simp only [ppLoop] at h
    split at h
    · cases h
    · rename_i st1 hs
      exact ih st1 st' (ppStep_inv possible layer since relFound minIdle A0 st st1 p hi hs) h

theorem ppLoop_no_err (possible : List ChordV2) (layer since : Nat) (relFound : Option Nat) (minIdle : Nat) :
    ∀ (presses : List Nat) (st : PP) (c : Crash), ppLoop possible layer since relFound minIdle presses st ≠ .error c := by
  intro presses
  induction presses with
  | nil => intro st c h; cases h
  | cons p rest ih =>
    intro st c h
    simp only [ppLoop] at h
    split at h
    · rename_i c' hs; exact ppStep_no_err _ _ _ _ _ _ _ _ hs
    · exact ih _ _ h

/-- the block after the loop keeps the invariant's `act` part: still at most one activation -/
theorem ppFinal_act (possible : List ChordV2) (layer since : Nat) (relFound : Option Nat) (minIdle : Nat)
    (A0 : List ActiveChord) (st : PP) (hi : LoopInv possible layer since relFound A0 st) :
    let st' := ppFinal possible layer since relFound minIdle A0.length st
    st'.acc = st.acc ∧
    (st'.active = A0 ∨
      ∃ cch coord, cch ∈ possible ∧ enabledOn layer cch = true ∧ exactMatch st'.acc cch = true ∧
        A0.length < ACTIVE_CHORDS_CAP ∧ st'.active = A0 ++ [getActiveChord cch since coord relFound]) := by
  simp only [ppFinal]
  split
  · rename_i hc
    simp only [Bool.and_eq_true, beq_iff_eq] at hc
    have hA : st.active = A0 := by
      rcases hi.act with h | ⟨_, _, _, _, _, _, h⟩
      · exact h
      · rw [h] at hc; simp at hc
    split
    · rename_i cch hf
      have hmem := List.mem_of_find?_eq_some hf
      have hex := List.find?_some hf
      simp only [List.mem_filter] at hmem
      have hposs : cch ∈ possible := by
        by_cases hl : st.cands.length ≥ SMOL_Q_LEN
        · simpa [hl] using hmem.1
        · have : cch ∈ st.cands := by simpa [hl] using hmem.1
          exact (hi.cands cch this).1
      split
      · exact ⟨rfl, Or.inl hA⟩
      · rename_i a hp
        obtain ⟨hl, ha⟩ := pushActive_ok hp
        exact ⟨rfl, Or.inr ⟨cch, freeCoord st.active st.nextCoord, hposs, hmem.2, hex, hA ▸ hl, by simp only [ha, hA]⟩⟩
    · exact ⟨rfl, Or.inl hA⟩
  · exact ⟨rfl, hi.act⟩

/-! ### the accumulated presses are a prefix of the pressed keys (in press order) -/

theorem ppStep_acc (possible : List ChordV2) (layer since : Nat) (relFound : Option Nat) (minIdle : Nat)
    (st st' : PP) (press : Nat) (pre : List Nat)
    (hi : (st.done = false → st.acc = pre) ∧ st.acc <+: pre)
    (h : ppStep possible layer since relFound minIdle st press = .ok st') :
    (st'.done = false → st'.acc = pre ++ [press]) ∧ st'.acc <+: pre ++ [press] := by
  unfold ppStep at h
  by_cases hd : st.done = true
  · simp only [hd, if_true] at h; cases h
    exact ⟨fun hh => by simp [hd] at hh, hi.2.trans (List.prefix_append _ _)⟩
  · have hd' : st.done = false := by simpa using hd
    have hA : st.acc = pre := hi.1 hd'
    simp only [hd', Bool.false_eq_true, if_false] at h
    have hone := ppCands_count_one possible layer st press
    generalize ppCands possible layer st press = r at h hone
    obtain ⟨cands, count, mt⟩ := r
    simp only at h hone
    have hdl : (st.acc ++ [press]).dropLast <+: pre ++ [press] := by
      rw [List.dropLast_concat, hA]; exact List.prefix_append _ _
    rcases count with _ | _ | n
    · simp only at h
      split at h
      · split at h <;> (cases h; exact ⟨(fun hh => by cases hh), hdl⟩)
      · cases h; exact ⟨(fun hh => by cases hh), hdl⟩
    · obtain ⟨x, hx⟩ := hone rfl
      subst hx
      simp only [Nat.zero_add, List.head?_cons] at h
      split at h
      · split at h <;> (cases h; exact ⟨(fun hh => by cases hh), by simp only [hA]; exact List.prefix_refl _⟩)
      · cases h; exact ⟨(fun _ => by simp only [hA]), by simp only [hA]; exact List.prefix_refl _⟩
    · simp only at h
      cases h; exact ⟨(fun _ => by simp only [hA]), by simp only [hA]; exact List.prefix_refl _⟩

theorem ppLoop_acc (possible : List ChordV2) (layer since : Nat) (relFound : Option Nat) (minIdle : Nat) :
    ∀ (presses : List Nat) (st st' : PP) (pre : List Nat),
    (st.done = false → st.acc = pre) ∧ st.acc <+: pre →
    ppLoop possible layer since relFound minIdle presses st = .ok st' →
    (st'.done = false → st'.acc = pre ++ presses) ∧ st'.acc <+: pre ++ presses := by
  intro presses
  induction presses with
  | nil => intro st st' pre hi h; cases h; simpa using hi
  | cons p rest ih =>
    intro st st' pre hi h
    simp only [ppLoop] at h
    split at h
    · cases h
    · rename_i st1 hs
      have := ih st1 st' (pre ++ [p]) (ppStep_acc possible layer since relFound minIdle st st1 p pre hi hs) h
      simpa using this

/-! ## `process_presses` -/

theorem processPresses_err (s : ChV2) (layer : Nat) (c : Crash) (h : processPresses s layer = .error c) : c = crashTM := by
  unfold processPresses at h
  split at h
  · rename_i c' he; cases h; exact collectPresses_err _ _ _ he
  · split at h
    · cases h
    · split at h
      · cases h
      · simp only [] at h
        split at h
        · rename_i c' he; exact absurd he (ppLoop_no_err _ _ _ _ _ _ _ _)
        · cases h

/-- the first key's age when `process_presses` runs -/
def sinceOf (s : ChV2) : Nat := (s.queue.head?.map (·.since)).getD 0

/-- **at most one activation, and only of an exactly matching chord**: what `process_presses` does to
`active_chords` and to the queue -/
theorem processPresses_spec (s s' : ChV2) (layer : Nat) (h : processPresses s layer = .ok s') :
    (s'.active = s.active ∧ s'.queue = s.queue) ∨
    ∃ presses relFound starting possible cch coord acc,
      collectPresses s.queue [] = .ok (presses, relFound) ∧ presses.head? = some starting ∧
      s.cfg.get starting = some possible ∧
      cch ∈ possible ∧ enabledOn layer cch = true ∧ exactMatch acc cch = true ∧ acc <+: presses ∧
      s.active.length < ACTIVE_CHORDS_CAP ∧
      s'.active = s.active ++ [getActiveChord cch (sinceOf s) coord relFound] ∧
      s'.queue = ppRetain s.queue acc := by
  unfold processPresses at h
  split at h
  · cases h
  · rename_i presses relFound hcp
    split at h
    · cases h; exact Or.inl ⟨rfl, rfl⟩
    · rename_i starting hst
      split at h
      · cases h; exact Or.inl ⟨rfl, rfl⟩
      · rename_i possible hget
        simp only [] at h
        split at h
        · cases h
        · rename_i st hl
          have hinv0 : LoopInv possible layer (sinceOf s) relFound s.active
              { ticksUntil := s.ticksUntilChange, nextCoord := s.nextCoord, active := s.active, ticksToIgnore := s.ticksToIgnore } :=
            ⟨fun _ => rfl, Or.inl rfl, fun c hc => by cases hc⟩
          have hinv := ppLoop_inv possible layer (sinceOf s) relFound s.cfg.minIdle s.active presses _ st hinv0 hl
          have hacc := ppLoop_acc possible layer (sinceOf s) relFound s.cfg.minIdle presses _ st []
            ⟨fun _ => rfl, List.prefix_refl _⟩ hl
          have hfin := ppFinal_act possible layer (sinceOf s) relFound s.cfg.minIdle s.active st hinv
          simp only at hfin
          simp only [List.nil_append] at hacc
          cases h
          rcases hfin.2 with hA | ⟨cch, coord, h1, h2, h3, h4, h5⟩
          · left
            simp only [sinceOf] at hA
            simp only [hA, Nat.lt_irrefl, if_false, and_self]
          · right
            refine ⟨presses, relFound, starting, possible, cch, coord, _, hcp, hst, hget, h1, h2, h3, hfin.1 ▸ hacc.2, h4, h5, ?_⟩
            simp only [sinceOf] at h5
            simp only [h5, List.length_append, List.length_cons, List.length_nil, Nat.lt_add_one, if_true]
            rfl

end KVerif.C09
