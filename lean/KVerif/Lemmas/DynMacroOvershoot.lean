/-
Helper lemmas for the C19 counterexample on the pinned `tick_ms`: with `ms_elapsed ≥ 65536` the
`extra_ticks` loop pops a replay event and drops it.  The loops are evaluated symbolically over a
layout that does nothing (`unitI`), because 65 536 iterations are too many to evaluate in the kernel.
-/
import KVerif.Lemmas.DynMacroRun
namespace KVerif.DynMacro

/-- a layout that does nothing -/
def unitI : LayoutI Unit := { event := fun _ _ => (), tick := fun _ => ((), [], []) }

theorem mainLoop_add {L} (I : LayoutI L) (c : Cfg) (a b : Nat) (k : K L) (e : Nat) :
    mainLoop I c (a + b) k e =
      match mainLoop I c a k e with
      | .error x => .error x
      | .ok (k1, e1) => mainLoop I c b k1 e1 := by
  induction a generalizing k e with
  | zero => simp [mainLoop]
  | succ a ih =>
    have : a + 1 + b = (a + b) + 1 := by omega
    rw [this, mainLoop_succ, mainLoop_succ]
    cases iterStep I c k e with
    | error x => rfl
    | ok p => obtain ⟨k1, e1⟩ := p; exact ih k1 e1

/-- what the dynamic-macro logic sees of a state -/
structure View where
  rep : Option Replay
  fed : List KeyEv
  lost : List KeyEv
  rcd : Option Rec
  deriving DecidableEq

def view (k : K Unit) : View := { rep := k.rep, fed := k.fed, lost := k.lost, rcd := k.rcd }

theorem tickStates_unit (c : Cfg) (k : K Unit) :
    ∃ k1, tickStates unitI c k = .ok k1 ∧ view k1 = { view k with rcd := tickRecord k.rcd } := by
  simp only [tickStates, unitI, doActs]
  exact ⟨_, rfl, rfl⟩

/-- while the countdown is above 1, an iteration of the first loop only counts down -/
theorem iterStep_idle (c : Cfg) (k : K Unit) (e : Nat) (st : Replay) (hr : k.rep = some st)
    (hn : k.rcd = none) (hd : 2 ≤ st.delay) :
    ∃ k1, iterStep unitI c k e = .ok (k1, e) ∧
      view k1 = { view k with rep := some { st with delay := st.delay - 1 } } := by
  obtain ⟨k1, h1, v1⟩ := tickStates_unit c k
  have hrep : k1.rep = some st := by
    have := congrArg View.rep v1; simp only [view] at this; rw [this, hr]
  have h0 : ¬ (st.delay - 1 = 0) := by omega
  simp only [iterStep, h1, hrep, tickReplay, h0, if_false]
  refine ⟨_, rfl, ?_⟩
  simp only [view] at v1 ⊢
  simp only [View.mk.injEq] at v1 ⊢
  obtain ⟨_, v2, v3, v4⟩ := v1
  exact ⟨trivial, v2, v3, by rw [v4, hn]; rfl⟩

theorem mainLoop_idle (c : Cfg) (n : Nat) (k : K Unit) (e : Nat) (st : Replay) (hr : k.rep = some st)
    (hn : k.rcd = none) (hd : n + 1 ≤ st.delay) :
    ∃ k1, mainLoop unitI c n k e = .ok (k1, e) ∧
      view k1 = { view k with rep := some { st with delay := st.delay - n } } := by
  induction n generalizing k st with
  | zero =>
    refine ⟨k, rfl, ?_⟩
    simp only [view, hr, Nat.sub_zero]
  | succ n ih =>
    obtain ⟨k1, h1, v1⟩ := iterStep_idle c k e st hr hn (by omega)
    have hr1 : k1.rep = some { st with delay := st.delay - 1 } := by
      have := congrArg View.rep v1; simpa [view] using this
    have hn1 : k1.rcd = none := by
      have := congrArg View.rcd v1; simp only [view] at this; rw [this, hn]
    obtain ⟨k2, h2, v2⟩ := ih k1 _ hr1 hn1 (by simp only; omega)
    refine ⟨k2, by rw [mainLoop_succ, h1]; exact h2, ?_⟩
    rw [v2]
    simp only [view, View.mk.injEq] at v1 ⊢
    obtain ⟨_, a2, a3, a4⟩ := v1
    refine ⟨?_, a2, a3, a4⟩
    congr 2; omega

/-- one iteration of the first loop over `unitI`, as seen through `view` -/
theorem iterStep_view (c : Cfg) (k : K Unit) (e : Nat) :
    ∃ k2, iterStep unitI c k e =
        .ok (k2, match (tickReplay c.beh k.rep).2 with | none => e | some (_, d) => satAdd e d) ∧
      view k2 = { rep := (tickReplay c.beh k.rep).1, fed := k.fed ++ outEv (tickReplay c.beh k.rep).2,
                  lost := k.lost, rcd := tickRecord k.rcd } := by
  obtain ⟨k1, h1, v1⟩ := tickStates_unit c k
  simp only [view, View.mk.injEq] at v1
  obtain ⟨v1, v2, v3, v4⟩ := v1
  simp only [iterStep, h1, v1]
  cases h : tickReplay c.beh k.rep with
  | mk rep' ev =>
    cases ev with
    | none => exact ⟨_, rfl, by simp [view, outEv, v2, v3, v4]⟩
    | some p => obtain ⟨ev, d⟩ := p; exact ⟨_, rfl, by simp [view, outEv, v2, v3, v4]⟩

/-- one iteration of the second loop over `unitI` that pops an event: it is dropped -/
theorem extraStep_view_pop (c : Cfg) (k : K Unit) (rep' : Option Replay) (ev : KeyEv) (d : Nat)
    (h : tickReplay c.beh k.rep = (rep', some (ev, d))) :
    ∃ k2, extraStep unitI c k = .ok (k2, true) ∧
      view k2 = { rep := rep', fed := k.fed, lost := k.lost ++ [ev], rcd := tickRecord k.rcd } := by
  obtain ⟨k1, h1, v1⟩ := tickStates_unit c k
  simp only [view, View.mk.injEq] at v1
  obtain ⟨v1, v2, v3, v4⟩ := v1
  simp only [extraStep, h1, v1, h]
  exact ⟨_, rfl, by simp [view, v2, v3, v4]⟩

theorem tickMs_of_mainLoop {L} (I : LayoutI L) (c : Cfg) (ms : Nat) (k k1 : K L) (e : Nat)
    (h : mainLoop I c ms k 0 = .ok (k1, e)) :
    tickMs I c ms k = extraLoop I c (e - msAsU16 c.fix ms) k1 := by
  simp only [tickMs, h]

theorem extraLoop_pop {L} (I : LayoutI L) (c : Cfg) (n : Nat) (k k2 : K L)
    (h : extraStep I c k = .ok (k2, true)) : extraLoop I c (n + 1) k = .ok k2 := by
  rw [extraLoop_succ, h]

end KVerif.DynMacro
