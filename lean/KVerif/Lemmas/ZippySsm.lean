/-
Lemmas about the SubsetMap model: the per-item association list of sorted vectors answers every
lookup exactly like the plain list of (key, value) pairs it stands for.
-/
import KVerif.Model.Zippy
namespace KVerif.Zippy

variable {V : Type}

/-- first pair stored under exactly this key -/
def findKey (l : List (Key × V)) (k : Key) : Option (Key × V) := l.find? (fun kv => kv.1 = k)

theorem findKey_nil (k : Key) : findKey ([] : List (Key × V)) k = none := rfl

theorem findKey_cons (a : Key × V) (l : List (Key × V)) (k : Key) :
    findKey (a :: l) k = if a.1 = k then some a else findKey l k := by
  simp only [findKey, List.find?_cons]
  by_cases h : a.1 = k <;> simp [h]

theorem findKey_vecInsert (key : Key) (v : V) (vec : List (Key × V)) (k' : Key) :
    findKey (vecInsert key v vec) k' = if key = k' then some (key, v) else findKey vec k' := by
  induction vec with
  | nil => simp [vecInsert, findKey_cons, findKey_nil]
  | cons a rest ih =>
    obtain ⟨ka, va⟩ := a
    unfold vecInsert
    by_cases h1 : ka = key
    · subst h1
      rw [if_pos rfl]
      simp only [findKey_cons]
      by_cases h2 : ka = k' <;> simp [h2]
    · rw [if_neg h1]
      by_cases h3 : keyLt key ka = true
      · rw [if_pos h3]
        simp only [findKey_cons]
      · rw [if_neg h3]
        rw [findKey_cons, ih, findKey_cons]
        by_cases h2 : key = k'
        · subst h2
          simp [h1]
        · simp [h2]

/-- the vector stored for an item (`none` and an empty vector answer alike) -/
def vecOf (m : Ssm V) (x : Nat) : List (Key × V) := (mapGet m x).getD []

theorem mapGet_mapUpdate (x : Nat) (f : List (Key × V) → List (Key × V)) (m : Ssm V) (y : Nat) :
    mapGet (mapUpdate x f m) y = if x = y then some (f (vecOf m x)) else mapGet m y := by
  induction m with
  | nil =>
    by_cases h : x = y <;> simp [mapUpdate, mapGet, vecOf, h]
  | cons a rest ih =>
    obtain ⟨ka, va⟩ := a
    unfold mapUpdate
    by_cases h1 : ka = x
    · subst h1
      rw [if_pos rfl]
      by_cases h : ka = y <;> simp [mapGet, vecOf, h]
    · rw [if_neg h1]
      by_cases h2 : ka = y
      · subst h2
        have : ¬ x = ka := fun h => h1 h.symm
        simp [mapGet, this]
      · simp only [mapGet, h2, if_false, ih]
        by_cases h : x = y
        · subst h
          simp [vecOf, mapGet, h1]
        · simp [h]

theorem vecOf_mapUpdate (x : Nat) (f : List (Key × V) → List (Key × V)) (m : Ssm V) (y : Nat) :
    vecOf (mapUpdate x f m) y = if x = y then f (vecOf m x) else vecOf m y := by
  simp only [vecOf, mapGet_mapUpdate]
  by_cases h : x = y <;> simp [h]

theorem mapUpdate_ne_nil (x : Nat) (f : List (Key × V) → List (Key × V)) (m : Ssm V) :
    mapUpdate x f m ≠ [] := by
  cases m with
  | nil => simp [mapUpdate]
  | cons a rest =>
    obtain ⟨ka, va⟩ := a
    simp only [mapUpdate]
    by_cases h : ka = x <;> simp [h]

/-- inserting a key touches exactly the vectors of its items -/
theorem findKey_vecOf_fold (key : Key) (v : V) (its : List Nat) (m : Ssm V) (y : Nat) (k' : Key) :
    findKey (vecOf (its.foldl (fun m k => mapUpdate k (vecInsert key v) m) m) y) k' =
      if its.contains y then (if key = k' then some (key, v) else findKey (vecOf m y) k')
      else findKey (vecOf m y) k' := by
  induction its generalizing m with
  | nil => simp
  | cons a rest ih =>
    simp only [List.foldl_cons, ih, vecOf_mapUpdate]
    by_cases h1 : a = y
    · subst h1
      simp only [if_true, findKey_vecInsert, List.contains_cons, BEq.rfl, Bool.true_or]
      by_cases h2 : key = k' <;> simp [h2]
    · have : (y == a) = false := by simp [beq_eq_false_iff_ne]; exact fun h => h1 h.symm
      simp only [h1, if_false, List.contains_cons, this, Bool.false_or]

theorem fold_mapUpdate_ne_nil (key : Key) (v : V) (its : List Nat) (m : Ssm V) (h : its ≠ [] ∨ m ≠ []) :
    its.foldl (fun m k => mapUpdate k (vecInsert key v) m) m ≠ [] := by
  induction its generalizing m with
  | nil => simpa using h
  | cons a rest ih =>
    simp only [List.foldl_cons]
    exact ih _ (Or.inr (mapUpdate_ne_nil _ _ _))

theorem mem_keys_iff_findKey' (l : List (Key × V)) (k : Key) :
    (∃ kv ∈ l, kv.1 = k) ↔ (findKey l k).isSome = true := by
  simp only [findKey, List.find?_isSome]
  constructor
  · rintro ⟨kv, h1, h2⟩; exact ⟨kv, h1, by simpa using h2⟩
  · rintro ⟨kv, h1, h2⟩; exact ⟨kv, h1, by simpa using h2⟩

theorem findKey_map_replace (d : List (Key × V)) (key : Key) (v : V) (k' : Key) :
    findKey (d.map (fun kv => if kv.1 = key then (key, v) else kv)) k' =
      if key = k' then (findKey d key).map (fun _ => (key, v)) else findKey d k' := by
  induction d with
  | nil => simp [findKey_nil]
  | cons a rest ih =>
    obtain ⟨ka, va⟩ := a
    rw [List.map_cons, findKey_cons, ih]
    by_cases h1 : ka = key
    · subst h1
      by_cases h2 : ka = k'
      · subst h2; simp [findKey_cons]
      · simp [findKey_cons, h2]
    · by_cases h2 : key = k'
      · subst h2
        simp [findKey_cons, h1]
      · simp only [h1, if_false, h2, findKey_cons]

theorem findKey_append_single (d : List (Key × V)) (a : Key × V) (k' : Key) :
    findKey (d ++ [a]) k' = match findKey d k' with
      | some x => some x
      | none => if a.1 = k' then some a else none := by
  induction d with
  | nil => simp [findKey_cons, findKey_nil]
  | cons b rest ih =>
    rw [List.cons_append, findKey_cons, findKey_cons, ih]
    by_cases h : b.1 = k' <;> simp [h]

theorem findKey_absInsert (d : List (Key × V)) (key : Key) (v : V) (hk : key ≠ []) (k' : Key) :
    findKey (absInsert d key v) k' = if key = k' then some (key, v) else findKey d k' := by
  unfold absInsert
  rw [if_neg hk]
  by_cases hany : d.any (fun kv => decide (kv.1 = key)) = true
  · rw [if_pos hany, findKey_map_replace]
    by_cases h2 : key = k'
    · subst h2
      have : (findKey d key).isSome = true := by
        apply (mem_keys_iff_findKey' d key).mp
        simp only [List.any_eq_true, decide_eq_true_eq] at hany
        exact hany
      cases hf : findKey d key with
      | none => simp [hf] at this
      | some x => simp
    · simp [h2]
  · rw [if_neg hany, findKey_append_single]
    have hnone : findKey d key = none := by
      simp only [findKey, List.find?_eq_none]
      intro x hx
      simp only [Bool.not_eq_true, List.any_eq_false] at hany
      simpa using hany x hx
    by_cases h2 : key = k'
    · subst h2
      simp [hnone]
    · cases hf : findKey d k' with
      | none => simp [h2]
      | some x => simp [h2]

theorem absInsert_ne_nil (d : List (Key × V)) (key : Key) (v : V) (hk : key ≠ []) :
    absInsert d key v ≠ [] := by
  simp only [absInsert, hk, if_false]
  by_cases hany : d.any (fun kv => decide (kv.1 = key)) = true
  · simp only [hany, if_true]
    cases d with
    | nil => simp at hany
    | cons a r => simp
  · simp [hany]

theorem absInsert_keys_ne (d : List (Key × V)) (key : Key) (v : V)
    (hd : ∀ kv ∈ d, kv.1 ≠ []) : ∀ kv ∈ absInsert d key v, kv.1 ≠ [] := by
  intro kv hkv
  unfold absInsert at hkv
  by_cases hk : key = []
  · simp only [hk, if_true] at hkv
    exact hd kv hkv
  · simp only [hk, if_false] at hkv
    by_cases hany : d.any (fun kv => decide (kv.1 = key)) = true
    · simp only [hany, if_true, List.mem_map] at hkv
      obtain ⟨a, ha, rfl⟩ := hkv
      by_cases h : a.1 = key
      · simp [h, hk]
      · simp only [h, if_false]; exact hd a ha
    · simp only [hany, Bool.false_eq_true, if_false, List.mem_append, List.mem_singleton] at hkv
      rcases hkv with h | h
      · exact hd kv h
      · subst h; exact hk

/-- The representation invariant between the concrete map and the list of pairs it stands for. -/
structure Rep (m : Ssm V) (d : List (Key × V)) : Prop where
  find : ∀ x k, findKey (vecOf m x) k = if x ∈ k then findKey d k else none
  empty : m = [] ↔ d = []
  keysNe : ∀ kv ∈ d, kv.1 ≠ []

theorem Rep.nil : Rep ([] : Ssm V) [] :=
  ⟨by intro x k; simp [vecOf, mapGet, findKey_nil], by simp, by simp⟩

theorem Rep.insert {m : Ssm V} {d : List (Key × V)} (h : Rep m d) (key : Key) (v : V) :
    Rep (ssmInsertKsorted m key v) (absInsert d key v) := by
  by_cases hk : key = []
  · subst hk
    simpa [ssmInsertKsorted, absInsert] using h
  · refine ⟨?_, ?_, absInsert_keys_ne d key v h.keysNe⟩
    · intro x k
      simp only [ssmInsertKsorted, findKey_vecOf_fold, findKey_absInsert d key v hk, h.find,
        List.contains_iff_mem]
      by_cases h1 : key = k
      · subst h1
        by_cases h2 : x ∈ key <;> simp [h2]
      · simp [h1]
    · constructor
      · intro hm
        exact absurd hm (fold_mapUpdate_ne_nil key v key m (Or.inl hk))
      · intro hd
        exact absurd hd (absInsert_ne_nil d key v hk)

theorem mem_keys_iff_findKey (l : List (Key × V)) (k : Key) :
    (∃ kv ∈ l, kv.1 = k) ↔ (findKey l k).isSome = true := by
  simp only [findKey, List.find?_isSome]
  constructor
  · rintro ⟨kv, h1, h2⟩; exact ⟨kv, h1, by simpa using h2⟩
  · rintro ⟨kv, h1, h2⟩; exact ⟨kv, h1, by simpa using h2⟩

theorem findKey_some_key {l : List (Key × V)} {k : Key} {kv : Key × V} (h : findKey l k = some kv) :
    kv.1 = k := by
  have := List.find?_some h
  simpa using this

theorem isSubsetOf_head {k0 : Nat} {r key : Key} (h : isSubsetOf (k0 :: r) key = true) :
    k0 ∈ key := by
  simp only [isSubsetOf, List.all_cons, Bool.and_eq_true] at h
  simpa using h.1

/-- lookup inside one stored vector -/
def getIn (vec : List (Key × V)) (k : Key) : Lookup V :=
  match vec.find? (fun kv => kv.1 = k) with
  | some kv => .hasValue kv.2
  | none => if vec.any (fun kv => isSubsetOf k kv.1) then .isSubset else .neither

theorem ssmGet_cons (m : Ssm V) (k0 : Nat) (r : Key) :
    ssmGet m (k0 :: r) = getIn (vecOf m k0) (k0 :: r) := by
  simp only [ssmGet, vecOf]
  cases mapGet m k0 with
  | none => simp [getIn]
  | some vec => rfl

/-- Lookups agree under the representation invariant. -/
theorem Rep.get {m : Ssm V} {d : List (Key × V)} (h : Rep m d) (k : Key) :
    ssmGet m k = absGet d k := by
  cases k with
  | nil =>
    simp only [ssmGet, absGet]
    have hf : List.find? (fun kv => decide (kv.1 = ([] : Key))) d = none := by
      simp only [List.find?_eq_none]
      intro x hx
      simpa using h.keysNe x hx
    rw [hf]
    cases m with
    | nil =>
      have := h.empty.mp rfl
      subst this
      simp
    | cons a r =>
      have hd : d ≠ [] := fun hd => by simpa using h.empty.mpr hd
      cases d with
      | nil => exact absurd rfl hd
      | cons b s => simp [isSubsetOf]
  | cons k0 r =>
    rw [ssmGet_cons]
    unfold getIn
    have hfind := h.find k0 (k0 :: r)
    simp only [findKey, List.mem_cons, true_or, if_true] at hfind
    simp only [absGet, hfind]
    cases hd : List.find? (fun kv => decide (kv.1 = k0 :: r)) d with
    | some kv => rfl
    | none =>
      simp only
      have hany : (vecOf m k0).any (fun kv => isSubsetOf (k0 :: r) kv.1) =
          d.any (fun kv => isSubsetOf (k0 :: r) kv.1) := by
        rw [Bool.eq_iff_iff]
        simp only [List.any_eq_true]
        constructor
        · rintro ⟨kv, hkv, hs⟩
          have h1 : (findKey (vecOf m k0) kv.1).isSome = true :=
            (mem_keys_iff_findKey _ _).mp ⟨kv, hkv, rfl⟩
          rw [h.find k0 kv.1] at h1
          have hc := isSubsetOf_head hs
          rw [if_pos hc] at h1
          obtain ⟨kv', hkv', hk'⟩ := (mem_keys_iff_findKey _ _).mpr h1
          exact ⟨kv', hkv', by rw [hk']; exact hs⟩
        · rintro ⟨kv, hkv, hs⟩
          have hc := isSubsetOf_head hs
          have h1 : (findKey d kv.1).isSome = true := (mem_keys_iff_findKey _ _).mp ⟨kv, hkv, rfl⟩
          have h2 : (findKey (vecOf m k0) kv.1).isSome = true := by
            rw [h.find k0 kv.1, if_pos hc]; exact h1
          obtain ⟨kv', hkv', hk'⟩ := (mem_keys_iff_findKey _ _).mpr h2
          exact ⟨kv', hkv', by rw [hk']; exact hs⟩
      rw [hany]

/-- The concrete and the abstract map built by the same insertions. -/
def ssmOf (ins : List (Key × V)) : Ssm V := ins.foldl (fun m kv => ssmInsertKsorted m kv.1 kv.2) []
def absOf (ins : List (Key × V)) : List (Key × V) := ins.foldl (fun d kv => absInsert d kv.1 kv.2) []

theorem rep_fold (ins : List (Key × V)) (m : Ssm V) (d : List (Key × V)) (h : Rep m d) :
    Rep (ins.foldl (fun m kv => ssmInsertKsorted m kv.1 kv.2) m)
        (ins.foldl (fun d kv => absInsert d kv.1 kv.2) d) := by
  induction ins generalizing m d with
  | nil => exact h
  | cons a r ih => exact ih _ _ (h.insert a.1 a.2)

theorem rep_of (ins : List (Key × V)) : Rep (ssmOf ins) (absOf ins) := rep_fold ins [] [] Rep.nil

/-- Insertions of pairwise distinct non-empty keys: the abstract list is the insertion list. -/
theorem absOf_fold_distinct (ins acc : List (Key × V))
    (hne : ∀ kv ∈ ins, kv.1 ≠ [])
    (hd : ins.Pairwise (fun a b => a.1 ≠ b.1))
    (hacc : ∀ a ∈ acc, ∀ b ∈ ins, a.1 ≠ b.1) :
    ins.foldl (fun d kv => absInsert d kv.1 kv.2) acc = acc ++ ins := by
  induction ins generalizing acc with
  | nil => simp
  | cons a r ih =>
    simp only [List.foldl_cons]
    have hk : a.1 ≠ [] := hne a (List.mem_cons_self ..)
    have hany : acc.any (fun kv => decide (kv.1 = a.1)) = false := by
      simp only [List.any_eq_false]
      intro x hx
      simpa using hacc x hx a (List.mem_cons_self ..)
    have hins : absInsert acc a.1 a.2 = acc ++ [a] := by
      simp [absInsert, hk, hany]
    rw [hins, ih]
    · simp
    · intro kv hkv; exact hne kv (List.mem_cons_of_mem _ hkv)
    · exact (List.pairwise_cons.mp hd).2
    · intro x hx b hb
      simp only [List.mem_append, List.mem_singleton] at hx
      rcases hx with hx | hx
      · exact hacc x hx b (List.mem_cons_of_mem _ hb)
      · subst hx
        exact (List.pairwise_cons.mp hd).1 b hb

theorem absOf_distinct (ins : List (Key × V)) (hne : ∀ kv ∈ ins, kv.1 ≠ [])
    (hd : ins.Pairwise (fun a b => a.1 ≠ b.1)) : absOf ins = ins := by
  simpa [absOf] using absOf_fold_distinct ins [] hne hd (by simp)

/-! ### What the list of pairs contains, in terms of the insertions themselves -/

/-- the last insertion under exactly this (non-empty) key -/
def lastInsert (ins : List (Key × V)) (k : Key) : Option V :=
  (ins.reverse.find? (fun kv => kv.1 = k && !kv.1.isEmpty)).map (·.2)

theorem findKey_fold_absInsert (ins acc : List (Key × V)) (k : Key) :
    findKey (ins.foldl (fun d kv => absInsert d kv.1 kv.2) acc) k =
      match lastInsert ins k with
      | some v => some (k, v)
      | none => findKey acc k := by
  induction ins generalizing acc with
  | nil => simp [lastInsert]
  | cons a r ih =>
    rw [List.foldl_cons, ih]
    simp only [lastInsert, List.reverse_cons, List.find?_append]
    cases hr : List.find? (fun kv => decide (kv.1 = k) && !kv.1.isEmpty) r.reverse with
    | some kv => simp
    | none =>
      simp only [Option.map_none, Option.none_or, List.find?_cons, List.find?_nil]
      by_cases hk : a.1 = []
      · have : absInsert acc a.1 a.2 = acc := by simp [absInsert, hk]
        rw [this]
        simp [hk]
      · rw [findKey_absInsert _ _ _ hk]
        have hne : a.1.isEmpty = false := by simpa using hk
        by_cases h2 : a.1 = k
        · subst h2; simp [hne]
        · simp [h2]

theorem any_subset_absInsert (d : List (Key × V)) (key : Key) (v : V) (k : Key) :
    (absInsert d key v).any (fun kv => isSubsetOf k kv.1) =
      (d.any (fun kv => isSubsetOf k kv.1) || (!key.isEmpty && isSubsetOf k key)) := by
  unfold absInsert
  by_cases hk : key = []
  · subst hk; simp
  · rw [if_neg hk]
    have hne : key.isEmpty = false := by simpa using hk
    by_cases hany : d.any (fun kv => decide (kv.1 = key)) = true
    · rw [if_pos hany]
      rw [Bool.eq_iff_iff]
      simp only [List.any_eq_true, List.mem_map, Bool.or_eq_true, hne, Bool.not_false, Bool.true_and]
      constructor
      · rintro ⟨kv, ⟨a, ha, rfl⟩, hs⟩
        by_cases h : a.1 = key
        · simp only [h, if_true] at hs; exact Or.inr hs
        · simp only [h, if_false] at hs; exact Or.inl ⟨a, ha, hs⟩
      · rintro (⟨a, ha, hs⟩ | hs)
        · refine ⟨_, ⟨a, ha, rfl⟩, ?_⟩
          by_cases h : a.1 = key
          · simp only [h, if_true]; rw [← h]; exact hs
          · simp only [h, if_false]; exact hs
        · simp only [List.any_eq_true, decide_eq_true_eq] at hany
          obtain ⟨a, ha, hka⟩ := hany
          exact ⟨_, ⟨a, ha, rfl⟩, by simp [hka, hs]⟩
    · rw [if_neg hany]
      simp [List.any_append, hne]

theorem any_subset_fold_absInsert (ins acc : List (Key × V)) (k : Key) :
    (ins.foldl (fun d kv => absInsert d kv.1 kv.2) acc).any (fun kv => isSubsetOf k kv.1) =
      (acc.any (fun kv => isSubsetOf k kv.1) ||
        ins.any (fun kv => !kv.1.isEmpty && isSubsetOf k kv.1)) := by
  induction ins generalizing acc with
  | nil => simp
  | cons a r ih =>
    rw [List.foldl_cons, ih, any_subset_absInsert, List.any_cons, Bool.or_assoc]

/-- The meaning of a lookup after a sequence of insertions: the value of the last insertion under
exactly this key; else whether the key is a subset of some inserted key; else neither. -/
def lookupSpec (ins : List (Key × V)) (k : Key) : Lookup V :=
  match lastInsert ins k with
  | some v => .hasValue v
  | none => if ins.any (fun kv => !kv.1.isEmpty && isSubsetOf k kv.1) then .isSubset else .neither

theorem absGet_absOf (ins : List (Key × V)) (k : Key) : absGet (absOf ins) k = lookupSpec ins k := by
  have h1 := findKey_fold_absInsert ins [] k
  have h2 := any_subset_fold_absInsert ins [] k
  simp only [findKey_nil, List.any_nil, Bool.false_or] at h1 h2
  unfold absGet lookupSpec absOf
  unfold findKey at h1
  rw [h1, h2]
  cases lastInsert ins k <;> rfl

end KVerif.Zippy
