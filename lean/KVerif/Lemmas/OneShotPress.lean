/-
C06 helper lemmas, part 3: what a dequeued *press* does on the C06 fragment (plain keys, output
chords, layer-while-held, transparent / unmapped positions, and one-shot of the first three):
which `do_action` arm runs, what it does to the states, and which `OneShotState` operation it
performs (`handle_press(Other)` for every non-one-shot arm, the activation for the one-shot arm).
-/
import KVerif.Lemmas.OneShotTick
namespace KVerif.C06
open KVerif.L

/-- what may sit inside `one-shot` (the parser allows nothing else) -/
def Simple : Action → Prop
  | .keyCode _ | .multipleKeyCodes _ | .layer _ => True
  | _ => False

/-- the action fragment of C06 -/
def Frag : Action → Prop
  | .noOp | .trans | .keyCode _ | .multipleKeyCodes _ | .layer _ => True
  | .oneShot inner _ _ => Simple inner
  | _ => False

def CfgFrag (c : LCfg) : Prop :=
  (∀ tbl ∈ c.layers, ∀ e ∈ tbl, Frag e.2) ∧ (∀ e ∈ c.srcKeys, Frag e.2)

/-- everything a press on the fragment leaves alone -/
structure Frame (s s' : Layout) : Prop where
  waiting : s'.waiting = s.waiting
  extra : s'.extraWaiting = s.extraWaiting
  tde : s'.tapDanceEager = s.tapDanceEager
  aq : s'.actionQueue = s.actionQueue
  seqs : s'.activeSequences = s.activeSequences
  cfg : s'.cfg = s.cfg
  dl : s'.defaultLayer = s.defaultLayer
  tv2 : s'.transV2 = s.transV2
  dfl : s'.delegateToFirstLayer = s.delegateToFirstLayer

theorem Frame.refl (s : Layout) : Frame s s := ⟨rfl, rfl, rfl, rfl, rfl, rfl, rfl, rfl, rfl⟩
theorem Frame.trans {a b c : Layout} (h1 : Frame a b) (h2 : Frame b c) : Frame a c :=
  ⟨h2.waiting.trans h1.waiting, h2.extra.trans h1.extra, h2.tde.trans h1.tde, h2.aq.trans h1.aq,
   h2.seqs.trans h1.seqs, h2.cfg.trans h1.cfg, h2.dl.trans h1.dl, h2.tv2.trans h1.tv2, h2.dfl.trans h1.dfl⟩

theorem Calm.frame {s s' : Layout} (h : Calm s) (f : Frame s s') (hs : ∀ st ∈ s'.states, StOK st)
    (hi : s'.oneshot.ticksToIgnoreEvents = 0) : Calm s' :=
  h.of_eq f.waiting f.extra f.tde f.aq f.seqs hs hi

/-! ### small pieces -/

theorem prelude_spec (s : Layout) (c : Coord) :
    Frame s (prelude s c) ∧ (prelude s c).oneshot = s.oneshot ∧ (prelude s c).queue = s.queue ∧
    (prelude s c).states = s.states.filter (fun st => !st.clearOnNextAction) := by
  unfold prelude
  split <;> exact ⟨⟨rfl, rfl, rfl, rfl, rfl, rfl, rfl, rfl, rfl⟩, rfl, rfl, rfl⟩

theorem updateCoord_spec (s : Layout) (c : Coord) :
    Frame s (updateCoord s c) ∧ (updateCoord s c).oneshot = s.oneshot ∧ (updateCoord s c).queue = s.queue ∧
    (updateCoord s c).states = s.states := by
  unfold updateCoord
  split <;> exact ⟨⟨rfl, rfl, rfl, rfl, rfl, rfl, rfl, rfl, rfl⟩, rfl, rfl, rfl⟩

theorem mem_pushCap {α} {cap : Nat} {l : List α} {x y : α} (h : y ∈ pushCap cap l x) : y ∈ l ∨ y = x := by
  unfold pushCap at h
  split at h
  · rcases List.mem_append.mp h with h | h
    · exact Or.inl h
    · exact Or.inr (by simpa using h)
  · exact Or.inl h

theorem mem_pushCap_old {α} {cap : Nat} {l : List α} {x y : α} (h : y ∈ l) : y ∈ pushCap cap l x := by
  unfold pushCap
  split
  · exact List.mem_append_left _ h
  · exact h

/-- `oshOther`: the `handle_press(Other)` call every non-one-shot arm makes -/
theorem oshOther_spec (s : Layout) (os : Bool) (c : Coord) :
    (oshOther s os c).1 = { s with oneshot := if os then s.oneshot else (s.oneshot.handlePress (.other c)).1 } := by
  unfold oshOther Layout.oshPress
  cases os <;> rfl

/-! ### the arms -/

/-- how a press changes the states: nothing already there is lost (except output-chord keys, which
are flagged to go on the next action), and whatever is new belongs to the pressed coordinate -/
structure Adds (c : Coord) (s s' : Layout) : Prop where
  old : ∀ st ∈ s.states, st.clearOnNextAction = false → st ∈ s'.states
  new : ∀ st ∈ s'.states, st ∈ s.states ∨ (st.coord = some c ∧ StOK st)

theorem Adds.refl (c : Coord) (s : Layout) : Adds c s s := ⟨fun _ h _ => h, fun _ h => Or.inl h⟩
theorem Adds.trans {c : Coord} {s1 s2 s3 : Layout} (h1 : Adds c s1 s2) (h2 : Adds c s2 s3) : Adds c s1 s3 :=
  ⟨fun st h hf => h2.old st (h1.old st h hf) hf, fun st h => by
    rcases h2.new st h with h | h
    · exact h1.new st h
    · exact Or.inr h⟩
theorem Adds.of_states {c : Coord} {s s' : Layout} (h : s'.states = s.states) : Adds c s s' :=
  ⟨fun _ hst _ => h ▸ hst, fun _ hst => Or.inl (h ▸ hst)⟩

theorem pushState_adds (s : Layout) (st : St) (c : Coord) (h1 : st.coord = some c) (h2 : StOK st) :
    Adds c s (s.pushState st) :=
  ⟨fun _ h _ => mem_pushCap_old h, fun x h => by
    rcases mem_pushCap h with h | h
    · exact Or.inl h
    · exact Or.inr (h ▸ ⟨h1, h2⟩)⟩

theorem prelude_adds (s : Layout) (c : Coord) : Adds c s (prelude s c) := by
  have h := (prelude_spec s c).2.2.2
  refine ⟨fun st hst hf => ?_, fun st hst => Or.inl ?_⟩
  · rw [h]; exact List.mem_filter.mpr ⟨hst, by simp [hf]⟩
  · rw [h] at hst; exact (List.mem_filter.mp hst).1

/-- what the other fields do under the arms of the fragment -/
structure ArmSpec (c : Coord) (os : Bool) (s s' : Layout) : Prop where
  frame : Frame s s'
  queue : s'.queue = s.queue
  adds : Adds c s s'
  osh : s'.oneshot = if os then s.oneshot else (s.oneshot.handlePress (.other c)).1

theorem ArmSpec.rpt {c : Coord} {os : Bool} {s x : Layout} (h : ArmSpec c os s x) (r : Option Action) :
    ArmSpec c os s { x with rptAction := r } :=
  ⟨⟨h.frame.waiting, h.frame.extra, h.frame.tde, h.frame.aq, h.frame.seqs, h.frame.cfg, h.frame.dl,
    h.frame.tv2, h.frame.dfl⟩, h.queue, ⟨h.adds.old, h.adds.new⟩, h.osh⟩

/-- after the state push of an arm, the `handle_press(Other)` call -/
theorem oshOther_armSpec {c : Coord} {s x : Layout} (os : Bool) (hf : Frame s x) (hq : x.queue = s.queue)
    (ha : Adds c s x) (ho : x.oneshot = s.oneshot) : ArmSpec c os s (oshOther x os c).1 := by
  rw [oshOther_spec]
  exact ⟨⟨hf.waiting, hf.extra, hf.tde, hf.aq, hf.seqs, hf.cfg, hf.dl, hf.tv2, hf.dfl⟩, hq,
    ⟨ha.old, ha.new⟩, by simp only [ho]⟩

theorem armKeyCode_spec (s : Layout) (a : Action) (kc : KeyCode) (c : Coord) (os : Bool) :
    ArmSpec c os s (armKeyCode s a kc c os) := by
  obtain ⟨u1, u2, u3, u4⟩ := updateCoord_spec s c
  have hadd : Adds c s (({ updateCoord s c with histKeys := histPush (updateCoord s c).histKeys kc } : Layout).pushState
      (.normalKey kc c 0)) :=
    (Adds.of_states (c := c) (s := s) (s' := ({ updateCoord s c with histKeys := histPush (updateCoord s c).histKeys kc } : Layout)) u4).trans
      (pushState_adds _ _ c rfl (Or.inl rfl))
  have key := oshOther_armSpec (c := c) (s := s)
    (x := ({ updateCoord s c with histKeys := histPush (updateCoord s c).histKeys kc } : Layout).pushState (.normalKey kc c 0))
    os ⟨u1.waiting, u1.extra, u1.tde, u1.aq, u1.seqs, u1.cfg, u1.dl, u1.tv2, u1.dfl⟩ u3 hadd u2
  unfold armKeyCode
  simp only []
  split <;> exact key.rpt _

theorem pushKeyCodes_spec (kcs : List KeyCode) (c : Coord) (f : Nat) (hf : f = 0 ∨ f = 1) : ∀ (s : Layout),
    Frame s (pushKeyCodes s kcs c f) ∧ (pushKeyCodes s kcs c f).queue = s.queue ∧
    Adds c s (pushKeyCodes s kcs c f) ∧ (pushKeyCodes s kcs c f).oneshot = s.oneshot := by
  induction kcs with
  | nil => intro s; exact ⟨Frame.refl s, rfl, Adds.refl c s, rfl⟩
  | cons kc rest ih =>
    intro s
    obtain ⟨i1, i2, i3, i4⟩ := ih (({ s with histKeys := histPush s.histKeys kc } : Layout).pushState (.normalKey kc c f))
    have hadd := (pushState_adds ({ s with histKeys := histPush s.histKeys kc } : Layout) (.normalKey kc c f) c rfl hf).trans i3
    simp only [pushKeyCodes, List.foldl_cons] at i1 i2 i3 i4 hadd ⊢
    exact ⟨⟨i1.waiting, i1.extra, i1.tde, i1.aq, i1.seqs, i1.cfg, i1.dl, i1.tv2, i1.dfl⟩, i2,
      ⟨hadd.old, hadd.new⟩, i4⟩

theorem armMultipleKeyCodes_spec (s : Layout) (a : Action) (kcs : List KeyCode) (c : Coord) (os : Bool) :
    ArmSpec c os s (armMultipleKeyCodes s a kcs c os) := by
  obtain ⟨u1, u2, u3, u4⟩ := updateCoord_spec s c
  have key : ∀ f, (f = 0 ∨ f = 1) → ArmSpec c os s (oshOther (pushKeyCodes (updateCoord s c) kcs c f) os c).1 := by
    intro f hf
    obtain ⟨p1, p2, p3, p4⟩ := pushKeyCodes_spec kcs c f hf (updateCoord s c)
    exact oshOther_armSpec (c := c) (s := s) (x := pushKeyCodes (updateCoord s c) kcs c f)
      os (u1.trans p1) (p2.trans u3) ((Adds.of_states (c := c) u4).trans p3) (p4.trans u2)
  unfold armMultipleKeyCodes
  cases os
  · simp only [Bool.false_eq_true, if_false]
    split <;> exact (key _ (Or.inr rfl)).rpt _
  · simp only [if_true]
    split <;> exact (key _ (Or.inl rfl)).rpt _

theorem armLayer_spec (s : Layout) (v : Nat) (c : Coord) (os : Bool) :
    ArmSpec c os s (armLayer s v c os) := by
  obtain ⟨u1, u2, u3, u4⟩ := updateCoord_spec s c
  have hadd : Adds c s ((updateCoord s c).pushState (.layerModifier v c)) :=
    (Adds.of_states (c := c) u4).trans (pushState_adds _ _ c rfl trivial)
  unfold armLayer
  exact oshOther_armSpec (c := c) (s := s) (x := (updateCoord s c).pushState (.layerModifier v c)) os
    ⟨u1.waiting, u1.extra, u1.tde, u1.aq, u1.seqs, u1.cfg, u1.dl, u1.tv2, u1.dfl⟩ u3 hadd u2

/-- `NoOp` (an unmapped position): counts as another key, except at the coordinate (0,0) -/
theorem armNoOp_spec (s : Layout) (a : Action) (c : Coord) :
    Frame s (armNoOp s a c false) ∧ (armNoOp s a c false).queue = s.queue ∧
    (armNoOp s a c false).states = s.states ∧
    (armNoOp s a c false).oneshot = if c != (0, 0) then (s.oneshot.handlePress (.other c)).1 else s.oneshot := by
  unfold armNoOp Layout.oshPress
  by_cases hc : c = (0, 0)
  · subst hc; exact ⟨⟨rfl, rfl, rfl, rfl, rfl, rfl, rfl, rfl, rfl⟩, rfl, rfl, rfl⟩
  · have : (c != (0, 0)) = true := by simpa using hc
    simp only [Bool.not_false, Bool.true_and, this, if_true]
    exact ⟨⟨rfl, rfl, rfl, rfl, rfl, rfl, rfl, rfl, rfl⟩, by first | rfl | trivial, by first | rfl | trivial,
      by first | rfl | trivial⟩

/-- the arm a simple action runs -/
def simpleArm (s : Layout) (a : Action) (c : Coord) (os : Bool) : Layout :=
  match a with
  | .keyCode kc => armKeyCode s a kc c os
  | .multipleKeyCodes kcs => armMultipleKeyCodes s a kcs c os
  | .layer v => armLayer s v c os
  | _ => s

theorem simpleArm_spec (s : Layout) (a : Action) (hs : Simple a) (c : Coord) (os : Bool) :
    ArmSpec c os s (simpleArm s a c os) := by
  cases a <;> simp only [Simple] at hs
  · exact armKeyCode_spec s _ _ c os
  · exact armMultipleKeyCodes_spec s _ _ c os
  · exact armLayer_spec s _ c os

theorem doAction_simple (fuel : Nat) (s : Layout) (a : Action) (hs : Simple a) (c : Coord) (d : Nat)
    (os : Bool) (ls : List Nat) :
    doAction (fuel + 2) s a c d os ls = .ok (simpleArm (prelude s c) a c os, .noEvent) := by
  cases a <;> simp only [Simple] at hs <;> simp only [doAction, dispatch, simpleArm]

/-! ### the one-shot arm -/

/-- the `OneShotState` side of the `OneShot` arm: `handle_press(OneShotKey)`, then the timeout and
the end variant of *this* key are installed and its coordinate joins the active keys (the oldest
leaves when 16 are active already) -/
def activate (o : OneShotState) (c : Coord) (T : Nat) (v : OneShotEnd) : OneShotState :=
  let o1 := (o.handlePress (.oneShotKey c)).1
  { o1 with timeout := T, endConfig := v, keys := (pushBackWrap ONE_SHOT_MAX_ACTIVE o1.keys c).1 }

def activateOverflow (o : OneShotState) (c : Coord) : Option Coord :=
  (pushBackWrap ONE_SHOT_MAX_ACTIVE (o.handlePress (.oneShotKey c)).1.keys c).2

theorem armOneShotPost_spec (s : Layout) (a : Action) (c : Coord) (T : Nat) (v : OneShotEnd) :
    Frame s (armOneShotPost s a c T v).1 ∧ (armOneShotPost s a c T v).1.queue = s.queue ∧
    (armOneShotPost s a c T v).1.states = s.states ∧
    (armOneShotPost s a c T v).1.oneshot = activate s.oneshot c T v ∧
    (armOneShotPost s a c T v).2 = activateOverflow s.oneshot c := by
  unfold armOneShotPost Layout.oshPress activate activateOverflow
  exact ⟨⟨rfl, rfl, rfl, rfl, rfl, rfl, rfl, rfl, rfl⟩, rfl, rfl, rfl, rfl⟩

/-- an event arriving while fewer than 32 are pending is only appended to the queue -/
theorem event_room (fuel : Nat) (s : Layout) (e : Ev) (hq : s.queue.length < QUEUE_SIZE) :
    ∃ s', event (fuel + 1) s e = .ok s' ∧ s'.queue = s.queue ++ [⟨e, 0⟩] ∧ s'.states = s.states ∧
      s'.oneshot = s.oneshot ∧ Frame s s' := by
  cases e <;> simp only [event, pushBackWrap, hq, if_true] <;>
    exact ⟨_, rfl, rfl, rfl, rfl, ⟨rfl, rfl, rfl, rfl, rfl, rfl, rfl, rfl, rfl⟩⟩

/-- the state after the inner action of a one-shot key at `c` and the one-shot bookkeeping -/
def oneShotArm (s : Layout) (inner : Action) (T : Nat) (v : OneShotEnd) (c : Coord) : Layout × Option Coord :=
  armOneShotPost (simpleArm (prelude (updateCoord s c) c) inner c true) (.oneShot inner T v) c T v

theorem dispatch_oneShot (fuel : Nat) (s : Layout) (inner : Action) (hs : Simple inner) (T : Nat)
    (v : OneShotEnd) (c : Coord) (d : Nat) (ls : List Nat) :
    dispatch (fuel + 3) s (.oneShot inner T v) c d false ls =
      match oneShotArm s inner T v c with
      | (s2, some ov) =>
        match event (fuel + 2) s2 (.release ov) with
        | .error e => .error e
        | .ok s3 => .ok (s3, .noEvent)
      | (s2, none) => .ok (s2, .noEvent) := by
  simp only [dispatch, doAction_simple fuel _ inner hs, oneShotArm]
  rfl

theorem oneShotArm_spec (s : Layout) (inner : Action) (hs : Simple inner) (T : Nat) (v : OneShotEnd) (c : Coord) :
    Frame s (oneShotArm s inner T v c).1 ∧ (oneShotArm s inner T v c).1.queue = s.queue ∧
    Adds c s (oneShotArm s inner T v c).1 ∧
    (oneShotArm s inner T v c).1.oneshot = activate s.oneshot c T v ∧
    (oneShotArm s inner T v c).2 = activateOverflow s.oneshot c := by
  obtain ⟨u1, u2, u3, u4⟩ := updateCoord_spec s c
  obtain ⟨p1, p2, p3, p4⟩ := prelude_spec (updateCoord s c) c
  have a := simpleArm_spec (prelude (updateCoord s c) c) inner hs c true
  obtain ⟨o1, o2, o3, o4, o5⟩ := armOneShotPost_spec (simpleArm (prelude (updateCoord s c) c) inner c true)
    (.oneShot inner T v) c T v
  have hosh : (simpleArm (prelude (updateCoord s c) c) inner c true).oneshot = s.oneshot := by
    rw [a.osh]; simp only [if_true, p2, u2]
  unfold oneShotArm
  refine ⟨((u1.trans p1).trans a.frame).trans o1, ?_, ?_, ?_, ?_⟩
  · rw [o2, a.queue, p3, u3]
  · have h0 : Adds c s (prelude (updateCoord s c) c) := (Adds.of_states (c := c) u4).trans (prelude_adds _ c)
    exact (h0.trans a.adds).trans (Adds.of_states o3)
  · rw [o4, hosh]
  · rw [o5, hosh]

/-! ### resolution stays inside the fragment -/

theorem srcKey_frag {c : LCfg} (hc : CfgFrag c) (y : Nat) : Frag (c.srcKey y) := by
  unfold LCfg.srcKey
  split
  · rename_i a hf
    exact hc.2 _ (List.mem_of_find?_eq_some hf)
  · trivial

theorem layerAction_frag {cfg : LCfg} (hc : CfgFrag cfg) (l : Nat) (co : Coord) (a : Action)
    (h : cfg.layerAction l co = .ok a) : Frag a := by
  unfold LCfg.layerAction at h
  split at h; · cases h
  rename_i tbl htbl
  split at h; · cases h
  split at h; · cases h
  have hmem : tbl ∈ cfg.layers := List.mem_of_getElem? htbl
  split at h
  · rename_i e a' hf
    injection h with h; subst h
    exact hc.1 tbl hmem _ (List.mem_of_find?_eq_some hf)
  · injection h with h; subst h; trivial

theorem resolve_frag (s : Layout) (coord : Coord) (hc : CfgFrag s.cfg) :
    ∀ (ls : List Nat) (a : Action) (rest : List Nat), s.resolveCoord coord ls = .ok (a, rest) → Frag a := by
  intro ls
  induction ls with
  | nil =>
    intro a rest h
    simp only [Layout.resolveCoord] at h
    split at h; · cases h
    split at h; · cases h
    split at h
    · split at h; · cases h
      injection h with h; injection h with h1 h2; subst h1
      exact srcKey_frag hc _
    · injection h with h; injection h with h1 h2; subst h1; trivial
  | cons l rest' ih =>
    intro a rest h
    simp only [Layout.resolveCoord] at h
    split at h; · cases h
    split at h; · cases h
    split at h
    · cases h
    · exact ih a rest h
    · rename_i x hnt hx
      injection h with h; injection h with h1 h2; subst h1
      exact layerAction_frag hc _ _ _ hx

/-! ### a dequeued press on the fragment -/

/-- the `OneShotState` operation a dequeued press performs, and the key that falls out of the table
of active one-shot keys (only the activation of a 17th key has one) -/
inductive OshOp (o : OneShotState) (c : Coord) : OneShotState → Option Coord → Prop
  | other : OshOp o c (o.handlePress (.other c)).1 none
  | activate (T : Nat) (v : OneShotEnd) : OshOp o c (activate o c T v) (activateOverflow o c)
  | skip : OshOp o c o none

/-- the release event `do_action` queues for the key that fell out -/
def ovq : Option Coord → List Queued
  | some k => [⟨.release k, 0⟩]
  | none => []

structure PressOut (c : Coord) (s s' : Layout) : Prop where
  frame : Frame s s'
  adds : Adds c s s'
  osh : ∃ ov, OshOp s.oneshot c s'.oneshot ov ∧ s'.queue = s.queue ++ ovq ov

theorem dispatch_frag (fuel : Nat) (s : Layout) (a : Action) (hf : Frag a) (c : Coord) (d : Nat)
    (ls : List Nat) (s' : Layout) (cu : CustomEv) (hq : s.queue.length < QUEUE_SIZE)
    (h : dispatch (fuel + 3) s a c d false ls = .ok (s', cu)) : cu = .noEvent ∧ PressOut c s s' := by
  cases a <;> simp only [Frag] at hf
  case noOp =>
    simp only [dispatch] at h
    injection h with h; injection h with h1 h2; subst h1; subst h2
    obtain ⟨n1, n2, n3, n4⟩ := armNoOp_spec s .noOp c
    refine ⟨rfl, n1, Adds.of_states n3, ?_⟩
    by_cases hc : (c != (0, 0)) = true
    · exact ⟨none, by rw [n4, if_pos hc]; exact .other, by rw [n2]; simp [ovq]⟩
    · exact ⟨none, by rw [n4, if_neg hc]; exact .skip, by rw [n2]; simp [ovq]⟩
  case trans => simp only [dispatch] at h; cases h
  case keyCode kc =>
    simp only [dispatch] at h
    injection h with h; injection h with h1 h2; subst h1; subst h2
    have a := armKeyCode_spec s (.keyCode kc) kc c false
    exact ⟨rfl, a.frame, a.adds, none, by rw [a.osh]; exact .other, by rw [a.queue]; simp [ovq]⟩
  case multipleKeyCodes kcs =>
    simp only [dispatch] at h
    injection h with h; injection h with h1 h2; subst h1; subst h2
    have a := armMultipleKeyCodes_spec s (.multipleKeyCodes kcs) kcs c false
    exact ⟨rfl, a.frame, a.adds, none, by rw [a.osh]; exact .other, by rw [a.queue]; simp [ovq]⟩
  case layer v =>
    simp only [dispatch] at h
    injection h with h; injection h with h1 h2; subst h1; subst h2
    have a := armLayer_spec s v c false
    exact ⟨rfl, a.frame, a.adds, none, by rw [a.osh]; exact .other, by rw [a.queue]; simp [ovq]⟩
  case oneShot inner T v =>
    rw [dispatch_oneShot fuel s inner hf] at h
    obtain ⟨o1, o2, o3, o4, o5⟩ := oneShotArm_spec s inner hf T v c
    generalize oneShotArm s inner T v c = r at h o1 o2 o3 o4 o5
    obtain ⟨s2, ov⟩ := r
    simp only at o1 o2 o3 o4 o5
    cases ov with
    | none =>
      simp only at h
      injection h with h; injection h with h1 h2; subst h1; subst h2
      exact ⟨rfl, o1, o3, none, by rw [o4, o5]; exact .activate T v, by rw [o2]; simp [ovq]⟩
    | some k =>
      simp only at h
      obtain ⟨s3, e1, e2, e3, e4, e5⟩ := event_room (fuel + 1) s2 (.release k) (by rw [o2]; exact hq)
      rw [e1] at h
      simp only at h
      injection h with h; injection h with h1 h2; subst h1; subst h2
      refine ⟨rfl, o1.trans e5, o3.trans (Adds.of_states e3), some k, ?_, ?_⟩
      · rw [e4, o4, o5]; exact .activate T v
      · rw [e2, o2]; rfl

theorem FUEL_5 : FUEL = 3995 + 5 := rfl

/-- **a press taken from the queue, on the fragment**: no custom event; the static parts, the
waiting / sequence / action-queue components and the queue are untouched (except for the release
event queued for a one-shot key that falls out of the 16-entry table); states are only added, at the
pressed coordinate (output-chord keys flagged clear-on-next-action go); and the `OneShotState`
changes by exactly one of: `handle_press(Other)`, the activation of a one-shot key, nothing -/
theorem dequeue_press_frag {s : Layout} (hc : CfgFrag s.cfg) (h : Calm s)
    (hq : s.queue.length < QUEUE_SIZE) (c : Coord) (since : Nat) (s' : Layout) (cu : CustomEv)
    (hd : dequeue FUEL s ⟨.press c, since⟩ = .ok (s', cu)) : cu = .noEvent ∧ PressOut c s s' := by
  rw [FUEL_5] at hd
  simp only [dequeue, h.tde, bind, Except.bind] at hd
  split at hd
  · cases hd
  · rename_i order ho
    simp only [doAction] at hd
    split at hd
    · cases hd
    · rename_i a ls hm
      have hfa : Frag a := resolve_frag s c hc _ _ _ hm
      obtain ⟨p1, p2, p3, p4⟩ := prelude_spec s c
      obtain ⟨r1, r2⟩ := dispatch_frag 3995 (prelude s c) a hfa c since ls s' cu (by rw [p3]; exact hq) hd
      refine ⟨r1, p1.trans r2.frame, (prelude_adds s c).trans r2.adds, ?_⟩
      obtain ⟨ov, q1, q2⟩ := r2.osh
      exact ⟨ov, by rw [p2] at q1; exact q1, by rw [q2, p3]⟩

/-- resolution looks at the configuration only -/
theorem resolveCoord_cfg (s s' : Layout) (h : s'.cfg = s.cfg) (c : Coord) :
    ∀ ls, s'.resolveCoord c ls = s.resolveCoord c ls := by
  intro ls
  induction ls with
  | nil => simp only [Layout.resolveCoord, h]
  | cons l r ih => simp only [Layout.resolveCoord, h, ih]

/-! ### a dequeued press whose resolution is known -/

/-- the key found for the press is a plain key, an output chord or layer-while-held -/
theorem dequeue_press_simple {s : Layout} (h : Calm s) (c : Coord) (n : Nat) (order : List Nat)
    (ho : s.transOrder = .ok order) (a : Action) (ls : List Nat)
    (hr : s.resolveCoord c order = .ok (a, ls)) (hs : Simple a) :
    dequeue FUEL s ⟨.press c, n⟩ = .ok (simpleArm (prelude s c) a c false, .noEvent) := by
  rw [FUEL_5]
  simp only [dequeue, h.tde, bind, Except.bind, ho, doAction, hr]
  cases a <;> simp only [Simple] at hs <;> simp only [dispatch, simpleArm]

/-- the key found for the press is a one-shot key -/
theorem dequeue_press_oneShot {s : Layout} (h : Calm s) (hq : s.queue.length < QUEUE_SIZE) (c : Coord) (n : Nat)
    (order : List Nat) (ho : s.transOrder = .ok order) (inner : Action) (T : Nat) (v : OneShotEnd) (ls : List Nat)
    (hr : s.resolveCoord c order = .ok (.oneShot inner T v, ls)) (hs : Simple inner) :
    ∃ s', dequeue FUEL s ⟨.press c, n⟩ = .ok (s', .noEvent) ∧ Frame s s' ∧ Adds c s s' ∧
      s'.oneshot = activate s.oneshot c T v ∧ s'.queue = s.queue ++ ovq (activateOverflow s.oneshot c) := by
  obtain ⟨p1, p2, p3, p4⟩ := prelude_spec s c
  rw [FUEL_5]
  simp only [dequeue, h.tde, bind, Except.bind, ho, doAction, hr]
  rw [dispatch_oneShot 3995 (prelude s c) inner hs]
  obtain ⟨o1, o2, o3, o4, o5⟩ := oneShotArm_spec (prelude s c) inner hs T v c
  rw [p2] at o4 o5
  generalize oneShotArm (prelude s c) inner T v c = r at o1 o2 o3 o4 o5
  obtain ⟨s2, ov⟩ := r
  simp only at o1 o2 o3 o4 o5
  subst o5
  cases hov : activateOverflow s.oneshot c with
  | none =>
    simp only
    exact ⟨s2, rfl, p1.trans o1, (prelude_adds s c).trans o3, o4, by rw [o2, p3]; simp [ovq]⟩
  | some k =>
    simp only
    obtain ⟨s3, e1, e2, e3, e4, e5⟩ := event_room 3996 s2 (.release k) (by rw [o2, p3]; exact hq)
    rw [e1]
    exact ⟨s3, rfl, (p1.trans o1).trans e5, ((prelude_adds s c).trans o3).trans (Adds.of_states e3),
      by rw [e4, o4], by rw [e2, o2, p3]; rfl⟩

end KVerif.C06
