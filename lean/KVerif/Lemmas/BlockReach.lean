/-
C07 helper lemmas: the extra hypotheses of `block_silent` (`MayBlock`: OS key state equal to the wanted
list, no sequence-driven state, no override erasing keys, empty `cur_keys`) HOLD in every state the
kanata-level machine reaches, for configurations without custom actions and overrides whose layout
keeps a layout-level invariant (`LayoutInv`).  The kanata-level part (`KRest`, `KInv`, `reach_inv`,
`mayBlock_of_inv`) is generic in that layout invariant; it is instantiated for the layered fragment of
C04 (any history, including overflow of the 32-entry input queue), the one-shot fragment of C06 and
the tap-hold fragment of C05/C01 (events arrive while fewer than 32 are pending).
-/
import KVerif.Props.C07
import KVerif.Lemmas.KanataDynQuiet
import KVerif.Lemmas.OneShotStep
import KVerif.Lemmas.QuiesceTapHold
namespace KVerif.C07
open KVerif.L KVerif.K

/-! ## the kanata-level machine: steps, histories, reachable states -/

/-- what a run of the processing loop consists of: an input event handled, one `tick_states`, one
evaluation of the blocking decision (which updates `ticks_since_idle`) -/
inductive Step
  | input (i : Input)
  | tick
  | decide (msElapsed : Nat)
  deriving Repr

/-- the side condition `g` on the layout (e.g. "fewer than 32 events pending") holds whenever
`Layout::event` is called while handling input `i` -/
def inputOK (g : Layout → Bool) (k : KState) : Input → Bool
  | .press _ => g k.layout
  | .release _ => g k.layout
  | .rep _ => true
  | .tap code => g k.layout && (match k.layout.event (.press (0, code)) with
    | .ok l1 => g l1
    | .error _ => true)

/-- states reachable from `k0` by `handle_input_event`, `tick_states` and
`can_block_update_idle_waiting`, in any order and number; an input is only delivered when the side
condition `g` holds (`fun _ => true`: no side condition) -/
inductive Reach (g : Layout → Bool) (k0 : KState) : KState → Prop
  | init : Reach g k0 k0
  | input {k k' : KState} (i : Input) : Reach g k0 k → inputOK g k i = true →
      handleInputEvent k i = .ok k' → Reach g k0 k'
  | tick {k k' : KState} : Reach g k0 k → tickStates k = .ok k' → Reach g k0 k'
  | decide {k : KState} (ms : Nat) : Reach g k0 k → Reach g k0 (canBlockUpdateIdleWaiting k ms).1

/-- one step of a history; `none`: a crash, or the side condition violated -/
def stepK (g : Layout → Bool) (k : KState) : Step → Option KState
  | .input i =>
    if inputOK g k i then
      match handleInputEvent k i with
      | .ok k' => some k'
      | .error _ => none
    else none
  | .tick =>
    match tickStates k with
    | .ok k' => some k'
    | .error _ => none
  | .decide ms => some (canBlockUpdateIdleWaiting k ms).1

/-- a history run from `k` -/
def runSteps (g : Layout → Bool) : KState → List Step → Option KState
  | k, [] => some k
  | k, s :: rest =>
    match stepK g k s with
    | some k' => runSteps g k' rest
    | none => none

theorem reach_step (g : Layout → Bool) (k0 k k' : KState) (s : Step) (hr : Reach g k0 k)
    (h : stepK g k s = some k') : Reach g k0 k' := by
  cases s with
  | input i =>
    simp only [stepK] at h
    split at h
    · rename_i hok
      split at h
      · rename_i k1 he; injection h with h; subst h; exact .input i hr hok he
      · cases h
    · cases h
  | tick =>
    simp only [stepK] at h
    split at h
    · rename_i k1 he; injection h with h; subst h; exact .tick hr he
    · cases h
  | decide ms =>
    simp only [stepK] at h
    injection h with h; subst h; exact .decide ms hr

theorem reach_of_run (g : Layout → Bool) (k0 : KState) : ∀ (steps : List Step) (k k' : KState),
    Reach g k0 k → runSteps g k steps = some k' → Reach g k0 k' := by
  intro steps
  induction steps with
  | nil => intro k k' hr h; unfold runSteps at h; injection h with h; subst h; exact hr
  | cons s rest ih =>
    intro k k' hr h
    unfold runSteps at h
    split at h
    · rename_i k1 he; exact ih k1 k' (reach_step g k0 k k1 s hr he) h
    · cases h

/-- a Boolean test on the outcome of a run (for concrete examples) -/
def endsWith (r : Option KState) (p : KState → Bool) : Bool :=
  match r with
  | some k => p k
  | none => false

theorem exists_of_endsWith {r : Option KState} {p : KState → Bool} (h : endsWith r p = true) :
    ∃ k, r = some k ∧ p k = true := by
  cases r with
  | none => cases h
  | some k => exact ⟨k, rfl, h⟩

/-! ## the kanata-level components at rest -/

/-- the kanata-level components no configuration without custom actions and overrides ever moves:
no custom action table, no overrides, nothing left over from an override pass, `cur_keys` empty
(between ticks), no unmod / unshift keys, no caps-word, no scrolling or mouse movement, no on-idle
action pending, no timed virtual key, no cancel-on-press window, sequence mode off and no
`sequence-always-on` (without a custom action nothing can turn it on) -/
structure KRest (k : KState) : Prop where
  customs : k.customs = []
  noOvr : k.overrides.isEmpty = true
  ovrClean : k.overrideStates.toRemove = []
  cur : k.curKeys = []
  unmod : k.unmoddedKeys = []
  unshift : k.unshiftedKeys = []
  caps : k.capsWord = none
  scroll : k.scroll = none
  hscroll : k.hscroll = none
  moveV : k.moveV = none
  moveH : k.moveH = none
  wfi : k.waitingForIdle = []
  vk : k.vkeysPendingRelease = []
  mcd : k.macroOnPressCancelDuration = 0
  seqOff : k.seq.off = true      -- [seq] sequence mode off, `sequence-always-on` not configured
  noRec : k.dyn.rcd = none       -- [dyn] no dynamic macro is being recorded

/-- `k'` is `k` except for the output written, `prev_keys` and `last_pressed_key` -/
def OutFrame (k k' : KState) : Prop :=
  ∃ o p lp, k' = { k with out := o, prevKeys := p, lastPressedKey := lp }

theorem OutFrame.refl (k : KState) : OutFrame k k := ⟨k.out, k.prevKeys, k.lastPressedKey, rfl⟩

theorem OutFrame.trans {a b c : KState} (h1 : OutFrame a b) (h2 : OutFrame b c) : OutFrame a c := by
  obtain ⟨o1, p1, l1, rfl⟩ := h1
  obtain ⟨o2, p2, l2, rfl⟩ := h2
  exact ⟨o2, p2, l2, rfl⟩

theorem emit_frame (k : KState) (e : Os) : OutFrame k (k.emit e) :=
  ⟨k.out ++ [e], k.prevKeys, k.lastPressedKey, rfl⟩

theorem releaseKey_frame (k : KState) (x : KeyCode) : OutFrame k (releaseKey k x) := by
  unfold releaseKey
  split
  · exact OutFrame.refl k
  · split
    · exact emit_frame k _
    · split
      · exact OutFrame.refl k
      · exact emit_frame k _

theorem pressKey_frame (k : KState) (x : KeyCode) : OutFrame k (pressKey k x) := by
  unfold pressKey
  split
  · exact OutFrame.refl k
  · split
    · exact emit_frame k _
    · split
      · exact emit_frame k _
      · exact emit_frame k _

theorem releaseOld_frame (k : KState) (cur : List KeyCode) (rev : Bool) : OutFrame k (releaseOld k cur rev) := by
  unfold releaseOld
  have : ∀ (olds : List KeyCode) (k0 : KState),
      OutFrame k0 (olds.foldl (fun k x => if cur.contains x then k else releaseKey k x) k0) := by
    intro olds
    induction olds with
    | nil => intro k0; exact OutFrame.refl k0
    | cons x xs ih =>
      intro k0
      simp only [List.foldl_cons]
      split
      · exact ih k0
      · exact (releaseKey_frame k0 x).trans (ih _)
  exact this _ k

theorem pressNew_frame (k : KState) (cur : List KeyCode) : OutFrame k (pressNew k cur) := by
  unfold pressNew
  induction cur generalizing k with
  | nil => exact OutFrame.refl k
  | cons x xs ih =>
    simp only [List.foldl_cons]
    split
    · exact ih k
    · have h1 : OutFrame k ({ k with prevKeys := k.prevKeys ++ [x], lastPressedKey := x } : KState) :=
        ⟨k.out, k.prevKeys ++ [x], x, rfl⟩
      exact (h1.trans (pressKey_frame _ x)).trans (ih _)

theorem adjustKeys_rest (k : KState) (h1 : k.unmoddedKeys = []) (h2 : k.unshiftedKeys = [])
    (keys : List KeyCode) : adjustKeys k keys = keys := by
  unfold adjustKeys
  simp [h1, h2]

theorem overrideKeys_empty (t : Override.Overrides) (h : t.isEmpty = true) (kcs : List Nat)
    (st : Override.OverrideStates) : t.overrideKeys kcs st = .ok (kcs, st) := by
  unfold Override.Overrides.overrideKeys
  simp only [h, if_true]

theorem customActs_none (k : KState) (h : k.customs = []) (id : Nat) : customActs k id = .error .customId := by
  unfold customActs
  simp [h]

/-- the key-list part of a tick with the kanata-level components at rest and no custom event:
the wanted list is the layout's key codes; only output, `prev_keys` and `last_pressed_key` change -/
theorem handleKeystateChanges_rest (k : KState) (hr : KRest k) (l' : Layout)
    (hl : tick k.layout = .ok (l', .noEvent)) :
    ∃ o p lp, handleKeystateChanges k =
      .ok { k with layout := l', out := o, prevKeys := p, lastPressedKey := lp, curKeys := l'.keycodes } := by
  have hadj : adjustKeys ({ k with layout := l' } : KState) (({ k with layout := l' } : KState).curKeys ++ l'.keycodes)
      = l'.keycodes := by
    rw [adjustKeys_rest ({ k with layout := l' } : KState) hr.unmod hr.unshift]
    show k.curKeys ++ l'.keycodes = l'.keycodes
    rw [hr.cur]; rfl
  have hov : k.overrides.overrideKeys l'.keycodes k.overrideStates = .ok (l'.keycodes, k.overrideStates) :=
    overrideKeys_empty _ hr.noOvr _ _
  have hcw : applyCapsWord ({ k with layout := l', overrideStates := k.overrideStates } : KState) l'.keycodes
      = (l'.keycodes, { k with layout := l', overrideStates := k.overrideStates }) := by
    unfold applyCapsWord; simp only [hr.caps]
  obtain ⟨o, p, lp, hk2⟩ := (releaseOld_frame ({ k with layout := l', overrideStates := k.overrideStates } : KState)
      l'.keycodes false).trans (pressNew_frame _ l'.keycodes)
  refine ⟨o, p, lp, ?_⟩
  have hoff : (releaseOld ({ k with layout := l', overrideStates := k.overrideStates } : KState) l'.keycodes false).seq.off = true := by
    rw [releaseOld_seq]; exact hr.seqOff
  have hh := seqReleasedHook_inactive _ l'.keycodes (off_inactive _ hoff)
  have hp := pressLoop_off l'.keycodes l'.keycodes _ hoff
  unfold handleKeystateChanges
  simp only [hl, applyUnmodEvent, hadj, hov, hr.ovrClean, eraseOverridden_nil, hcw, hh, hp, hk2, hkcCustom]

/-- **one whole `tick_states` with the kanata-level components at rest**: the layout's tick returned
no custom event (otherwise the empty custom-action table is a crash), the state afterwards holds the
ticked layout, its key codes as OS key state, and is at rest again; only output, `prev_keys`,
`last_pressed_key` and the layout changed. -/
theorem tickStates_rest (k k' : KState) (hr : KRest k) (ht : tickStates k = .ok k') :
    ∃ l', tick k.layout = .ok (l', .noEvent) ∧ k'.layout = l' ∧ k'.prevKeys = l'.keycodes ∧ KRest k' := by
  cases hl : tick k.layout with
  | error c =>
    unfold tickStates handleKeystateChanges at ht
    simp only [hl] at ht
    cases ht
  | ok r =>
    obtain ⟨l', ce⟩ := r
    have hce : ce = .noEvent := by
      cases ce with
      | noEvent => rfl
      | press id =>
        exfalso
        unfold tickStates handleKeystateChanges at ht
        simp only [hl, applyUnmodEvent] at ht
        rw [customActs_none ({ k with layout := l' } : KState) hr.customs id] at ht
        cases ht
      | release id =>
        exfalso
        unfold tickStates handleKeystateChanges at ht
        simp only [hl, applyUnmodEvent] at ht
        rw [customActs_none ({ k with layout := l' } : KState) hr.customs id] at ht
        cases ht
    subst hce
    refine ⟨l', rfl, ?_⟩
    obtain ⟨o, p, lp, hkc⟩ := handleKeystateChanges_rest k hr l' hl
    have e2 := handleScrolling_none ({ k with layout := l', out := o, prevKeys := p, lastPressedKey := lp, curKeys := l'.keycodes } : KState) hr.scroll hr.hscroll
    have e3 := handleMoveMouse_none ({ k with layout := l', out := o, prevKeys := p, lastPressedKey := lp, curKeys := l'.keycodes } : KState) hr.moveV hr.moveH
    have e3s := tickSequenceState_inactive ({ k with layout := l', out := o, prevKeys := p, lastPressedKey := lp, curKeys := l'.keycodes } : KState) (off_inactive _ hr.seqOff)
    have e4 := tickIdleTimeout_nil ({ k with layout := l', out := o, prevKeys := p, lastPressedKey := lp, curKeys := l'.keycodes } : KState) hr.wfi
    have e5 := tickHeldVkeys_nil ({ k with layout := l', out := o, lastPressedKey := lp, macroOnPressCancelDuration := k.macroOnPressCancelDuration - 1, prevKeys := l'.keycodes, curKeys := [] } : KState) hr.vk
    unfold tickStates at ht
    simp only [hkc] at ht
    rw [e2] at ht; simp only [] at ht
    rw [e3] at ht; simp only [] at ht
    rw [e3s] at ht; simp only [] at ht
    rw [e4] at ht; simp only [] at ht
    simp only [dynTickRecord, hr.noRec] at ht
    rw [e5] at ht
    injection ht with ht
    subst ht
    refine ⟨rfl, rfl, hr.customs, hr.noOvr, hr.ovrClean, rfl, hr.unmod, hr.unshift, hr.caps, hr.scroll,
      hr.hscroll, hr.moveV, hr.moveH, hr.wfi, hr.vk, ?_, hr.seqOff, hr.noRec⟩
    show k.macroOnPressCancelDuration - 1 = 0
    rw [hr.mcd]

/-! ## input events with the kanata-level components at rest -/

theorem writeRepeat_fields (k : KState) (kc : KeyCode) :
    ∃ o, writeRepeat k kc = { k with out := o } := by
  unfold writeRepeat
  split
  · exact ⟨k.out, rfl⟩
  · exact ⟨k.out ++ [.down kc], rfl⟩

/-- what `handle_input_event` does with the kanata-level components at rest: the layout's `event`
(twice for a tap, not at all for a repeat); `prev_keys` is untouched -/
theorem handleInput_rest (k k' : KState) (hr : KRest k) (i : Input) (h : handleInputEvent k i = .ok k') :
    KRest k' ∧ k'.prevKeys = k.prevKeys ∧
    (match i with
     | .press code => k.layout.event (.press (0, code)) = .ok k'.layout
     | .release code => k.layout.event (.release (0, code)) = .ok k'.layout
     | .tap code => ∃ l1, k.layout.event (.press (0, code)) = .ok l1 ∧ l1.event (.release (0, code)) = .ok k'.layout
     | .rep _ => k'.layout = k.layout) := by
  cases i with
  | press code =>
    unfold handleInputEvent at h
    simp only [dynRecord_none _ _ _ (show ({ k with ticksSinceIdle := 0 } : KState).dyn.rcd = none from hr.noRec)] at h
    simp only [hr.mcd, gt_iff_lt, Nat.lt_irrefl, if_false] at h
    split at h
    · cases h
    · rename_i l he
      injection h with h; subst h
      exact ⟨⟨hr.customs, hr.noOvr, hr.ovrClean, hr.cur, hr.unmod, hr.unshift, hr.caps, hr.scroll, hr.hscroll, hr.moveV, hr.moveH, hr.wfi, hr.vk, rfl, hr.seqOff, hr.noRec⟩, rfl, he⟩
  | release code =>
    unfold handleInputEvent at h
    simp only [dynRecord_none _ _ _ (show ({ k with ticksSinceIdle := 0 } : KState).dyn.rcd = none from hr.noRec)] at h
    split at h
    · cases h
    · rename_i l he
      injection h with h; subst h
      exact ⟨⟨hr.customs, hr.noOvr, hr.ovrClean, hr.cur, hr.unmod, hr.unshift, hr.caps, hr.scroll, hr.hscroll, hr.moveV, hr.moveH, hr.wfi, hr.vk, hr.mcd, hr.seqOff, hr.noRec⟩, rfl, he⟩
  | tap code =>
    unfold handleInputEvent at h
    simp only [] at h
    split at h
    · cases h
    · rename_i l1 he1
      split at h
      · cases h
      · rename_i l he
        injection h with h; subst h
        exact ⟨⟨hr.customs, hr.noOvr, hr.ovrClean, hr.cur, hr.unmod, hr.unshift, hr.caps, hr.scroll, hr.hscroll, hr.moveV, hr.moveH, hr.wfi, hr.vk, hr.mcd, hr.seqOff, hr.noRec⟩, rfl, l1, he1, he⟩
  | rep code =>
    unfold handleInputEvent handleRepeat at h
    have hina : k.seq.st.active = false := off_inactive _ hr.seqOff
    simp only [hina, Bool.false_and, Bool.false_eq_true, if_false] at h
    rw [overrideKeys_empty k.overrides hr.noOvr] at h
    simp only [] at h
    split at h
    · cases h
    · rename_i order ho
      injection h with h
      split at h
      · rename_i kc hk
        obtain ⟨o, ho⟩ := writeRepeat_fields ({ k with ticksSinceIdle := 0, overrideStates := k.overrideStates } : KState) kc
        rw [ho] at h
        subst h
        exact ⟨⟨hr.customs, hr.noOvr, hr.ovrClean, rfl, hr.unmod, hr.unshift, hr.caps, hr.scroll, hr.hscroll,
          hr.moveV, hr.moveH, hr.wfi, hr.vk, hr.mcd, hr.seqOff, hr.noRec⟩, rfl, rfl⟩
      · subst h
        exact ⟨⟨hr.customs, hr.noOvr, hr.ovrClean, rfl, hr.unmod, hr.unshift, hr.caps, hr.scroll, hr.hscroll,
          hr.moveV, hr.moveH, hr.wfi, hr.vk, hr.mcd, hr.seqOff, hr.noRec⟩, rfl, rfl⟩

/-- the blocking decision only updates `ticks_since_idle` -/
theorem canBlock_fields (k : KState) (ms : Nat) :
    ∃ t, (canBlockUpdateIdleWaiting k ms).1 = { k with ticksSinceIdle := t } := by
  unfold canBlockUpdateIdleWaiting
  simp only []
  split
  · exact ⟨0, rfl⟩
  · split
    · exact ⟨_, rfl⟩
    · exact ⟨k.ticksSinceIdle, rfl⟩

/-- when the decision is "block", kanata is idle, nothing waits for idleness, and the state is unchanged -/
theorem canBlock_true (k : KState) (ms : Nat) (h : (canBlockUpdateIdleWaiting k ms).2 = true) :
    isIdle k = true ∧ (canBlockUpdateIdleWaiting k ms).1 = k := by
  unfold canBlockUpdateIdleWaiting at h ⊢
  simp only [Bool.and_eq_true, Bool.not_eq_true'] at h
  obtain ⟨⟨⟨h1, h2⟩, _⟩, _⟩ := h
  refine ⟨h1, ?_⟩
  simp only [h1, h2, Bool.not_true, Bool.false_eq_true, if_false]

/-! ## the invariant along reachable states -/

/-- a layout-level invariant: kept by `Layout::event` (delivered while the side condition `g` holds;
the event is still queued afterwards), kept by `Layout::tick`, and excluding the states the sequence
machinery acts on by itself -/
structure LayoutInv (P : Layout → Prop) (g : Layout → Bool) : Prop where
  event : ∀ l e l', P l → g l = true → l.event e = .ok l' → P l' ∧ l'.queue ≠ []
  tick : ∀ l l' cu, P l → tick l = .ok (l', cu) → P l'
  plain : ∀ l, P l → PlainStates l

/-- the invariant of the kanata-level machine: components at rest, the layout invariant, and —
whenever no input event is pending — the OS key state IS the layout's key-code list -/
structure KInv (P : Layout → Prop) (k : KState) : Prop where
  rest : KRest k
  lay : P k.layout
  sync : k.layout.queue = [] → k.prevKeys = k.layout.keycodes

theorem reach_inv {P : Layout → Prop} {g : Layout → Bool} (hP : LayoutInv P g) {k0 k : KState}
    (h0 : KInv P k0) (hr : Reach g k0 k) : KInv P k := by
  induction hr with
  | init => exact h0
  | @input k k' i _ hok he ih =>
    obtain ⟨r1, r2, r3⟩ := handleInput_rest k k' ih.rest i he
    cases i with
    | press code =>
      obtain ⟨p1, p2⟩ := hP.event _ _ _ ih.lay hok r3
      exact ⟨r1, p1, fun hq => absurd hq p2⟩
    | release code =>
      obtain ⟨p1, p2⟩ := hP.event _ _ _ ih.lay hok r3
      exact ⟨r1, p1, fun hq => absurd hq p2⟩
    | tap code =>
      obtain ⟨l1, e1, e2⟩ := r3
      simp only [inputOK, Bool.and_eq_true, e1] at hok
      obtain ⟨q1, _⟩ := hP.event _ _ _ ih.lay hok.1 e1
      obtain ⟨p1, p2⟩ := hP.event _ _ _ q1 hok.2 e2
      exact ⟨r1, p1, fun hq => absurd hq p2⟩
    | rep code =>
      simp only [] at r3
      exact ⟨r1, r3 ▸ ih.lay, fun hq => by rw [r2, r3]; exact ih.sync (r3 ▸ hq)⟩
  | @tick k k' _ he ih =>
    obtain ⟨l', hl, e1, e2, e3⟩ := tickStates_rest k k' ih.rest he
    exact ⟨e3, e1 ▸ hP.tick _ _ _ ih.lay hl, fun _ => by rw [e2, e1]⟩
  | @decide k ms _ ih =>
    obtain ⟨t, ht⟩ := canBlock_fields k ms
    rw [ht]
    exact ⟨⟨ih.rest.customs, ih.rest.noOvr, ih.rest.ovrClean, ih.rest.cur, ih.rest.unmod, ih.rest.unshift,
      ih.rest.caps, ih.rest.scroll, ih.rest.hscroll, ih.rest.moveV, ih.rest.moveH, ih.rest.wfi, ih.rest.vk,
      ih.rest.mcd, ih.rest.seqOff, ih.rest.noRec⟩, ih.lay, ih.sync⟩

/-- **the hypotheses of `block_silent` hold whenever the invariant does and kanata is idle** -/
theorem mayBlock_of_inv {P : Layout → Prop} {g : Layout → Bool} (hP : LayoutInv P g) {k : KState}
    (h : KInv P k) (hidle : isIdle k = true) : MayBlock k k.layout.keycodes k.overrideStates := by
  have hq := (idle_covers_time_driven k hidle).1
  refine ⟨hidle, h.rest.wfi, hP.plain _ h.lay, h.rest.cur, ?_, h.rest.ovrClean, ?_, h.rest.noRec⟩
  · rw [adjustKeys_rest k h.rest.unmod h.rest.unshift]
    exact overrideKeys_empty _ h.rest.noOvr _ _
  · rw [Synced, h.sync hq]
    exact ⟨fun _ hx => hx, fun _ hx => hx⟩

/-! ## instance 1: the layered fragment of C04 — any history, no bound -/

theorem takeWaiting_inert {s : Layout} (h : C04.Inert s) (idx : Option Nat) : takeWaiting s idx = none := by
  cases idx with
  | none => simp [takeWaiting, h.waiting]
  | some i => simp [takeWaiting, h.extra]

/-- nothing waits on the fragment, so the flush of waiting states on queue overflow does nothing -/
theorem flushWaitings_inert {s : Layout} (h : C04.Inert s) : ∀ (idxs : List (Option Nat)) (fuel : Nat),
    idxs.length + 1 < fuel → flushWaitings fuel s idxs = .ok s := by
  intro idxs
  induction idxs with
  | nil =>
    intro fuel hf
    obtain ⟨f, rfl⟩ : ∃ f, fuel = f + 1 := ⟨fuel - 1, by simp only [List.length_nil] at hf; omega⟩
    simp only [flushWaitings]
  | cons i rest ih =>
    intro fuel hf
    simp only [List.length_cons] at hf
    obtain ⟨f, rfl⟩ : ∃ f, fuel = f + 1 + 1 := ⟨fuel - 2, by omega⟩
    simp only [flushWaitings, waitingIntoHold, takeWaiting_inert h, bind, Except.bind]
    exact ih (f + 1) (by omega)

theorem dequeue_press_inert (fuel : Nat) {s : Layout} (hc : C04.CfgFrag s.cfg) (h : C04.Inert s) (c : Coord)
    (since : Nat) (s' : Layout) (cu : CustomEv) (hd : dequeue (fuel + 1) s ⟨.press c, since⟩ = .ok (s', cu)) :
    C04.Inert s' ∧ C04.Same s s' := by
  simp only [dequeue, h.tde, bind, Except.bind] at hd
  split at hd
  · cases hd
  · rename_i order ho
    obtain ⟨r1, r2, _, _⟩ := (C04.refines_all fuel).1 s .trans c since order s' cu hc h trivial hd
    exact ⟨r1, r2⟩

theorem dequeue_release_inert (fuel : Nat) {s : Layout} (h : C04.Inert s) (c : Coord) (since : Nat) :
    ∃ s', dequeue (fuel + 1) s ⟨.release c, since⟩ = .ok (s', .noEvent) ∧ C04.Inert s' ∧ s'.cfg = s.cfg ∧
      s'.queue = s.queue := by
  have hr := C04.releaseStates_spec c s.states h.states
  refine ⟨{ s with states := s.states.filter (fun st => st.coord != some c) }, ?_, ?_, rfl, rfl⟩
  · simp only [dequeue, OneShotState.handleRelease, h.osh, List.isEmpty_nil, if_true, hr]
  · exact ⟨h.waiting, h.extra, h.tde, h.aq, h.seqs, h.osh, h.pause, C04.stok_filter _ h.states⟩

theorem dequeue_inert (fuel : Nat) {s : Layout} (q : Queued)
    (s' : Layout) (cu : CustomEv) (hd : dequeue (fuel + 1) s q = .ok (s', cu)) (hc : C04.CfgFrag s.cfg) (h : C04.Inert s) :
    C04.Inert s' ∧ s'.cfg = s.cfg ∧ s'.queue = s.queue := by
  obtain ⟨ev, since⟩ := q
  cases ev with
  | press c =>
    obtain ⟨r1, r2⟩ := dequeue_press_inert fuel hc h c since s' cu hd
    exact ⟨r1, r2.cfg, r2.queue⟩
  | release c =>
    obtain ⟨sx, e1, e2, e3, e4⟩ := dequeue_release_inert fuel h c since
    rw [e1] at hd
    injection hd with hd; injection hd with h1 h2; subst h1
    exact ⟨e2, e3, e4⟩

/-- one tick of the layout on the layered fragment keeps inertness — no bound on held layers -/
theorem tick_inert {s : Layout} (hc : C04.CfgFrag s.cfg) (h : C04.Inert s) (s' : Layout) (cu : CustomEv)
    (ht : tick s = .ok (s', cu)) : C04.Inert s' ∧ s'.cfg = s.cfg := by
  obtain ⟨p1, p2, _⟩ := C04.tickPre_spec h
  unfold tick at ht
  simp only [h.aq, C04.tickOneshot_spec p1] at ht
  have hmain : ∀ s2 c2, tickMain (tickPre s) = .ok (s2, c2) → C04.Inert s2 ∧ s2.cfg = s.cfg := by
    intro s2 c2 hm
    unfold tickMain at hm
    simp only [p1.waiting, p1.extra, List.isEmpty_nil, if_true, p1.pause, Nat.lt_irrefl, if_false] at hm
    cases hqq : (tickPre s).queue with
    | nil =>
      simp only [hqq] at hm
      injection hm with hm; injection hm with h1 h2; subst h1
      exact ⟨p1, p2.cfg⟩
    | cons q rest =>
      simp only [hqq] at hm
      have hi' : C04.Inert ((tickPre s).setQueue rest) := p1.of_eq rfl rfl rfl rfl rfl rfl rfl
      rw [FUEL_succ] at hm
      obtain ⟨r1, r2, _⟩ := dequeue_inert 3999 (s := (tickPre s).setQueue rest) q s2 c2 hm (p2.cfg ▸ hc) hi'
      exact ⟨r1, r2.trans p2.cfg⟩
  split at ht
  · cases ht
  · rename_i s2 c2 hm
    obtain ⟨m1, m2⟩ := hmain s2 c2 hm
    rw [C04.processExtraWaitings_inert m1.extra] at ht
    simp only [C04.processSequenceCustom_inert m1.states] at ht
    injection ht with ht; injection ht with h1 h2; subst h1
    exact ⟨m1, m2⟩

theorem flushWaitings_inert' {s s1 : Layout} {idxs : List (Option Nat)} {fuel : Nat}
    (hf : flushWaitings fuel s idxs = .ok s1) (h : C04.Inert s) (hl : idxs.length + 1 < fuel) : s1 = s := by
  rw [flushWaitings_inert h idxs fuel hl] at hf
  injection hf with hf
  exact hf.symm

theorem pushBackWrap_fst_ne_nil {α} (cap : Nat) (hcap : 0 < cap) (l : List α) (x : α) :
    (pushBackWrap cap l x).1 ≠ [] := by
  unfold pushBackWrap
  split
  · simp
  · cases l with
    | nil => rename_i hn; simp at hn; omega
    | cons a t => simp

/-- an input event on the layered fragment — also when the 32-entry queue is full (the oldest event
is then processed at once): inertness is kept and the new event is queued -/
theorem event_inert {s : Layout} (hc : C04.CfgFrag s.cfg) (h : C04.Inert s) (e : Ev) (s' : Layout)
    (he : s.event e = .ok s') : C04.Inert s' ∧ s'.cfg = s.cfg ∧ s'.queue ≠ [] := by
  unfold Layout.event at he
  rw [FUEL_succ] at he
  have h3999 : (3999 : Nat) = 3998 + 1 := rfl
  cases e <;>
  ( simp only [event, bind, Except.bind, pure, Except.pure] at he
    split at he
    · injection he with he; subst he
      exact ⟨h.of_eq rfl rfl rfl rfl rfl rfl rfl, rfl, pushBackWrap_fst_ne_nil _ (by decide) _ _⟩
    · rename_i ov hov
      split at he
      · cases he
      · rename_i s1 hf
        have hs1 := flushWaitings_inert' hf (h.of_eq rfl rfl rfl rfl rfl rfl rfl)
          (by simp only [List.length_cons, List.length_map, List.length_range]; decide)
        subst hs1
        split at he
        · cases he
        · rename_i r hd
          injection he with he; subst he
          rw [h3999] at hd
          obtain ⟨r1, r2, r3⟩ := dequeue_inert 3998 ov r.1 r.2 hd hc (h.of_eq rfl rfl rfl rfl rfl rfl rfl)
          exact ⟨r1, r2, by rw [r3]; exact pushBackWrap_fst_ne_nil QUEUE_SIZE (by decide) _ _⟩ )

theorem plain_of_stok {l : Layout} (h : ∀ st ∈ l.states, C04.StOK st) : PlainStates l := by
  intro st hst
  have := h st hst
  cases st <;> simp only [C04.StOK] at this <;> first | trivial | exact absurd this id

/-- the invariant of the layered fragment: configuration in the fragment, layout inert -/
def LayeredInv (l : Layout) : Prop := C04.CfgFrag l.cfg ∧ C04.Inert l

theorem layered_layoutInv : LayoutInv LayeredInv (fun _ => true) where
  event := fun l e l' hp _ he => by
    obtain ⟨r1, r2, r3⟩ := event_inert hp.1 hp.2 e l' he
    exact ⟨⟨r2 ▸ hp.1, r1⟩, r3⟩
  tick := fun l l' cu hp ht => by
    obtain ⟨r1, r2⟩ := tick_inert hp.1 hp.2 l' cu ht
    exact ⟨r2 ▸ hp.1, r1⟩
  plain := fun l hp => plain_of_stok hp.2.states

/-! ## instances 2 and 3: the one-shot fragment of C06 and the tap-hold fragment — events arrive
while fewer than 32 are pending (the existing step lemmas of these fragments assume it) -/

/-- the side condition: fewer than 32 events pending -/
def hasRoom (l : Layout) : Bool := decide (l.queue.length < QUEUE_SIZE)

/-- the invariant of the one-shot fragment (`C06.Inv`, for some set of keys physically down) -/
def OneShotInv (l : Layout) : Prop := ∃ down, C06.Inv l down

theorem oneshot_layoutInv : LayoutInv OneShotInv hasRoom where
  event := fun l e l' hp hg he => by
    obtain ⟨down, hi⟩ := hp
    have hq : l.queue.length < QUEUE_SIZE := by simpa [hasRoom] using hg
    obtain ⟨s1, e1, i1, q1, _⟩ := hi.input e hq
    rw [he] at e1
    injection e1 with e1; subst e1
    exact ⟨⟨_, i1⟩, by rw [q1]; simp⟩
  tick := fun l l' cu hp ht => by
    obtain ⟨down, hi⟩ := hp
    exact ⟨down, (hi.step l' cu ht).1⟩
  plain := fun l hp => by
    obtain ⟨down, hi⟩ := hp
    exact plain_of_stok hi.calm.states

/-- the invariant of the tap-hold fragment (`Quiesce.HInv`, for some set of keys physically down) -/
def TapHoldInv (T I d : Nat) (l : Layout) : Prop := ∃ down, Quiesce.HInv T I d l down

theorem taphold_layoutInv (T I d : Nat) : LayoutInv (TapHoldInv T I d) hasRoom where
  event := fun l e l' hp hg he => by
    obtain ⟨down, hi⟩ := hp
    have hq : l.queue.length < QUEUE_SIZE := by simpa [hasRoom] using hg
    obtain ⟨s1, e1, i1, q1, _⟩ := hi.input e hq
    rw [he] at e1
    injection e1 with e1; subst e1
    exact ⟨⟨_, i1⟩, by rw [q1]; simp⟩
  tick := fun l l' cu hp ht => by
    obtain ⟨down, hi⟩ := hp
    exact ⟨down, (hi.tick l' cu ht).1⟩
  plain := fun l hp => by
    obtain ⟨down, hi⟩ := hp
    exact plain_of_stok hi.states

/-! ## start states and the composed statements -/

/-- what the theorems ask of the start state: kanata-level components at rest and the OS key state
equal to the layout's key codes (both empty at start-up) -/
structure KStart (k0 : KState) : Prop where
  rest : KRest k0
  prev : k0.prevKeys = k0.layout.keycodes

/-- a freshly created layout -/
def freshLayout (cfg : LCfg) (tv2 dfl qth : Bool) (osd : Nat) : Layout :=
  { cfg := cfg, transV2 := tv2, delegateToFirstLayer := dfl, quickTapHoldTimeout := qth,
    oneshot := { pauseInputProcessingDelay := osd } }

/-- kanata at start-up for a configuration without custom actions and overrides -/
def freshK (cfg : LCfg) (tv2 dfl qth : Bool) (osd : Nat) (keyOutputs : List (List (Nat × List Nat)))
    (mods : ModCodes) : KState :=
  { layout := freshLayout cfg tv2 dfl qth osd, customs := [], keyOutputs := keyOutputs, mods := mods }

theorem freshK_start (cfg : LCfg) (tv2 dfl qth : Bool) (osd : Nat) (ko : List (List (Nat × List Nat)))
    (mods : ModCodes) : KStart (freshK cfg tv2 dfl qth osd ko mods) :=
  ⟨⟨rfl, rfl, rfl, rfl, rfl, rfl, rfl, rfl, rfl, rfl, rfl, rfl, rfl, rfl, rfl, rfl⟩, rfl⟩

/-- generic: along every reachable state the hypotheses of `block_silent` hold when kanata is idle -/
theorem mayBlock_reachable {P : Layout → Prop} {g : Layout → Bool} (hP : LayoutInv P g) {k0 k : KState}
    (hs : KStart k0) (hl : P k0.layout) (hr : Reach g k0 k) (hidle : isIdle k = true) :
    MayBlock k k.layout.keycodes k.overrideStates :=
  mayBlock_of_inv hP (reach_inv hP ⟨hs.rest, hl, fun _ => hs.prev⟩ hr) hidle

/-- generic: whenever the decision function says "block" in a reachable state, it left the state as
it was and any number of ticks from there is silent -/
theorem block_unobservable {P : Layout → Prop} {g : Layout → Bool} (hP : LayoutInv P g) {k0 k : KState}
    (hs : KStart k0) (hl : P k0.layout) (hr : Reach g k0 k) (ms : Nat)
    (hb : (canBlockUpdateIdleWaiting k ms).2 = true) :
    (canBlockUpdateIdleWaiting k ms).1 = k ∧
    ∀ n, ∃ k', ticksN n k = .ok k' ∧ k'.out = k.out ∧ k'.layout.states = k.layout.states ∧
      (n > 0 → k'.prevKeys = k.layout.keycodes) ∧ MayBlock k' k.layout.keycodes k.overrideStates := by
  obtain ⟨h1, h2⟩ := canBlock_true k ms hb
  exact ⟨h2, fun n => block_silent_forever n k _ _ (mayBlock_reachable hP hs hl hr h1)⟩

end KVerif.C07
