/-
Helper lemmas for C10: the loop of `evaluate_boolean`, run on a correctly laid-out opcode array,
computes the denotation of the source expression.  Proof in continuation style (DESIGN.md §6 C10).
-/
import KVerif.Model.Switch
namespace KVerif.Switch

def Leaf.width : Leaf → Nat
  | .input .. | .inputHist .. | .layer _ | .baseLayer _ => 2
  | _ => 1

mutual
  def BExpr.size : BExpr → Nat
    | .leaf l => l.width
    | .node _ cs => 1 + BExpr.sizeList cs
  def BExpr.sizeList : List BExpr → Nat
    | [] => 0
    | e :: es => e.size + BExpr.sizeList es
end

mutual
  /-- every operator has at least one operand -/
  def BExpr.NE : BExpr → Prop
    | .leaf _ => True
    | .node _ cs => cs ≠ [] ∧ BExpr.NEList cs
  def BExpr.NEList : List BExpr → Prop
    | [] => True
    | e :: es => e.NE ∧ BExpr.NEList es
end

theorem Leaf.width_pos (l : Leaf) : 1 ≤ l.width := by cases l <;> simp [Leaf.width]

theorem BExpr.size_pos (e : BExpr) : 1 ≤ e.size := by
  cases e with
  | leaf l => simpa [BExpr.size] using l.width_pos
  | node o cs => simp [BExpr.size]

theorem BExpr.sizeList_eq_zero {es : List BExpr} : BExpr.sizeList es = 0 ↔ es = [] := by
  cases es with
  | nil => simp [BExpr.sizeList]
  | cons e es => have := e.size_pos; simp [BExpr.sizeList]; omega

def gval (env : Env) : BOp → List BExpr → Bool
  | .or, cs => BExpr.anyDen env cs
  | .and, cs => BExpr.allDen env cs
  | .not, cs => !BExpr.anyDen env cs

theorem den_node (env : Env) (o : BOp) (cs : List BExpr) :
    (BExpr.node o cs).den env = gval env o cs := by
  cases o <;> simp [BExpr.den, gval]

/-- One operand of a group: either it decides the group, or the rest does. -/
theorem gval_cons (env : Env) (o : BOp) (e : BExpr) (r : List BExpr) :
    gval env o (e :: r) =
      (if scLeaf (negIf o (e.den env)) o || r.isEmpty then negIf o (e.den env) else gval env o r) := by
  cases o <;> cases h : e.den env <;> cases r <;>
    simp [gval, BExpr.anyDen, BExpr.allDen, scLeaf, negIf, h]

theorem scPop_eq (v : Bool) (o : BOp) : scPop v o = scLeaf (negIf o v) o := by
  cases o <;> cases v <;> simp [scPop, scLeaf, negIf]

theorem popRet_true (o : BOp) (v : Bool) : popRet true o v = negIf o v := by
  cases o <;> simp [popRet, negIf]

/-! ### Layout of compiled code, stated over the fetch function -/

section
variable (fetch : Nat → Except Crash DOp) (env : Env)

mutual
  def LayE (i : Nat) : BExpr → Prop
    | .leaf l => fetch i = .ok (.leaf l.width (l.den env))
    | .node o cs => fetch i = .ok (.grp o (i + 1 + BExpr.sizeList cs)) ∧ LayL (i + 1) cs
  def LayL (i : Nat) : List BExpr → Prop
    | [] => True
    | e :: es => LayE i e ∧ LayL (i + e.size) es
end

/-- A continuation frame: the operator of an enclosing group and its operands still to come. -/
abbrev Frame := BOp × List BExpr

def stackOf (E : Nat) : List Frame → List (BOp × Nat)
  | [] => []
  | (o, r) :: κ => (o, E + BExpr.sizeList r) :: stackOf (E + BExpr.sizeList r) κ

def endOf (E : Nat) : List Frame → Nat
  | [] => E
  | (_, r) :: κ => endOf (E + BExpr.sizeList r) κ

def LayK (E : Nat) : List Frame → Prop
  | [] => True
  | (_, r) :: κ => LayL fetch env E r ∧ LayK (E + BExpr.sizeList r) κ

def NEK : List Frame → Prop
  | [] => True
  | (_, r) :: κ => BExpr.NEList r ∧ NEK κ

/-- depth budget: with `κ` frames open, what is still to come fits into the 8-slot stack -/
def DepK : List Frame → Prop
  | [] => True
  | (_, r) :: κ => κ.length + BExpr.depthList r ≤ MAX_BOOL_EXPR_DEPTH ∧ DepK κ

/-- semantic continuation -/
def K : List Frame → Bool → Bool
  | [], v => v
  | (o, r) :: κ, v =>
    if scLeaf (negIf o v) o || r.isEmpty then K κ (negIf o v) else K κ (gval env o r)

theorem stackOf_length (E : Nat) (κ : List Frame) : (stackOf E κ).length = κ.length := by
  induction κ generalizing E with
  | nil => rfl
  | cons f κ ih => obtain ⟨o, r⟩ := f; simp [stackOf, ih]

theorem endOf_ge (E : Nat) (κ : List Frame) : E ≤ endOf E κ := by
  induction κ generalizing E with
  | nil => simp [endOf]
  | cons f κ ih => obtain ⟨o, r⟩ := f; have := ih (E + BExpr.sizeList r); simp [endOf]; omega

/-- When the current group ends at the end of the array, every ancestor has no operands left and
the trailing fold of the stack is the semantic continuation. -/
theorem finish_eq_K (E : Nat) (κ : List Frame) (v : Bool) (h : endOf E κ = E) :
    finish (stackOf E κ) v = K env κ v := by
  induction κ generalizing E v with
  | nil => rfl
  | cons f κ ih =>
    obtain ⟨o, r⟩ := f
    have h1 := endOf_ge (E + BExpr.sizeList r) κ
    simp only [endOf] at h
    have hz : BExpr.sizeList r = 0 := by omega
    have hr : r = [] := BExpr.sizeList_eq_zero.mp hz
    subst hr
    simp only [stackOf, BExpr.sizeList, Nat.add_zero, finish, List.foldl_cons, K, List.isEmpty_nil,
      Bool.or_true, if_true]
    have := ih E (negIf o v) (by simpa [BExpr.sizeList] using h)
    simpa [finish] using this

/-- Configurations of the loop in terms of the source expression. -/
inductive Cfg
  | fin (E : Nat) (o : BOp) (κ : List Frame) (v : Bool)        -- current group complete, value v
  | go (i : Nat) (rest : List BExpr) (o : BOp) (κ : List Frame) (ret : Bool) -- about to evaluate `rest`

def Cfg.toSt : Cfg → St
  | .fin E o κ v => { idx := E, endIdx := E, op := o, stack := stackOf E κ, ret := v }
  | .go i rest o κ ret =>
    { idx := i, endIdx := i + BExpr.sizeList rest, op := o,
      stack := stackOf (i + BExpr.sizeList rest) κ, ret := ret }

def Cfg.val : Cfg → Bool
  | .fin _ _ κ v => K env κ v
  | .go _ rest o κ _ => K env κ (gval env o rest)

def Cfg.final : Cfg → Nat
  | .fin E _ κ _ => endOf E κ
  | .go i rest _ κ _ => endOf (i + BExpr.sizeList rest) κ

def Cfg.WF : Cfg → Prop
  | .fin E _ κ _ => LayK fetch env E κ ∧ NEK κ ∧ DepK κ
  | .go i rest _ κ _ =>
    rest ≠ [] ∧ LayL fetch env i rest ∧ BExpr.NEList rest ∧
      κ.length + BExpr.depthList rest ≤ MAX_BOOL_EXPR_DEPTH ∧
      LayK fetch env (i + BExpr.sizeList rest) κ ∧ NEK κ ∧ DepK κ

def Cfg.meas (len : Nat) : Cfg → Nat
  | .fin E _ κ _ => 2 * (len - E) + κ.length
  | .go i _ _ κ _ => 2 * (len - i) + κ.length

/-- What `body` does on a `go` configuration. -/
theorem body_go (i : Nat) (e : BExpr) (r : List BExpr) (o : BOp) (κ : List Frame) (ret : Bool)
    (hwf : (Cfg.go i (e :: r) o κ ret).WF fetch env) :
    ∃ c' : Cfg, body fetch (Cfg.go i (e :: r) o κ ret).toSt = .ok c'.toSt ∧ c'.WF fetch env ∧
      c'.val env = (Cfg.go i (e :: r) o κ ret).val env ∧
      c'.final = (Cfg.go i (e :: r) o κ ret).final ∧
      (∀ len, i < len → c'.meas len < 2 * (len - i) + κ.length) ∧
      (∀ len, c'.final ≤ len → (Cfg.go i (e :: r) o κ ret).final ≤ len) := by
  obtain ⟨_, hlay, hne, hdep, hlk, hnk, hdk⟩ := hwf
  simp only [LayL] at hlay
  obtain ⟨hle, hlr⟩ := hlay
  simp only [BExpr.NEList] at hne
  obtain ⟨hne_e, hne_r⟩ := hne
  cases e with
  | leaf l =>
    simp only [LayE] at hle
    have hw := l.width_pos
    by_cases hsc : scLeaf (negIf o (l.den env)) o = true
    · -- short circuit: group complete
      refine ⟨.fin (i + BExpr.sizeList (.leaf l :: r)) o κ (negIf o (l.den env)), ?_, ?_, ?_, ?_, ?_, ?_⟩
      · simp [body, Cfg.toSt, hle, hsc]
      · exact ⟨hlk, hnk, hdk⟩
      · simp [Cfg.val, gval_cons, BExpr.den, hsc]
      · simp [Cfg.final]
      · intro len hlt; simp [Cfg.meas, BExpr.sizeList, BExpr.size]; omega
      · intro len h; exact h
    · cases r with
      | nil =>
        refine ⟨.fin (i + BExpr.sizeList [.leaf l]) o κ (negIf o (l.den env)), ?_, ?_, ?_, ?_, ?_, ?_⟩
        · simp [body, Cfg.toSt, hle, hsc, BExpr.sizeList, BExpr.size]
        · exact ⟨hlk, hnk, hdk⟩
        · simp [Cfg.val, gval_cons, BExpr.den]
        · simp [Cfg.final]
        · intro len hlt; simp [Cfg.meas, BExpr.sizeList, BExpr.size]; omega
        · intro len h; exact h
      | cons e2 r2 =>
        refine ⟨.go (i + l.width) (e2 :: r2) o κ (negIf o (l.den env)), ?_, ?_, ?_, ?_, ?_, ?_⟩
        · simp [body, Cfg.toSt, hle, hsc, BExpr.sizeList, BExpr.size, Nat.add_assoc]
        · refine ⟨by simp, ?_, hne_r, ?_, ?_, hnk, hdk⟩
          · simpa [BExpr.size] using hlr
          · simp only [BExpr.depthList] at hdep ⊢; omega
          · simpa [BExpr.sizeList, BExpr.size, Nat.add_assoc] using hlk
        · simp [Cfg.val, gval_cons env o (.leaf l), BExpr.den, hsc]
        · simp [Cfg.final, BExpr.sizeList, BExpr.size, Nat.add_assoc]
        · intro len hlt; simp [Cfg.meas]; omega
        · intro len h; simpa [Cfg.final, BExpr.sizeList, BExpr.size, Nat.add_assoc] using h
  | node o2 cs =>
    simp only [LayE] at hle
    obtain ⟨hf, hlc⟩ := hle
    simp only [BExpr.NE] at hne_e
    obtain ⟨hcs, hne_cs⟩ := hne_e
    have hdepth : BExpr.depthList (.node o2 cs :: r) ≥ 1 + BExpr.depthList cs := by
      simp only [BExpr.depthList, BExpr.depth]; omega
    have hdr : BExpr.depthList r ≤ BExpr.depthList (.node o2 cs :: r) := by
      simp only [BExpr.depthList]; omega
    refine ⟨.go (i + 1) cs o2 ((o, r) :: κ) ret, ?_, ?_, ?_, ?_, ?_, ?_⟩
    · have hlen : ¬ (stackOf (i + BExpr.sizeList (.node o2 cs :: r)) κ).length ≥ MAX_BOOL_EXPR_DEPTH := by
        rw [stackOf_length]; simp only [MAX_BOOL_EXPR_DEPTH] at hdep ⊢; omega
      simp only [body, Cfg.toSt, hf, hlen, if_false]
      simp [stackOf, BExpr.sizeList, BExpr.size, Nat.add_assoc, Nat.add_comm, Nat.add_left_comm]
    · refine ⟨hcs, hlc, hne_cs, ?_, ?_, ⟨hne_r, hnk⟩, ⟨?_, hdk⟩⟩
      · simp only [List.length_cons]; omega
      · refine ⟨by simpa [BExpr.size, Nat.add_assoc] using hlr, ?_⟩
        simpa [BExpr.sizeList, BExpr.size, Nat.add_assoc] using hlk
      · omega
    · simp only [Cfg.val, K]
      rw [gval_cons env o (.node o2 cs) r, den_node]
      split <;> rfl
    · simp [Cfg.final, endOf, BExpr.sizeList, BExpr.size, Nat.add_assoc]
    · intro len hlt; simp [Cfg.meas]; omega
    · intro len h; simpa [Cfg.final, endOf, BExpr.sizeList, BExpr.size, Nat.add_assoc] using h


theorem run_body {len fuel : Nat} {s s' : St} (h1 : s.idx < len) (h2 : ¬ s.idx ≥ s.endIdx)
    (hb : body fetch s = .ok s') : run true fetch len (fuel + 1) s = run true fetch len fuel s' := by
  simp only [run, h1, if_true, h2, if_false, hb]

theorem run_pop_sc {len fuel : Nat} {s : St} {o : BOp} {e : Nat} {stk : List (BOp × Nat)}
    (h1 : s.idx < len) (h2 : s.idx ≥ s.endIdx) (hs : s.stack = (o, e) :: stk)
    (hc : (scPop s.ret o || decide (s.idx ≥ e)) = true) :
    run true fetch len (fuel + 1) s =
      run true fetch len fuel { idx := e, endIdx := e, op := o, stack := stk, ret := negIf o s.ret } := by
  simp only [run, h1, if_true, h2, hs, hc, popRet_true]

theorem run_pop_body {len fuel : Nat} {s s' : St} {o : BOp} {e : Nat} {stk : List (BOp × Nat)}
    (h1 : s.idx < len) (h2 : s.idx ≥ s.endIdx) (hs : s.stack = (o, e) :: stk)
    (hc : (scPop s.ret o || decide (s.idx ≥ e)) = false)
    (hb : body fetch { s with op := o, endIdx := e, stack := stk } = .ok s') :
    run true fetch len (fuel + 1) s = run true fetch len fuel s' := by
  simp only [run, h1, if_true, h2, hs, hc, hb]
  rfl

theorem run_done {len fuel : Nat} {s : St} (h1 : ¬ s.idx < len) :
    run true fetch len (fuel + 1) s = .ok (finish s.stack s.ret) := by
  simp only [run, h1, if_false]

theorem go_final_gt (i : Nat) (e : BExpr) (r : List BExpr) (o : BOp) (κ : List Frame) (ret : Bool) :
    i < (Cfg.go i (e :: r) o κ ret).final := by
  have h1 := endOf_ge (i + BExpr.sizeList (e :: r)) κ
  have h2 := e.size_pos
  simp only [Cfg.final, BExpr.sizeList] at *
  omega

/-- The loop, started in a configuration that describes a correctly laid-out array, returns the
semantic value of that configuration. -/
theorem run_cfg (len : Nat) : ∀ (fuel : Nat) (c : Cfg), c.WF fetch env → c.final = len →
    c.meas len + 1 ≤ fuel → run true fetch len fuel c.toSt = .ok (c.val env) := by
  intro fuel
  induction fuel with
  | zero => intro c _ _ h; omega
  | succ fuel ih =>
    intro c hwf hfin hfuel
    cases c with
    | go i rest o κ ret =>
      cases rest with
      | nil => exact absurd rfl hwf.1
      | cons e r =>
        have hlt : i < len := hfin ▸ go_final_gt i e r o κ ret
        obtain ⟨c', hb, hwf', hval', hfin', hmeas', _⟩ := body_go fetch env i e r o κ ret hwf
        have hpos := e.size_pos
        have hnot : ¬ ((Cfg.go i (e :: r) o κ ret).toSt.idx ≥ (Cfg.go i (e :: r) o κ ret).toSt.endIdx) := by
          simp only [Cfg.toSt, BExpr.sizeList]; omega
        rw [run_body fetch (by simpa [Cfg.toSt] using hlt) hnot hb]
        rw [ih c' hwf' (hfin'.trans hfin) (by have := hmeas' len hlt; simp only [Cfg.meas] at hfuel; omega)]
        rw [hval']
    | fin E o κ v =>
      by_cases hlt : E < len
      · cases κ with
        | nil => simp only [Cfg.final, endOf] at hfin; omega
        | cons f κ' =>
          obtain ⟨o2, r⟩ := f
          obtain ⟨⟨hlr, hlk⟩, ⟨hner, hnk⟩, ⟨hdr, hdk⟩⟩ := hwf
          by_cases hc : (scPop v o2 || decide (E ≥ E + BExpr.sizeList r)) = true
          · -- the parent group is decided by this value
            rw [run_pop_sc fetch (s := (Cfg.fin E o ((o2, r) :: κ') v).toSt) (o := o2)
              (e := E + BExpr.sizeList r) (stk := stackOf (E + BExpr.sizeList r) κ')
              (by simpa [Cfg.toSt] using hlt) (by simp [Cfg.toSt]) (by simp [Cfg.toSt, stackOf])
              (by simpa [Cfg.toSt] using hc)]
            have hwf' : (Cfg.fin (E + BExpr.sizeList r) o2 κ' (negIf o2 v)).WF fetch env :=
              ⟨hlk, hnk, hdk⟩
            have := ih (Cfg.fin (E + BExpr.sizeList r) o2 κ' (negIf o2 v)) hwf'
              (by simpa [Cfg.final, endOf] using hfin)
              (by simp only [Cfg.meas, List.length_cons] at hfuel ⊢; omega)
            simp only [Cfg.toSt] at this ⊢
            rw [this]
            simp only [Cfg.val, K]
            have hiff : (scLeaf (negIf o2 v) o2 || r.isEmpty) = true := by
              rw [← scPop_eq]
              rcases (Bool.or_eq_true _ _).mp hc with h | h
              · simp [h]
              · have : BExpr.sizeList r = 0 := by have := of_decide_eq_true h; omega
                simp [BExpr.sizeList_eq_zero.mp this]
            rw [hiff]; rfl
          · -- continue with the parent's next operand
            have hc' : (scPop v o2 || decide (E ≥ E + BExpr.sizeList r)) = false := by
              simpa using hc
            have hr : r ≠ [] := by
              intro h; subst h; simp [BExpr.sizeList] at hc'
            cases r with
            | nil => exact absurd rfl hr
            | cons e r' =>
              have hwfgo : (Cfg.go E (e :: r') o2 κ' v).WF fetch env :=
                ⟨by simp, hlr, hner, hdr, hlk, hnk, hdk⟩
              obtain ⟨c', hb, hwf', hval', hfin', hmeas', _⟩ :=
                body_go fetch env E e r' o2 κ' v hwfgo
              rw [run_pop_body fetch (s := (Cfg.fin E o ((o2, e :: r') :: κ') v).toSt) (o := o2)
                (e := E + BExpr.sizeList (e :: r')) (stk := stackOf (E + BExpr.sizeList (e :: r')) κ')
                (s' := c'.toSt)
                (by simpa [Cfg.toSt] using hlt) (by simp [Cfg.toSt]) (by simp [Cfg.toSt, stackOf])
                (by simpa [Cfg.toSt] using hc') (by simpa [Cfg.toSt] using hb)]
              rw [ih c' hwf' (by rw [hfin']; simpa [Cfg.final, endOf] using hfin)
                (by have := hmeas' len hlt; simp only [Cfg.meas, List.length_cons] at hfuel; omega)]
              rw [hval']
              simp only [Cfg.val, K]
              have : (scLeaf (negIf o2 v) o2 || (e :: r').isEmpty) = false := by
                rw [← scPop_eq]
                have := Bool.or_eq_false_iff.mp hc'
                simp [this.1]
              rw [this]; rfl
      · have hE : endOf E κ = E := by
          have := endOf_ge E κ; simp only [Cfg.final] at hfin; omega
        rw [run_done fetch (by simpa [Cfg.toSt] using hlt)]
        simp only [Cfg.toSt, Cfg.val]
        rw [finish_eq_K env E κ v hE]

end
end KVerif.Switch
