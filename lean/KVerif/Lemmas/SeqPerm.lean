/-
Helper lemmas for C12, permutation part: Heap's algorithm as modelled (`heaps`, `genPermutations`)
yields exactly the permutations of its input for the sizes the parser admits (2..=6).

Method: (1) naturality — `heaps` commutes with `List.map`, so running it on any list is running it
on the index list `[0, …, n-1]` and reading the elements off; proved for every size by induction.
(2) `perms` (insertion everywhere) enumerates exactly the lists `List.Perm`-equivalent to its input;
proved for every list by induction.  (3) on the index lists of length 2..6 the two enumerations have
the same members: checked by complete evaluation in the kernel (`decide +kernel`; at most 720
permutations), using a bitmap of base-8 codes so that the check is linear.
A proof of Heap's algorithm for every size is NOT given (the array it leaves behind for even sizes
has no simple closed form in this variant); sizes outside 2..=6 never reach `gen_permutations`.
-/
import KVerif.Model.SeqSpec
namespace KVerif.Seq

/-! ### naturality of `swap`, `heaps` -/

theorem swap_map {α β : Type} (f : α → β) (a : List α) (i j : Nat) :
    swap (a.map f) i j = (swap a i j).map f := by
  unfold swap
  simp only [List.getElem?_map]
  cases a[i]? <;> cases a[j]? <;> simp [List.map_set]

theorem heaps_map {α β : Type} (f : α → β) :
    ∀ (k : Nat) (a : List α),
      heaps k (a.map f) = ((heaps k a).1.map (List.map f), (heaps k a).2.map f)
  | 0, a => by simp [heaps]
  | 1, a => by simp [heaps]
  | k + 2, a => by
    have ih := heaps_map f (k + 1)
    simp only [heaps]
    -- generalise the accumulator of the fold
    have key : ∀ (l : List Nat) (acc : List (List α) × List α),
        l.foldl (fun (acc : List (List β) × List β) i =>
            let a' := if (k + 2) % 2 = 0 then swap acc.2 i (k + 1) else swap acc.2 0 (k + 1)
            let r := heaps (k + 1) a'
            (acc.1 ++ r.1, r.2)) (acc.1.map (List.map f), acc.2.map f)
          = ((l.foldl (fun (acc : List (List α) × List α) i =>
            let a' := if (k + 2) % 2 = 0 then swap acc.2 i (k + 1) else swap acc.2 0 (k + 1)
            let r := heaps (k + 1) a'
            (acc.1 ++ r.1, r.2)) acc).1.map (List.map f),
             (l.foldl (fun (acc : List (List α) × List α) i =>
            let a' := if (k + 2) % 2 = 0 then swap acc.2 i (k + 1) else swap acc.2 0 (k + 1)
            let r := heaps (k + 1) a'
            (acc.1 ++ r.1, r.2)) acc).2.map f) := by
      intro l
      induction l with
      | nil => intro acc; rfl
      | cons i l ihl =>
        intro acc
        simp only [List.foldl_cons]
        have := ihl (acc.1 ++ (heaps (k + 1) (if (k + 2) % 2 = 0 then swap acc.2 i (k + 1) else swap acc.2 0 (k + 1))).1,
          (heaps (k + 1) (if (k + 2) % 2 = 0 then swap acc.2 i (k + 1) else swap acc.2 0 (k + 1))).2)
        rw [← this]
        congr 1
        split <;> simp [swap_map, ih]
    rw [ih a]
    exact key _ _

theorem genPermutations_map {α β : Type} (f : α → β) (a : List α) :
    genPermutations (a.map f) = (genPermutations a).map (List.map f) := by
  simp [genPermutations, heaps_map]

/-! ### `perms` enumerates `List.Perm` -/

theorem mem_insertions {α : Type} (a : α) : ∀ (l q : List α),
    q ∈ insertions a l ↔ ∃ s t, l = s ++ t ∧ q = s ++ a :: t
  | [], q => by
    simp only [insertions, List.mem_singleton]
    constructor
    · intro h; exact ⟨[], [], rfl, by simpa using h⟩
    · rintro ⟨s, t, h1, h2⟩
      have : s = [] ∧ t = [] := by simpa using h1.symm
      simp [h2, this.1, this.2]
  | b :: l, q => by
    simp only [insertions, List.mem_cons, List.mem_map]
    constructor
    · rintro (h | ⟨q', hq', rfl⟩)
      · exact ⟨[], b :: l, rfl, by simpa using h⟩
      · obtain ⟨s, t, h1, h2⟩ := (mem_insertions a l q').1 hq'
        exact ⟨b :: s, t, by simp [h1], by simp [h2]⟩
    · rintro ⟨s, t, h1, h2⟩
      cases s with
      | nil => left; simp at h1; simp [h2, h1]
      | cons c s =>
        simp at h1
        right
        refine ⟨s ++ a :: t, (mem_insertions a l _).2 ⟨s, t, h1.2, rfl⟩, ?_⟩
        simp [h2, h1.1]

theorem mem_perms {α : Type} : ∀ (l q : List α), q ∈ perms l ↔ q.Perm l
  | [], q => by simp [perms]
  | a :: l, q => by
    simp only [perms, List.mem_flatMap]
    constructor
    · rintro ⟨p, hp, hq⟩
      have hpl := (mem_perms l p).1 hp
      obtain ⟨s, t, h1, h2⟩ := (mem_insertions a p q).1 hq
      subst h1 h2
      exact List.perm_middle.trans (List.Perm.cons a hpl)
    · intro h
      have ha : a ∈ q := h.symm.subset (by simp)
      obtain ⟨s, t, rfl⟩ := List.append_of_mem ha
      have h' : (s ++ t).Perm l := by
        have := List.perm_middle.symm.trans h
        exact List.Perm.cons_inv this
      exact ⟨s ++ t, (mem_perms l _).2 h', (mem_insertions a _ _).2 ⟨s, t, rfl, rfl⟩⟩

theorem insertions_map {α β : Type} (f : α → β) (a : α) : ∀ l : List α,
    insertions (f a) (l.map f) = (insertions a l).map (List.map f)
  | [] => rfl
  | b :: l => by
    simp [insertions, insertions_map f a l, List.map_map, Function.comp_def]

theorem perms_map {α β : Type} (f : α → β) : ∀ l : List α,
    perms (l.map f) = (perms l).map (List.map f)
  | [] => rfl
  | a :: l => by
    simp only [List.map_cons, perms, perms_map f l, List.flatMap_map, List.map_flatMap, insertions_map]

/-! ### the finite check on index lists -/

/-- base-8 code of a list of digits -/
def enc : List Nat → Nat
  | [] => 0
  | d :: l => d + 8 * enc l

theorem enc_inj : ∀ (p q : List Nat), p.length = q.length → (∀ x ∈ p, x < 8) → (∀ x ∈ q, x < 8) →
    enc p = enc q → p = q
  | [], [], _, _, _, _ => rfl
  | [], _ :: _, h, _, _, _ => by simp at h
  | _ :: _, [], h, _, _, _ => by simp at h
  | a :: p, b :: q, hl, hp, hq, h => by
    have ha := hp a (by simp)
    have hb := hq b (by simp)
    simp only [enc] at h
    have h1 : a = b := by omega
    have h2 : enc p = enc q := by omega
    have := enc_inj p q (by simpa using hl) (fun x hx => hp x (by simp [hx])) (fun x hx => hq x (by simp [hx])) h2
    simp [h1, this]

def bitmap (l : List Nat) : Nat := l.foldl (fun acc c => acc ||| (1 <<< c)) 0

theorem testBit_foldl_or (l : List Nat) (acc c : Nat) :
    Nat.testBit (l.foldl (fun acc c => acc ||| (1 <<< c)) acc) c = true →
      Nat.testBit acc c = true ∨ c ∈ l := by
  induction l generalizing acc with
  | nil => intro h; left; simpa using h
  | cons d l ih =>
    intro h
    simp only [List.foldl_cons] at h
    rcases ih _ h with h' | h'
    · simp only [Nat.testBit_or, Bool.or_eq_true] at h'
      rcases h' with h' | h'
      · left; exact h'
      · right
        rw [Nat.one_shiftLeft, Nat.testBit_two_pow] at h'
        simp at h'
        simp [h']
    · right; simp [h']

theorem mem_of_testBit_bitmap (l : List Nat) (c : Nat) (h : Nat.testBit (bitmap l) c = true) : c ∈ l := by
  rcases testBit_foldl_or l 0 c h with h' | h'
  · simp at h'
  · exact h'

/-- complete check at size `n`: every insertion-permutation of the index list is produced by Heap's
algorithm, and everything Heap's algorithm produces is a permutation of the index list -/
def heapsCheck (n : Nat) : Bool :=
  let hs := genPermutations (List.range n)
  let bm := bitmap (hs.map enc)
  (perms (List.range n)).all (fun p => Nat.testBit bm (enc p)) &&
    hs.all (fun q => q.isPerm (List.range n))

set_option maxRecDepth 100000 in
theorem heapsCheck_2_6 : heapsCheck 2 = true ∧ heapsCheck 3 = true ∧ heapsCheck 4 = true ∧
    heapsCheck 5 = true ∧ heapsCheck 6 = true := by
  refine ⟨?_, ?_, ?_, ?_, ?_⟩ <;> decide +kernel

theorem mem_heaps_range_iff (n : Nat) (hn : n ≤ 8) (hc : heapsCheck n = true) (p : List Nat) :
    p ∈ genPermutations (List.range n) ↔ p.Perm (List.range n) := by
  simp only [heapsCheck, Bool.and_eq_true, List.all_eq_true] at hc
  obtain ⟨h1, h2⟩ := hc
  constructor
  · intro hp
    have := h2 p hp
    exact List.isPerm_iff.1 this
  · intro hp
    have hpm := (mem_perms _ _).2 hp
    have hb := mem_of_testBit_bitmap _ _ (h1 p hpm)
    obtain ⟨q, hq, hqe⟩ := List.mem_map.1 hb
    have hqp : q.Perm (List.range n) := List.isPerm_iff.1 (h2 q hq)
    have hlen : q.length = p.length := by rw [hqp.length_eq, hp.length_eq]
    have hq8 : ∀ x ∈ q, x < 8 := fun x hx => by
      have := hqp.subset hx; simp at this; omega
    have hp8 : ∀ x ∈ p, x < 8 := fun x hx => by
      have := hp.subset hx; simp at this; omega
    have := enc_inj q p hlen hq8 hp8 hqe
    exact this ▸ hq

/-- a list is its index list mapped through element access -/
theorem map_getD_range {α : Type} (l : List α) (d : α) :
    (List.range l.length).map (fun i => l.getD i d) = l := by
  apply List.ext_getElem
  · simp
  · intro i h1 h2
    simp at h1
    simp [h1]

/-- **Heap's algorithm as modelled is complete and sound for the sizes the parser admits.** -/
theorem mem_genPermutations_iff {α : Type} (l : List α) (h2 : 2 ≤ l.length) (h6 : l.length ≤ 6)
    (p : List α) : p ∈ genPermutations l ↔ p.Perm l := by
  obtain ⟨d, hd⟩ : ∃ d, d ∈ l := by
    cases l with
    | nil => simp at h2
    | cons d _ => exact ⟨d, by simp⟩
  have hl : (List.range l.length).map (fun i => l.getD i d) = l := map_getD_range l d
  have hc : heapsCheck l.length = true := by
    obtain ⟨c2, c3, c4, c5, c6⟩ := heapsCheck_2_6
    have : l.length = 2 ∨ l.length = 3 ∨ l.length = 4 ∨ l.length = 5 ∨ l.length = 6 := by omega
    rcases this with h | h | h | h | h
    · rw [h]; exact c2
    · rw [h]; exact c3
    · rw [h]; exact c4
    · rw [h]; exact c5
    · rw [h]; exact c6
  have h8 : l.length ≤ 8 := by omega
  generalize hn : l.length = n at hl hc h8
  rw [← mem_perms]
  rw [← hl, genPermutations_map, perms_map]
  simp only [List.mem_map]
  constructor
  · rintro ⟨σ, hσ, rfl⟩
    exact ⟨σ, (mem_perms _ _).2 ((mem_heaps_range_iff _ h8 hc σ).1 hσ), rfl⟩
  · rintro ⟨σ, hσ, rfl⟩
    exact ⟨σ, (mem_heaps_range_iff _ h8 hc σ).2 ((mem_perms _ _).1 hσ), rfl⟩

end KVerif.Seq
