/-
C01 helper lemmas, part 4: quiescence on the tap-dance fragment (C17): plain keys, output chords,
layer-while-held, transparent / unmapped positions, and tap-dance keys — lazy and eager, any number of
them, any timeout — whose listed actions are a key, an output chord or layer-while-held.

While a lazy tap-dance key is undecided nothing is taken from the queue, so `extra_waiting` stays
empty.  The dance ends by eviction: the counted taps' presses and releases leave the queue, and the
chosen action is performed once at the key's coordinate.  That the state this creates is released
again needs what no other fragment needed: the history must be physically possible (a key is pressed
only while it is up and released only while it is down), so that the key's queued events alternate
and the eviction removes whole release/press pairs.  `PhysQ` is that condition on the queue, relative
to the set `front` of keys whose press has been taken from the queue and whose release has not.
-/
import KVerif.Lemmas.QuiesceTapHold
import KVerif.Lemmas.TapDanceLayout
import KVerif.Props.C07
namespace KVerif.Quiesce
open KVerif.L KVerif.C06

/-! ## the fragment -/

def FragD : Action → Prop
  | .noOp | .trans | .keyCode _ | .multipleKeyCodes _ | .layer _ => True
  | .tapDance acts _ _ => acts ≠ [] ∧ ∀ a ∈ acts, Simple a
  | _ => False

def CfgD (c : LCfg) : Prop :=
  (∀ tbl ∈ c.layers, ∀ e ∈ tbl, FragD e.2) ∧ (∀ e ∈ c.srcKeys, FragD e.2)

/-- the timeout of a tap-dance action -/
def tdT : Action → Nat
  | .tapDance _ T _ => T
  | _ => 0

def maxDanceTimeout (c : LCfg) : Nat :=
  max (listMax (c.layers.map fun tbl => listMax (tbl.map fun e => tdT e.2)))
      (listMax (c.srcKeys.map fun e => tdT e.2))

/-- every tap-dance timeout of the configuration is at most `T` -/
def DBound (c : LCfg) (T : Nat) : Prop :=
  (∀ tbl ∈ c.layers, ∀ e ∈ tbl, tdT e.2 ≤ T) ∧ (∀ e ∈ c.srcKeys, tdT e.2 ≤ T)

theorem dBound_max (c : LCfg) : DBound c (maxDanceTimeout c) := by
  refine ⟨fun tbl ht e he => ?_, fun e he => ?_⟩
  · have h1 : tdT e.2 ≤ listMax (tbl.map fun e => tdT e.2) := le_listMax (List.mem_map.mpr ⟨e, he, rfl⟩)
    have h2 : listMax (tbl.map fun e => tdT e.2) ≤ listMax (c.layers.map fun tbl => listMax (tbl.map fun e => tdT e.2)) :=
      le_listMax (List.mem_map.mpr ⟨tbl, ht, rfl⟩)
    exact Nat.le_trans h1 (Nat.le_trans h2 (Nat.le_max_left _ _))
  · have h1 : tdT e.2 ≤ listMax (c.srcKeys.map fun e => tdT e.2) := le_listMax (List.mem_map.mpr ⟨e, he, rfl⟩)
    exact Nat.le_trans h1 (Nat.le_max_right _ _)

/-! ## physically possible histories -/

/-- a key is pressed only while it is up and released only while it is down -/
def physical : List Coord → List In → Bool
  | _, [] => true
  | down, .ev (.press c) :: r => !down.contains c && physical (c :: down) r
  | down, .ev (.release c) :: r => down.contains c && physical (down.filter (· != c)) r
  | down, .tick :: r => physical down r

/-- an event the keys that are down allow -/
def possible (down : List Coord) : Ev → Prop
  | .press c => c ∉ down
  | .release c => c ∈ down

/-- the queue is physically possible: starting from the keys `front` that are logically down (their
press has been taken from the queue, their release has not), every queued press is of a key that is
up at that point, every queued release of a key that is down, and at the end the keys `down` are down -/
def PhysQ : List Coord → List Queued → List Coord → Prop
  | front, [], down => ∀ c, c ∈ front ↔ c ∈ down
  | front, q :: rest, down =>
    match q.ev with
    | .press c => c ∉ front ∧ PhysQ (c :: front) rest down
    | .release c => c ∈ front ∧ PhysQ (front.filter (· != c)) rest down

theorem PhysQ_congr : ∀ (q : List Queued) (f1 f2 down : List Coord), (∀ c, c ∈ f1 ↔ c ∈ f2) →
    PhysQ f1 q down → PhysQ f2 q down := by
  intro q
  induction q with
  | nil => intro f1 f2 down h hp c; exact (h c).symm.trans (hp c)
  | cons x rest ih =>
    intro f1 f2 down h hp
    unfold PhysQ at hp ⊢
    cases hx : x.ev with
    | press c =>
      simp only [hx] at hp ⊢
      refine ⟨fun hc => hp.1 ((h c).mpr hc), ih _ _ _ ?_ hp.2⟩
      intro y; simp only [List.mem_cons, h y]
    | release c =>
      simp only [hx] at hp ⊢
      refine ⟨(h c).mp hp.1, ih _ _ _ ?_ hp.2⟩
      intro y; simp only [List.mem_filter, h y]

theorem PhysQ_age : ∀ (q : List Queued) (front down : List Coord), PhysQ front q down → PhysQ front (age q) down := by
  intro q
  induction q with
  | nil => intro _ _ h; exact h
  | cons x rest ih =>
    intro front down hp
    show PhysQ front ({ x with since := min (x.since + 1) U16_MAX } :: age rest) down
    unfold PhysQ at hp ⊢
    cases hx : x.ev with
    | press c => simp only [hx] at hp ⊢; exact ⟨hp.1, ih _ _ hp.2⟩
    | release c => simp only [hx] at hp ⊢; exact ⟨hp.1, ih _ _ hp.2⟩

/-- an event that is possible for the keys that are down is appended -/
theorem PhysQ_append (e : Ev) (n : Nat) : ∀ (q : List Queued) (front down : List Coord), PhysQ front q down →
    possible down e →
    PhysQ front (q ++ [⟨e, n⟩]) (downAfter down (.ev e)) := by
  intro q
  induction q with
  | nil =>
    intro front down hp he
    simp only [List.nil_append]
    unfold PhysQ at hp
    unfold PhysQ
    cases e with
    | press c =>
      simp only [possible] at he ⊢
      refine ⟨fun hc => he ((hp c).mp hc), ?_⟩
      unfold PhysQ
      intro y; simp only [downAfter, List.mem_cons, hp y]
    | release c =>
      simp only [possible] at he ⊢
      refine ⟨(hp c).mpr he, ?_⟩
      unfold PhysQ
      intro y; simp only [downAfter, List.mem_filter, hp y]
  | cons x rest ih =>
    intro front down hp he
    simp only [List.cons_append]
    unfold PhysQ at hp ⊢
    cases hx : x.ev with
    | press c => simp only [hx] at hp ⊢; exact ⟨hp.1, ih _ _ hp.2 he⟩
    | release c => simp only [hx] at hp ⊢; exact ⟨hp.1, ih _ _ hp.2 he⟩

/-- a key that is logically down is physically down or its release is queued -/
theorem PhysQ_owned : ∀ (q : List Queued) (front down : List Coord), PhysQ front q down →
    ∀ c, c ∈ front → c ∈ down ∨ ∃ x ∈ q, x.ev = .release c := by
  intro q
  induction q with
  | nil => intro front down hp c hc; exact Or.inl ((hp c).mp hc)
  | cons x rest ih =>
    intro front down hp c hc
    unfold PhysQ at hp
    cases hx : x.ev with
    | press c' =>
      simp only [hx] at hp
      rcases ih _ _ hp.2 c (List.mem_cons_of_mem _ hc) with g | ⟨y, hy, hye⟩
      · exact Or.inl g
      · exact Or.inr ⟨y, List.mem_cons_of_mem _ hy, hye⟩
    | release c' =>
      simp only [hx] at hp
      by_cases hcc : c = c'
      · subst hcc; exact Or.inr ⟨x, List.mem_cons_self, hx⟩
      · rcases ih _ _ hp.2 c (List.mem_filter.mpr ⟨hc, by simpa using hcc⟩) with g | ⟨y, hy, hye⟩
        · exact Or.inl g
        · exact Or.inr ⟨y, List.mem_cons_of_mem _ hy, hye⟩

/-! ### the eviction keeps the queue physically possible -/

theorem nPr_cons_rel {w : Waiting} {s : Queued} (h : C17.isRel w s = true) (rest : List Queued) :
    C17.nPr w (s :: rest) = C17.nPr w rest := by
  simp [C17.nPr, C17.isPr_false_of_isRel h]

theorem nPr_cons_pr {w : Waiting} {s : Queued} (h : C17.isPr w s = true) (rest : List Queued) :
    C17.nPr w (s :: rest) = C17.nPr w rest + 1 := by
  simp [C17.nPr, h]

theorem nPr_cons_other {w : Waiting} {s : Queued} (h : C17.isPr w s = false) (rest : List Queued) :
    C17.nPr w (s :: rest) = C17.nPr w rest := by
  simp [C17.nPr, h]

/-- with the dance key logically down: removing the first `j` release/press pairs of the key keeps
the queue possible; with a release more removed than presses, the key counts as down for the rest -/
theorem PhysQ_evict_aux (w : Waiting) : ∀ (q : List Queued) (j : Nat) (front down : List Coord),
    (w.coord ∈ front → PhysQ front q down → j ≤ C17.nPr w q → PhysQ front (evictSameCoord w j j q) down) ∧
    (w.coord ∉ front → PhysQ front q down → j + 1 ≤ C17.nPr w q →
      PhysQ (w.coord :: front) (evictSameCoord w j (j + 1) q) down) := by
  intro q
  induction q with
  | nil =>
    intro j front down
    refine ⟨fun _ hp _ => hp, fun _ _ hj => ?_⟩
    simp [C17.nPr] at hj
  | cons s rest ih =>
    intro j front down
    cases hr : C17.isRel w s with
    | true =>
      have hev := (C17.isRel_iff w s).mp hr
      rw [nPr_cons_rel hr]
      constructor
      · intro hc hp hj
        rw [C17.evict_cons]
        simp only [hr, if_true]
        cases j with
        | zero => simp only [Nat.lt_irrefl, if_false, C17.evict_zero]; exact hp
        | succ i =>
          simp only [Nat.succ_pos, if_true, Nat.add_sub_cancel]
          unfold PhysQ at hp
          simp only [hev] at hp
          have := (ih i (front.filter (· != w.coord)) down).2 (by simp) hp.2 hj
          refine PhysQ_congr _ _ _ _ ?_ this
          intro y
          simp only [List.mem_cons, List.mem_filter, bne_iff_ne, ne_eq]
          constructor
          · rintro (rfl | ⟨h1, _⟩)
            · exact hc
            · exact h1
          · intro hy
            by_cases hyc : y = w.coord
            · exact Or.inl hyc
            · exact Or.inr ⟨hy, hyc⟩
      · intro hc hp _
        unfold PhysQ at hp
        simp only [hev] at hp
        exact absurd hp.1 hc
    | false =>
      cases hpr : C17.isPr w s with
      | true =>
        have hev := (C17.isPr_iff w s).mp hpr
        rw [nPr_cons_pr hpr]
        constructor
        · intro hc hp _
          unfold PhysQ at hp
          simp only [hev] at hp
          exact absurd hc hp.1
        · intro hc hp hj
          rw [C17.evict_cons]
          simp only [hr, Bool.false_eq_true, if_false, hpr, Bool.true_and, Nat.succ_pos, decide_true, if_true,
            Nat.add_sub_cancel]
          unfold PhysQ at hp
          simp only [hev] at hp
          exact (ih j (w.coord :: front) down).1 List.mem_cons_self hp.2 (by omega)
      | false =>
        rw [nPr_cons_other hpr]
        have hev : ∀ r p, evictSameCoord w r p (s :: rest) = s :: evictSameCoord w r p rest := by
          intro r p
          rw [C17.evict_cons]
          simp only [hr, hpr, Bool.false_eq_true, if_false, Bool.false_and]
        rw [hev, hev]
        cases hx : s.ev with
        | press c' =>
          have hne : c' ≠ w.coord := by
            intro h; subst h
            have := (C17.isPr_iff w s).mpr hx
            rw [hpr] at this; cases this
          constructor
          · intro hc hp hj
            unfold PhysQ at hp ⊢
            simp only [hx] at hp ⊢
            exact ⟨hp.1, (ih j (c' :: front) down).1 (List.mem_cons_of_mem _ hc) hp.2 hj⟩
          · intro hc hp hj
            unfold PhysQ at hp ⊢
            simp only [hx] at hp ⊢
            refine ⟨?_, ?_⟩
            · intro h
              rcases List.mem_cons.mp h with h | h
              · exact hne h
              · exact hp.1 h
            · have := (ih j (c' :: front) down).2 (by
                intro h
                rcases List.mem_cons.mp h with h | h
                · exact hne h.symm
                · exact hc h) hp.2 hj
              refine PhysQ_congr _ _ _ _ ?_ this
              intro y
              simp only [List.mem_cons]
              constructor
              · rintro (h | h | h)
                · exact Or.inr (Or.inl h)
                · exact Or.inl h
                · exact Or.inr (Or.inr h)
              · rintro (h | h | h)
                · exact Or.inr (Or.inl h)
                · exact Or.inl h
                · exact Or.inr (Or.inr h)
        | release c' =>
          have hne : c' ≠ w.coord := by
            intro h; subst h
            have := (C17.isRel_iff w s).mpr hx
            rw [hr] at this; cases this
          constructor
          · intro hc hp hj
            unfold PhysQ at hp ⊢
            simp only [hx] at hp ⊢
            exact ⟨hp.1, (ih j (front.filter (· != c')) down).1
              (List.mem_filter.mpr ⟨hc, by simpa using fun h => hne h.symm⟩) hp.2 hj⟩
          · intro hc hp hj
            unfold PhysQ at hp ⊢
            simp only [hx] at hp ⊢
            refine ⟨List.mem_cons_of_mem _ hp.1, ?_⟩
            have := (ih j (front.filter (· != c')) down).2 (fun h => hc (List.mem_filter.mp h).1) hp.2 hj
            refine PhysQ_congr _ _ _ _ ?_ this
            intro y
            simp only [List.mem_cons, List.mem_filter, bne_iff_ne, ne_eq]
            constructor
            · rintro (h | ⟨h1, h2⟩)
              · exact ⟨Or.inl h, by rw [h]; exact fun h' => hne h'.symm⟩
              · exact ⟨Or.inr h1, h2⟩
            · rintro ⟨h | h, h2⟩
              · exact Or.inl h
              · exact Or.inr ⟨h, h2⟩

/-- **ending a dance keeps the queue physically possible**: with the dance key logically down and at
most as many taps counted as presses of the key are queued -/
theorem PhysQ_evictTaps (w : Waiting) (q : List Queued) (front down : List Coord) (hc : w.coord ∈ front)
    (hp : PhysQ front q down) (n : Nat) (hn : n - 1 ≤ C17.nPr w q) : PhysQ front (evictTaps w n q) down :=
  (PhysQ_evict_aux w q (n - 1) front down).1 hc hp hn

/-! ## what a press does on the fragment -/

/-- a listed action: simple, and a layer it names exists -/
def SimpleOK (L : Nat) (a : Action) : Prop := Simple a ∧ SimpleSafe L a

def ActSafeD (L : Nat) : Action → Prop
  | .layer v => v < L
  | .tapDance acts _ _ => ∀ a ∈ acts, SimpleSafe L a
  | _ => True

structure CfgSafeD (c : LCfg) : Prop where
  pinned : c.pinnedLayerStack = false
  layers : 0 < c.layers.length
  refsL : ∀ tbl ∈ c.layers, ∀ e ∈ tbl, ActSafeD c.layers.length e.2
  refsS : ∀ e ∈ c.srcKeys, ActSafeD c.layers.length e.2 ∧ e.2 ≠ .trans

/-- the eager tap-dance state: listed actions of the fragment, countdown and restart value bounded -/
structure TOK (T L : Nat) (t : TDE) : Prop where
  acts : ∀ a ∈ t.actions, SimpleOK L a
  timeout : t.timeout ≤ T
  orig : t.origTimeout ≤ T

/-- the undecided lazy tap-dance key: listed actions of the fragment, countdown and restart value
bounded, and no more taps counted than presses of the key are queued -/
structure DWOK (T L : Nat) (w : Waiting) (q : List Queued) : Prop where
  cfg : ∃ acts T' k, w.config = .tapDance acts T' k ∧ acts ≠ [] ∧ (∀ a ∈ acts, SimpleOK L a) ∧ T' ≤ T ∧
    k - 1 ≤ C17.nPr w q
  timeout : w.timeout ≤ T

/-- what a press on the fragment leaves alone -/
structure FrameD (s s' : Layout) : Prop where
  extra : s'.extraWaiting = s.extraWaiting
  aq : s'.actionQueue = s.actionQueue
  seqs : s'.activeSequences = s.activeSequences
  cfg : s'.cfg = s.cfg
  dl : s'.defaultLayer = s.defaultLayer
  queue : s'.queue = s.queue
  osh : s'.oneshot = s.oneshot

theorem FrameD.refl (s : Layout) : FrameD s s := ⟨rfl, rfl, rfl, rfl, rfl, rfl, rfl⟩
theorem FrameD.trans {a b c : Layout} (h1 : FrameD a b) (h2 : FrameD b c) : FrameD a c :=
  ⟨h2.extra.trans h1.extra, h2.aq.trans h1.aq, h2.seqs.trans h1.seqs, h2.cfg.trans h1.cfg, h2.dl.trans h1.dl,
   h2.queue.trans h1.queue, h2.osh.trans h1.osh⟩
theorem FrameD.of_frame {s s' : Layout} (f : Frame s s') (hq : s'.queue = s.queue) (ho : s'.oneshot = s.oneshot) :
    FrameD s s' := ⟨f.extra, f.aq, f.seqs, f.cfg, f.dl, hq, ho⟩

/-- what the eager tap-dance state still costs: its countdown and the tick that forgets it -/
def tdeLoad : Option TDE → Nat
  | some t => t.timeout + 1
  | none => 0

/-- the outcome of a press on the fragment -/
structure PressD (T : Nat) (c : Coord) (s s' : Layout) : Prop where
  frame : FrameD s s'
  adds : Adds c s s'
  lpt : s'.lptTapHoldTimeout ≤ s.lptTapHoldTimeout
  grows : GrowsL s.cfg.layers.length s.states s'.states
  waiting : s'.waiting = none ∨ ∃ w acts T', s'.waiting = some w ∧ w.coord = c ∧ w.config = .tapDance acts T' 1 ∧
    acts ≠ [] ∧ (∀ a ∈ acts, SimpleOK s.cfg.layers.length a) ∧ T' ≤ T ∧ w.timeout = T' ∧
    tdeLoad s'.tapDanceEager ≤ tdeLoad s.tapDanceEager
  tde : ∀ t, s'.tapDanceEager = some t → TOK T s.cfg.layers.length t

/-- the waiting state `do_action` creates for a lazy tap-dance (and a chord) -/
def freshWaiting (c : Coord) (d T : Nat) (cfg : WCfg) (ls : List Nat) : Waiting :=
  { coord := c, timeout := T, delay := d, ticks := 0, hold := .noOp, tap := .noOp, timeoutAction := .noOp,
    config := cfg, layerStack := ls, prevQueueLen := 255 }

theorem armWait_spec (s : Layout) (c : Coord) (d T : Nat) (cfg : WCfg) (ls : List Nat) :
    (armWait s c d T cfg ls).waiting = some (freshWaiting c d T cfg ls) ∧
    FrameD s (armWait s c d T cfg ls) ∧ (armWait s c d T cfg ls).states = s.states ∧
    (armWait s c d T cfg ls).lptTapHoldTimeout = s.lptTapHoldTimeout ∧
    (armWait s c d T cfg ls).tapDanceEager = s.tapDanceEager := by
  unfold armWait updateCoord freshWaiting
  split <;> exact ⟨rfl, ⟨rfl, rfl, rfl, rfl, rfl, rfl, rfl⟩, rfl, rfl, rfl⟩

theorem armEager_spec (s : Layout) (c : Coord) (acts : List Action) (T : Nat) :
    Frame { s with tapDanceEager := (armEager s c acts T).tapDanceEager } (armEager s c acts T) ∧
    (armEager s c acts T).queue = s.queue ∧ (armEager s c acts T).oneshot = s.oneshot ∧
    (armEager s c acts T).states = s.states ∧
    (armEager s c acts T).lptTapHoldTimeout = s.lptTapHoldTimeout ∧
    ((armEager s c acts T).tapDanceEager = some { coord := c, actions := acts, timeout := T, origTimeout := T, numTaps := 1 } ∨
     (armEager s c acts T).tapDanceEager = s.tapDanceEager) := by
  obtain ⟨u1, u2, u3, u4⟩ := updateCoord_spec s c
  have u5 := updateCoord_lpt s c
  unfold armEager
  simp only []
  generalize updateCoord s c = u at u1 u2 u3 u4 u5
  cases ht : u.tapDanceEager with
  | none =>
    exact ⟨⟨u1.waiting, u1.extra, rfl, u1.aq, u1.seqs, u1.cfg, u1.dl, u1.tv2, u1.dfl⟩, u3, u2, u4, u5, Or.inl rfl⟩
  | some t =>
    simp only []
    split
    · exact ⟨⟨u1.waiting, u1.extra, rfl, u1.aq, u1.seqs, u1.cfg, u1.dl, u1.tv2, u1.dfl⟩, u3, u2, u4, u5, Or.inl rfl⟩
    · exact ⟨⟨u1.waiting, u1.extra, rfl, u1.aq, u1.seqs, u1.cfg, u1.dl, u1.tv2, u1.dfl⟩, u3, u2, u4, u5, Or.inr u1.tde⟩

/-- a simple action performed at `c` on a state `base` that a press at `c` has led to -/
theorem pressD_arm (T : Nat) (s base : Layout) (a : Action) (hs : Simple a)
    (hsafe : SimpleSafe s.cfg.layers.length a) (c : Coord) (hf : FrameD s base) (hadds : Adds c s base)
    (hl : base.lptTapHoldTimeout ≤ s.lptTapHoldTimeout) (hg : GrowsL s.cfg.layers.length s.states base.states)
    (hw : base.waiting = none) (hk : s.oneshot.keys = [])
    (ht : ∀ t, base.tapDanceEager = some t → TOK T s.cfg.layers.length t) :
    PressD T c s (simpleArm base a c false) := by
  have sp := simpleArm_spec base a hs c false
  have ho : (simpleArm base a c false).oneshot = base.oneshot := by
    rw [sp.osh]
    simp only [Bool.false_eq_true, if_false]
    rw [handlePress_inactive _ _ (by rw [hf.osh]; exact hk)]
  refine ⟨hf.trans (FrameD.of_frame sp.frame sp.queue ho), hadds.trans sp.adds, ?_, ?_, Or.inl (sp.frame.waiting.trans hw), ?_⟩
  · rw [simpleArm_lpt]; exact hl
  · exact hg.trans (simpleArm_growsL _ base a hsafe c false)
  · intro t h
    rw [sp.frame.tde] at h
    exact ht t h

theorem dispatch_D (fuel T : Nat) (s : Layout) (a : Action) (hf : FragD a) (hb : tdT a ≤ T) (hnt : a ≠ .trans)
    (hs : ActSafeD s.cfg.layers.length a) (c : Coord) (dl : Nat) (ls : List Nat)
    (hls : ls.length ≤ MAX_ACTIVE_LAYERS) (hw : s.waiting = none) (hk : s.oneshot.keys = [])
    (ht : ∀ t, s.tapDanceEager = some t → TOK T s.cfg.layers.length t) :
    ∃ s', dispatch (fuel + 3) s a c dl false ls = .ok (s', .noEvent) ∧ PressD T c s s' := by
  have simple : ∀ a', Simple a' → SimpleSafe s.cfg.layers.length a' → PressD T c s (simpleArm s a' c false) :=
    fun a' h1 h2 => pressD_arm T s s a' h1 h2 c (FrameD.refl s) (Adds.refl c s) (Nat.le_refl _) (GrowsL.refl _ _) hw hk ht
  cases a <;> simp only [FragD] at hf
  case noOp =>
    obtain ⟨n1, n2, n3, n4⟩ := armNoOp_spec s .noOp c
    have ho : (armNoOp s .noOp c false).oneshot = s.oneshot := by
      rw [n4]; split
      · rw [handlePress_inactive _ _ hk]
      · rfl
    refine ⟨armNoOp s .noOp c false, by simp only [dispatch], FrameD.of_frame n1 n2 ho, Adds.of_states n3,
      Nat.le_of_eq (armNoOp_lpt s .noOp c false), by rw [n3]; exact GrowsL.refl _ _, Or.inl (n1.waiting.trans hw), ?_⟩
    intro t h; rw [n1.tde] at h; exact ht t h
  case trans => exact absurd rfl hnt
  case keyCode kc =>
    exact ⟨armKeyCode s (.keyCode kc) kc c false, by simp only [dispatch],
      simple (.keyCode kc) trivial (fun v hv => by cases hv)⟩
  case multipleKeyCodes kcs =>
    exact ⟨armMultipleKeyCodes s (.multipleKeyCodes kcs) kcs c false, by simp only [dispatch],
      simple (.multipleKeyCodes kcs) trivial (fun v hv => by cases hv)⟩
  case layer v =>
    exact ⟨armLayer s v c false, by simp only [dispatch],
      simple (.layer v) trivial (fun v' hv => by injection hv with hv; subst hv; exact hs)⟩
  case tapDance acts T' eager =>
    simp only [tdT] at hb
    simp only [ActSafeD] at hs
    have hok : ∀ a ∈ acts, SimpleOK s.cfg.layers.length a := fun a ha => ⟨hf.2 a ha, hs a ha⟩
    cases eager with
    | false =>
      obtain ⟨e1, e2, e3, e4, e5⟩ := armWait_spec s c dl T' (.tapDance acts T' 1) ls
      refine ⟨armWait s c dl T' (.tapDance acts T' 1) ls, ?_, e2, Adds.of_states e3, Nat.le_of_eq e4,
        by rw [e3]; exact GrowsL.refl _ _, Or.inr ⟨_, acts, T', e1, rfl, rfl, hf.1, hok, hb, rfl, by rw [e5]; exact Nat.le_refl _⟩, ?_⟩
      · simp only [dispatch, Bool.not_false, if_true]
        rw [if_neg (by omega)]
      · intro t h; rw [e5] at h; exact ht t h
    | true =>
      rw [C17.eager_first_press (fuel + 2)]
      cases acts with
      | nil => exact absurd rfl hf.1
      | cons a0 rest =>
        have h0 := hok a0 List.mem_cons_self
        simp only [List.getElem?_cons_zero]
        rw [doAction_simple fuel _ a0 h0.1]
        obtain ⟨g1, g2, g3, g4, g5, g6⟩ := armEager_spec s c (a0 :: rest) T'
        obtain ⟨p1, p2, p3, p4⟩ := prelude_spec (armEager s c (a0 :: rest) T') c
        refine ⟨_, rfl, pressD_arm T s _ a0 h0.1 h0.2 c ?_ ?_ ?_ ?_ ?_ hk ?_⟩
        · exact ⟨p1.extra.trans g1.extra, p1.aq.trans g1.aq, p1.seqs.trans g1.seqs, p1.cfg.trans g1.cfg,
            p1.dl.trans g1.dl, p3.trans g2, p2.trans g3⟩
        · exact (Adds.of_states g4).trans (prelude_adds _ c)
        · exact Nat.le_trans (prelude_lpt _ c) (Nat.le_of_eq g5)
        · rw [p4, g4]; exact GrowsL.filter _ _ _
        · rw [p1.waiting, g1.waiting]; exact hw
        · intro t h
          rw [p1.tde] at h
          rcases g6 with g | g
          · rw [g] at h
            injection h with h; subst h
            exact ⟨hok, hb, hb⟩
          · rw [g] at h; exact ht t h

theorem PressD.after_prelude {T : Nat} {c : Coord} {s s' : Layout} (h : PressD T c (prelude s c) s') :
    PressD T c s s' := by
  obtain ⟨p1, p2, p3, p4⟩ := prelude_spec s c
  have hcfg := p1.cfg
  obtain ⟨f, a, l, g, w, t⟩ := h
  rw [hcfg, p1.tde] at w
  rw [hcfg] at g t
  refine ⟨(FrameD.of_frame p1 p3 p2).trans f, (prelude_adds s c).trans a, Nat.le_trans l (prelude_lpt s c), ?_, w, t⟩
  rw [p4] at g
  exact (GrowsL.filter _ _ _).trans g

structure SafeD (s : Layout) : Prop where
  cfg : CfgSafeD s.cfg
  dl : s.defaultLayer < s.cfg.layers.length
  held : ∀ st ∈ s.states, ∀ v, st.getLayer = some v → v < s.cfg.layers.length
  queue : ∀ q ∈ s.queue, ∀ c, q.ev = .press c → CoordOK s.cfg c

/-- the key's own action, found through the layers, performed -/
theorem doTrans_D {T : Nat} {s : Layout} (hc : CfgD s.cfg) (hb : DBound s.cfg T) (hcs : CfgSafeD s.cfg)
    (hw : s.waiting = none) (hk : s.oneshot.keys = [])
    (ht : ∀ t, s.tapDanceEager = some t → TOK T s.cfg.layers.length t) (c : Coord) (hco : CoordOK s.cfg c)
    (since : Nat) (order : List Nat) (hol : ∀ l ∈ order, l < s.cfg.layers.length)
    (hlen : order.length ≤ MAX_ACTIVE_LAYERS) :
    ∃ s', doAction (3995 + 4) s .trans c since false order = .ok (s', .noEvent) ∧ PressD T c s s' := by
  obtain ⟨a, ls, hr⟩ := resolve_total s c hco order hol
  have hP := resolve_pred (fun a => FragD a ∧ tdT a ≤ T ∧ ActSafeD s.cfg.layers.length a)
    ⟨trivial, Nat.zero_le _, trivial⟩ ⟨trivial, Nat.zero_le _, trivial⟩ s c
    (fun tbl ht e he => ⟨hc.1 tbl ht e he, hb.1 tbl ht e he, hcs.refsL tbl ht e he⟩)
    (fun e he => ⟨hc.2 e he, hb.2 e he, (hcs.refsS e he).1⟩) _ _ _ hr
  have hnt := resolve_ne_trans s c (fun e he => (hcs.refsS e he).2) _ _ _ hr
  have hls : ls.length ≤ MAX_ACTIVE_LAYERS := Nat.le_trans (resolve_rest_le s c _ _ _ hr) hlen
  obtain ⟨p1, p2, p3, p4⟩ := prelude_spec s c
  have hcfg := p1.cfg
  obtain ⟨s', e1, r⟩ := dispatch_D 3995 T (prelude s c) a hP.1 hP.2.1 hnt (by rw [hcfg]; exact hP.2.2) c since ls hls
    (p1.waiting.trans hw) (by rw [p2]; exact hk) (by rw [hcfg, p1.tde]; exact ht)
  refine ⟨s', ?_, r.after_prelude⟩
  simp only [doAction, hr]
  exact e1

/-- **a press taken from the queue, nothing waiting**: the three paths of `dequeue` (no eager state;
a live eager state and the last pressed key again: its next listed action; otherwise the key's own
action, an eager state being marked expired by a real key) -/
theorem dequeue_press_D {T : Nat} {s : Layout} (hc : CfgD s.cfg) (hb : DBound s.cfg T) (hS : SafeD s)
    (hw : s.waiting = none) (hk : s.oneshot.keys = [])
    (ht : ∀ t, s.tapDanceEager = some t → TOK T s.cfg.layers.length t) (c : Coord) (hco : CoordOK s.cfg c)
    (since : Nat) :
    ∃ s', dequeue FUEL s ⟨.press c, since⟩ = .ok (s', .noEvent) ∧ PressD T c s s' := by
  obtain ⟨order, ho, hol⟩ := transOrder_total s s.cfg.layers.length hS.cfg.pinned hS.dl hS.cfg.layers hS.held
  obtain ⟨order', ho', hlen⟩ := C02.layer_stack_never_overflows s hS.cfg.pinned
  rw [ho] at ho'; injection ho' with ho'; subst ho'
  cases htde : s.tapDanceEager with
  | none =>
    obtain ⟨s', e, r⟩ := doTrans_D hc hb hS.cfg hw hk ht c hco since order hol hlen
    refine ⟨s', ?_, r⟩
    rw [FUEL_5]
    simp only [dequeue, htde, bind, Except.bind, ho]
    exact e
  | some t =>
    have tk := ht t htde
    by_cases hlive : (c == s.lptCoord && !t.isExpired) = true
    · have hexp : t.isExpired = false := by
        simp only [Bool.and_eq_true, Bool.not_eq_true'] at hlive
        exact hlive.2
      obtain ⟨a, ha⟩ := C17.eager_live_index_ok hexp
      have hok := tk.acts a (List.mem_of_getElem? ha)
      obtain ⟨p1, p2, p3, p4⟩ := prelude_spec s c
      have sp := simpleArm_spec (prelude s c) a hok.1 c false
      have hcfg := p1.cfg
      have r := (pressD_arm T (prelude s c) (prelude s c) a hok.1 (by rw [hcfg]; exact hok.2) c (FrameD.refl _)
        (Adds.refl c _) (Nat.le_refl _) (GrowsL.refl _ _) (p1.waiting.trans hw) (by rw [p2]; exact hk)
        (by rw [hcfg, p1.tde]; exact ht)).after_prelude
      refine ⟨{ simpleArm (prelude s c) a c false with
                tapDanceEager := (simpleArm (prelude s c) a c false).tapDanceEager.map TDE.incrTaps }, ?_, ?_⟩
      · rw [FUEL_succ]
        simp only [dequeue, htde, bind, Except.bind, ho, hlive, if_true, ha, pure, Except.pure]
        rw [show (3999 : Nat) = 3997 + 2 from rfl, doAction_simple 3997 s a hok.1]
      · refine ⟨⟨r.frame.extra, r.frame.aq, r.frame.seqs, r.frame.cfg, r.frame.dl, r.frame.queue, r.frame.osh⟩,
          ⟨r.adds.old, r.adds.new⟩, r.lpt, r.grows, Or.inl (sp.frame.waiting.trans (p1.waiting.trans hw)), ?_⟩
        intro t' h'
        have h2 : (simpleArm (prelude s c) a c false).tapDanceEager.map TDE.incrTaps = some t' := h'
        rw [sp.frame.tde, p1.tde, htde] at h2
        injection h2 with h2; subst h2
        exact ⟨tk.acts, tk.orig, tk.orig⟩
    · have hlive' : (c == s.lptCoord && !t.isExpired) = false := by simpa using hlive
      have key : ∀ s2 : Layout, s2.cfg = s.cfg → s2.waiting = s.waiting → s2.oneshot = s.oneshot →
          s2.states = s.states → s2.queue = s.queue → s2.extraWaiting = s.extraWaiting →
          s2.actionQueue = s.actionQueue → s2.activeSequences = s.activeSequences →
          s2.defaultLayer = s.defaultLayer → s2.lptTapHoldTimeout = s.lptTapHoldTimeout →
          tdeLoad s2.tapDanceEager ≤ tdeLoad s.tapDanceEager →
          (∀ t', s2.tapDanceEager = some t' → TOK T s.cfg.layers.length t') →
          ∃ s', doAction (3995 + 4) s2 .trans c since false order = .ok (s', .noEvent) ∧ PressD T c s s' := by
        intro s2 e1 e2 e3 e4 e5 e6 e7 e8 e9 e10 e12 e11
        obtain ⟨s', e, r⟩ := doTrans_D (T := T) (s := s2) (e1 ▸ hc) (e1 ▸ hb) (e1 ▸ hS.cfg) (e2.trans hw)
          (by rw [e3]; exact hk) (by rw [e1]; exact e11) c (e1 ▸ hco) since order (by rw [e1]; exact hol) hlen
        refine ⟨s', e, ?_⟩
        obtain ⟨f, a, l, g, w, t⟩ := r
        rw [e1] at g w t
        refine ⟨⟨f.extra.trans e6, f.aq.trans e7, f.seqs.trans e8, f.cfg.trans e1, f.dl.trans e9, f.queue.trans e5,
          f.osh.trans e3⟩, ⟨fun st h => a.old st (e4 ▸ h), fun st h => ?_⟩, e10 ▸ l, e4 ▸ g, ?_, t⟩
        · rcases a.new st h with h1 | h1
          · exact Or.inl (e4 ▸ h1)
          · exact Or.inr h1
        · rcases w with w | ⟨w0, acts, T', w1, w2, w3, w4, w5, w6, w7, w8⟩
          · exact Or.inl w
          · exact Or.inr ⟨w0, acts, T', w1, w2, w3, w4, w5, w6, w7, Nat.le_trans w8 e12⟩
      by_cases hreal : (c.1 == 0) = true
      · obtain ⟨s', e, r⟩ := key { s with tapDanceEager := some t.setExpired } rfl rfl rfl rfl rfl rfl rfl rfl rfl rfl
          (by rw [htde]; show 0 + 1 ≤ t.timeout + 1; omega)
          (fun t' h' => by
            have h2 : some t.setExpired = some t' := h'
            injection h2 with h2; subst h2
            exact ⟨tk.acts, Nat.zero_le _, tk.orig⟩)
        refine ⟨s', ?_, r⟩
        rw [FUEL_5]
        simp only [dequeue, htde, bind, Except.bind, ho, hlive', Bool.false_eq_true, if_false, hreal, if_true]
        exact e
      · obtain ⟨s', e, r⟩ := key s rfl rfl rfl rfl rfl rfl rfl rfl rfl rfl (Nat.le_refl _) ht
        refine ⟨s', ?_, r⟩
        rw [FUEL_5]
        simp only [dequeue, htde, bind, Except.bind, ho, hlive', Bool.false_eq_true, if_false, hreal]
        exact e

/-! ## the invariant and the potential -/

structure DInv (T d : Nat) (s : Layout) (down : List Coord) : Prop where
  extra : s.extraWaiting = []
  aq : s.actionQueue = []
  seqs : s.activeSequences = []
  states : ∀ st ∈ s.states, StOK st
  osh : s.oneshot.keys = []
  delay : s.oneshot.pauseInputProcessingDelay = d
  pause : s.oneshot.pauseInputProcessingTicks ≤ d
  lpt : s.lptTapHoldTimeout = 0
  cfg : CfgD s.cfg
  bound : DBound s.cfg T
  qlen : s.queue.length ≤ QUEUE_SIZE
  tde : ∀ t, s.tapDanceEager = some t → TOK T s.cfg.layers.length t
  /-- the undecided tap-dance key: well-formed, input not paused -/
  wok : ∀ w, s.waiting = some w → DWOK T s.cfg.layers.length w s.queue ∧ s.oneshot.pauseInputProcessingTicks = 0
  /-- the queue is physically possible from the keys `front` that are logically down; every state, and
  the undecided key, belongs to one of them -/
  phys : ∃ front, PhysQ front s.queue down ∧ (∀ st ∈ s.states, ∀ c, st.coord = some c → c ∈ front) ∧
    (∀ w, s.waiting = some w → w.coord ∈ front)

/-- a freshly created layout satisfies the invariant -/
theorem init_dinv (cfg : LCfg) (hc : CfgD cfg) (T : Nat) (hb : DBound cfg T) (tv2 dfl qth : Bool) (osd : Nat) :
    DInv T osd ({ cfg := cfg, transV2 := tv2, delegateToFirstLayer := dfl, quickTapHoldTimeout := qth,
                  oneshot := { pauseInputProcessingDelay := osd } } : Layout) [] :=
  ⟨rfl, rfl, rfl, fun _ h => (by cases h), rfl, rfl, Nat.zero_le _, rfl, hc, hb, Nat.zero_le _,
   fun _ h => (by cases h), fun _ h => (by cases h),
   ⟨[], fun _ => Iff.rfl, fun _ h => (by cases h), fun _ h => (by cases h)⟩⟩

theorem init_safe_D (cfg : LCfg) (hc : CfgSafeD cfg) (tv2 dfl qth : Bool) (osd : Nat) :
    SafeD ({ cfg := cfg, transV2 := tv2, delegateToFirstLayer := dfl, quickTapHoldTimeout := qth,
             oneshot := { pauseInputProcessingDelay := osd } } : Layout) :=
  ⟨hc, hc.layers, fun _ h => (by cases h), fun _ h => (by cases h)⟩

/-- what the undecided tap-dance key still costs: its countdown — or a whole new one plus the tick
that starts it, while the queue has changed since it was last read — the decision tick, and the input
pause that follows the decision -/
def dLoad (T d : Nat) (q : List Queued) : Option Waiting → Nat
  | some w => (if w.prevQueueLen = q.length % 256 then w.timeout else T + 1) + d + 1
  | none => 0

/-- an upper bound for the ticks until the layout is at rest: a queued press weighs `T + d + 3` (it may
start a lazy dance: `T + 1` ticks to its decision and the pause `d` after it — or an eager countdown of
`T + 1`), a queued release 1 -/
def dPot (T d : Nat) (s : Layout) : Nat :=
  queueLoad (T + d + 1) s.queue + dLoad T d s.queue s.waiting + s.oneshot.pauseInputProcessingTicks +
    tdeLoad s.tapDanceEager

theorem dLoad_none (T d : Nat) (q : List Queued) : dLoad T d q none = 0 := rfl

theorem dLoad_le {T d : Nat} (q : List Queued) (w : Waiting) (h : w.timeout ≤ T) : dLoad T d q (some w) ≤ T + d + 2 := by
  unfold dLoad
  simp only []
  split <;> omega

theorem dLoad_ge (T d : Nat) (q : List Queued) (w : Waiting) : d + 1 ≤ dLoad T d q (some w) := by
  unfold dLoad
  simp only []
  omega

theorem age_length (q : List Queued) : (age q).length = q.length := by simp [age]

theorem nPr_age (w : Waiting) : ∀ q : List Queued, C17.nPr w (age q) = C17.nPr w q := by
  intro q
  induction q with
  | nil => rfl
  | cons x rest ih =>
    have hx : C17.isPr w { x with since := min (x.since + 1) U16_MAX } = C17.isPr w x := rfl
    show C17.nPr w ({ x with since := min (x.since + 1) U16_MAX } :: age rest) = _
    cases hp : C17.isPr w x with
    | true => rw [nPr_cons_pr (hx.trans hp), nPr_cons_pr hp, ih]
    | false => rw [nPr_cons_other (hx.trans hp), nPr_cons_other hp, ih]

theorem nPr_append (w : Waiting) (q r : List Queued) : C17.nPr w (q ++ r) = C17.nPr w q + C17.nPr w r := by
  simp [C17.nPr, List.filter_append]

theorem nPr_takeWhile_le (w : Waiting) (p : Queued → Bool) (q : List Queued) :
    C17.nPr w (q.takeWhile p) ≤ C17.nPr w q :=
  ((List.takeWhile_prefix p).sublist.filter _).length_le

theorem queueLoad_sublist (d : Nat) {l1 l2 : List Queued} (h : l1.Sublist l2) : queueLoad d l1 ≤ queueLoad d l2 := by
  induction h with
  | slnil => exact Nat.le_refl _
  | cons x _ ih => rw [queueLoad_cons]; omega
  | cons_cons x _ ih => rw [queueLoad_cons, queueLoad_cons]; omega

/-- the eager countdown: one tick costs one, the bounds stay -/
theorem tdeTick_load (t : TDE) : tdeLoad (tdeTick t) + 1 ≤ tdeLoad (some t) := by
  unfold tdeTick
  split
  · show 0 + 1 ≤ t.timeout + 1; omega
  · rename_i h
    have h0 : t.timeout - 1 ≠ 0 := by
      intro h0
      apply h
      simp [TDE.isExpired, TDE.tick, h0]
    show (t.timeout - 1) + 1 + 1 ≤ t.timeout + 1
    omega

theorem tdeTick_tok {T L : Nat} {t t' : TDE} (h : TOK T L t) (ht : tdeTick t = some t') : TOK T L t' := by
  unfold tdeTick at ht
  split at ht
  · cases ht
  · injection ht with ht; subst ht
    exact ⟨h.acts, Nat.le_trans (Nat.sub_le _ _) h.timeout, h.orig⟩

theorem tickPre_D {T d : Nat} {s : Layout} {down : List Coord} (h : DInv T d s down) :
    tickPre s = { s with queue := age s.queue, lptTapHoldTimeout := s.lptTapHoldTimeout - 1,
                         tapDanceEager := s.tapDanceEager.bind tdeTick,
                         histKeys := histTick s.histKeys, histInputs := histTick s.histInputs } := by
  unfold tickPre
  cases ht : s.tapDanceEager with
  | none =>
    simp only []
    simp (disch := first | exact h.seqs | exact h.states) only [C04.processSequences_inert]
    simp only [Option.bind_none]
    rw [← ht]
    rfl
  | some t =>
    simp only []
    simp (disch := first | exact h.seqs | exact h.states) only [C04.processSequences_inert]
    rfl

theorem DInv.pre {T d : Nat} {s : Layout} {down : List Coord} (h : DInv T d s down) (hS : SafeD s) :
    DInv T d (tickPre s) down ∧ SafeD (tickPre s) ∧ (tickPre s).queue = age s.queue ∧
    (tickPre s).cfg = s.cfg ∧ (tickPre s).oneshot = s.oneshot ∧
    dPot T d (tickPre s) ≤ dPot T d s ∧ (s.tapDanceEager ≠ none → dPot T d (tickPre s) + 1 ≤ dPot T d s) := by
  rw [tickPre_D h]
  have hq : ∀ w, C17.nPr w (age s.queue) = C17.nPr w s.queue := fun w => nPr_age w s.queue
  obtain ⟨front, f1, f2, f3⟩ := h.phys
  refine ⟨⟨h.extra, h.aq, h.seqs, h.states, h.osh, h.delay, h.pause, ?_, h.cfg, h.bound,
    by simpa [age] using h.qlen, ?_, ?_, ⟨front, PhysQ_age _ _ _ f1, f2, f3⟩⟩,
    ⟨hS.cfg, hS.dl, hS.held, ?_⟩, rfl, rfl, rfl, ?_, ?_⟩
  · show s.lptTapHoldTimeout - 1 = 0
    rw [h.lpt]
  · intro t ht
    have ht' : s.tapDanceEager.bind tdeTick = some t := ht
    cases hs : s.tapDanceEager with
    | none => rw [hs] at ht'; cases ht'
    | some t0 =>
      rw [hs] at ht'
      exact tdeTick_tok (h.tde t0 hs) ht'
  · intro w hw
    obtain ⟨⟨⟨acts, T', k, c1, c2, c3, c4, c5⟩, w2⟩, w3⟩ := h.wok w hw
    exact ⟨⟨⟨acts, T', k, c1, c2, c3, c4, by show k - 1 ≤ C17.nPr w (age s.queue); rw [hq]; exact c5⟩, w2⟩, w3⟩
  · intro q hq' c hc
    have hq2 : q ∈ age s.queue := hq'
    obtain ⟨y, hy, hyq⟩ := List.mem_map.mp hq2
    exact hS.queue y hy c (by rw [← hc, ← hyq])
  · show queueLoad (T + d + 1) (age s.queue) + dLoad T d (age s.queue) s.waiting + s.oneshot.pauseInputProcessingTicks +
      tdeLoad (s.tapDanceEager.bind tdeTick) ≤ dPot T d s
    unfold dPot
    rw [queueLoad_age]
    have h1 : dLoad T d (age s.queue) s.waiting = dLoad T d s.queue s.waiting := by
      unfold dLoad; rw [age_length]
    rw [h1]
    cases hs : s.tapDanceEager with
    | none => exact Nat.le_refl _
    | some t0 => have := tdeTick_load t0; simp only [Option.bind_some]; omega
  · intro hne
    show queueLoad (T + d + 1) (age s.queue) + dLoad T d (age s.queue) s.waiting + s.oneshot.pauseInputProcessingTicks +
      tdeLoad (s.tapDanceEager.bind tdeTick) + 1 ≤ dPot T d s
    unfold dPot
    rw [queueLoad_age]
    have h1 : dLoad T d (age s.queue) s.waiting = dLoad T d s.queue s.waiting := by
      unfold dLoad; rw [age_length]
    rw [h1]
    cases hs : s.tapDanceEager with
    | none => exact absurd hs hne
    | some t0 => have := tdeTick_load t0; simp only [Option.bind_some]; omega

/-! ## the third stage of a tick -/

theorem decidesOn_some {w : Waiting} {len k n : Nat} {q : List Queued} (h : C17.decidesOn w len k q = some n) :
    n = k ∨ n ≤ C17.seenTaps w q := by
  unfold C17.decidesOn at h
  split at h
  · cases h
  · split at h
    · injection h with h; exact Or.inl h.symm
    · split at h
      · injection h with h; exact Or.inr (by rw [← h]; exact Nat.min_le_left _ _)
      · cases h

/-- an undecided tick of the `TapDance` arm: either the queue length is what it was when last read —
only the countdown moves — or the queue is read again: the count is what the queue shows and the
countdown restarts iff the count grew -/
theorem tickWtTd_undecided (w : Waiting) (acts : List Action) (T k : Nat) (q : List Queued)
    (h : C17.decidesOn w acts.length k q = none) :
    (q.length % 256 = w.prevQueueLen ∧ 0 < w.timeout ∧
      tickWtTd w acts T k q = .ok ({ w with prevQueueLen := q.length % 256, config := .tapDance acts T k }, q, none)) ∨
    (q.length % 256 ≠ w.prevQueueLen ∧ 0 < w.timeout ∧
      tickWtTd w acts T k q =
        .ok ({ w with prevQueueLen := q.length % 256,
                      timeout := if C17.seenTaps w q > k then T else w.timeout,
                      config := .tapDance acts T (C17.seenTaps w q) }, q, none)) := by
  unfold C17.decidesOn at h
  unfold tickWtTd
  rw [C17.handleTapDance_spec]
  by_cases h1 : (q.length % 256 == w.prevQueueLen && decide (w.timeout > 0)) = true
  · left
    simp only [h1, if_true]
    simp only [Bool.and_eq_true, decide_eq_true_eq, beq_iff_eq] at h1
    refine ⟨h1.1, h1.2, ?_⟩
    have : (if k > k then T else w.timeout) = w.timeout := by simp
    rw [this]
  · simp only [h1, Bool.false_eq_true, if_false] at h ⊢
    by_cases h2 : (w.timeout == 0) = true
    · simp only [h2, if_true] at h; cases h
    · simp only [h2, Bool.false_eq_true, if_false] at h ⊢
      by_cases h3 : (C17.interrupted w q || decide (C17.seenTaps w q ≥ acts.length)) = true
      · simp only [h3, if_true] at h; cases h
      · right
        simp only [h3, Bool.false_eq_true, if_false]
        have ht : 0 < w.timeout := by
          have : w.timeout ≠ 0 := by simpa using h2
          omega
        refine ⟨?_, ht, by first | rfl | trivial⟩
        intro heq
        apply h1
        simp [heq, ht]

theorem tickMain_td_undecided (s : Layout) (w : Waiting) (acts : List Action) (T k : Nat)
    (hw : s.waiting = some w) (hc : w.config = .tapDance acts T k) (w' : Waiting)
    (he : tickWtTd (C17.cd w) acts T k s.queue = .ok (w', s.queue, none)) :
    tickMain s = .ok ({ s with waiting := some w' }, .noEvent) := by
  unfold tickMain
  simp only [hw, C17.tickWt_td w acts T k hc, he, Option.map_none, applyWaitingAction]

theorem nPr_coord_congr {w w' : Waiting} (h : w'.coord = w.coord) (q : List Queued) : C17.nPr w' q = C17.nPr w q := by
  have : C17.isPr w' = C17.isPr w := by
    funext x; simp only [C17.isPr, isCorrespondingPress, h]
  unfold C17.nPr
  rw [this]

/-- **the third stage of a tick**: it never crashes, raises no custom event, keeps the invariant, and
the potential goes down unless nothing is left for this stage to do -/
theorem DInv.main {T d : Nat} {s : Layout} {down : List Coord} (h : DInv T d s down) (hS : SafeD s) :
    ∃ s2, tickMain s = .ok (s2, .noEvent) ∧ DInv T d s2 down ∧ SafeD s2 ∧ s2.cfg = s.cfg ∧
      s2.queue.length ≤ s.queue.length ∧
      (dPot T d s2 + 1 ≤ dPot T d s ∨
        (s.queue = [] ∧ s.waiting = none ∧ s.oneshot.pauseInputProcessingTicks = 0 ∧ s2 = s)) := by
  obtain ⟨front, f1, f2, f3⟩ := h.phys
  cases hw : s.waiting with
  | some w =>
    obtain ⟨⟨⟨acts, T', k, c1, c2, c3, c4, c5⟩, wto⟩, wp⟩ := h.wok w hw
    have hfront := f3 w hw
    cases hd : C17.decidesOn (C17.cd w) acts.length k s.queue with
    | none =>
      have key : ∀ w' : Waiting, tickWtTd (C17.cd w) acts T' k s.queue = .ok (w', s.queue, none) →
          w'.coord = w.coord → (∃ k', w'.config = .tapDance acts T' k' ∧ k' - 1 ≤ C17.nPr w s.queue) →
          w'.timeout ≤ T → dLoad T d s.queue (some w') + 1 ≤ dLoad T d s.queue (some w) →
          ∃ s2, tickMain s = .ok (s2, .noEvent) ∧ DInv T d s2 down ∧ SafeD s2 ∧ s2.cfg = s.cfg ∧
            s2.queue.length ≤ s.queue.length ∧
            (dPot T d s2 + 1 ≤ dPot T d s ∨
              (s.queue = [] ∧ some w = none ∧ s.oneshot.pauseInputProcessingTicks = 0 ∧ s2 = s)) := by
        intro w' he hco ⟨k', hk1, hk2⟩ hto hload
        refine ⟨{ s with waiting := some w' }, tickMain_td_undecided s w acts T' k hw c1 w' he,
          ⟨h.extra, h.aq, h.seqs, h.states, h.osh, h.delay, h.pause, h.lpt, h.cfg, h.bound, h.qlen, h.tde, ?_,
            ⟨front, f1, f2, ?_⟩⟩, ⟨hS.cfg, hS.dl, hS.held, hS.queue⟩, rfl, Nat.le_refl _, Or.inl ?_⟩
        · intro w'' hw''
          have : some w' = some w'' := hw''
          injection this with this; subst this
          exact ⟨⟨⟨acts, T', k', hk1, c2, c3, c4, by rw [nPr_coord_congr hco]; exact hk2⟩, hto⟩, wp⟩
        · intro w'' hw''
          have : some w' = some w'' := hw''
          injection this with this; subst this
          rw [hco]; exact hfront
        · unfold dPot
          rw [hw]
          show queueLoad (T + d + 1) s.queue + dLoad T d s.queue (some w') + s.oneshot.pauseInputProcessingTicks +
            tdeLoad s.tapDanceEager + 1 ≤ _
          omega
      rcases tickWtTd_undecided (C17.cd w) acts T' k s.queue hd with ⟨e1, e2, e3⟩ | ⟨e1, e2, e3⟩
      · have e1' : s.queue.length % 256 = w.prevQueueLen := e1
        have e2' : 0 < w.timeout - 1 := e2
        refine key _ e3 rfl ⟨k, rfl, c5⟩ (Nat.le_trans (Nat.sub_le _ _) wto) ?_
        unfold dLoad
        simp only []
        rw [if_pos trivial, if_pos e1'.symm]
        show w.timeout - 1 + d + 1 + 1 ≤ _
        omega
      · have e1' : s.queue.length % 256 ≠ w.prevQueueLen := e1
        have hle : (if C17.seenTaps (C17.cd w) s.queue > k then T' else (C17.cd w).timeout) ≤ T := by
          split
          · exact c4
          · exact Nat.le_trans (Nat.sub_le _ _) wto
        refine key _ e3 rfl ⟨_, rfl, ?_⟩ hle ?_
        · have := nPr_takeWhile_le w (fun x => !C17.otherPress w x) s.queue
          show 1 + C17.nPr w (s.queue.takeWhile fun x => !C17.otherPress w x) - 1 ≤ C17.nPr w s.queue
          omega
        · unfold dLoad
          simp only []
          rw [if_pos trivial, if_neg (show ¬ (w.prevQueueLen = s.queue.length % 256) from fun hh => e1' hh.symm)]
          omega
    | some n =>
      rcases C17.lazy_tick_cases s w acts T' k hw c1 with ⟨hn, _⟩ | ⟨n', hn', hrest⟩
      · rw [hd] at hn; cases hn
      · rw [hd] at hn'
        injection hn' with hn'; subst hn'
        rcases hrest with ⟨a, ha, ht⟩ | ⟨he, _⟩
        · obtain ⟨a', ha', hmem⟩ := C17.tdPick_some c2 n
          rw [ha] at ha'
          injection ha' with ha'; subst ha'
          have hok := c3 a hmem
          have hn1 : n - 1 ≤ C17.nPr w s.queue := by
            rcases decidesOn_some hd with hh | hh
            · rw [hh]; exact c5
            · have := nPr_takeWhile_le w (fun x => !C17.otherPress w x) s.queue
              have hs : C17.seenTaps (C17.cd w) s.queue = 1 + C17.nPr w (s.queue.takeWhile fun x => !C17.otherPress w x) := rfl
              omega
          rw [C17.FUEL_two, doAction_simple 3998 _ a hok.1] at ht
          simp only [] at ht
          obtain ⟨p1, p2, p3, p4⟩ := prelude_spec ({ s with waiting := none, queue := evictTaps w n s.queue } : Layout) w.coord
          have sp := simpleArm_spec (prelude ({ s with waiting := none, queue := evictTaps w n s.queue } : Layout) w.coord)
            a hok.1 w.coord false
          have r : PressD T w.coord ({ s with waiting := none, queue := evictTaps w n s.queue } : Layout)
              (simpleArm (prelude ({ s with waiting := none, queue := evictTaps w n s.queue } : Layout) w.coord) a w.coord false) :=
            (pressD_arm T _ _ a hok.1 (by rw [p1.cfg]; exact hok.2) w.coord (FrameD.refl _) (Adds.refl _ _) (Nat.le_refl _)
              (GrowsL.refl _ _) p1.waiting (by rw [p2]; exact h.osh) (by rw [p1.cfg, p1.tde]; exact h.tde)).after_prelude
          have hw1 := sp.frame.waiting.trans p1.waiting
          have ht1 := sp.frame.tde.trans p1.tde
          generalize simpleArm (prelude ({ s with waiting := none, queue := evictTaps w n s.queue } : Layout) w.coord)
            a w.coord false = s1 at ht r hw1 ht1
          have hq1 : s1.queue = evictTaps w n s.queue := r.frame.queue
          have ho1 : s1.oneshot = s.oneshot := r.frame.osh
          have hcf : s1.cfg = s.cfg := r.frame.cfg
          have hw1' : s1.waiting = none := hw1
          have ht1' : s1.tapDanceEager = s.tapDanceEager := ht1
          have hsub := C17.evictTaps_sublist w n s.queue
          refine ⟨tapPost s1, ht, ⟨r.frame.extra.trans h.extra, r.frame.aq.trans h.aq, r.frame.seqs.trans h.seqs, ?_, ?_, ?_, ?_,
            ?_, ?_, ?_, ?_, ?_, ?_, ⟨front, ?_, ?_, ?_⟩⟩, ⟨?_, ?_, ?_, ?_⟩, hcf, ?_, Or.inl ?_⟩
          · intro st hst
            rcases r.adds.new st hst with g | g
            · exact h.states st g
            · exact g.2
          · show s1.oneshot.keys = []; rw [ho1]; exact h.osh
          · show s1.oneshot.pauseInputProcessingDelay = d; rw [ho1]; exact h.delay
          · show s1.oneshot.pauseInputProcessingDelay ≤ d; rw [ho1, h.delay]; exact Nat.le_refl _
          · have := r.lpt
            have h0 : s.lptTapHoldTimeout = 0 := h.lpt
            show s1.lptTapHoldTimeout = 0
            have h1 : s1.lptTapHoldTimeout ≤ s.lptTapHoldTimeout := this
            omega
          · show CfgD s1.cfg; rw [hcf]; exact h.cfg
          · show DBound s1.cfg T; rw [hcf]; exact h.bound
          · show s1.queue.length ≤ QUEUE_SIZE; rw [hq1]; exact Nat.le_trans hsub.length_le h.qlen
          · intro t ht'
            show TOK T s1.cfg.layers.length t
            rw [hcf]; exact r.tde t ht'
          · intro w' hw'
            have : s1.waiting = some w' := hw'
            rw [hw1'] at this; cases this
          · show PhysQ front s1.queue down
            rw [hq1]; exact PhysQ_evictTaps w s.queue front down hfront f1 n hn1
          · intro st hst c hc
            rcases r.adds.new st hst with g | g
            · exact f2 st g c hc
            · have : c = w.coord := by
                have := g.1; rw [hc] at this; injection this
              rw [this]; exact hfront
          · intro w' hw'
            have : s1.waiting = some w' := hw'
            rw [hw1'] at this; cases this
          · show CfgSafeD s1.cfg; rw [hcf]; exact hS.cfg
          · show s1.defaultLayer < s1.cfg.layers.length; rw [hcf, r.frame.dl]; exact hS.dl
          · intro st hst v hv
            show v < s1.cfg.layers.length
            rw [hcf]
            rcases r.grows st hst with g | g
            · exact hS.held st g v hv
            · exact g v hv
          · intro q hq c hc
            show CoordOK s1.cfg c
            rw [hcf]
            have : q ∈ s1.queue := hq
            rw [hq1] at this
            exact hS.queue q (hsub.subset this) c hc
          · show s1.queue.length ≤ s.queue.length; rw [hq1]; exact hsub.length_le
          · unfold dPot
            rw [hw]
            show queueLoad (T + d + 1) s1.queue + dLoad T d s1.queue s1.waiting + s1.oneshot.pauseInputProcessingDelay +
              tdeLoad s1.tapDanceEager + 1 ≤ _
            rw [hq1, hw1', ht1', ho1, dLoad_none, h.delay, wp]
            have := queueLoad_sublist (T + d + 1) hsub
            have := dLoad_ge T d s.queue w
            omega
        · exact absurd he c2
  | none =>
    have hwn : ∀ (t : Layout), t.waiting = none → ∀ w, t.waiting = some w →
        DWOK T t.cfg.layers.length w t.queue ∧ t.oneshot.pauseInputProcessingTicks = 0 := by
      intro t ht w hw'; rw [ht] at hw'; cases hw'
    have hfn : ∀ (t : Layout) (fr : List Coord), t.waiting = none → ∀ w, t.waiting = some w → w.coord ∈ fr := by
      intro t fr ht w hw'; rw [ht] at hw'; cases hw'
    have hP0 : dPot T d s = queueLoad (T + d + 1) s.queue + 0 + s.oneshot.pauseInputProcessingTicks +
        tdeLoad s.tapDanceEager := by
      unfold dPot; rw [hw, dLoad_none]
    by_cases hp : 0 < s.oneshot.pauseInputProcessingTicks
    · rw [tickMain_paused hw h.extra hp]
      refine ⟨_, rfl, ⟨h.extra, h.aq, h.seqs, h.states, h.osh, h.delay, ?_, h.lpt, h.cfg, h.bound, h.qlen, h.tde,
        hwn _ hw, ⟨front, f1, f2, hfn _ front hw⟩⟩, ⟨hS.cfg, hS.dl, hS.held, hS.queue⟩, rfl, Nat.le_refl _, Or.inl ?_⟩
      · show s.oneshot.pauseInputProcessingTicks - 1 ≤ d
        have := h.pause; omega
      · rw [hP0]
        show queueLoad (T + d + 1) s.queue + dLoad T d s.queue s.waiting + (s.oneshot.pauseInputProcessingTicks - 1) +
          tdeLoad s.tapDanceEager + 1 ≤ _
        rw [hw, dLoad_none]; omega
    · have hp0 : s.oneshot.pauseInputProcessingTicks = 0 := by omega
      cases hq : s.queue with
      | nil =>
        rw [tickMain_empty hw h.extra hp0 hq]
        exact ⟨s, rfl, h, hS, rfl, by rw [hq]; exact Nat.le_refl _, Or.inr ⟨rfl, rfl, hp0, rfl⟩⟩
      | cons q rest =>
        rw [tickMain_pops hw h.extra hp0 q rest hq]
        have hlen : rest.length ≤ QUEUE_SIZE := by
          have := h.qlen; rw [hq] at this; simp only [List.length_cons] at this; omega
        have hrestq : ∀ x ∈ rest, ∀ c, x.ev = .press c → CoordOK s.cfg c :=
          fun x hx => hS.queue x (by rw [hq]; exact List.mem_cons_of_mem _ hx)
        rw [hq] at f1
        obtain ⟨ev, n⟩ := q
        cases ev with
        | release c =>
          rw [dequeue_release_calm (s := s.setQueue rest) h.states c n,
            handleRelease_inactive (s.setQueue rest).oneshot c h.osh]
          simp only [afterRelease, if_true]
          unfold PhysQ at f1
          simp only [] at f1
          refine ⟨_, rfl, ⟨h.extra, h.aq, h.seqs, C04.stok_filter _ h.states, h.osh, h.delay, h.pause, h.lpt, h.cfg, h.bound,
            hlen, h.tde, hwn _ hw, ⟨front.filter (· != c), f1.2, ?_, hfn _ _ hw⟩⟩,
            ⟨hS.cfg, hS.dl, fun st hst => hS.held st (List.mem_filter.mp hst).1, hrestq⟩, rfl, by simp [Layout.setQueue],
            Or.inl ?_⟩
          · intro st hst c' hc'
            obtain ⟨m1, m2⟩ := List.mem_filter.mp hst
            have hne : c' ≠ c := by
              intro hcc; subst hcc; simp [hc'] at m2
            exact List.mem_filter.mpr ⟨f2 st m1 c' hc', by simpa using hne⟩
          · rw [hP0, hq, queueLoad_cons]
            show queueLoad (T + d + 1) rest + dLoad T d rest s.waiting + s.oneshot.pauseInputProcessingTicks +
              tdeLoad s.tapDanceEager + 1 ≤ _
            rw [hw, dLoad_none]
            have : evW (T + d + 1) ⟨.release c, n⟩ = 1 := rfl
            omega
        | press c =>
          have hco : CoordOK s.cfg c := hS.queue ⟨.press c, n⟩ (by rw [hq]; exact List.mem_cons_self) c rfl
          obtain ⟨s2, e2, r⟩ := dequeue_press_D (T := T) (s := s.setQueue rest) h.cfg h.bound
            ⟨hS.cfg, hS.dl, hS.held, hrestq⟩ hw h.osh h.tde c hco n
          unfold PhysQ at f1
          simp only [] at f1
          have hq2 : s2.queue = rest := r.frame.queue
          have ho2 : s2.oneshot = s.oneshot := r.frame.osh
          have hcf : s2.cfg = s.cfg := r.frame.cfg
          refine ⟨s2, e2, ⟨r.frame.extra.trans h.extra, r.frame.aq.trans h.aq, r.frame.seqs.trans h.seqs, ?_,
            by rw [ho2]; exact h.osh, by rw [ho2]; exact h.delay, by rw [ho2]; exact h.pause, ?_, hcf ▸ h.cfg,
            hcf ▸ h.bound, hq2 ▸ hlen, ?_, ?_, ⟨c :: front, hq2 ▸ f1.2, ?_, ?_⟩⟩, ⟨hcf ▸ hS.cfg, ?_, ?_, ?_⟩, hcf,
            by rw [hq2]; simp, Or.inl ?_⟩
          · intro st hst
            rcases r.adds.new st hst with g | g
            · exact h.states st g
            · exact g.2
          · have := r.lpt
            have h0 : (s.setQueue rest).lptTapHoldTimeout = 0 := h.lpt
            omega
          · intro t ht'
            rw [hcf]; exact r.tde t ht'
          · intro w' hw'
            rcases r.waiting with g | ⟨w0, acts, T', g1, g2, g3, g4, g5, g6, g7, g8⟩
            · rw [g] at hw'; cases hw'
            · rw [g1] at hw'
              injection hw' with hw'; subst hw'
              rw [hcf]
              exact ⟨⟨⟨acts, T', 1, g3, g4, g5, g6, Nat.zero_le _⟩, by rw [g7]; exact g6⟩, by rw [ho2]; exact hp0⟩
          · intro st hst c' hc'
            rcases r.adds.new st hst with g | g
            · exact List.mem_cons_of_mem _ (f2 st g c' hc')
            · have : c' = c := by
                have := g.1; rw [hc'] at this; injection this
              rw [this]; exact List.mem_cons_self
          · intro w' hw'
            rcases r.waiting with g | ⟨w0, acts, T', g1, g2, g3, g4, g5, g6, g7, g8⟩
            · rw [g] at hw'; cases hw'
            · rw [g1] at hw'
              injection hw' with hw'; subst hw'
              rw [g2]; exact List.mem_cons_self
          · rw [hcf, r.frame.dl]; exact hS.dl
          · intro st hst v hv
            rw [hcf]
            rcases r.grows st hst with g | g
            · exact hS.held st g v hv
            · exact g v hv
          · intro x hx c' hc'
            rw [hcf]
            rw [hq2] at hx
            exact hrestq x hx c' hc'
          · rw [hP0, hq, queueLoad_cons]
            unfold dPot
            rw [hq2, ho2, hp0]
            have hw1 : evW (T + d + 1) ⟨.press c, n⟩ = T + d + 1 + 2 := rfl
            rcases r.waiting with g | ⟨w0, acts, T', g1, g2, g3, g4, g5, g6, g7, g8⟩
            · rw [g, dLoad_none]
              have : tdeLoad s2.tapDanceEager ≤ T + 1 := by
                cases ht2 : s2.tapDanceEager with
                | none => exact Nat.zero_le _
                | some t => have := (r.tde t ht2).timeout; show t.timeout + 1 ≤ T + 1; omega
              omega
            · rw [g1]
              have := dLoad_le (T := T) (d := d) rest w0 (by rw [g7]; exact g6)
              have h8 : tdeLoad s2.tapDanceEager ≤ tdeLoad s.tapDanceEager := g8
              omega

/-! ## a whole tick, an event, runs -/

/-- **a tick on the tap-dance fragment** never crashes, raises no custom event, keeps the invariant and
the no-crash conditions, and lowers the potential by one (it stays at zero once it is there) -/
theorem DInv.tick {T d : Nat} {s : Layout} {down : List Coord} (h : DInv T d s down) (hS : SafeD s) :
    ∃ s', tick s = .ok (s', .noEvent) ∧ DInv T d s' down ∧ SafeD s' ∧ s'.cfg = s.cfg ∧
      s'.queue.length ≤ s.queue.length ∧ dPot T d s' ≤ dPot T d s - 1 := by
  obtain ⟨i0, S0, q0, c0, o0, p0, p1⟩ := h.pre hS
  have e1 : tickOneshot (tickPre s) = .ok (tickPre s, .noEvent) := tickOneshot_inactive i0.osh
  obtain ⟨s2, hm, i2, S2, c2, l2, pot⟩ := i0.main S0
  refine ⟨s2, ?_, i2, S2, c2.trans c0, by rw [q0, age_length] at l2; exact l2, ?_⟩
  · unfold KVerif.L.tick
    simp only [h.aq, e1, hm, C04.processExtraWaitings_inert i2.extra, C04.processSequenceCustom_inert i2.states]
    rfl
  · rcases pot with g | ⟨g1, g2, g3, g4⟩
    · omega
    · subst g4
      by_cases hte : s.tapDanceEager = none
      · have hz : dPot T d (tickPre s) = 0 := by
          unfold dPot
          rw [g1, g2, g3, C17.tickPre_tde, hte]
          rfl
        omega
      · have := p1 hte
        omega

theorem DInv.input {T d : Nat} {s : Layout} {down : List Coord} (h : DInv T d s down) (hS : SafeD s) (e : Ev)
    (hq : s.queue.length < QUEUE_SIZE) (hco : ∀ c, e = .press c → CoordOK s.cfg c)
    (hph : possible down e) :
    ∃ s', s.event e = .ok s' ∧ DInv T d s' (downAfter down (.ev e)) ∧ SafeD s' ∧
      s'.queue.length = s.queue.length + 1 ∧ s'.cfg = s.cfg := by
  unfold Layout.event
  rw [FUEL_succ]
  obtain ⟨s', e1, e2, e3, e4, e5⟩ := event_room 3999 s e hq
  have e6 := event_room_lpt 3999 s e hq s' e1
  obtain ⟨front, f1, f2, f3⟩ := h.phys
  refine ⟨s', e1, ⟨e5.extra.trans h.extra, e5.aq.trans h.aq, e5.seqs.trans h.seqs, e3 ▸ h.states, e4 ▸ h.osh,
    e4 ▸ h.delay, e4 ▸ h.pause, e6.trans h.lpt, e5.cfg ▸ h.cfg, e5.cfg ▸ h.bound,
    by rw [e2]; simp only [List.length_append, List.length_cons, List.length_nil]; omega, ?_, ?_,
    ⟨front, by rw [e2]; exact PhysQ_append e 0 _ _ _ f1 hph, by rw [e3]; exact f2, by rw [e5.waiting]; exact f3⟩⟩,
    ⟨e5.cfg ▸ hS.cfg, by rw [e5.cfg, e5.dl]; exact hS.dl, by rw [e3, e5.cfg]; exact hS.held, ?_⟩,
    by rw [e2]; simp, e5.cfg⟩
  · intro t ht
    rw [e5.tde] at ht
    rw [e5.cfg]; exact h.tde t ht
  · intro w hw
    rw [e5.waiting] at hw
    obtain ⟨⟨⟨acts, T', k, c1, c2, c3, c4, c5⟩, w2⟩, w3⟩ := h.wok w hw
    rw [e5.cfg, e2, e4]
    exact ⟨⟨⟨acts, T', k, c1, c2, c3, c4, by rw [nPr_append]; omega⟩, w2⟩, w3⟩
  · intro q hq' c hc
    rw [e5.cfg]
    rw [e2] at hq'
    rcases List.mem_append.mp hq' with hq' | hq'
    · exact hS.queue q hq' c hc
    · simp only [List.mem_cons, List.mem_nil_iff, or_false] at hq'
      subst hq'
      exact hco c hc

/-- **every physically possible history** whose presses lie inside the layer tables keeps the invariant
and never ends in a crash: either an event arrives while 32 are pending (`none`) or the run returns a
state, and the set of keys physically down is `downs` -/
theorem run_D {T d : Nat} : ∀ (ins : List In) (s : Layout) (down : List Coord), DInv T d s down → SafeD s →
    PressesOK s.cfg ins → physical down ins = true →
    run s down ins = none ∨
      ∃ s', run s down ins = some (.ok (s', downs down ins)) ∧ DInv T d s' (downs down ins) ∧ SafeD s' := by
  intro ins
  induction ins with
  | nil => intro s down h hS _ _; exact Or.inr ⟨s, rfl, h, hS⟩
  | cons i rest ih =>
    intro s down h hS hP hph
    simp only [run, downs]
    split
    · exact Or.inl rfl
    · rename_i hov
      cases i with
      | ev e =>
        have hq : s.queue.length < QUEUE_SIZE := by
          simp only [overflows, decide_eq_true_eq] at hov; omega
        have hph' : possible down e ∧ physical (downAfter down (.ev e)) rest = true := by
          cases e with
          | press c =>
            simp only [physical, Bool.and_eq_true, Bool.not_eq_true', List.contains_eq_mem,
              decide_eq_false_iff_not] at hph
            exact ⟨hph.1, hph.2⟩
          | release c =>
            simp only [physical, Bool.and_eq_true, List.contains_eq_mem, decide_eq_true_eq] at hph
            exact ⟨hph.1, hph.2⟩
        obtain ⟨s1, e1, i1, S1, _, c1⟩ := h.input hS e hq
          (fun c hc => hP c (by rw [hc]; exact List.mem_cons_self)) hph'.1
        simp only [stepIn, e1]
        exact ih s1 _ i1 S1 (fun c hc => c1 ▸ hP c (List.mem_cons_of_mem _ hc)) hph'.2
      | tick =>
        obtain ⟨s1, e1, i1, S1, c1, _⟩ := h.tick hS
        simp only [stepIn, e1]
        exact ih s1 _ i1 S1 (fun c hc => c1 ▸ hP c (List.mem_cons_of_mem _ hc)) hph

/-- a history of at most 32 events in all never meets a full queue -/
theorem run_defined_D {T d : Nat} : ∀ (ins : List In) (s : Layout) (down : List Coord), DInv T d s down → SafeD s →
    PressesOK s.cfg ins → physical down ins = true → evCount ins + s.queue.length ≤ QUEUE_SIZE →
    run s down ins ≠ none := by
  intro ins
  induction ins with
  | nil => intro s down _ _ _ _ _ hr; cases hr
  | cons i rest ih =>
    intro s down h hS hP hph hn
    cases i with
    | ev e =>
      simp only [evCount] at hn
      have hq : s.queue.length < QUEUE_SIZE := by omega
      have hph' : possible down e ∧ physical (downAfter down (.ev e)) rest = true := by
        cases e with
        | press c =>
          simp only [physical, Bool.and_eq_true, Bool.not_eq_true', List.contains_eq_mem,
            decide_eq_false_iff_not] at hph
          exact ⟨hph.1, hph.2⟩
        | release c =>
          simp only [physical, Bool.and_eq_true, List.contains_eq_mem, decide_eq_true_eq] at hph
          exact ⟨hph.1, hph.2⟩
      obtain ⟨s1, e1, i1, S1, q1, c1⟩ := h.input hS e hq
        (fun c hc => hP c (by rw [hc]; exact List.mem_cons_self)) hph'.1
      have hov : overflows s (.ev e) = false := by
        simp only [overflows, decide_eq_false_iff_not]; omega
      simp only [run, hov, Bool.false_eq_true, if_false, stepIn, e1]
      exact ih s1 _ i1 S1 (fun c hc => c1 ▸ hP c (List.mem_cons_of_mem _ hc)) hph'.2 (by omega)
    | tick =>
      simp only [evCount] at hn
      obtain ⟨s1, e1, i1, S1, c1, l1, _⟩ := h.tick hS
      simp only [run, overflows, Bool.false_eq_true, if_false, stepIn, e1]
      exact ih s1 _ i1 S1 (fun c hc => c1 ▸ hP c (List.mem_cons_of_mem _ hc)) hph (by omega)

/-- `N` ticks without input run without a crash, keep the invariant, and lower the potential by `N`
(or to zero) -/
theorem quiet_D {T d : Nat} : ∀ (N : Nat) (s : Layout) (down : List Coord), DInv T d s down → SafeD s →
    ∃ s', run s down (List.replicate N .tick) = some (.ok (s', down)) ∧ DInv T d s' down ∧ SafeD s' ∧
      dPot T d s' ≤ dPot T d s - N := by
  intro N
  induction N with
  | zero => intro s down h hS; exact ⟨s, rfl, h, hS, Nat.le_refl _⟩
  | succ N ih =>
    intro s down h hS
    obtain ⟨s1, e1, i1, S1, _, _, p1⟩ := h.tick hS
    obtain ⟨s', e', i', S', p'⟩ := ih s1 down i1 S1
    refine ⟨s', ?_, i', S', by omega⟩
    simp only [List.replicate, run, overflows, Bool.false_eq_true, if_false, stepIn, e1, downAfter]
    exact e'

theorem dPot_le {T d : Nat} {s : Layout} {down : List Coord} (h : DInv T d s down) :
    dPot T d s ≤ (T + d + 3) * s.queue.length + 2 * T + d + 3 := by
  unfold dPot
  have h1 := queueLoad_le (T + d + 1) s.queue
  have h2 : dLoad T d s.queue s.waiting + s.oneshot.pauseInputProcessingTicks ≤ T + d + 2 := by
    cases hw : s.waiting with
    | none => rw [dLoad_none]; have := h.pause; omega
    | some w =>
      obtain ⟨w1, w2⟩ := h.wok w hw
      have := dLoad_le (T := T) (d := d) s.queue w w1.timeout
      omega
  have h3 : tdeLoad s.tapDanceEager ≤ T + 1 := by
    cases ht : s.tapDanceEager with
    | none => exact Nat.zero_le _
    | some t => have := (h.tde t ht).timeout; show t.timeout + 1 ≤ T + 1; omega
  have h4 : (T + d + 1 + 2) * s.queue.length = (T + d + 3) * s.queue.length := by rfl
  omega

/-- at potential zero with no key down the layout is at rest -/
theorem DInv.atRest {T d : Nat} {s : Layout} (h : DInv T d s []) (hz : dPot T d s = 0) : LayoutAtRest s := by
  unfold dPot at hz
  have z1 : s.queue = [] := queueLoad_zero (T + d + 1) _ (by omega)
  have z2 : s.waiting = none := by
    cases hw : s.waiting with
    | none => rfl
    | some w => rw [hw] at hz; have := dLoad_ge T d s.queue w; omega
  have z3 : s.oneshot.pauseInputProcessingTicks = 0 := by omega
  have z4 : s.tapDanceEager = none := by
    cases ht : s.tapDanceEager with
    | none => rfl
    | some t => rw [ht] at hz; simp only [tdeLoad] at hz; omega
  refine ⟨?_, z1, z2, h.extra, h.lpt, h.osh, z3, h.seqs, z4, h.aq⟩
  obtain ⟨front, f1, f2, _⟩ := h.phys
  rw [z1] at f1
  apply List.eq_nil_iff_forall_not_mem.mpr
  intro st hst
  have hok := h.states st hst
  have hco : ∃ c, st.coord = some c := by
    cases st <;> simp only [C04.StOK] at hok <;> first | exact ⟨_, rfl⟩ | exact absurd hok id
  obtain ⟨c, hc⟩ := hco
  have := (f1 c).mp (f2 st hst c hc)
  cases this

/-! ## why the history must be physically possible -/

/-- a quiet layout keeps its states for ever -/
theorem quiet_forever : ∀ (N : Nat) (l : Layout), C07.QuietLayout l →
    ∃ l', run l [] (List.replicate N .tick) = some (.ok (l', [])) ∧ l'.states = l.states := by
  intro N
  induction N with
  | zero => intro l _; exact ⟨l, rfl, rfl⟩
  | succ N ih =>
    intro l h
    obtain ⟨l1, e1, st1, _, _, _, _, _, _, _, _, _, q1⟩ := C07.layout_tick_silent_when_quiet l h
    obtain ⟨l', e', st'⟩ := ih l1 q1
    refine ⟨l', ?_, st'.trans st1⟩
    simp only [List.replicate, run, overflows, Bool.false_eq_true, if_false, stepIn, e1, downAfter]
    exact e'

/-- the dance key pressed a second time without having been released, then released once: the press
and the release are both evicted as the second tap -/
theorem evict_double_press (w : Waiting) (n1 n2 : Nat) :
    evictTaps w 2 [⟨.press w.coord, n1⟩, ⟨.release w.coord, n2⟩] = [] := by
  simp [evictTaps, evictSameCoord, isCorrespondingRelease, isCorrespondingPress]

/-- the tick that decides such a dance on two taps, the second action a plain key: the key is pressed at
the coordinate, nothing is left in the queue that would release it, and the layout is quiet -/
theorem double_press_tick (s : Layout) (w : Waiting) (acts : List Action) (T k : Nat) (kc : KeyCode) (n1 n2 : Nat)
    (hw : s.waiting = some w) (hc : w.config = .tapDance acts T k)
    (hq : s.queue = [⟨.press w.coord, n1⟩, ⟨.release w.coord, n2⟩])
    (hd : C17.decidesOn (C17.cd w) acts.length k s.queue = some 2) (hp : tdPick acts 2 = some (.keyCode kc))
    (hst : s.states = []) (hex : s.extraWaiting = []) (hk : s.oneshot.keys = [])
    (hdl : s.oneshot.pauseInputProcessingDelay = 0) (hsq : s.activeSequences = []) (hte : s.tapDanceEager = none)
    (haq : s.actionQueue = []) :
    ∃ s', tickMain s = .ok (s', .noEvent) ∧ s'.states = [.normalKey kc w.coord 0] ∧ C07.QuietLayout s' := by
  rcases C17.lazy_tick_cases s w acts T k hw hc with ⟨hn, _⟩ | ⟨n', hn', hrest⟩
  · rw [hd] at hn; cases hn
  · rw [hd] at hn'
    injection hn' with hn'; subst hn'
    rcases hrest with ⟨a, ha, ht⟩ | ⟨he, _⟩
    · rw [hp] at ha
      injection ha with ha; subst ha
      rw [C17.FUEL_two, doAction_simple 3998 _ (.keyCode kc) trivial] at ht
      simp only [] at ht
      obtain ⟨p1, p2, p3, p4⟩ := prelude_spec ({ s with waiting := none, queue := evictTaps w 2 s.queue } : Layout) w.coord
      have sp := simpleArm_spec (prelude ({ s with waiting := none, queue := evictTaps w 2 s.queue } : Layout) w.coord)
        (.keyCode kc) trivial w.coord false
      have hstates := (C17.armKeyCode_fields (prelude ({ s with waiting := none, queue := evictTaps w 2 s.queue } : Layout) w.coord)
        (.keyCode kc) kc w.coord false).2.2.2.2
      have ho : (simpleArm (prelude ({ s with waiting := none, queue := evictTaps w 2 s.queue } : Layout) w.coord)
          (.keyCode kc) w.coord false).oneshot = s.oneshot := by
        rw [sp.osh]
        simp only [Bool.false_eq_true, if_false]
        rw [handlePress_inactive _ _ (by rw [p2]; exact hk), p2]
      have hs1 : (simpleArm (prelude ({ s with waiting := none, queue := evictTaps w 2 s.queue } : Layout) w.coord)
          (.keyCode kc) w.coord false).states = [.normalKey kc w.coord 0] := by
        show (armKeyCode _ _ _ _ _).states = _
        rw [hstates, p4]
        show pushCap STATES_CAP (s.states.filter _) _ = _
        rw [hst]
        rfl
      have hq1 : (simpleArm (prelude ({ s with waiting := none, queue := evictTaps w 2 s.queue } : Layout) w.coord)
          (.keyCode kc) w.coord false).queue = [] := by
        rw [sp.queue, p3]
        show evictTaps w 2 s.queue = []
        rw [hq]; exact evict_double_press w n1 n2
      have fr := p1.trans sp.frame
      generalize simpleArm (prelude ({ s with waiting := none, queue := evictTaps w 2 s.queue } : Layout) w.coord)
        (.keyCode kc) w.coord false = s1 at ht ho hs1 hq1 fr
      refine ⟨tapPost s1, ht, hs1, ⟨hq1, fr.waiting, fr.extra.trans hex, ?_, ?_, fr.seqs.trans hsq, fr.tde.trans hte,
        fr.aq.trans haq, ?_⟩⟩
      · show s1.oneshot.keys = []; rw [ho]; exact hk
      · show s1.oneshot.pauseInputProcessingDelay = 0; rw [ho]; exact hdl
      · intro st hst'
        have : st ∈ s1.states := hst'
        rw [hs1] at this
        simp only [List.mem_cons, List.mem_nil_iff, or_false] at this
        subst this; trivial
    · subst he; cases hp

end KVerif.Quiesce
