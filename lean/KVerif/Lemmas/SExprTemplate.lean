/-
Facts about the model of deftemplate.rs (Model/Template.lean).
-/
import KVerif.Model.Template
namespace KVerif.SExpr

mutual
/-- no `(template-expand …)` / `(t! …)` list anywhere inside -/
def inert : SExpr → Bool
  | .atom _ _ => true
  | .list xs _ => !isExpandList xs && inertL xs
def inertL : List SExpr → Bool
  | [] => true
  | x :: r => inert x && inertL r
end

/-- On input without expansion lists, the pinned `expand` is the identity whenever it finishes. -/
theorem inert_pinned (ts : List Template) : ∀ (fuel : Nat) (xs : List SExpr), inertL xs = true →
    (passPinned ts fuel xs = .error .fuelOut ∨ passPinned ts fuel xs = .ok (.ok (xs, false))) ∧
    (expandPinned ts fuel xs = .error .fuelOut ∨ expandPinned ts fuel xs = .ok (.ok xs)) := by
  intro fuel
  induction fuel with
  | zero =>
    intro xs _
    cases xs with
    | nil => exact ⟨.inr (by simp [passPinned, pure, Except.pure]), .inl (by simp [expandPinned])⟩
    | cons x r => exact ⟨.inl (by simp [passPinned]), .inl (by simp [expandPinned])⟩
  | succ f ih =>
    intro xs hx
    have hpass : passPinned ts (f + 1) xs = .error .fuelOut ∨ passPinned ts (f + 1) xs = .ok (.ok (xs, false)) := by
      cases xs with
      | nil => exact .inr (by simp [passPinned, pure, Except.pure])
      | cons x r =>
        simp only [inertL, Bool.and_eq_true] at hx
        cases x with
        | atom t sp =>
          rcases (ih r hx.2).1 with h | h
          · exact .inl (by simp [passPinned, h, bind, Except.bind])
          · exact .inr (by simp [passPinned, h, bind, Except.bind, pure, Except.pure])
        | list ys sp =>
          have hy := hx.1
          simp only [inert, Bool.and_eq_true, Bool.not_eq_true'] at hy
          rcases (ih ys hy.2).2 with h | h
          · exact .inl (by simp [passPinned, hy.1, h, bind, Except.bind])
          · rcases (ih r hx.2).1 with h2 | h2
            · exact .inl (by simp [passPinned, hy.1, h, h2, bind, Except.bind])
            · exact .inr (by simp [passPinned, hy.1, h, h2, bind, Except.bind, pure, Except.pure])
    refine ⟨hpass, ?_⟩
    rcases (ih xs hx).1 with h | h
    · exact .inl (by simp [expandPinned, h, bind, Except.bind])
    · exact .inr (by simp [expandPinned, h, bind, Except.bind, pure, Except.pure])

/-- one pass over inert expressions followed by one expansion list: the inert part is kept, the
expansion is replaced by its body, and the pass reports a change — unless it runs out of fuel. -/
theorem pass_pinned_call (ts : List Template) (cx : List SExpr) (csp : Span) (body : List SExpr)
    (h0 : isExpandList cx = true) (hc : expandCall ts cx csp = .ok (.ok body)) :
    ∀ (pre : List SExpr) (fuel : Nat), inertL pre = true →
      passPinned ts fuel (pre ++ [.list cx csp]) = .error .fuelOut ∨
      passPinned ts fuel (pre ++ [.list cx csp]) = .ok (.ok (pre ++ body, true)) := by
  intro pre
  induction pre with
  | nil =>
    intro fuel _
    cases fuel with
    | zero => exact .inl (by simp [passPinned])
    | succ f => exact .inr (by simp [passPinned, h0, hc, bind, Except.bind, pure, Except.pure])
  | cons x r ih =>
    intro fuel hx
    simp only [inertL, Bool.and_eq_true] at hx
    cases fuel with
    | zero => exact .inl (by simp [passPinned])
    | succ f =>
      cases x with
      | atom t sp =>
        rcases ih f hx.2 with h | h
        · exact .inl (by simp [passPinned, h, bind, Except.bind])
        · exact .inr (by simp [passPinned, h, bind, Except.bind, pure, Except.pure])
      | list ys sp =>
        have hy := hx.1
        simp only [inert, Bool.and_eq_true, Bool.not_eq_true'] at hy
        rcases (inert_pinned ts f ys hy.2).2 with h | h
        · exact .inl (by simp [passPinned, hy.1, h, bind, Except.bind])
        · rcases ih f hx.2 with h2 | h2
          · exact .inl (by simp [passPinned, hy.1, h, h2, bind, Except.bind])
          · exact .inr (by simp [passPinned, hy.1, h, h2, bind, Except.bind, pure, Except.pure])

/-- **a self-reproducing expansion never finishes on the pinned source.**  If the call `cx`
expands to a single call `fx` that expands to itself, `expand` runs out of every amount of fuel. -/
theorem pinned_diverges (ts : List Template) (pre cx fx : List SExpr) (csp fsp : Span)
    (hpre : inertL pre = true) (h0 : isExpandList cx = true)
    (hc : expandCall ts cx csp = .ok (.ok [.list fx fsp])) (hf : isExpandList fx = true)
    (hfix : expandCall ts fx fsp = .ok (.ok [.list fx fsp])) :
    ∀ fuel, expandPinned ts fuel (pre ++ [.list cx csp]) = .error .fuelOut := by
  have hfixed : ∀ fuel, expandPinned ts fuel (pre ++ [.list fx fsp]) = .error .fuelOut := by
    intro fuel
    induction fuel with
    | zero => simp [expandPinned]
    | succ f ih =>
      rcases pass_pinned_call ts fx fsp _ hf hfix pre f hpre with h | h
      · simp [expandPinned, h, bind, Except.bind]
      · simp [expandPinned, h, bind, Except.bind, ih]
  intro fuel
  cases fuel with
  | zero => simp [expandPinned]
  | succ f =>
    rcases pass_pinned_call ts cx csp _ h0 hc pre f hpre with h | h
    · simp [expandPinned, h, bind, Except.bind]
    · simp [expandPinned, h, bind, Except.bind, hfixed f]



theorem indexOf?_lt : ∀ (xs : List Bytes) (a : Bytes) (i : Nat), indexOf? xs a = some i → i < xs.length
  | [], _, _, h => by simp [indexOf?] at h
  | x :: r, a, i, h => by
    unfold indexOf? at h
    split at h
    · simp at h; subst h; simp
    · cases hr : indexOf? r a with
      | none => simp [hr] at h
      | some j =>
        simp [hr] at h; subst h
        have := indexOf?_lt r a j hr
        simp; omega

mutual
/-- the `expect("validated matching var lens")` of `expand` cannot fire once the parameter count was checked -/
theorem substitute_total (subNames : List Bytes) (args : List SExpr) (h : args.length = subNames.length) :
    ∀ xs : List SExpr, ∃ r, substitute subNames args xs = .ok r
  | [] => ⟨[], rfl⟩
  | x :: rest => by
    obtain ⟨e, he⟩ := substituteOne_total subNames args h x
    obtain ⟨r, hr⟩ := substitute_total subNames args h rest
    exact ⟨e :: r, by simp [substitute, he, hr, bind, Except.bind, pure, Except.pure]⟩
theorem substituteOne_total (subNames : List Bytes) (args : List SExpr) (h : args.length = subNames.length) :
    ∀ x : SExpr, ∃ r, substituteOne subNames args x = .ok r
  | .atom t sp => by
    unfold substituteOne
    cases hi : indexOf? subNames t with
    | none => exact ⟨_, rfl⟩
    | some i =>
      have := indexOf?_lt _ _ _ hi
      have hlt : i < args.length := by omega
      simp [List.getElem?_eq_getElem hlt, pure, Except.pure]
  | .list xs sp => by
    obtain ⟨r, hr⟩ := substitute_total subNames args h xs
    exact ⟨.list r sp, by simp [substituteOne, hr, bind, Except.bind, pure, Except.pure]⟩
end

theorem atomV_nil (fuel : Nat) (t : List Nat) (sp : Span) :
    (SExpr.atom t sp).atomV fuel (some []) = .ok (some t) := by
  unfold SExpr.atomV
  cases stripDollar t <;> simp [List.lookup]

/-- with no variables, `push_all_atoms` visits each node once -/
theorem pushAllAtoms_nil_total : ∀ (fuel : Nat) (xs : List SExpr), countNodes xs ≤ fuel →
    ∃ r, pushAllAtoms fuel [] xs = .ok r := by
  intro fuel
  induction fuel with
  | zero =>
    intro xs h
    cases xs with
    | nil => exact ⟨[], by simp [pushAllAtoms]⟩
    | cons x r => cases x <;> simp [countNodes, countNode] at h <;> omega
  | succ f ih =>
    intro xs h
    cases xs with
    | nil => exact ⟨[], by simp [pushAllAtoms]⟩
    | cons x r =>
      cases x with
      | atom t sp =>
        simp only [countNodes, countNode] at h
        obtain ⟨b, hb⟩ := ih r (by omega)
        refine ⟨trimAtomQuotes t ++ b, ?_⟩
        unfold pushAllAtoms
        simp [atomV_nil, hb, bind, Except.bind, pure, Except.pure]
      | list l sp =>
        simp only [countNodes, countNode] at h
        obtain ⟨a, ha⟩ := ih l (by omega)
        obtain ⟨b, hb⟩ := ih r (by omega)
        exact ⟨a ++ b, by simp [pushAllAtoms, SExpr.atomV, SExpr.listV, ha, hb, bind, Except.bind, pure, Except.pure]⟩

theorem parseListVar_nil_total (fuel : Nat) (xs : List SExpr) (sp : Span) (h : countNodes xs ≤ fuel) :
    ∃ r, parseListVar fuel [] xs sp = .ok r := by
  unfold parseListVar
  split
  · rename_i t s rest
    split
    · obtain ⟨b, hb⟩ := pushAllAtoms_nil_total fuel rest (by simp [countNodes, countNode] at h; omega)
      exact ⟨.atom b sp, by simp [hb, bind, Except.bind, pure, Except.pure]⟩
    · exact ⟨_, rfl⟩
  · exact ⟨_, rfl⟩

mutual
theorem concatLists_total (fuel : Nat) : ∀ xs : List SExpr, countNodes xs ≤ fuel → ∃ r, concatLists fuel xs = .ok r
  | [], _ => ⟨[], rfl⟩
  | x :: rest, h => by
    simp only [countNodes] at h
    obtain ⟨e, he⟩ := concatOne_total fuel x (by omega)
    obtain ⟨r, hr⟩ := concatLists_total fuel rest (by omega)
    exact ⟨e :: r, by simp [concatLists, he, hr, bind, Except.bind, pure, Except.pure]⟩
theorem concatOne_total (fuel : Nat) : ∀ x : SExpr, countNode x ≤ fuel → ∃ r, concatOne fuel x = .ok r
  | .atom t sp, _ => ⟨_, rfl⟩
  | .list xs sp, h => by
    simp only [countNode] at h
    obtain ⟨v, hv⟩ := parseListVar_nil_total fuel xs sp (by omega)
    obtain ⟨r, hr⟩ := concatLists_total fuel xs (by omega)
    unfold concatOne
    simp only [hv, bind, Except.bind]
    cases v with
    | atom t s => exact ⟨_, rfl⟩
    | list a b => exact ⟨.list r sp, by simp [hr, pure, Except.pure]⟩
end




theorem countNode_pos (x : SExpr) : 1 ≤ countNode x := by cases x <;> simp [countNode]

theorem condReplacement_le (xs : List SExpr) (sp : Span) (repl : List SExpr)
    (h : condReplacement xs sp = .ok (some repl)) : countNodes repl ≤ countNodes xs := by
  unfold condReplacement at h
  split at h
  · rename_i op s rest
    simp only at h
    repeat' split at h
    all_goals first
      | (simp at h; done)
      | (simp only [Except.ok.injEq, Option.some.injEq] at h; subst h; simp [countNodes]; try omega)
  · simp at h

mutual
/-- a sweep of `evaluate_conditionals` never grows the expressions, and shrinks them when it
reports a change: the `while` loop around it finishes. -/
theorem evalCond_size : ∀ (xs xs' : List SExpr) (c : Bool), evalCond xs = .ok (xs', c) →
    countNodes xs' ≤ countNodes xs ∧ (c = true → countNodes xs' < countNodes xs)
  | [], xs', c, h => by simp [evalCond] at h; obtain ⟨rfl, rfl⟩ := h; simp
  | x :: rest, xs', c, h => by
    unfold evalCond at h
    simp only [bind, Except.bind] at h
    cases h1 : evalCondOne x with
    | error d => simp [h1] at h
    | ok p1 =>
      obtain ⟨e, c1⟩ := p1
      cases h2 : evalCond rest with
      | error d => simp [h1, h2] at h
      | ok p2 =>
        obtain ⟨r, c2⟩ := p2
        simp [h1, h2, pure, Except.pure] at h
        obtain ⟨rfl, rfl⟩ := h
        have a1 := evalCondOne_size x e c1 h1
        have a2 := evalCond_size rest r c2 h2
        simp only [countNodes_append, countNodes]
        refine ⟨by omega, fun hc => ?_⟩
        simp at hc
        rcases hc with hc | hc
        · have := a1.2 hc; omega
        · have := a2.2 hc; omega
theorem evalCondOne_size : ∀ (x : SExpr) (e : List SExpr) (c : Bool), evalCondOne x = .ok (e, c) →
    countNodes e ≤ countNode x ∧ (c = true → countNodes e < countNode x)
  | .atom t sp, e, c, h => by simp [evalCondOne] at h; obtain ⟨rfl, rfl⟩ := h; simp [countNodes, countNode]
  | .list xs sp, e, c, h => by
    unfold evalCondOne at h
    simp only [bind, Except.bind] at h
    cases h1 : condReplacement xs sp with
    | error d => simp [h1] at h
    | ok o =>
      cases o with
      | some repl =>
        simp [h1, pure, Except.pure] at h
        obtain ⟨rfl, rfl⟩ := h
        have := condReplacement_le xs sp _ h1
        simp only [countNode]
        exact ⟨by omega, fun _ => by omega⟩
      | none =>
        cases h2 : evalCond xs with
        | error d => simp [h1, h2] at h
        | ok p =>
          obtain ⟨xs', c'⟩ := p
          simp [h1, h2, pure, Except.pure] at h
          obtain ⟨rfl, rfl⟩ := h
          have := evalCond_size xs xs' c' h2
          simp only [countNodes, countNode]
          exact ⟨by omega, fun hc => by have := this.2 hc; omega⟩
end

theorem evalCondLoop_total : ∀ (fuel : Nat) (xs : List SExpr), countNodes xs < fuel →
    ∃ r, evalCondLoop fuel xs = .ok r := by
  intro fuel
  induction fuel with
  | zero => intro xs h; omega
  | succ f ih =>
    intro xs h
    unfold evalCondLoop
    cases h1 : evalCond xs with
    | error d => exact ⟨_, rfl⟩
    | ok p =>
      obtain ⟨xs', c⟩ := p
      cases c with
      | false => exact ⟨_, rfl⟩
      | true =>
        have := (evalCond_size xs xs' true h1).2 rfl
        exact ih xs' (by omega)




/-- expanding one call returns an expansion or a diagnostic: no `expect`, no fuel shortage -/
theorem expandCall_total (ts : List Template) (xs : List SExpr) (sp : Span) : ∃ r, expandCall ts xs sp = .ok r := by
  unfold expandCall
  split
  · rename_i h nameE args
    split
    · exact ⟨_, rfl⟩
    · split
      · exact ⟨_, rfl⟩
      · rename_i t ht
        split
        · exact ⟨_, rfl⟩
        · rename_i hlen
          have hlen' : args.length = t.subNames.length := by simpa [Template.subNames] using hlen
          obtain ⟨b1, h1⟩ := substitute_total t.subNames args hlen' t.content
          obtain ⟨b2, h2⟩ := concatLists_total (countNodes b1 + 1) b1 (by omega)
          obtain ⟨b3, h3⟩ := evalCondLoop_total (countNodes b2 + 1) b2 (by omega)
          exact ⟨b3, by simp [h1, h2, h3, bind, Except.bind]⟩
  · exact ⟨_, rfl⟩

/-- **the repaired `expand` returns** an expansion or a diagnostic: the `unreachable` arm of the
model (a pass that replaced something at the maximum depth) cannot be reached. -/
theorem expand_pass_total (ts : List Template) :
    (∀ (lim : Limits) (exprs : List SExpr), ∃ r, expand ts lim exprs = .ok r) ∧
    (∀ (lim : Limits) (exprs : List SExpr), ∃ r, pass ts lim exprs = .ok r ∧
      (∀ e n, r = .ok (e, n, true) → lim.depth < MAX_EXPANSION_DEPTH)) := by
  apply expand.mutual_induct
    (motive1 := fun lim exprs => ∃ r, expand ts lim exprs = .ok r)
    (motive2 := fun lim exprs => ∃ r, pass ts lim exprs = .ok r ∧
      (∀ e n, r = .ok (e, n, true) → lim.depth < MAX_EXPANSION_DEPTH))
  · -- expand
    intro lim exprs hp hrec
    obtain ⟨r, hr, hd⟩ := hp
    rw [expand.eq_1]
    simp only [hr, bind, Except.bind]
    match r, hd with
    | .error d, _ => exact ⟨_, rfl⟩
    | .ok (e, n, false), _ => exact ⟨_, rfl⟩
    | .ok (e, n, true), hd =>
      have hlt := hd e n rfl
      simp only [hlt, dite_true]
      exact hrec e n hlt
  · intro lim
    exact ⟨_, by rw [pass.eq_1]; rfl, by simp⟩
  · intro lim t sp rest ih
    obtain ⟨r, hr, hd⟩ := ih
    rw [pass.eq_2]
    simp only [hr, bind, Except.bind]
    match r, hd with
    | .error d, _ => exact ⟨_, rfl, by simp⟩
    | .ok (e, n, c), hd =>
      refine ⟨_, rfl, ?_⟩
      intro e' n' h
      simp at h
      exact hd e n (by rw [h.2.2])
  · intro lim xs sp tail hne ih1 ih2
    obtain ⟨r1, hr1⟩ := ih1
    rw [pass.eq_3]
    simp only [hne, if_true, hr1, bind, Except.bind]
    match r1 with
    | .error d => exact ⟨_, rfl, by simp⟩
    | .ok (xs', n) =>
      obtain ⟨r2, hr2, hd2⟩ := ih2 n
      simp only [hr2]
      match r2, hd2 with
      | .error d, _ => exact ⟨_, rfl, by simp⟩
      | .ok (e, n', c), hd2 =>
        refine ⟨_, rfl, ?_⟩
        intro e' n'' h
        simp at h
        exact hd2 e n' (by rw [h.2.2])
  · intro lim xs sp tail hne hdepth
    have h' : isExpandList xs = true := by simpa using hne
    rw [pass.eq_3]
    simp only [h', Bool.not_true, Bool.false_eq_true, if_false, hdepth, if_true]
    exact ⟨_, rfl, by simp⟩
  · intro lim xs sp tail hne hdepth ih
    have h' : isExpandList xs = true := by simpa using hne
    rw [pass.eq_3]
    simp only [h', Bool.not_true, Bool.false_eq_true, if_false, hdepth]
    obtain ⟨rc, hrc⟩ := expandCall_total ts xs sp
    simp only [hrc, bind, Except.bind]
    match rc with
    | .error d => exact ⟨_, rfl, by simp⟩
    | .ok body =>
      simp only
      split
      · exact ⟨_, rfl, by simp⟩
      · obtain ⟨r2, hr2, _⟩ := ih body
        simp only [hr2]
        match r2 with
        | .error d => exact ⟨_, rfl, by simp⟩
        | .ok (e, n', c) =>
          refine ⟨_, rfl, ?_⟩
          intro _ _ _
          omega


/-- On input without expansion lists the pinned `expand` finishes (fuel proportional to the size
is enough) and returns its input. -/
theorem inert_pinned_ok (ts : List Template) : ∀ (fuel : Nat) (xs : List SExpr), inertL xs = true →
    (2 * countNodes xs ≤ fuel → passPinned ts fuel xs = .ok (.ok (xs, false))) ∧
    (2 * countNodes xs + 1 ≤ fuel → expandPinned ts fuel xs = .ok (.ok xs)) := by
  intro fuel
  induction fuel with
  | zero =>
    intro xs _
    refine ⟨fun h => ?_, fun h => by omega⟩
    cases xs with
    | nil => simp [passPinned, pure, Except.pure]
    | cons x r => have := countNode_pos x; simp [countNodes] at h; omega
  | succ f ih =>
    intro xs hx
    have hpass : 2 * countNodes xs ≤ f + 1 → passPinned ts (f + 1) xs = .ok (.ok (xs, false)) := by
      intro hf
      cases xs with
      | nil => simp [passPinned, pure, Except.pure]
      | cons x r =>
        simp only [inertL, Bool.and_eq_true] at hx
        cases x with
        | atom t sp =>
          simp only [countNodes, countNode] at hf
          have h := (ih r hx.2).1 (by omega)
          simp [passPinned, h, bind, Except.bind, pure, Except.pure]
        | list ys sp =>
          have hy := hx.1
          simp only [inert, Bool.and_eq_true, Bool.not_eq_true'] at hy
          simp only [countNodes, countNode] at hf
          have h := (ih ys hy.2).2 (by omega)
          have h2 := (ih r hx.2).1 (by omega)
          simp [passPinned, hy.1, h, h2, bind, Except.bind, pure, Except.pure]
    refine ⟨hpass, fun hf => ?_⟩
    have h := (ih xs hx).1 (by omega)
    simp [expandPinned, h, bind, Except.bind, pure, Except.pure]

end KVerif.SExpr
