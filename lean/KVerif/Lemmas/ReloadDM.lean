/-
A concrete `World` used only as the WITNESS of `reload_then_run_equiv_restart_counterexample`
(Props/C15fresh.lean): a one-layer kanata with plain keys, `dynamic-macro-record`,
`dynamic-macro-record-stop`, `dynamic-macro-play` and `lrld`.  Mirrors, for this fragment only:
  src/kanata/dynamic_macro.rs  `begin_record_macro`, `record_press`/`record_release`, `stop_macro`,
                               `play_macro`, `tick_replay_state` (one recorded input event is fed
                               back into the layout per tick)
  src/kanata/mod.rs            `handle_keystate_changes` (press/release diff), `handle_input_event`
No general theorem depends on this file; the theorems quantify over every `World`.
-/
import KVerif.Model.Reload
namespace KVerif.Reload.DM
open KVerif.Gen.Reload KVerif.Reload

inductive Act where
  | key (k : Nat)
  | record (id : Nat)
  | stop
  | play (id : Nat)
  | lrld
  deriving DecidableEq, Repr

/-- a physical key event, by defsrc column -/
inductive Ev where
  | press (col : Nat)
  | release (col : Nat)
  deriving DecidableEq, Repr

inductive Os where
  | down (k : Nat)
  | up (k : Nat)
  deriving DecidableEq, Repr

structure Layout where
  /-- action of each defsrc column on the only layer -/
  acts : List Act
  queue : List Ev
  /-- (column, key code) of the `NormalKey` states -/
  held : List (Nat × Nat)
  deriving DecidableEq, Repr

@[reducible] def Other : Field → Type
  | .dynamic_macros => List (Nat × List Ev)            -- id ↦ recorded input events
  | .dynamic_macro_record_state => Option (Nat × List Ev)
  | .dynamic_macro_replay_state => List Ev
  | .layer_info => Nat                                   -- number of layers
  | _ => Unit

def T : Types where
  Content := List Act
  Cfg := List Act
  Err := Unit
  Layout := Layout
  Os := Os
  OnIdle := Unit
  Input := Ev
  Other := Other

abbrev DSt := St T

/-- constants of the constructors -/
def dflt : (f : Field) → Val T f
  | .layout => ⟨[], [], []⟩
  | .layer_info => (0 : Nat)
  | .dynamic_macros => ([] : List (Nat × List Ev))
  | .dynamic_macro_record_state => (none : Option (Nat × List Ev))
  | .dynamic_macro_replay_state => ([] : List Ev)
  | .cur_keys => ([] : List Nat)
  | .prev_keys => ([] : List Nat)
  | .cfg_paths => ([] : List Nat)
  | .cur_cfg_idx => (0 : Nat)
  | .prev_layer => (0 : Nat)
  | .ticks_since_idle => (0 : Nat)
  | .macro_on_press_cancel_duration => (0 : Nat)
  | .live_reload_requested => false
  | .waiting_for_idle => ([] : List Unit)
  | .kbd_out | .scroll_state | .hscroll_state | .move_mouse_state_vertical
  | .move_mouse_state_horizontal | .move_mouse_speed_modifiers | .sequence_backtrack_modcancel
  | .sequence_always_on | .sequence_input_mode | .sequence_timeout | .sequence_state
  | .override_states | .key_outputs | .sequences | .overrides | .virtual_keys | .unmodded_keys
  | .G_ZCH | .G_MAPPED_KEYS
  | .last_tick | .time_remainder | .kbd_in_paths | .continue_if_no_devices | .include_names
  | .exclude_names | .log_layer_changes | .caps_word | .x11_repeat_rate | .device_detect_mode
  | .vkeys_pending_release | .movemouse_inherit_accel_state | .movemouse_smooth_diagonals
  | .movemouse_buffer | .override_release_on_activation | .dynamic_macro_max_presses
  | .dynamic_macro_replay_behaviour | .unmodded_mods | .unshifted_keys | .last_pressed_key
  | .switch_max_key_timing | .tcp_server_address | .allow_hardware_repeat
  | .saved_clipboard_content => ()

/-- what the constructors and `do_live_reload` compute from `cfg` -/
def cfgVal (f : Field) (c : List Act) : Val T f :=
  match f with
  | .layout => (⟨c, [], []⟩ : Layout)
  | .layer_info => (1 : Nat)
  | f => dflt f

def colOf : Ev → Nat
  | .press c => c
  | .release c => c

/-- `handle_keystate_changes` for the fragment: one keyberon tick (pop one queued event), the custom
action it produced, then the key diff against `prev_keys` -/
def ksc (s : DSt) : DSt × List (KAct T) × List Os :=
  let lay : Layout := s .layout
  let dm : List (Nat × List Ev) := s .dynamic_macros
  -- keyberon tick
  let (lay1, custom) : Layout × Option Act := match lay.queue with
    | [] => (lay, none)
    | .release c :: q => ({ lay with queue := q, held := lay.held.filter (fun h => h.1 ≠ c) }, none)
    | .press c :: q =>
      match lay.acts[c]? with
      | some (.key k) => ({ lay with queue := q, held := lay.held ++ [(c, k)] }, none)
      | some a => ({ lay with queue := q }, some a)
      | none => ({ lay with queue := q }, none)
  -- custom actions on press
  let s1 : DSt := match custom with
    | some (.record id) => s.set .dynamic_macro_record_state (some (id, ([] : List Ev)))
    | some .stop =>
      (match (s .dynamic_macro_record_state : Option (Nat × List Ev)) with
       | some (id, evs) =>
         (s.set .dynamic_macros ((id, evs) :: dm.filter (fun m => m.1 ≠ id))).set
           .dynamic_macro_record_state (none : Option (Nat × List Ev))
       | none => s)
    | some (.play id) => s.set .dynamic_macro_replay_state ((dm.lookup id).getD [])
    | _ => s
  let acts : List (KAct T) := match custom with
    | some .lrld => [.reload .cur]
    | _ => []
  let cur : List Nat := (s .cur_keys : List Nat) ++ lay1.held.map (·.2)
  let prev : List Nat := s .prev_keys
  let ups := (prev.filter (fun k => !cur.contains k)).map Os.up
  let downs := (cur.filter (fun k => !prev.contains k)).map Os.down
  ((s1.set .layout lay1).set .cur_keys cur, acts, ups ++ downs)

/-- `handle_input_event`: while a recording is active the event is appended to it (events of the
record / stop / play keys themselves are not part of what is replayed), then handed to the layout -/
def isKeyCol (lay : Layout) (c : Nat) : Bool :=
  match lay.acts[c]? with
  | some (.key _) => true
  | _ => false

def inputEvent (s : DSt) (e : Ev) : DSt × List Os :=
  let lay : Layout := s .layout
  let isKey : Bool := isKeyCol lay (colOf e)
  let s1 : DSt := match (s .dynamic_macro_record_state : Option (Nat × List Ev)) with
    | some (id, evs) => if isKey then s.set .dynamic_macro_record_state (some (id, evs ++ [e])) else s
    | none => s
  (s1.set .layout { lay with queue := lay.queue ++ [e] }, [])

/-- `tick_replay_state`: hand the next recorded event to the layout -/
def replay (s : DSt) : DSt × Option Nat :=
  match (s .dynamic_macro_replay_state : List Ev) with
  | [] => (s, none)
  | e :: rest =>
    let lay : Layout := s .layout
    ((s.set .dynamic_macro_replay_state rest).set .layout { lay with queue := lay.queue ++ [e] }, some 0)

def world : World where
  toTypes := T
  parse := fun c => .ok c
  cfgVal := cfgVal
  init0 := dflt
  currentLayer := fun _ => 0
  layerName := fun (n : Nat) i => if i < n then some "base" else none
  ksc := ksc
  late := fun s => (s, [])
  replay := replay
  inputEvent := inputEvent
  fireIdle := fun l _ => l
  idleDuration := fun _ => 0
  insertIdle := fun l _ => l
  coreIdle := fun s => ((s .layout : Layout).queue).isEmpty &&
    (s .dynamic_macro_replay_state : List Ev).isEmpty
  hasNormalKey := fun l => !l.held.isEmpty
  timingOk := fun _ => true

/-- `(defsrc a b c d e) (deflayer base x (dynamic-macro-record 1) dynamic-macro-record-stop
(dynamic-macro-play 1) lrld)`; `x` is KEY_X = 45 -/
def cfg : List Act := [.key 45, .record 1, .stop, .play 1, .lrld]

/-- the file on disk is `cfg`; a client is connected -/
def env : Env T where
  fs := fun _ => .content cfg
  callFails := fun _ _ => false
  tx := true

def tap (col : Nat) : List (Tick T) := [⟨env, some (.press col), 1⟩, ⟨env, some (.release col), 1⟩]

/-- tap record, tap `a`, tap stop, wait -/
def recordScript : List (Tick T) := tap 1 ++ tap 0 ++ tap 2 ++ [⟨env, none, 1⟩]

/-- tap play, wait three ticks -/
def playScript : List (Tick T) := tap 3 ++ [⟨env, none, 1⟩, ⟨env, none, 1⟩, ⟨env, none, 1⟩]

/-- a freshly started instance in which macro 1 = "tap a" has been recorded -/
def sRec : KSt world :=
  (fresh (W := world) [0] cfg).set .dynamic_macros ([(1, [Ev.press 0, Ev.release 0])] : List (Nat × List Ev))

end KVerif.Reload.DM
