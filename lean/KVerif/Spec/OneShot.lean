/-
Specification for C06: one-shot keys over a layered keymap, written without the layout's machinery
(no waiting states, no `OneShotState` counters that tick down, no 16-entry tables).

Time is absolute (tick numbers).  Input events are taken one per tick in arrival order.  A one-shot
key contributes its inner key(s) / layer like a plain key would; while at least one one-shot key is
*active*, the release of an active one-shot key is deferred.  The activation ends — every deferred
release takes effect at once, at the start of a tick, before that tick's event —
  * at `deadline = (tick of the last activation) + T`, or
  * press variants: `max 1 (rapid-event-delay)` ticks after the first other key press took effect
    (input is not taken while that release is outstanding), or
  * release variants: on the tick after the release of a key pressed since the activation, or
  * pcancel variants: on the tick after an active one-shot key was pressed again.
A one-shot key that is still physically held when the activation ends stays down, as a plain key,
until its own release.  The specification is *silent* (`silent = true`) once more than 16 one-shot
keys are active or deferred at once, more than 31 events are pending, or an action outside the
fragment is met.
-/
import KVerif.Model.Layout
namespace KVerif.Spec.OneShot
open KVerif.L

inductive Contrib
  | key (kc : KeyCode)
  | layer (l : Nat)
  deriving DecidableEq, Repr

structure Sp where
  pending : List Ev := []
  contribs : List (Coord × Contrib) := []
  active : List Coord := []
  deferred : List Coord := []
  others : List Coord := []
  deadline : Nat := 0
  /-- no event is taken before this tick (press variants: until the one-shot release is out) -/
  resumeAt : Nat := 0
  variant : OneShotEnd := .firstPress
  silent : Bool := false
  deriving Repr

def isPressVariant : OneShotEnd → Bool
  | .firstPress | .firstPressOrRepress => true
  | _ => false

def isRepressVariant : OneShotEnd → Bool
  | .firstPressOrRepress | .firstReleaseOrRepress => true
  | _ => false

def tableAction (cfg : LCfg) (l : Nat) (c : Coord) : Action :=
  match cfg.layers[l]? with
  | some tbl => match tbl.find? (·.1 == c) with
    | some (_, a) => a
    | none => .trans
  | none => .trans

def heldLayers (s : Sp) : List Nat :=
  (s.contribs.filterMap fun x => match x.2 with | .layer l => some l | _ => none).reverse

/-- first non-transparent entry: held layers newest first, then the base layer 0 -/
def resolve (cfg : LCfg) (s : Sp) (c : Coord) : Action :=
  match (heldLayers s ++ [0]).find? (fun l => match tableAction cfg l c with | .trans => false | _ => true) with
  | some l => tableAction cfg l c
  | none => .noOp

def innerContribs (c : Coord) : Action → Option (List (Coord × Contrib))
  | .keyCode k => some [(c, .key k)]
  | .multipleKeyCodes ks => some (ks.map fun k => (c, .key k))
  | .layer l => some [(c, .layer l)]
  | _ => none

/-- every deferred release takes effect; nothing is active any more -/
def endActivation (s : Sp) : Sp :=
  { s with contribs := s.contribs.filter (fun x => !s.deferred.contains x.1),
           active := [], deferred := [], others := [] }

def press (cfg : LCfg) (d : Nat) (t : Nat) (c : Coord) (s : Sp) : Sp :=
  match resolve cfg s c with
  | .oneShot inner T v =>
    match innerContribs c inner with
    | none => { s with silent := true }
    | some cs =>
      let wasActive := !s.active.isEmpty
      let cancel := wasActive && isRepressVariant s.variant && s.active.contains c
      { s with contribs := s.contribs ++ cs,
               deferred := s.deferred.filter (· != c),
               active := s.active ++ [c], variant := v,
               deadline := if cancel then t + 1 else t + T,
               silent := s.silent || s.active.length ≥ 16 }
  | .keyCode k =>
    let s := { s with contribs := s.contribs ++ [(c, .key k)] }
    if s.active.isEmpty then s
    else if isPressVariant s.variant then
      let dl := min s.deadline (t + max d 1)
      { s with deadline := dl, resumeAt := dl }
    else { s with others := s.others ++ [c] }
  | .noOp =>
    -- t5: a key that does nothing (`XX`, an unmapped position) is still a following non-one-shot
    -- key: `do_action`'s `NoOp` arm reports it to the one-shot state like every other key
    if s.active.isEmpty then s
    else if isPressVariant s.variant then
      let dl := min s.deadline (t + max d 1)
      { s with deadline := dl, resumeAt := dl }
    else { s with others := s.others ++ [c] }
  | _ => { s with silent := true }

def release (t : Nat) (c : Coord) (s : Sp) : Sp :=
  if !s.active.isEmpty && s.active.contains c then
    { s with deferred := s.deferred ++ [c], silent := s.silent || s.deferred.length ≥ 16 }
  else
    let s := if !s.active.isEmpty && !isPressVariant s.variant && s.others.contains c then
        { s with deadline := t + 1 } else s
    { s with contribs := s.contribs.filter (·.1 != c) }

/-- tick number `t` -/
def step (cfg : LCfg) (d : Nat) (t : Nat) (s : Sp) : Sp :=
  let s := if !s.active.isEmpty && t ≥ s.deadline then endActivation s else s
  if t < s.resumeAt then s else
  match s.pending with
  | [] => s
  | .press c :: rest => press cfg d t c { s with pending := rest }
  | .release c :: rest => release t c { s with pending := rest }

def input (s : Sp) (e : Ev) : Sp :=
  { s with pending := s.pending ++ [e], silent := s.silent || s.pending.length ≥ 31 }

def keys (s : Sp) : List KeyCode :=
  s.contribs.filterMap fun x => match x.2 with | .key k => some k | _ => none

end KVerif.Spec.OneShot
