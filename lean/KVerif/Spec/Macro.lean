/-
Specification side of C08: what a macro body *spells*, and when its steps are due.

`Body` is the macro body as the user reads it: a tree of keys, delays, output chords, custom items
(unicode, mouse …), plain groups and groups held under modifiers. `spell` is the in-order list of
presses / releases / delays / custom items it stands for — a plain structural recursion, no
remainder passing, no fuel. `Lemmas/MacroExpand.lean` proves that the parser model
(`Macro.parseMacro` on `flattenAll body`) produces exactly `spellAll body ++ [complete]`, and that
every parameter list the parser model accepts is `flattenAll` of some body.

`slots` is the schedule: which step is due on the n-th tick after activation.
-/
import KVerif.Model.MacroExpand
namespace KVerif.Macro
open KVerif.L

inductive Body
  | delay (n : Nat)
  | key (kc : KeyCode)
  /-- an output chord such as `C-S-a`: all pressed in order, released in reverse order -/
  | chord (kcs : List KeyCode)
  | custom (id : Nat)
  /-- a list action that parses to a key / chord / custom action, written as a list -/
  | actList (a : PA) (raw : List Item)
  | group (items : List Body)
  /-- `S-(…)`: the modifiers are pressed, the items played, the modifiers released (in the order
  they were pressed). `viaVar`: written as `S-$v` with a list variable. `act`: what `parse_action`
  would say about the list on its own (irrelevant in this position). -/
  | held (viaVar : Bool) (act : Option PA) (mods : List KeyCode) (items : List Body)
  deriving Repr, Inhabited

/-- events of an `Ok` answer of `parse_action` (`none`: not allowed in a macro) -/
def PA.spell : PA → Option (List SeqEv)
  | .key kc => some [.press kc, .release kc]
  | .chord kcs => some (pressAll kcs ++ releaseAll kcs.reverse)
  | .custom id => some [.custom id]
  | .other => none

mutual
  /-- the in-order spelling of one item -/
  def spell : Body → List SeqEv
    | .delay n => [.delay n]
    | .key kc => [.press kc, .release kc]
    | .chord kcs => pressAll kcs ++ releaseAll kcs.reverse
    | .custom id => [.custom id]
    | .actList a _ => (a.spell).getD []
    | .group items => spellAll items
    | .held _ _ mods items => pressAll mods ++ spellAll items ++ releaseAll mods
  def spellAll : List Body → List SeqEv
    | [] => []
    | b :: rest => spell b ++ spellAll rest
end

mutual
  /-- the parameter list elements a body item is written as -/
  def flatten : Body → List Item
    | .delay n => [.num n]
    | .key kc => [.act (.key kc)]
    | .chord kcs => [.act (.chord kcs)]
    | .custom id => [.act (.custom id)]
    | .actList a raw => [.list (some a) raw]
    | .group items => [.list none (flattenAll items)]
    | .held false act mods items => [.mods mods, .list act (flattenAll items)]
    | .held true _ mods items => [.modsList mods (flattenAll items)]
  def flattenAll : List Body → List Item
    | [] => []
    | b :: rest => flatten b ++ flattenAll rest
end

mutual
  /-- what the parser insists on: delays in 1..=65535, at least one modifier before a held group -/
  def Body.ok : Body → Bool
    | .delay n => 0 < n && n ≤ U16_MAX
    | .actList a _ => a != .other
    | .group items => allOk items
    | .held _ _ mods items => !mods.isEmpty && allOk items
    | _ => true
  def allOk : List Body → Bool
    | [] => true
    | b :: rest => b.ok && allOk rest
end

/-- a step is a press, a release, a delay or a custom item (what `spell` produces) -/
def isStep : SeqEv → Bool
  | .press _ | .release _ | .delay _ | .custom _ => true
  | _ => false

/-- ticks a sequence event occupies: a delay of `d` lasts `d` ticks (one at least), anything else one -/
def ticksOf : SeqEv → Nat
  | .delay d => max d 1
  | _ => 1

/-- the schedule of an event list: `some e` on the tick where `e` is performed, `none` on the ticks
a delay is being counted down -/
def slots : List SeqEv → List (Option SeqEv)
  | [] => []
  | e :: rest => some e :: List.replicate (ticksOf e - 1) none ++ slots rest

/-- effect of one schedule slot on the multiset of held macro keys (press: one more; release: all
instances of that key go) -/
def applySlot (held : List KeyCode) : Option SeqEv → List KeyCode
  | some (.press k) => held ++ [k]
  | some (.tap k) => held ++ [k]
  | some (.release k) => held.filter (· != k)
  | _ => held

end KVerif.Macro
