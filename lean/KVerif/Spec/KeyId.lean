import KVerif.Model.KeyId
/-! Specification side of C11: the reading of the property statement that the theorems relate the
model to, and that the correspondence run uses as the oracle for the implementation. -/
namespace KVerif.KeyId.Spec
open KVerif.KeyId KVerif.Gen.KeyTables

/-- discriminants that exist in both enums but that `from_u16` (Linux) leaves unassigned:
    `KEY_749 … KEY_766` -/
def unassigned (v : Nat) : Bool := 749 ≤ v && v ≤ 766

/-- the key codes kanata knows: every enum discriminant outside the unassigned block -/
def known (v : Nat) : Bool := isOsCode v && !unassigned v

/-- key names under which the source itself writes a key and that are *documented* to denote a
    different key when used in a configuration: `yen` (KEY_BACKSLASH, see DEFAULT_MAPPINGS),
    `menu` (KEY_COMPOSE), `next` (KEY_NEXTSONG), `break` (KEY_PAUSE) -/
def canonExceptions : List Name :=
  [encName [121, 101, 110], encName [109, 101, 110, 117], encName [110, 101, 120, 116],
   encName [98, 114, 101, 97, 107]]

/-- the code under which the source writes the key of that name elsewhere: the evdev identifier
    (`KEY_FOO` ↦ `foo`) or keyberon's `Display` string -/
def canonCode (n : Name) : Option Nat :=
  if canonExceptions.contains n then none
  else match osCodeCanonNames.lookup n with
    | some v => some v
    | none => keyCodeDisplay.lookup n

/-- what an accepted name must denote: its canonical code when it has one; otherwise only
    self-consistency is demanded (the code `str_to_oscode` gives) -/
def nameSpec (n : Name) (looked : Option Nat) : Option Nat :=
  match looked with
  | none => none
  | some c => match canonCode n with
    | some v => some v
    | none => some c

/-- the names `nop0 … nop9` -/
def nopNames : List Name :=
  (List.range 10).map fun i => encName [110, 111, 112, 48 + i]

/-- the reserved no-op codes: what the names `nop0 … nop9` denote -/
def reservedCodes : List Nat := nopNames.filterMap (strToOscode defaultCustom)

def reserved (v : Nat) : Bool := reservedCodes.contains v

def layerInputs : Layer → List Name
  | .plain _ => []
  | .map pairs => pairs.filterMap fun p => match p.1 with
    | .key n => some n
    | _ => none

def pukNames : Puk → List Name
  | .allExcept ns => ns
  | _ => []

/-- the set of intercepted keys according to the property statement: defsrc, plus deflayermap
    inputs, plus — when process-unmapped-keys is on — every known key below `KEYS_IN_ROW` other than
    the no-op key code and the listed exceptions -/
def mappedSpec (cfg : Config) : List Nat :=
  let custom := replaceCustom cfg.localKeys
  let res := fun (ns : List Name) => ns.filterMap (strToOscode custom)
  let exc := res (pukNames cfg.puk)
  res cfg.defsrc ++ res (cfg.layers.flatMap layerInputs) ++
    (if pukOn cfg.puk then
      (List.range keysInRow).filter (fun v => accepted v && v != keyCodeNo && !exc.contains v)
     else [])

/-- what a tap of code `v` must produce when the configuration maps `v` to itself, leaves it
    transparent, or does not mention it: the same code, through the channel the OS expects for it;
    nothing for the reserved no-op codes; the untouched event when the key is not intercepted -/
def tapSpec (intercepted : Bool) (v : Nat) : List Out :=
  if !intercepted then [.raw v false, .raw v true]
  else if reserved v then []
  else if mouseBtnCodes.contains v then [.btnDown v, .btnUp v]
  else if mouseWheelCodes.contains v then [.scroll v hiResScrollUnits]
  else [.down v, .up v]

/-- what an action denotes as a key: the key code itself, or the mouse button / wheel direction
    with that code -/
def denotes : Act → Nat → Prop
  | .keyCode k, c => k = c
  | .mouseBtn k, c => k = c ∧ mouseBtnCodes.contains c = true
  | .mouseWheel k, c => k = c ∧ mouseWheelCodes.contains c = true
  | _, _ => False

end KVerif.KeyId.Spec
