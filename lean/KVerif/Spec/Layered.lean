/-
Specification for C04: the simple layered-keymap machine.

State: the FIFO of pending input events, the ordered list of *contributions* of the presses that are
still in effect (a key code or a held layer, each remembering the coordinate of the press that made
it), and the base layer.  One pending event takes effect per tick, in arrival order.
A press performs the action found by searching the held layers from the most recently activated to
the oldest, then the base layer, then (when so configured) the first layer, then the defsrc key; a
transparent item nested inside the found action continues the same search below it.  A release
removes every contribution of its coordinate.  The OS sees the key codes of the contributions.
This file does not mention waiting states, one-shot, sequences, the action queue or history.
-/
import KVerif.Model.Layout
namespace KVerif.Spec.Layered
open KVerif.L

/-- a contribution of a press that is still in effect -/
inductive Contrib
  | key (kc : KeyCode) (coord : Coord) (untilNextAction : Bool)   -- output-chord keys clear on the next action
  | layer (l : Nat) (coord : Coord)
  deriving DecidableEq, Repr

structure State where
  pending : List Ev := []
  contribs : List Contrib := []
  base : Nat := 0
  deriving Repr

structure Keymap where
  cfg : LCfg
  layerStack : Bool        -- transparent-key-resolution layer-stack
  delegateToFirst : Bool   -- delegate-to-first-layer

def heldLayers (s : State) : List Nat :=
  (s.contribs.filterMap fun c => match c with | .layer l _ => some l | _ => none).reverse

def currentLayer (s : State) : Nat :=
  match heldLayers s with
  | l :: _ => l
  | [] => s.base

/-- the order in which layers are searched for a press -/
def searchOrder (km : Keymap) (s : State) : List Nat :=
  let cur := currentLayer s
  if km.layerStack then
    heldLayers s ++ [s.base] ++ (if km.delegateToFirst && cur != 0 && s.base != 0 then [0] else [])
  else
    [cur] ++ (if km.delegateToFirst && cur != 0 then [0] else [])

def tableAction (km : Keymap) (l : Nat) (c : Coord) : Action :=
  match km.cfg.layers[l]? with
  | some tbl => match tbl.find? (·.1 == c) with
    | some (_, a) => a
    | none => .trans
  | none => .trans

/-- first non-transparent action down the search order, then the defsrc key; also the layers below -/
def lookup (km : Keymap) (c : Coord) : List Nat → Action × List Nat
  | [] => (if c.1 == 0 then km.cfg.srcKey c.2 else .noOp, [])
  | l :: rest =>
    match tableAction km l c with
    | .trans => lookup km c rest
    | a => (a, rest)

def dropUntilNextAction (cs : List Contrib) : List Contrib :=
  cs.filter fun c => match c with | .key _ _ true => false | _ => true

/-- at most 64 contributions are tracked; further ones are dropped -/
def add (cs : List Contrib) (c : Contrib) : List Contrib := if cs.length < 64 then cs ++ [c] else cs

mutual
  /-- what a press at `coord` contributes when it performs `a` (fragment of C04); `below` = the
  layers still to search for a nested transparent item -/
  def perform (km : Keymap) (coord : Coord) : Nat → State → Action → List Nat → State
    | 0, s, _, _ => s
    | fuel + 1, s, a, below =>
      let (a, below) := match a with
        | .trans => lookup km coord below
        | a => (a, below)
      performFound km coord fuel { s with contribs := dropUntilNextAction s.contribs } a below
  /-- the found (non-transparent) action takes effect -/
  def performFound (km : Keymap) (coord : Coord) : Nat → State → Action → List Nat → State
    | 0, s, _, _ => s
    | fuel + 1, s, a, below =>
      match a with
      | .keyCode kc => { s with contribs := add s.contribs (.key kc coord false) }
      | .multipleKeyCodes kcs => { s with contribs := kcs.foldl (fun cs kc => add cs (.key kc coord true)) s.contribs }
      | .layer l => { s with contribs := add s.contribs (.layer l coord) }
      | .defaultLayer l => if l < km.cfg.layers.length then { s with base := l } else s
      | .releaseState (.keyCode kc) =>
        { s with contribs := s.contribs.filter fun c => match c with | .key k _ _ => k != kc | _ => true }
      | .releaseState (.layer l) =>
        { s with contribs := s.contribs.filter fun c => match c with | .layer x _ => x != l | _ => true }
      | .multipleActions acs => performAll km coord fuel s acs below
      | .src => perform km coord fuel s (km.cfg.srcKey coord.2) []
      | _ => s
  def performAll (km : Keymap) (coord : Coord) : Nat → State → List Action → List Nat → State
    | 0, s, _, _ => s
    | _ + 1, s, [], _ => s
    | fuel + 1, s, a :: rest, below => performAll km coord fuel (perform km coord fuel s a below) rest below
end

def contribCoord : Contrib → Coord
  | .key _ c _ => c
  | .layer _ c => c

/-- nesting budget of `perform` (an action nested deeper than this is not performed) -/
def DEPTH : Nat := 3999

/-- one tick: the oldest pending event takes effect -/
def step (km : Keymap) (s : State) : State :=
  match s.pending with
  | [] => s
  | .press c :: rest =>
    let s := { s with pending := rest }
    perform km c DEPTH s .trans (searchOrder km s)
  | .release c :: rest =>
    { s with pending := rest, contribs := s.contribs.filter (fun x => contribCoord x != c) }

def input (s : State) (e : Ev) : State := { s with pending := s.pending ++ [e] }

def keys (s : State) : List KeyCode :=
  s.contribs.filterMap fun c => match c with | .key kc _ _ => some kc | _ => none

end KVerif.Spec.Layered
