//! C19: dynamic macros. Two kinds of case line:
//!
//! `C19 U beh max nops op*` — the functions of src/kanata/dynamic_macro.rs are called directly
//!   (through the cfg-guarded re-export) in the order given, as mod.rs would:
//!   `b id k o*` begin_record_macro, `p osc k o*` record_press, `r osc` record_release,
//!   `s n k o*` stop_macro, `y id` play_macro, `t` tick_record_state, `x` tick_replay_state.
//!   (`k o*` is the hash-set order hint for the model; the real code ignores it.)
//!
//! `C19 K beh max nkeys keydef* nsteps step*` — a real `Kanata` built from a generated one-layer
//!   configuration is driven with `handle_input_event` / `tick_ms`:
//!   keydef = `osc kind a1 a2 a3 nacts (b id | s n | y id)*`, kind 0 no key output, 1 plain key a1,
//!   2 `(tap-hold a3 a3 a1 a2)`;  step = `d osc` | `u osc` | `t n` (one tick_ms(n)) | `w n`
//!   (tick_ms(1) until no replay is active, then n more) | `m` (trace marker) | `h k o*` (order hint
//!   for the next step). At the end every key still held is released and `w 300` is run.
use crate::rng::Rng;
use kanata_parser::cfg::ReplayDelayBehaviour;
use kanata_parser::keys::{str_to_oscode, OsCode};
use kanata_keyberon::key_code::KeyCode;
use kanata_keyberon::layout::Event;
use kanata_state_machine::kanata::verif_dynamic_macro as dm;
use kanata_state_machine::oskbd::{KeyEvent, KeyValue};
use kanata_state_machine::Kanata;
use rustc_hash::FxHashMap;

pub const KEYS: [&str; 20] = [
    "a", "b", "c", "d", "e", "lsft", "x", "y", "z", "spc", "1", "2", "3", "4", "5", "6", "7", "8", "9", "0",
];

fn osc(name: &str) -> u16 {
    u16::from(str_to_oscode(name).unwrap())
}
fn key_name(code: u16) -> &'static str {
    for k in KEYS {
        if osc(k) == code {
            return k;
        }
    }
    panic!("harness: key code {code} not in universe")
}
fn oscode(code: u16) -> OsCode {
    OsCode::from_u16(code).expect("harness: valid oscode")
}

#[derive(Clone, Debug, PartialEq)]
pub enum Act {
    B(u16),
    S(u16),
    Y(u16),
}
#[derive(Clone, Debug)]
pub struct KeyDef {
    pub osc: u16,
    pub kind: u8,
    pub a: [u16; 3],
    pub acts: Vec<Act>,
}
#[derive(Clone, Debug, PartialEq)]
pub enum Step {
    D(u16),
    U(u16),
    T(u32),
    W(u32),
    M,
    H(Vec<u16>),
}
#[derive(Clone, Debug)]
pub struct KCase {
    pub beh: u8,
    pub max: u16,
    pub keys: Vec<KeyDef>,
    pub steps: Vec<Step>,
}
#[derive(Clone, Debug)]
pub enum Op {
    B(u16, Vec<u16>),
    P(u16, Vec<u16>),
    R(u16),
    S(u16, Vec<u16>),
    Y(u16),
    T,
    X,
}
#[derive(Clone, Debug)]
pub struct UCase {
    pub beh: u8,
    pub max: u16,
    pub ops: Vec<Op>,
}

// ------------------------------------------------------------------ rendering of case lines

fn hint_str(h: &[u16]) -> String {
    let mut s = format!("{}", h.len());
    for o in h {
        s.push_str(&format!(" {o}"));
    }
    s
}

pub fn u_line(c: &UCase) -> String {
    let mut s = format!("C19 U {} {} {}", c.beh, c.max, c.ops.len());
    for op in &c.ops {
        match op {
            Op::B(id, h) => s.push_str(&format!(" b {id} {}", hint_str(h))),
            Op::P(o, h) => s.push_str(&format!(" p {o} {}", hint_str(h))),
            Op::R(o) => s.push_str(&format!(" r {o}")),
            Op::S(n, h) => s.push_str(&format!(" s {n} {}", hint_str(h))),
            Op::Y(id) => s.push_str(&format!(" y {id}")),
            Op::T => s.push_str(" t"),
            Op::X => s.push_str(" x"),
        }
    }
    s
}

pub fn k_line(c: &KCase) -> String {
    let mut s = format!("C19 K {} {} {}", c.beh, c.max, c.keys.len());
    for k in &c.keys {
        s.push_str(&format!(" {} {} {} {} {} {}", k.osc, k.kind, k.a[0], k.a[1], k.a[2], k.acts.len()));
        for a in &k.acts {
            match a {
                Act::B(i) => s.push_str(&format!(" b {i}")),
                Act::S(n) => s.push_str(&format!(" s {n}")),
                Act::Y(i) => s.push_str(&format!(" y {i}")),
            }
        }
    }
    s.push_str(&format!(" {}", c.steps.len()));
    for st in &c.steps {
        match st {
            Step::D(o) => s.push_str(&format!(" d {o}")),
            Step::U(o) => s.push_str(&format!(" u {o}")),
            Step::T(n) => s.push_str(&format!(" t {n}")),
            Step::W(n) => s.push_str(&format!(" w {n}")),
            Step::M => s.push_str(" m"),
            Step::H(h) => s.push_str(&format!(" h {}", hint_str(h))),
        }
    }
    s
}

// ------------------------------------------------------------------ parsing of case lines

struct Toks<'a> {
    t: Vec<&'a str>,
    i: usize,
}
impl<'a> Toks<'a> {
    fn next(&mut self) -> Option<&'a str> {
        let s = self.t.get(self.i).copied();
        self.i += 1;
        s
    }
    fn num(&mut self) -> Option<u64> {
        self.next()?.parse().ok()
    }
    fn hint(&mut self) -> Option<Vec<u16>> {
        let k = self.num()?;
        let mut v = vec![];
        for _ in 0..k {
            v.push(self.num()? as u16);
        }
        Some(v)
    }
}

fn parse_u(t: &mut Toks) -> Option<UCase> {
    let beh = t.num()? as u8;
    let max = t.num()? as u16;
    let n = t.num()?;
    let mut ops = vec![];
    for _ in 0..n {
        let op = match t.next()? {
            "b" => Op::B(t.num()? as u16, t.hint()?),
            "p" => Op::P(t.num()? as u16, t.hint()?),
            "r" => Op::R(t.num()? as u16),
            "s" => Op::S(t.num()? as u16, t.hint()?),
            "y" => Op::Y(t.num()? as u16),
            "t" => Op::T,
            "x" => Op::X,
            _ => return None,
        };
        ops.push(op);
    }
    Some(UCase { beh, max, ops })
}

fn parse_k(t: &mut Toks) -> Option<KCase> {
    let beh = t.num()? as u8;
    let max = t.num()? as u16;
    let nk = t.num()?;
    let mut keys = vec![];
    for _ in 0..nk {
        let osc = t.num()? as u16;
        let kind = t.num()? as u8;
        let a = [t.num()? as u16, t.num()? as u16, t.num()? as u16];
        let na = t.num()?;
        let mut acts = vec![];
        for _ in 0..na {
            acts.push(match t.next()? {
                "b" => Act::B(t.num()? as u16),
                "s" => Act::S(t.num()? as u16),
                "y" => Act::Y(t.num()? as u16),
                _ => return None,
            });
        }
        keys.push(KeyDef { osc, kind, a, acts });
    }
    let ns = t.num()?;
    let mut steps = vec![];
    for _ in 0..ns {
        steps.push(match t.next()? {
            "d" => Step::D(t.num()? as u16),
            "u" => Step::U(t.num()? as u16),
            "t" => Step::T(t.num()? as u32),
            "w" => Step::W(t.num()? as u32),
            "m" => Step::M,
            "h" => Step::H(t.hint()?),
            _ => return None,
        });
    }
    Some(KCase { beh, max, keys, steps })
}

// ------------------------------------------------------------------ unit level: real functions

fn beh_of(b: u8) -> dm::ReplayBehaviour {
    dm::ReplayBehaviour {
        delay: if b == 0 { ReplayDelayBehaviour::Constant } else { ReplayDelayBehaviour::Recorded },
    }
}

fn items_str(items: &[dm::DynamicMacroItem]) -> String {
    let v: Vec<String> = items.iter().map(dm::verif_item_digest).collect();
    if v.is_empty() {
        "-".to_string()
    } else {
        v.join(",")
    }
}

fn store_str(store: &FxHashMap<u16, Vec<dm::DynamicMacroItem>>) -> String {
    let mut ids: Vec<u16> = store.keys().copied().collect();
    ids.sort();
    let v: Vec<String> = ids.iter().map(|i| format!("{}=[{}]", i, items_str(&store[i]))).collect();
    if v.is_empty() {
        "-".to_string()
    } else {
        v.join(";")
    }
}

/// the oscs of the trailing zero-delay releases of a stored macro (a superset of what
/// add_release_for_all_unreleased_presses appended, in the order the hash set gave)
fn tail_hint(items: &[dm::DynamicMacroItem]) -> Vec<u16> {
    let mut v = vec![];
    for it in items.iter().rev() {
        match it {
            dm::DynamicMacroItem::Release((o, 0)) => v.push(u16::from(*o)),
            _ => break,
        }
    }
    v.reverse();
    v
}

/// Runs the ops on the real functions. Returns the canonical output and, per op, the hint observed.
fn run_u(c: &UCase) -> (String, Vec<Vec<u16>>) {
    let mut rec: Option<dm::DynamicMacroRecordState> = None;
    let mut rep: Option<dm::DynamicMacroReplayState> = None;
    let mut store: FxHashMap<u16, Vec<dm::DynamicMacroItem>> = Default::default();
    let beh = beh_of(c.beh);
    let mut out: Vec<String> = vec![];
    let mut hints = vec![];
    for op in &c.ops {
        let mut saved = None;
        match op {
            Op::B(id, _) => saved = dm::begin_record_macro(*id, &mut rec),
            Op::P(o, _) => saved = dm::record_press(&mut rec, oscode(*o), c.max),
            Op::R(o) => dm::record_release(&mut rec, oscode(*o)),
            Op::S(n, _) => saved = dm::stop_macro(&mut rec, *n),
            Op::Y(id) => dm::play_macro(*id, &mut rep, &store),
            Op::T => dm::tick_record_state(&mut rec),
            Op::X => match dm::tick_replay_state(&mut rep, beh) {
                None => out.push("e.".to_string()),
                Some(ev) => {
                    let d = ev.delay();
                    match ev.key_event() {
                        Event::Press(_, y) => out.push(format!("e+{y}.{d}")),
                        Event::Release(_, y) => out.push(format!("e-{y}.{d}")),
                    }
                }
            },
        }
        let mut h = vec![];
        if let Some((id, items)) = saved {
            h = tail_hint(&items);
            out.push(format!("S{id}"));
            store.insert(id, items);
        }
        hints.push(h);
    }
    let recs = rec.as_ref().map(|r| r.verif_digest()).unwrap_or("-".to_string());
    let reps = rep.as_ref().map(|r| r.verif_digest()).unwrap_or("-".to_string());
    let o = if out.is_empty() { "-".to_string() } else { out.join(" ") };
    (format!("U {} # rec {} # rep {} # st {}", o, recs, reps, store_str(&store)), hints)
}

fn with_u_hints(c: &UCase) -> UCase {
    let hints = match std::panic::catch_unwind(|| run_u(c).1) {
        Ok(h) => h,
        Err(_) => return c.clone(),
    };
    let mut c2 = c.clone();
    for (op, h) in c2.ops.iter_mut().zip(hints) {
        match op {
            Op::B(_, x) | Op::P(_, x) | Op::S(_, x) => *x = h,
            _ => {}
        }
    }
    c2
}

// ------------------------------------------------------------------ end to end: real Kanata

fn act_text(a: &Act) -> String {
    match a {
        Act::B(i) => format!("(dynamic-macro-record {i})"),
        Act::S(0) => "dynamic-macro-record-stop".to_string(),
        Act::S(n) => format!("(dynamic-macro-record-stop-truncate {n})"),
        Act::Y(i) => format!("(dynamic-macro-play {i})"),
    }
}

pub fn cfg_text(c: &KCase) -> String {
    let mut src = String::new();
    let mut lay = String::new();
    for k in &c.keys {
        src.push_str(key_name(k.osc));
        src.push(' ');
        let base = match k.kind {
            1 => Some(key_name(k.a[0]).to_string()),
            2 => Some(format!("(tap-hold {} {} {} {})", k.a[2], k.a[2], key_name(k.a[0]), key_name(k.a[1]))),
            _ => None,
        };
        let mut parts: Vec<String> = vec![];
        if let Some(b) = base {
            parts.push(b);
        }
        for a in &k.acts {
            parts.push(act_text(a));
        }
        let text = match parts.len() {
            0 => "XX".to_string(),
            1 => parts[0].clone(),
            _ => format!("(multi {})", parts.join(" ")),
        };
        lay.push_str(&text);
        lay.push(' ');
    }
    format!(
        "(defcfg dynamic-macro-max-presses {} dynamic-macro-replay-delay-behaviour {})\n(defsrc {})\n(deflayer base {})\n",
        c.max,
        if c.beh == 0 { "constant" } else { "recorded" },
        src.trim_end(),
        lay.trim_end()
    )
}

struct Runner {
    k: Kanata,
    seen: usize,      // events of kbd_out already consumed
    abs_tick: u64,    // number of kbd_out.tick() calls before the event being read
    trace: Vec<(u64, bool, u16)>,
    names: Vec<(String, u16)>,
    held: Vec<u16>,
}

const W_FUEL: u32 = 200_000;

impl Runner {
    fn new(c: &KCase) -> Result<Self, String> {
        let k = Kanata::new_from_str(&cfg_text(c), Default::default()).map_err(|e| format!("{e:?}"))?;
        let names = KEYS
            .iter()
            .map(|n| (format!("{:?}", KeyCode::from(str_to_oscode(n).unwrap())), osc(n)))
            .collect();
        Ok(Runner { k, seen: 0, abs_tick: 0, trace: vec![], names, held: vec![] })
    }
    /// a Kanata for a configuration given as text (L lines)
    fn from_text(text: &str) -> Result<Self, String> {
        let k = Kanata::new_from_str(text, Default::default()).map_err(|e| format!("{e:?}"))?;
        let names = KEYS
            .iter()
            .map(|n| (format!("{:?}", KeyCode::from(str_to_oscode(n).unwrap())), osc(n)))
            .collect();
        Ok(Runner { k, seen: 0, abs_tick: 0, trace: vec![], names, held: vec![] })
    }
    fn code_of(&self, name: &str) -> u16 {
        for (n, c) in &self.names {
            if n == name {
                return *c;
            }
        }
        9999
    }
    /// consume new kbd_out events; returns the OS key events among them
    fn drain(&mut self) -> Vec<(u64, bool, u16)> {
        let mut new = vec![];
        let evs = &self.k.kbd_out.outputs.events;
        while self.seen < evs.len() {
            let e = evs[self.seen].clone();
            self.seen += 1;
            if let Some(ms) = e.strip_prefix("t:") {
                self.abs_tick += ms.trim_end_matches("ms").parse::<u64>().unwrap();
            } else if let Some(x) = e.strip_prefix("out:↓") {
                new.push((self.abs_tick, true, self.code_of(x)));
            } else if let Some(x) = e.strip_prefix("out:↑") {
                new.push((self.abs_tick, false, self.code_of(x)));
            } else {
                new.push((self.abs_tick, true, 9998));
            }
        }
        self.trace.extend(new.iter().copied());
        new
    }
    fn rec_digest(&self) -> Option<String> {
        self.k.dynamic_macro_record_state.as_ref().map(|r| r.verif_digest())
    }
    fn input(&mut self, code: u16, press: bool) {
        self.k
            .handle_input_event(&KeyEvent {
                code: oscode(code),
                value: if press { KeyValue::Press } else { KeyValue::Release },
            })
            .expect("handle_input_event");
        self.held.retain(|h| *h != code);
        if press {
            self.held.push(code);
        }
    }
    fn wait(&mut self, n: u32) -> bool {
        let mut fuel = W_FUEL;
        while self.k.dynamic_macro_replay_state.is_some() {
            if fuel == 0 {
                return false;
            }
            fuel -= 1;
            self.k.tick_ms(1, &None).expect("tick_ms");
        }
        for _ in 0..n {
            self.k.tick_ms(1, &None).expect("tick_ms");
        }
        true
    }
}

fn rec_summary(d: &Option<String>) -> String {
    match d {
        None => "r-".to_string(),
        Some(s) => {
            let p: Vec<&str> = s.split(';').collect();
            let n = if p[3].is_empty() { 0 } else { p[3].split(',').count() };
            format!("r{}:{}:{}:{}", p[0], p[1], p[2], n)
        }
    }
}
fn rep_summary(d: &Option<String>) -> String {
    match d {
        None => "q-".to_string(),
        Some(s) => {
            let p: Vec<&str> = s.split(';').collect();
            let n = if p[2].is_empty() { 0 } else { p[2].split(',').count() };
            format!("q{}:{}:{}", p[0].replace(',', "."), p[1], n)
        }
    }
}

fn has_opaque(c: &KCase) -> bool {
    c.keys.iter().any(|k| k.kind == 2)
}
fn keydef(c: &KCase, o: u16) -> Option<&KeyDef> {
    c.keys.iter().find(|k| k.osc == o)
}

/// The shared rule that says when the "same output as typing" clause applies to a case with four
/// markers A B C D (typed window A..B, replay window C..D). The Lean specification has the same rule.
pub fn same_applicable(c: &KCase) -> bool {
    let steps: Vec<&Step> = c.steps.iter().filter(|s| !matches!(s, Step::H(_))).collect();
    let marks: Vec<usize> = steps.iter().enumerate().filter(|(_, s)| ***s == Step::M).map(|(i, _)| i).collect();
    if marks.len() != 4 {
        return false;
    }
    let (a, b, cc, d) = (marks[0], marks[1], marks[2], marks[3]);
    let has_out = |o: u16| keydef(c, o).map(|k| k.kind != 0).unwrap_or(true);
    let held_at = |pos: usize| -> Vec<u16> {
        let mut h: Vec<u16> = vec![];
        for s in &steps[..pos] {
            match s {
                Step::D(o) => {
                    h.retain(|x| x != o);
                    h.push(*o)
                }
                Step::U(o) => h.retain(|x| x != o),
                _ => {}
            }
        }
        h
    };
    // the record key is pressed (and given a tick) right before A, with no recording running and
    // the layout queue empty (one event is dequeued per tick)
    let qlen_at = |pos: usize| -> u64 {
        let mut q: u64 = 0;
        for s in &steps[..pos] {
            match s {
                Step::D(_) | Step::U(_) => q += 1,
                Step::T(n) | Step::W(n) => q = q.saturating_sub(u64::from(*n)),
                _ => {}
            }
        }
        q
    };
    if a < 2 || !matches!(steps[a - 1], Step::T(n) if *n >= 1) {
        return false;
    }
    let rec_id = match steps[a - 2] {
        Step::D(o) => match keydef(c, *o) {
            Some(k) if k.kind == 0 && k.acts.len() == 1 => match k.acts[0] {
                Act::B(id) => id,
                _ => return false,
            },
            _ => return false,
        },
        _ => return false,
    };
    if qlen_at(a - 2) != 0 {
        return false;
    }
    let mut recording = false;
    for s in &steps[..a - 2] {
        if let Step::D(o) = s {
            if let Some(k) = keydef(c, *o) {
                for x in &k.acts {
                    match x {
                        Act::B(_) => {
                            if recording {
                                return false;
                            }
                            recording = true
                        }
                        Act::S(_) => recording = false,
                        Act::Y(_) => {}
                    }
                }
            }
        }
    }
    if recording {
        return false;
    }
    // nothing that produces output is physically held when either window opens
    if held_at(a).iter().any(|o| has_out(*o)) || held_at(cc).iter().any(|o| has_out(*o)) {
        return false;
    }
    // typed window: no dynamic-macro action other than play fires, every play is waited for, and
    // the recording limit is not reached; every event is followed by at least one tick
    let mut nev = 0usize;
    let mut i = a + 1;
    while i < b {
        match steps[i] {
            Step::D(o) | Step::U(o) => {
                nev += 1;
                let kd = match keydef(c, *o) {
                    Some(k) => k,
                    None => return false,
                };
                let press = matches!(steps[i], Step::D(_));
                if press && kd.acts.iter().any(|x| !matches!(x, Act::Y(_))) {
                    return false;
                }
                let plays = press && !kd.acts.is_empty();
                match steps.get(i + 1) {
                    Some(Step::T(n)) if *n >= 1 => {}
                    _ => return false,
                }
                if plays && !matches!(steps.get(i + 2), Some(Step::W(_))) {
                    return false;
                }
            }
            Step::M => return false,
            _ => {}
        }
        i += 1;
    }
    // between B and C: the truncated events, the stop key, releases; nothing that plays or records
    let mut ntrunc = 0usize;
    let mut stop_n: Option<u16> = None;
    for i in b + 1..cc {
        let ticked = matches!(steps.get(i + 1), Some(Step::T(n)) if *n >= 1);
        match steps[i] {
            Step::D(o) => {
                let kd = match keydef(c, *o) {
                    Some(k) => k,
                    None => return false,
                };
                if stop_n.is_none() {
                    // the truncated events and the stop key are each followed by a tick
                    if !ticked {
                        return false;
                    }
                    if kd.acts.len() == 1 {
                        if let Act::S(n) = kd.acts[0] {
                            if kd.kind == 0 {
                                stop_n = Some(n);
                                continue;
                            }
                        }
                    }
                    if !kd.acts.is_empty() {
                        return false;
                    }
                    ntrunc += 1;
                } else if !kd.acts.is_empty() {
                    return false;
                }
            }
            Step::U(_) => {
                if stop_n.is_none() {
                    if !ticked {
                        return false;
                    }
                    ntrunc += 1;
                }
            }
            _ => {}
        }
    }
    match stop_n {
        Some(n) if usize::from(n) == ntrunc => {}
        _ => return false,
    }
    if nev + ntrunc + 1 > 2 * usize::from(c.max) {
        return false;
    }
    // replay window: only the play key (no key output) is touched
    if qlen_at(cc) != 0 {
        return false;
    }
    let mut play_keys = 0;
    let mut waited = false;
    for s in &steps[cc + 1..d] {
        match s {
            Step::W(_) => waited = true,
            Step::U(_) if has_opaque(c) && !waited => return false,
            Step::D(o) => {
                let kd = match keydef(c, *o) {
                    Some(k) => k,
                    None => return false,
                };
                if kd.kind != 0 || kd.acts.len() != 1 || kd.acts[0] != Act::Y(rec_id) {
                    return false;
                }
                play_keys += 1;
            }
            Step::U(o) => {
                if keydef(c, *o).map(|k| k.kind != 0).unwrap_or(true) {
                    return false;
                }
            }
            _ => {}
        }
    }
    if play_keys != 1 {
        return false;
    }
    if has_opaque(c) {
        // time-sensitive mappings: only with recorded delays and nothing truncated, and with enough
        // idle time at the end of both windows for every tap-hold to have resolved (they resolve one
        // after the other, each within its timeout of at most 200)
        if c.beh != 1 || ntrunc != 0 {
            return false;
        }
        let n_th = steps[a + 1..b]
            .iter()
            .filter(|s| matches!(s, Step::D(o) if keydef(c, *o).map(|k| k.kind == 2).unwrap_or(false)))
            .count() as u32;
        let need = 250 * (n_th + 1);
        if c.keys.iter().any(|k| k.kind == 2 && k.a[2] > 200) {
            return false;
        }
        if !matches!(steps[b - 1], Step::T(n) if *n >= need) {
            return false;
        }
        if !steps[cc + 1..d].iter().any(|s| matches!(s, Step::W(n) if *n >= need)) {
            return false;
        }
    }
    true
}

/// `same`: the replay window's OS key events are the typed window's, followed by releases (in any
/// order) of exactly the keys the typed window left down. With `timing`, the gaps between
/// consecutive events of the common part must be equal too.
fn same_verdict(t: &[(u64, bool, u16)], r: &[(u64, bool, u16)], timing: bool) -> bool {
    if r.len() < t.len() {
        return false;
    }
    for i in 0..t.len() {
        if (t[i].1, t[i].2) != (r[i].1, r[i].2) {
            return false;
        }
        if timing && i > 0 && t[i].0 - t[i - 1].0 != r[i].0 - r[i - 1].0 {
            return false;
        }
    }
    let mut down: Vec<u16> = vec![];
    for e in t {
        down.retain(|x| *x != e.2);
        if e.1 {
            down.push(e.2);
        }
    }
    let mut rest: Vec<u16> = vec![];
    for e in &r[t.len()..] {
        if e.1 {
            return false;
        }
        rest.push(e.2);
    }
    // a key that was pressed twice without a release in between is released twice by kanata (two
    // entries in `prev_keys`), when typed as well as when replayed: compare as sets
    down.sort();
    rest.sort();
    rest.dedup();
    down == rest
}

/// Runs a K case on the real Kanata. Returns the canonical output and the hint observed per step.
fn run_k(c: &KCase) -> (String, Vec<Option<Vec<u16>>>) {
    let mut r = match Runner::new(c) {
        Ok(r) => r,
        Err(e) => return (format!("harness-error cfg rejected: {}", e.replace('\n', " ")), vec![]),
    };
    let opaque = has_opaque(c);
    let mut segs: Vec<String> = vec![];
    let mut marks: Vec<usize> = vec![];
    let mut hints: Vec<Option<Vec<u16>>> = vec![];
    let mut prev_store: FxHashMap<u16, String> = Default::default();
    let mut steps = c.steps.clone();
    steps.push(Step::H(vec![])); // placeholder replaced by the final drain below
    let nsteps = steps.len();
    for (si, st) in steps.iter().enumerate() {
        let last = si + 1 == nsteps;
        let before = r.rec_digest();
        match st {
            _ if last => {
                let mut h = r.held.clone();
                h.sort();
                for o in h {
                    r.input(o, false);
                }
                if !r.wait(300) {
                    return ("hang".to_string(), hints);
                }
            }
            Step::D(o) => r.input(*o, true),
            Step::U(o) => r.input(*o, false),
            Step::T(n) => r.k.tick_ms(*n as u128, &None).expect("tick_ms"),
            Step::W(n) => {
                if !r.wait(*n) {
                    return ("hang".to_string(), hints);
                }
            }
            Step::M => {
                r.drain();
                marks.push(r.trace.len());
                hints.push(None);
                continue;
            }
            Step::H(_) => {
                hints.push(None);
                continue;
            }
        }
        let new = r.drain();
        let after = r.rec_digest();
        // hint discovery: the recording that was running before the step ended in it
        let mut hint = None;
        if let Some(b) = &before {
            let bid: u16 = b.split(';').next().unwrap().parse().unwrap();
            let ended = match &after {
                None => true,
                Some(a) => {
                    let p: Vec<&str> = a.split(';').collect();
                    p[1] == "-" && p[3].is_empty()
                }
            };
            if ended {
                if let Some(items) = r.k.dynamic_macros.get(&bid) {
                    let t = tail_hint(items);
                    if t.len() >= 2 {
                        hint = Some(t);
                    }
                }
            }
        }
        hints.push(hint);
        let os = if opaque {
            "~".to_string()
        } else if new.is_empty() {
            "-".to_string()
        } else {
            new.iter().map(|(t, d, c)| format!("{}{}@{}", if *d { '+' } else { '-' }, c, t)).collect::<Vec<_>>().join(",")
        };
        let reps = r.k.dynamic_macro_replay_state.as_ref().map(|x| x.verif_digest());
        let mut seg = format!("{};{};{}", os, rec_summary(&after), rep_summary(&reps));
        let mut ids: Vec<u16> = r.k.dynamic_macros.keys().copied().collect();
        ids.sort();
        for id in ids {
            let s = items_str(&r.k.dynamic_macros[&id]);
            if prev_store.get(&id) != Some(&s) {
                seg.push_str(&format!(";S{id}=[{s}]"));
                prev_store.insert(id, s);
            }
        }
        segs.push(seg);
    }
    // verdicts
    let mut down: Vec<u16> = vec![];
    for e in &r.trace {
        down.retain(|x| *x != e.2);
        if e.1 {
            down.push(e.2);
        }
    }
    let clean = down.is_empty();
    let same = if marks.len() == 4 && same_applicable(c) {
        if same_verdict(&r.trace[marks[0]..marks[1]], &r.trace[marks[2]..marks[3]], opaque) {
            "1"
        } else {
            "0"
        }
    } else {
        "na"
    };
    let recs = r.rec_digest().unwrap_or("-".to_string());
    if std::env::var("KV_C19_TRACE").is_ok() {
        eprintln!("marks {:?} trace {:?}", marks, r.trace);
    }
    (
        format!(
            "K {} # rec {} # st {} # V same={} clean={}",
            segs.join(" | "),
            recs,
            store_str(&r.k.dynamic_macros),
            same,
            if clean { 1 } else { 0 }
        ),
        hints,
    )
}

fn with_k_hints(c: &KCase) -> KCase {
    let base: Vec<Step> = c.steps.iter().filter(|s| !matches!(s, Step::H(_))).cloned().collect();
    let c0 = KCase { steps: base.clone(), ..c.clone() };
    let hints = match std::panic::catch_unwind(|| run_k(&c0).1) {
        Ok(h) => h,
        Err(_) => return c0,
    };
    let mut steps = vec![];
    for (i, s) in base.iter().enumerate() {
        if let Some(Some(h)) = hints.get(i) {
            steps.push(Step::H(h.clone()));
        }
        steps.push(s.clone());
    }
    // a hint for the implicit final drain goes last
    if let Some(Some(h)) = hints.get(base.len()) {
        steps.push(Step::H(h.clone()));
    }
    KCase { steps, ..c.clone() }
}

pub fn eval(line: &str) -> String {
    let mut t = Toks { t: line.split_whitespace().collect(), i: 0 };
    if t.next() != Some("C19") {
        return "harness-error bad case line".to_string();
    }
    match t.next() {
        Some("U") => match parse_u(&mut t) {
            Some(c) => run_u(&c).0,
            None => "harness-error bad case line".to_string(),
        },
        Some("K") => match parse_k(&mut t) {
            Some(c) => run_k(&c).0,
            None => "harness-error bad case line".to_string(),
        },
        Some("L") => match parse_l(&mut t) {
            Some(c) => run_l(&c),
            None => "harness-error bad case line".to_string(),
        },
        _ => "harness-error bad case line".to_string(),
    }
}

// ------------------------------------------------------------------ L lines: model-free end to end
//
// `C19 L <hex(cfg text)> <nstop> <stop osc>* <nsteps> step*` - a real `Kanata` on a configuration
// given as text, for key shapes the one-layer model `Flat` does not have: dynamic-macro actions that
// fire LATE (as the tap of a tap-hold, i.e. on the release of the key; as a tap-dance item, i.e. at
// the dance timeout; behind a pending tap-hold that holds the queue). Steps as in K lines, except
// that `t n` is n calls of `tick_ms(1)`. At the end every key still held is released and 3000 more
// ticks run. Output: `L <OS key events> # st <stored macros> # V rest=<0|1> starts=<n> clean=<0|1>`
//   rest   = during the last 1500 of those ticks nothing was sent to the OS and no replay was active
//   starts = how many times a replay began (replay state None -> Some over one tick)
//   clean  = no key is down at the OS at the end
// The listed stop keys are keys whose (only) dynamic-macro action is a stop; the generator taps each
// of them only to stop a running recording, so none of their events belongs into a stored macro.
// Judged by `_c19_free_oracle` in runner/props.py; the Lean driver answers `L` (no model).

pub struct LCase {
    pub cfg: String,
    pub stops: Vec<u16>,
    pub steps: Vec<Step>,
}

pub fn l_line(c: &LCase) -> String {
    let mut s = format!("C19 L {} {}", crate::lay::hex(&c.cfg), c.stops.len());
    for o in &c.stops {
        s.push_str(&format!(" {o}"));
    }
    s.push_str(&format!(" {}", c.steps.len()));
    for st in &c.steps {
        match st {
            Step::D(o) => s.push_str(&format!(" d {o}")),
            Step::U(o) => s.push_str(&format!(" u {o}")),
            Step::T(n) => s.push_str(&format!(" t {n}")),
            Step::W(n) => s.push_str(&format!(" w {n}")),
            Step::M => s.push_str(" m"),
            Step::H(h) => s.push_str(&format!(" h {}", hint_str(h))),
        }
    }
    s
}

fn parse_l(t: &mut Toks) -> Option<LCase> {
    let cfg = crate::lay::unhex(t.next()?);
    let stops = t.hint()?;
    let ns = t.num()?;
    let mut steps = vec![];
    for _ in 0..ns {
        steps.push(match t.next()? {
            "d" => Step::D(t.num()? as u16),
            "u" => Step::U(t.num()? as u16),
            "t" => Step::T(t.num()? as u32),
            "w" => Step::W(t.num()? as u32),
            _ => return None,
        });
    }
    Some(LCase { cfg, stops, steps })
}

const L_TAIL: u32 = 3000;
const L_QUIET: u32 = 1500;

fn run_l(c: &LCase) -> String {
    let mut r = match Runner::from_text(&c.cfg) {
        Ok(r) => r,
        Err(e) => return format!("harness-error cfg rejected: {}", e.replace('\n', " ")),
    };
    let mut starts = 0u32;
    let mut tick1 = |r: &mut Runner| {
        let was = r.k.dynamic_macro_replay_state.is_some();
        r.k.tick_ms(1, &None).expect("tick_ms");
        if !was && r.k.dynamic_macro_replay_state.is_some() {
            starts += 1;
        }
    };
    for st in &c.steps {
        match st {
            Step::D(o) => r.input(*o, true),
            Step::U(o) => r.input(*o, false),
            Step::T(n) => {
                for _ in 0..*n {
                    tick1(&mut r);
                }
            }
            Step::W(n) => {
                let mut fuel = W_FUEL;
                while r.k.dynamic_macro_replay_state.is_some() {
                    if fuel == 0 {
                        return "hang".to_string();
                    }
                    fuel -= 1;
                    tick1(&mut r);
                }
                for _ in 0..*n {
                    tick1(&mut r);
                }
            }
            _ => {}
        }
    }
    let mut h = r.held.clone();
    h.sort();
    for o in h {
        r.input(o, false);
    }
    let mut rest = true;
    for i in 0..L_TAIL {
        let n = r.drain().len();
        tick1(&mut r);
        let n = n + r.drain().len();
        if i >= L_TAIL - L_QUIET && (n != 0 || r.k.dynamic_macro_replay_state.is_some()) {
            rest = false;
        }
    }
    r.drain();
    let mut down: Vec<u16> = vec![];
    for e in &r.trace {
        down.retain(|x| *x != e.2);
        if e.1 {
            down.push(e.2);
        }
    }
    let mut os: Vec<String> =
        r.trace.iter().take(60).map(|(t, d, c)| format!("{}{}@{}", if *d { '+' } else { '-' }, c, t)).collect();
    if r.trace.len() > 60 {
        os.push(format!("...{}", r.trace.len()));
    }
    format!(
        "L {} # st {} # V rest={} starts={} clean={}",
        if os.is_empty() { "-".to_string() } else { os.join(",") },
        store_str(&r.k.dynamic_macros),
        rest as u8,
        starts,
        down.is_empty() as u8
    )
}

// ------------------------------------------------------------------ generators

const TYPE_KEYS: [&str; 6] = ["a", "b", "c", "d", "e", "lsft"];

fn u_alphabet() -> Vec<Op> {
    let a = osc("a");
    let b = osc("b");
    vec![
        Op::B(1, vec![]),
        Op::B(2, vec![]),
        Op::P(a, vec![]),
        Op::P(b, vec![]),
        Op::R(a),
        Op::R(b),
        Op::S(0, vec![]),
        Op::S(1, vec![]),
        Op::Y(1),
        Op::Y(2),
        Op::T,
        Op::X,
    ]
}

fn gen_u_exhaustive(len: usize, out: &mut Vec<String>) {
    let alpha = u_alphabet();
    let n = alpha.len();
    let mut idx = vec![0usize; len];
    loop {
        let ops: Vec<Op> = idx.iter().map(|i| alpha[*i].clone()).collect();
        for beh in [1u8] {
            out.push(u_line(&with_u_hints(&UCase { beh, max: 1, ops: ops.clone() })));
        }
        let mut p = len;
        loop {
            if p == 0 {
                return;
            }
            p -= 1;
            idx[p] += 1;
            if idx[p] < n {
                break;
            }
            idx[p] = 0;
        }
    }
}

fn gen_u_random(r: &mut Rng, long: bool) -> UCase {
    let beh = r.below(2) as u8;
    let max = *r.pick(&[0u16, 1, 2, 3, 5, 128]);
    let n = if long { r.range(30, 120) } else { r.range(4, 30) };
    let keys: Vec<u16> = TYPE_KEYS.iter().map(|k| osc(k)).collect();
    let mut ops = vec![];
    // a bias per case keeps sessions alive long enough to be interesting
    let stop_w = r.range(1, 6);
    for _ in 0..n {
        let op = match r.below(40) {
            0..=2 => Op::B(r.range(1, 3) as u16, vec![]),
            3..=13 => Op::P(*r.pick(&keys), vec![]),
            14..=22 => Op::R(*r.pick(&keys)),
            23..=28 => {
                if r.below(6) < stop_w {
                    Op::S(*r.pick(&[0u16, 0, 0, 1, 2, 3, 7, 200]), vec![])
                } else {
                    Op::T
                }
            }
            29..=31 => Op::Y(r.range(1, 3) as u16),
            32..=34 => Op::T,
            _ => Op::X,
        };
        ops.push(op);
    }
    // make replays finish in some cases
    if r.chance(1, 2) {
        for _ in 0..r.range(5, 60) {
            ops.push(Op::X);
        }
    }
    UCase { beh, max, ops }
}

/// keys of the end-to-end configurations
struct Kb {
    keys: Vec<KeyDef>,
    plain: Vec<u16>,    // physical keys with key output and no action
    rec: Vec<(u16, u16)>,   // (physical key, macro id)
    play: Vec<(u16, u16)>,
    stop: Vec<(u16, u16)>,  // (physical key, truncate n)
}

fn plain_kd(o: &str, out: &str) -> KeyDef {
    KeyDef { osc: osc(o), kind: 1, a: [osc(out), 0, 0], acts: vec![] }
}
fn act_kd(o: &str, acts: Vec<Act>) -> KeyDef {
    KeyDef { osc: osc(o), kind: 0, a: [0, 0, 0], acts }
}

fn kb_standard(r: &mut Rng, opaque: bool, truncs: &[u16]) -> Kb {
    let mut keys = vec![];
    let mut plain = vec![];
    let outs = ["a", "b", "c", "x", "lsft"];
    for (i, k) in ["a", "b", "c", "d", "lsft"].iter().enumerate() {
        // d -> x: a key that outputs another key; occasionally two keys share an output
        let out = if *k == "d" && r.chance(1, 6) { "a" } else { outs[i] };
        if opaque && (i == 1 || i == 3) {
            let hold = if i == 1 { "lsft" } else { "y" };
            let to = *r.pick(&[50u16, 120, 200]);
            keys.push(KeyDef { osc: osc(k), kind: 2, a: [osc(out), osc(hold), to], acts: vec![] });
        } else {
            keys.push(plain_kd(k, out));
        }
        plain.push(osc(k));
    }
    let mut rec = vec![];
    let mut play = vec![];
    let mut stop = vec![];
    for (i, k) in ["1", "2", "3"].iter().enumerate() {
        keys.push(act_kd(k, vec![Act::B(i as u16 + 1)]));
        rec.push((osc(k), i as u16 + 1));
    }
    for (i, k) in ["4", "5", "6"].iter().enumerate() {
        keys.push(act_kd(k, vec![Act::Y(i as u16 + 1)]));
        play.push((osc(k), i as u16 + 1));
    }
    for (i, k) in ["7", "8", "9"].iter().enumerate() {
        let n = truncs.get(i).copied().unwrap_or(i as u16);
        keys.push(act_kd(k, vec![Act::S(n)]));
        stop.push((osc(k), n));
    }
    Kb { keys, plain, rec, play, stop }
}

fn gap(r: &mut Rng, allow_zero: bool, long: bool) -> Option<Step> {
    let g = match r.below(12) {
        0 if allow_zero => 0,
        1..=6 => 1,
        7..=9 => r.range(2, 12) as u32,
        10 if long => r.range(100, 320) as u32,
        _ => r.range(1, 3) as u32,
    };
    if g == 0 {
        None
    } else {
        Some(Step::T(g))
    }
}

/// typed events over the plain keys: a mostly consistent press/release history; `leave` = how many
/// keys may remain held at the end
fn typed(r: &mut Rng, kb: &Kb, n: usize, held: &mut Vec<u16>, allow_zero_gap: bool, long: bool, steps: &mut Vec<Step>) {
    for _ in 0..n {
        let press = held.is_empty() || (held.len() < 3 && r.chance(3, 5));
        if press {
            let k = *r.pick(&kb.plain);
            if held.contains(&k) && !r.chance(1, 8) {
                continue;
            }
            steps.push(Step::D(k));
            if !held.contains(&k) {
                held.push(k);
            }
        } else {
            let i = r.below(held.len() as u64) as usize;
            let k = held.remove(i);
            steps.push(Step::U(k));
        }
        if let Some(g) = gap(r, allow_zero_gap, long) {
            steps.push(g);
        }
    }
}

fn release_all(r: &mut Rng, held: &mut Vec<u16>, steps: &mut Vec<Step>) {
    while let Some(k) = held.pop() {
        steps.push(Step::U(k));
        steps.push(Step::T(r.range(1, 3) as u32));
    }
}

/// record – type – stop – replay with markers around the typed and the replayed part
fn gen_scenario(r: &mut Rng, opaque: bool) -> KCase {
    let beh = if opaque && r.chance(2, 3) { 1 } else { r.below(2) as u8 };
    let ntr = if opaque { 0 } else { *r.pick(&[0u16, 0, 1, 2, 3]) };
    let kb = kb_standard(r, opaque, &[ntr, 0, 1]);
    let max = if r.chance(1, 8) { r.range(2, 6) as u16 } else { 128 };
    let mut steps = vec![];
    let mut held: Vec<u16> = vec![];
    let strict = opaque || r.chance(2, 3); // strict: the preconditions of the "same output" clause hold
    // before: maybe hold a key across the start boundary
    if !strict && r.chance(1, 2) {
        let n0 = r.range(1, 3) as usize;
        typed(r, &kb, n0, &mut held, true, false, &mut steps);
    }
    // an earlier recording of another macro, for nested play
    let nested = !opaque && r.chance(1, 4);
    if nested {
        steps.push(Step::D(kb.rec[1].0));
        steps.push(Step::T(1));
        steps.push(Step::U(kb.rec[1].0));
        steps.push(Step::T(2));
        let mut h2 = vec![];
        let n0 = r.range(1, 4) as usize;
        typed(r, &kb, n0, &mut h2, false, false, &mut steps);
        if steps.last().map(|s| !matches!(s, Step::T(_))).unwrap_or(true) {
            steps.push(Step::T(1));
        }
        if opaque {
            steps.push(Step::T(260));
        }
        steps.push(Step::D(kb.stop[1].0));
        steps.push(Step::T(1));
        steps.push(Step::U(kb.stop[1].0));
        steps.push(Step::T(1));
        release_all(r, &mut h2, &mut steps);
        if opaque {
            steps.push(Step::T(260));
        }
    }
    let (rk, id) = kb.rec[0];
    steps.push(Step::D(rk));
    steps.push(Step::T(1));
    steps.push(Step::M);
    steps.push(Step::U(rk));
    steps.push(Step::T(r.range(1, 4) as u32));
    let n = r.range(1, if max < 128 { 16 } else { 9 }) as usize;
    let mut t_steps = vec![];
    let long = opaque || r.chance(1, 6);
    typed(r, &kb, n, &mut held, !strict, long, &mut t_steps);
    // strict: a tick after every event
    let mut fixed = vec![];
    for (i, s) in t_steps.iter().enumerate() {
        fixed.push(s.clone());
        if strict && matches!(s, Step::D(_) | Step::U(_)) && !matches!(t_steps.get(i + 1), Some(Step::T(_))) {
            fixed.push(Step::T(1));
        }
    }
    // nested play typed in the middle
    if nested && r.chance(2, 3) {
        let pos = {
            let cands: Vec<usize> = (0..=fixed.len()).filter(|i| *i == 0 || matches!(fixed[*i - 1], Step::T(_))).collect();
            *r.pick(&cands)
        };
        let pk = kb.play[1].0;
        let ins = vec![Step::D(pk), Step::T(1), Step::W(if opaque { 260 } else { 3 }), Step::U(pk), Step::T(1)];
        for (j, s) in ins.iter().cloned().enumerate() {
            fixed.insert(pos + j, s);
        }
        // the same nested macro a second time (its end marker must have cleared the guard)
        if r.chance(1, 2) {
            fixed.extend(ins);
        }
    }
    // time-sensitive keys: tap-holds resolve one after the other, each within its timeout (<= 200)
    let n_th = fixed.iter().filter(|s| matches!(s, Step::D(o) if kb.keys.iter().any(|k| k.osc == *o && k.kind == 2))).count() as u32;
    let settle = 250 * (n_th + 1);
    // split off the truncated tail: the last ntr events (each followed by its tick)
    let ev_idx: Vec<usize> = fixed.iter().enumerate().filter(|(_, s)| matches!(s, Step::D(_) | Step::U(_))).map(|(i, _)| i).collect();
    let cut = if (ntr as usize) <= ev_idx.len() && ntr > 0 { ev_idx[ev_idx.len() - ntr as usize] } else { fixed.len() };
    let tail: Vec<Step> = fixed.split_off(cut);
    steps.extend(fixed);
    if opaque {
        steps.push(Step::T(settle));
    }
    steps.push(Step::M);
    steps.extend(tail);
    let (sk, _) = kb.stop[0];
    steps.push(Step::D(sk));
    steps.push(Step::T(1));
    steps.push(Step::U(sk));
    steps.push(Step::T(r.range(1, 3) as u32));
    if strict || r.chance(1, 2) {
        release_all(r, &mut held, &mut steps);
    }
    if opaque {
        steps.push(Step::T(settle));
    }
    steps.push(Step::M);
    let pk = kb.play.iter().find(|p| p.1 == id).unwrap().0;
    steps.push(Step::D(pk));
    steps.push(Step::T(1));
    // with time-sensitive keys the play key is held until the replay is over: its release would
    // take a slot in the layout queue and delay a replayed event by a tick
    if !opaque {
        steps.push(Step::U(pk));
    }
    if !strict && r.chance(1, 3) {
        // typing during the replay
        let n0 = r.range(1, 4) as usize;
        typed(r, &kb, n0, &mut held, true, false, &mut steps);
    }
    steps.push(Step::W(if opaque { settle } else { 4 }));
    if opaque {
        steps.push(Step::U(pk));
        steps.push(Step::T(2));
    }
    steps.push(Step::M);
    if r.chance(1, 3) {
        // replay again, without markers
        steps.push(Step::D(pk));
        steps.push(Step::T(r.range(1, 7) as u32));
        steps.push(Step::U(pk));
        steps.push(Step::T(r.range(1, 40) as u32));
    }
    KCase { beh, max, keys: kb.keys, steps }
}

/// random histories over plain keys, dynamic-macro keys and a few `multi` keys
fn gen_random_k(r: &mut Rng, crashy: bool) -> KCase {
    let beh = r.below(2) as u8;
    let max = *r.pick(&[0u16, 1, 2, 3, 128, 128]);
    let mut kb = kb_standard(r, false, &[0, 1, 2]);
    // multi keys: key + action, and action pairs
    kb.keys.push(KeyDef { osc: osc("x"), kind: 1, a: [osc("x"), 0, 0], acts: vec![Act::Y(1)] });
    kb.keys.push(KeyDef { osc: osc("y"), kind: 1, a: [osc("y"), 0, 0], acts: vec![Act::B(2)] });
    let mut special = vec![osc("x"), osc("y")];
    if crashy {
        kb.keys.push(act_kd("z", vec![Act::B(1), Act::B(1)]));
        kb.keys.push(act_kd("0", vec![Act::B(1), Act::S(0)]));
        kb.keys.push(act_kd("spc", vec![Act::B(3), Act::Y(3)]));
        special.extend([osc("z"), osc("0"), osc("spc")]);
    }
    let dyn_keys: Vec<u16> = kb.rec.iter().chain(kb.play.iter()).chain(kb.stop.iter()).map(|x| x.0).chain(special).collect();
    let n = r.range(6, 60);
    let mut steps = vec![];
    let mut held: Vec<u16> = vec![];
    for _ in 0..n {
        match r.below(20) {
            0..=7 => typed(r, &kb, 1, &mut held, true, false, &mut steps),
            8..=14 => {
                let k = *r.pick(&dyn_keys);
                steps.push(Step::D(k));
                if !r.chance(1, 5) {
                    steps.push(Step::T(r.range(1, 3) as u32));
                }
                if !r.chance(1, 6) {
                    steps.push(Step::U(k));
                    if let Some(g) = gap(r, true, false) {
                        steps.push(g);
                    }
                }
            }
            15..=16 => steps.push(Step::T(r.range(1, 40) as u32)),
            17 => steps.push(Step::W(r.range(0, 5) as u32)),
            18 => {
                // physically inconsistent: release of a key that is not down, or a second press
                let k = *r.pick(&kb.plain);
                steps.push(if r.chance(1, 2) { Step::U(k) } else { Step::D(k) });
            }
            _ => steps.push(Step::T(r.range(200, 400) as u32)),
        }
    }
    KCase { beh, max, keys: kb.keys, steps }
}

/// the replay of a macro that presses a record key makes the next replay stop an empty recording
fn crash_cases() -> Vec<KCase> {
    let mut v = vec![];
    // (multi (dynamic-macro-record 1) (dynamic-macro-record 1)) pressed once
    v.push(KCase {
        beh: 1,
        max: 128,
        keys: vec![act_kd("z", vec![Act::B(1), Act::B(1)]), plain_kd("a", "a")],
        steps: vec![Step::D(osc("z")), Step::T(1), Step::U(osc("z")), Step::T(1)],
    });
    // (multi (dynamic-macro-record 1) dynamic-macro-record-stop)
    v.push(KCase {
        beh: 0,
        max: 128,
        keys: vec![act_kd("z", vec![Act::B(1), Act::S(0)]), plain_kd("a", "a")],
        steps: vec![Step::D(osc("z")), Step::T(1), Step::U(osc("z")), Step::T(1)],
    });
    // plain (non-multi) keys only. Macro 4 = press play-1, press play-3 (recorded while 1 and 3 do
    // not exist yet). Macro 1 keeps the press of the record-2 key (pressed in the same tick as
    // `a`, whose press is what gets dropped), macro 3 keeps the press of the stop key likewise.
    // Replaying 4 with the play key held: nested replay of 1 starts recording 2 with nothing typed,
    // nested replay of 3 presses stop -> stop_macro on an empty recording.
    let k = |n: &str| osc(n);
    let tap = |o: u16, v: &mut Vec<Step>| {
        v.push(Step::D(o));
        v.push(Step::T(1));
        v.push(Step::U(o));
        v.push(Step::T(1));
    };
    let mut st = vec![];
    tap(k("0"), &mut st);
    tap(k("4"), &mut st);
    tap(k("6"), &mut st);
    tap(k("7"), &mut st);
    tap(k("1"), &mut st);
    st.extend([Step::D(k("2")), Step::D(k("a")), Step::T(3), Step::U(k("2")), Step::U(k("a")), Step::T(1)]);
    tap(k("7"), &mut st);
    tap(k("3"), &mut st);
    st.extend([Step::D(k("7")), Step::D(k("a")), Step::T(3), Step::U(k("7")), Step::U(k("a")), Step::T(2)]);
    st.extend([Step::D(k("5")), Step::T(1), Step::W(5)]);
    v.push(KCase {
        beh: 0,
        max: 128,
        keys: vec![
            plain_kd("a", "a"),
            act_kd("1", vec![Act::B(1)]),
            act_kd("2", vec![Act::B(2)]),
            act_kd("3", vec![Act::B(3)]),
            act_kd("0", vec![Act::B(4)]),
            act_kd("4", vec![Act::Y(1)]),
            act_kd("6", vec![Act::Y(3)]),
            act_kd("5", vec![Act::Y(4)]),
            act_kd("7", vec![Act::S(0)]),
        ],
        steps: st,
    });
    v
}


/// unit level, structured: record a few macros, then replay them (nested plays, self-recursion
/// attempts) and tick the replay to its end
fn gen_u_session(r: &mut Rng) -> UCase {
    let beh = r.below(2) as u8;
    let max = *r.pick(&[1u16, 2, 3, 128, 128]);
    let keys: Vec<u16> = TYPE_KEYS.iter().map(|k| osc(k)).collect();
    let mut ops = vec![];
    let nm = r.range(1, 3) as u16;
    for m in 1..=nm {
        ops.push(Op::B(m, vec![]));
        for _ in 0..r.range(1, 12) {
            match r.below(10) {
                0..=4 => ops.push(Op::P(*r.pick(&keys), vec![])),
                5..=7 => ops.push(Op::R(*r.pick(&keys))),
                _ => {
                    for _ in 0..r.range(1, 4) {
                        ops.push(Op::T)
                    }
                }
            }
        }
        if r.chance(4, 5) {
            ops.push(Op::S(*r.pick(&[0u16, 0, 0, 1, 2]), vec![]));
        }
    }
    ops.push(Op::Y(r.range(1, nm as u64) as u16));
    for _ in 0..r.range(10, 150) {
        match r.below(14) {
            0 => ops.push(Op::Y(r.range(1, nm as u64 + 1) as u16)),
            1 => ops.push(Op::T),
            _ => ops.push(Op::X),
        }
    }
    UCase { beh, max, ops }
}

/// `tick_ms` with `ms_elapsed` of 65536 or more during a replay with recorded delays
fn gen_big_ms(r: &mut Rng) -> KCase {
    let kb = kb_standard(r, false, &[0, 0, 0]);
    let mut steps = vec![];
    let (rk, _) = kb.rec[0];
    let (sk, _) = kb.stop[0];
    let pk = kb.play[0].0;
    steps.extend([Step::D(rk), Step::T(1), Step::U(rk), Step::T(1)]);
    let (a, b) = (kb.plain[0], kb.plain[1]);
    let d1 = *r.pick(&[60000u32, 65535, 40000, 30000, 65000]);
    let d2 = *r.pick(&[50000u32, 65535, 20000, 1000, 7]);
    match r.below(3) {
        0 => steps.extend([Step::D(a), Step::T(d1), Step::D(b), Step::T(d2), Step::U(b), Step::T(1), Step::U(a), Step::T(1)]),
        1 => steps.extend([Step::D(a), Step::T(d1), Step::U(a), Step::T(d2), Step::D(b), Step::T(2), Step::U(b), Step::T(1)]),
        _ => steps.extend([Step::D(a), Step::T(d1), Step::D(b), Step::T(1), Step::U(b), Step::T(d2), Step::U(a), Step::T(1)]),
    }
    steps.extend([Step::D(sk), Step::T(1), Step::U(sk), Step::T(1)]);
    steps.extend([Step::D(pk), Step::T(*r.pick(&[65535u32, 65536, 65537, 70000, 100000, 131071, 131072, 140000])), Step::U(pk), Step::T(5)]);
    KCase { beh: 1, max: 128, keys: kb.keys, steps }
}

pub fn gen(tier: &str, seed: u64) -> Vec<String> {
    let mut r = Rng::new(seed ^ 0xC19);
    let thorough = tier == "thorough";
    let mut lines = vec![];
    for c in crash_cases() {
        lines.push(k_line(&with_k_hints(&c)));
    }
    // unit level: exhaustive short op sequences, then random ones
    for len in 1..=(if thorough { 5 } else { 3 }) {
        gen_u_exhaustive(len, &mut lines);
    }
    for i in 0..(if thorough { 60000 } else { 1500 }) {
        let c = gen_u_random(&mut r, i % 10 == 0);
        lines.push(u_line(&with_u_hints(&c)));
    }
    for _ in 0..(if thorough { 30000 } else { 600 }) {
        let c = gen_u_session(&mut r);
        lines.push(u_line(&with_u_hints(&c)));
    }
    // end to end
    for _ in 0..(if thorough { 200 } else { 8 }) {
        let c = gen_big_ms(&mut r);
        lines.push(k_line(&with_k_hints(&c)));
    }
    for _ in 0..(if thorough { 25000 } else { 500 }) {
        let c = gen_scenario(&mut r, false);
        lines.push(k_line(&with_k_hints(&c)));
    }
    for _ in 0..(if thorough { 8000 } else { 200 }) {
        let c = gen_scenario(&mut r, true);
        lines.push(k_line(&with_k_hints(&c)));
    }
    for i in 0..(if thorough { 25000 } else { 500 }) {
        let c = gen_random_k(&mut r, i % 4 == 0);
        lines.push(k_line(&with_k_hints(&c)));
    }
    gen_late(thorough, seed, &mut lines);
    // the composed kanata-level model (Model/Kanata.lean + KanataDyn + KanataDynTick) against the
    // real Kanata: whole-grammar and layered configurations extended with dynamic-macro keys
    lines.extend(crate::kandyn::gen_lines(tier, seed, 600));
    lines
}

/// L lines: dynamic-macro actions that fire late (see `run_l`). Keys: 1 = record 1, 2 = record 2,
/// 8 = the stop key, 5 = play 1, 6 = play 2, a/b = plain keys, e = a tap-hold with outputs, d = the
/// key under test. Every session records macro 1 (typing a, possibly the key under test), stops it
/// with one tap of the stop key and replays it once.
fn gen_late(thorough: bool, seed: u64, lines: &mut Vec<String>) {
    let mut r = Rng::new(seed ^ 0xC19D);
    let o = |n: &str| osc(n);
    let cfg = |beh: &str, d_act: &str, stop_act: &str, t: u32| -> String {
        format!(
            "(defcfg dynamic-macro-replay-delay-behaviour {beh})\n(defsrc 1 2 a b e d 8 5 6)\n(deflayer base (dynamic-macro-record 1) (dynamic-macro-record 2) a b (tap-hold {t} {t} x y) {d_act} {stop_act} (dynamic-macro-play 1) (dynamic-macro-play 2))\n"
        )
    };
    let tap = |st: &mut Vec<Step>, k: u16, hold: u32, after: u32| {
        st.push(Step::D(k));
        st.push(Step::T(hold));
        st.push(Step::U(k));
        st.push(Step::T(after));
    };
    let plain_stop = "dynamic-macro-record-stop";
    for beh in ["recorded", "constant"] {
        for t in [50u32, 100, 200] {
            // (A) the key under test plays a macro late; `own` = it plays the macro being recorded
            let late_play: Vec<(String, u32, bool)> = vec![
                (format!("(tap-dance {t} ((dynamic-macro-play 1) c))"), 10, true),
                (format!("(tap-dance {t} (c (dynamic-macro-play 1)))"), 10, true),
                (format!("(tap-hold {t} {t} (dynamic-macro-play 1) z)"), 10, true),
                (format!("(tap-hold {t} {t} z (dynamic-macro-play 1))"), t + 20, true),
                (format!("(tap-dance {t} ((dynamic-macro-play 2) c))"), 10, false),
                (format!("(tap-hold {t} {t} (dynamic-macro-play 2) z)"), 10, false),
                ("(dynamic-macro-play 1)".to_string(), 10, true),
            ];
            for (d_act, hold, own) in &late_play {
                let c = cfg(beh, d_act, plain_stop, t);
                for after in [1u32, 10, t + 50] {
                    for (behind_th, settle) in [(false, false), (true, false), (false, true), (true, true)] {
                        let mut st = vec![];
                        if !*own {
                            // macro 2 exists: a tap of b
                            tap(&mut st, o("2"), 5, 5);
                            tap(&mut st, o("b"), 5, 5);
                            tap(&mut st, o("2"), 5, 5);
                        }
                        tap(&mut st, o("1"), 10, 10);
                        tap(&mut st, o("a"), 10, 10);
                        if behind_th {
                            // the key under test is typed while the tap-hold e is undecided
                            st.push(Step::D(o("e")));
                            st.push(Step::T(3));
                            tap(&mut st, o("d"), *hold, 3);
                            st.push(Step::U(o("e")));
                            st.push(Step::T(after));
                        } else {
                            tap(&mut st, o("d"), *hold, after);
                        }
                        // a second tap of the dance key selects the second item
                        if d_act.starts_with("(tap-dance") && d_act.contains("(c (") {
                            tap(&mut st, o("d"), 10, after);
                        }
                        // settled: the late action has fired before the recording is stopped;
                        // otherwise the stop key is pressed while it is still pending
                        if settle {
                            st.push(Step::W(t + 50));
                        }
                        tap(&mut st, o("8"), 10, 10);
                        tap(&mut st, o("5"), 10, 10);
                        st.push(Step::W(10));
                        lines.push(l_line(&LCase { cfg: c.clone(), stops: vec![o("8")], steps: st }));
                    }
                }
            }
            // (B) the stop action fires late: on the release of its key, or at the dance timeout
            let late_stop: Vec<String> = vec![
                plain_stop.to_string(),
                format!("(tap-hold {t} {t} dynamic-macro-record-stop z)"),
                format!("(tap-dance {t} (dynamic-macro-record-stop c))"),
                format!("(tap-hold {t} {t} (dynamic-macro-record-stop-truncate 1) z)"),
                "(dynamic-macro-record-stop-truncate 2)".to_string(),
            ];
            for stop_act in &late_stop {
                let c = cfg(beh, "d", stop_act, t);
                for n_typed in [0usize, 1, 3] {
                    for hold in [1u32, 10, t - 5] {
                        let mut st = vec![];
                        tap(&mut st, o("1"), 10, 10);
                        for i in 0..n_typed {
                            tap(&mut st, o(*r.pick(&["a", "b", "d"])), 5 + i as u32, *r.pick(&[1u32, 5, 20]));
                        }
                        tap(&mut st, o("8"), hold, t + 50);
                        tap(&mut st, o("5"), 10, 10);
                        st.push(Step::W(10));
                        lines.push(l_line(&LCase { cfg: c.clone(), stops: vec![o("8")], steps: st }));
                    }
                }
            }
        }
    }
    let _ = thorough;
}
