//! C10: switch conditions. Generates key-match lists, renders them as kanata text, lets the real
//! parser compile them, and evaluates `Switch::actions` on a generated layout state.
use crate::rng::Rng;
use kanata_keyberon::action::Action;
use kanata_keyberon::key_code::KeyCode;
use kanata_keyberon::layout::HistoricalEvent;
use kanata_parser::cfg;
use kanata_parser::keys::{str_to_oscode, OsCode};

#[derive(Clone, Debug)]
pub enum E {
    Key(usize),                  // index into KEYS
    KeyHist(usize, u8),          // key, recency 1..=8 (config value)
    TicksLt(u8, u16),            // recency 1..=8, ms
    TicksGt(u8, u16),
    InputReal(usize),
    InputVirt(usize),            // index into virtual keys
    InputHistReal(usize, u8),
    InputHistVirt(usize, u8),
    Layer(usize),
    BaseLayer(usize),
    Node(u8, Vec<E>),            // 0 or, 1 and, 2 not
}

pub const KEYS: [&str; 8] = ["a", "b", "c", "d", "lsft", "spc", "1", "f13"];
pub const NLAYERS: usize = 4;
pub const NVIRT: usize = 3;

fn kc(i: usize) -> u16 {
    u16::from(str_to_oscode(KEYS[i]).unwrap())
}

const TICKS: [u16; 16] = [0, 1, 5, 100, 254, 255, 256, 257, 263, 264, 1000, 2303, 2304, 2431, 2432, 65535];

fn gen_leaf(r: &mut Rng) -> E {
    match r.below(12) {
        0..=3 => E::Key(r.below(KEYS.len() as u64) as usize),
        4 => E::KeyHist(r.below(KEYS.len() as u64) as usize, r.range(1, 8) as u8),
        5 => E::TicksLt(r.range(1, 8) as u8, if r.chance(1, 2) { *r.pick(&TICKS) } else { r.below(65536) as u16 }),
        6 => E::TicksGt(r.range(1, 8) as u8, if r.chance(1, 2) { *r.pick(&TICKS) } else { r.below(65536) as u16 }),
        7 => E::InputReal(r.below(KEYS.len() as u64) as usize),
        8 => E::InputVirt(r.below(NVIRT as u64) as usize),
        9 => {
            if r.chance(1, 2) {
                E::InputHistReal(r.below(KEYS.len() as u64) as usize, r.range(1, 8) as u8)
            } else {
                E::InputHistVirt(r.below(NVIRT as u64) as usize, r.range(1, 8) as u8)
            }
        }
        10 => E::Layer(r.below(NLAYERS as u64) as usize),
        _ => E::BaseLayer(r.below(NLAYERS as u64) as usize),
    }
}

/// depth = how many more operator levels may be opened below this item
fn gen_expr(r: &mut Rng, depth: u32, allow_empty: bool, deep_bias: bool) -> E {
    let node_p = if deep_bias { 3 } else { 2 };
    if depth == 0 || !r.chance(node_p, 4) {
        return gen_leaf(r);
    }
    let op = r.below(3) as u8;
    let n = if allow_empty && r.chance(1, 12) { 0 } else { r.range(1, if deep_bias { 2 } else { 4 }) };
    let mut v = vec![];
    for _ in 0..n {
        v.push(gen_expr(r, depth - 1, allow_empty, deep_bias));
    }
    E::Node(op, v)
}

fn tok_expr(e: &E, out: &mut Vec<String>) {
    match e {
        E::Key(k) => out.push(format!("k {}", kc(*k))),
        E::KeyHist(k, rec) => out.push(format!("kh {} {}", kc(*k), rec - 1)),
        E::TicksLt(n, t) => out.push(format!("tl {} {}", n - 1, t)),
        E::TicksGt(n, t) => out.push(format!("tg {} {}", n - 1, t)),
        E::InputReal(k) => out.push(format!("in 0 {}", kc(*k))),
        E::InputVirt(v) => out.push(format!("in 1 {}", v)),
        E::InputHistReal(k, rec) => out.push(format!("ih 0 {} {}", kc(*k), rec - 1)),
        E::InputHistVirt(v, rec) => out.push(format!("ih 1 {} {}", v, rec - 1)),
        E::Layer(l) => out.push(format!("ly {l}")),
        E::BaseLayer(l) => out.push(format!("bl {l}")),
        E::Node(op, cs) => {
            out.push(format!("{} {}", ["or", "and", "not"][*op as usize], cs.len()));
            for c in cs {
                tok_expr(c, out);
            }
        }
    }
}

fn text_expr(e: &E) -> String {
    match e {
        E::Key(k) => KEYS[*k].to_string(),
        E::KeyHist(k, rec) => format!("(key-history {} {})", KEYS[*k], rec),
        E::TicksLt(n, t) => format!("(key-timing {n} lt {t})"),
        E::TicksGt(n, t) => format!("(key-timing {n} gt {t})"),
        E::InputReal(k) => format!("(input real {})", KEYS[*k]),
        E::InputVirt(v) => format!("(input virtual v{v})"),
        E::InputHistReal(k, rec) => format!("(input-history real {} {})", KEYS[*k], rec),
        E::InputHistVirt(v, rec) => format!("(input-history virtual v{v} {rec})"),
        E::Layer(l) => format!("(layer l{l})"),
        E::BaseLayer(l) => format!("(base-layer l{l})"),
        E::Node(op, cs) => {
            let mut s = format!("({}", ["or", "and", "not"][*op as usize]);
            for c in cs {
                s.push(' ');
                s.push_str(&text_expr(c));
            }
            s.push(')');
            s
        }
    }
}

pub struct Env {
    pub ak: Vec<u16>,
    pub ac: Vec<(u8, u16)>,
    pub hk: Vec<(u16, u16)>,
    pub hc: Vec<((u8, u16), u16)>,
    pub ly: Vec<u16>,
    pub dl: u16,
}

fn gen_env(r: &mut Rng) -> Env {
    let mut ak = vec![];
    for i in 0..KEYS.len() {
        if r.chance(1, 3) {
            ak.push(kc(i));
        }
    }
    let mut ac = vec![];
    for i in 0..KEYS.len() {
        if r.chance(1, 4) {
            ac.push((0u8, kc(i)));
        }
    }
    for v in 0..NVIRT {
        if r.chance(1, 3) {
            ac.push((1u8, v as u16));
        }
    }
    let nh = r.below(9);
    let mut hk = vec![];
    let mut t = 0u16;
    for _ in 0..nh {
        t = t.saturating_add(if r.chance(1, 2) { *r.pick(&TICKS) } else { r.below(400) as u16 });
        hk.push((kc(r.below(KEYS.len() as u64) as usize), t));
    }
    let nh = r.below(9);
    let mut hc = vec![];
    let mut t = 0u16;
    for _ in 0..nh {
        t = t.saturating_add(r.below(3000) as u16);
        let c = if r.chance(2, 3) { (0u8, kc(r.below(KEYS.len() as u64) as usize)) } else { (1u8, r.below(NVIRT as u64) as u16) };
        hc.push((c, t));
    }
    let mut ly = vec![];
    for _ in 0..r.below(3) {
        ly.push(r.below(NLAYERS as u64) as u16);
    }
    Env { ak, ac, hk, hc, ly, dl: r.below(NLAYERS as u64) as u16 }
}

fn env_tokens(e: &Env) -> String {
    let mut s = String::from("ENV");
    s.push_str(&format!(" ak {}", e.ak.len()));
    for k in &e.ak {
        s.push_str(&format!(" {k}"));
    }
    s.push_str(&format!(" ac {}", e.ac.len()));
    for (r, y) in &e.ac {
        s.push_str(&format!(" {r} {y}"));
    }
    s.push_str(&format!(" hk {}", e.hk.len()));
    for (k, t) in &e.hk {
        s.push_str(&format!(" {k} {t}"));
    }
    s.push_str(&format!(" hc {}", e.hc.len()));
    for ((r, y), t) in &e.hc {
        s.push_str(&format!(" {r} {y} {t}"));
    }
    s.push_str(&format!(" ly {}", e.ly.len()));
    for l in &e.ly {
        s.push_str(&format!(" {l}"));
    }
    s.push_str(&format!(" dl {}", e.dl));
    s
}

fn case_line(cases: &[(bool, Vec<E>)], env: &Env) -> String {
    let mut toks = vec![format!("C10 {}", cases.len())];
    for (brk, es) in cases {
        toks.push(if *brk { "brk".into() } else { "ft".into() });
        toks.push(format!("L {}", es.len()));
        for e in es {
            tok_expr(e, &mut toks);
        }
    }
    toks.push(env_tokens(env));
    toks.join(" ")
}

/// All expression shapes with exactly `n` nodes over `nl` leaves (key leaves only).
fn enum_exprs(n: usize, nl: usize) -> Vec<E> {
    let mut out = vec![];
    if n == 1 {
        for k in 0..nl {
            out.push(E::Key(k));
        }
        return out;
    }
    // operator with children whose sizes sum to n-1 (at least one child)
    for lists in enum_lists(n - 1, nl) {
        for op in 0..3u8 {
            out.push(E::Node(op, lists.clone()));
        }
    }
    out
}

/// All non-empty lists of expressions with total node count `n`.
fn enum_lists(n: usize, nl: usize) -> Vec<Vec<E>> {
    let mut out = vec![];
    if n == 0 {
        return out;
    }
    for first in 1..=n {
        let heads = enum_exprs(first, nl);
        if first == n {
            for h in &heads {
                out.push(vec![h.clone()]);
            }
        } else {
            let tails = enum_lists(n - first, nl);
            for h in &heads {
                for t in &tails {
                    let mut v = vec![h.clone()];
                    v.extend(t.iter().cloned());
                    out.push(v);
                }
            }
        }
    }
    out
}

pub fn gen(tier: &str, seed: u64) -> Vec<String> {
    let mut r = Rng::new(seed ^ 0xC10);
    let mut lines = vec![];
    let thorough = tier == "thorough";
    // (1) exhaustive small shapes over key leaves, all truth assignments
    let (max_nodes, nl) = if thorough { (6, 3) } else { (5, 2) };
    for n in 1..=max_nodes {
        for es in enum_lists(n, nl) {
            for mask in 0..(1u32 << nl) {
                let mut env = Env { ak: vec![], ac: vec![], hk: vec![], hc: vec![], ly: vec![], dl: 0 };
                for k in 0..nl {
                    if mask & (1 << k) != 0 {
                        env.ak.push(kc(k));
                    }
                }
                lines.push(case_line(&[(true, es.clone())], &env));
            }
        }
    }
    // (2) random: all leaf kinds, deep nesting, several cases with break/fallthrough
    let n_rand = if thorough { 30000 } else { 2500 };
    for i in 0..n_rand {
        let ncases = if r.chance(1, 3) { r.range(2, 9) } else { 1 };
        let deep = i % 5 == 0;
        let allow_empty = i % 7 == 0;
        let over_depth = i % 31 == 0;
        let mut cases = vec![];
        for _ in 0..ncases {
            let nitems = if r.chance(1, 15) { 0 } else { r.range(1, 3) };
            let mut es = vec![];
            for _ in 0..nitems {
                let d = if over_depth { 9 } else if deep { 7 } else { r.below(5) as u32 };
                es.push(gen_expr(&mut r, d, allow_empty, deep || over_depth));
            }
            cases.push((r.chance(1, 2), es));
        }
        let env = gen_env(&mut r);
        lines.push(case_line(&cases, &env));
    }
    // (3) thresholds: every compression range boundary against nearby ages
    let ts: Vec<u16> = if thorough { (0..=65535u32).step_by(1).map(|x| x as u16).collect() } else { TICKS.to_vec() };
    for t in ts {
        for lt in [true, false] {
            for delta in [-130i32, -9, -1, 0, 1, 9, 130] {
                if !thorough && false {
                    continue;
                }
                if thorough && (t % 61 != 0) && !TICKS.contains(&t) && !(t < 2600 && delta.abs() <= 1) {
                    continue;
                }
                let age = (t as i32 + delta).clamp(0, 65535) as u16;
                let env = Env { ak: vec![], ac: vec![], hk: vec![(kc(0), age)], hc: vec![], ly: vec![], dl: 0 };
                let e = if lt { E::TicksLt(1, t) } else { E::TicksGt(1, t) };
                lines.push(case_line(&[(true, vec![e])], &env));
            }
        }
    }
    // (3b) capacity of one case: `parse_switch_case_bool` (parser/src/cfg/switch.rs) refuses an item
    // once more than MAX_OPCODE_LEN = 4095 opcodes are stored (l.60-64, checked on entry of every
    // item) and refuses an operator list that ends beyond it (l.283-285).  Item lists and operator
    // lists with 4093..4098 one-opcode items, and the same with two-opcode items (`input`, `layer`)
    // so that the limit is crossed in the middle of an item; the environment decides the firing of
    // the accepted ones.
    lines.extend(gen_capacity(&mut r, thorough));
    // (4) layout level: fork and switch read "active keys" from the layout's states, whoever holds
    // the key there: a physical key, an output chord, a multi, a one-shot, a decided tap-hold, a
    // virtual key, or a running macro.  KAN lines, run through the kanata-level model.
    lines.extend(gen_layout_level(&mut r, thorough));
    lines
}

fn gen_capacity(r: &mut Rng, thorough: bool) -> Vec<String> {
    let mut lines = vec![];
    let rounds = if thorough { 4 } else { 1 };
    for _ in 0..rounds {
        for n in 4093usize..=4098 {
            let k = r.below(KEYS.len() as u64) as usize;
            let other = (k + 1 + r.below(KEYS.len() as u64 - 1) as usize) % KEYS.len();
            let one: Vec<E> = (0..n).map(|_| E::Key(k)).collect();
            // two-opcode items: n opcodes in total (plus one one-opcode item when n is odd)
            let two_kind = r.below(3);
            let mut two: Vec<E> = (0..n / 2)
                .map(|_| match two_kind {
                    0 => E::InputReal(k),
                    1 => E::Layer(1),
                    _ => E::InputVirt(0),
                })
                .collect();
            if n % 2 == 1 {
                two.insert(r.below(two.len() as u64 + 1) as usize, E::Key(k));
            }
            for items in [one, two] {
                for held in [true, false] {
                    let env = Env {
                        ak: if held { vec![kc(k)] } else { vec![kc(other)] },
                        ac: if held { vec![(0, kc(k)), (1, 0)] } else { vec![] },
                        hk: vec![],
                        hc: vec![],
                        ly: if held { vec![1] } else { vec![] },
                        dl: 0,
                    };
                    // the items directly in the case list (implicit and)
                    lines.push(case_line(&[(true, items.clone())], &env));
                    // inside an operator list: the operator's own opcode comes on top
                    let op = r.below(3) as u8;
                    let mut inner = items.clone();
                    inner.pop();
                    lines.push(case_line(&[(true, vec![E::Node(op, inner.clone())])], &env));
                    lines.push(case_line(&[(true, vec![E::Node(op, items.clone())])], &env));
                    // a second case after the long one, and a long one after a short one
                    lines.push(case_line(&[(false, items.clone()), (true, vec![E::Key(k)])], &env));
                    lines.push(case_line(&[(true, vec![E::Key(other)]), (true, vec![E::Node(0, vec![E::Key(other), E::Node(1, inner)])])], &env));
                }
            }
        }
    }
    lines
}

/// holders of lsft / rsft on key a; b = fork, c = switch on the same keys, d = layer, e/f = switch
/// on layer / physical input; outputs of b: 1|2, of c: 3|4 (the Python oracle reads them)
pub const HOLDERS: [&str; 12] = [
    "lsft",
    "rsft",
    "S-q",
    "(multi lsft q)",
    "(one-shot 500 lsft)",
    "(tap-hold 200 200 q lsft)",
    "(on-press-fakekey v0 press)",
    "(multi (on-press-fakekey v0 press) (on-release-fakekey v0 release))",
    "(macro S-(x 300 z))",
    "(macro lsft 100 rsft 100 q)",
    "(macro-release-cancel S-(x 300 z) 200 w)",
    "(multi lctl (macro RS-(x 150 z)))",
];

fn gen_layout_level(r: &mut Rng, thorough: bool) -> Vec<String> {
    use crate::cfggen::{code, consistent_history};
    use crate::kan::{mk_kline, KEv};
    use crate::lay::HEv;
    let mut lines = vec![];
    let forks = [
        "(fork 1 2 (lsft rsft))",
        "(fork (fork 1 2 (lsft rsft)) (fork 1 2 (lsft rsft)) (lctl))",
        "(multi (fork 1 2 (lsft rsft)) (on-release-fakekey v0 release))",
        // a switch inside one branch only: the parser rewrites such forks (fill_chords) and must keep
        // the other branch
        "(fork (switch () 1 break) 2 (lsft rsft))",
        "(fork 1 (switch () 2 break) (lsft rsft))",
        "(fork (multi (switch ((key-history q 8)) q break () 1 break)) 2 (lsft rsft))",
    ];
    let switches = [
        "(switch ((or lsft rsft)) 3 break () 4 break)",
        "(switch ((not lsft rsft)) 4 break () 3 break)",
        "(switch ((and (not lsft) (not rsft))) 4 fallthrough ((or lsft rsft)) 3 break)",
    ];
    for (hi, holder) in HOLDERS.iter().enumerate() {
        for (fi, fork) in forks.iter().enumerate() {
            let sw = switches[(hi + fi) % switches.len()];
            let cfg = format!(
                "(defvirtualkeys v0 lsft)\n(defsrc a b c d e f)\n(deflayer l0 {holder} {fork} {sw} (layer-while-held l1) (switch ((layer l1)) 5 break () 6 break) (switch ((input real a)) 7 break () 8 break))\n(deflayer l1 _ _ _ _ _ _)\n"
            );
            // crafted: hold a, after d ms tap the fork key and the switch key; release a; tap both again
            for d in [1u32, 3, 50, 150, 250, 320, 450] {
                for release_first in [false, true] {
                    let mut h = vec![];
                    h.push(KEv::L(HEv::Press(0, code("a"))));
                    if release_first {
                        h.push(KEv::L(HEv::Tick(10)));
                        h.push(KEv::L(HEv::Release(0, code("a"))));
                    }
                    h.push(KEv::L(HEv::Tick(d)));
                    for k in ["b", "c"] {
                        h.push(KEv::L(HEv::Press(0, code(k))));
                        h.push(KEv::L(HEv::Tick(8)));
                        h.push(KEv::L(HEv::Release(0, code(k))));
                        h.push(KEv::L(HEv::Tick(8)));
                    }
                    if !release_first {
                        h.push(KEv::L(HEv::Release(0, code("a"))));
                    }
                    h.push(KEv::L(HEv::Tick(700)));
                    for k in ["c", "b", "e", "f"] {
                        h.push(KEv::L(HEv::Press(0, code(k))));
                        h.push(KEv::L(HEv::Tick(8)));
                        h.push(KEv::L(HEv::Release(0, code(k))));
                        h.push(KEv::L(HEv::Tick(8)));
                    }
                    h.push(KEv::L(HEv::Tick(300)));
                    lines.push(mk_kline("KAN", false, &cfg, &h));
                }
            }
            // random consistent histories over all six keys
            let n = if thorough { 60 } else { 6 };
            let keys: Vec<u16> = ["a", "b", "c", "d", "e", "f"].iter().map(|k| code(k)).collect();
            for _ in 0..n {
                let n_ev = r.range(2, 14) as usize;
                let hh = consistent_history(r, &keys, n_ev, &[1, 2, 8, 20, 60, 150, 250], 700);
                let h: Vec<KEv> = hh.into_iter().map(KEv::L).collect();
                lines.push(mk_kline("KAN", false, &cfg, &h));
            }
        }
    }
    lines
}

// ---- evaluation of a case line on the real code ----

struct Toks<'a> {
    t: Vec<&'a str>,
    i: usize,
}
impl<'a> Toks<'a> {
    fn next(&mut self) -> &'a str {
        let s = self.t[self.i];
        self.i += 1;
        s
    }
    fn num(&mut self) -> u64 {
        self.next().parse().expect("number token")
    }
}

fn key_name(code: u16) -> String {
    for k in KEYS {
        if u16::from(str_to_oscode(k).unwrap()) == code {
            return k.to_string();
        }
    }
    panic!("harness: key code {code} not in universe")
}

fn parse_item(t: &mut Toks) -> String {
    match t.next() {
        "k" => key_name(t.num() as u16),
        "kh" => {
            let k = t.num() as u16;
            let r = t.num();
            format!("(key-history {} {})", key_name(k), r + 1)
        }
        "tl" => {
            let n = t.num();
            let ms = t.num();
            format!("(key-timing {} lt {})", n + 1, ms)
        }
        "tg" => {
            let n = t.num();
            let ms = t.num();
            format!("(key-timing {} gt {})", n + 1, ms)
        }
        "in" => {
            let row = t.num();
            let y = t.num();
            if row == 0 { format!("(input real {})", key_name(y as u16)) } else { format!("(input virtual v{y})") }
        }
        "ih" => {
            let row = t.num();
            let y = t.num();
            let r = t.num();
            if row == 0 {
                format!("(input-history real {} {})", key_name(y as u16), r + 1)
            } else {
                format!("(input-history virtual v{y} {})", r + 1)
            }
        }
        "ly" => format!("(layer l{})", t.num()),
        "bl" => format!("(base-layer l{})", t.num()),
        op @ ("or" | "and" | "not") => {
            let n = t.num();
            let mut s = format!("({op}");
            for _ in 0..n {
                s.push(' ');
                s.push_str(&parse_item(t));
            }
            s.push(')');
            s
        }
        x => panic!("harness: bad token {x}"),
    }
}

const OUT_KEYS: [&str; 10] = ["q", "w", "e", "r", "t", "y", "u", "i", "o", "p"];

pub fn eval(line: &str) -> String {
    if line.starts_with("KAN ") {
        return crate::kan::eval(line);
    }
    let mut t = Toks { t: line.split_whitespace().collect(), i: 0 };
    assert_eq!(t.next(), "C10");
    let ncases = t.num() as usize;
    let mut sw = String::from("(switch");
    for ci in 0..ncases {
        let brk = t.next() == "brk";
        assert_eq!(t.next(), "L");
        let n = t.num();
        sw.push_str(" (");
        for j in 0..n {
            if j > 0 {
                sw.push(' ');
            }
            sw.push_str(&parse_item(&mut t));
        }
        sw.push_str(&format!(") {} {}", OUT_KEYS[ci % OUT_KEYS.len()], if brk { "break" } else { "fallthrough" }));
    }
    sw.push(')');
    assert_eq!(t.next(), "ENV");
    assert_eq!(t.next(), "ak");
    let n = t.num();
    let ak: Vec<KeyCode> = (0..n).map(|_| KeyCode::from(OsCode::from_u16(t.num() as u16).unwrap())).collect();
    assert_eq!(t.next(), "ac");
    let n = t.num();
    let ac: Vec<(u8, u16)> = (0..n).map(|_| (t.num() as u8, t.num() as u16)).collect();
    assert_eq!(t.next(), "hk");
    let n = t.num();
    let hk: Vec<HistoricalEvent<KeyCode>> = (0..n)
        .map(|_| HistoricalEvent { event: KeyCode::from(OsCode::from_u16(t.num() as u16).unwrap()), ticks_since_occurrence: t.num() as u16 })
        .collect();
    assert_eq!(t.next(), "hc");
    let n = t.num();
    let hc: Vec<HistoricalEvent<(u8, u16)>> =
        (0..n).map(|_| HistoricalEvent { event: (t.num() as u8, t.num() as u16), ticks_since_occurrence: t.num() as u16 }).collect();
    assert_eq!(t.next(), "ly");
    let n = t.num();
    let ly: Vec<u16> = (0..n).map(|_| t.num() as u16).collect();
    assert_eq!(t.next(), "dl");
    let dl = t.num() as u16;

    let mut cfg_text = String::from("(defsrc a)\n(defvirtualkeys v0 XX v1 XX v2 XX)\n");
    cfg_text.push_str(&format!("(deflayer l0 {sw})\n"));
    for l in 1..NLAYERS {
        cfg_text.push_str(&format!("(deflayer l{l} _)\n"));
    }
    let parsed = match cfg::new_from_str(&cfg_text, Default::default()) {
        Ok(c) => c,
        Err(e) => {
            let msg = format!("{:?}", e);
            let class = if msg.contains("depth") {
                "tooDeep"
            } else if msg.contains("exceeded") {
                "tooLong"
            } else {
                "other"
            };
            return format!("rej {class}");
        }
    };
    let a_code = u16::from(str_to_oscode("a").unwrap()) as usize;
    let layout = parsed.layout.b();
    let Action::Switch(sw) = &layout.layers[0][0][a_code] else {
        return "harness-error not-a-switch".into();
    };
    let mut out = String::from("ops");
    for c in sw.cases.iter() {
        out.push(' ');
        let v: Vec<String> = c.0.iter().map(|o| format!("{:?}", o).trim_start_matches("OpCode(").trim_end_matches(')').to_string()).collect();
        out.push_str(&if v.is_empty() { "-".to_string() } else { v.join(",") });
    }
    let fired: Vec<String> = sw
        .actions(ak.iter().copied(), ac.iter().copied(), hk.iter().copied(), hc.iter().copied(), ly.iter().copied(), dl)
        .map(|a| {
            let idx = sw.cases.iter().position(|c| std::ptr::eq(c.1, a)).unwrap();
            idx.to_string()
        })
        .collect();
    out.push_str(" | fire ");
    out.push_str(&if fired.is_empty() { "-".to_string() } else { fired.join(",") });
    out
}
