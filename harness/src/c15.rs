//! C15: live reload is all-or-nothing.
//!
//! Two case families (one line each, self-contained):
//!
//! `C15 S nf <n> <content>*n steps <m> <step>*m`
//!     simple fragment (plain keys, layers, virtual keys, every reload action): the Lean model
//!     predicts the complete per-iteration trace (OS events, reload attempts, channel messages,
//!     blocking) and the final bookkeeping state.  `eval` drives the REAL code through the shape of
//!     `start_processing_loop` under virtual time (hook `verif_handle_time_ticks`).
//!
//! `C15 R <old> <hist> <kind> <new> <seed>`
//!     rich configurations (tap-hold, one-shot, macros, caps-word, mouse, unmod, on-idle vkeys ...):
//!     relational oracles on the real code only — failed reload vs the same run with no reload
//!     request; successful reload vs a fresh instance on a random continuation; nothing stays
//!     pressed; notifications once each.  The model/spec side prints the verdict the theorems predict.
use crate::rng::Rng;
use kanata_parser::keys::{str_to_oscode, OsCode};
use kanata_keyberon::key_code::KeyCode;
use kanata_state_machine::oskbd::{KeyEvent, KeyValue};
use kanata_state_machine::{Kanata, ValidatedArgs};
use std::collections::HashMap;
use std::path::PathBuf;
use std::sync::Mutex;

// ------------------------------------------------------------------------------------------ logger
// The reload decision is only visible through kanata's log lines ("Requested live reload …",
// "Live reload successful", "live reload failed …"); capture them.
struct CapLog;
static LOGBUF: Mutex<Vec<String>> = Mutex::new(Vec::new());
impl log::Log for CapLog {
    fn enabled(&self, m: &log::Metadata) -> bool {
        m.level() <= log::Level::Info
    }
    fn log(&self, r: &log::Record) {
        if r.level() <= log::Level::Info {
            let s = format!("{}", r.args());
            if s.starts_with("Requested live reload") || s.starts_with("Live reload successful") || s.starts_with("live reload failed") {
                if let Ok(mut b) = LOGBUF.lock() {
                    b.push(s);
                }
            }
        }
    }
    fn flush(&self) {}
}
static CAPLOG: CapLog = CapLog;
fn init_log() {
    let _ = log::set_logger(&CAPLOG);
    log::set_max_level(log::LevelFilter::Info);
}
fn take_log() -> Vec<String> {
    match LOGBUF.lock() {
        Ok(mut b) => std::mem::take(&mut *b),
        Err(p) => std::mem::take(&mut *p.into_inner()),
    }
}

// ------------------------------------------------------------------------------------------ tokens
struct Toks<'a> {
    t: Vec<&'a str>,
    i: usize,
}
impl<'a> Toks<'a> {
    fn next(&mut self) -> &'a str {
        let x = self.t.get(self.i).copied().unwrap_or("");
        self.i += 1;
        x
    }
    fn num(&mut self) -> u64 {
        self.next().parse().expect("number")
    }
}

// ------------------------------------------------------------------------------------------ simple configs
pub const DEFSRC: [&str; 6] = ["a", "s", "d", "f", "g", "h"];
pub const OUTK: [&str; 10] = ["1", "2", "3", "4", "5", "6", "7", "lsft", "lctl", "z"];

fn osc(name: &str) -> u16 {
    u16::from(str_to_oscode(name).unwrap())
}
fn out_name(code: u16) -> &'static str {
    for n in OUTK {
        if osc(n) == code {
            return n;
        }
    }
    panic!("harness-error unknown out code {code}")
}

#[derive(Clone, Debug, PartialEq)]
pub enum Act {
    Key(u16),
    Trans,
    NoOp,
    Lrld,
    Next,
    Prev,
    Num(u16),        // 1-based as in the config text
    File(u16),       // index into the case's files; >= nf: a path that was not passed to kanata
    LayerHeld(u16),
    LayerSwitch(u16),
    Vk(u8, u16),     // 0 press 1 release 2 tap 3 toggle, virtual key index
    Unmod(u16),      // (unmod <key>)
}

#[derive(Clone, Debug, PartialEq)]
pub struct SCfg {
    pub id: u16,
    pub nlayers: usize,
    pub layers: Vec<Vec<Act>>, // nlayers x DEFSRC.len()
    pub vkeys: Vec<u16>,       // output key codes
}

#[derive(Clone, Debug, PartialEq)]
pub enum Content {
    Ok(SCfg),
    Syn,
    Sem,
    Mis,
    Unr,
    /// valid, but asks for an X11 repeat rate: on Linux `do_live_reload` runs `xset`, which cannot be
    /// spawned here (PATH is emptied): the reload has to fail without changing anything
    OkX11(SCfg),
}

#[derive(Clone, Debug, PartialEq)]
pub enum Step {
    P(usize, u16), // physical key index, ms given to handle_time_ticks after the event
    R(usize, u16),
    T(u32),        // n iterations of 1 ms without input
    J(u16),        // one iteration without input in which ms elapsed
    W(usize, Content),
}

fn tok_act(a: &Act, o: &mut Vec<String>) {
    match a {
        Act::Key(c) => { o.push("k".into()); o.push(c.to_string()); }
        Act::Trans => o.push("_".into()),
        Act::NoOp => o.push("xx".into()),
        Act::Lrld => o.push("rl".into()),
        Act::Next => o.push("rn".into()),
        Act::Prev => o.push("rp".into()),
        Act::Num(n) => { o.push("r#".into()); o.push(n.to_string()); }
        Act::File(i) => { o.push("rf".into()); o.push(i.to_string()); }
        Act::LayerHeld(i) => { o.push("lh".into()); o.push(i.to_string()); }
        Act::LayerSwitch(i) => { o.push("ls".into()); o.push(i.to_string()); }
        Act::Vk(m, v) => { o.push(["vp", "vr", "vt", "vg"][*m as usize].into()); o.push(v.to_string()); }
        Act::Unmod(c) => { o.push("um".into()); o.push(c.to_string()); }
    }
}
fn tok_cfg(c: &SCfg, o: &mut Vec<String>) {
    o.push("cfg".into());
    o.push(c.id.to_string());
    o.push("L".into());
    o.push(c.nlayers.to_string());
    for l in &c.layers {
        for a in l {
            tok_act(a, o);
        }
    }
    o.push("V".into());
    o.push(c.vkeys.len().to_string());
    for v in &c.vkeys {
        o.push(v.to_string());
    }
}
fn tok_content(c: &Content, o: &mut Vec<String>) {
    match c {
        Content::Ok(c) => { o.push("ok".into()); tok_cfg(c, o); }
        Content::OkX11(c) => { o.push("okx".into()); tok_cfg(c, o); }
        Content::Syn => o.push("syn".into()),
        Content::Sem => o.push("sem".into()),
        Content::Mis => o.push("mis".into()),
        Content::Unr => o.push("unr".into()),
    }
}
fn tok_step(s: &Step, o: &mut Vec<String>) {
    match s {
        Step::P(k, ms) => { o.push("p".into()); o.push(k.to_string()); o.push(ms.to_string()); }
        Step::R(k, ms) => { o.push("r".into()); o.push(k.to_string()); o.push(ms.to_string()); }
        Step::T(n) => { o.push("t".into()); o.push(n.to_string()); }
        Step::J(ms) => { o.push("j".into()); o.push(ms.to_string()); }
        Step::W(f, c) => { o.push("w".into()); o.push(f.to_string()); tok_content(c, o); }
    }
}
pub fn render_s(files: &[Content], steps: &[Step]) -> String {
    let mut o: Vec<String> = vec!["C15".into(), "S".into(), "nf".into(), files.len().to_string()];
    for f in files {
        tok_content(f, &mut o);
    }
    o.push("steps".into());
    o.push(steps.len().to_string());
    for s in steps {
        tok_step(s, &mut o);
    }
    o.join(" ")
}

fn parse_act(t: &mut Toks) -> Act {
    match t.next() {
        "k" => Act::Key(t.num() as u16),
        "_" => Act::Trans,
        "xx" => Act::NoOp,
        "rl" => Act::Lrld,
        "rn" => Act::Next,
        "rp" => Act::Prev,
        "r#" => Act::Num(t.num() as u16),
        "rf" => Act::File(t.num() as u16),
        "lh" => Act::LayerHeld(t.num() as u16),
        "ls" => Act::LayerSwitch(t.num() as u16),
        "vp" => Act::Vk(0, t.num() as u16),
        "vr" => Act::Vk(1, t.num() as u16),
        "vt" => Act::Vk(2, t.num() as u16),
        "vg" => Act::Vk(3, t.num() as u16),
        "um" => Act::Unmod(t.num() as u16),
        x => panic!("harness-error bad act {x}"),
    }
}
fn parse_cfg(t: &mut Toks) -> SCfg {
    assert_eq!(t.next(), "cfg");
    let id = t.num() as u16;
    assert_eq!(t.next(), "L");
    let nl = t.num() as usize;
    let mut layers = vec![];
    for _ in 0..nl {
        let mut l = vec![];
        for _ in 0..DEFSRC.len() {
            l.push(parse_act(t));
        }
        layers.push(l);
    }
    assert_eq!(t.next(), "V");
    let nv = t.num() as usize;
    let vkeys = (0..nv).map(|_| t.num() as u16).collect();
    SCfg { id, nlayers: nl, layers, vkeys }
}
fn parse_content(t: &mut Toks) -> Content {
    match t.next() {
        "ok" => Content::Ok(parse_cfg(t)),
        "okx" => Content::OkX11(parse_cfg(t)),
        "syn" => Content::Syn,
        "sem" => Content::Sem,
        "mis" => Content::Mis,
        "unr" => Content::Unr,
        x => panic!("harness-error bad content {x}"),
    }
}
fn parse_step(t: &mut Toks) -> Step {
    match t.next() {
        "p" => Step::P(t.num() as usize, t.num() as u16),
        "r" => Step::R(t.num() as usize, t.num() as u16),
        "t" => Step::T(t.num() as u32),
        "j" => Step::J(t.num() as u16),
        "w" => Step::W(t.num() as usize, parse_content(t)),
        x => panic!("harness-error bad step {x}"),
    }
}

pub fn layer_name(cfg_id: u16, layer: usize) -> String {
    format!("c{cfg_id}l{layer}")
}

/// kanata text of a simple configuration; `paths` are the files passed to kanata (for lrld-file)
fn cfg_text(c: &SCfg, paths: &[PathBuf], x11: bool) -> String {
    let mut s = String::new();
    if x11 {
        s.push_str("(defcfg linux-x11-repeat-delay-rate 400,50)\n");
    } else if c.id % 2 == 0 {
        // aims at the bus-type argument `Kanata::new` hands to `KbdOut::new` (the USB arm); the
        // option has no other effect, in particular none on a reload
        s.push_str("(defcfg linux-output-device-bus-type USB)\n");
    }
    s.push_str("(defsrc");
    for k in DEFSRC {
        s.push(' ');
        s.push_str(k);
    }
    s.push_str(")\n");
    if !c.vkeys.is_empty() {
        s.push_str("(defvirtualkeys");
        for (i, v) in c.vkeys.iter().enumerate() {
            s.push_str(&format!(" v{i} {}", out_name(*v)));
        }
        s.push_str(")\n");
    }
    for (li, l) in c.layers.iter().enumerate() {
        s.push_str(&format!("(deflayer {}", layer_name(c.id, li)));
        for a in l {
            s.push(' ');
            match a {
                Act::Key(code) => s.push_str(out_name(*code)),
                Act::Trans => s.push('_'),
                Act::NoOp => s.push_str("XX"),
                Act::Lrld => s.push_str("lrld"),
                Act::Next => s.push_str("lrld-next"),
                Act::Prev => s.push_str("lrld-prev"),
                Act::Num(n) => s.push_str(&format!("(lrld-num {n})")),
                Act::File(i) => {
                    let p = match paths.get(*i as usize) {
                        Some(p) => p.to_str().unwrap().to_string(),
                        None => "/nonexistent/not-passed.kbd".to_string(),
                    };
                    s.push_str(&format!("(lrld-file \"{p}\")"));
                }
                Act::LayerHeld(i) => s.push_str(&format!("(layer-while-held {})", layer_name(c.id, *i as usize))),
                Act::LayerSwitch(i) => s.push_str(&format!("(layer-switch {})", layer_name(c.id, *i as usize))),
                Act::Vk(m, v) => s.push_str(&format!(
                    "(on-press {} v{v})",
                    ["press-vkey", "release-vkey", "tap-vkey", "toggle-vkey"][*m as usize]
                )),
                Act::Unmod(code) => s.push_str(&format!("(unmod {})", out_name(*code))),
            }
        }
        s.push_str(")\n");
    }
    s
}

// ------------------------------------------------------------------------------------------ files
pub struct TmpDir {
    pub dir: PathBuf,
}
static COUNTER: std::sync::atomic::AtomicU64 = std::sync::atomic::AtomicU64::new(0);
impl TmpDir {
    pub fn new() -> Self {
        let n = COUNTER.fetch_add(1, std::sync::atomic::Ordering::SeqCst);
        let t = std::time::SystemTime::now().duration_since(std::time::UNIX_EPOCH).map(|d| d.as_nanos()).unwrap_or(0);
        let dir = std::env::temp_dir().join(format!("kv-c15-{}-{}-{}", std::process::id(), n, t));
        std::fs::create_dir_all(&dir).expect("harness-error tmpdir");
        TmpDir { dir }
    }
    pub fn path(&self, i: usize) -> PathBuf {
        self.dir.join(format!("f{i}.kbd"))
    }
}
impl Drop for TmpDir {
    fn drop(&mut self) {
        let _ = std::fs::remove_dir_all(&self.dir);
    }
}

fn remove_any(p: &PathBuf) {
    if p.is_dir() {
        let _ = std::fs::remove_dir_all(p);
    } else {
        let _ = std::fs::remove_file(p);
    }
}
fn write_text(p: &PathBuf, text: &str) {
    remove_any(p);
    std::fs::write(p, text).expect("harness-error write");
}
fn write_content(p: &PathBuf, c: &Content, paths: &[PathBuf]) {
    match c {
        Content::Ok(cfg) => write_text(p, &cfg_text(cfg, paths, false)),
        Content::OkX11(cfg) => write_text(p, &cfg_text(cfg, paths, true)),
        Content::Syn => write_text(p, "(defsrc a s d f g h)\n(deflayer broken 1 2 3 4 5 6\n"),
        Content::Sem => write_text(p, "(defsrc a s d f g h)\n(deflayer bad 1 2 3 (layer-switch nosuchlayer) 5 6)\n"),
        Content::Mis => remove_any(p),
        Content::Unr => {
            // running as root makes permission bits useless: a directory in place of the file is unreadable
            remove_any(p);
            std::fs::create_dir_all(p).expect("harness-error mkdir");
        }
    }
}

// ------------------------------------------------------------------------------------------ driving the real code
fn keyname_table() -> HashMap<String, u16> {
    let mut m = HashMap::new();
    for c in 0..768u16 {
        if let Some(o) = OsCode::from_u16(c) {
            m.entry(format!("{:?}", KeyCode::from(o))).or_insert(c);
        }
    }
    m
}


/// The channel's item type (`kanata_tcp_protocol::ServerMessage`) is not re-exported by the kanata
/// crate; it is inferred inside these closures so the harness needs no extra dependency.
struct Chan {
    tick: Box<dyn FnMut(&mut Kanata, u16) -> Result<u16, String>>,
    reload: Box<dyn FnMut(&mut Kanata) -> Result<(), String>>,
    msgs: Box<dyn FnMut() -> Vec<String>>,
}
fn chan(with_tx: bool) -> Chan {
    let (tx, rx) = std::sync::mpsc::sync_channel(1 << 16);
    let tx = if with_tx { Some(tx) } else { None };
    let tx2 = tx.clone();
    Chan {
        tick: Box::new(move |k, ms| k.verif_handle_time_ticks(ms, &tx).map_err(|e| format!("{e}"))),
        reload: Box::new(move |k| k.verif_do_live_reload(&tx2).map_err(|e| format!("{e}"))),
        msgs: Box::new(move || {
            let mut v = vec![];
            while let Ok(m) = rx.try_recv() {
                v.push(format!("{m:?}"));
            }
            v
        }),
    }
}

fn init_env() {
    init_log();
    // `do_live_reload` spawns `xset` when linux-x11-repeat-delay-rate is configured; make the
    // outcome independent of the machine: there is no xset on this PATH.
    std::env::set_var("PATH", "/nonexistent-kv-c15");
}

pub fn new_kanata(paths: &[PathBuf]) -> Result<Kanata, String> {
    let args = ValidatedArgs {
        paths: paths.to_vec(),
        tcp_server_address: None,
        symlink_path: None,
        nodelay: true,
    };
    Kanata::new(&args).map_err(|e| format!("{e}"))
}

pub struct Run {
    pub k: Kanata,
    chan: Chan,
    pub iter: u32,
    ms_prev: u16,
    ev_seen: usize,
    /// (iteration, token)
    pub trace: Vec<(u32, String)>,
    names: HashMap<String, u16>,
    paths: Vec<PathBuf>,
    pub tainted: bool,
    pub err: Option<String>,
    /// relational cases: keep ticking where the loop would park in `rx.recv()` (that parking is
    /// unobservable is property C07, not this one); `can_block_update_idle_waiting` is still called
    pub never_block: bool,
    /// [t7:parked] what is down at the OS when the loop may park for the first time after a reload
    /// has been applied: with no further input it stays down for good
    pub parked_after_reload: Option<Vec<String>>,
    reload_seen: bool,
}

impl Run {
    pub fn new(k: Kanata, paths: &[PathBuf]) -> Self {
        let _ = take_log();
        Run {
            k,
            chan: chan(true),
            iter: 0,
            ms_prev: 0,
            ev_seen: 0,
            trace: vec![],
            names: keyname_table(),
            paths: paths.to_vec(),
            tainted: false,
            err: None,
            never_block: false,
            parked_after_reload: None,
            reload_seen: false,
        }
    }
    fn path_idx(&self, s: &str) -> String {
        for (i, p) in self.paths.iter().enumerate() {
            if p.to_str() == Some(s) {
                return i.to_string();
            }
        }
        "?".into()
    }
    fn collect(&mut self) {
        let i = self.iter;
        let evs: Vec<String> = self.k.kbd_out.outputs.events[self.ev_seen..].to_vec();
        self.ev_seen = self.k.kbd_out.outputs.events.len();
        for e in evs {
            if e.starts_with("t:") {
                continue;
            }
            let tok = if let Some(n) = e.strip_prefix("out:↓") {
                format!("d{}", self.names.get(n).map(|c| c.to_string()).unwrap_or(n.to_string()))
            } else if let Some(n) = e.strip_prefix("out:↑") {
                format!("u{}", self.names.get(n).map(|c| c.to_string()).unwrap_or(n.to_string()))
            } else {
                format!("o[{}]", e.replace(' ', "_"))
            };
            self.trace.push((i, tok));
        }
        for l in take_log() {
            let tok = if l.starts_with("Requested live reload of config file number") {
                "rqbad".to_string()
            } else if l.starts_with("Requested live reload of file with path") && l.contains("but no such path") {
                "rqnop".to_string()
            } else if l.starts_with("Requested live reload") {
                let p = l.rsplit(": ").next().unwrap_or("").trim();
                format!("rq{}", self.path_idx(p))
            } else if l.starts_with("Live reload successful") {
                self.reload_seen = true;
                "ok".to_string()
            } else {
                "fail".to_string()
            };
            self.trace.push((i, tok));
        }
        for m in (self.chan.msgs)() {
            let tok = if let Some(r) = m.strip_prefix("ConfigFileReload { new: \"") {
                format!("M.reload.{}", self.path_idx(r.trim_end_matches("\" }")))
            } else if let Some(r) = m.strip_prefix("LayerChange { new: \"") {
                format!("M.layer.{}", r.trim_end_matches("\" }"))
            } else if m.starts_with("MessagePush") {
                continue;
            } else {
                format!("M.other[{}]", m.replace(' ', "_"))
            };
            self.trace.push((i, tok));
        }
    }
    fn tick(&mut self, ms: u16) {
        match (self.chan.tick)(&mut self.k, ms) {
            Ok(got) => {
                if got != ms {
                    self.tainted = true;
                }
                self.ms_prev = got;
            }
            Err(e) => {
                self.err = Some(e);
            }
        }
    }
    /// one iteration of the processing loop with an input event available
    pub fn input(&mut self, code: u16, press: bool, ms: u16) {
        let _can_block = self.k.can_block_update_idle_waiting(self.ms_prev);
        let ev = KeyEvent {
            code: OsCode::from_u16(code).expect("oscode"),
            value: if press { KeyValue::Press } else { KeyValue::Release },
        };
        if let Err(e) = self.k.handle_input_event(&ev) {
            self.err = Some(format!("{e}"));
        }
        self.tick(ms);
        self.collect();
        self.iter += 1;
    }
    /// one iteration of the processing loop without input; returns false if the loop would block
    pub fn idle(&mut self, ms: u16) -> bool {
        let can_block = self.k.can_block_update_idle_waiting(self.ms_prev);
        if can_block && self.reload_seen && self.parked_after_reload.is_none() {
            self.parked_after_reload = Some(pressed_set(&self.trace));
        }
        if can_block && !self.never_block {
            return false;
        }
        self.tick(ms);
        self.collect();
        self.iter += 1;
        true
    }
    /// `n` idle iterations of 1 ms; a blocked loop stays blocked until the next input
    pub fn idle_n(&mut self, n: u32) {
        for j in 0..n {
            if !self.idle(1) {
                self.trace.push((self.iter, format!("blk{}", n - j)));
                self.iter += n - j;
                return;
            }
        }
    }
    pub fn summary(&mut self) -> String {
        let pk: Vec<String> = self.k.prev_keys.iter().map(|k| u16::from(OsCode::from(*k)).to_string()).collect();
        format!(
            "layer={} pl={} idx={} req={} tsi={} pk={}",
            self.k.layout.bm().current_layer(),
            self.k.prev_layer,
            self.k.cur_cfg_idx,
            self.k.verif_live_reload_requested() as u8,
            self.k.ticks_since_idle,
            if pk.is_empty() { "-".to_string() } else { pk.join(",") }
        )
    }
    pub fn trace_str(&self) -> String {
        if self.trace.is_empty() {
            return "-".into();
        }
        self.trace.iter().map(|(i, t)| format!("{i}:{t}")).collect::<Vec<_>>().join(" ")
    }
}

fn run_s(files: &[Content], steps: &[Step]) -> (String, bool) {
    let td = TmpDir::new();
    let paths: Vec<PathBuf> = (0..files.len()).map(|i| td.path(i)).collect();
    for (i, f) in files.iter().enumerate() {
        write_content(&paths[i], f, &paths);
    }
    let k = match new_kanata(&paths) {
        Ok(k) => k,
        Err(_) => return ("startfail".into(), false),
    };
    let mut r = Run::new(k, &paths);
    for s in steps {
        match s {
            Step::P(key, ms) => r.input(osc(DEFSRC[*key]), true, *ms),
            Step::R(key, ms) => r.input(osc(DEFSRC[*key]), false, *ms),
            Step::T(n) => r.idle_n(*n),
            Step::J(ms) => {
                if !r.idle(*ms) {
                    r.trace.push((r.iter, "blk1".into()));
                    r.iter += 1;
                }
            }
            Step::W(f, c) => write_content(&paths[*f], c, &paths),
        }
        if let Some(e) = &r.err {
            return (format!("{} | error {}", r.trace_str(), e.replace(' ', "_")), r.tainted);
        }
    }
    let out = format!("{} | {}", r.trace_str(), r.summary());
    (out, r.tainted)
}

fn eval_s(t: &mut Toks) -> String {
    assert_eq!(t.next(), "nf");
    let nf = t.num() as usize;
    let files: Vec<Content> = (0..nf).map(|_| parse_content(t)).collect();
    assert_eq!(t.next(), "steps");
    let ns = t.num() as usize;
    let steps: Vec<Step> = (0..ns).map(|_| parse_step(t)).collect();
    for _ in 0..6 {
        let (out, tainted) = run_s(&files, &steps);
        if !tainted {
            return out;
        }
    }
    "harness-error timing".into()
}

pub fn eval(line: &str) -> String {
    init_env();
    let mut t = Toks { t: line.split_whitespace().collect(), i: 0 };
    assert_eq!(t.next(), "C15");
    match t.next() {
        "S" => eval_s(&mut t),
        "R" => eval_r(&mut t),
        x => format!("harness-error unknown family {x}"),
    }
}


// ------------------------------------------------------------------------------------------ generator (simple cases)
fn out_codes() -> Vec<u16> {
    OUTK.iter().map(|n| osc(n)).collect()
}

fn gen_reload_act(r: &mut Rng, nf: usize) -> Act {
    match r.below(10) {
        0..=3 => Act::Lrld,
        4 => Act::Next,
        5 => Act::Prev,
        6 | 7 => Act::Num(r.range(1, nf as u64 + 1) as u16), // nf + 1: one past the end
        _ => Act::File(r.below(nf as u64 + 1) as u16),       // nf: a path kanata was not started with
    }
}

fn gen_act(r: &mut Rng, layer: usize, nlayers: usize, nv: usize, nf: usize) -> Act {
    let outs = out_codes();
    match r.below(20) {
        0..=8 => Act::Key(*r.pick(&outs)),
        9 | 10 => {
            if layer > 0 || r.chance(1, 3) {
                Act::Trans
            } else {
                Act::Key(*r.pick(&outs))
            }
        }
        11 => Act::NoOp,
        12 | 13 => gen_reload_act(r, nf),
        14 => {
            if nlayers > 1 {
                Act::LayerHeld(r.below(nlayers as u64) as u16)
            } else {
                Act::NoOp
            }
        }
        15 => {
            if nlayers > 1 {
                Act::LayerSwitch(r.below(nlayers as u64) as u16)
            } else {
                Act::Key(*r.pick(&outs))
            }
        }
        16 | 17 => {
            if nv > 0 {
                Act::Vk(r.below(4) as u8, r.below(nv as u64) as u16)
            } else {
                Act::Key(*r.pick(&outs))
            }
        }
        _ => Act::Unmod(*r.pick(&outs)),
    }
}

pub fn gen_cfg(r: &mut Rng, id: u16, nf: usize) -> SCfg {
    let nlayers = r.range(1, 3) as usize;
    let nv = r.below(3) as usize;
    let outs = out_codes();
    let vkeys: Vec<u16> = (0..nv).map(|_| *r.pick(&outs)).collect();
    let mut layers = vec![];
    for l in 0..nlayers {
        let mut row = vec![];
        for _ in 0..DEFSRC.len() {
            row.push(gen_act(r, l, nlayers, nv, nf));
        }
        layers.push(row);
    }
    // every configuration can type something and can ask for a reload from its first layer
    layers[0][0] = Act::Key(outs[(id as usize) % 7]);
    layers[0][1] = gen_reload_act(r, nf);
    SCfg { id, nlayers, layers, vkeys }
}

fn gen_content(r: &mut Rng, id: u16, nf: usize) -> Content {
    match r.below(12) {
        0..=5 => Content::Ok(gen_cfg(r, id, nf)),
        6 => Content::Syn,
        7 => Content::Sem,
        8 => Content::Mis,
        9 => Content::Unr,
        10 => Content::OkX11(gen_cfg(r, id, nf)),
        _ => Content::Ok(gen_cfg(r, id, nf)),
    }
}

/// a random, mostly physically consistent script
fn gen_script(r: &mut Rng, nf: usize, len: usize, next_id: &mut u16, allow_long: bool) -> Vec<Step> {
    let mut steps = vec![];
    let mut down = [false; 6];
    let mut burst = 0;
    let mut long_used = false;
    while steps.len() < len {
        let c = r.below(100);
        if c < 38 {
            let k = if r.chance(1, 3) { 1 } else { r.below(6) as usize };
            let ms = if r.chance(1, 8) { *r.pick(&[0u16, 2, 3]) } else { 1 };
            if !down[k] || r.chance(1, 25) {
                steps.push(Step::P(k, ms));
                down[k] = true;
                burst += 1;
            } else {
                steps.push(Step::R(k, ms));
                down[k] = false;
                burst += 1;
            }
        } else if c < 58 {
            let held: Vec<usize> = (0..6).filter(|i| down[*i]).collect();
            if !held.is_empty() {
                let k = *r.pick(&held);
                steps.push(Step::R(k, 1));
                down[k] = false;
                burst += 1;
            } else if r.chance(1, 10) {
                steps.push(Step::R(r.below(6) as usize, 1)); // release of a key that is not down
                burst += 1;
            }
        } else if c < 88 {
            steps.push(Step::T(*r.pick(&[1u32, 1, 2, 3, 3, 5, 8, 20])));
            burst = 0;
        } else if c < 92 {
            steps.push(Step::J(*r.pick(&[0u16, 0, 2, 3, 10])));
            burst = 0;
        } else if c < 97 {
            let f = r.below(nf as u64) as usize;
            let id = *next_id;
            *next_id += 1;
            steps.push(Step::W(f, gen_content(r, id, nf)));
        } else if allow_long && !long_used {
            steps.push(Step::T(r.range(995, 1010) as u32));
            long_used = true;
            burst = 0;
        }
        if burst >= 4 {
            steps.push(Step::T(r.range(2, 6) as u32));
            burst = 0;
        }
    }
    steps
}

fn tap(k: usize, gap: u32) -> Vec<Step> {
    vec![Step::P(k, 1), Step::T(gap), Step::R(k, 1), Step::T(gap)]
}

/// small-scope families
fn families(tier: &str, r: &mut Rng) -> Vec<String> {
    let mut out = vec![];
    let outs = out_codes();
    let k = |i: usize| Act::Key(outs[i]);
    let base = |id: u16, reload: Vec<Act>, extra: Vec<Act>| -> SCfg {
        // key 0 types; keys 1.. carry `reload` then `extra`; the rest no-op
        let mut row = vec![Act::Key(outs[(id as usize) % 7])];
        row.extend(reload);
        row.extend(extra);
        while row.len() < 6 {
            row.push(Act::NoOp);
        }
        row.truncate(6);
        SCfg { id, nlayers: 2, layers: vec![row, vec![Act::Key(outs[6]), Act::Trans, Act::Trans, Act::Trans, Act::Trans, Act::Trans]], vkeys: vec![outs[9]] }
    };
    // F1: every index action from every position, 1..3 files
    for nf in 1..=3usize {
        let acts = [Act::Lrld, Act::Next, Act::Prev, Act::Num(1), Act::Num(2), Act::Num(3), Act::Num(4), Act::File(0), Act::File(1), Act::File(2), Act::File(3)];
        for a in acts.iter() {
            for start in 0..nf {
                // every file has the same keys: key 1 = the action under test, key 2 = lrld-next (to walk to `start`)
                let files: Vec<Content> = (0..nf).map(|i| Content::Ok(base(i as u16, vec![a.clone(), Act::Next], vec![]))).collect();
                let mut steps = vec![];
                for _ in 0..start {
                    steps.extend(tap(2, 2));
                }
                steps.extend(tap(1, 2));
                steps.extend(tap(0, 2));
                steps.extend(tap(1, 2));
                steps.extend(tap(0, 2));
                out.push(render_s(&files, &steps));
            }
        }
    }
    // F2: new content kind x what is held when the request is made
    let kinds: Vec<Content> = vec![
        Content::Ok(base(7, vec![Act::Lrld], vec![k(3)])),
        Content::OkX11(base(8, vec![Act::Lrld], vec![k(4)])),
        Content::Syn,
        Content::Sem,
        Content::Mis,
        Content::Unr,
    ];
    // old config: key1 lrld, key2 layer-while-held 1, key3 press-vkey, key4 release-vkey, key5 unmod
    let old = base(0, vec![Act::Lrld], vec![Act::LayerHeld(1), Act::Vk(0, 0), Act::Vk(1, 0), Act::Unmod(outs[4])]);
    for kind in kinds.iter() {
        for hist in 0..7 {
            let mut steps: Vec<Step> = vec![Step::T(2)];
            let waits: u32 = if tier == "thorough" || hist == 5 { 1010 } else { 30 };
            match hist {
                0 => {}
                1 => steps.extend(vec![Step::P(0, 1), Step::T(3)]),                                  // output key held
                2 => steps.extend(vec![Step::P(2, 1), Step::T(3)]),                                  // layer held (no output)
                3 => steps.extend(vec![Step::P(2, 1), Step::T(2), Step::P(0, 1), Step::T(2)]),       // layer + key of that layer
                4 => steps.extend(vec![Step::P(3, 1), Step::T(3), Step::R(3, 1), Step::T(2)]),       // virtual key left pressed
                5 => steps.extend(vec![Step::P(5, 1), Step::T(3)]),                                  // unmod held: idle fall-back
                _ => steps.extend(vec![Step::P(0, 1), Step::P(5, 1), Step::T(3)]),                   // key + unmod
            }
            steps.push(Step::W(0, kind.clone()));
            steps.extend(vec![Step::P(1, 1), Step::T(2), Step::R(1, 1)]);
            steps.push(Step::T(waits));
            // let go of everything, then type
            match hist {
                1 => steps.push(Step::R(0, 1)),
                2 => steps.push(Step::R(2, 1)),
                3 => steps.extend(vec![Step::R(0, 1), Step::T(1), Step::R(2, 1)]),
                4 => steps.extend(tap(4, 2)),
                5 => steps.push(Step::R(5, 1)),
                6 => steps.extend(vec![Step::R(0, 1), Step::T(1), Step::R(5, 1)]),
                _ => {}
            }
            steps.push(Step::T(5));
            steps.extend(tap(0, 3));
            steps.extend(tap(2, 3));
            steps.extend(tap(1, 3)); // a second request
            steps.extend(tap(0, 3));
            out.push(render_s(&[Content::Ok(old.clone())], &steps));
        }
    }
    // F3: back-to-back requests: same key twice without a tick, two different reload keys, fix the file in between
    for v in 0..8 {
        let c0 = base(0, vec![Act::Lrld, Act::Next, Act::Prev], vec![]);
        let c1 = base(1, vec![Act::Lrld, Act::Next, Act::Prev], vec![]);
        let bad = if v % 2 == 0 { Content::Syn } else { Content::Mis };
        let mut steps = vec![Step::T(2)];
        match v {
            0 | 1 => steps.extend(vec![Step::P(1, 0), Step::R(1, 0), Step::P(1, 0), Step::R(1, 0), Step::T(6)]),
            2 | 3 => steps.extend(vec![Step::P(1, 1), Step::P(2, 1), Step::R(1, 1), Step::R(2, 1), Step::T(6)]),
            4 | 5 => steps.extend(vec![Step::W(1, bad.clone()), Step::P(2, 1), Step::R(2, 1), Step::T(3), Step::W(1, Content::Ok(c1.clone())), Step::P(1, 1), Step::R(1, 1), Step::T(3)]),
            _ => steps.extend(vec![Step::P(0, 1), Step::P(2, 1), Step::R(2, 1), Step::P(3, 1), Step::R(3, 1), Step::T(4), Step::R(0, 1), Step::T(4)]),
        }
        steps.extend(tap(0, 2));
        steps.extend(tap(1, 2));
        steps.extend(tap(0, 2));
        out.push(render_s(&[Content::Ok(c0.clone()), Content::Ok(c1.clone())], &steps));
        out.push(render_s(&[Content::Ok(c0.clone()), bad.clone(), Content::Ok(c1.clone())], &steps));
    }
    // [t7:in-use] F-idx: a request that fails must leave no trace - in particular the file index: a
    // later plain lrld reloads the configuration that is running, lrld-next / lrld-prev step from it.
    // Two or three files with the same keys (key1 = the request under test, key2 = the follow-up
    // request, key0 types the marker of the running configuration), file 1 broken in every way
    for nf in [2usize, 3] {
        for broken in [Content::Syn, Content::Sem, Content::Mis, Content::Unr] {
            for first in [Act::Next, Act::Prev, Act::Num(2), Act::File(1)] {
                for follow in [Act::Lrld, Act::Next, Act::Prev, Act::Num(1)] {
                    let files: Vec<Content> = (0..nf)
                        .map(|i| if i == 1 { broken.clone() } else { Content::Ok(base(i as u16, vec![first.clone(), follow.clone()], vec![])) })
                        .collect();
                    let mut steps = vec![Step::T(2)];
                    steps.extend(tap(1, 2));
                    steps.push(Step::T(5));
                    steps.extend(tap(0, 2));
                    steps.extend(tap(2, 2));
                    steps.push(Step::T(5));
                    steps.extend(tap(0, 2));
                    steps.extend(tap(2, 2));
                    steps.extend(tap(0, 2));
                    out.push(render_s(&files, &steps));
                }
            }
        }
    }
    let _ = r;
    out
}

pub fn gen_s(tier: &str, r: &mut Rng) -> Vec<String> {
    let mut out = families(tier, r);
    let n = if tier == "thorough" { 20000 } else { 2500 };
    for i in 0..n {
        let nf = r.range(1, 4) as usize;
        let mut next_id = 0u16;
        let mut files = vec![];
        for f in 0..nf {
            let id = next_id;
            next_id += 1;
            files.push(if f == 0 { Content::Ok(gen_cfg(r, id, nf)) } else { gen_content(r, id, nf) });
        }
        let len = r.range(6, 26) as usize;
        let allow_long = i % 12 == 0;
        let steps = gen_script(r, nf, len, &mut next_id, allow_long);
        out.push(render_s(&files, &steps));
    }
    out
}

pub fn gen(tier: &str, seed: u64) -> Vec<String> {
    let mut r = Rng::new(seed ^ 0xC15);
    let mut out = gen_r(tier, &mut r);
    out.extend(gen_s(tier, &mut r));
    out
}

// ------------------------------------------------------------------------------------------ rich relational cases
pub const RKEYS: [&str; 10] = ["a", "s", "d", "f", "g", "h", "j", "k", "l", ";"];
const K_A: usize = 0;
const K_S: usize = 1; // the reload key
const K_D: usize = 2;
const K_F: usize = 3;
const K_G: usize = 4;
const K_H: usize = 5;
const K_J: usize = 6;
const K_K: usize = 7;
const K_L: usize = 8;
const K_SC: usize = 9;

/// old configurations; `reload` is the action on key `s` (lrld, or a harmless custom action for the
/// twin run in which no reload is requested)
fn rich_old(i: usize, reload: &str) -> String {
    match i {
        0 => format!(
            "(defsrc a s d f g h j k l ;)\n(deflayer base (tap-hold 200 200 1 lsft) {reload} (one-shot 500 lctl) (macro 2 30 3 30 4) (layer-while-held nav) (caps-word 2000) 5 6 (tap-dance 150 (7 8)) (multi lalt 9))\n(deflayer nav left _ right up down _ _ _ _ _)\n"
        ),
        1 => format!(
            "(defsrc a s d f g h j k l ;)\n(defvirtualkeys vk1 x vk2 y)\n(deflayer base mlft {reload} (mwheel-up 50 120) (movemouse-up 5 1) (unmod 5) (movemouse-speed 200) (on-idle 300 tap-vkey vk1) (hold-for-duration 400 vk2) (dynamic-macro-record 1) (dynamic-macro-play 1))\n"
        ),
        2 => format!(
            "(defcfg sequence-timeout 2000)\n(defsrc a s d f g h j k l ;)\n(defvirtualkeys sq z)\n(defseq sq (1 2))\n(deflayer base 1 {reload} 2 sldr rpt dynamic-macro-record-stop 3 (unshift 4) (on-press press-vkey sq) (on-press release-vkey sq))\n"
        ),
        // [t7:parked] an arbitrary OS code held by a key, and an unmod key next to it
        4 => format!(
            "(defsrc a s d f g h j k l ;)\n(deflayer base (arbitrary-code 700) {reload} (unmod 5) (multi (arbitrary-code 701) 6) 1 2 3 4 7 8)\n"
        ),
        // zippychord: process-global state that a reload into a configuration without defzippy must clear
        _ => format!(
            "(defsrc a s d f g h j k l ;)\n(deflayer base a {reload} d f g h j k l ;)\n(defzippy {})\n",
            ZIPPY_PATH.with(|z| z.borrow().clone())
        ),
    }
}

thread_local! {
    static ZIPPY_PATH: std::cell::RefCell<String> = std::cell::RefCell::new(String::new());
}
/// two-key chords over most pairs of the ten keys, so that a random continuation types some of them
const ZIPPY_DICT: &str = "df\tday\ngh\thello\njk\tjoke\ndg\tdog\nfh\tfish\nad\tadd\nkl\tkeel\nhj\thaj\nfg\tfog\nal\tall\n";
const N_NEW: usize = 4;
/// valid new configurations (they use overrides, sequences, virtual keys, tap-hold, one-shot so that a
/// field forgotten by `do_live_reload` shows in the comparison with a fresh instance)
fn rich_new(i: usize) -> String {
    match i {
        0 => "(defsrc a s d f g h j k l ;)\n(defoverrides (lsft 1) (2))\n(deflayer first 1 lrld lsft 3 (layer-while-held second) 4 5 6 7 8)\n(deflayer second a _ b c _ d e f g h)\n".to_string(),
        1 => "(defcfg sequence-timeout 500)\n(defsrc a s d f g h j k l ;)\n(defvirtualkeys sq2 q)\n(defseq sq2 (3 4))\n(deflayer n1 3 lrld 4 sldr rpt (tap-hold 150 150 5 lctl) (one-shot 300 lsft) 6 (caps-word 1000) (macro 7 20 8))\n".to_string(),
        2 => "(defsrc a s d f g h j k l ;)\n(defvirtualkeys v a)\n(deflayer z (unmod 9) lrld (on-press tap-vkey v) mlft (mwheel-down 40 120) 0 (dynamic-macro-play 1) (movemouse-left 4 1) lalt (multi lctl 1))\n".to_string(),
        // every key is itself and there is no defzippy: chords of an old dictionary must be gone
        _ => "(defsrc a s d f g h j k l ;)\n(deflayer idn a lrld d f g h j k l ;)\n".to_string(),
    }
}

#[derive(Clone, Copy, Debug)]
enum RS {
    P(usize),
    R(usize),
    T(u32),
}

struct Scen {
    old: usize,
    before: Vec<RS>,
    after: Vec<RS>,
}

fn scenario(h: usize) -> Scen {
    use RS::*;
    match h {
        0 => Scen { old: 0, before: vec![T(5)], after: vec![T(5)] },
        1 => Scen { old: 0, before: vec![P(K_J), T(10)], after: vec![T(40), R(K_J), T(5)] },                     // key held
        2 => Scen { old: 0, before: vec![P(K_A), T(20)], after: vec![T(300), R(K_A), T(5)] },                    // pending tap-hold
        3 => Scen { old: 0, before: vec![P(K_D), T(5), R(K_D), T(5)], after: vec![T(5)] },                       // active one-shot
        4 => Scen { old: 0, before: vec![P(K_F), T(2), R(K_F), T(2)], after: vec![T(5)] },                       // running macro
        5 => Scen { old: 0, before: vec![P(K_G), T(10)], after: vec![T(20), R(K_G), T(5)] },                     // layer held
        6 => Scen { old: 0, before: vec![P(K_H), T(3), R(K_H), T(3), P(K_J), T(3), R(K_J), T(3)], after: vec![T(5)] }, // caps-word
        7 => Scen { old: 0, before: vec![P(K_L), T(3), R(K_L), T(3)], after: vec![T(5)] },                       // pending tap-dance
        8 => Scen { old: 0, before: vec![P(K_SC), T(10)], after: vec![T(20), R(K_SC), T(5)] },                   // multi held
        9 => Scen { old: 1, before: vec![P(K_A), T(10)], after: vec![T(20), R(K_A), T(5)] },                     // mouse button held
        10 => Scen { old: 1, before: vec![P(K_D), T(10)], after: vec![T(20), R(K_D), T(5)] },                    // wheel scrolling
        11 => Scen { old: 1, before: vec![P(K_F), T(10)], after: vec![T(20), R(K_F), T(5)] },                    // mouse moving
        12 => Scen { old: 1, before: vec![P(K_G), T(10)], after: vec![T(1100), R(K_G), T(5)] },                  // unmod held
        13 => Scen { old: 1, before: vec![P(K_J), T(3), R(K_J), T(3)], after: vec![T(5)] },                      // on-idle pending
        14 => Scen { old: 1, before: vec![P(K_K), T(3), R(K_K), T(3)], after: vec![T(5)] },                      // hold-for-duration running
        15 => Scen { old: 1, before: vec![P(K_L), T(3), R(K_L), T(3), P(K_G), T(3), R(K_G), T(3)], after: vec![T(5)] }, // dynamic macro being recorded
        16 => Scen { old: 1, before: vec![P(K_L), T(3), R(K_L), T(3), P(K_G), T(3), R(K_G), T(3), P(K_L), T(3), R(K_L), T(3), P(K_SC), T(1), R(K_SC)], after: vec![T(5)] }, // replay running
        17 => Scen { old: 1, before: vec![P(K_H), T(10)], after: vec![T(20), R(K_H), T(5)] },                    // movemouse-speed held
        18 => Scen { old: 2, before: vec![P(K_F), T(3), R(K_F), T(3), P(K_A), T(3), R(K_A), T(3)], after: vec![T(5)] }, // sequence mode active
        19 => Scen { old: 2, before: vec![P(K_K), T(10)], after: vec![T(1100), R(K_K), T(5)] },                  // unshift held
        20 => Scen { old: 2, before: vec![P(K_L), T(3), R(K_L), T(5)], after: vec![T(1100), P(K_SC), T(2), R(K_SC), T(5)] }, // virtual key left pressed, released 1.1 s after the request
        21 => Scen { old: 2, before: vec![P(K_D), T(3), R(K_D), T(3)], after: vec![T(5)] },                      // a key typed before (rpt)
        22 => Scen { old: 3, before: vec![T(5)], after: vec![T(5)] },                                            // zippychord dictionary loaded
        23 => Scen { old: 3, before: vec![P(K_D), T(5), P(K_F), T(20), R(K_D), R(K_F), T(10)], after: vec![T(5)] }, // a chord typed before
        24 => Scen { old: 4, before: vec![P(K_A), T(10)], after: vec![T(20), R(K_A), T(5)] },                    // arbitrary code held (reload at once: no output key is down)
        25 => Scen { old: 4, before: vec![P(K_F), T(10)], after: vec![T(1100), R(K_F), T(5)] },                  // arbitrary code next to a key: idle-second reload
        _ => Scen { old: 4, before: vec![P(K_D), T(10)], after: vec![T(1500)] },                                 // unmod key still held when the idle-second reload fires, and after it
    }
}
pub const N_SCEN: usize = 27;

fn rcode(k: usize) -> u16 {
    osc(RKEYS[k])
}

fn play(r: &mut Run, steps: &[RS]) {
    for s in steps {
        match s {
            RS::P(k) => r.input(rcode(*k), true, 1),
            RS::R(k) => r.input(rcode(*k), false, 1),
            RS::T(n) => r.idle_n(*n),
        }
    }
}

/// random continuation: mostly consistent taps and holds over all ten keys, then everything is
/// released and left to settle
fn continuation(seed: u64) -> Vec<RS> {
    let mut r = Rng::new(seed ^ 0x5EED);
    let mut v = vec![];
    let mut down = [false; 10];
    for _ in 0..r.range(25, 45) {
        match r.below(10) {
            0..=4 => {
                let k = r.below(10) as usize;
                if !down[k] {
                    v.push(RS::P(k));
                    down[k] = true;
                } else {
                    v.push(RS::R(k));
                    down[k] = false;
                }
            }
            5 | 6 => {
                let held: Vec<usize> = (0..10).filter(|i| down[*i]).collect();
                if !held.is_empty() {
                    let k = *r.pick(&held);
                    v.push(RS::R(k));
                    down[k] = false;
                }
            }
            _ => v.push(RS::T(*r.pick(&[1u32, 2, 5, 10, 40, 160, 260]))),
        }
    }
    for k in 0..10 {
        if down[k] {
            v.push(RS::R(k));
            v.push(RS::T(2));
        }
    }
    v.push(RS::T(700));
    v
}

/// keys / buttons down at the OS according to a trace
fn pressed_set(trace: &[(u32, String)]) -> Vec<String> {
    let mut down: Vec<String> = vec![];
    for (_, t) in trace {
        if let Some(k) = t.strip_prefix('d') {
            if k.chars().all(|c| c.is_ascii_digit()) && !down.contains(&k.to_string()) {
                down.push(k.to_string());
            }
        } else if let Some(k) = t.strip_prefix('u') {
            if k.chars().all(|c| c.is_ascii_digit()) {
                down.retain(|x| x != k);
            }
        } else if let Some(b) = t.strip_prefix("o[out🖰:↓") {
            let b = format!("btn{}", b.trim_end_matches(']'));
            if !down.contains(&b) {
                down.push(b);
            }
        } else if let Some(b) = t.strip_prefix("o[out🖰:↑") {
            let b = format!("btn{}", b.trim_end_matches(']'));
            down.retain(|x| *x != b);
        } else if let Some(c) = t.strip_prefix("o[out-code:") {
            // [t7:parked] (arbitrary-code n): `out-code:n;Press` / `out-code:n;Release`
            let c = c.trim_end_matches(']');
            if let Some((n, v)) = c.split_once(';') {
                let name = format!("code{n}");
                if v == "Press" {
                    if !down.contains(&name) {
                        down.push(name);
                    }
                } else if v == "Release" {
                    down.retain(|x| *x != name);
                }
            }
        }
    }
    down.sort();
    down
}

fn is_out(t: &str) -> bool {
    t.starts_with('d') || t.starts_with('u') || t.starts_with("o[") || t.starts_with("M.layer")
}

fn rel_trace(trace: &[(u32, String)], from: u32) -> Vec<String> {
    trace.iter().filter(|(i, t)| *i >= from && is_out(t)).map(|(i, t)| format!("{}:{}", i - from, t)).collect()
}

fn first_diff(a: &[String], b: &[String]) -> String {
    for i in 0..a.len().max(b.len()) {
        let x = a.get(i).map(|s| s.as_str()).unwrap_or("end");
        let y = b.get(i).map(|s| s.as_str()).unwrap_or("end");
        if x != y {
            return format!("{x}/{y}");
        }
    }
    "-".into()
}

const BROKEN_SYN: &str = "(defsrc a s d f g h j k l ;)\n(deflayer broken 1 2 3 4 5 6 7 8 9 0\n";
const BROKEN_SEM: &str = "(defsrc a s d f g h j k l ;)\n(deflayer bad 1 2 3 (layer-switch nosuchlayer) 5 6 7 8 9 0)\n";

fn write_kind(p: &PathBuf, kind: &str, newi: usize) {
    match kind {
        "ok" => write_text(p, &rich_new(newi)),
        "syn" => write_text(p, BROKEN_SYN),
        "sem" => write_text(p, BROKEN_SEM),
        "mis" => remove_any(p),
        _ => {
            remove_any(p);
            std::fs::create_dir_all(p).expect("harness-error mkdir");
        }
    }
}

fn request() -> Vec<RS> {
    vec![RS::P(K_S), RS::T(2), RS::R(K_S), RS::T(2)]
}

/// returns (verdict, tainted)
fn run_r(hist: usize, kind: &str, newi: usize, seed: u64) -> (String, bool) {
    let sc = scenario(hist);
    let cont = continuation(seed);
    let td = TmpDir::new();
    let paths = vec![td.path(0)];
    let zp = td.path(9);
    write_text(&zp, ZIPPY_DICT);
    ZIPPY_PATH.with(|z| *z.borrow_mut() = zp.to_string_lossy().to_string());
    // ---- run A: the reload is requested
    write_text(&paths[0], &rich_old(sc.old, "lrld"));
    let k = match new_kanata(&paths) {
        Ok(k) => k,
        Err(e) => return (format!("harness-error old config rejected {}", e.replace(' ', "_")), false),
    };
    let mut a = Run::new(k, &paths);
    a.never_block = true;
    play(&mut a, &sc.before);
    write_kind(&paths[0], kind, newi);
    let req_at = a.iter;
    play(&mut a, &request());
    play(&mut a, &sc.after);
    if kind != "ok" {
        play(&mut a, &cont);
        let applied = a.trace.iter().filter(|(_, t)| t == "ok").count();
        let rmsgs: Vec<String> = a.trace.iter().filter(|(_, t)| t.starts_with("M.reload")).map(|(_, t)| t.clone()).collect();
        let a_layer = a.k.layout.bm().current_layer();
        let a_tr = rel_trace(&a.trace, 0);
        let a_pressed = pressed_set(&a.trace);
        let a_err = a.err.clone();
        let tainted_a = a.tainted;
        if std::env::var("KV_C15_DEBUG").is_ok() {
            eprintln!("Afull: {}", a.trace_str());
        }
        drop(a);
        // ---- run B: same keys, the key that asked for the reload does something harmless instead
        write_text(&paths[0], &rich_old(sc.old, "(push-msg \"noreload\")"));
        let k = match new_kanata(&paths) {
            Ok(k) => k,
            Err(e) => return (format!("harness-error twin config rejected {}", e.replace(' ', "_")), false),
        };
        let mut b = Run::new(k, &paths);
        b.never_block = true;
        play(&mut b, &sc.before);
        write_kind(&paths[0], kind, newi);
        play(&mut b, &request());
        play(&mut b, &sc.after);
        play(&mut b, &cont);
        let b_tr = rel_trace(&b.trace, 0);
        if std::env::var("KV_C15_DEBUG").is_ok() {
            eprintln!("Bfull: {}", b.trace_str());
        }
        let same = a_tr == b_tr && a_layer == b.k.layout.bm().current_layer() && a_pressed == pressed_set(&b.trace) && a_err == b.err;
        let noop = if same { "eq".to_string() } else { format!("ne@{}", first_diff(&a_tr, &b_tr)) };
        if std::env::var("KV_C15_DEBUG").is_ok() {
            eprintln!("A: {}\nB: {}", a_tr.join(" "), b_tr.join(" "));
        }
        let v = format!(
            "applied={} msgs={} noop={}",
            applied,
            if rmsgs.is_empty() { "-".to_string() } else { rmsgs.join(",") },
            noop
        );
        let _ = req_at;
        return (v, tainted_a || b.tainted);
    }
    // ---- successful reload expected: wait (bounded) for it
    let mut waited = 0;
    while !a.trace.iter().any(|(i, t)| *i >= req_at && (t == "ok" || t == "fail")) && waited < 2500 {
        if !a.idle(1) {
            break; // the loop would block with the request still pending: never applied without input
        }
        waited += 1;
    }
    let applied = a.trace.iter().filter(|(i, t)| *i >= req_at && t == "ok").count();
    // "from an idle state": give the instance time to become idle (caps-word, sequence mode, one-shots
    // and macros run out by themselves), at least 30 and at most 3000 ticks
    let ok_iter = a.trace.iter().find(|(i, t)| *i >= req_at && t == "ok").map(|(i, _)| *i);
    a.idle_n(30);
    let mut idle_wait = 0;
    while !a.k.is_idle() && idle_wait < 3000 {
        a.idle_n(1);
        idle_wait += 1;
    }
    let idle_ok = a.k.is_idle();
    a.idle_n(5);
    // a fresh instance left alone emits nothing: after the reload only releases may appear
    let quiet = match ok_iter {
        Some(oi) => !a.trace.iter().any(|(i, t)| *i > oi && (t.starts_with('d') || t.starts_with("o["))),
        None => true,
    };
    // notifications: which messages arrived in the iteration of the reload, and any ConfigFileReload elsewhere
    let mut msgs: Vec<String> = vec![];
    for (i, t) in a.trace.iter() {
        if *i < req_at || !t.starts_with("M.") {
            continue;
        }
        if Some(*i) == ok_iter || t.starts_with("M.reload") {
            msgs.push(if t.starts_with("M.reload.0") {
                "reload".to_string()
            } else if *t == format!("M.layer.{}", ["first", "n1", "z", "idn"][newi]) {
                "layer".to_string()
            } else {
                t.clone()
            });
        }
    }
    let mut pressed = pressed_set(&a.trace);
    // [t7:parked] "nothing stays pressed" also holds for the real loop, which parks as soon as it may
    for x in a.parked_after_reload.clone().unwrap_or_default() {
        if !pressed.contains(&x) {
            pressed.push(x);
        }
    }
    pressed.sort();
    let start_a = a.iter;
    play(&mut a, &cont);
    let a_tr = rel_trace(&a.trace, start_a);
    let a_layer = a.k.layout.bm().current_layer();
    let a_pressed_end = pressed_set(&a.trace[..]);
    let tainted_a = a.tainted;
    let a_err = a.err.clone();
    drop(a);
    // ---- fresh instance on the new file
    let k = match new_kanata(&paths) {
        Ok(k) => k,
        Err(e) => return (format!("harness-error new config rejected {}", e.replace(' ', "_")), false),
    };
    let mut b = Run::new(k, &paths);
    b.never_block = true;
    b.idle_n(35);
    let start_b = b.iter;
    play(&mut b, &cont);
    let b_tr = rel_trace(&b.trace, start_b);
    // keys that were still down at the reload are excluded from the end-state comparison only if the
    // property's "nothing stays pressed" clause already reported them
    let same = a_tr == b_tr && a_layer == b.k.layout.bm().current_layer() && a_err == b.err
        && a_pressed_end.iter().filter(|x| !pressed.contains(x)).cloned().collect::<Vec<_>>() == pressed_set(&b.trace);
    let fresh = if same { "eq".to_string() } else { format!("ne@{}", first_diff(&a_tr, &b_tr)) };
    if std::env::var("KV_C15_DEBUG").is_ok() {
        eprintln!("A: {}\nB: {}", a_tr.join(" "), b_tr.join(" "));
    }
    let v = format!(
        "applied={} msgs={} pressed={} idle={} quiet={} fresh={}",
        applied,
        if msgs.is_empty() { "-".to_string() } else { msgs.join(",") },
        if pressed.is_empty() { "-".to_string() } else { pressed.join(",") },
        if idle_ok { "ok" } else { "never" },
        if quiet { "ok" } else { "no" },
        fresh
    );
    (v, tainted_a || b.tainted)
}

fn eval_r(t: &mut Toks) -> String {
    let _old = t.num();
    let hist = t.num() as usize;
    let kind = t.next().to_string();
    let newi = t.num() as usize;
    let seed = t.num();
    for _ in 0..6 {
        let (out, tainted) = run_r(hist, &kind, newi, seed);
        if !tainted {
            return out;
        }
    }
    "harness-error timing".into()
}

pub fn gen_r(tier: &str, r: &mut Rng) -> Vec<String> {
    let mut out = vec![];
    let reps = if tier == "thorough" { 40 } else { 4 };
    for rep in 0..reps {
        for h in 0..N_SCEN {
            let sc = scenario(h);
            for kind in ["ok", "syn", "sem", "mis", "unr"] {
                if rep == 0 || kind == "ok" || r.chance(1, 3) {
                    let newi = if kind == "ok" { (h + rep) % N_NEW } else { 0 };
                    out.push(format!("C15 R {} {} {} {} {}", sc.old, h, kind, newi, r.below(1_000_000)));
                }
            }
            if rep == 0 {
                for newi in 0..N_NEW {
                    out.push(format!("C15 R {} {} ok {} {}", sc.old, h, newi, r.below(1_000_000)));
                }
            }
        }
    }
    out
}
