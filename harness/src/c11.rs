//! C11: key identity. Dumps the compiled key tables entry by entry (`code`, `name` cases), pushes
//! single keys through the real `Kanata` with the simulated output sink (`tap` cases) and compares
//! `Cfg.mapped_keys` of generated configurations (`mapped` cases).
//!
//! Case lines are plain ASCII; key names travel as dot-separated Unicode code points.
//!   C11 code <v>
//!   C11 name <cps> <0|1>                        (1: also parse the name in action position)
//!   C11 tap <v> <config>
//!   C11 mapped <config>
//!   <config> ::= loc <n> (<cps> <num>)*  puk <no|yes|exc <n> <cps>*>  src <n> <cps>*
//!                layers <n> ( plain <n> <cps>* | map <n> (<in> <cps>)* )*
//!   <in> ::= k:<cps> | _ | __ | ___
use crate::rng::Rng;
use kanata_keyberon::action::Action;
use kanata_keyberon::key_code::KeyCode;
use kanata_parser::cfg;
use kanata_parser::custom_action::{Btn, CustomAction, MWheelDirection};
use kanata_parser::keys::{replace_custom_str_oscode_mapping, str_to_oscode, OsCode};
use kanata_state_machine::oskbd::{KeyEvent, KeyValue};
use kanata_state_machine::Kanata;

const NAMES_FILE: &str = concat!(env!("CARGO_MANIFEST_DIR"), "/../lean/KVerif/Gen/KeyNames.txt");

fn cps_to_string(t: &str) -> Option<String> {
    if t == "-" {
        return Some(String::new());
    }
    t.split('.').map(|x| x.parse::<u32>().ok().and_then(char::from_u32)).collect()
}
fn string_to_cps(s: &str) -> String {
    s.chars().map(|c| (c as u32).to_string()).collect::<Vec<_>>().join(".")
}

/// the name universe written by the translator (every name of str_to_oscode incl. aliases,
/// DEFAULT_MAPPINGS, evdev identifiers, keyberon Display strings, special action atoms)
fn name_universe() -> Vec<String> {
    let txt = std::fs::read_to_string(NAMES_FILE).unwrap_or_else(|e| panic!("cannot read {NAMES_FILE}: {e}"));
    txt.lines().filter(|l| !l.trim().is_empty()).map(|l| cps_to_string(l.trim()).expect("bad name line")).collect()
}

fn reset_custom_names() {
    replace_custom_str_oscode_mapping(&Default::default());
}

/// characters that the kanata lexer treats specially; names containing them are looked up with
/// `str_to_oscode` but not written into a configuration by the generator
fn lexer_safe(n: &str) -> bool {
    !n.is_empty() && !n.chars().any(|c| c.is_whitespace() || "\"();$@#|".contains(c))
}

fn accepted_codes() -> Vec<u16> {
    (0..=1023u16).filter(|v| OsCode::from_u16(*v).is_some()).collect()
}

// --------------------------------------------------------------------------------- config text

#[derive(Clone, Debug)]
enum PukT {
    No,
    Yes,
    Exc(Vec<String>),
}
#[derive(Clone, Debug)]
enum LayerT {
    Plain(Vec<String>),
    Map(Vec<(String, String)>), // input token as written (`_`, `__`, `___` or a key name), action
}
#[derive(Clone, Debug)]
struct CfgT {
    loc: Vec<(String, String)>,
    puk: PukT,
    src: Vec<String>,
    layers: Vec<LayerT>,
}

fn cfg_tokens(c: &CfgT) -> String {
    let mut t = vec![format!("loc {}", c.loc.len())];
    for (n, v) in &c.loc {
        t.push(format!("{} {}", string_to_cps(n), v));
    }
    match &c.puk {
        PukT::No => t.push("puk no".into()),
        PukT::Yes => t.push("puk yes".into()),
        PukT::Exc(ns) => {
            t.push(format!("puk exc {}", ns.len()));
            for n in ns {
                t.push(string_to_cps(n));
            }
        }
    }
    t.push(format!("src {}", c.src.len()));
    for n in &c.src {
        t.push(string_to_cps(n));
    }
    t.push(format!("layers {}", c.layers.len()));
    for l in &c.layers {
        match l {
            LayerT::Plain(acts) => {
                t.push(format!("plain {}", acts.len()));
                for a in acts {
                    t.push(string_to_cps(a));
                }
            }
            LayerT::Map(ps) => {
                t.push(format!("map {}", ps.len()));
                for (i, a) in ps {
                    if i == "_" || i == "__" || i == "___" {
                        t.push(i.clone());
                    } else {
                        t.push(format!("k:{}", string_to_cps(i)));
                    }
                    t.push(string_to_cps(a));
                }
            }
        }
    }
    t.join(" ")
}

struct Toks<'a>(std::str::SplitWhitespace<'a>);
impl<'a> Toks<'a> {
    fn next(&mut self) -> Result<&'a str, String> {
        self.0.next().ok_or_else(|| "unexpected end of line".to_string())
    }
    fn num(&mut self) -> Result<usize, String> {
        self.next()?.parse::<usize>().map_err(|e| e.to_string())
    }
    fn name(&mut self) -> Result<String, String> {
        cps_to_string(self.next()?).ok_or_else(|| "bad code points".to_string())
    }
    fn expect(&mut self, s: &str) -> Result<(), String> {
        let t = self.next()?;
        if t == s {
            Ok(())
        } else {
            Err(format!("expected {s}, got {t}"))
        }
    }
}

fn parse_cfg_tokens(t: &mut Toks) -> Result<CfgT, String> {
    t.expect("loc")?;
    let n = t.num()?;
    let mut loc = vec![];
    for _ in 0..n {
        let name = t.name()?;
        let v = t.next()?.to_string();
        loc.push((name, v));
    }
    t.expect("puk")?;
    let puk = match t.next()? {
        "no" => PukT::No,
        "yes" => PukT::Yes,
        "exc" => {
            let n = t.num()?;
            let mut v = vec![];
            for _ in 0..n {
                v.push(t.name()?);
            }
            PukT::Exc(v)
        }
        x => return Err(format!("bad puk {x}")),
    };
    t.expect("src")?;
    let n = t.num()?;
    let mut src = vec![];
    for _ in 0..n {
        src.push(t.name()?);
    }
    t.expect("layers")?;
    let nl = t.num()?;
    let mut layers = vec![];
    for _ in 0..nl {
        match t.next()? {
            "plain" => {
                let n = t.num()?;
                let mut a = vec![];
                for _ in 0..n {
                    a.push(t.name()?);
                }
                layers.push(LayerT::Plain(a));
            }
            "map" => {
                let n = t.num()?;
                let mut ps = vec![];
                for _ in 0..n {
                    let i = t.next()?;
                    let inp = if let Some(k) = i.strip_prefix("k:") {
                        cps_to_string(k).ok_or("bad code points")?
                    } else {
                        i.to_string()
                    };
                    ps.push((inp, t.name()?));
                }
                layers.push(LayerT::Map(ps));
            }
            x => return Err(format!("bad layer kind {x}")),
        }
    }
    Ok(CfgT { loc, puk, src, layers })
}

fn cfg_text(c: &CfgT) -> String {
    let mut s = String::new();
    if !c.loc.is_empty() {
        s.push_str("(deflocalkeys-linux");
        for (n, v) in &c.loc {
            s.push_str(&format!(" {n} {v}"));
        }
        s.push_str(")\n");
    }
    match &c.puk {
        PukT::No => s.push_str("(defcfg process-unmapped-keys no)\n"),
        PukT::Yes => s.push_str("(defcfg process-unmapped-keys yes)\n"),
        PukT::Exc(ns) => s.push_str(&format!("(defcfg process-unmapped-keys (all-except {}))\n", ns.join(" "))),
    }
    s.push_str(&format!("(defsrc {})\n", c.src.join(" ")));
    for (i, l) in c.layers.iter().enumerate() {
        match l {
            LayerT::Plain(a) => s.push_str(&format!("(deflayer l{i} {})\n", a.join(" "))),
            LayerT::Map(ps) => {
                s.push_str(&format!("(deflayermap (l{i})"));
                for (i, a) in ps {
                    s.push_str(&format!(" {i} {a}"));
                }
                s.push_str(")\n");
            }
        }
    }
    s
}

/// classify a parser diagnostic by its message (the model prints the same tags)
fn classify_err(msg: &str) -> &'static str {
    const TABLE: &[(&str, &str)] = &[
        ("Duplicate key name is not allowed", "excDup"),
        (" found in deflocalkeys", "localDup"),
        ("Unknown number in deflocalkeys", "localUnknownNumber"),
        ("Expected a known key name", "excUnknown"),
        ("Expected (all-except key1", "excEmpty"),
        ("Unknown key in defsrc", "srcUnknown"),
        ("Repeat declaration of key in defsrc", "srcRepeat"),
        ("Keys cannot be included in defsrc and also excepted", "srcExcepted"),
        ("input must be a key name", "lmUnknown"),
        ("input key must not be repeated within a layer", "lmRepeat"),
        ("must have only one use of _ within a layer", "lmAny1Twice"),
        ("must have only one use of __ within a layer", "lmAny2Twice"),
        ("must have only one use of ___ within a layer", "lmAny3Twice"),
        ("must either use _ or ___ within a layer", "lmAnyMix"),
        ("must either use __ or ___ within a layer", "lmAnyMix"),
        ("must set process-unmapped-keys to yes", "lmNeedsPuk"),
        ("Unknown key/action", "action"),
        ("This is a list action", "action"),
    ];
    for (pat, tag) in TABLE {
        if msg.contains(pat) {
            return tag;
        }
    }
    "other"
}

fn err_text<E: std::fmt::Debug + std::fmt::Display>(e: &E) -> String {
    format!("{e} {e:?}")
}

// --------------------------------------------------------------------------------- eval

fn eval_code(v: u16) -> String {
    let modi;
    let body = match OsCode::from_u16(v) {
        None => {
            modi = 0;
            "from none".to_string()
        }
        Some(osc) => {
            let c = osc.as_u16();
            modi = osc.is_modifier() as u8;
            let kc: KeyCode = osc.into();
            let k = kc as u16;
            let back: OsCode = kc.into();
            format!("from {c} kc {k} back {}", back as u16)
        }
    };
    format!("{body} | mod {modi}")
}

fn act_tag<'a>(a: &Action<'a, &'a &'a [&'a CustomAction]>) -> String {
    match a {
        Action::NoOp => "noop".into(),
        Action::Trans => "trans".into(),
        Action::KeyCode(k) => format!("key {}", *k as u16),
        Action::Custom(cs) if cs.len() == 1 => match cs[0] {
            CustomAction::Mouse(b) => format!("btn {}", OsCode::from(*b).as_u16()),
            CustomAction::MWheelNotch { direction } => format!("wheel {}", wheel_code(*direction)),
            _ => "other".into(),
        },
        _ => "other".into(),
    }
}

fn wheel_code(d: MWheelDirection) -> u16 {
    for v in accepted_codes() {
        let osc = OsCode::from_u16(v).unwrap();
        if let Ok(dd) = MWheelDirection::try_from(osc) {
            if dd == d {
                return v;
            }
        }
    }
    9999
}

fn eval_name(name: &str, act: bool) -> String {
    reset_custom_names();
    let is_key = str_to_oscode(name).is_some();
    let looked = match str_to_oscode(name) {
        Some(c) => c.as_u16().to_string(),
        None => "none".into(),
    };
    let a = if !act {
        "-".to_string()
    } else {
        let text = format!("(defcfg process-unmapped-keys no)\n(defsrc a)\n(deflayer l {name})\n");
        let r = cfg::new_from_str(&text, Default::default());
        reset_custom_names();
        match r {
            Ok(c) => {
                let a_code = u16::from(str_to_oscode("a").unwrap()) as usize;
                let layout = c.layout.b();
                let tag = act_tag(&layout.layers[0][0][a_code]);
                tag
            }
            Err(_) => "err".into(),
        }
    };
    // what a non-key atom means as an action (alias, chord prefix, unicode, …) is outside this slice
    let a = if !is_key && (a == "err" || a == "other") { "nokey".to_string() } else { a };
    format!("name {looked} act {a}")
}

fn fmt_mapped(m: &cfg::MappedKeys) -> String {
    let mut v: Vec<u16> = m.iter().map(|c| c.as_u16()).collect();
    v.sort();
    if v.is_empty() {
        "-".into()
    } else {
        v.iter().map(|x| x.to_string()).collect::<Vec<_>>().join(",")
    }
}

fn eval_mapped(c: &CfgT) -> String {
    let text = cfg_text(c);
    let r = cfg::new_from_str(&text, Default::default());
    let out = match r {
        Ok(cfg) => format!("ok {}", fmt_mapped(&cfg.mapped_keys)),
        Err(e) => format!("rej {}", classify_err(&err_text(&e))),
    };
    reset_custom_names();
    out
}

/// KeyCode Debug name -> code, for reading the simulated output back
fn keycode_names() -> std::collections::HashMap<String, u16> {
    let mut m = std::collections::HashMap::new();
    for v in accepted_codes() {
        let kc: KeyCode = OsCode::from_u16(v).unwrap().into();
        m.insert(format!("{kc:?}"), v);
    }
    m
}

fn btn_code(name: &str) -> Option<u16> {
    for b in [Btn::Left, Btn::Right, Btn::Mid, Btn::Forward, Btn::Backward] {
        if format!("{b:?}") == name {
            return Some(OsCode::from(b).as_u16());
        }
    }
    None
}
fn dir_code(name: &str) -> Option<u16> {
    for d in [MWheelDirection::Up, MWheelDirection::Down, MWheelDirection::Left, MWheelDirection::Right] {
        if format!("{d:?}") == name {
            return Some(wheel_code(d));
        }
    }
    None
}

fn canon_events(events: &[String]) -> String {
    let names = keycode_names();
    let mut out = vec![];
    for e in events {
        if e.starts_with("t:") {
            continue;
        }
        let tok = if let Some(k) = e.strip_prefix("out:↓") {
            names.get(k).map(|c| format!("d{c}"))
        } else if let Some(k) = e.strip_prefix("out:↑") {
            names.get(k).map(|c| format!("u{c}"))
        } else if let Some(b) = e.strip_prefix("out🖰:↓") {
            btn_code(b).map(|c| format!("bd{c}"))
        } else if let Some(b) = e.strip_prefix("out🖰:↑") {
            btn_code(b).map(|c| format!("bu{c}"))
        } else if let Some(s) = e.strip_prefix("scroll:") {
            s.split_once(',').and_then(|(d, n)| dir_code(d).map(|c| format!("wh{c}:{n}")))
        } else {
            None
        };
        out.push(tok.unwrap_or_else(|| format!("?{}", e.replace(' ', "_"))));
    }
    if out.is_empty() {
        "-".into()
    } else {
        out.join(" ")
    }
}

fn eval_tap(v: u16, c: &CfgT) -> String {
    let text = cfg_text(c);
    // the set of intercepted keys decides, in the Linux event loop, whether the event reaches the
    // state machine at all (src/kanata/linux.rs: `if !MAPPED_KEYS.lock().contains(..) { write_raw }`)
    let parsed = cfg::new_from_str(&text, Default::default());
    let mapped = match parsed {
        Ok(cfg) => cfg.mapped_keys,
        Err(e) => {
            reset_custom_names();
            return format!("rej {}", classify_err(&err_text(&e)));
        }
    };
    let Some(code) = OsCode::from_u16(v) else {
        reset_custom_names();
        return "notacode".into();
    };
    if !mapped.contains(&code) {
        reset_custom_names();
        return format!("m 0 | raw{v}:0 raw{v}:1");
    }
    let mut k = match Kanata::new_from_str(&text, Default::default()) {
        Ok(k) => k,
        Err(e) => {
            reset_custom_names();
            return format!("rej2 {e:?}").replace('\n', " ");
        }
    };
    reset_custom_names();
    k.handle_input_event(&KeyEvent { code, value: KeyValue::Press }).expect("input handles fine");
    k.tick_ms(5, &None).unwrap();
    k.handle_input_event(&KeyEvent { code, value: KeyValue::Release }).expect("input handles fine");
    k.tick_ms(5, &None).unwrap();
    format!("m 1 | {}", canon_events(&k.kbd_out.outputs.events))
}

// [t8:pipe] begin
/// `C11 pipe <expect> KAN 0 <hex(cfg text)> HIST ...` - a whole configuration text (a zippychord
/// dictionary travels as a `;;file <name> <hex>` comment line, see kan::cfg_files) run on the real
/// `Kanata` with the simulated output sink: `pipe <OS events with virtual times>` | `pipe rej`.
/// `<expect>` is read by the runner's oracle only (`same:<code>`: every key event sent to the OS
/// carries that code, and it is sent; `noignored`: no code of the reserved range 676..=685 is sent).
fn eval_pipe(line: &str) -> String {
    let Some(pos) = line.find(" KAN ") else {
        return "harness-error pipe case without KAN part".into();
    };
    let p = crate::kan::parse_kline(&line[pos + 1..]);
    let mut r = match crate::kan::Runner::new(&p.cfg_text) {
        Ok(r) => r,
        Err(e) => {
            reset_custom_names();
            // the text under the arrow and the help line of the rendered diagnostic
            let flat: String = e.split_whitespace().collect::<Vec<_>>().join(" ");
            let at = |pat: &str| flat.find(pat).map(|i| flat[i..].chars().take(110).collect::<String>()).unwrap_or_default();
            let msg = format!("{} {}", at("╰── "), at("help:"));
            return format!("pipe rej {msg}");
        }
    };
    reset_custom_names();
    crate::kan::run_hist(&mut r, &p.hist, false, false);
    format!("pipe {}", if r.out.is_empty() { "-".to_string() } else { r.out.join(" ") })
}

fn pipe_line(expect: &str, cfg_text: &str, hist: &[crate::kan::KEv]) -> String {
    format!("C11 pipe {expect} {}", crate::kan::mk_kline("KAN", false, cfg_text, hist))
}

fn tap_under(layer_key: Option<u16>, key: u16) -> Vec<crate::kan::KEv> {
    use crate::kan::KEv;
    use crate::lay::HEv;
    let mut h = vec![];
    if let Some(l) = layer_key {
        h.push(KEv::L(HEv::Press(0, l)));
        h.push(KEv::L(HEv::Tick(5)));
    }
    h.push(KEv::L(HEv::Press(0, key)));
    h.push(KEv::L(HEv::Tick(5)));
    h.push(KEv::L(HEv::Release(0, key)));
    h.push(KEv::L(HEv::Tick(5)));
    if let Some(l) = layer_key {
        h.push(KEv::L(HEv::Release(0, l)));
    }
    h.push(KEv::L(HEv::Tick(250)));
    h
}

/// Family `pipe-identity` (statement: "a key that is mapped to itself ... comes out as the same OS
/// key code that went in"): `use-defsrc` maps a key to itself whatever the other layers do. Options
/// `delegate-to-first-layer yes|no` x first layer written as deflayer | deflayermap and remapping
/// the key under test to another key x the position of `use-defsrc` on a held upper layer (bare, in
/// multi, in a switch case, as the tap action of a tap-hold, in a fork branch; the parser refuses it
/// inside one-shot) x key under test.
fn gen_pipe_identity(r: &mut Rng, named: &[(String, u16)], thorough: bool, out: &mut Vec<String>) {
    let plain: Vec<(String, u16)> = named
        .iter()
        .filter(|(n, c)| lexer_safe(n) && *c != 0 && *c < 700 && !(676..=685).contains(c) && !(272..=279).contains(c) && !n.starts_with("mwu") && !n.starts_with("mwd")
            && !n.starts_with("mwl") && !n.starts_with("mwr") && !n.starts_with("mlft") && !n.starts_with("mrgt") && !n.starts_with("mmid")
            && !n.starts_with("mfwd") && !n.starts_with("mbck") && !["spc", "caps", "lsft", "rsft", "lctl", "rctl", "lalt", "ralt", "lmet", "rmet"].contains(&n.as_str()))
        .cloned()
        .collect();
    let positions: [(&str, &str); 5] = [
        ("bare", "use-defsrc"),
        ("multi", "(multi use-defsrc)"),
        ("switch", "(switch () use-defsrc break)"),
        ("taphold", "(tap-hold 0 200 use-defsrc XX)"),
        ("fork", "(fork use-defsrc XX (lctl))"),
    ];
    let mut keys: Vec<(String, u16)> = vec![];
    let mut seen = std::collections::HashSet::new();
    if thorough {
        for (n, c) in &plain {
            if *c != 58 && seen.insert(*c) {
                keys.push((n.clone(), *c));
            }
        }
    } else {
        // `a` always (the witness of the seeded change), then a seed-dependent sample
        for (n, c) in plain.iter().filter(|(n, _)| n == "a" || n == "f1") {
            if seen.insert(*c) {
                keys.push((n.clone(), *c));
            }
        }
        let mut guard = 0;
        while keys.len() < 24 && guard < 5000 {
            guard += 1;
            let (n, c) = r.pick(&plain).clone();
            if c != 58 && seen.insert(c) {
                keys.push((n, c));
            }
        }
    }
    let caps = 58u16; // the key that holds the upper layer
    for (kname, kcode) in &keys {
        // another key, to which the first layer remaps the key under test
        let (xname, _) = plain.iter().find(|(_, c)| c != kcode && *c != caps).unwrap().clone();
        for delegate in ["yes", "no"] {
            for first in ["deflayer", "deflayermap"] {
                for (_pname, ptext) in positions.iter() {
                    let mut t = format!("(defcfg delegate-to-first-layer {delegate} process-unmapped-keys yes)\n");
                    if first == "deflayer" {
                        t.push_str(&format!("(defsrc {kname} caps)\n(deflayer base {xname} (layer-while-held nav))\n(deflayer nav {ptext} _)\n"));
                    } else {
                        t.push_str(&format!("(defsrc caps)\n(deflayermap (base) {kname} {xname} caps (layer-while-held nav))\n(deflayermap (nav) {kname} {ptext})\n"));
                    }
                    out.push(pipe_line(&format!("same:{kcode}"), &t, &tap_under(Some(caps), *kcode)));
                }
            }
        }
    }
}

/// Family `pipe-noignored` (statement: "The reserved no-op codes are never sent to the OS"): every
/// route by which a configuration can name nop0..nop9 as something to be sent - plain mapping, multi,
/// macro, output chord, tap-hold, one-shot, fork, chords v1 / v2, overrides, sequences, and the
/// zippychord output-character-mappings - pressed and released.
fn gen_pipe_noignored(out: &mut Vec<String>) {
    use crate::kan::KEv;
    use crate::lay::HEv;
    let (ka, kb, kd, ky) = (30u16, 48u16, 32u16, 21u16);
    let tap = |k: u16| vec![KEv::L(HEv::Press(0, k)), KEv::L(HEv::Tick(10)), KEv::L(HEv::Release(0, k)), KEv::L(HEv::Tick(300))];
    for n in 0..10 {
        let nop = format!("nop{n}");
        let acts = [
            nop.clone(),
            format!("(multi {nop} b)"),
            format!("(macro {nop} 5 b)"),
            format!("S-{nop}"),
            format!("(tap-hold 0 50 {nop} {nop})"),
            format!("(one-shot 50 {nop})"),
            format!("(fork {nop} {nop} (lctl))"),
            format!("(tap-dance 50 ({nop} b))"),
            format!("(unmod {nop})"),
        ];
        for a in acts.iter() {
            let t = format!("(defsrc a b)\n(deflayer l {a} b)\n");
            out.push(pipe_line("noignored", &t, &tap(ka)));
        }
        let t = format!("(defsrc a b)\n(deflayer l a b)\n(defoverrides (a) ({nop}))\n");
        out.push(pipe_line("noignored", &t, &tap(ka)));
        let t = format!("(defsrc a b)\n(deflayer l (chord c a) (chord c b))\n(defchords c 50 (a) a (b) b (a b) {nop})\n");
        out.push(pipe_line("noignored", &t, &[KEv::L(HEv::Press(0, ka)), KEv::L(HEv::Press(0, kb)), KEv::L(HEv::Tick(10)), KEv::L(HEv::Release(0, ka)), KEv::L(HEv::Release(0, kb)), KEv::L(HEv::Tick(300))]));
        let t = format!("(defcfg concurrent-tap-hold yes)\n(defsrc a b)\n(deflayer l a b)\n(defchordsv2 (a b) {nop} 50 all-released ())\n");
        out.push(pipe_line("noignored", &t, &[KEv::L(HEv::Press(0, ka)), KEv::L(HEv::Tick(2)), KEv::L(HEv::Press(0, kb)), KEv::L(HEv::Tick(10)), KEv::L(HEv::Release(0, ka)), KEv::L(HEv::Release(0, kb)), KEv::L(HEv::Tick(300))]));
        // zippychord: the dictionary types `d<mapped character>y`
        let dict = crate::lay::hex("dy\td%y\n");
        let t = format!(";;file zippy.txt {dict}\n(defsrc lalt)\n(deflayer base XX)\n(defzippy zippy.txt output-character-mappings (% {nop}))\n");
        out.push(pipe_line("noignored", &t, &[KEv::L(HEv::Press(0, kd)), KEv::L(HEv::Tick(10)), KEv::L(HEv::Press(0, ky)), KEv::L(HEv::Tick(10)), KEv::L(HEv::Release(0, kd)), KEv::L(HEv::Release(0, ky)), KEv::L(HEv::Tick(100))]));
    }
}
/// Family `pipe-contexts` (statement: "a key name denotes the same code wherever it is written"): a
/// key name that is accepted as a plain action is written as the key of an output chord, as a macro
/// item and inside a defseq key list; each of these configurations must be accepted too (what they
/// then send is the business of C08 / C12). Always includes `dnd` (code 251, which the parser also
/// uses as the O- marker of defseq).
fn gen_pipe_contexts(r: &mut Rng, named: &[(String, u16)], thorough: bool, out: &mut Vec<String>) {
    use crate::kan::KEv;
    use crate::lay::HEv;
    let plain: Vec<(String, u16)> = named
        .iter()
        .filter(|(n, c)| lexer_safe(n) && *c != 0 && *c < 700 && !(676..=685).contains(c) && !(272..=279).contains(c)
            && !["lsft", "rsft", "lctl", "rctl", "lalt", "ralt", "lmet", "rmet"].contains(&n.as_str())
            && ![42u16, 54, 29, 97, 56, 100, 125, 126].contains(c) && n.chars().all(|ch| ch.is_ascii_alphanumeric())
            // a number in a macro is a delay (documented); digit keys are written Digit0.. there
            && !n.chars().all(|ch| ch.is_ascii_digit()))
        .cloned()
        .collect();
    let mut names: Vec<String> = vec!["dnd".into(), "a".into()];
    if thorough {
        names = plain.iter().map(|x| x.0.clone()).collect();
    } else {
        while names.len() < 20 {
            let n = r.pick(&plain).0.clone();
            if !names.contains(&n) {
                names.push(n);
            }
        }
    }
    let h = vec![KEv::L(HEv::Press(0, 30)), KEv::L(HEv::Tick(5)), KEv::L(HEv::Release(0, 30)), KEv::L(HEv::Tick(50))];
    for n in &names {
        for (ctx, t) in [
            ("chord", format!("(defsrc a b)\n(deflayer l C-{n} b)\n")),
            ("macro", format!("(defsrc a b)\n(deflayer l (macro {n}) b)\n")),
            ("defseq", format!("(defsrc a b)\n(deflayer l sldr b)\n(defvirtualkeys v x)\n(defseq v (b {n}))\n")),
        ] {
            out.push(pipe_line(&format!("accepted:{ctx}:{}", string_to_cps(n)), &t, &h));
        }
    }
}
// [t8:pipe] end

pub fn eval(line: &str) -> String {
    let mut t = Toks(line.split_whitespace());
    let r: Result<String, String> = (|| {
        t.expect("C11")?;
        match t.next()? {
            "code" => Ok(eval_code(t.num()? as u16)),
            "name" => {
                let n = t.name()?;
                let act = t.num()? == 1;
                Ok(eval_name(&n, act))
            }
            "mapped" => {
                let c = parse_cfg_tokens(&mut t)?;
                Ok(eval_mapped(&c))
            }
            "tap" => {
                let v = t.num()? as u16;
                let c = parse_cfg_tokens(&mut t)?;
                Ok(eval_tap(v, &c))
            }
            "pipe" => {
                // [t8:pipe]
                let _expect = t.next()?;
                Ok(eval_pipe(line))
            }
            "show" => {
                let c = parse_cfg_tokens(&mut t)?;
                Ok(cfg_text(&c).replace('\n', " "))
            }
            x => Err(format!("unknown case kind {x}")),
        }
    })();
    match r {
        Ok(s) => s,
        Err(e) => format!("harness-error {e}"),
    }
}

// --------------------------------------------------------------------------------- gen

fn one_layer(src: Vec<String>, layer: LayerT, loc: Vec<(String, String)>, puk: PukT) -> CfgT {
    CfgT { loc, puk, src, layers: vec![layer] }
}

pub fn gen(tier: &str, seed: u64) -> Vec<String> {
    let thorough = tier == "thorough";
    let mut r = Rng::new(seed ^ 0xC11);
    let mut out = vec![];
    reset_custom_names();
    let names = name_universe();
    let acc = accepted_codes();

    // 1. every code value 0..=1023
    for v in 0..=1023u32 {
        out.push(format!("C11 code {v}"));
    }
    for v in [1024u32, 4095, 32767, 65535] {
        out.push(format!("C11 code {v}"));
    }
    // 2. every name of the universe, plus junk names
    for n in &names {
        out.push(format!("C11 name {} {}", string_to_cps(n), lexer_safe(n) as u8));
    }
    let junk = ["A", "KEYA", "key_a", "aa", "f25", "F25", "kp10", "nop10", "Nop0", "lsftt", "ｆ１", "Key", "Digit10", "0x1e", "30", "é", "ß"];
    for n in junk {
        out.push(format!("C11 name {} {}", string_to_cps(n), lexer_safe(n) as u8));
    }
    let n_junk = if thorough { 6000 } else { 300 };
    for _ in 0..n_junk {
        // mutate a real name: drop / duplicate / change case of one character
        let base: Vec<char> = r.pick(&names).chars().collect();
        let mut m = base.clone();
        let i = r.below(m.len() as u64) as usize;
        match r.below(4) {
            0 => {
                m.remove(i);
            }
            1 => m.insert(i, base[i]),
            2 => m[i] = if m[i].is_uppercase() { m[i].to_lowercase().next().unwrap() } else { m[i].to_uppercase().next().unwrap() },
            _ => m[i] = char::from_u32(m[i] as u32 + 1).unwrap_or('x'),
        }
        let s: String = m.into_iter().collect();
        if s.is_empty() || s.chars().any(|c| c.is_whitespace()) {
            continue;
        }
        out.push(format!("C11 name {} {}", string_to_cps(&s), lexer_safe(&s) as u8));
    }

    // 3. single keys through one-layer configurations
    // 3a. every accepted name that can be written: self-mapped, transparent, deflayermap
    let mut named: Vec<(String, u16)> = vec![];
    for n in &names {
        if let Some(c) = str_to_oscode(n) {
            if lexer_safe(n) {
                named.push((n.clone(), c.as_u16()));
            }
        }
    }
    for (n, c) in &named {
        let kinds: &[u8] = if thorough { &[0, 1, 2] } else { &[(r.below(3)) as u8] };
        // the preferred short names get all three kinds even in the quick tier
        let kinds: &[u8] = if n.chars().count() <= 4 { &[0, 1, 2] } else { kinds };
        for k in kinds {
            let cfg = match k {
                0 => one_layer(vec![n.clone()], LayerT::Plain(vec![n.clone()]), vec![], PukT::No),
                1 => one_layer(vec![n.clone()], LayerT::Plain(vec!["_".into()]), vec![], PukT::No),
                _ => one_layer(vec![], LayerT::Map(vec![(n.clone(), n.clone())]), vec![], PukT::No),
            };
            out.push(format!("C11 tap {c} {}", cfg_tokens(&cfg)));
        }
    }
    // aliases: defsrc written with one name, the action with another name of the same key
    let n_alias = if thorough { 4000 } else { 250 };
    for _ in 0..n_alias {
        let (n1, c1) = r.pick(&named).clone();
        let same: Vec<&(String, u16)> = named.iter().filter(|(_, c)| *c == c1).collect();
        let (n2, _) = (*r.pick(&same)).clone();
        let cfg = one_layer(vec![n1], LayerT::Plain(vec![n2]), vec![], PukT::No);
        out.push(format!("C11 tap {c1} {}", cfg_tokens(&cfg)));
    }
    // 3b. every accepted code: local name self-mapped / transparent, process-unmapped-keys yes,
    //     excepted, and not intercepted at all
    for v in &acc {
        let ln = format!("k{v}");
        let loc = vec![(ln.clone(), v.to_string())];
        out.push(format!("C11 tap {v} {}", cfg_tokens(&one_layer(vec![ln.clone()], LayerT::Plain(vec![ln.clone()]), loc.clone(), PukT::No))));
        out.push(format!("C11 tap {v} {}", cfg_tokens(&one_layer(vec![ln.clone()], LayerT::Plain(vec!["_".into()]), loc.clone(), PukT::No))));
        out.push(format!("C11 tap {v} {}", cfg_tokens(&one_layer(vec![], LayerT::Plain(vec![]), vec![], PukT::Yes))));
        if thorough || r.chance(1, 4) {
            out.push(format!("C11 tap {v} {}", cfg_tokens(&one_layer(vec![], LayerT::Map(vec![(ln.clone(), ln.clone())]), loc.clone(), PukT::Yes))));
            out.push(format!("C11 tap {v} {}", cfg_tokens(&one_layer(vec![], LayerT::Plain(vec![]), loc.clone(), PukT::Exc(vec![ln.clone()])))));
            out.push(format!("C11 tap {v} {}", cfg_tokens(&one_layer(vec![], LayerT::Plain(vec![]), vec![], PukT::No))));
        }
    }

    // 3c. the three any-key inputs of deflayermap (`_` = the other defsrc keys, `__` = the keys
    //     outside defsrc, `___` = both; parser/src/cfg/mod.rs parse_layers l.3448-3510): every
    //     sequence of one or two of them and every repetition of one of them around another,
    //     under each process-unmapped-keys setting, with and without an ordinary entry in front.
    //     The random family below reaches the "used twice" / "not both" / "needs
    //     process-unmapped-keys" answers only by chance (`__ ... __` not at all in the quick tier).
    {
        let any = ["_", "__", "___"];
        let mut seqs: Vec<Vec<&str>> = vec![];
        for a in any {
            seqs.push(vec![a]);
            for b in any {
                seqs.push(vec![a, b]);
                seqs.push(vec![a, b, a]);
            }
        }
        // three names of three different keys
        let (k1, c1) = r.pick(&named).clone();
        let (mut k2, mut c2) = r.pick(&named).clone();
        while c2 == c1 {
            (k2, c2) = r.pick(&named).clone();
        }
        let (mut k3, mut c3) = r.pick(&named).clone();
        while c3 == c1 || c3 == c2 {
            (k3, c3) = r.pick(&named).clone();
        }
        for puk in [PukT::No, PukT::Yes, PukT::Exc(vec![k3.clone()])] {
            for q in &seqs {
                for with_key in [false, true] {
                    let mut ps: Vec<(String, String)> = vec![];
                    if with_key {
                        ps.push((k1.clone(), "XX".to_string()));
                    }
                    for (i, a) in q.iter().enumerate() {
                        ps.push((a.to_string(), if i % 2 == 0 { "XX".to_string() } else { "_".to_string() }));
                    }
                    let cfg = CfgT { loc: vec![], puk: puk.clone(), src: vec![k1.clone(), k2.clone()], layers: vec![LayerT::Map(ps)] };
                    out.push(format!("C11 mapped {}", cfg_tokens(&cfg)));
                }
            }
        }
    }

    // 4. random configurations: defsrc subsets, deflayermap inputs, exception lists
    let n_cfg = if thorough { 25000 } else { 700 };
    for _ in 0..n_cfg {
        out.push(format!("C11 mapped {}", cfg_tokens(&gen_cfg(&mut r, &named, &acc))));
    }
    // 5. [t8:pipe] whole configurations on the real pipeline (own PRNG stream: the families above
    // keep their cases)
    let mut r5 = Rng::new(seed ^ 0xC11_0005);
    gen_pipe_identity(&mut r5, &named, thorough, &mut out);
    gen_pipe_noignored(&mut out);
    gen_pipe_contexts(&mut r5, &named, thorough, &mut out);
    out
}

fn gen_cfg(r: &mut Rng, named: &[(String, u16)], acc: &[u16]) -> CfgT {
    // local keys for a few codes, sometimes shadowing a built-in name, rarely invalid
    let mut loc: Vec<(String, String)> = vec![];
    let nloc = if r.chance(1, 2) { r.below(5) } else { 0 };
    for i in 0..nloc {
        let v = if r.chance(1, 30) { r.range(749, 770) as u16 } else { *r.pick(acc) };
        let name = if r.chance(1, 8) { r.pick(named).0.clone() } else if r.chance(1, 40) && i > 0 { loc[0].clone().0 } else { format!("k{v}") };
        let name: String = name;
        loc.push((name, v.to_string()));
    }
    let mut pool: Vec<String> = loc.iter().map(|x: &(String, String)| x.0.clone()).collect();
    let universe = if r.chance(1, 3) { 12 } else { 60 };
    for _ in 0..universe {
        pool.push(r.pick(named).0.clone());
    }
    let pick = |r: &mut Rng| -> String {
        if r.chance(1, 60) {
            "nosuchkey".to_string()
        } else {
            r.pick(&pool).clone()
        }
    };
    let nsrc = r.below(9) as usize;
    let mut src: Vec<String> = vec![];
    for _ in 0..nsrc {
        let n = pick(r);
        // repeats (same key under any name) are errors: make them rare
        let c = loc.iter().find(|x| x.0 == n).map(|x| x.1.parse::<u16>().unwrap_or(0)).or_else(|| named.iter().find(|x| x.0 == n).map(|x| x.1));
        let dup = src.iter().any(|m| {
            let cm = loc.iter().find(|x| &x.0 == m).map(|x| x.1.parse::<u16>().unwrap_or(0)).or_else(|| named.iter().find(|x| &x.0 == m).map(|x| x.1));
            cm == c
        });
        if dup && !r.chance(1, 12) {
            continue;
        }
        src.push(n);
    }
    let puk = match r.below(4) {
        0 => PukT::No,
        1 => PukT::Yes,
        _ => {
            let n = if r.chance(1, 25) { 0 } else { r.range(1, 6) };
            let mut v: Vec<String> = vec![];
            for _ in 0..n {
                let k = pick(r);
                if (v.contains(&k) || src.contains(&k)) && !r.chance(1, 10) {
                    continue;
                }
                v.push(k);
            }
            if v.is_empty() && !r.chance(1, 10) {
                v.push(pick(r));
            }
            PukT::Exc(v)
        }
    };
    let nl = r.range(1, 3);
    let mut layers = vec![];
    for _ in 0..nl {
        if r.chance(1, 3) {
            layers.push(LayerT::Plain(src.iter().map(|_| if r.chance(1, 2) { "_".to_string() } else { "XX".to_string() }).collect()));
        } else {
            let n = r.below(7);
            let mut ps: Vec<(String, String)> = vec![];
            for _ in 0..n {
                let i = match r.below(20) {
                    0 => "_".to_string(),
                    1 => "__".to_string(),
                    2 => "___".to_string(),
                    _ => pick(r),
                };
                if ps.iter().any(|p| p.0 == i) && !r.chance(1, 8) {
                    continue;
                }
                ps.push((i, if r.chance(1, 2) { "XX".to_string() } else { "_".to_string() }));
            }
            layers.push(LayerT::Map(ps));
        }
    }
    CfgT { loc, puk, src, layers }
}
