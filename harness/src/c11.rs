//! C11: key identity. Dumps the compiled key tables entry by entry (`code`, `name` cases), pushes
//! single keys through the real `Kanata` with the simulated output sink (`tap` cases) and compares
//! `Cfg.mapped_keys` of generated configurations (`mapped` cases).
//!
//! Case lines are plain ASCII; key names travel as dot-separated Unicode code points.
//!   C11 code <v>
//!   C11 name <cps> <0|1>                        (1: also parse the name in action position)
//!   C11 tap <v> <config>
//!   C11 mapped <config>
//!   <config> ::= loc <n> (<cps> <num>)*  puk <no|yes|exc <n> <cps>*>  src <n> <cps>*
//!                layers <n> ( plain <n> <cps>* | map <n> (<in> <cps>)* )*
//!   <in> ::= k:<cps> | _ | __ | ___
use crate::rng::Rng;
use kanata_keyberon::action::Action;
use kanata_keyberon::key_code::KeyCode;
use kanata_parser::cfg;
use kanata_parser::custom_action::{Btn, CustomAction, MWheelDirection};
use kanata_parser::keys::{replace_custom_str_oscode_mapping, str_to_oscode, OsCode};
use kanata_state_machine::oskbd::{KeyEvent, KeyValue};
use kanata_state_machine::Kanata;

const NAMES_FILE: &str = concat!(env!("CARGO_MANIFEST_DIR"), "/../lean/KVerif/Gen/KeyNames.txt");

fn cps_to_string(t: &str) -> Option<String> {
    if t == "-" {
        return Some(String::new());
    }
    t.split('.').map(|x| x.parse::<u32>().ok().and_then(char::from_u32)).collect()
}
fn string_to_cps(s: &str) -> String {
    s.chars().map(|c| (c as u32).to_string()).collect::<Vec<_>>().join(".")
}

/// the name universe written by the translator (every name of str_to_oscode incl. aliases,
/// DEFAULT_MAPPINGS, evdev identifiers, keyberon Display strings, special action atoms)
fn name_universe() -> Vec<String> {
    let txt = std::fs::read_to_string(NAMES_FILE).unwrap_or_else(|e| panic!("cannot read {NAMES_FILE}: {e}"));
    txt.lines().filter(|l| !l.trim().is_empty()).map(|l| cps_to_string(l.trim()).expect("bad name line")).collect()
}

fn reset_custom_names() {
    replace_custom_str_oscode_mapping(&Default::default());
}

/// characters that the kanata lexer treats specially; names containing them are looked up with
/// `str_to_oscode` but not written into a configuration by the generator
fn lexer_safe(n: &str) -> bool {
    !n.is_empty() && !n.chars().any(|c| c.is_whitespace() || "\"();$@#|".contains(c))
}

fn accepted_codes() -> Vec<u16> {
    (0..=1023u16).filter(|v| OsCode::from_u16(*v).is_some()).collect()
}

// --------------------------------------------------------------------------------- config text

#[derive(Clone, Debug)]
enum PukT {
    No,
    Yes,
    Exc(Vec<String>),
}
#[derive(Clone, Debug)]
enum LayerT {
    Plain(Vec<String>),
    Map(Vec<(String, String)>), // input token as written (`_`, `__`, `___` or a key name), action
}
#[derive(Clone, Debug)]
struct CfgT {
    loc: Vec<(String, String)>,
    puk: PukT,
    src: Vec<String>,
    layers: Vec<LayerT>,
}

fn cfg_tokens(c: &CfgT) -> String {
    let mut t = vec![format!("loc {}", c.loc.len())];
    for (n, v) in &c.loc {
        t.push(format!("{} {}", string_to_cps(n), v));
    }
    match &c.puk {
        PukT::No => t.push("puk no".into()),
        PukT::Yes => t.push("puk yes".into()),
        PukT::Exc(ns) => {
            t.push(format!("puk exc {}", ns.len()));
            for n in ns {
                t.push(string_to_cps(n));
            }
        }
    }
    t.push(format!("src {}", c.src.len()));
    for n in &c.src {
        t.push(string_to_cps(n));
    }
    t.push(format!("layers {}", c.layers.len()));
    for l in &c.layers {
        match l {
            LayerT::Plain(acts) => {
                t.push(format!("plain {}", acts.len()));
                for a in acts {
                    t.push(string_to_cps(a));
                }
            }
            LayerT::Map(ps) => {
                t.push(format!("map {}", ps.len()));
                for (i, a) in ps {
                    if i == "_" || i == "__" || i == "___" {
                        t.push(i.clone());
                    } else {
                        t.push(format!("k:{}", string_to_cps(i)));
                    }
                    t.push(string_to_cps(a));
                }
            }
        }
    }
    t.join(" ")
}

struct Toks<'a>(std::str::SplitWhitespace<'a>);
impl<'a> Toks<'a> {
    fn next(&mut self) -> Result<&'a str, String> {
        self.0.next().ok_or_else(|| "unexpected end of line".to_string())
    }
    fn num(&mut self) -> Result<usize, String> {
        self.next()?.parse::<usize>().map_err(|e| e.to_string())
    }
    fn name(&mut self) -> Result<String, String> {
        cps_to_string(self.next()?).ok_or_else(|| "bad code points".to_string())
    }
    fn expect(&mut self, s: &str) -> Result<(), String> {
        let t = self.next()?;
        if t == s {
            Ok(())
        } else {
            Err(format!("expected {s}, got {t}"))
        }
    }
}

fn parse_cfg_tokens(t: &mut Toks) -> Result<CfgT, String> {
    t.expect("loc")?;
    let n = t.num()?;
    let mut loc = vec![];
    for _ in 0..n {
        let name = t.name()?;
        let v = t.next()?.to_string();
        loc.push((name, v));
    }
    t.expect("puk")?;
    let puk = match t.next()? {
        "no" => PukT::No,
        "yes" => PukT::Yes,
        "exc" => {
            let n = t.num()?;
            let mut v = vec![];
            for _ in 0..n {
                v.push(t.name()?);
            }
            PukT::Exc(v)
        }
        x => return Err(format!("bad puk {x}")),
    };
    t.expect("src")?;
    let n = t.num()?;
    let mut src = vec![];
    for _ in 0..n {
        src.push(t.name()?);
    }
    t.expect("layers")?;
    let nl = t.num()?;
    let mut layers = vec![];
    for _ in 0..nl {
        match t.next()? {
            "plain" => {
                let n = t.num()?;
                let mut a = vec![];
                for _ in 0..n {
                    a.push(t.name()?);
                }
                layers.push(LayerT::Plain(a));
            }
            "map" => {
                let n = t.num()?;
                let mut ps = vec![];
                for _ in 0..n {
                    let i = t.next()?;
                    let inp = if let Some(k) = i.strip_prefix("k:") {
                        cps_to_string(k).ok_or("bad code points")?
                    } else {
                        i.to_string()
                    };
                    ps.push((inp, t.name()?));
                }
                layers.push(LayerT::Map(ps));
            }
            x => return Err(format!("bad layer kind {x}")),
        }
    }
    Ok(CfgT { loc, puk, src, layers })
}

fn cfg_text(c: &CfgT) -> String {
    let mut s = String::new();
    if !c.loc.is_empty() {
        s.push_str("(deflocalkeys-linux");
        for (n, v) in &c.loc {
            s.push_str(&format!(" {n} {v}"));
        }
        s.push_str(")\n");
    }
    match &c.puk {
        PukT::No => s.push_str("(defcfg process-unmapped-keys no)\n"),
        PukT::Yes => s.push_str("(defcfg process-unmapped-keys yes)\n"),
        PukT::Exc(ns) => s.push_str(&format!("(defcfg process-unmapped-keys (all-except {}))\n", ns.join(" "))),
    }
    s.push_str(&format!("(defsrc {})\n", c.src.join(" ")));
    for (i, l) in c.layers.iter().enumerate() {
        match l {
            LayerT::Plain(a) => s.push_str(&format!("(deflayer l{i} {})\n", a.join(" "))),
            LayerT::Map(ps) => {
                s.push_str(&format!("(deflayermap (l{i})"));
                for (i, a) in ps {
                    s.push_str(&format!(" {i} {a}"));
                }
                s.push_str(")\n");
            }
        }
    }
    s
}

/// classify a parser diagnostic by its message (the model prints the same tags)
fn classify_err(msg: &str) -> &'static str {
    const TABLE: &[(&str, &str)] = &[
        ("Duplicate key name is not allowed", "excDup"),
        (" found in deflocalkeys", "localDup"),
        ("Unknown number in deflocalkeys", "localUnknownNumber"),
        ("Expected a known key name", "excUnknown"),
        ("Expected (all-except key1", "excEmpty"),
        ("Unknown key in defsrc", "srcUnknown"),
        ("Repeat declaration of key in defsrc", "srcRepeat"),
        ("Keys cannot be included in defsrc and also excepted", "srcExcepted"),
        ("input must be a key name", "lmUnknown"),
        ("input key must not be repeated within a layer", "lmRepeat"),
        ("must have only one use of _ within a layer", "lmAny1Twice"),
        ("must have only one use of __ within a layer", "lmAny2Twice"),
        ("must have only one use of ___ within a layer", "lmAny3Twice"),
        ("must either use _ or ___ within a layer", "lmAnyMix"),
        ("must either use __ or ___ within a layer", "lmAnyMix"),
        ("must set process-unmapped-keys to yes", "lmNeedsPuk"),
        ("Unknown key/action", "action"),
        ("This is a list action", "action"),
    ];
    for (pat, tag) in TABLE {
        if msg.contains(pat) {
            return tag;
        }
    }
    "other"
}

fn err_text<E: std::fmt::Debug + std::fmt::Display>(e: &E) -> String {
    format!("{e} {e:?}")
}

// --------------------------------------------------------------------------------- eval

fn eval_code(v: u16) -> String {
    let modi;
    let body = match OsCode::from_u16(v) {
        None => {
            modi = 0;
            "from none".to_string()
        }
        Some(osc) => {
            let c = osc.as_u16();
            modi = osc.is_modifier() as u8;
            let kc: KeyCode = osc.into();
            let k = kc as u16;
            let back: OsCode = kc.into();
            format!("from {c} kc {k} back {}", back as u16)
        }
    };
    format!("{body} | mod {modi}")
}

fn act_tag<'a>(a: &Action<'a, &'a &'a [&'a CustomAction]>) -> String {
    match a {
        Action::NoOp => "noop".into(),
        Action::Trans => "trans".into(),
        Action::KeyCode(k) => format!("key {}", *k as u16),
        Action::Custom(cs) if cs.len() == 1 => match cs[0] {
            CustomAction::Mouse(b) => format!("btn {}", OsCode::from(*b).as_u16()),
            CustomAction::MWheelNotch { direction } => format!("wheel {}", wheel_code(*direction)),
            _ => "other".into(),
        },
        _ => "other".into(),
    }
}

fn wheel_code(d: MWheelDirection) -> u16 {
    for v in accepted_codes() {
        let osc = OsCode::from_u16(v).unwrap();
        if let Ok(dd) = MWheelDirection::try_from(osc) {
            if dd == d {
                return v;
            }
        }
    }
    9999
}

fn eval_name(name: &str, act: bool) -> String {
    reset_custom_names();
    let is_key = str_to_oscode(name).is_some();
    let looked = match str_to_oscode(name) {
        Some(c) => c.as_u16().to_string(),
        None => "none".into(),
    };
    let a = if !act {
        "-".to_string()
    } else {
        let text = format!("(defcfg process-unmapped-keys no)\n(defsrc a)\n(deflayer l {name})\n");
        let r = cfg::new_from_str(&text, Default::default());
        reset_custom_names();
        match r {
            Ok(c) => {
                let a_code = u16::from(str_to_oscode("a").unwrap()) as usize;
                let layout = c.layout.b();
                let tag = act_tag(&layout.layers[0][0][a_code]);
                tag
            }
            Err(_) => "err".into(),
        }
    };
    // what a non-key atom means as an action (alias, chord prefix, unicode, …) is outside this slice
    let a = if !is_key && (a == "err" || a == "other") { "nokey".to_string() } else { a };
    format!("name {looked} act {a}")
}

fn fmt_mapped(m: &cfg::MappedKeys) -> String {
    let mut v: Vec<u16> = m.iter().map(|c| c.as_u16()).collect();
    v.sort();
    if v.is_empty() {
        "-".into()
    } else {
        v.iter().map(|x| x.to_string()).collect::<Vec<_>>().join(",")
    }
}

fn eval_mapped(c: &CfgT) -> String {
    let text = cfg_text(c);
    let r = cfg::new_from_str(&text, Default::default());
    let out = match r {
        Ok(cfg) => format!("ok {}", fmt_mapped(&cfg.mapped_keys)),
        Err(e) => format!("rej {}", classify_err(&err_text(&e))),
    };
    reset_custom_names();
    out
}

/// KeyCode Debug name -> code, for reading the simulated output back
fn keycode_names() -> std::collections::HashMap<String, u16> {
    let mut m = std::collections::HashMap::new();
    for v in accepted_codes() {
        let kc: KeyCode = OsCode::from_u16(v).unwrap().into();
        m.insert(format!("{kc:?}"), v);
    }
    m
}

fn btn_code(name: &str) -> Option<u16> {
    for b in [Btn::Left, Btn::Right, Btn::Mid, Btn::Forward, Btn::Backward] {
        if format!("{b:?}") == name {
            return Some(OsCode::from(b).as_u16());
        }
    }
    None
}
fn dir_code(name: &str) -> Option<u16> {
    for d in [MWheelDirection::Up, MWheelDirection::Down, MWheelDirection::Left, MWheelDirection::Right] {
        if format!("{d:?}") == name {
            return Some(wheel_code(d));
        }
    }
    None
}

fn canon_events(events: &[String]) -> String {
    let names = keycode_names();
    let mut out = vec![];
    for e in events {
        if e.starts_with("t:") {
            continue;
        }
        let tok = if let Some(k) = e.strip_prefix("out:↓") {
            names.get(k).map(|c| format!("d{c}"))
        } else if let Some(k) = e.strip_prefix("out:↑") {
            names.get(k).map(|c| format!("u{c}"))
        } else if let Some(b) = e.strip_prefix("out🖰:↓") {
            btn_code(b).map(|c| format!("bd{c}"))
        } else if let Some(b) = e.strip_prefix("out🖰:↑") {
            btn_code(b).map(|c| format!("bu{c}"))
        } else if let Some(s) = e.strip_prefix("scroll:") {
            s.split_once(',').and_then(|(d, n)| dir_code(d).map(|c| format!("wh{c}:{n}")))
        } else {
            None
        };
        out.push(tok.unwrap_or_else(|| format!("?{}", e.replace(' ', "_"))));
    }
    if out.is_empty() {
        "-".into()
    } else {
        out.join(" ")
    }
}

fn eval_tap(v: u16, c: &CfgT) -> String {
    let text = cfg_text(c);
    // the set of intercepted keys decides, in the Linux event loop, whether the event reaches the
    // state machine at all (src/kanata/linux.rs: `if !MAPPED_KEYS.lock().contains(..) { write_raw }`)
    let parsed = cfg::new_from_str(&text, Default::default());
    let mapped = match parsed {
        Ok(cfg) => cfg.mapped_keys,
        Err(e) => {
            reset_custom_names();
            return format!("rej {}", classify_err(&err_text(&e)));
        }
    };
    let Some(code) = OsCode::from_u16(v) else {
        reset_custom_names();
        return "notacode".into();
    };
    if !mapped.contains(&code) {
        reset_custom_names();
        return format!("m 0 | raw{v}:0 raw{v}:1");
    }
    let mut k = match Kanata::new_from_str(&text, Default::default()) {
        Ok(k) => k,
        Err(e) => {
            reset_custom_names();
            return format!("rej2 {e:?}").replace('\n', " ");
        }
    };
    reset_custom_names();
    k.handle_input_event(&KeyEvent { code, value: KeyValue::Press }).expect("input handles fine");
    k.tick_ms(5, &None).unwrap();
    k.handle_input_event(&KeyEvent { code, value: KeyValue::Release }).expect("input handles fine");
    k.tick_ms(5, &None).unwrap();
    format!("m 1 | {}", canon_events(&k.kbd_out.outputs.events))
}

pub fn eval(line: &str) -> String {
    let mut t = Toks(line.split_whitespace());
    let r: Result<String, String> = (|| {
        t.expect("C11")?;
        match t.next()? {
            "code" => Ok(eval_code(t.num()? as u16)),
            "name" => {
                let n = t.name()?;
                let act = t.num()? == 1;
                Ok(eval_name(&n, act))
            }
            "mapped" => {
                let c = parse_cfg_tokens(&mut t)?;
                Ok(eval_mapped(&c))
            }
            "tap" => {
                let v = t.num()? as u16;
                let c = parse_cfg_tokens(&mut t)?;
                Ok(eval_tap(v, &c))
            }
            "show" => {
                let c = parse_cfg_tokens(&mut t)?;
                Ok(cfg_text(&c).replace('\n', " "))
            }
            x => Err(format!("unknown case kind {x}")),
        }
    })();
    match r {
        Ok(s) => s,
        Err(e) => format!("harness-error {e}"),
    }
}

// --------------------------------------------------------------------------------- gen

fn one_layer(src: Vec<String>, layer: LayerT, loc: Vec<(String, String)>, puk: PukT) -> CfgT {
    CfgT { loc, puk, src, layers: vec![layer] }
}

pub fn gen(tier: &str, seed: u64) -> Vec<String> {
    let thorough = tier == "thorough";
    let mut r = Rng::new(seed ^ 0xC11);
    let mut out = vec![];
    reset_custom_names();
    let names = name_universe();
    let acc = accepted_codes();

    // 1. every code value 0..=1023
    for v in 0..=1023u32 {
        out.push(format!("C11 code {v}"));
    }
    for v in [1024u32, 4095, 32767, 65535] {
        out.push(format!("C11 code {v}"));
    }
    // 2. every name of the universe, plus junk names
    for n in &names {
        out.push(format!("C11 name {} {}", string_to_cps(n), lexer_safe(n) as u8));
    }
    let junk = ["A", "KEYA", "key_a", "aa", "f25", "F25", "kp10", "nop10", "Nop0", "lsftt", "ｆ１", "Key", "Digit10", "0x1e", "30", "é", "ß"];
    for n in junk {
        out.push(format!("C11 name {} {}", string_to_cps(n), lexer_safe(n) as u8));
    }
    let n_junk = if thorough { 6000 } else { 300 };
    for _ in 0..n_junk {
        // mutate a real name: drop / duplicate / change case of one character
        let base: Vec<char> = r.pick(&names).chars().collect();
        let mut m = base.clone();
        let i = r.below(m.len() as u64) as usize;
        match r.below(4) {
            0 => {
                m.remove(i);
            }
            1 => m.insert(i, base[i]),
            2 => m[i] = if m[i].is_uppercase() { m[i].to_lowercase().next().unwrap() } else { m[i].to_uppercase().next().unwrap() },
            _ => m[i] = char::from_u32(m[i] as u32 + 1).unwrap_or('x'),
        }
        let s: String = m.into_iter().collect();
        if s.is_empty() || s.chars().any(|c| c.is_whitespace()) {
            continue;
        }
        out.push(format!("C11 name {} {}", string_to_cps(&s), lexer_safe(&s) as u8));
    }

    // 3. single keys through one-layer configurations
    // 3a. every accepted name that can be written: self-mapped, transparent, deflayermap
    let mut named: Vec<(String, u16)> = vec![];
    for n in &names {
        if let Some(c) = str_to_oscode(n) {
            if lexer_safe(n) {
                named.push((n.clone(), c.as_u16()));
            }
        }
    }
    for (n, c) in &named {
        let kinds: &[u8] = if thorough { &[0, 1, 2] } else { &[(r.below(3)) as u8] };
        // the preferred short names get all three kinds even in the quick tier
        let kinds: &[u8] = if n.chars().count() <= 4 { &[0, 1, 2] } else { kinds };
        for k in kinds {
            let cfg = match k {
                0 => one_layer(vec![n.clone()], LayerT::Plain(vec![n.clone()]), vec![], PukT::No),
                1 => one_layer(vec![n.clone()], LayerT::Plain(vec!["_".into()]), vec![], PukT::No),
                _ => one_layer(vec![], LayerT::Map(vec![(n.clone(), n.clone())]), vec![], PukT::No),
            };
            out.push(format!("C11 tap {c} {}", cfg_tokens(&cfg)));
        }
    }
    // aliases: defsrc written with one name, the action with another name of the same key
    let n_alias = if thorough { 4000 } else { 250 };
    for _ in 0..n_alias {
        let (n1, c1) = r.pick(&named).clone();
        let same: Vec<&(String, u16)> = named.iter().filter(|(_, c)| *c == c1).collect();
        let (n2, _) = (*r.pick(&same)).clone();
        let cfg = one_layer(vec![n1], LayerT::Plain(vec![n2]), vec![], PukT::No);
        out.push(format!("C11 tap {c1} {}", cfg_tokens(&cfg)));
    }
    // 3b. every accepted code: local name self-mapped / transparent, process-unmapped-keys yes,
    //     excepted, and not intercepted at all
    for v in &acc {
        let ln = format!("k{v}");
        let loc = vec![(ln.clone(), v.to_string())];
        out.push(format!("C11 tap {v} {}", cfg_tokens(&one_layer(vec![ln.clone()], LayerT::Plain(vec![ln.clone()]), loc.clone(), PukT::No))));
        out.push(format!("C11 tap {v} {}", cfg_tokens(&one_layer(vec![ln.clone()], LayerT::Plain(vec!["_".into()]), loc.clone(), PukT::No))));
        out.push(format!("C11 tap {v} {}", cfg_tokens(&one_layer(vec![], LayerT::Plain(vec![]), vec![], PukT::Yes))));
        if thorough || r.chance(1, 4) {
            out.push(format!("C11 tap {v} {}", cfg_tokens(&one_layer(vec![], LayerT::Map(vec![(ln.clone(), ln.clone())]), loc.clone(), PukT::Yes))));
            out.push(format!("C11 tap {v} {}", cfg_tokens(&one_layer(vec![], LayerT::Plain(vec![]), loc.clone(), PukT::Exc(vec![ln.clone()])))));
            out.push(format!("C11 tap {v} {}", cfg_tokens(&one_layer(vec![], LayerT::Plain(vec![]), vec![], PukT::No))));
        }
    }

    // 3c. the three any-key inputs of deflayermap (`_` = the other defsrc keys, `__` = the keys
    //     outside defsrc, `___` = both; parser/src/cfg/mod.rs parse_layers l.3448-3510): every
    //     sequence of one or two of them and every repetition of one of them around another,
    //     under each process-unmapped-keys setting, with and without an ordinary entry in front.
    //     The random family below reaches the "used twice" / "not both" / "needs
    //     process-unmapped-keys" answers only by chance (`__ ... __` not at all in the quick tier).
    {
        let any = ["_", "__", "___"];
        let mut seqs: Vec<Vec<&str>> = vec![];
        for a in any {
            seqs.push(vec![a]);
            for b in any {
                seqs.push(vec![a, b]);
                seqs.push(vec![a, b, a]);
            }
        }
        // three names of three different keys
        let (k1, c1) = r.pick(&named).clone();
        let (mut k2, mut c2) = r.pick(&named).clone();
        while c2 == c1 {
            (k2, c2) = r.pick(&named).clone();
        }
        let (mut k3, mut c3) = r.pick(&named).clone();
        while c3 == c1 || c3 == c2 {
            (k3, c3) = r.pick(&named).clone();
        }
        for puk in [PukT::No, PukT::Yes, PukT::Exc(vec![k3.clone()])] {
            for q in &seqs {
                for with_key in [false, true] {
                    let mut ps: Vec<(String, String)> = vec![];
                    if with_key {
                        ps.push((k1.clone(), "XX".to_string()));
                    }
                    for (i, a) in q.iter().enumerate() {
                        ps.push((a.to_string(), if i % 2 == 0 { "XX".to_string() } else { "_".to_string() }));
                    }
                    let cfg = CfgT { loc: vec![], puk: puk.clone(), src: vec![k1.clone(), k2.clone()], layers: vec![LayerT::Map(ps)] };
                    out.push(format!("C11 mapped {}", cfg_tokens(&cfg)));
                }
            }
        }
    }

    // 4. random configurations: defsrc subsets, deflayermap inputs, exception lists
    let n_cfg = if thorough { 25000 } else { 700 };
    for _ in 0..n_cfg {
        out.push(format!("C11 mapped {}", cfg_tokens(&gen_cfg(&mut r, &named, &acc))));
    }
    out
}

fn gen_cfg(r: &mut Rng, named: &[(String, u16)], acc: &[u16]) -> CfgT {
    // local keys for a few codes, sometimes shadowing a built-in name, rarely invalid
    let mut loc: Vec<(String, String)> = vec![];
    let nloc = if r.chance(1, 2) { r.below(5) } else { 0 };
    for i in 0..nloc {
        let v = if r.chance(1, 30) { r.range(749, 770) as u16 } else { *r.pick(acc) };
        let name = if r.chance(1, 8) { r.pick(named).0.clone() } else if r.chance(1, 40) && i > 0 { loc[0].clone().0 } else { format!("k{v}") };
        let name: String = name;
        loc.push((name, v.to_string()));
    }
    let mut pool: Vec<String> = loc.iter().map(|x: &(String, String)| x.0.clone()).collect();
    let universe = if r.chance(1, 3) { 12 } else { 60 };
    for _ in 0..universe {
        pool.push(r.pick(named).0.clone());
    }
    let pick = |r: &mut Rng| -> String {
        if r.chance(1, 60) {
            "nosuchkey".to_string()
        } else {
            r.pick(&pool).clone()
        }
    };
    let nsrc = r.below(9) as usize;
    let mut src: Vec<String> = vec![];
    for _ in 0..nsrc {
        let n = pick(r);
        // repeats (same key under any name) are errors: make them rare
        let c = loc.iter().find(|x| x.0 == n).map(|x| x.1.parse::<u16>().unwrap_or(0)).or_else(|| named.iter().find(|x| x.0 == n).map(|x| x.1));
        let dup = src.iter().any(|m| {
            let cm = loc.iter().find(|x| &x.0 == m).map(|x| x.1.parse::<u16>().unwrap_or(0)).or_else(|| named.iter().find(|x| &x.0 == m).map(|x| x.1));
            cm == c
        });
        if dup && !r.chance(1, 12) {
            continue;
        }
        src.push(n);
    }
    let puk = match r.below(4) {
        0 => PukT::No,
        1 => PukT::Yes,
        _ => {
            let n = if r.chance(1, 25) { 0 } else { r.range(1, 6) };
            let mut v: Vec<String> = vec![];
            for _ in 0..n {
                let k = pick(r);
                if (v.contains(&k) || src.contains(&k)) && !r.chance(1, 10) {
                    continue;
                }
                v.push(k);
            }
            if v.is_empty() && !r.chance(1, 10) {
                v.push(pick(r));
            }
            PukT::Exc(v)
        }
    };
    let nl = r.range(1, 3);
    let mut layers = vec![];
    for _ in 0..nl {
        if r.chance(1, 3) {
            layers.push(LayerT::Plain(src.iter().map(|_| if r.chance(1, 2) { "_".to_string() } else { "XX".to_string() }).collect()));
        } else {
            let n = r.below(7);
            let mut ps: Vec<(String, String)> = vec![];
            for _ in 0..n {
                let i = match r.below(20) {
                    0 => "_".to_string(),
                    1 => "__".to_string(),
                    2 => "___".to_string(),
                    _ => pick(r),
                };
                if ps.iter().any(|p| p.0 == i) && !r.chance(1, 8) {
                    continue;
                }
                ps.push((i, if r.chance(1, 2) { "XX".to_string() } else { "_".to_string() }));
            }
            layers.push(LayerT::Map(ps));
        }
    }
    CfgT { loc, puk, src, layers }
}
