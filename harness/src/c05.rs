//! C05 generator: tap-hold variants with marker outputs (tap / hold / timeout actions are distinct
//! plain keys used nowhere else), plus plain keys; exhaustive small schedules with gaps around the
//! hold timeout and random two-tap-hold interleavings.
use crate::cfggen::*;
use crate::lay::{mk_line, HEv};
use crate::rng::Rng;

pub struct Th {
    pub variant: usize, // 0 tap-hold 1 press 2 release 3 press-timeout 4 release-timeout 5 release-keys 6 except-keys
    pub t: u32,
    pub interval: u32,
}

const M1: [&str; 3] = ["q", "w", "x"];
const M2: [&str; 3] = ["y", "z", "1"];

fn th_text(th: &Th, m: &[&str; 3]) -> String {
    let (tap, hold, to) = (m[0], m[1], m[2]);
    let (i, t) = (th.interval, th.t);
    match th.variant {
        0 => format!("(tap-hold {i} {t} {tap} {hold})"),
        1 => format!("(tap-hold-press {i} {t} {tap} {hold})"),
        2 => format!("(tap-hold-release {i} {t} {tap} {hold})"),
        3 => format!("(tap-hold-press-timeout {i} {t} {tap} {hold} {to})"),
        4 => format!("(tap-hold-release-timeout {i} {t} {tap} {hold} {to})"),
        5 => format!("(tap-hold-release-keys {i} {t} {tap} {hold} (c))"),
        _ => format!("(tap-hold-except-keys {i} {t} {tap} {hold} (c))"),
    }
}

pub fn cfg_text(ths: &[Th], concurrent: bool, red: Option<u16>) -> String {
    let mut s = String::from("(defcfg");
    if concurrent {
        s.push_str(" concurrent-tap-hold yes");
    }
    if let Some(d) = red {
        s.push_str(&format!(" rapid-event-delay {d}"));
    }
    s.push_str(")\n(defsrc a b c d)\n(deflayer l0 ");
    s.push_str(&th_text(&ths[0], &M1));
    s.push(' ');
    if ths.len() > 1 {
        s.push_str(&th_text(&ths[1], &M2));
    } else {
        s.push('b');
    }
    s.push_str(" c d)\n");
    s
}

pub fn gen(tier: &str, seed: u64) -> Vec<String> {
    let mut r = Rng::new(seed ^ 0xC05);
    let thorough = tier == "thorough";
    let mut lines = vec![];
    let (ka, kb, kc, kd) = (code("a"), code("b"), code("c"), code("d"));
    // (1) lone key: every variant x T x concurrent x every hold duration around T
    for variant in 0..7 {
        for t in [2u32, 5, 200] {
            for concurrent in [false, true] {
                for interval in [0u32, 3] {
                    let cfg = cfg_text(&[Th { variant, t, interval }], concurrent, None);
                    for j in [0u32, 1, t.saturating_sub(2), t - 1, t, t + 1, t + 2] {
                        let mut h = vec![HEv::Press(0, ka)];
                        if j > 0 {
                            h.push(HEv::Tick(j));
                        }
                        h.push(HEv::Release(0, ka));
                        h.push(HEv::Tick(700));
                        lines.push(mk_line("LAY", false, &cfg, &h));
                    }
                }
            }
        }
    }
    // (2) exhaustive schedules over the tap-hold key and two plain keys
    let n_ex = if thorough { 5 } else { 4 };
    for variant in 0..7 {
        for t in if thorough { vec![2u32, 5] } else { vec![5u32] } {
            for concurrent in [false, true] {
                if !thorough && concurrent && variant % 2 == 1 {
                    continue;
                }
                let cfg = cfg_text(&[Th { variant, t, interval: if variant % 3 == 0 { 0 } else { 4 } }], concurrent, Some(1));
                let gaps: Vec<u32> = vec![0, 1, t - 1, t, t + 1];
                for n in 1..=n_ex {
                    let g: &[u32] = if n >= 4 { &gaps[1..4] } else { &gaps };
                    for h in all_histories(&[ka, kc, kd], n, g, 700) {
                        lines.push(mk_line("LAY", false, &cfg, &h));
                    }
                }
            }
        }
    }
    // (3) random: two tap-hold keys interleaved, all variants
    let n_rand = if thorough { 20000 } else { 2000 };
    for i in 0..n_rand {
        let t1 = *r.pick(&[2u32, 5, 10, 200]);
        let t2 = *r.pick(&[2u32, 5, 10, 200]);
        let ths = [
            Th { variant: r.below(7) as usize, t: t1, interval: if r.chance(1, 2) { 0 } else { *r.pick(&[2u32, 5, 50]) } },
            Th { variant: r.below(7) as usize, t: t2, interval: if r.chance(1, 2) { 0 } else { *r.pick(&[2u32, 5, 50]) } },
        ];
        let cfg = cfg_text(&ths, r.chance(1, 3), match r.below(3) { 0 => Some(0), 1 => Some(2), _ => None });
        let gaps = [0, 1, 2, t1 - 1, t1, t1 + 1, t2 - 1, t2, t2 + 1];
        let n_ev = if i % 15 == 0 { r.range(34, 60) } else { r.range(2, 14) } as usize;
        let h = consistent_history(&mut r, &[ka, kb, kc, kd], n_ev, &gaps, 700);
        lines.push(mk_line("LAY", false, &cfg, &h));
    }
    lines
}
