//! C05 generator: tap-hold variants with marker outputs (tap / hold / timeout actions are distinct
//! plain keys used nowhere else), plus plain keys; exhaustive small schedules with gaps around the
//! hold timeout and random two-tap-hold interleavings.
use crate::cfggen::*;
use crate::lay::{mk_line, HEv};
use crate::rng::Rng;

pub struct Th {
    pub variant: usize, // 0 tap-hold 1 press 2 release 3 press-timeout 4 release-timeout 5 release-keys 6 except-keys
    pub t: u32,
    pub interval: u32,
}

const M1: [&str; 3] = ["q", "w", "x"];
const M2: [&str; 3] = ["y", "z", "1"];

fn th_text(th: &Th, m: &[&str; 3]) -> String {
    let (tap, hold, to) = (m[0], m[1], m[2]);
    let (i, t) = (th.interval, th.t);
    match th.variant {
        0 => format!("(tap-hold {i} {t} {tap} {hold})"),
        1 => format!("(tap-hold-press {i} {t} {tap} {hold})"),
        2 => format!("(tap-hold-release {i} {t} {tap} {hold})"),
        3 => format!("(tap-hold-press-timeout {i} {t} {tap} {hold} {to})"),
        4 => format!("(tap-hold-release-timeout {i} {t} {tap} {hold} {to})"),
        5 => format!("(tap-hold-release-keys {i} {t} {tap} {hold} (c))"),
        _ => format!("(tap-hold-except-keys {i} {t} {tap} {hold} (c))"),
    }
}

pub fn cfg_text(ths: &[Th], concurrent: bool, red: Option<u16>) -> String {
    let mut s = String::from("(defcfg");
    if concurrent {
        s.push_str(" concurrent-tap-hold yes");
    }
    if let Some(d) = red {
        s.push_str(&format!(" rapid-event-delay {d}"));
    }
    s.push_str(")\n(defsrc a b c d)\n(deflayer l0 ");
    s.push_str(&th_text(&ths[0], &M1));
    s.push(' ');
    if ths.len() > 1 {
        s.push_str(&th_text(&ths[1], &M2));
    } else {
        s.push('b');
    }
    s.push_str(" c d)\n");
    s
}

const M3: [&str; 3] = ["2", "3", "4"];

/// ONE key whose press starts 2-3 tap-holds at once. `shape` 0: `(multi th (fork th XX (lalt)) …)` -
/// the parser's one-tap-hold-per-multi check does not look inside `fork`; 1: a `switch` whose cases
/// all hold and fall through (the actions go through the action queue, one per tick).
fn several_text(shape: usize, ths: &[Th]) -> String {
    let ms = [&M1, &M2, &M3];
    let mut s = String::new();
    if shape == 0 {
        s.push_str("(multi");
        for (i, th) in ths.iter().enumerate() {
            if i == 0 {
                s.push_str(&format!(" {}", th_text(th, ms[i])));
            } else {
                s.push_str(&format!(" (fork {} XX (lalt))", th_text(th, ms[i])));
            }
        }
        s.push(')');
    } else {
        s.push_str("(switch");
        for (i, th) in ths.iter().enumerate() {
            s.push_str(&format!(" () {} {}", th_text(th, ms[i]), if i + 1 == ths.len() { "break" } else { "fallthrough" }));
        }
        s.push(')');
    }
    s
}

/// Family (4), aimed at keyberon/src/layout.rs: `do_action` HoldTap with `self.waiting` already set
/// (`extra_waiting.push_back`), `process_extra_waitings`, the `idx >= 0` halves of
/// `waiting_into_hold / _tap / _timeout`, `tick`'s branch "nothing in `waiting` but extras pending",
/// and the queue-overflow path of `event` resolving every extra entry to hold.
fn several_on_one_key(r: &mut Rng, thorough: bool, lines: &mut Vec<String>) {
    let (ka, kb, kc, kd) = (code("a"), code("b"), code("c"), code("d"));
    // (variant, T) of the 2-3 tap-holds: equal timeouts (the later entry loses a tick), later entry
    // first, earlier entry first, press / release / timeout variants that decide on other keys
    let shapes: Vec<Vec<(usize, u32)>> = vec![
        vec![(0, 5), (0, 5)],
        vec![(0, 8), (0, 3)],
        vec![(0, 3), (0, 8)],
        vec![(1, 6), (2, 6)],
        vec![(2, 6), (1, 9)],
        vec![(3, 4), (4, 7)],
        vec![(0, 5), (1, 5), (2, 5)],
        vec![(4, 6), (3, 3), (0, 9)],
        vec![(5, 5), (6, 5)],
    ];
    let mut cfgs: Vec<(String, Vec<u32>)> = vec![];
    for (i, sh) in shapes.iter().enumerate() {
        for shape in 0..2 {
            let ths: Vec<Th> = sh.iter().map(|(v, t)| Th { variant: *v, t: *t, interval: if (i + shape) % 3 == 0 { 4 } else { 0 } }).collect();
            let mut s = String::from("(defcfg");
            if (i + shape) % 2 == 0 {
                s.push_str(" concurrent-tap-hold yes");
            }
            if i % 3 == 1 {
                s.push_str(" rapid-event-delay 0");
            }
            s.push_str(")\n(defsrc a b c d)\n(deflayer l0 ");
            s.push_str(&several_text(shape, &ths));
            s.push_str(" (tap-hold 0 6 5 6) c d)\n");
            let mut gaps: Vec<u32> = vec![0, 1];
            for (_, t) in sh {
                for g in [t - 1, *t, t + 1] {
                    if !gaps.contains(&g) {
                        gaps.push(g);
                    }
                }
            }
            cfgs.push((s, gaps));
        }
    }
    for (cfg, gaps) in &cfgs {
        // the key alone, held for every duration around the timeouts
        for j in gaps.iter().copied().chain([14u32]) {
            let mut h = vec![HEv::Press(0, ka)];
            if j > 0 {
                h.push(HEv::Tick(j));
            }
            h.push(HEv::Release(0, ka));
            h.push(HEv::Tick(700));
            lines.push(mk_line("LAY", false, cfg, &h));
        }
        // a plain key tapped / held inside the window: after g1 ticks, for g2 ticks
        for g1 in [0u32, 1, 2] {
            for g2 in [0u32, 1, 3] {
                for release_first in [false, true] {
                    let mut h = vec![HEv::Press(0, ka)];
                    if g1 > 0 {
                        h.push(HEv::Tick(g1));
                    }
                    h.push(HEv::Press(0, kc));
                    if g2 > 0 {
                        h.push(HEv::Tick(g2));
                    }
                    if release_first {
                        h.push(HEv::Release(0, ka));
                        h.push(HEv::Tick(1));
                        h.push(HEv::Release(0, kc));
                    } else {
                        h.push(HEv::Release(0, kc));
                        h.push(HEv::Tick(1));
                        h.push(HEv::Release(0, ka));
                    }
                    h.push(HEv::Tick(700));
                    lines.push(mk_line("LAY", false, cfg, &h));
                }
            }
        }
        // histories that END while entries are pending: the final digest then compares the
        // countdowns of `waiting` / `extra_waiting` and the queue with the model
        for j in [1u32, 2, 4] {
            lines.push(mk_line("LAY", false, cfg, &[HEv::Press(0, ka), HEv::Tick(j)]));
            lines.push(mk_line("LAY", false, cfg, &[HEv::Press(0, ka), HEv::Tick(1), HEv::Press(0, kc), HEv::Tick(j), HEv::Release(0, kc)]));
            lines.push(mk_line("LAY", false, cfg, &[HEv::Press(0, kb), HEv::Tick(j), HEv::Press(0, ka), HEv::Tick(1)]));
        }
        // random schedules over the key, a second (ordinary) tap-hold key and two plain keys
        for _ in 0..(if thorough { 200 } else { 12 }) {
            let n_ev = r.range(2, 10) as usize;
            let h = consistent_history(r, &[ka, kb, kc, kd], n_ev, gaps, 700);
            lines.push(mk_line("LAY", false, cfg, &h));
        }
    }
    // the queue overflows while the extras wait: every pending entry is resolved to hold at once
    for shape in 0..2 {
        let ths = [Th { variant: 0, t: 200, interval: 0 }, Th { variant: 0, t: 150, interval: 0 }, Th { variant: 2, t: 200, interval: 0 }];
        let cfg = format!("(defcfg)\n(defsrc a b c d)\n(deflayer l0 {} b c d)\n", several_text(shape, &ths));
        for n in [31usize, 32, 33, 40] {
            for gap in [0u32, 1] {
                let mut h = vec![HEv::Press(0, ka), HEv::Tick(4)];
                for i in 0..n {
                    let k = [kc, kd][(i / 2) % 2];
                    h.push(if i % 2 == 0 { HEv::Press(0, k) } else { HEv::Release(0, k) });
                    if gap > 0 {
                        h.push(HEv::Tick(gap));
                    }
                }
                h.push(HEv::Release(0, kc));
                h.push(HEv::Release(0, kd));
                h.push(HEv::Release(0, ka));
                h.push(HEv::Tick(700));
                lines.push(mk_line("LAY", false, &cfg, &h));
            }
        }
    }
}

pub fn gen(tier: &str, seed: u64) -> Vec<String> {
    let mut r = Rng::new(seed ^ 0xC05);
    let thorough = tier == "thorough";
    let mut lines = vec![];
    if tier == "cov" || tier == "covt" {
        // only the families that were added to reach otherwise unexecuted code (debugging aid;
        // "covt" = their thorough-tier size)
        several_on_one_key(&mut r, tier == "covt", &mut lines);
        return lines;
    }
    let (ka, kb, kc, kd) = (code("a"), code("b"), code("c"), code("d"));
    // (1) lone key: every variant x T x concurrent x every hold duration around T
    for variant in 0..7 {
        for t in [2u32, 5, 200] {
            for concurrent in [false, true] {
                for interval in [0u32, 3] {
                    let cfg = cfg_text(&[Th { variant, t, interval }], concurrent, None);
                    for j in [0u32, 1, t.saturating_sub(2), t - 1, t, t + 1, t + 2] {
                        let mut h = vec![HEv::Press(0, ka)];
                        if j > 0 {
                            h.push(HEv::Tick(j));
                        }
                        h.push(HEv::Release(0, ka));
                        h.push(HEv::Tick(700));
                        lines.push(mk_line("LAY", false, &cfg, &h));
                    }
                }
            }
        }
    }
    // (2) exhaustive schedules over the tap-hold key and two plain keys
    let n_ex = if thorough { 5 } else { 4 };
    for variant in 0..7 {
        for t in if thorough { vec![2u32, 5] } else { vec![5u32] } {
            for concurrent in [false, true] {
                if !thorough && concurrent && variant % 2 == 1 {
                    continue;
                }
                let cfg = cfg_text(&[Th { variant, t, interval: if variant % 3 == 0 { 0 } else { 4 } }], concurrent, Some(1));
                let gaps: Vec<u32> = vec![0, 1, t - 1, t, t + 1];
                for n in 1..=n_ex {
                    let g: &[u32] = if n >= 4 { &gaps[1..4] } else { &gaps };
                    for h in all_histories(&[ka, kc, kd], n, g, 700) {
                        lines.push(mk_line("LAY", false, &cfg, &h));
                    }
                }
            }
        }
    }
    // (3) random: two tap-hold keys interleaved, all variants
    let n_rand = if thorough { 20000 } else { 2000 };
    for i in 0..n_rand {
        let t1 = *r.pick(&[2u32, 5, 10, 200]);
        let t2 = *r.pick(&[2u32, 5, 10, 200]);
        let ths = [
            Th { variant: r.below(7) as usize, t: t1, interval: if r.chance(1, 2) { 0 } else { *r.pick(&[2u32, 5, 50]) } },
            Th { variant: r.below(7) as usize, t: t2, interval: if r.chance(1, 2) { 0 } else { *r.pick(&[2u32, 5, 50]) } },
        ];
        let cfg = cfg_text(&ths, r.chance(1, 3), match r.below(3) { 0 => Some(0), 1 => Some(2), _ => None });
        let gaps = [0, 1, 2, t1 - 1, t1, t1 + 1, t2 - 1, t2, t2 + 1];
        let n_ev = if i % 15 == 0 { r.range(34, 60) } else { r.range(2, 14) } as usize;
        let h = consistent_history(&mut r, &[ka, kb, kc, kd], n_ev, &gaps, 700);
        lines.push(mk_line("LAY", false, &cfg, &h));
    }
    // (4) several tap-holds started by one key press (extra_waiting)
    several_on_one_key(&mut r, thorough, &mut lines);
    lines
}
