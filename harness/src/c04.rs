//! C04 generator: layered remapping fragment (plain keys, output chords, multi, XX, _, use-defsrc,
//! layer-while-held, layer-switch, release-key, release-layer) on 1–4 layers over 2–6 mapped keys.
use crate::cfggen::*;
use crate::lay::{self, mk_line, HEv};
use crate::rng::Rng;

/// the key codes a chord prefix stands for, in the order the parser lists them
fn prefix_codes(p: &str) -> Vec<u16> {
    match p {
        "C" => vec![code("lctl")],
        "S" => vec![code("lsft")],
        "A" => vec![code("lalt")],
        "RA" => vec![code("ralt")],
        _ => vec![code("lctl"), code("lsft")],
    }
}

/// One action of the fragment: its configuration text, and the action tree it is meant to denote, in
/// the token form of the harness serialiser (`ser.rs`), with nested `multi` flattened as the parser
/// does. The second component is the generator's INTENT, independent of the parser.
fn gen_simple(r: &mut Rng, nlayers: usize, depth: u32) -> (String, Vec<String>) {
    match r.below(if depth == 0 { 14 } else { 11 }) {
        0..=2 => {
            let k = *r.pick(&OUT_KEYS);
            (k.to_string(), vec![format!("k {}", code(k))])
        }
        3 => {
            let p = *r.pick(&["C", "S", "A", "RA", "C-S"]);
            let k = *r.pick(&["q", "w", "x", "1"]);
            let mut cs = prefix_codes(p);
            cs.push(code(k));
            (format!("{p}-{k}"), vec![format!("mk {} {}", cs.len(), cs.iter().map(|c| c.to_string()).collect::<Vec<_>>().join(" "))])
        }
        4 => ("XX".into(), vec!["n".into()]),
        5 | 6 => ("_".into(), vec!["t".into()]),
        7 => ("use-defsrc".into(), vec!["src".into()]),
        8 => {
            let l = r.below(nlayers as u64);
            (format!("(layer-while-held l{l})"), vec![format!("l {l}")])
        }
        9 => {
            let l = r.below(nlayers as u64);
            (format!("(layer-switch l{l})"), vec![format!("dl {l}")])
        }
        10 => {
            if r.chance(1, 2) {
                let k = *r.pick(&OUT_KEYS);
                (format!("(release-key {k})"), vec![format!("rk {}", code(k))])
            } else {
                let l = r.below(nlayers as u64);
                (format!("(release-layer l{l})"), vec![format!("rl {l}")])
            }
        }
        _ => {
            let n = r.range(2, 3);
            let mut s = String::from("(multi");
            let mut leaves: Vec<String> = vec![];
            for _ in 0..n {
                s.push(' ');
                let (t, toks) = gen_simple(r, nlayers, depth + 1);
                s.push_str(&t);
                leaves.extend(toks);
            }
            s.push(')');
            (s, leaves)
        }
    }
}

/// a whole cell: a multi becomes `ma <n> leaves…`, anything else is its single token
fn cell_tok(toks: &[String], is_multi: bool) -> String {
    if is_multi {
        format!("ma {} {}", toks.len(), toks.join(" "))
    } else {
        toks[0].clone()
    }
}

pub fn gen_cfg(r: &mut Rng) -> (String, Vec<u16>) {
    let nkeys = r.range(2, 6) as usize;
    let nlayers = r.range(1, 4) as usize;
    let opts = Opts::random(r);
    let mut s = opts.text();
    s.push_str("(defsrc");
    for k in &KEYS[..nkeys] {
        s.push(' ');
        s.push_str(k);
    }
    s.push_str(")\n");
    // INTENT: what every cell of the layer table is meant to hold - written into the configuration
    // as a comment, compared by `eval` with what the real parser built
    let mut intent = format!(";; INTENT {nlayers}");
    for l in 0..nlayers {
        s.push_str(&format!("(deflayer l{l}"));
        for i in 0..nkeys {
            s.push(' ');
            let (t, toks) = gen_simple(r, nlayers, 0);
            intent.push_str(&format!(" | {l} {} {}", code(KEYS[i]), cell_tok(&toks, t.starts_with("(multi"))));
            s.push_str(&t);
        }
        // a key that is not in defsrc: blocked on every layer, or transparent on every layer
        intent.push_str(&format!(" | {l} {} {}", code("m"), if opts.block_unmapped { "n" } else { "t" }));
        s.push_str(")\n");
    }
    s.push_str(&intent);
    s.push('\n');
    let mut keys: Vec<u16> = KEYS[..nkeys].iter().map(|k| code(k)).collect();
    if opts.process_unmapped || r.chance(1, 3) {
        // an unmapped key also takes part in the history
        keys.push(code("m"));
    }
    (s, keys)
}

/// Fixed small configs for the exhaustive family.
pub fn fixed_cfgs() -> Vec<(String, Vec<u16>)> {
    let ks = vec![code("a"), code("b"), code("c")];
    let mut v = vec![];
    for (ls, dg) in [(true, false), (false, true), (true, true), (false, false)] {
        let o = format!(
            "(defcfg transparent-key-resolution {} delegate-to-first-layer {})\n",
            if ls { "layer-stack" } else { "to-base-layer" },
            if dg { "yes" } else { "no" }
        );
        v.push((format!("{o}(defsrc a b c)\n(deflayer l0 (layer-while-held l1) (layer-while-held l2) x)\n(deflayer l1 _ (layer-switch l2) y)\n(deflayer l2 S-1 _ _)\n"), ks.clone()));
        // a held layer over a switched base layer, transparent all the way down to the first layer
        v.push((format!("{o}(defsrc a b c)\n(deflayer l0 x (layer-switch l1) XX)\n(deflayer l1 _ XX (layer-while-held l2))\n(deflayer l2 _ (layer-switch l0) XX)\n"), ks.clone()));
        v.push((format!("{o}(defsrc a b c)\n(deflayer l0 q (layer-while-held l1) (multi lsft (layer-while-held l2)))\n(deflayer l1 (multi _ w) XX (release-key lsft))\n(deflayer l2 use-defsrc (release-layer l1) C-q)\n"), ks.clone()));
    }
    v
}

/// Family aimed at keyberon/src/layout.rs `resolve_coord`: a transparent action on the virtual-key
/// row (row 1) that falls through every layer resolves to no-op, NOT to `src_keys[column]` - the
/// virtual key v30 sits in the column whose number is the key code of `a` (30), v31 in the column of
/// `s`, so reading `src_keys` there would type a defsrc key.
fn virtual_row_family(r: &mut Rng, thorough: bool, lines: &mut Vec<String>) {
    let ks = [code("a"), code("b"), code("s")];
    for (ls, dg) in [(true, false), (false, true), (true, true), (false, false)] {
        let mut cfg = format!(
            "(defcfg transparent-key-resolution {} delegate-to-first-layer {})\n(defsrc a b s)\n(defvirtualkeys",
            if ls { "layer-stack" } else { "to-base-layer" },
            if dg { "yes" } else { "no" }
        );
        for v in 0..32 {
            cfg.push_str(&format!(
                " v{v} {}",
                match v {
                    1 => "x",
                    2 => "(layer-while-held l1)",
                    3 => "use-defsrc",
                    30 => "_",
                    31 => "(multi _ w)",
                    _ => "XX",
                }
            ));
        }
        cfg.push_str(")\n(deflayer l0 q (layer-while-held l1) _)\n(deflayer l1 _ (layer-switch l1) y)\n");
        let vs = [30u16, 31, 3, 1, 2];
        // every virtual key alone, and under the layer held by a real / by a virtual key
        for v in vs {
            for under in [None, Some(HEv::Press(0, ks[1])), Some(HEv::Press(1, 2))] {
                let mut h = vec![];
                if let Some(u) = &under {
                    h.push(u.clone());
                    h.push(HEv::Tick(2));
                }
                h.push(HEv::Press(1, v));
                h.push(HEv::Tick(2));
                h.push(HEv::Press(0, ks[0]));
                h.push(HEv::Tick(1));
                h.push(HEv::Press(0, ks[2]));
                h.push(HEv::Tick(2));
                h.push(HEv::Release(1, v));
                h.push(HEv::Tick(1));
                h.push(HEv::Release(0, ks[0]));
                h.push(HEv::Release(0, ks[2]));
                match under {
                    Some(HEv::Press(row, y)) => h.push(HEv::Release(row, y)),
                    _ => {}
                }
                h.push(HEv::Tick(6));
                lines.push(mk_line("LAY", false, &cfg, &h));
            }
        }
        // random consistent histories over the three real keys and the five virtual keys
        for _ in 0..(if thorough { 300 } else { 20 }) {
            let n_ev = r.range(2, 14) as usize;
            let all: Vec<u16> = (0..8).collect();
            let h0 = consistent_history(r, &all, n_ev, &[0, 1, 1, 2], 6);
            let h: Vec<HEv> = h0
                .into_iter()
                .map(|e| match e {
                    HEv::Press(_, i) if i < 3 => HEv::Press(0, ks[i as usize]),
                    HEv::Release(_, i) if i < 3 => HEv::Release(0, ks[i as usize]),
                    HEv::Press(_, i) => HEv::Press(1, vs[i as usize - 3]),
                    HEv::Release(_, i) => HEv::Release(1, vs[i as usize - 3]),
                    t => t,
                })
                .collect();
            lines.push(mk_line("LAY", false, &cfg, &h));
        }
    }
}

/// Family aimed at the 12-entry layer stack: within the statement's bounds (4 layers, 6 keys) a `multi`
/// of several layer-while-held actions holds 3-4 layers per key, so 2-4 pressed keys hold 6-16 layers;
/// then a key that is transparent on every held layer (base layer expected) and a key that is mapped
/// on the OLDEST held layer only are pressed.
fn many_held_layers_family(r: &mut Rng, thorough: bool, lines: &mut Vec<String>) {
    let ks: Vec<u16> = ["a", "b", "c", "d", "e", "f"].iter().map(|k| code(k)).collect();
    for dg in [false, true] {
        for four in [false, true] {
            let (ma, mb) = if four {
                ("(multi (layer-while-held l1) (layer-while-held l2) (layer-while-held l2) (layer-while-held l2))",
                 "(multi (layer-while-held l2) (layer-while-held l3) (layer-while-held l2) (layer-while-held l3))")
            } else {
                ("(multi (layer-while-held l1) (layer-while-held l2) (layer-while-held l3))",
                 "(multi (layer-while-held l2) (layer-while-held l3) (layer-while-held l2))")
            };
            let cfg = format!(
                "(defcfg transparent-key-resolution layer-stack delegate-to-first-layer {})
(defsrc a b c d e f)
(deflayer l0 {ma} {mb} {mb} {mb} x q)
(deflayer l1 _ _ _ _ _ y)
(deflayer l2 _ _ _ _ _ _)
(deflayer l3 _ _ _ _ _ _)
",
                if dg { "yes" } else { "no" }
            );
            for npress in 2..=4usize {
                for rev_release in [false, true] {
                    let mut h = vec![];
                    for k in &ks[..npress] {
                        h.push(HEv::Press(0, *k));
                        h.push(HEv::Tick(2));
                    }
                    for k in [ks[4], ks[5]] {
                        h.push(HEv::Press(0, k));
                        h.push(HEv::Tick(2));
                        h.push(HEv::Release(0, k));
                        h.push(HEv::Tick(2));
                    }
                    let mut rel: Vec<u16> = ks[..npress].to_vec();
                    if rev_release {
                        rel.reverse();
                    }
                    for k in rel {
                        h.push(HEv::Release(0, k));
                        h.push(HEv::Tick(1));
                    }
                    h.push(HEv::Tick(6));
                    lines.push(mk_line("LAY", false, &cfg, &h));
                }
            }
            for _ in 0..(if thorough { 200 } else { 12 }) {
                let n_ev = r.range(6, 16) as usize;
                let h = consistent_history(r, &ks, n_ev, &[0, 1, 2], 6);
                lines.push(mk_line("LAY", false, &cfg, &h));
            }
        }
    }
}

/// Family aimed at the emission step: several held keys with the SAME output key (the layout's key
/// list then holds it more than once) that go away in one tick through release-key / release-layer.
fn duplicate_output_family(r: &mut Rng, thorough: bool, lines: &mut Vec<String>) {
    let ks: Vec<u16> = ["a", "b", "c", "d"].iter().map(|k| code(k)).collect();
    for out in ["lsft", "x"] {
        for (c3, c4) in [(format!("(release-key {out})"), "y".to_string()), ("(layer-while-held l1)".to_string(), format!("(multi {out} S-{})", if out == "x" { "w" } else { "x" }))] {
            let cfg = format!(
                "(defsrc a b c d)
(deflayer l0 {out} {out} {c3} {c4})
(deflayer l1 (release-key {out}) _ _ (release-layer l1))
"
            );
            let mut h = vec![];
            for k in &ks[..3] {
                h.push(HEv::Press(0, *k));
                h.push(HEv::Tick(3));
            }
            for k in &ks[..3] {
                h.push(HEv::Release(0, *k));
                h.push(HEv::Tick(2));
            }
            h.push(HEv::Tick(6));
            lines.push(mk_line("LAY", false, &cfg, &h));
            for _ in 0..(if thorough { 150 } else { 15 }) {
                let n_ev = r.range(3, 12) as usize;
                let h = consistent_history(r, &ks, n_ev, &[0, 1, 2], 6);
                lines.push(mk_line("LAY", false, &cfg, &h));
            }
        }
    }
}

pub fn gen(tier: &str, seed: u64) -> Vec<String> {
    let mut r = Rng::new(seed ^ 0xC04);
    let thorough = tier == "thorough";
    let mut lines = vec![];
    if tier == "cov" || tier == "covt" {
        // only the families that were added to reach otherwise unexecuted code (debugging aid;
        // "covt" = their thorough-tier size)
        virtual_row_family(&mut r, tier == "covt", &mut lines);
        return lines;
    }
    // exhaustive small histories on fixed configs
    let n_ex = if thorough { 6 } else { 4 };
    for (cfg, keys) in fixed_cfgs() {
        for n in 1..=n_ex {
            for h in all_histories(&keys, n, if n >= 5 { &[0, 1] } else { &[0, 1, 2] }, 6) {
                lines.push(mk_line("LAY", false, &cfg, &h));
            }
        }
    }
    // random configs and histories, including bursts that overflow the 32-slot queue
    let n_rand = if thorough { 20000 } else { 1500 };
    for i in 0..n_rand {
        let (cfg, keys) = gen_cfg(&mut r);
        let n_ev = if i % 10 == 0 { r.range(40, 90) } else { r.range(1, 20) } as usize;
        let gaps: &[u32] = if i % 10 == 0 { &[0, 0, 0, 1] } else { &[0, 1, 1, 2, 5] };
        let mut h = consistent_history(&mut r, &keys, n_ev, gaps, 10);
        if i % 23 == 0 {
            // physically inconsistent extras
            let k = *r.pick(&keys);
            h.insert(0, HEv::Release(0, k));
            h.insert(1, HEv::Press(0, k));
            h.insert(2, HEv::Press(0, k));
        }
        lines.push(mk_line("LAY", false, &cfg, &h));
    }
    // transparent actions on the virtual-key row
    virtual_row_family(&mut r, thorough, &mut lines);
    // their own stream, so that the families above keep their cases
    let mut r2 = Rng::new(seed ^ 0xC04B);
    many_held_layers_family(&mut r2, thorough, &mut lines);
    duplicate_output_family(&mut r2, thorough, &mut lines);
    lines
}


/// `lay::eval` plus the comparison of the layer table the real parser built with the generator's
/// intent (when the configuration carries one): ` TBL=ok` or ` TBL=diff:<layer>.<code>:<got>!=<want>`
pub fn eval(line: &str) -> String {
    let out = eval_tbl(line);
    if out.starts_with("rej") || out.starts_with("crash") {
        return out;
    }
    let p = lay::parse_line(line);
    let (os, max_held) = os_emission_verdict(&p.cfg_text, &p.hist);
    // MAXHELD (the largest number of layers held at once, read from the real layout after every
    // tick) is a diagnosis for the known-finding matcher; the runner strips it before comparing
    format!("{out} OS={os} MAXHELD={max_held}")
}

/// The emission step on the real `Kanata` (simulated output sink): the OS key events must be the
/// ordered, de-duplicated diff of consecutive key lists - never a release of a key that is up at the
/// OS, never a press of a key that is down. `ok`, or the first offending event.
fn os_emission_verdict(cfg_text: &str, hist: &[HEv]) -> (String, usize) {
    let (v, m) = os_emission_run(cfg_text, hist);
    (v.unwrap_or_else(|| "ok".into()), m)
}

fn os_emission_run(cfg_text: &str, hist: &[HEv]) -> (Option<String>, usize) {
    use crate::kan::Runner;
    use kanata_keyberon::layout::State;
    use kanata_state_machine::oskbd::KeyValue;
    if hist.iter().any(|e| matches!(e, HEv::Press(r, _) | HEv::Release(r, _) if *r != 0)) {
        return (None, 0); // virtual-key rows are operated on the layout directly
    }
    let mut r = match Runner::new(cfg_text) {
        Ok(r) => r,
        Err(_) => return (None, 0),
    };
    let mut max_held = 0usize;
    for e in hist {
        match e {
            HEv::Press(_, y) => r.input(*y, KeyValue::Press),
            HEv::Release(_, y) => r.input(*y, KeyValue::Release),
            HEv::Tick(n) => {
                for _ in 0..*n {
                    r.tick();
                    let held = r.k.layout.b().states.iter().filter(|s| matches!(s, State::LayerModifier { .. })).count();
                    max_held = max_held.max(held);
                }
            }
        }
    }
    (os_scan(&r.out), max_held)
}

fn os_scan(out: &[String]) -> Option<String> {
    let mut down: Vec<String> = vec![];
    for item in out {
        let mut it = item.split(' ');
        let at = it.next().unwrap_or("");
        for ev in it {
            if let Some(k) = ev.strip_prefix('d') {
                if k.chars().all(|c| c.is_ascii_digit()) {
                    if down.iter().any(|d| d == k) {
                        return Some(format!("dup-press:{k}{at}"));
                    }
                    down.push(k.to_string());
                }
            } else if let Some(k) = ev.strip_prefix('u') {
                if k.chars().all(|c| c.is_ascii_digit()) {
                    if !down.iter().any(|d| d == k) {
                        return Some(format!("dup-release:{k}{at}"));
                    }
                    down.retain(|d| d != k);
                }
            }
        }
    }
    None
}

fn eval_tbl(line: &str) -> String {
    let out = lay::eval(line);
    if out.starts_with("rej") || out.starts_with("crash") {
        return out;
    }
    let p = lay::parse_line(line);
    let Some(il) = p.cfg_text.lines().find(|l| l.starts_with(";; INTENT ")) else {
        return format!("{out} TBL=ok");
    };
    let c = match lay::parse_cfg(&p.cfg_text) {
        Ok(c) => c,
        Err(_) => return out,
    };
    // cells of the parsed table, as the serialiser prints them: `NL <n> {<cnt> (<r> <y> <action…>)*}*`
    let (text, _) = lay::serialise_cfg(&c, &[HEv::Press(0, code("m"))]);
    let toks: Vec<&str> = text.split(' ').collect();
    let mut got: std::collections::HashMap<(usize, u16), String> = Default::default();
    if let Some(i) = toks.iter().position(|t| *t == "NL") {
        let nl: usize = toks[i + 1].parse().unwrap_or(0);
        let mut j = i + 2;
        for l in 0..nl {
            let cnt: usize = toks[j].parse().unwrap_or(0);
            j += 1;
            for _ in 0..cnt {
                let r: u16 = toks[j].parse().unwrap_or(9);
                let y: u16 = toks[j + 1].parse().unwrap_or(0);
                let start = j + 2;
                let mut k = start;
                // an action ends where the next `<r> <y>` pair of this layer, the next layer count or
                // `SRC` begins: actions of the fragment are self-delimiting, so parse by arity
                k = action_end(&toks, k);
                if r == 0 {
                    got.insert((l, y), toks[start..k].join(" "));
                }
                j = k;
            }
        }
    }
    for cell in il[";; INTENT ".len()..].split(" | ").skip(1) {
        let mut it = cell.splitn(3, ' ');
        let l: usize = it.next().unwrap().parse().unwrap();
        let y: u16 = it.next().unwrap().parse().unwrap();
        let want = it.next().unwrap().to_string();
        let g = got.get(&(l, y)).cloned().unwrap_or_else(|| "t".to_string());
        if g != want {
            return format!("{out} TBL=diff:{l}.{y}:{}!={}", g.replace(' ', "_"), want.replace(' ', "_"));
        }
    }
    format!("{out} TBL=ok")
}

/// index just past the action that starts at `i` (fragment actions only)
fn action_end(t: &[&str], i: usize) -> usize {
    match t[i] {
        "n" | "t" | "src" => i + 1,
        "k" | "l" | "dl" | "rk" | "rl" => i + 2,
        "mk" => i + 2 + t[i + 1].parse::<usize>().unwrap_or(0),
        "ma" => {
            let n: usize = t[i + 1].parse().unwrap_or(0);
            let mut k = i + 2;
            for _ in 0..n {
                k = action_end(t, k);
            }
            k
        }
        _ => i + 1,
    }
}
