//! C04 generator: layered remapping fragment (plain keys, output chords, multi, XX, _, use-defsrc,
//! layer-while-held, layer-switch, release-key, release-layer) on 1–4 layers over 2–6 mapped keys.
use crate::cfggen::*;
use crate::lay::{mk_line, HEv};
use crate::rng::Rng;

fn gen_simple(r: &mut Rng, nlayers: usize, depth: u32) -> String {
    match r.below(if depth == 0 { 14 } else { 11 }) {
        0..=2 => (*r.pick(&OUT_KEYS)).to_string(),
        3 => format!("{}-{}", r.pick(&["C", "S", "A", "RA", "C-S"]), r.pick(&["q", "w", "x", "1"])),
        4 => "XX".into(),
        5 | 6 => "_".into(),
        7 => "use-defsrc".into(),
        8 => format!("(layer-while-held l{})", r.below(nlayers as u64)),
        9 => format!("(layer-switch l{})", r.below(nlayers as u64)),
        10 => {
            if r.chance(1, 2) {
                format!("(release-key {})", r.pick(&OUT_KEYS))
            } else {
                format!("(release-layer l{})", r.below(nlayers as u64))
            }
        }
        _ => {
            let n = r.range(2, 3);
            let mut s = String::from("(multi");
            for _ in 0..n {
                s.push(' ');
                s.push_str(&gen_simple(r, nlayers, depth + 1));
            }
            s.push(')');
            s
        }
    }
}

pub fn gen_cfg(r: &mut Rng) -> (String, Vec<u16>) {
    let nkeys = r.range(2, 6) as usize;
    let nlayers = r.range(1, 4) as usize;
    let opts = Opts::random(r);
    let mut s = opts.text();
    s.push_str("(defsrc");
    for k in &KEYS[..nkeys] {
        s.push(' ');
        s.push_str(k);
    }
    s.push_str(")\n");
    for l in 0..nlayers {
        s.push_str(&format!("(deflayer l{l}"));
        for _ in 0..nkeys {
            s.push(' ');
            s.push_str(&gen_simple(r, nlayers, 0));
        }
        s.push_str(")\n");
    }
    let mut keys: Vec<u16> = KEYS[..nkeys].iter().map(|k| code(k)).collect();
    if opts.process_unmapped || r.chance(1, 3) {
        // an unmapped key also takes part in the history
        keys.push(code("m"));
    }
    (s, keys)
}

/// Fixed small configs for the exhaustive family.
pub fn fixed_cfgs() -> Vec<(String, Vec<u16>)> {
    let ks = vec![code("a"), code("b"), code("c")];
    let mut v = vec![];
    for (ls, dg) in [(true, false), (false, true), (true, true), (false, false)] {
        let o = format!(
            "(defcfg transparent-key-resolution {} delegate-to-first-layer {})\n",
            if ls { "layer-stack" } else { "to-base-layer" },
            if dg { "yes" } else { "no" }
        );
        v.push((format!("{o}(defsrc a b c)\n(deflayer l0 (layer-while-held l1) (layer-while-held l2) x)\n(deflayer l1 _ (layer-switch l2) y)\n(deflayer l2 S-1 _ _)\n"), ks.clone()));
        v.push((format!("{o}(defsrc a b c)\n(deflayer l0 q (layer-while-held l1) (multi lsft (layer-while-held l2)))\n(deflayer l1 (multi _ w) XX (release-key lsft))\n(deflayer l2 use-defsrc (release-layer l1) C-q)\n"), ks.clone()));
    }
    v
}

pub fn gen(tier: &str, seed: u64) -> Vec<String> {
    let mut r = Rng::new(seed ^ 0xC04);
    let thorough = tier == "thorough";
    let mut lines = vec![];
    // exhaustive small histories on fixed configs
    let n_ex = if thorough { 6 } else { 4 };
    for (cfg, keys) in fixed_cfgs() {
        for n in 1..=n_ex {
            for h in all_histories(&keys, n, if n >= 5 { &[0, 1] } else { &[0, 1, 2] }, 6) {
                lines.push(mk_line("LAY", false, &cfg, &h));
            }
        }
    }
    // random configs and histories, including bursts that overflow the 32-slot queue
    let n_rand = if thorough { 20000 } else { 1500 };
    for i in 0..n_rand {
        let (cfg, keys) = gen_cfg(&mut r);
        let n_ev = if i % 10 == 0 { r.range(40, 90) } else { r.range(1, 20) } as usize;
        let gaps: &[u32] = if i % 10 == 0 { &[0, 0, 0, 1] } else { &[0, 1, 1, 2, 5] };
        let mut h = consistent_history(&mut r, &keys, n_ev, gaps, 10);
        if i % 23 == 0 {
            // physically inconsistent extras
            let k = *r.pick(&keys);
            h.insert(0, HEv::Release(0, k));
            h.insert(1, HEv::Press(0, k));
            h.insert(2, HEv::Press(0, k));
        }
        lines.push(mk_line("LAY", false, &cfg, &h));
    }
    lines
}
