//! KALL: kanata-level correspondence over the whole action grammar incl. custom actions.
use crate::cfggen::*;
use crate::kan::{mk_kline, KEv};
use crate::lay::HEv;
use crate::rng::Rng;

pub fn gen(tier: &str, seed: u64) -> Vec<String> {
    let mut r = Rng::new(seed ^ 0xCA11);
    let n = if tier == "thorough" { 30000 } else { 2500 };
    let mut lines = vec![];
    for i in 0..n {
        let (cfg, keys) = gen_full_cfg(&mut r, true);
        let n_ev = if i % 12 == 0 { r.range(40, 80) } else { r.range(1, 20) } as usize;
        let gaps: &[u32] = match i % 4 {
            0 => &[0, 1, 2, 3, 5],
            1 => &[0, 1, 4, 9, 10, 11],
            2 => &[1, 2, 49, 50, 51, 199, 200, 201],
            _ => &[0, 0, 1, 30],
        };
        let h = consistent_history(&mut r, &keys, n_ev, gaps, 700);
        let mut kh: Vec<KEv> = vec![];
        let mut down: Vec<u16> = vec![];
        for e in h {
            match &e {
                HEv::Press(_, y) => down.push(*y),
                HEv::Release(_, y) => down.retain(|k| k != y),
                _ => {}
            }
            kh.push(KEv::L(e));
            if !down.is_empty() && r.chance(1, 6) {
                kh.push(KEv::Rep(*r.pick(&down)));
            }
        }
        lines.push(mk_kline("KAN", false, &cfg, &kh));
    }
    lines
}
