//! KALL: kanata-level correspondence over the whole action grammar incl. custom actions.
use crate::cfggen::*;
use crate::kan::{mk_kline, KEv};
use crate::lay::HEv;
use crate::rng::Rng;

pub fn gen(tier: &str, seed: u64) -> Vec<String> {
    let n = if tier == "thorough" { 30000 } else { 2500 };
    let mut lines = gen_part(seed ^ 0xCA11, n, false);
    // chv2: the same grammar with a `defchordsv2` table (appended: the cases above are what they were)
    lines.extend(gen_part(seed ^ 0xCA11C2, n / 3, true));
    // [dyn] configurations with dynamic-macro keys
    lines.extend(crate::kandyn::gen_lines(tier, seed ^ 0x55, 300));
    lines
}

/// whole-grammar kanata-level cases with a `defchordsv2` table, with processing-loop gaps in a third
pub fn gen_chv2(seed: u64, n: usize) -> Vec<String> {
    gen_part(seed ^ 0xC09CA11, n, true)
}

fn gen_part(seed: u64, n: usize, chv2: bool) -> Vec<String> {
    let mut r = Rng::new(seed);
    let mut lines = vec![];
    for i in 0..n {
        let (cfg, keys) = if chv2 { crate::chv2gen::gen_full_cfg_chv2(&mut r, true) } else { gen_full_cfg(&mut r, true) };
        let n_ev = if i % 12 == 0 { r.range(40, 80) } else { r.range(1, 20) } as usize;
        let gaps: &[u32] = match i % 4 {
            0 => &[0, 1, 2, 3, 5],
            1 => &[0, 1, 4, 9, 10, 11],
            2 => &[1, 2, 49, 50, 51, 199, 200, 201],
            _ => &[0, 0, 1, 30],
        };
        let h = consistent_history(&mut r, &keys, n_ev, gaps, 700);
        let mut kh: Vec<KEv> = vec![];
        let mut down: Vec<u16> = vec![];
        for e in h {
            match &e {
                HEv::Press(_, y) => down.push(*y),
                HEv::Release(_, y) => down.retain(|k| k != y),
                _ => {}
            }
            kh.push(KEv::L(e));
            if !down.is_empty() && r.chance(1, 6) {
                kh.push(KEv::Rep(*r.pick(&down)));
            }
        }
        if chv2 && i % 3 == 2 {
            // the processing loop: tick runs become gaps (can_block / chords-v2 cool-down clause)
            for e in kh.iter_mut() {
                if let KEv::L(HEv::Tick(n)) = e {
                    *e = KEv::Gap(*n);
                }
            }
            kh.retain(|e| !matches!(e, KEv::Rep(_)));
        }
        lines.push(mk_kline("KAN", false, &cfg, &kh));
    }
    lines
}
